/-
C04 (BTOR2 part) — a failing source is always reported as an I/O error.

On the view, `fault = true` means the stream ends where the source failed.  The theorems: the
BTOR2 parser never reports such input as completely parsed, and an I/O error is only ever
reported for a failing source.  (F10: `comment_body` used to hand out a comment cut short by the
failure as a regular line; the model is of the repaired code, whose `comment_body` consults the
parked error.)
-/
import Flussab.Proof.Btor2ParserSafe

namespace Flussab.C04
open Flussab Flussab.Btor2 PM

/-- **A failing source never yields a clean end**, and an `io` outcome implies a failing source:
the final outcome over a failing source is `io` or a syntax error. -/
theorem btor2_fault_final (b : VBytes) (fault : Bool) (hsize : b.length < 2 ^ 63) :
    ((parseAll (LR.init b fault)).2 = none → fault = false) ∧
    ((parseAll (LR.init b fault)).2 = some .io → fault = true) := by
  have hinv := inv_init b fault (SizeOK.of_lt hsize)
  have hlen : (LR.init b fault).v.rest.length < (LR.init b fault).v.rest.length + 2 := by omega
  obtain ⟨h1, h2⟩ := driveLines_ok ((LR.init b fault).v.rest.length + 2) [] (LR.init b fault) hinv hlen
  unfold parseAll
  generalize driveLines ((LR.init b fault).v.rest.length + 2) [] (LR.init b fault) = r at *
  obtain ⟨items, fin, lr'⟩ := r
  simp only at h1 h2 ⊢
  exact ⟨fun hn => (h2 hn).1, fun hio => (h1 _ hio).2⟩

/-- A syntax error over a failing source was raised before the reader hit the end of the data
(it is the error the fault-free run would raise too: the view answers identically below the
fault offset). -/
theorem btor2_fault_syntax_before_end (b : VBytes) (hsize : b.length < 2 ^ 63) (l c : Nat) :
    (driveLines (b.length + 2) [] (LR.init b true)).2.1 = some (.syn l c) →
    (driveLines (b.length + 2) [] (LR.init b true)).2.2.v.sawEnd = false := by
  intro hs
  have hinv := inv_init b true (SizeOK.of_lt hsize)
  have hlen : (LR.init b true).v.rest.length < b.length + 2 := by simp [LR.init, View.init]
  obtain ⟨h1, _⟩ := driveLines_ok (b.length + 2) [] (LR.init b true) hinv hlen
  exact (h1 _ hs).2.2 rfl

/-- Non-vacuity / regression for F10: the source fails inside a trailing comment — the outcome
is `io` and no line is handed out; the same bytes from a source that ends normally give the line. -/
example :
    -- "1 sort bitvec 1 ; tr"
    (parseAll (LR.init [49, 32, 115, 111, 114, 116, 32, 98, 105, 116, 118, 101, 99, 32, 49, 32, 59, 32, 116, 114] true))
      = ([], some .io) ∧
    (parseAll (LR.init [49, 32, 115, 111, 114, 116, 32, 98, 105, 116, 118, 101, 99, 32, 49, 32, 59, 32, 116, 114] false))
      = ([.node { id := 1, variant := .sort (.bitVec 1), comment := some [32, 116, 114] }], none) := by
  decide +kernel

end Flussab.C04
