/-
C04 (BTOR2 part) — a failing source is always reported as an I/O error.

On the view, `fault = true` means the stream ends where the source failed.  The theorems: the
BTOR2 parser never reports such input as completely parsed, and an I/O error is only ever
reported for a failing source.  (F10: `comment_body` used to hand out a comment cut short by the
failure as a regular line; the model is of the repaired code, whose `comment_body` consults the
parked error.)
-/
import Flussab.Proof.Btor2ParserSafe
import Flussab.Proof.Btor2Prefix

namespace Flussab.C04
open Flussab Flussab.Btor2 PM

/-- **A failing source never yields a clean end**, and an `io` outcome implies a failing source:
the final outcome over a failing source is `io` or a syntax error. -/
theorem btor2_fault_final (b : VBytes) (fault : Bool) (hsize : b.length < 2 ^ 63) :
    ((parseAll (LR.init b fault)).2 = none → fault = false) ∧
    ((parseAll (LR.init b fault)).2 = some .io → fault = true) := by
  have hinv := inv_init b fault (SizeOK.of_lt hsize)
  have hlen : (LR.init b fault).v.rest.length < (LR.init b fault).v.rest.length + 2 := by omega
  obtain ⟨h1, h2⟩ := driveLines_ok ((LR.init b fault).v.rest.length + 2) [] (LR.init b fault) hinv hlen
  unfold parseAll
  generalize driveLines ((LR.init b fault).v.rest.length + 2) [] (LR.init b fault) = r at *
  obtain ⟨items, fin, lr'⟩ := r
  simp only at h1 h2 ⊢
  exact ⟨fun hn => (h2 hn).1, fun hio => (h1 _ hio).2⟩

/-- A syntax error over a failing source was raised before the reader hit the end of the data
(it is the error the fault-free run would raise too: the view answers identically below the
fault offset). -/
theorem btor2_fault_syntax_before_end (b : VBytes) (hsize : b.length < 2 ^ 63) (l c : Nat) :
    (driveLines (b.length + 2) [] (LR.init b true)).2.1 = some (.syn l c) →
    (driveLines (b.length + 2) [] (LR.init b true)).2.2.v.sawEnd = false := by
  intro hs
  have hinv := inv_init b true (SizeOK.of_lt hsize)
  have hlen : (LR.init b true).v.rest.length < b.length + 2 := by simp [LR.init, View.init]
  obtain ⟨h1, _⟩ := driveLines_ok (b.length + 2) [] (LR.init b true) hinv hlen
  exact (h1 _ hs).2.2 rfl

/-- **`btor2_fault_prefix`**: the lines handed out before the error of a FAILING source that delivered
the bytes `b` are the first lines of the fault-free parse of ANY extension `b ++ more` of those bytes
— in particular of the complete file the source was reading.  Every line a consumer received before
the I/O error is a line of the real document, unchanged (F10 was the counter-example: a comment cut
by the failure).  (`2^62`: line and byte counters cannot overflow.) -/
theorem btor2_fault_prefix (b more : VBytes) (hsize : (b ++ more).length < 2 ^ 62) :
    (parseAll (LR.init b true)).1 <+: (parseAll (LR.init (b ++ more) false)).1 := by
  have hb : b.length < 2 ^ 63 := by simp only [List.length_append] at hsize; omega
  have hbm : (b ++ more).length < 2 ^ 63 := by omega
  have := driveLines_prefix b more hsize ((LR.init b true).v.rest.length + 2)
    ((LR.init (b ++ more) false).v.rest.length + 2) [] (LR.init b true) (LR.init (b ++ more) false)
    (inv_init b true (SizeOK.of_lt hb)) (inv_init (b ++ more) false (SizeOK.of_lt hbm)) rfl (by omega)
  unfold parseAll
  rcases hA : driveLines ((LR.init b true).v.rest.length + 2) [] (LR.init b true) with ⟨ia, fa, la⟩
  rcases hB : driveLines ((LR.init (b ++ more) false).v.rest.length + 2) [] (LR.init (b ++ more) false)
    with ⟨ib, fb, lb⟩
  rw [hA, hB] at this
  exact this

/-- Together with `btor2_fault_final`: over a failing source the parse ends in `io` or a syntax
error, and what it handed out before is a prefix of the fault-free run over the full data. -/
theorem btor2_fault_outcome (b more : VBytes) (hsize : (b ++ more).length < 2 ^ 62) :
    (parseAll (LR.init b true)).2 ≠ none ∧
    (parseAll (LR.init b true)).1 <+: (parseAll (LR.init (b ++ more) false)).1 := by
  have hb : b.length < 2 ^ 63 := by simp only [List.length_append] at hsize; omega
  refine ⟨fun h => ?_, btor2_fault_prefix b more hsize⟩
  have := (btor2_fault_final b true hb).1 h
  exact absurd this (by simp)

/-- Non-vacuity / regression for F10: the source fails inside a trailing comment — the outcome
is `io` and no line is handed out; the same bytes from a source that ends normally give the line. -/
example :
    -- "1 sort bitvec 1 ; tr"
    (parseAll (LR.init [49, 32, 115, 111, 114, 116, 32, 98, 105, 116, 118, 101, 99, 32, 49, 32, 59, 32, 116, 114] true))
      = ([], some .io) ∧
    (parseAll (LR.init [49, 32, 115, 111, 114, 116, 32, 98, 105, 116, 118, 101, 99, 32, 49, 32, 59, 32, 116, 114] false))
      = ([.node { id := 1, variant := .sort (.bitVec 1), comment := some [32, 116, 114] }], none) := by
  decide +kernel

/-- Non-vacuity of the prefix theorem: `"1 sort bitvec 1\n; tr"` from a failing source hands out
the sort line and then fails; the extension `"…unc\n2 input 1\n"` parses to three lines of which
that is the first. -/
example :
    (parseAll (LR.init [49, 32, 115, 111, 114, 116, 32, 98, 105, 116, 118, 101, 99, 32, 49, 10, 59, 32, 116, 114] true))
      = ([.node { id := 1, variant := .sort (.bitVec 1) }], some .io) ∧
    (parseAll (LR.init ([49, 32, 115, 111, 114, 116, 32, 98, 105, 116, 118, 101, 99, 32, 49, 10, 59, 32, 116, 114] ++
      [117, 110, 99, 10, 50, 32, 105, 110, 112, 117, 116, 32, 49, 10]) false)).1
      = [.node { id := 1, variant := .sort (.bitVec 1) }, .comment [32, 116, 114, 117, 110, 99],
         .node { id := 2, variant := .value 1 .input }] := by
  decide +kernel

end Flussab.C04
