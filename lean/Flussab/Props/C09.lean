/-
C09 — items are delivered without reading past the line that completes them.

Reader layer (this file, L1): the reader performs exactly one successful read per refill, none
when the buffered data already satisfies a request, never calls the source again after it
reported end of input or an error, and a read is only ever issued while the demanded offset is
not yet buffered (so a source that hands out one line per read is never asked for a line beyond
the one containing the demanded byte).
Parser layer: `Flussab.C09.Parsers` (look-ahead bound `peeked` of every item-returning entry
point), see Props/C09Parsers.lean.
-/
import Flussab.Proof.ReaderOps

namespace Flussab.C09
open Flussab Reader

/-- **Exactly one successful read per refill.**  A `request_more` that returns `true` made exactly
one call to the inner source that was not `Interrupted` (any number of interrupted calls before
it), or — while bytes taken over from a `BufReader` remain — no call to the inner source at
all; one that returns `false` (reader complete) does not touch the source. -/
theorem one_read_per_refill (r : Reader) (h : r.Ok) :
    (∀ r', r.requestMore = (some true, r') →
        (r.src.pre = [] → r'.src.prod = r.src.prod + 1) ∧
        (r.src.pre ≠ [] → r'.src.prod = r.src.prod ∧ r'.src.calls = r.src.calls)) ∧
    (∀ r', r.requestMore = (some false, r') → r' = r) := by
  rcases requestMore_spec r h with ⟨_, e⟩ | ⟨_, r1, bs, e, f, _⟩ | ⟨_, r1, e, _⟩
  · rw [e]; exact ⟨fun r' he => by simp at he, fun r' he => by simp at he; exact he.symm⟩
  · rw [e]
    refine ⟨fun r' he => ?_, fun r' he => by simp at he⟩
    simp at he; subst he; exact ⟨f.oneRead, f.preRead⟩
  · rw [e]; exact ⟨fun r' he => by simp at he, fun r' he => by simp at he⟩

/-- **No read when the buffered data already satisfies the request.** -/
theorem no_read_if_satisfied (r : Reader) (h : r.Ok) (hh : r.src.Honest) :
    (∀ n, n ≤ r.bufLen → ((Op.request n).run r).2 = r) ∧
    (∀ k, k < r.bufLen → ((Op.reqAt k).run r).2 = r) := by
  constructor
  · intro n hn
    obtain ⟨r', bs, e, _, _, h1, _⟩ := request_spec r h hh n
    simp only [Op.run, e]; exact h1 hn
  · intro k hk
    obtain ⟨r', bs, e, _, _, h1, _⟩ := requestByteAt_spec r h hh k
    simp only [Op.run, e]; exact h1 hk

/-- **The source is never called again after it reported end of input or an error.**  Once the
reader is complete no operation changes the source (no call is made), and — as an invariant of
every history — the ghost counter of calls made after the end stays 0. -/
theorem no_read_after_end (r : Reader) (op : Op) (hc : r.isComplete = true) :
    (op.run r).2.src = r.src := by
  simp only [isComplete] at hc
  cases op with
  | request n => simp [Op.run, request, requestLoop_complete _ r n hc]
  | reqAt k => simp [Op.run, requestByteAt, requestLoop_complete _ r (k + 1) hc]
  | requestMore => simp [Op.run, requestMore, hc]
  | advance n => by_cases hv : r.validLen < n <;> simp [Op.run, advance, hv]
  | advanceWithBuf n => by_cases hv : r.validLen < n <;> simp [Op.run, advanceWithBuf, advance, hv]
  | setMark => rfl
  | setMarkTo p => rfl
  | setChunk c => rfl
  | checkIoError => rfl

theorem never_called_after_end (ops : List Op) (r : Reader) (h : r.Ok) (hh : r.src.Honest)
    (hv : ∀ op ∈ ops, op.Valid) : (runAll ops r).2.src.afterEnd = 0 := by
  induction ops generalizing r with
  | nil => exact h.after
  | cons op ops ih =>
    have s := op_stepped r op h hh (hv op (by simp))
    simp only [runAll]
    exact ih _ s.ok s.honest (fun o ho => hv o (by simp [ho]))

/-- **Reads are demand driven.**  After `request_byte_at_offset(k)` either nothing was read, or
the last read was issued while byte `k` was not yet buffered: the buffered length *before* that
last read was at most `k`.  Hence with a source that returns at most one line per read, no line
beyond the one containing the demanded byte is ever pulled in. -/
theorem reads_only_when_demanded (r : Reader) (h : r.Ok) (hh : r.src.Honest) (k : Nat) :
    let r' := ((Op.reqAt k).run r).2
    r' = r ∨ r'.bufLen - r'.src.lastGive ≤ k := by
  obtain ⟨r', bs, e, _, _, _, _, h3, _⟩ := requestByteAt_spec r h hh k
  simp only [Op.run, e]; exact h3

theorem request_reads_only_when_demanded (r : Reader) (h : r.Ok) (hh : r.src.Honest) (n : Nat) :
    let r' := ((Op.request n).run r).2
    r' = r ∨ r'.bufLen - r'.src.lastGive < n := by
  obtain ⟨r', bs, e, _, _, _, _, h3, _⟩ := request_spec r h hh n
  simp only [Op.run, e]; exact h3

/-- Non-vacuity: a line-by-line source; asking for the first byte of line 2 pulls exactly line 2. -/
example :
    let src : Source := { data := [97, 10, 98, 99, 10, 100, 10], fault := false,
                          sched := [.give 2, .intr, .give 3, .give 2] }
    let r := (mk' src).setChunkSize 8
    r.Ok ∧ ((runAll [.reqAt 0, .advance 2, .reqAt 0] r).2.window = [98, 99, 10]) ∧
      (runAll [.reqAt 0, .advance 2, .reqAt 0] r).2.src.prod = 2 := by
  exact ⟨⟨by decide, by decide, by decide, by decide, by decide, by decide⟩, by decide, by decide⟩

end Flussab.C09
