/-
C13 — decimal scanning is exact for every integer width; fast equals simple.

`ds` is always the longest run of ASCII digits at the scan position.  All theorems are generic in
the integer type `t : IntTy` (signedness × width ≥ 1 bit), hence cover i8..i128, u8..u128, isize,
usize.  The kernel theorems (`Flussab.Swar.swar_c0..8`, over all 2^64 words, about the definition
regenerated from /repo) replace the property's finite kernel enumeration.
-/
import Flussab.Proof.Digits
import Flussab.Proof.SwarList

namespace Flussab.C13
open Flussab Text

/-- The loop, started exact-or-flagged, returns the exact accumulated value iff it is
representable. -/
theorem loop_exact (t : IntTy) (hb : 1 ≤ t.bits) (sub : Bool) (bs : VBytes) (v : Int) (o : Bool)
    (P : Int) (hP : SignOK sub P) (h1 : o = false → v = P ∧ t.fits P = true)
    (h2 : o = true → t.fits P = false) :
    let ds := bs.takeWhile isDigit
    let r := digitsLoop t sub bs v o 0
    r.2.2 = ds.length ∧
    (if r.2.1 then none else some r.1) =
      (if t.fits (accum sub P ds) then some (accum sub P ds) else none) := by
  intro ds
  obtain ⟨k1, k2, k3⟩ := digitsLoop_spec t hb sub bs v o 0 P hP h1
  have hmono := accum_mono sub ds (fun x hx => takeWhile_all isDigit bs x hx) P hP
  simp only
  generalize digitsLoop t sub bs v o 0 = r at *
  obtain ⟨val, ov, n⟩ := r
  simp only [Nat.zero_add] at k1 k2 k3 ⊢
  refine ⟨k1, ?_⟩
  subst k2
  cases o
  · -- not flagged at the start
    simp only [Bool.false_or] at k3 ⊢
    cases hf : t.fits (accum sub P ds)
    · simp only [ds] at hf; simp [hf]
    · simp only [ds] at hf
      simp only [hf, Bool.not_true, Bool.false_eq_true, ↓reduceIte, Option.some.injEq]
      exact k3 (by simp [hf])
  · -- flagged at the start: the start value does not fit, so neither does the total
    have hnf := h2 rfl
    have hnot : t.fits (accum sub P ds) = false := by
      cases hc : t.fits (accum sub P ds)
      · rfl
      · exfalso
        cases sub
        · simp only [SignOK, Bool.false_eq_true, ↓reduceIte] at hmono hP
          have := fits_between t 0 P _ (fits_zero t) hc hP hmono.2
          rw [this] at hnf; exact absurd hnf (by simp)
        · simp only [SignOK, ↓reduceIte] at hmono hP
          have := fits_between t _ P 0 hc (fits_zero t) hmono.2 hP
          rw [this] at hnf; exact absurd hnf (by simp)
    simp [hnot]

/-- `from_u32` / `from_i32` as the start of a continuation loop. -/
theorem fromInt_start (t : IntTy) (P : Int) :
    ((t.fromInt P).isNone = false → (t.fromInt P).getD 0 = P ∧ t.fits P = true) ∧
    ((t.fromInt P).isNone = true → t.fits P = false) := by
  simp only [IntTy.fromInt]
  cases t.fits P <;> simp

/-- **`ascii_digits` is exact**: it returns the offset just past the longest digit run and the
value of the run if and only if it is representable in the requested type, `None` otherwise. -/
theorem digits_exact (t : IntTy) (hb : 1 ≤ t.bits) (v : View) (off : Nat) :
    let ds := (v.rest.drop off).takeWhile isDigit
    (asciiDigits t v off).1 =
      (if t.fits (decVal ds : Nat) then some ((decVal ds : Nat) : Int) else none, off + ds.length) := by
  intro ds
  obtain ⟨h1, h2⟩ := loop_exact t hb false (v.rest.drop off) 0 false 0 (by simp [SignOK])
    (fun _ => ⟨rfl, fits_zero t⟩) (fun h => by simp at h)
  simp only [accum_add, Int.zero_mul, Int.zero_add] at h2
  simp only [asciiDigits, digitsCont, Option.getD_some, Option.isNone_some]
  generalize digitsLoop t false (v.rest.drop off) 0 false 0 = r at *
  obtain ⟨val, ov, n⟩ := r
  simp only at h1 h2 ⊢
  rw [h1, h2]

/-- **`signed_ascii_digits` is exact**: a `'-'` followed by a digit gives the negated value of the
run after it iff representable (`MIN` included; for unsigned types only `-0…0`); a lone `'-'` is
not consumed; anything else is `ascii_digits`. -/
theorem signed_digits_exact (t : IntTy) (hb : 1 ≤ t.bits) (v : View) (off : Nat) :
    (∀ d, v.rest[off]? = some 45 → v.rest[off + 1]? = some d → isDigit d = true →
      let ds := (v.rest.drop (off + 1)).takeWhile isDigit
      (signedAsciiDigits t v off).1 =
        (if t.fits (-(decVal ds : Nat)) then some (-((decVal ds : Nat) : Int)) else none,
         off + 1 + ds.length)) ∧
    (v.rest[off]? = some 45 → (∀ d, v.rest[off + 1]? = some d → isDigit d = false) →
      (signedAsciiDigits t v off).1 = (some 0, off)) ∧
    (v.rest[off]? ≠ some 45 → (signedAsciiDigits t v off).1 = (asciiDigits t v off).1) := by
  refine ⟨?_, ?_, ?_⟩
  · intro d h0 h1 hd ds
    -- the run after '-' is d :: (run after d)
    have hdrop : v.rest.drop (off + 1) = d :: v.rest.drop (off + 2) := by
      have hlt : off + 1 < v.rest.length := by
        cases hl : v.rest[off + 1]? with
        | none => rw [hl] at h1; simp at h1
        | some x => exact (List.getElem?_eq_some_iff.mp hl).1
      rw [List.drop_eq_getElem_cons hlt]
      have : v.rest[off + 1] = d := by
        have := List.getElem?_eq_getElem hlt
        rw [h1] at this; simpa using this.symm
      rw [this]
    have hds : ds = d :: (v.rest.drop (off + 2)).takeWhile isDigit := by
      simp only [ds, hdrop, List.takeWhile, hd]
    have hr := digitVal_range d hd
    -- first digit: `0.overflowing_sub(d)`, exact or flagged; then the loop
    have hstart : ((t.osub 0 (digitVal d)).2 = false →
        (t.osub 0 (digitVal d)).1 = -(digitVal d) ∧ t.fits (-(digitVal d)) = true) ∧
        ((t.osub 0 (digitVal d)).2 = true → t.fits (-(digitVal d)) = false) := by
      simp only [IntTy.osub, Int.zero_sub]
      cases hf : t.fits (-(digitVal d))
      · simp
      · simp [IntTy.wrap_of_fits t hb _ hf]
    obtain ⟨l1, l2⟩ := loop_exact t hb true (v.rest.drop (off + 2)) (t.osub 0 (digitVal d)).1
      (t.osub 0 (digitVal d)).2 (-(digitVal d)) (by simp only [SignOK, ↓reduceIte]; omega) hstart.1 hstart.2
    have hacc : accum true (-(digitVal d)) ((v.rest.drop (off + 2)).takeWhile isDigit) =
        -((decVal ds : Nat) : Int) := by
      have hd' := decVal_append [d] ((v.rest.drop (off + 2)).takeWhile isDigit)
      simp only [List.singleton_append] at hd'
      rw [accum_sub, hds, hd']
      have : decVal [d] = d.toNat - 48 := by simp [decVal]
      rw [this]; simp only [digitVal]; push_cast
      rw [Int.neg_mul]; omega
    simp only [signedAsciiDigits, h0, h1, hd, ↓reduceIte]
    generalize digitsLoop t true (v.rest.drop (off + 2)) (t.osub 0 (digitVal d)).1 (t.osub 0 (digitVal d)).2 0 = r at *
    obtain ⟨val, ov, n⟩ := r
    simp only at l1 l2 ⊢
    rw [l1, l2, hacc, hds]
    simp only [List.length_cons]
    have e : off + 2 + (List.takeWhile isDigit (List.drop (off + 2) v.rest)).length = off + 1 + ((List.takeWhile isDigit (List.drop (off + 2) v.rest)).length + 1) := by omega
    try rw [e]
  · intro h0 h1
    simp only [signedAsciiDigits, h0]
    cases hx : v.rest[off + 1]? with
    | none => rfl
    | some d => simp [h1 d hx]
  · intro h0
    simp only [signedAsciiDigits, asciiDigits]

theorem takeWhile_append_cases (p : UInt8 → Bool) (a b : VBytes) :
    ((a.takeWhile p).length < a.length → (a ++ b).takeWhile p = a.takeWhile p) ∧
    ((a.takeWhile p).length = a.length →
        a.takeWhile p = a ∧ (a ++ b).takeWhile p = a ++ b.takeWhile p) := by
  induction a with
  | nil => simp
  | cons x xs ih =>
    by_cases hx : p x = true
    · simp only [List.takeWhile, hx, List.cons_append, List.length_cons, Nat.add_lt_add_iff_right,
        Nat.add_right_cancel_iff, List.cons.injEq, true_and]
      exact ih
    · have hx' : p x = false := by simpa using hx
      simp [List.takeWhile, hx']

theorem takeWhile_length_le (p : UInt8 → Bool) (a : VBytes) : (a.takeWhile p).length ≤ a.length := by
  induction a with
  | nil => simp
  | cons x xs ih => simp only [List.takeWhile]; split <;> simp <;> omega

theorem explicit8 (l : VBytes) (h : 8 ≤ l.length) :
    ∃ b0 b1 b2 b3 b4 b5 b6 b7 rest, l = b0 :: b1 :: b2 :: b3 :: b4 :: b5 :: b6 :: b7 :: rest := by
  match l, h with
  | b0 :: b1 :: b2 :: b3 :: b4 :: b5 :: b6 :: b7 :: rest, _ => exact ⟨b0, b1, b2, b3, b4, b5, b6, b7, rest, rfl⟩

/-- The fast path on 8 buffered bytes, then the continuation, equals one exact scan. -/
theorem fast_path_exact (t : IntTy) (hb : 1 ≤ t.bits) (v : View) (off : Nat)
    (hlen : off + 8 ≤ v.rest.length) :
    let word := le64 (v.rest.drop off)
    let r := Gen.swarAsciiDigitsU64Le word
    (if r.2 == 8 then (digitsCont t false v (off + 8) (t.fromInt r.1.toNat)).1
     else (t.fromInt r.1.toNat, off + r.2)) = (asciiDigits t v off).1 := by
  intro word r
  obtain ⟨b0, b1, b2, b3, b4, b5, b6, b7, rest, hl⟩ := explicit8 (v.rest.drop off) (by simp; omega)
  have hsw := Swar.swar_list b0 b1 b2 b3 b4 b5 b6 b7 rest
  have hdrop8 : v.rest.drop (off + 8) = rest := by
    have : v.rest.drop (off + 8) = (v.rest.drop off).drop 8 := by rw [List.drop_drop]
    rw [this, hl]; rfl
  have hex := digits_exact t hb v off
  simp only at hex hsw
  simp only [word, r, hl] at *
  obtain ⟨a, ha⟩ : ∃ a : VBytes, a = [b0, b1, b2, b3, b4, b5, b6, b7] := ⟨_, rfl⟩
  have hla : b0 :: b1 :: b2 :: b3 :: b4 :: b5 :: b6 :: b7 :: rest = a ++ rest := by rw [ha]; rfl
  have htake : List.take 8 (b0 :: b1 :: b2 :: b3 :: b4 :: b5 :: b6 :: b7 :: rest) = a := by rw [ha]; rfl
  rw [htake] at hsw
  obtain ⟨hcnt, hval⟩ := hsw
  obtain ⟨c1, c2⟩ := takeWhile_append_cases isDigit a rest
  have hle := takeWhile_length_le isDigit a
  have hal : a.length = 8 := by rw [ha]; rfl
  rw [hla] at hcnt hval hex
  rw [hex, hla]
  by_cases hfull : (a.takeWhile isDigit).length = 8
  · -- all eight are digits: continuation loop
    obtain ⟨e1, e2⟩ := c2 (by rw [hfull, hal])
    have hmd : ((Gen.swarAsciiDigitsU64Le (le64 (a ++ rest))).2 == 8) = true := by
      rw [hcnt, hfull]; rfl
    simp only [hmd, ↓reduceIte, digitsCont, hdrop8, hval, e1, e2]
    obtain ⟨s1, s2⟩ := fromInt_start t ((decVal a : Nat) : Int)
    obtain ⟨l1, l2⟩ := loop_exact t hb false rest ((t.fromInt ((decVal a : Nat) : Int)).getD 0)
      (t.fromInt ((decVal a : Nat) : Int)).isNone ((decVal a : Nat) : Int) (by simp [SignOK]) s1 s2
    generalize digitsLoop t false rest ((t.fromInt ((decVal a : Nat) : Int)).getD 0)
      (t.fromInt ((decVal a : Nat) : Int)).isNone 0 = q at *
    obtain ⟨val, ov, n⟩ := q
    simp only at l1 l2 ⊢
    rw [l1, l2, accum_add, decVal_append, List.length_append, hal]
    push_cast
    congr 1
    omega
  · have hlt : (a.takeWhile isDigit).length < a.length := by omega
    have e := c1 hlt
    have hmd : ((Gen.swarAsciiDigitsU64Le (le64 (a ++ rest))).2 == 8) = false := by
      rw [hcnt]; simp; omega
    have hne : ((List.takeWhile isDigit a).length == 8) = false := by simp; omega
    simp only [hval, hcnt, e, IntTy.fromInt, hne, Bool.false_eq_true, ↓reduceIte]

/-- **Fast equals simple (unsigned scan).**  For every buffer content and every amount `bl` of
buffered data (which selects the SWAR fast path or the byte-wise cold path), `ascii_digits_multi`
returns the same value and offset as `ascii_digits`.  `bl` bytes being buffered means they
exist: `bl ≤` length of the stream in front of the cursor. -/
theorem multi_eq_simple (t : IntTy) (hb : 1 ≤ t.bits) (v : View) (off bl : Nat)
    (hbl : bl ≤ v.rest.length) :
    (asciiDigitsMulti t v off bl).1 = (asciiDigits t v off).1 := by
  unfold asciiDigitsMulti
  by_cases hlt : bl < off + 8
  · simp [hlt]
  · simp only [hlt, ↓reduceIte]
    have := fast_path_exact t hb v off (by omega)
    simp only at this
    rw [← this]
    split <;> rfl

/-- **Fast equals simple (signed scan)**, for every buffer content and amount of buffered data. -/
theorem signed_multi_eq_simple (t : IntTy) (hb : 1 ≤ t.bits) (v : View) (off bl : Nat)
    (hbl : bl ≤ v.rest.length) :
    (signedAsciiDigitsMulti t v off bl).1 = (signedAsciiDigits t v off).1 := by
  unfold signedAsciiDigitsMulti
  by_cases hlt : bl < off + 8
  · simp [hlt]
  simp only [hlt, ↓reduceIte]
  have hlen : off + 8 ≤ v.rest.length := by omega
  obtain ⟨b0, b1, b2, b3, b4, b5, b6, b7, rest, hl⟩ := explicit8 (v.rest.drop off) (by simp; omega)
  obtain ⟨hfirst, hshift⟩ := Swar.le64_first_byte b0 b1 b2 b3 b4 b5 b6 b7 rest
  have hget0 : v.rest[off]? = some b0 := by
    have : (v.rest.drop off)[0]? = some b0 := by rw [hl]; rfl
    simpa using this
  obtain ⟨s1, s2, s3⟩ := signed_digits_exact t hb v off
  rw [hl]
  by_cases hminus : b0 = 45
  · -- leading '-'
    subst hminus
    have hc : (le64 (45 :: b1 :: b2 :: b3 :: b4 :: b5 :: b6 :: b7 :: rest) &&& 0xff#64 == 45#64) = true := by
      rw [hfirst]; rfl
    simp only [hc, ↓reduceIte, hshift]
    have hget1 : v.rest[off + 1]? = some b1 := by
      have : (v.rest.drop off)[1]? = some b1 := by rw [hl]; rfl
      simpa using this
    have hdrop1 : v.rest.drop (off + 1) = b1 :: b2 :: b3 :: b4 :: b5 :: b6 :: b7 :: rest := by
      have : v.rest.drop (off + 1) = (v.rest.drop off).drop 1 := by rw [List.drop_drop]
      rw [this, hl]; rfl
    have hdrop8 : v.rest.drop (off + 8) = rest := by
      have : v.rest.drop (off + 8) = (v.rest.drop off).drop 8 := by rw [List.drop_drop]
      rw [this, hl]; rfl
    have hsw := Swar.swar_list b1 b2 b3 b4 b5 b6 b7 0 []
    simp only at hsw
    obtain ⟨a, ha⟩ : ∃ a : VBytes, a = [b1, b2, b3, b4, b5, b6, b7] := ⟨_, rfl⟩
    have htw : (List.take 8 (b1 :: b2 :: b3 :: b4 :: b5 :: b6 :: b7 :: 0 :: [])).takeWhile isDigit =
        a.takeWhile isDigit := by
      have h1 : List.take 8 (b1 :: b2 :: b3 :: b4 :: b5 :: b6 :: b7 :: 0 :: []) = a ++ [0] := by rw [ha]; rfl
      rw [h1]
      obtain ⟨c1, c2⟩ := takeWhile_append_cases isDigit a [0]
      have hle := takeWhile_length_le isDigit a
      by_cases hfull : (a.takeWhile isDigit).length = a.length
      · obtain ⟨e1, e2⟩ := c2 hfull
        rw [e2, e1]; simp [List.takeWhile, isDigit]
      · exact c1 (by omega)
    rw [htw] at hsw
    obtain ⟨hcnt, hval⟩ := hsw
    have hla : b1 :: b2 :: b3 :: b4 :: b5 :: b6 :: b7 :: rest = a ++ rest := by rw [ha]; rfl
    have hal : a.length = 7 := by rw [ha]; rfl
    obtain ⟨c1, c2⟩ := takeWhile_append_cases isDigit a rest
    have hle := takeWhile_length_le isDigit a
    cases hd1 : isDigit b1
    · -- lone minus: not consumed
      have hz : a.takeWhile isDigit = [] := by rw [ha]; simp [List.takeWhile, hd1]
      rw [s2 hget0 (fun d hd => by rw [hget1] at hd; simp at hd; subst hd; exact hd1)]
      have hmd : ((Gen.swarAsciiDigitsU64Le (le64 (b1 :: b2 :: b3 :: b4 :: b5 :: b6 :: b7 :: 0 :: []))).2 == 7) = false := by
        rw [hcnt, hz]; rfl
      simp only [hmd, Bool.false_eq_true, ↓reduceIte, hcnt, hval, hz, decVal, List.length_nil]
      simp [IntTy.fromInt, fits_zero t]
    · have hs1 := s1 b1 hget0 hget1 hd1
      simp only at hs1
      rw [hs1, hdrop1, hla]
      have hpos : 0 < (a.takeWhile isDigit).length := by rw [ha]; simp [List.takeWhile, hd1]
      by_cases hfull : (a.takeWhile isDigit).length = 7
      · obtain ⟨e1, e2⟩ := c2 (by rw [hfull, hal])
        have hmd : ((Gen.swarAsciiDigitsU64Le (le64 (b1 :: b2 :: b3 :: b4 :: b5 :: b6 :: b7 :: 0 :: []))).2 == 7) = true := by
          rw [hcnt, hfull]; rfl
        simp only [hmd, ↓reduceIte, digitsCont, hdrop8, hval, e1, e2]
        obtain ⟨f1, f2⟩ := fromInt_start t (-((decVal a : Nat) : Int))
        obtain ⟨l1, l2⟩ := loop_exact t hb true rest ((t.fromInt (-((decVal a : Nat) : Int))).getD 0)
          (t.fromInt (-((decVal a : Nat) : Int))).isNone (-((decVal a : Nat) : Int))
          (by simp only [SignOK, ↓reduceIte]; omega) f1 f2
        generalize digitsLoop t true rest ((t.fromInt (-((decVal a : Nat) : Int))).getD 0)
          (t.fromInt (-((decVal a : Nat) : Int))).isNone 0 = q at *
        obtain ⟨val, ov, n⟩ := q
        simp only at l1 l2 ⊢
        rw [l1, l2, accum_sub, decVal_append, List.length_append, hal]
        push_cast
        have : -((decVal a : Nat) : Int) * (10 : Int) ^ (List.takeWhile isDigit rest).length -
            ((decVal (List.takeWhile isDigit rest) : Nat) : Int) =
            -(((decVal a : Nat) : Int) * (10 : Int) ^ (List.takeWhile isDigit rest).length +
              ((decVal (List.takeWhile isDigit rest) : Nat) : Int)) := by
          rw [Int.neg_mul]; omega
        rw [this]
        congr 1
        omega
      · have hlt7 : (a.takeWhile isDigit).length < a.length := by omega
        have e := c1 hlt7
        have hne : ((List.takeWhile isDigit a).length == 7) = false := by simp; omega
        have hne0 : ((List.takeWhile isDigit a).length != 0) = true := by rw [bne_iff_ne]; omega
        simp only [hval, hcnt, e, IntTy.fromInt, hne, hne0, Bool.false_eq_true, ↓reduceIte]
        first | done | (congr 1; omega)
  · -- no leading '-': the unsigned fast path
    have hc : (le64 (b0 :: b1 :: b2 :: b3 :: b4 :: b5 :: b6 :: b7 :: rest) &&& 0xff#64 == 45#64) = false := by
      rw [hfirst]; simpa using hminus
    simp only [hc, Bool.false_eq_true, ↓reduceIte]
    rw [s3 (by rw [hget0]; simpa using hminus)]
    have := fast_path_exact t hb v off hlen
    simp only [hl] at this
    rw [← this]
    split <;> rfl

/-- Non-vacuity and boundary sanity on concrete inputs: `i8` at `-128`/`128`, unsigned negative,
a lone minus, and a fast-path case with a 9-digit number. -/
example :
    (signedAsciiDigits ⟨true, 8⟩ (View.init [45, 49, 50, 56, 32] false) 0).1 = (some (-128), 4) ∧
    (signedAsciiDigits ⟨true, 8⟩ (View.init [49, 50, 56, 32] false) 0).1 = (none, 3) ∧
    (signedAsciiDigits ⟨false, 8⟩ (View.init [45, 53] false) 0).1 = (none, 2) ∧
    (signedAsciiDigits ⟨true, 32⟩ (View.init [45, 120] false) 0).1 = (some 0, 0) ∧
    (asciiDigitsMulti ⟨true, 32⟩ (View.init [49, 50, 51, 52, 53, 54, 55, 56, 57, 10] false) 0 10).1 =
      (some 123456789, 9) := by
  decide +kernel

end Flussab.C13
