/-
Tie between the section readers of the binary AIGER parser, `/repo/flussab-aiger/src/binary.rs` (the streaming
typestate API behind `Parser::new`), and the hand-written model `Model/Aiger.lean` — the statements.
(Proofs: `Proof/TieAigerBinSections.lean`, on top of `Proof/TieAigerSections.lean`.)

`Flussab.Gen.AigerBinSections.*` (file `Gen/AigerBinSectionsGen.lean`) is produced by `tools/gen_core.py`
(`tools/unit_aigerbinsections.py`, a subclass of the ASCII unit `tools/unit_aigersections.py`; one unit over nine
`impl` blocks) from the Rust source on every check run:
`Parser::latches`, `ParseLatches::{next_latch, outputs}`, `ParseOutputs::{next_output, bad_state_properties}`,
`ParseBadStateProperties::{next_bad_state_property, invariant_constraints}`,
`ParseInvariantConstraints::{next_invariant_constraint, justice_properties}`,
`ParseJusticePropertySizes::{next_justice_property_size, justice_property_local_fairness_constraints}`,
`ParseJusticePropertyLocalFairnessConstraints::{next_justice_property_local_fairness_constraint,
fairness_constraints}`, `ParseFairnessConstraints::{next_fairness_constraint, and_gates}`,
`ParseAndGates::{next_and_gate, symbols}` — 17 functions, all 17 tied below.

Correspondence of the records (as in `Props/TieAigerSections.lean`).  Every section struct is
`{ parser: Parser<'a, L>, <count>_left: usize }`; the generated code acts on the pair (`Aiger.St`, reader `LR`) in
the monad `ASM = StateT Aiger.St PM` (`Model/AigerSectionsExt.lean`): `parser` without its reader is `St.p`
(`header`, `max_lit`, and — in binary.rs only — the next-literal counter `code` = `St.p.code`; the struct's type
parameter `L` is `St.p.lit`, `L::from_code(c)` is `p.lit.fromCode c`), the `<count>_left` field is `St.left`,
`total_local_fairness_count` (a field of `ParseJusticePropertySizes` only) is `St.total`.  `parser.reader` is the
`PM` state.  `(Gen.f).run s` and `Aiger.f s` have the same type `PM (result × Aiger.St)`; a thrown `ParseError`
leaves only the reader state on both sides.  Calls into token.rs are the token models of `Model/AigerToken.lean`
(tied to token.rs by `Props/TieAigerToken.lean`: `lit`, `header_field`, `required_*`, `delta_code` (with
`binary_uint` under it), `invalid_initialization` = `errorAtMark`).  `usize` subtraction and addition are the
checked operations; `self.parser.code.wrapping_add(2)` is `(code + 2) % 2 ^ 64` on both sides (the convention of
`Parser::new`, `Props/TieAigerNew.lean`: `code` is one step ahead of the last defined literal and may wrap when the
header leaves no room for a further latch or gate).  `OrderedLatch { next_state, initialization }` /
`OrderedAndGate { inputs: [a, b] }` are the model's `Aiger.OLatch` / `Aiger.OGate`.

* `next_*_tied` (8): for every section state and reader state the generated function returns the same item,
  leaves the same section state (incl. the advanced `code` after `next_latch` / `next_and_gate`) and acts on the
  reader exactly like the model function.  `next_latch_tied` is about `Aiger.nextLatchBin` (the latch's own literal
  is the running `code`: a reset literal ≥ 2 must equal it), `next_and_gate_tied` about `Aiger.nextAndGateBin` (two
  `delta_code`s, the first relative to `code`, the second relative to the first input).  Unconditional, except
  `next_justice_property_size_tied`: hypothesis `s.total ≤ usize::MAX` (the field is a `usize`; the model keeps it
  as a `Nat`).  Under it neither `usize::MAX - total` nor `total += count` can overflow, so the differently named
  panic sites of the two sides are not reached; without it both sides panic, with different site names.
* `latches_tied`: `Parser::latches` applied to the parser `s.p` returns what the model's `toLatches` returns on the
  fresh section state `{ p := s.p }` — the state `Aiger.parseBinary` starts from; there is no section struct
  before `ParseLatches` in a binary file, so whatever `left` / `total` the record `s` holds is overwritten.
  Hypothesis `s.p.bin = true`: `toLatches` is shared with the ASCII parser (which first drains the input
  section) and branches on the format; `Parser::new` of binary.rs produces `bin = true`
  (`Props/TieAigerNew.lean`).
* the other transitions (8): the value returned by the generated transition (`Prod.fst <$> …`; the generated
  function consumes `self`, the state it leaves behind is the drained old struct and not part of the statement)
  and its effect on the reader are those of the model's transition.  The draining loop
  `while self.x_left != 0 { self.next_x()?; }` is the model's `finish` (`whileSome` with the fuel `left + 1`); the
  generated loop gets the same fuel and it is never used up (every `next_x` that returns has decremented `left`),
  so no hypothesis about fuel.  Hypotheses: `s.p.bin = true` for `outputs` and `symbols` (the model functions
  `toOutputs`, `toSymbols` are shared with the ASCII parser and branch on the format: they drain with
  `nextLatchBin` / `nextAndGateBin` here); `s.total ≤ usize::MAX` for
  `justice_property_local_fairness_constraints` (as above; `justice_properties` sets `total := 0` and
  `next_justice_property_size` keeps the bound).

Not translated (reasons in `tools/unit_aigerbinsections.py`): the `from_*` constructors, `new` (unit
`aigernew_binary`), `header` (accessor), `parse` (whole-file driver), `impl ParseInputs` of binary.rs (`next_input`,
`latches`: nothing in binary.rs constructs a `ParseInputs`, the struct is unreachable)
— these stay tied by the correspondence runs.  `ParseSymbols::{next_symbol, comment}` are translated by the unit
`aigerbinsymbols` and tied in `Props/TieAigerSymbols.lean`.
-/
import Flussab.Proof.TieAigerBinSections

namespace Flussab
namespace TieAigerBinSections

open TieAigerBinSectionsAux

/-! ### `Parser::latches` and the `next_*` functions -/

theorem latches_tied (s : Aiger.St) (hb : s.p.bin = true) :
    Prod.fst <$> Gen.AigerBinSections.latches.run s = Aiger.toLatches { p := s.p } := latches_eq s hb

theorem next_latch_tied (s : Aiger.St) :
    Gen.AigerBinSections.nextLatch.run s = Aiger.nextLatchBin s := nextLatch_eq s

theorem next_output_tied (s : Aiger.St) :
    Gen.AigerBinSections.nextOutput.run s = Aiger.nextOutput s := nextOutput_eq s

theorem next_bad_state_property_tied (s : Aiger.St) :
    Gen.AigerBinSections.nextBadStateProperty.run s = Aiger.nextBad s := nextBadStateProperty_eq s

theorem next_invariant_constraint_tied (s : Aiger.St) :
    Gen.AigerBinSections.nextInvariantConstraint.run s = Aiger.nextConstraint s := nextInvariantConstraint_eq s

theorem next_justice_property_size_tied (s : Aiger.St) (ht : s.total ≤ PM.usizeMax) :
    Gen.AigerBinSections.nextJusticePropertySize.run s = Aiger.nextJusticeSize s :=
  nextJusticePropertySize_eq s ht

theorem next_justice_property_local_fairness_constraint_tied (s : Aiger.St) :
    Gen.AigerBinSections.nextJusticePropertyLocalFairnessConstraint.run s = Aiger.nextJusticeLit s :=
  nextJusticeLit_eq s

theorem next_fairness_constraint_tied (s : Aiger.St) :
    Gen.AigerBinSections.nextFairnessConstraint.run s = Aiger.nextFairness s := nextFairnessConstraint_eq s

theorem next_and_gate_tied (s : Aiger.St) :
    Gen.AigerBinSections.nextAndGate.run s = Aiger.nextAndGateBin s := nextAndGate_eq s

/-! ### the transitions -/

theorem outputs_tied (s : Aiger.St) (hb : s.p.bin = true) :
    Prod.fst <$> Gen.AigerBinSections.outputs.run s = Aiger.toOutputs s := outputs_eq s hb

theorem bad_state_properties_tied (s : Aiger.St) :
    Prod.fst <$> Gen.AigerBinSections.badStateProperties.run s = Aiger.toBad s := badStateProperties_eq s

theorem invariant_constraints_tied (s : Aiger.St) :
    Prod.fst <$> Gen.AigerBinSections.invariantConstraints.run s = Aiger.toConstraints s :=
  invariantConstraints_eq s

theorem justice_properties_tied (s : Aiger.St) :
    Prod.fst <$> Gen.AigerBinSections.justiceProperties.run s = Aiger.toJusticeSizes s := justiceProperties_eq s

theorem justice_property_local_fairness_constraints_tied (s : Aiger.St) (ht : s.total ≤ PM.usizeMax) :
    Prod.fst <$> Gen.AigerBinSections.justicePropertyLocalFairnessConstraints.run s = Aiger.toJusticeLits s :=
  justiceLits_eq s ht

theorem fairness_constraints_tied (s : Aiger.St) :
    Prod.fst <$> Gen.AigerBinSections.fairnessConstraints.run s = Aiger.toFairness s := fairnessConstraints_eq s

theorem and_gates_tied (s : Aiger.St) :
    Prod.fst <$> Gen.AigerBinSections.andGates.run s = Aiger.toAndGates s := andGates_eq s

theorem symbols_tied (s : Aiger.St) (hb : s.p.bin = true) :
    Prod.fst <$> Gen.AigerBinSections.symbols.run s = Aiger.toSymbols s := symbols_eq s hb

/-! ### non-vacuity -/

/-- A section state of a binary file with one input (so the first latch / gate has the literal `code = 4`) and
one item left; it satisfies both hypotheses used above. -/
def exampleSt : Aiger.St :=
  { p := { bin := true, lit := ⟨8⟩, maxLit := 5, code := 4,
           header := { maxVarIndex := 2, inputCount := 1, latchCount := 1, outputCount := 0, andGateCount := 0 } },
    left := 1 }

example : exampleSt.p.bin = true ∧ exampleSt.total ≤ PM.usizeMax := by decide

/-- The generated `next_latch` on `"3 4\n"`: next-state literal 3, the reset literal 4 is the latch's own literal
(the running `code`): uninitialised; `latches_left` 0, `code` advanced to 6, cursor on line 2. -/
example : (match Gen.AigerBinSections.nextLatch.run exampleSt (LR.init [51, 32, 52, 10] false) with
    | (.ok (some ⟨3, none⟩, s'), lr) => s'.left == 0 && s'.p.code == 6 && lr.v.pos == 4 && lr.line == 2
    | _ => false) = true := by
  decide

/-- The generated `next_latch` on `"3 5\n"`: the reset literal 5 is neither 0, 1 nor the running `code` 4: a
syntax error at the mark (line 1, column 3). -/
example : (match Gen.AigerBinSections.nextLatch.run exampleSt (LR.init [51, 32, 53, 10] false) with
    | (.error (.syn 1 3), _) => true
    | _ => false) = true := by
  decide

/-- The generated `next_and_gate` on the two delta bytes `01 02` with `code = 4`: inputs 4 - 1 = 3 and
3 - 2 = 1; `ands_left` 0, `code` advanced to 6, two bytes consumed. -/
example : (match Gen.AigerBinSections.nextAndGate.run exampleSt (LR.init [1, 2] false) with
    | (.ok (some ⟨3, 1⟩, s'), lr) => s'.left == 0 && s'.p.code == 6 && lr.v.pos == 2
    | _ => false) = true := by
  decide

/-- The generated `next_and_gate` on the delta byte `05` with `code = 4`: the delta exceeds the output code, a
syntax error at the mark (line 1, column 1). -/
example : (match Gen.AigerBinSections.nextAndGate.run exampleSt (LR.init [5] false) with
    | (.error (.syn 1 1), _) => true
    | _ => false) = true := by
  decide

/-- The generated `symbols` on `01 02` with one gate left: drains it and returns the parser with `code = 6`. -/
example : (match Gen.AigerBinSections.symbols.run exampleSt (LR.init [1, 2] false) with
    | (.ok (p', _), lr) => p'.code == 6 && lr.v.pos == 2
    | _ => false) = true := by
  decide

end TieAigerBinSections
end Flussab
