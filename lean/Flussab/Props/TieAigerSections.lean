/-
Tie between the section readers of the ASCII AIGER parser, `/repo/flussab-aiger/src/ascii.rs` (the streaming
typestate API behind `Parser::new`), and the hand-written model `Model/Aiger.lean` — the statements.
(Proofs: `Proof/TieAigerSections.lean`.)

`Flussab.Gen.AigerSections.*` (file `Gen/AigerSectionsGen.lean`) is produced by `tools/gen_core.py`
(`tools/unit_aigersections.py`, one unit over ten `impl` blocks) from the Rust source on every check run:
`Parser::inputs`, `ParseInputs::{next_input, latches}`, `ParseLatches::{next_latch, outputs}`,
`ParseOutputs::{next_output, bad_state_properties}`, `ParseBadStateProperties::{next_bad_state_property,
invariant_constraints}`, `ParseInvariantConstraints::{next_invariant_constraint, justice_properties}`,
`ParseJusticePropertySizes::{next_justice_property_size, justice_property_local_fairness_constraints}`,
`ParseJusticePropertyLocalFairnessConstraints::{next_justice_property_local_fairness_constraint,
fairness_constraints}`, `ParseFairnessConstraints::{next_fairness_constraint, and_gates}`,
`ParseAndGates::{next_and_gate, symbols}` — 19 functions.

Correspondence of the records.  Every section struct is `{ parser: Parser<'a, L>, <count>_left: usize }`; the
generated code acts on the pair (`Aiger.St`, reader `LR`) in the monad `ASM = StateT Aiger.St PM`
(`Model/AigerSectionsExt.lean`): `parser` without its reader is `St.p` (`header`, `max_lit`; the struct's type
parameter `L` is `St.p.lit`, `L::from_code(c)` is `p.lit.fromCode c`), the `<count>_left` field — whatever it is
called in the struct at hand — is `St.left`, `total_local_fairness_count` (a field of
`ParseJusticePropertySizes` only) is `St.total`; the other structs carry `total` along unchanged, as the model
does.  `parser.reader` is the `PM` state.  The model's functions take and return the record `Aiger.St`
explicitly, so `(Gen.f).run s` and `Aiger.f s` have the same type `PM (result × Aiger.St)`; a thrown
`ParseError` leaves only the reader state on both sides.  Calls into token.rs are the token models of
`Model/AigerToken.lean` (tied to token.rs by `Props/TieAigerToken.lean`: `lit`, `header_field`, `required_*`,
`invalid_initialization` = `errorAtMark`).  `usize` subtraction and addition are the checked operations.

* `next_*_tied` (9): for every section state and reader state the generated function returns the same item,
  leaves the same section state and acts on the reader exactly like the model function.  Unconditional, except
  `next_justice_property_size_tied`: hypothesis `s.total ≤ usize::MAX` (the field is a `usize`; the model keeps
  it as a `Nat`).  Under it neither `usize::MAX - total` nor `total += count` can overflow (`count` is at most
  the limit `header_field` was called with), so the differently named panic sites of the two sides are not
  reached; without it both sides panic, with different site names.
* `inputs_tied`: `Parser::inputs` applied to the parser `s.p` builds the model's `s.p.inputs` (there is no
  section state before it: whatever `left` / `total` the record holds is overwritten).
* the transitions (9): the value returned by the generated transition (`Prod.fst <$> …`; the generated function
  consumes `self`, so the state it leaves behind is the drained old struct and not part of the statement) and
  its effect on the reader are those of the model's transition.  The draining loop
  `while self.x_left != 0 { self.next_x()?; }` is the model's `finish` (`whileSome` with the fuel `left + 1`);
  the generated loop gets the same fuel and it is never used up (every `next_x` that returns has decremented
  `left`), so no hypothesis about fuel.  Hypotheses: `s.p.bin = false` for `latches`, `outputs`, `symbols` (the
  model functions `toLatches`, `toOutputs`, `toSymbols` are shared with the binary parser and branch on the
  format; `Parser::new` of ascii.rs produces `bin = false`: `Props/TieAigerNew.lean`); `s.total ≤ usize::MAX`
  for `justice_property_local_fairness_constraints` (as above; `justice_properties` sets `total := 0` and
  `next_justice_property_size` keeps the bound).

Not translated from `impl Parser` / `impl ParseSymbols` (reasons in `tools/unit_aigersections.py`): the
`from_*` constructors, `new` (unit `aigernew_ascii`), `header` (accessor), `parse` (whole-file driver),
— these stay tied by the correspondence runs.  `ParseSymbols::{next_symbol, comment}` are translated by the unit
`aigersymbols` and tied in `Props/TieAigerSymbols.lean`.
-/
import Flussab.Proof.TieAigerSections

namespace Flussab
namespace TieAigerSections

open TieAigerSectionsAux

/-! ### `Parser::inputs` and the `next_*` functions -/

theorem inputs_tied (s : Aiger.St) :
    Prod.fst <$> Gen.AigerSections.inputs.run s = (pure s.p.inputs : PM Aiger.St) := inputs_eq s

theorem next_input_tied (s : Aiger.St) :
    Gen.AigerSections.nextInput.run s = Aiger.nextInput s := nextInput_eq s

theorem next_latch_tied (s : Aiger.St) :
    Gen.AigerSections.nextLatch.run s = Aiger.nextLatchAscii s := nextLatch_eq s

theorem next_output_tied (s : Aiger.St) :
    Gen.AigerSections.nextOutput.run s = Aiger.nextOutput s := nextOutput_eq s

theorem next_bad_state_property_tied (s : Aiger.St) :
    Gen.AigerSections.nextBadStateProperty.run s = Aiger.nextBad s := nextBadStateProperty_eq s

theorem next_invariant_constraint_tied (s : Aiger.St) :
    Gen.AigerSections.nextInvariantConstraint.run s = Aiger.nextConstraint s := nextInvariantConstraint_eq s

theorem next_justice_property_size_tied (s : Aiger.St) (ht : s.total ≤ PM.usizeMax) :
    Gen.AigerSections.nextJusticePropertySize.run s = Aiger.nextJusticeSize s :=
  nextJusticePropertySize_eq s ht

theorem next_justice_property_local_fairness_constraint_tied (s : Aiger.St) :
    Gen.AigerSections.nextJusticePropertyLocalFairnessConstraint.run s = Aiger.nextJusticeLit s :=
  nextJusticeLit_eq s

theorem next_fairness_constraint_tied (s : Aiger.St) :
    Gen.AigerSections.nextFairnessConstraint.run s = Aiger.nextFairness s := nextFairnessConstraint_eq s

theorem next_and_gate_tied (s : Aiger.St) :
    Gen.AigerSections.nextAndGate.run s = Aiger.nextAndGateAscii s := nextAndGate_eq s

/-! ### the transitions -/

theorem latches_tied (s : Aiger.St) (hb : s.p.bin = false) :
    Prod.fst <$> Gen.AigerSections.latches.run s = Aiger.toLatches s := latches_eq s hb

theorem outputs_tied (s : Aiger.St) (hb : s.p.bin = false) :
    Prod.fst <$> Gen.AigerSections.outputs.run s = Aiger.toOutputs s := outputs_eq s hb

theorem bad_state_properties_tied (s : Aiger.St) :
    Prod.fst <$> Gen.AigerSections.badStateProperties.run s = Aiger.toBad s := badStateProperties_eq s

theorem invariant_constraints_tied (s : Aiger.St) :
    Prod.fst <$> Gen.AigerSections.invariantConstraints.run s = Aiger.toConstraints s :=
  invariantConstraints_eq s

theorem justice_properties_tied (s : Aiger.St) :
    Prod.fst <$> Gen.AigerSections.justiceProperties.run s = Aiger.toJusticeSizes s := justiceProperties_eq s

theorem justice_property_local_fairness_constraints_tied (s : Aiger.St) (ht : s.total ≤ PM.usizeMax) :
    Prod.fst <$> Gen.AigerSections.justicePropertyLocalFairnessConstraints.run s = Aiger.toJusticeLits s :=
  justiceLits_eq s ht

theorem fairness_constraints_tied (s : Aiger.St) :
    Prod.fst <$> Gen.AigerSections.fairnessConstraints.run s = Aiger.toFairness s := fairnessConstraints_eq s

theorem and_gates_tied (s : Aiger.St) :
    Prod.fst <$> Gen.AigerSections.andGates.run s = Aiger.toAndGates s := andGates_eq s

theorem symbols_tied (s : Aiger.St) (hb : s.p.bin = false) :
    Prod.fst <$> Gen.AigerSections.symbols.run s = Aiger.toSymbols s := symbols_eq s hb

/-! ### non-vacuity -/

/-- A section state with one item left; it satisfies both hypotheses used above. -/
def exampleSt : Aiger.St :=
  { p := { bin := false, lit := ⟨8⟩, maxLit := 5,
           header := { maxVarIndex := 2, inputCount := 1, latchCount := 1, outputCount := 0, andGateCount := 0 } },
    left := 1 }

example : exampleSt.p.bin = false ∧ exampleSt.total ≤ PM.usizeMax := by decide

/-- The generated `next_input` on `"2\n"`: literal 2, `inputs_left` 0, cursor on line 2. -/
example : (match Gen.AigerSections.nextInput.run exampleSt (LR.init [50, 10] false) with
    | (.ok (some 2, s'), lr) => s'.left == 0 && lr.v.pos == 2 && lr.line == 2
    | _ => false) = true := by
  decide

/-- The generated `next_latch` on `"4 3 7\n"`: the reset literal 7 is neither 0, 1 nor the latch's own literal:
a syntax error at the mark (line 1, column 5). -/
example : (match Gen.AigerSections.nextLatch.run exampleSt (LR.init [52, 32, 51, 32, 55, 10] false) with
    | (.error (.syn 1 5), _) => true
    | _ => false) = true := by
  decide

end TieAigerSections
end Flussab
