/-
C04 for the AIGER formats — a failing source is always reported as an I/O error.

In the view model a failing source is `fault = true`: the stream ends where the source failed, and
the first request at or beyond that offset parks the error.  Proved, from the Hoare triples of
`Proof/AigerSafe.lean` / `Proof/AigerBinSafe.lean`:
* `aiger_fault_io` (covered entry points of both formats), `aag_parse_fault`, `aig_parse_fault`
  (whole-file `parse()` from the initial state): an I/O error is only ever reported for a failing
  source; and when the source is a failing one, every syntax error is raised *before the reader
  has hit the end of the delivered data* (`sawEnd = false`) — i.e. it is the fault-free run's own
  error, found without looking at or beyond the offset where the source failed;
* `aiger_eof_not_on_fault`: the only acceptor of a clean end of file, `eof`, never succeeds on a
  failing source.
* `aag_parse_not_ok_on_fault`, `aig_parse_not_ok_on_fault`, `aiger_comment_not_ok_on_fault`: with
  a failing source, whole-file `parse()` of either format, and `comment()` from any state
  satisfying the invariant, never return `Ok` (the repaired F6: `remaining_file_content` consults
  the parked error after reading to the end; `eof` tests it).
-/
import Flussab.Props.C05Aiger

namespace Flussab.C04
open Flussab Flussab.Aiger PM Lines

theorem fault_of_err {b : VBytes} {f : Bool} {e : PErr} {lr' : LR} (he : Err b f e lr') :
    (e = .io → f = true) ∧ (∀ l col, e = .syn l col → f = true → lr'.v.sawEnd = false) := by
  refine ⟨?_, ?_⟩
  · intro h1; subst h1; exact he.2
  · intro l col h1; subst h1; exact he.2.2

/-- **C04** for the covered entry points. -/
theorem aiger_fault_io {α : Type} {m : PM α} (c : C05.Covered m) (b : VBytes) (f : Bool)
    (lr lr' : LR) (h : Inv b f lr) (e : PErr) (hr : m.run lr = (.error e, lr')) :
    (e = .io → f = true) ∧ (∀ l col, e = .syn l col → f = true → lr'.v.sawEnd = false) := by
  obtain ⟨Q, w⟩ := c.wp b f lr h
  exact fault_of_err ((Wp.of_run w).2 _ _ hr)

/-- Whole-file ASCII `parse()`. -/
theorem aag_parse_fault (b : VBytes) (f : Bool) (l : LitTy) (hl : l.bits ≤ 64)
    (hb : b.length + 3 ≤ usizeMax) (lr' : LR) (e : PErr)
    (hr : (parseAag l).run (LR.init b f) = (.error e, lr')) :
    (e = .io → f = true) ∧ (∀ line col, e = .syn line col → f = true → lr'.v.sawEnd = false) :=
  aiger_fault_io (.parseAag l hl) b f _ lr' (C05.aiger_inv_init b f hb) e hr

/-- Whole-file binary `parse()`, and-gate block included. -/
theorem aig_parse_fault (b : VBytes) (f : Bool) (l : LitTy) (hl : l.bits ≤ 64)
    (hb : b.length + 3 ≤ usizeMax) (lr' : LR) (e : PErr)
    (hr : (parseAig l).run (LR.init b f) = (.error e, lr')) :
    (e = .io → f = true) ∧ (∀ line col, e = .syn line col → f = true → lr'.v.sawEnd = false) := by
  obtain ⟨s, p, _, _, he⟩ := (Wp.of_run (parseAig_ok l hl (C05.aiger_inv_init b f hb))).2 _ _ hr
  exact fault_of_err he

/-- Binary `next_and_gate`. -/
theorem aig_gate_fault (b : VBytes) (f : Bool) (st : St) (lr lr' : LR) (h : MInv b f lr)
    (hs : SInv st) (e : PErr) (hr : (nextAndGateBin st).run lr = (.error e, lr')) :
    (e = .io → f = true) ∧ (∀ line col, e = .syn line col → f = true → lr'.v.sawEnd = false) := by
  obtain ⟨s, p, _, _, he⟩ := (Wp.of_run (nextAndGateBin_ok st h hs)).2 _ _ hr
  exact fault_of_err he

/-- A failing source never lets `eof` — the only acceptor of a clean end of file — succeed. -/
theorem aiger_eof_not_on_fault (b : VBytes) (lr lr' : LR) (h : Inv b true lr) (u : Unit) :
    eof.run lr ≠ (.ok (some u), lr') := by
  intro hr
  have := (Wp.of_run (E := Err b true) (eof_ok h)).1 _ _ hr
  have := (this.2.2.2 rfl).1
  cases this

/-- With a failing source `comment()` never returns normally. -/
theorem aiger_comment_not_ok_on_fault (b : VBytes) (p : Parser) (lr lr' : LR) (h : Inv b true lr)
    (c : Option VBytes) : (comment p).run lr ≠ (.ok c, lr') := by
  intro hr
  have := (Wp.of_run (comment_ok p h)).1 _ _ hr
  cases this

/-- **With a failing source, ASCII `parse()` never returns `Ok`.** -/
theorem aag_parse_not_ok_on_fault (b : VBytes) (l : LitTy) (hl : l.bits ≤ 64)
    (hb : b.length + 3 ≤ usizeMax) (a : Aig) (lr' : LR) :
    (parseAag l).run (LR.init b true) ≠ (.ok a, lr') := by
  intro hr
  have := (Wp.of_run (parseAag_ok l hl (C05.aiger_inv_init b true hb))).1 _ _ hr
  cases this

/-- **With a failing source, binary `parse()` never returns `Ok`.** -/
theorem aig_parse_not_ok_on_fault (b : VBytes) (l : LitTy) (hl : l.bits ≤ 64)
    (hb : b.length + 3 ≤ usizeMax) (a : OrderedAig) (lr' : LR) :
    (parseAig l).run (LR.init b true) ≠ (.ok a, lr') := by
  intro hr
  have := (Wp.of_run (parseAig_ok l hl (C05.aiger_inv_init b true hb))).1 _ _ hr
  cases this

/-! ### non-vacuity -/

/-- A failing source in the middle of the comment (the repaired F6) and in the middle of a varint:
both runs end in `io`. -/
example : C05.errOf ((parseAag ⟨8⟩).run (LR.init [97,97,103,32,48,32,48,32,48,32,48,32,48,10,99,10,104,105,10] true))
      = some .io ∧
    C05.errOf ((parseAig ⟨64⟩).run (LR.init [97,105,103,32,54,32,53,32,48,32,48,32,49,10, 0x8A] true)) = some .io := by
  decide +kernel

/-- A syntax error in front of the fault is reported as such (second disjunct of the property). -/
example : C05.errOf ((parseAag ⟨8⟩).run (LR.init [97,97,103,32,120,32,48,32,48,32,48,32,48,10] true))
    = some (.syn 1 5) := by decide +kernel

end Flussab.C04
