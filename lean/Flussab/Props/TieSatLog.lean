/-
Tie between `/repo/flussab-cnf/src/sat_solver_log.rs` (`parse_log`, `Config::ignore_unknown_lines`) and the
hand-written model `Cnf.parseLog` of `Model/Cnf.lean` — the statements.  (Proofs: `Proof/TieSatLog.lean`.)

`Flussab.Gen.SatLog.*` (file `Gen/SatLogGen.lean`) is produced by `tools/gen_core.py` (`tools/unit_satlog.py`) from
the Rust source on every check run.  The generated code runs in the parser monad `PM` on the reader state `LR`
(the `input: &mut LineReader`), with the conventions of `Props/TieCnfToken.lean`: a `ParseError` is the thrown
outcome (`?`, `Ok`, `Err` are the identity on it), `Parsed<T, ParseError>` is an `Option`, the `Parsed` combinators
applied to closures are the contracts of `Model/CnfTokenExt.lean` (`or_parse`, `or_give_up`, `map_err`, `and_also`;
`p.map(|_| v)` is `Option.map`), `L: Dimacs` is the parameter `(l : Cnf.LitTy)`.  Calls into token.rs are the token
models of `Model/CnfToken.lean` (`interactive_strict_comment`, `interactive_skip_line`, `interactive_end_of_line`,
`eof`, `skip_whitespace`, `fixed`, `int::<isize>`: tied to token.rs by `Props/TieCnfToken.lean`; `unexpected`,
`exceeds_var_count`: message builders, `Cnf.unexpected` / `Cnf.exceedsVarCount`, tied by correspondence runs).

Correspondences (each documented in `tools/unit_satlog.py`, which fails the translation on any other shape):
* the local variables of `parse_log` are carried by the generated loops as the tuple
  `(satisfiable, assignment, assignment_started, assignment_finished)`; the model threads the record
  `Cnf.LogState`; `tup st = (st.satisfiable, st.assignment.reverse, st.started, st.finished)`:
  - `satisfiable: Option<Option<bool>>` is `st.satisfiable` (`None` = no solution line yet, `Some(None)` =
    `s UNKNOWN`); `is_none()` = `Option.isNone`, `flatten()` = `Option.join`;
  - `assignment: Vec<L>`: `vec![]` = `[]`, `push(x)` = `++ [x]`; the model conses and reverses at the end, so the
    vector is `st.assignment.reverse`;
  - the two `bool` flags are `st.started`, `st.finished`;
* `config: Config` is the record `SatLogExt.Config` (one field); the model function takes the field's value;
* `SolverLog { satisfiable, assignment }` is the model's record `Cnf.SolverLog`;
* the statements that only build the message of the last `token::unexpected(input, &expected)` (a `Vec<&str>`
  joined into a `String`) are erased — messages are not modelled; `expected.pop().unwrap()` cannot panic (the
  vector is created with one element and only pushed to);
* `Config::ignore_unknown_lines(mut self, value) -> Self { self.ignore_unknown_lines = value; self }` is the
  record update.

Fuel: the three loops (`loop1` = the outer `loop`, `loop2` = the comment-line `while`, `loop3` = the value-line
`while let`) get the fuel expressions of the model's `logLoop` / `strictCommentLoop` / `valueLoop`
(`rest.length + 2`, `+ 1`, `+ 2`) and the model's out-of-fuel value `rpanic "fuel"`.  The loop theorems hold *fuel for
fuel* (for every `n`, also where the fuel runs out), so no termination argument is involved, and they are stated
for every continuation `K` of the loop that maps the out-of-fuel outcome `Ctl.fuel` to `rpanic "fuel"` — which is what
the generated callers do.  `Ctl.ret` (a `return` of the enclosing function from inside a loop) is never produced:
every `return Err(..)` of `parse_log` is a thrown error.

* `parse_log_tied`: for every literal type, every `Config` (both values of `ignore_unknown_lines`) and every reader
  state (equality of `PM` computations = functions of the state): same result / error, same cursor, line
  bookkeeping and look-ahead ghost.
* `comment_loop_tied`, `value_loop_tied`, `outer_loop_tied`: the three loops.
* `ignore_unknown_lines_tied`: the setter.
Nothing of the file is left untranslated (the tests excepted).
-/
import Flussab.Proof.TieSatLog

namespace Flussab
namespace TieSatLog

open PM

export TieSatLogAux (tup)

/-- `parse_log::<L>(input, config)` = `Cnf.parseLog l config.ignore_unknown_lines`, for every reader state. -/
theorem parse_log_tied (l : Cnf.LitTy) (cfg : SatLogExt.Config) :
    Gen.SatLog.parseLog l cfg = Cnf.parseLog l cfg.ignoreUnknownLines := TieSatLogAux.parseLog_eq l cfg

/-- The same with the flag as the parameter. -/
theorem parse_log_tied_flag (l : Cnf.LitTy) (ignoreUnknown : Bool) :
    Gen.SatLog.parseLog l { ignoreUnknownLines := ignoreUnknown } = Cnf.parseLog l ignoreUnknown :=
  TieSatLogAux.parseLog_eq l _

/-- `while token::interactive_strict_comment(input).matches()? {}`. -/
theorem comment_loop_tied {β : Type} (l : Cnf.LitTy) (n : Nat) (K : Ctl Unit Cnf.SolverLog → PM β)
    (hK : K Ctl.fuel = rpanic "fuel") :
    (Gen.SatLog.parseLog.loop2 l n () >>= K) = (Cnf.strictCommentLoop n >>= fun _ => K (Ctl.brk ())) :=
  TieSatLogAux.loop2_bind l n K hK

/-- The `while let Some(lit) = …` loop of a value line, on the locals `(assignment, assignment_finished)`.  The
model's continuation `K'` is only ever applied to `st` with these two fields replaced (the other two fields of the
model state are untouched by the model's loop). -/
theorem value_loop_tied {β : Type} (l : Cnf.LitTy) (n : Nat) (st : Cnf.LogState)
    (K : Ctl (List Int × Bool) Cnf.SolverLog → PM β) (K' : Cnf.LogState → PM β) (hK : K Ctl.fuel = rpanic "fuel")
    (hK' : ∀ a f, K' { st with assignment := a, finished := f } = K (Ctl.brk (a.reverse, f))) :
    (Gen.SatLog.parseLog.loop3 l n (st.assignment.reverse, st.finished) >>= K) = (Cnf.valueLoop l n st >>= K') :=
  TieSatLogAux.loop3_bind l n st K K' hK hK'

/-- Special case: the continuation looks at the two locals only. -/
theorem value_loop_tied_locals {β : Type} (l : Cnf.LitTy) (n : Nat) (st : Cnf.LogState)
    (K : Ctl (List Int × Bool) Cnf.SolverLog → PM β) (hK : K Ctl.fuel = rpanic "fuel") :
    (Gen.SatLog.parseLog.loop3 l n (st.assignment.reverse, st.finished) >>= K) =
      (Cnf.valueLoop l n st >>= fun st' => K (Ctl.brk (st'.assignment.reverse, st'.finished))) :=
  TieSatLogAux.loop3_bind l n st K _ hK (fun _ _ => rfl)

/-- The outer `loop`. -/
theorem outer_loop_tied {β : Type} (l : Cnf.LitTy) (cfg : SatLogExt.Config) (n : Nat) (st : Cnf.LogState)
    (K : Ctl (Option (Option Bool) × List Int × Bool × Bool) Cnf.SolverLog → PM β) (hK : K Ctl.fuel = rpanic "fuel") :
    (Gen.SatLog.parseLog.loop1 l cfg n (tup st) >>= K) =
      (Cnf.logLoop l cfg.ignoreUnknownLines n st >>= fun st' => K (Ctl.brk (tup st'))) :=
  TieSatLogAux.loop1_bind l cfg n st K hK

/-- `Config::ignore_unknown_lines`. -/
theorem ignore_unknown_lines_tied (c : SatLogExt.Config) (v : Bool) :
    Gen.SatLog.ignoreUnknownLines c v = pure { c with ignoreUnknownLines := v } :=
  TieSatLogAux.ignoreUnknownLines_eq c v

end TieSatLog
end Flussab
