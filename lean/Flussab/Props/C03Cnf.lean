/-
C03 (DIMACS part) — parse ∘ write = id for CNF, WCNF and GCNF.

`cnf_roundtrip`: for every document `(header?, clauses)` in the domain `WF` (the same explicit
decidable predicate as C07: `Spec.CnfWF`, Flussab/Spec/CnfDomain.lean) the parser model, run on
the bytes the writer models produce (`write_header`, then `write_clause` per clause), returns the
document.  A corollary of C07's `cnf_parse_render`: the writers' output is the canonical layout
(`C07.render_canonical`).  The length bound is the one of C07 (checked `usize` line / position
arithmetic in `LineReader`).

`cnf_parsed_is_wf` (converse): whatever the parser accepts up to a clean end — from ANY bytes, any
reader state, failing sources included — is a document of `WF`; hence `cnf_parse_write_parse`:
parse ∘ write ∘ parse = parse.  The only hypothesis on the literal type is that it is one of the
crate's (`1 ≤ bits ≤ 64`).
-/
import Flussab.Props.C07
import Flussab.Proof.CnfSound

namespace Flussab.C03
open Flussab Flussab.Cnf Flussab.Spec

abbrev WF := @Spec.CnfWF

/-- **parse ∘ write = id** for the three DIMACS formats, every literal type, both settings of
`ignore_header`. -/
theorem cnf_roundtrip (fmt : Format) (l : LitTy) (ignoreHeader : Bool) (h : Option Header)
    (cs : List Clause) (hwf : WF fmt l ignoreHeader h cs)
    (hlen : (Cnf.writeDoc fmt h cs).length < 2 ^ 64 - 1) :
    Cnf.parseAll fmt l ignoreHeader (LR.init (Cnf.writeDoc fmt h cs) false) =
      { header := h, items := cs, final := none } := by
  obtain ⟨hr, hf⟩ := C07.render_canonical fmt h cs
  rw [← hr] at hlen ⊢
  exact C07.cnf_parse_render fmt l ignoreHeader h cs (Layout.canonical cs) hwf hf hlen

/-- Non-vacuity: a GCNF document with `i8` literals at `±MAX_DIMACS`, groups up to the declared
count, an empty clause; the writers' text; hypotheses hold. -/
example :
    let d : List Clause := [⟨3, [127, -127]⟩, ⟨0, []⟩, ⟨1, [1]⟩]
    WF .gcnf ⟨8⟩ false (some ⟨127, 3, 3⟩) d ∧
    (Cnf.writeDoc .gcnf (some ⟨127, 3, 3⟩) d).length < 2 ^ 64 - 1 ∧
    Cnf.writeDoc .gcnf (some ⟨127, 3, 3⟩) d =
      "p gcnf 127 3 3\n{3} 127 -127 0\n{0} 0\n{1} 1 0\n".toUTF8.toList := by decide +kernel

/-- **Converse**: every document the parser returns with a clean end is in the domain `WF`
(arbitrary input bytes, arbitrary fault flag). -/
theorem cnf_parsed_is_wf (fmt : Format) (l : LitTy) (ignoreHeader : Bool)
    (hl : 1 ≤ l.bits ∧ l.bits ≤ 64) (bytes : VBytes) (fault : Bool) (h : Option Header)
    (cs : List Clause)
    (hparse : Cnf.parseAll fmt l ignoreHeader (LR.init bytes fault) =
      { header := h, items := cs, final := none }) :
    WF fmt l ignoreHeader h cs :=
  CnfP.parseAll_sound fmt l ignoreHeader hl _ h cs hparse

/-- **parse ∘ write ∘ parse = parse**: re-writing what was parsed and parsing it again gives the
same document. -/
theorem cnf_parse_write_parse (fmt : Format) (l : LitTy) (ignoreHeader : Bool)
    (hl : 1 ≤ l.bits ∧ l.bits ≤ 64) (bytes : VBytes) (fault : Bool) (h : Option Header)
    (cs : List Clause)
    (hparse : Cnf.parseAll fmt l ignoreHeader (LR.init bytes fault) =
      { header := h, items := cs, final := none })
    (hlen : (Cnf.writeDoc fmt h cs).length < 2 ^ 64 - 1) :
    Cnf.parseAll fmt l ignoreHeader (LR.init (Cnf.writeDoc fmt h cs) false) =
      Cnf.parseAll fmt l ignoreHeader (LR.init bytes fault) := by
  rw [hparse]
  exact cnf_roundtrip fmt l ignoreHeader h cs
    (cnf_parsed_is_wf fmt l ignoreHeader hl bytes fault h cs hparse) hlen

/-- Non-vacuity of the converse: a messy text that parses cleanly (so the hypothesis is
satisfiable), and the document it yields. -/
example :
    let text := " c x\n\np cnf 3 2 \r\n1 -03\n  c y\n 2 0\n-0".toUTF8.toList
    let r := Cnf.parseAll .cnf ⟨32⟩ false (LR.init text false)
    r.header = some ⟨3, 2, 0⟩ ∧ r.items = [⟨0, [1, -3, 2]⟩, ⟨0, []⟩] ∧ r.final = none ∧
    WF .cnf ⟨32⟩ false (some ⟨3, 2, 0⟩) [⟨0, [1, -3, 2]⟩, ⟨0, []⟩] := by decide +kernel

end Flussab.C03
