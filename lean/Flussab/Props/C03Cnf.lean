/-
C03 (DIMACS part) — parse ∘ write = id for CNF, WCNF and GCNF.

`cnf_roundtrip`: for every document `(header?, clauses)` in the domain `WF` (the same explicit
decidable predicate as C07: `Spec.CnfWF`, Flussab/Spec/CnfDomain.lean) the parser model, run on
the bytes the writer models produce (`write_header`, then `write_clause` per clause), returns the
document.  A corollary of C07's `cnf_parse_render`: the writers' output is the canonical layout
(`C07.render_canonical`).  The length bound is the one of C07 (checked `usize` line / position
arithmetic in `LineReader`).
-/
import Flussab.Props.C07

namespace Flussab.C03
open Flussab Flussab.Cnf Flussab.Spec

abbrev WF := @Spec.CnfWF

/-- **parse ∘ write = id** for the three DIMACS formats, every literal type, both settings of
`ignore_header`. -/
theorem cnf_roundtrip (fmt : Format) (l : LitTy) (ignoreHeader : Bool) (h : Option Header)
    (cs : List Clause) (hwf : WF fmt l ignoreHeader h cs)
    (hlen : (Cnf.writeDoc fmt h cs).length < 2 ^ 64 - 1) :
    Cnf.parseAll fmt l ignoreHeader (LR.init (Cnf.writeDoc fmt h cs) false) =
      { header := h, items := cs, final := none } := by
  obtain ⟨hr, hf⟩ := C07.render_canonical fmt h cs
  rw [← hr] at hlen ⊢
  exact C07.cnf_parse_render fmt l ignoreHeader h cs (Layout.canonical cs) hwf hf hlen

/-- Non-vacuity: a GCNF document with `i8` literals at `±MAX_DIMACS`, groups up to the declared
count, an empty clause; the writers' text; hypotheses hold. -/
example :
    let d : List Clause := [⟨3, [127, -127]⟩, ⟨0, []⟩, ⟨1, [1]⟩]
    WF .gcnf ⟨8⟩ false (some ⟨127, 3, 3⟩) d ∧
    (Cnf.writeDoc .gcnf (some ⟨127, 3, 3⟩) d).length < 2 ^ 64 - 1 ∧
    Cnf.writeDoc .gcnf (some ⟨127, 3, 3⟩) d =
      "p gcnf 127 3 3\n{3} 127 -127 0\n{0} 0\n{1} 1 0\n".toUTF8.toList := by decide +kernel

end Flussab.C03
