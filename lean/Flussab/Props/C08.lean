/-
C08 — syntax errors designate a position inside the input (DIMACS family and solver log).

Lines are the `'\n'`-separated segments of the input `b`; an unterminated last segment counts as
a line, a trailing newline does not open a new one (`Lines.linesOf`; this is exactly the oracle of
`harness/src/eng_cnf.rs`, search for `C08:`).  `nlines b` is their number and `lineLen b l` the
length of line `l` without its newline, `0` for `l = nlines b + 1`.

**Range** (`…_error_in_range`): every syntax error `line:col` has `1 ≤ line ≤ nlines b + 1` and
`1 ≤ col ≤ lineLen b line + 1` — for every input, every format / literal type / configuration,
and whether or not the source fails at its end.  `line = nlines b + 1` happens: an error "found
end of file" after a final newline, or after a comment that ran into the end of the input without
a newline (`comment` calls `line_at_offset` there).  Proof: the invariant `PM.Inv` carries
`line_start ≤ position`, "no newline consumed since `line_start`" and `Lines.LineAt` ("`line` is
one more than the number of newlines before `line_start`, which is `0` or follows a newline — or
is the end of an input without final newline"); `Lines.lineAt_inRange` turns that into the range.

**Exact location per error class** (`unexpected_at_cursor`, `range_error_at_token_start`): the
two ways an error is raised in `flussab-cnf`.

Hypothesis as in C05: `b.length < 2^63`.

Not discharged here: the statement over the catalogue of single-token corruptions of
DESIGN §4 C08 ("the error is *on the corrupted token*") needs the layout grammar of C07 as the
source of token spans; it is checked on the implementation by the `*-corrupt` generators of the
format engines.  The two per-class theorems below are its model-level ingredients.
-/
import Flussab.Proof.CnfParserSafe

namespace Flussab.C08
open Flussab Cnf PM Lines

/-- `InRange` spelled out. -/
theorem inRange_iff (b : VBytes) (l c : Nat) :
    InRange b l c ↔ (1 ≤ l ∧ l ≤ nlines b + 1 ∧ 1 ≤ c ∧ c ≤ lineLen b l + 1) := Iff.rfl

/-- **Every syntax error of a whole-document parse designates a position inside the input.** -/
theorem cnf_error_in_range (fmt : Format) (l : LitTy) (ignoreHeader : Bool) (b : VBytes)
    (fault : Bool) (hb : b.length < 2 ^ 63) (line col : Nat)
    (h : (parseAll fmt l ignoreHeader (LR.init b fault)).final = some (.syn line col)) :
    1 ≤ line ∧ line ≤ nlines b + 1 ∧ 1 ≤ col ∧ col ≤ lineLen b line + 1 := by
  obtain ⟨herr, _⟩ := parseAllS_ok fmt l ignoreHeader (inv_init b fault (SizeOK.of_lt hb))
  rw [← parseAllS_fst] at h
  exact (herr _ h).2.1

/-- Per call, from any state of an error-free parse: `Parser::new`. -/
theorem new_error_in_range (fmt : Format) (l : LitTy) (ignoreHeader : Bool) (b : VBytes)
    (fault : Bool) (lr lr' : LR) (line col : Nat) (h : Inv b fault lr)
    (hr : (Parser.new fmt l ignoreHeader).run lr = (.error (.syn line col), lr')) :
    1 ≤ line ∧ line ≤ nlines b + 1 ∧ 1 ≤ col ∧ col ≤ lineLen b line + 1 :=
  ((parserNew_ok fmt l ignoreHeader h).of_run.2 _ lr' hr).2.1

/-- Per call: `next_clause`. -/
theorem next_clause_error_in_range (p : Parser) (b : VBytes) (fault : Bool) (lr lr' : LR)
    (line col : Nat) (h : Inv b fault lr)
    (hr : p.nextClause.run lr = (.error (.syn line col), lr')) :
    1 ≤ line ∧ line ≤ nlines b + 1 ∧ 1 ≤ col ∧ col ≤ lineLen b line + 1 :=
  ((nextClause_ok p h).of_run.2 _ lr' hr).2.1

/-- The solver log parser. -/
theorem log_error_in_range (l : LitTy) (ignoreUnknown : Bool) (b : VBytes) (fault : Bool)
    (hb : b.length < 2 ^ 63) (lr' : LR) (line col : Nat)
    (hr : (parseLog l ignoreUnknown).run (LR.init b fault) = (.error (.syn line col), lr')) :
    1 ≤ line ∧ line ≤ nlines b + 1 ∧ 1 ≤ col ∧ col ≤ lineLen b line + 1 :=
  ((parseLog_ok l ignoreUnknown (inv_init b fault (SizeOK.of_lt hb))).of_run.2 _ lr' hr).2.1

/-- The designated position as an absolute offset: `line_start(line) + col - 1 ≤ b.length`, in
the form the invariant has it — the error state still satisfies the position invariant, and the
reported column is a position between `line_start` and the cursor. -/
theorem next_clause_error_state (p : Parser) (b : VBytes) (fault : Bool) (lr lr' : LR)
    (e : PErr) (h : Inv b fault lr) (hr : p.nextClause.run lr = (.error e, lr')) :
    InvE b fault lr' :=
  ((nextClause_ok p h).of_run.2 _ lr' hr).1

/-- **`unexpected` errors are at the cursor**: the error raised by `unexpected(..)` ("expected …,
found …") is the parked I/O error or carries the current line and the column of the first
unconsumed byte. -/
theorem unexpected_at_cursor {α : Type} (lr lr' : LR) (e : PErr) (h : lr.lineStart ≤ lr.v.pos)
    (hr : (unexpected : PM α).run lr = (.error e, lr')) :
    e = .io ∨ e = .syn lr.line (lr.v.pos - lr.lineStart + 1) :=
  (unexpected_at (Q := fun _ _ => True) h).of_run.2 e lr' hr

/-- … and `unexpected` never returns. -/
theorem unexpected_always_fails {α : Type} (b : VBytes) (fault : Bool) (lr lr' : LR) (a : α)
    (h : Inv b fault lr) : (unexpected : PM α).run lr ≠ (.ok a, lr') := by
  intro hr
  exact (unexpected_ok (Q := fun _ _ => False) h).of_run.1 a lr' hr

/-- **Range errors are at the start of the numeral**: `var_count` (header variable count beyond
`MAX_DIMACS` or not representable), `uint_count` (count not representable) report the column of
the first byte of the numeral just scanned — the cursor at the entry of the token function,
where the mark is set. -/
theorem range_error_at_token_start (b : VBytes) (fault : Bool) (lr lr' : LR) (e : PErr)
    (h : Inv b fault lr) :
    (∀ l, (varCount l).run lr = (.error e, lr') →
      e = .io ∨ e = .syn lr.line (lr.v.pos - lr.lineStart + 1)) ∧
    (∀ t, (uintCount t).run lr = (.error e, lr') →
      e = .io ∨ e = .syn lr.line (lr.v.pos - lr.lineStart + 1)) :=
  ⟨fun l hr => (varCount_at l h).of_run.2 e lr' hr, fun t hr => (uintCount_at t h).of_run.2 e lr' hr⟩

/-- The literal scanner of `clause_lits` and of the log's value lines reports an unrepresentable
literal at the mark, which `clause_lits` sets to the cursor immediately before each call. -/
theorem literal_error_at_mark (b : VBytes) (fault : Bool) (lr lr' : LR) (e : PErr)
    (h : Inv b fault lr) (hm : lr.lineStart ≤ lr.v.mark) (hr : litInt.run lr = (.error e, lr')) :
    e = .io ∨ e = .syn lr.line (lr.v.mark - lr.lineStart + 1) :=
  (litInt_at h hm).of_run.2 e lr' hr

/-- `exceeds_var_count` itself: always an error at the mark. -/
theorem exceeds_var_count_at_mark {α : Type} (lr lr' : LR) (e : PErr) (h : lr.lineStart ≤ lr.v.mark)
    (hr : (exceedsVarCount : PM α).run lr = (.error e, lr')) :
    e = .io ∨ e = .syn lr.line (lr.v.mark - lr.lineStart + 1) :=
  (exceedsVarCount_at (Q := fun _ _ => True) rfl rfl h).of_run.2 e lr' hr

/-! ### non-vacuity -/

/-- Errors on the first line, on a later line, at `nlines + 1` after a final newline (header
promises a clause), and at `nlines + 1` after a comment without final newline; the bounds of
`cnf_error_in_range` are attained. -/
example :
    (parseAll .cnf ⟨32⟩ false (LR.init [49, 32, 120] false)).final = some (.syn 1 3) ∧
    (parseAll .cnf ⟨32⟩ false (LR.init [49, 32, 48, 10, 50, 32, 120, 10] false)).final =
      some (.syn 2 3) ∧
    (parseAll .cnf ⟨32⟩ false (LR.init [112, 32, 99, 110, 102, 32, 49, 32, 49, 10] false)).final =
      some (.syn 2 1) ∧
    nlines [112, 32, 99, 110, 102, 32, 49, 32, 49, 10] = 1 ∧
    (parseAll .cnf ⟨32⟩ false
      (LR.init [112, 32, 99, 110, 102, 32, 49, 32, 49, 10, 99, 32, 120] false)).final =
        some (.syn 3 1) ∧
    nlines [112, 32, 99, 110, 102, 32, 49, 32, 49, 10, 99, 32, 120] = 2 ∧
    lineLen [49, 32, 120] 1 = 3 := by
  decide +kernel

/-- A range error at the start of the numeral: `"p cnf 99999999999999999999 1"` with 64-bit
literals is reported at column 7, an out-of-range literal `"1 300 0"` for `i8` at column 3. -/
example :
    (parseAll .cnf ⟨64⟩ false
      (LR.init ([112, 32, 99, 110, 102, 32] ++ List.replicate 20 57 ++ [32, 49, 10]) false)).final =
        some (.syn 1 7) ∧
    (parseAll .cnf ⟨8⟩ false (LR.init [49, 32, 51, 48, 48, 32, 48, 10] false)).final =
      some (.syn 1 3) := by
  decide +kernel

end Flussab.C08
