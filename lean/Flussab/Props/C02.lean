/-
C02 — the buffered reader is a loss-free, in-order window onto its source.

Model: `Flussab.Reader` (L1, field-for-field `DeferredReader`) over `Flussab.Source` (L0, any
read schedule: short reads, `Interrupted`, EOF or terminal error at any offset, bytes taken over
from a `BufReader`).  `r.rest` is the stream in front of the cursor: the buffered window followed
by everything the source has not delivered yet.  Property theorems only; helper lemmas are in
`Flussab/Proof/Reader*.lean`.
-/
import Flussab.Proof.ReaderOps

namespace Flussab.C02
open Flussab Reader

/-- A freshly built reader (`from_read`, or `from_buf_reader` with `src.pre` = the bytes already
sitting in the `BufReader`) satisfies the invariant, is positioned at 0 with mark 0, and the
stream in front of it is exactly: pre-buffered bytes, then the source's bytes. -/
theorem from_buf_reader_keeps_prebuffered (src : Source) (hfresh : src.ended = false)
    (hafter : src.afterEnd = 0) :
    (mk' src).Ok ∧ (mk' src).rest = src.pre ++ src.data ∧ (mk' src).position = 0 ∧
    (mk' src).mark = 0 ∧ (mk' src).window = [] := by
  refine ⟨⟨by simp [mk'], by simp [mk'], by simp [mk'], by simp [mk', hfresh], by simp [mk', hafter],
    by simp [mk', hfresh]⟩, by simp [mk', rest, window], by simp [mk', position], ?_, by simp [mk', window]⟩
  simp [mk', mark]

/-- **Loss-free, in order.**  Whatever single operation is performed (with an honest source of
any schedule), the stream in front of the cursor afterwards is the stream before minus exactly
the bytes advanced over; the position grows by exactly that number; the invariant and honesty are
kept.  Nothing is lost, duplicated, reordered or invented. -/
theorem op_preserves_stream (r : Reader) (op : Op) (h : r.Ok) (hh : r.src.Honest) (hv : op.Valid) :
    (op.run r).2.rest = r.rest.drop (op.adv r) ∧
    (op.run r).2.position = r.position + op.adv r ∧
    (op.run r).2.Ok ∧ (op.run r).2.src.Honest := by
  have s := op_stepped r op h hh hv
  exact ⟨s.rest, s.position, s.ok, s.honest⟩

/-- Sum of the bytes advanced over by a history (only successful advances count). -/
def advanced : List Op → Reader → Nat
  | [], _ => 0
  | op :: ops, r => op.adv r + advanced ops (op.run r).2

/-- The same for every history: after any sequence of operations the reader exposes the source
stream minus the bytes advanced over, and `position()` equals the number of bytes advanced over. -/
theorem history_preserves_stream (ops : List Op) (r : Reader) (h : r.Ok) (hh : r.src.Honest)
    (hv : ∀ op ∈ ops, op.Valid) :
    (runAll ops r).2.rest = r.rest.drop (advanced ops r) ∧
    (runAll ops r).2.position = r.position + advanced ops r ∧
    (runAll ops r).2.Ok ∧ (runAll ops r).2.src.Honest := by
  induction ops generalizing r with
  | nil => simp [runAll, advanced, h, hh]
  | cons op ops ih =>
    have s := op_stepped r op h hh (hv op (by simp))
    obtain ⟨i1, i2, i3, i4⟩ := ih (op.run r).2 s.ok s.honest (fun o ho => hv o (by simp [ho]))
    simp only [runAll, advanced]
    refine ⟨?_, ?_, i3, i4⟩
    · rw [i1, s.rest, List.drop_drop]
    · rw [i2, s.position]; omega

/-- The buffered window is always a prefix of the stream in front of the cursor, of the
buffered length. -/
theorem window_is_prefix (r : Reader) (h : r.Ok) :
    r.window <+: r.rest ∧ r.window.length = r.bufLen :=
  ⟨window_le_rest r, h.window_length⟩

/-- **A set mark keeps designating the same absolute offset** across every operation other than
the two that set it (refill, realignment and shrinking included). -/
theorem mark_stable (r : Reader) (op : Op) (h : r.Ok) (hh : r.src.Honest) (hv : op.Valid)
    (h1 : op ≠ .setMark) (h2 : ∀ p, op ≠ .setMarkTo p) : (op.run r).2.mark = r.mark :=
  (op_stepped r op h hh hv).mark h1 h2

theorem set_mark_is_position (r : Reader) (hp : r.position < usizeModulus) :
    (Op.setMark.run r).2.mark = r.position := by
  simp only [Op.run, setMark, mark, position] at *
  have : ((r.posOfBuf : Int) + (r.posInBuf : Int)) % (usizeModulus : Int) = (r.posOfBuf + r.posInBuf : Nat) := by
    rw [← Int.natCast_add]; exact Int.emod_eq_of_lt (by omega) (by exact_mod_cast hp)
  rw [this]; omega

theorem set_mark_to_position (r : Reader) (p : Nat) (hp : p < usizeModulus) :
    ((Op.setMarkTo p).run r).2.mark = p := by
  simp only [Op.run, setMarkToPosition, mark]
  have : (r.posOfBuf : Int) + ((p : Int) - r.posOfBuf) = p := by omega
  rw [this, Int.emod_eq_of_lt (by omega) (by exact_mod_cast hp)]; simp

/-- **A request only falls short when the source really ended or failed.**  `request(n)` returns
the whole buffered window; if that is shorter than `n` the reader is complete and the window is
all that remains of the stream.  A request that the buffered data already satisfies changes
nothing (in particular it performs no read). -/
theorem request_short_only_at_end (r : Reader) (h : r.Ok) (hh : r.src.Honest) (n : Nat) :
    ∃ r', (Op.request n).run r = (.bytes r'.window, r') ∧ r'.window <+: r.rest ∧
      (r'.window.length < n → r'.isComplete = true ∧ r'.window = r.rest) ∧
      (n ≤ r.bufLen → r' = r) := by
  obtain ⟨r', bs, e, ok, g, h1, h2, _⟩ := request_spec r h hh n
  refine ⟨r', by simp [Op.run, e], ?_, ?_, h1⟩
  · rw [← g.rest]; exact window_le_rest r'
  · intro hs
    rw [ok.window_length] at hs
    rcases h2 with h2 | h2
    · omega
    · exact ⟨h2, by rw [← g.rest, ok.complete_rest h2]⟩

/-- `request_byte_at_offset(k)` returns exactly the `k`-th byte of the stream in front of the
cursor, and `None` exactly when the stream has no such byte; then the reader is complete. -/
theorem request_byte_exact (r : Reader) (h : r.Ok) (hh : r.src.Honest) (k : Nat) :
    ∃ r', (Op.reqAt k).run r = (.byte (r.rest[k]?), r') ∧
      (r.rest.length ≤ k → r'.isComplete = true) ∧ (k < r.bufLen → r' = r) := by
  obtain ⟨r', bs, e, ok, g, h1, h2, _⟩ := requestByteAt_spec r h hh k
  refine ⟨r', by simp [Op.run, e], ?_, h1⟩
  intro hk
  rcases h2 with h2 | h2
  · have : r'.validLen ≤ r'.rest.length := by
      rw [← ok.window_length]; exact (window_le_rest r').length_le
    rw [g.rest] at this; omega
  · exact h2.1

/-- `advance_with_buf(n)` hands out exactly the next `n` bytes of the stream. -/
theorem advance_with_buf_exact (r : Reader) (h : r.Ok) (n : Nat) (hn : n ≤ r.bufLen) :
    ((Op.advanceWithBuf n).run r).1 = .bytes (r.rest.take n) := by
  rcases advance_spec r h n with ⟨_, r', e, eff, hs, hm, hc, hi, hch, hb, hp⟩ | ⟨hlt, _⟩
  · simp only [Op.run, advanceWithBuf, e, hb, hp]
    congr 1
    have : r.posInBuf + n - n = r.posInBuf := by omega
    rw [this]
    simp only [Reader.rest, window]
    rw [List.take_append_of_le_length (by simp; have := h.inBuf; simp [bufLen] at hn; omega), List.take_take]
    congr 1; simp [bufLen] at hn; omega
  · simp [bufLen] at hn; omega

/-- **The completeness / at-end flags are exact.**  `is_complete()` is true exactly when the
source has reported its end (EOF or terminal error), and then the buffered window is all that
remains; `is_at_end()` is `is_complete()` with an empty window; a parked I/O error implies
completeness. -/
theorem flags_exact (r : Reader) (h : r.Ok) :
    (r.isComplete = r.src.ended) ∧ (r.isComplete = true → r.rest = r.window) ∧
    (r.isAtEnd = (r.isComplete && r.bufLen == 0)) ∧ (r.ioError = true → r.isComplete = true) :=
  ⟨h.endC.symm, h.complete_rest, rfl, h.errC⟩

/-- The parked error is raised exactly when a refill hits the faulty end of the stream, reported
exactly once by `check_io_error`, and cleared by it. -/
theorem io_error_exact (r : Reader) (h : r.Ok) (hh : r.src.Honest) (k : Nat) :
    ∃ r', ((Op.reqAt k).run r).2 = r' ∧
      r'.ioError = (r.ioError || (r.src.fault && r'.complete && !r.complete)) ∧
      (Op.checkIoError.run r').1 = .bool r'.ioError ∧ (Op.checkIoError.run r').2.ioError = false := by
  obtain ⟨r', bs, e, ok, g, _⟩ := requestByteAt_spec r h hh k
  exact ⟨r', by simp [Op.run, e], g.ioError, by simp [Op.run, checkIoError], by simp [Op.run, checkIoError]⟩

/-- Non-vacuity: a concrete history over a 1-byte chunk reaches refills, a realignment and a
caught over-long advance, and the hypotheses of the theorems above hold for its start state. -/
example :
    let src : Source := { data := [1, 2, 3, 4, 5, 6, 7, 8, 9], fault := true, sched := [.give 2, .intr, .give 9] }
    let r := (mk' src).setChunkSize 1
    r.Ok ∧ src.Honest ∧
    ((runAll [.request 4, .advance 4, .setMark, .request 3, .advance 9, .reqAt 9] r).1 =
      [.bytes [1, 2, 3, 4], .unit, .unit, .bytes [5, 6, 7], .panic, .byte none]) := by
  refine ⟨⟨by decide, by decide, by decide, by decide, by decide, by decide⟩, ?_, by decide⟩
  intro x hx; simp at hx

end Flussab.C02
