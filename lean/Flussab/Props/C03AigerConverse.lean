/-
C03 for the AIGER formats, converse direction — parse ∘ write ∘ parse = parse.

For the models of `Parser::from_read(..)?.parse()` of the ASCII (`aag`) and binary (`aig`) format,
every literal type of the crate (`1 ≤ bits ≤ 64`) and every input `b`:

* `aag_parsed_is_domain` / `aig_parsed_is_domain` — if `parse` on `b` returns `a`, then `a` is in
  the domain `AigDomain` / `OrdDomain` of the round-trip theorems `aag_roundtrip` /
  `aig_roundtrip` (Props/C03Aiger.lean): header limits, every literal within `2M+1`, defining
  literals even and `≥ 2`, symbol indices below the size of their own section, symbol names valid
  UTF-8 without newline, comment valid UTF-8, and for the binary format each gate's inputs ordered
  and at most the gate's own literal (the binary writer's `assert!`).  Hypothesis on the size:
  `b.length + 1 < usize::MAX`.
* `aag_parse_write_parse` / `aig_parse_write_parse` — then `parse (write a) = ok a` (the binary
  writer does not panic), the whole written file being consumed.
* `aag_write_length` / `aig_write_length` — what the writer emits for a parsed circuit is at most
  ONE byte longer than the input that was parsed (shorter when the input had trailing zero header
  fields, a ` 0` latch reset, padded varints; one byte longer exactly when the input ends in the
  comment header `c\n`: the empty comment is written as `c\n\n`).  This is what turns the bound on
  the input into the clause `size` of the domains (a bound on the writer's output).
* `…_strong` — the same from ANY reader state (any position, any fault flag), with the size
  hypothesis on the writer's output instead (`(writeAig a).length < usize::MAX`); the theorems
  above are corollaries.

The literal statements "for every `l.bits ≤ 64`, no size hypothesis" are the `Prop`s
`Aiger.aag_parsed_is_domain_full` / `aig_parsed_is_domain_full` (Proof/AigerConverseFull.lean);
they are false for the zero-bit literal type (`aag_parsed_is_domain_full_false`,
`aig_parsed_is_domain_full_false`) and — in the model only — for inputs of `2^64` bytes (clause
`size`; the model's `remaining_file_content` does no `usize` arithmetic).  The theorems here are
their `_partial` versions: restricted to `1 ≤ bits` and `b.length + 1 < usize::MAX`.
`aag_parse_write_parse_full` / `aig_parse_write_parse_full` (no bound on the input) remain open
for inputs of `≥ 2^64 - 2` bytes.
-/
import Flussab.Props.C03Aiger
import Flussab.Proof.AigerConverseFull

namespace Flussab.C03
open Flussab Flussab.Aiger Flussab.AigerRT PM

/-! ### ASCII -/

/-- **`aag_parsed_is_domain`, strong form**: from any reader state; the size hypothesis is the
clause `size` itself. -/
theorem aag_parsed_is_domain_strong (l : LitTy) (hl : 1 ≤ l.bits ∧ l.bits ≤ 64) (lr lr' : LR) (a : Aig)
    (h : (parseAag l).run lr = (.ok a, lr')) (hsize : (writeAig a).length < usizeMax) :
    AigDomain l a :=
  parseAag_domain l hl.1 hl.2 lr lr' a h hsize

/-- **`aag_write_length`**: `write_aig` of a parsed circuit emits at most one byte more than what
was in front of the parser. -/
theorem aag_write_length (l : LitTy) (lr lr' : LR) (a : Aig)
    (h : (parseAag l).run lr = (.ok a, lr')) : (writeAig a).length ≤ lr.v.rest.length + 1 :=
  parseAag_length l lr lr' a h

/-- **`aag_parsed_is_domain`** (`_partial` of `Aiger.aag_parsed_is_domain_full`: literal types
with at least one bit, inputs shorter than `usize::MAX - 1`). -/
theorem aag_parsed_is_domain (l : LitTy) (hl : 1 ≤ l.bits ∧ l.bits ≤ 64) (b : VBytes) (a : Aig)
    (lr' : LR) (h : (parseAag l).run (LR.init b false) = (.ok a, lr'))
    (hsize : b.length + 1 < usizeMax) : AigDomain l a := by
  have := aag_write_length l _ lr' a h
  exact aag_parsed_is_domain_strong l hl _ lr' a h (Nat.lt_of_le_of_lt this hsize)

/-- **`aag_parse_write_parse`, strong form**. -/
theorem aag_parse_write_parse_strong (l : LitTy) (hl : 1 ≤ l.bits ∧ l.bits ≤ 64) (lr lr' : LR) (a : Aig)
    (h : (parseAag l).run lr = (.ok a, lr')) (hsize : (writeAig a).length < usizeMax) :
    ∃ lr'', (parseAag l).run (LR.init (writeAig a) false) = (.ok a, lr'') ∧ lr''.v.rest = [] :=
  aag_roundtrip l a (aag_parsed_is_domain_strong l hl lr lr' a h hsize)

/-- **`aag_parse_write_parse`** (`_partial` of `Aiger.aag_parse_write_parse_full`): re-writing
what was parsed and parsing it again gives the same circuit. -/
theorem aag_parse_write_parse (l : LitTy) (hl : 1 ≤ l.bits ∧ l.bits ≤ 64) (b : VBytes) (a : Aig)
    (lr' : LR) (h : (parseAag l).run (LR.init b false) = (.ok a, lr'))
    (hsize : b.length + 1 < usizeMax) :
    ∃ lr'', (parseAag l).run (LR.init (writeAig a) false) = (.ok a, lr'') ∧ lr''.v.rest = [] :=
  aag_roundtrip l a (aag_parsed_is_domain l hl b a lr' h hsize)

/-! ### binary -/

/-- **`aig_parsed_is_domain`, strong form**. -/
theorem aig_parsed_is_domain_strong (l : LitTy) (hl : 1 ≤ l.bits ∧ l.bits ≤ 64) (lr lr' : LR)
    (a : OrderedAig) (h : (parseAig l).run lr = (.ok a, lr'))
    (hsize : (binaryBytes a).length < usizeMax) : OrdDomain l a :=
  parseAig_domain l hl.1 hl.2 lr lr' a h hsize

/-- **`aig_write_length`**: `write_ordered_aig` of a parsed circuit emits at most one byte more
than what was in front of the parser. -/
theorem aig_write_length (l : LitTy) (hl : 1 ≤ l.bits ∧ l.bits ≤ 64) (lr lr' : LR) (a : OrderedAig)
    (h : (parseAig l).run lr = (.ok a, lr')) : (binaryBytes a).length ≤ lr.v.rest.length + 1 :=
  parseAig_length l hl.1 hl.2 lr lr' a h

/-- **`aig_parsed_is_domain`** (`_partial` of `Aiger.aig_parsed_is_domain_full`). -/
theorem aig_parsed_is_domain (l : LitTy) (hl : 1 ≤ l.bits ∧ l.bits ≤ 64) (b : VBytes) (a : OrderedAig)
    (lr' : LR) (h : (parseAig l).run (LR.init b false) = (.ok a, lr'))
    (hsize : b.length + 1 < usizeMax) : OrdDomain l a := by
  have := aig_write_length l hl _ lr' a h
  exact aig_parsed_is_domain_strong l hl _ lr' a h (Nat.lt_of_le_of_lt this hsize)

/-- **`aig_parse_write_parse`, strong form**. -/
theorem aig_parse_write_parse_strong (l : LitTy) (hl : 1 ≤ l.bits ∧ l.bits ≤ 64) (lr lr' : LR)
    (a : OrderedAig) (h : (parseAig l).run lr = (.ok a, lr'))
    (hsize : (binaryBytes a).length < usizeMax) :
    ∃ bs, writeOrderedAigBinary a = .ok bs ∧
      ∃ lr'', (parseAig l).run (LR.init bs false) = (.ok a, lr'') ∧ lr''.v.rest = [] :=
  aig_roundtrip l a (aig_parsed_is_domain_strong l hl lr lr' a h hsize)

/-- **`aig_parse_write_parse`** (`_partial` of `Aiger.aig_parse_write_parse_full`): the binary
writer does not panic on a parsed circuit, and what it writes is parsed back to the same
circuit. -/
theorem aig_parse_write_parse (l : LitTy) (hl : 1 ≤ l.bits ∧ l.bits ≤ 64) (b : VBytes) (a : OrderedAig)
    (lr' : LR) (h : (parseAig l).run (LR.init b false) = (.ok a, lr'))
    (hsize : b.length + 1 < usizeMax) :
    ∃ bs, writeOrderedAigBinary a = .ok bs ∧
      ∃ lr'', (parseAig l).run (LR.init bs false) = (.ok a, lr'') ∧ lr''.v.rest = [] :=
  aig_roundtrip l a (aig_parsed_is_domain l hl b a lr' h hsize)

/-- What the binary writer produces for a parsed circuit, explicitly. -/
theorem aig_parsed_write_bytes (l : LitTy) (hl : 1 ≤ l.bits ∧ l.bits ≤ 64) (b : VBytes) (a : OrderedAig)
    (lr' : LR) (h : (parseAig l).run (LR.init b false) = (.ok a, lr'))
    (hsize : b.length + 1 < usizeMax) : writeOrderedAigBinary a = .ok (binaryBytes a) :=
  aig_write_bytes l a (aig_parsed_is_domain l hl b a lr' h hsize)

/-! ### non-vacuity, and why the hypotheses are there -/

/-- A run whose value is known returned that value. -/
theorem run_of_okVal {α : Type} (r : Except PErr α × LR) (a : α) (h : okVal r = some a) :
    ∃ lr', r = (.ok a, lr') := by
  obtain ⟨e | x, lr'⟩ := r
  · simp [okVal] at h
  · simp only [okVal, Option.some.injEq] at h
    subst h
    exact ⟨lr', rfl⟩

/-- A messy ASCII file that is accepted: seven header fields of which the last two are zero, a
latch reset written as ` 0`, and the comment header at the very end of the file.  The hypotheses of
`aag_parsed_is_domain` hold; the writer's text differs from the input (trimmed header, no ` 0`,
`c\n\n`) and is — here — one byte shorter; the circuit is in the domain. -/
example :
    let b := "aag 3 1 1 1 1 0 0\n2\n4 6 0\n6\n6 2 4\ni0 x\nc\n".toUTF8.toList
    let a : Aig := { maxVarIndex := 3, inputs := [2], latches := [⟨4, 6, some false⟩], outputs := [6],
                     gates := [⟨2, 4, 6⟩], symbols := [⟨.input, 0, [120]⟩], comment := some [] }
    okVal ((parseAag ⟨8⟩).run (LR.init b false)) = some a ∧ b.length + 1 < usizeMax ∧
    writeAig a = "aag 3 1 1 1 1\n2\n4 6\n6\n6 2 4\ni0 x\nc\n\n".toUTF8.toList ∧
    okVal ((parseAag ⟨8⟩).run (LR.init (writeAig a) false)) = some a := by decide +kernel

/-- The theorem applied to that file. -/
example :
    let a : Aig := { maxVarIndex := 3, inputs := [2], latches := [⟨4, 6, some false⟩], outputs := [6],
                     gates := [⟨2, 4, 6⟩], symbols := [⟨.input, 0, [120]⟩], comment := some [] }
    AigDomain ⟨8⟩ a ∧
    ∃ lr'', (parseAag ⟨8⟩).run (LR.init (writeAig a) false) = (.ok a, lr'') ∧ lr''.v.rest = [] := by
  intro a
  obtain ⟨lr', h⟩ := run_of_okVal ((parseAag ⟨8⟩).run
    (LR.init "aag 3 1 1 1 1 0 0\n2\n4 6 0\n6\n6 2 4\ni0 x\nc\n".toUTF8.toList false)) a (by decide +kernel)
  exact ⟨aag_parsed_is_domain ⟨8⟩ (by decide) _ a lr' h (by decide +kernel),
    aag_parse_write_parse ⟨8⟩ (by decide) _ a lr' h (by decide +kernel)⟩

/-- The bound of `aag_write_length` is attained: `c\n` at the end of the file. -/
example :
    let b := "aag 0 0 0 0 0\nc\n".toUTF8.toList
    (match okVal ((parseAag ⟨8⟩).run (LR.init b false)) with
      | some a => (writeAig a).length == b.length + 1
      | none => false) = true := by decide +kernel

/-- A messy binary file that is accepted: the first delta of the gate is the padded varint
`0x82 0x00`; the writer emits the one-byte form. -/
example :
    let b := "aig 3 1 1 1 1\n6 4\n6\n".toUTF8.toList ++ [0x82, 0x00, 2] ++ "l0 x\nc\nhi\n".toUTF8.toList
    let a : OrderedAig := { maxVarIndex := 3, inputCount := 1, latches := [⟨6, none⟩], outputs := [6],
                            gates := [⟨4, 2⟩], symbols := [⟨.latch, 0, [120]⟩], comment := some [104, 105] }
    okVal ((parseAig ⟨64⟩).run (LR.init b false)) = some a ∧ b.length + 1 < usizeMax ∧
    (match writeOrderedAigBinary a with
      | .ok bs => bs == "aig 3 1 1 1 1\n6 4\n6\n".toUTF8.toList ++ [2, 2] ++ "l0 x\nc\nhi\n".toUTF8.toList
      | .error _ => false) = true := by
  decide +kernel

/-- The theorems applied to that file. -/
example :
    let a : OrderedAig := { maxVarIndex := 3, inputCount := 1, latches := [⟨6, none⟩], outputs := [6],
                            gates := [⟨4, 2⟩], symbols := [⟨.latch, 0, [120]⟩], comment := some [104, 105] }
    OrdDomain ⟨64⟩ a ∧ ∃ bs, writeOrderedAigBinary a = .ok bs ∧
      ∃ lr'', (parseAig ⟨64⟩).run (LR.init bs false) = (.ok a, lr'') ∧ lr''.v.rest = [] := by
  intro a
  obtain ⟨lr', h⟩ := run_of_okVal ((parseAig ⟨64⟩).run (LR.init
    ("aig 3 1 1 1 1\n6 4\n6\n".toUTF8.toList ++ [0x82, 0x00, 2] ++ "l0 x\nc\nhi\n".toUTF8.toList) false))
    a (by decide +kernel)
  exact ⟨aig_parsed_is_domain ⟨64⟩ (by decide) _ a lr' h (by decide +kernel),
    aig_parse_write_parse ⟨64⟩ (by decide) _ a lr' h (by decide +kernel)⟩

/-- The hypothesis `1 ≤ l.bits` is needed: for the zero-bit literal type the full statement
fails on `aag 0 0 0 0 0\n`. -/
theorem aag_parsed_is_domain_full_false : ¬ Aiger.aag_parsed_is_domain_full := by
  intro hfull
  obtain ⟨lr', h⟩ := run_of_okVal
    ((parseAag ⟨0⟩).run (LR.init "aag 0 0 0 0 0\n".toUTF8.toList false)) {} (by decide +kernel)
  exact absurd (hfull ⟨0⟩ (by decide) _ _ lr' h).maxVar (by decide)

theorem aig_parsed_is_domain_full_false : ¬ Aiger.aig_parsed_is_domain_full := by
  intro hfull
  obtain ⟨lr', h⟩ := run_of_okVal
    ((parseAig ⟨0⟩).run (LR.init "aig 0 0 0 0 0\n".toUTF8.toList false)) {} (by decide +kernel)
  exact absurd (hfull ⟨0⟩ (by decide) _ _ lr' h).maxVar (by decide)

end Flussab.C03
