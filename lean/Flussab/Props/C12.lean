/-
C12 — AIG renumbering preserves the circuit and yields a binary-legal order.

Model: `Flussab.Aig.renumber` (`Flussab/Model/Aig.lean`) mirrors `Renumber::renumber_aig` of
`flussab-aiger/src/aig.rs` (with the latch-state duplicate check of the F2 `fix:` commit): same
visiting order, `lit_map` keyed by even code with polarity xor-ed in and out, two-element
descending input sort, const-fold case order, structural-hash lookup, consecutive code
allocation, the three error kinds, and the mid-stack cycle test on the list of stacked literals.
The explicit-stack loop is a recursive function whose fuel is the maximal stack depth.

Old semantics is relational and needs no acyclicity: `Consistent a σ` says the valuation `σ` of
the *old* variables satisfies every gate equation.  New semantics is a forward fold over the
ordered gate list (`evalOrd`) started with `σ` restricted to the old inputs and latch states.
All theorems are generic in the `Config` (all 8 option combinations) and in the fuel.
Property theorems only; helper lemmas are in `Flussab/Proof/Aig*.lean`.
-/
import Flussab.Proof.AigCount

namespace Flussab.C12
open Flussab Flussab.Aig

/-- **Order.**  In the result the inputs are the variables `1..I`, the latches `I+1..I+L`
(`input_count`, `latches.len()`), gate `i` is variable `I+L+1+i` (its code `2(I+L+1+i)` is
implicit in its position), its larger input comes first and is numbered below the gate,
`max_var_index = I+L+A'`, every section keeps its shape and every literal of the result is in
range.  Hence the binary writer's `assert!` cannot fire on a renumbered circuit. -/
theorem renumber_order (cfg : Config) (a : Aig) (fuel : Nat) (o : OrderedAig) (m : LitMap)
    (h : renumber cfg a fuel = .ok (o, m)) :
    o.inputCount = a.inputs.length ∧ o.latches.length = a.latches.length ∧
    o.maxVarIndex = a.inputs.length + a.latches.length + o.gates.length ∧
    (∀ i (hi : i < o.gates.length), o.gates[i].in1 ≤ o.gates[i].in0 ∧
      o.gates[i].in0 < 2 * (a.inputs.length + a.latches.length + 1 + i)) ∧
    (o.outputs.length = a.outputs.length ∧ o.bad.length = a.bad.length ∧
      o.constraints.length = a.constraints.length ∧ o.fairness.length = a.fairness.length ∧
      o.justice.map List.length = a.justice.map List.length ∧
      o.latches.map (·.init) = a.latches.map (·.init)) ∧
    (∀ l ∈ o.latches.map (·.next) ++ o.outputs ++ o.bad ++ o.constraints ++ o.fairness ++
        o.justice.flatten, l ≤ 2 * o.maxVarIndex + 1) ∧
    (∀ k t, m.get k = some t → t ≤ 2 * o.maxVarIndex + 1) := by
  obtain ⟨st, inv, rfl, _, rfl⟩ := renumber_ok_inv h
  have hc := inv.code
  have hb : ∀ l, mapLit st.litMap l ≤ 2 * (st.lastCode / 2) + 1 := fun l => by
    have := mapLit_bound inv l; have := inv.code_even; omega
  refine ⟨rfl, by simp, by simp only; omega, inv.order, ?_, ?_, ?_⟩
  · refine ⟨by simp, by simp, by simp, by simp, ?_, ?_⟩
    · simp only [List.map_map]; apply List.map_congr_left; intro js _; simp
    · simp only [List.map_map]; rfl
  · intro l hl
    simp only [List.mem_append, List.mem_map, List.mem_flatten] at hl
    rcases hl with ((((⟨x, ⟨y, _, rfl⟩, rfl⟩ | ⟨x, _, rfl⟩) | ⟨x, _, rfl⟩) | ⟨x, _, rfl⟩) | ⟨x, _, rfl⟩) |
      ⟨js, ⟨js', _, rfl⟩, hl⟩
    · exact hb _
    · exact hb _
    · exact hb _
    · exact hb _
    · exact hb _
    · simp only [List.mem_map] at hl
      obtain ⟨x, _, rfl⟩ := hl
      exact hb _
  · intro k t hg
    obtain ⟨v, hm, rfl⟩ := LitMap.get_eq_some hg
    have := xor_bit_le v (k % 2) _ (by omega) inv.code_even (inv.mapBound _ _ hm)
    have := inv.code_even
    show _ ≤ 2 * (st.lastCode / 2) + 1
    omega

/-- **Soundness.**  For every valuation `σ` consistent with the old graph, evaluating the new
ordered circuit under `σ` restricted to the old inputs and latch states gives, for every
transferred root (latch next-states, outputs, bad-state, constraint, fairness and justice
literals, position by position), the value `σ` gives to the original literal; and the returned
literal map sends *every* literal it knows (either polarity) to a literal with the same value.
Holds for all 8 option combinations. -/
theorem renumber_sound (cfg : Config) (a : Aig) (fuel : Nat) (o : OrderedAig) (m : LitMap)
    (h : renumber cfg a fuel = .ok (o, m)) (σ : Nat → Bool) (hσ : Consistent a σ) :
    let vals := evalOrd o.gates (a.inputs.map (litVal σ)) (a.latches.map fun l => litVal σ l.state)
    o.latches.map (fun l => litValL vals l.next) = a.latches.map (fun l => litVal σ l.next) ∧
    o.outputs.map (litValL vals) = a.outputs.map (litVal σ) ∧
    o.bad.map (litValL vals) = a.bad.map (litVal σ) ∧
    o.constraints.map (litValL vals) = a.constraints.map (litVal σ) ∧
    o.fairness.map (litValL vals) = a.fairness.map (litVal σ) ∧
    o.justice.map (List.map (litValL vals)) = a.justice.map (List.map (litVal σ)) ∧
    (∀ k t, m.get k = some t → litValL vals t = litVal σ k) ∧
    (∀ g ∈ a.gates, cfg.trim = false → ∃ t, m.get g.out = some t) := by
  obtain ⟨st, inv, rfl, hk, rfl⟩ := renumber_ok_inv h
  have hv : evalOrd st.gates (a.inputs.map (litVal σ)) (a.latches.map fun l => litVal σ l.state) =
      st.vals a σ := rfl
  simp only [hv]
  have key : ∀ r ∈ roots cfg a, litValL (st.vals a σ) (mapLit st.litMap r) = litVal σ r :=
    fun r hr => mapLit_sound inv hσ (hk r hr)
  refine ⟨?_, ?_, ?_, ?_, ?_, ?_, ?_, ?_⟩
  · simp only [List.map_map]; apply List.map_congr_left; intro l hl; exact key _ (mem_roots_next hl)
  · simp only [List.map_map]; apply List.map_congr_left; intro l hl; exact key _ (mem_roots_outputs hl)
  · simp only [List.map_map]; apply List.map_congr_left; intro l hl; exact key _ (mem_roots_bad hl)
  · simp only [List.map_map]; apply List.map_congr_left; intro l hl
    exact key _ (mem_roots_constraints hl)
  · simp only [List.map_map]; apply List.map_congr_left; intro l hl; exact key _ (mem_roots_fairness hl)
  · simp only [List.map_map]; apply List.map_congr_left; intro js hjs
    simp only [Function.comp, List.map_map]; apply List.map_congr_left; intro l hl
    exact key _ (mem_roots_justice hjs hl)
  · intro k t hg; exact get_sound inv hσ hg
  · intro g hg ht
    obtain ⟨t, h, f⟩ := cfg
    simp only at ht; subst ht
    have := (LitMap.get_isSome_iff _ _).mpr (hk _ (mem_roots_gate hg))
    exact Option.isSome_iff_exists.mp this

/-- **Errors, part 1: doubly defined literals.**  If two of the defining occurrences — the
constant, the input literals, the and-gate outputs, the latch states — share a variable, the
result is `LitAlreadyDefined` (for latch states this is the F2 fix). -/
theorem renumber_errors_duplicate (cfg : Config) (a : Aig) (fuel : Nat)
    (h : ¬ (definedVars a).Nodup) : ∃ l, renumber cfg a fuel = .error (.alreadyDefined l) :=
  renumber_dup h

/-- **Errors, part 2: undefined literals and combinational cycles.**  If some transferred root
depends (in zero or more steps through gate definitions) on a variable that has no definition or
that lies on a combinational cycle, the result is never `Ok` — no wrong circuit is produced. -/
theorem renumber_errors_illfounded (cfg : Config) (a : Aig) (fuel : Nat) (r v : Nat)
    (hr : r ∈ roots cfg a) (hd : DepStar a (r / 2) v) (hv : Undefined a v ∨ OnCycle a v) :
    ∀ res, renumber cfg a fuel ≠ .ok res := by
  intro ⟨o, m⟩ hok
  have hn := renumber_ok_nodup hok
  have hg := renumber_ok_grounded hok r hr
  have hgv : Grounded a v := by
    rcases hd with rfl | hd
    · exact hg
    · exact hg.depPlus hn hd
  rcases hv with hv | hv
  · exact hgv.not_undefined hv
  · exact hgv.not_onCycle hn hv

/-- **Errors, combined**: an ill-formed graph never yields `Ok`. -/
theorem renumber_errors (cfg : Config) (a : Aig) (fuel : Nat) :
    (¬ (definedVars a).Nodup → ∃ l, renumber cfg a fuel = .error (.alreadyDefined l)) ∧
    (∀ r v, r ∈ roots cfg a → DepStar a (r / 2) v → (Undefined a v ∨ OnCycle a v) →
      ∀ res, renumber cfg a fuel ≠ .ok res) :=
  ⟨renumber_errors_duplicate cfg a fuel, renumber_errors_illfounded cfg a fuel⟩

/-- Conversely a successful run certifies well-formedness: no variable is defined twice and
every transferred root is well-founded (built from constant, inputs and latches by gates). -/
theorem renumber_ok_wellformed (cfg : Config) (a : Aig) (fuel : Nat) (o : OrderedAig) (m : LitMap)
    (h : renumber cfg a fuel = .ok (o, m)) :
    (definedVars a).Nodup ∧ ∀ r ∈ roots cfg a, Grounded a (r / 2) :=
  ⟨renumber_ok_nodup h, renumber_ok_grounded h⟩

/-- **Acceptance.**  A well-formed graph — no variable defined twice, every transferred root
well-founded (acyclic and fully defined below it) — is renumbered successfully: no spurious
`FoundCycle` from the mid-stack test, no spurious `LitNotDefined`, no fuel exhaustion.  Together
with `renumber_order` and `renumber_sound` this is the positive half of the property. -/
theorem renumber_accepts_wellformed (cfg : Config) (a : Aig) (fuel : Nat)
    (hn : (definedVars a).Nodup) (hg : ∀ r ∈ roots cfg a, Grounded a (r / 2))
    (hf : a.gates.length < fuel) : ∃ o m, renumber cfg a fuel = .ok (o, m) :=
  renumber_complete hn hg hf

/-- `Ok` exactly on the well-formed graphs (default fuel). -/
theorem renumberAig_ok_iff_wellformed (cfg : Config) (a : Aig) :
    (∃ o m, renumberAig cfg a = .ok (o, m)) ↔
      ((definedVars a).Nodup ∧ ∀ r ∈ roots cfg a, Grounded a (r / 2)) := by
  constructor
  · rintro ⟨o, m, h⟩; exact renumber_ok_wellformed cfg a _ o m h
  · rintro ⟨hn, hg⟩; exact renumber_complete hn hg (by unfold defaultFuel; omega)

/-- **Termination.**  The model's recursion is structural in the fuel (so every call terminates);
on a graph whose transferred roots are well-founded (acyclic, fully defined) a fuel — i.e. a stack
depth — exceeding the number of gates is never exhausted, however deep the graph is.  In
particular the default fuel `2·gates + 3` suffices. -/
theorem renumber_terminates (cfg : Config) (a : Aig) (fuel : Nat)
    (hg : ∀ r ∈ roots cfg a, Grounded a (r / 2)) (hf : a.gates.length < fuel) :
    renumber cfg a fuel ≠ .outOfFuel :=
  renumber_fuel hg hf

theorem renumberAig_terminates (cfg : Config) (a : Aig)
    (hg : ∀ r ∈ roots cfg a, Grounded a (r / 2)) : renumberAig cfg a ≠ .outOfFuel :=
  renumber_fuel hg (by unfold defaultFuel; omega)

/-- **Consecutive numbering of inputs and latches.**  The returned map sends the constant to 0,
the `i`-th input literal to `2(i+1)` and the `j`-th latch-state literal to `2(I+j+1)`; together
with `renumber_order` (gate `i` is `2(I+L+1+i)`): inputs, then latches, then and-gates are numbered
consecutively. -/
theorem renumber_leaf_numbering (cfg : Config) (a : Aig) (fuel : Nat) (o : OrderedAig) (m : LitMap)
    (h : renumber cfg a fuel = .ok (o, m)) :
    m.get 0 = some 0 ∧
    (∀ i (hi : i < a.inputs.length), m.get a.inputs[i] = some (2 * (i + 1))) ∧
    (∀ j (hj : j < a.latches.length),
      m.get a.latches[j].state = some (2 * (a.inputs.length + j + 1))) :=
  renumber_leaf_codes h

/-- **Termination on every graph.**  With the default fuel (`2·gates + 3` stack entries) the model
never runs out of fuel, cyclic and ill-formed graphs included: the mid-stack test
`stack[n] = stack[n/2]` fires before the stack can hold more than `2·gates + 1` literals
(`Flussab.Aig.midstack_bound`, `PathInv.length_le`). -/
theorem renumberAig_never_out_of_fuel (cfg : Config) (a : Aig) : renumberAig cfg a ≠ .outOfFuel :=
  renumber_total (Nat.le_refl _)

/-- **The explicit-stack detection rule** (`stack.get(stack.len() / 2) == lit`), stand-alone: if
the successor of a stacked literal is a function of its variable, at most `G` variables occur and
the rule never fired, the stack holds at most `2G + 1` literals — so on an (eventually periodic)
cyclic descent the rule fires at depth `≤ 2G + 2`. -/
theorem midstack_cycle_check (L S : List Nat) (nxt : Nat → Nat → Prop)
    (hdet : ∀ x x' y y', x / 2 = x' / 2 → nxt x y → nxt x' y' → y = y')
    (hchain : ∀ i (h : i + 1 < L.length), nxt L[i] L[i + 1])
    (hvars : ∀ i (_ : i + 1 < L.length) (h' : i < L.length), L[i] / 2 ∈ S)
    (hnohit : ∀ n, 1 ≤ n → ∀ (h : n < L.length), L[n] ≠ L[n / 2]) :
    L.length ≤ 2 * S.length + 1 :=
  midstack_bound L S nxt hdet hchain hvars hnohit

/-- … and it has no false positive on a repetition-free stack. -/
theorem midstack_no_false_positive (L : List Nat) (hn : L.Nodup) (n : Nat) (h1 : 1 ≤ n)
    (h : n < L.length) : L[n] ≠ L[n / 2] := by
  intro he
  have := (List.pairwise_iff_getElem.mp hn) (n / 2) n (by omega) h (by omega)
  exact this he.symm

/-- **Errors, part 3: the reported error is the corresponding one.**  `LitAlreadyDefined` is only
reported when a variable is defined twice; otherwise `LitNotDefined l` names a literal whose
variable has no definition and `FoundCycle l` a literal whose variable lies on a combinational
cycle, in both cases reachable from a transferred root. -/
theorem renumber_error_is_corresponding (cfg : Config) (a : Aig) (fuel : Nat) (e : Err)
    (h : renumber cfg a fuel = .error e) :
    (∃ l, e = .alreadyDefined l ∧ ¬ (definedVars a).Nodup) ∨
    ((definedVars a).Nodup ∧ ∃ r ∈ roots cfg a,
      ((∃ l, e = .notDefined l ∧ Undefined a (l / 2) ∧ DepStar a (r / 2) (l / 2)) ∨
       (∃ l, e = .foundCycle l ∧ OnCycle a (l / 2) ∧ DepStar a (r / 2) (l / 2)))) :=
  renumber_err_sound h

/-- **Classification** of the outcome of `renumber_aig` (default fuel): doubly defined variable ⇒
`LitAlreadyDefined`; else some transferred root not well-founded ⇒ `LitNotDefined` or `FoundCycle`;
else `Ok`. -/
theorem renumberAig_classification (cfg : Config) (a : Aig) :
    (¬ (definedVars a).Nodup → ∃ l, renumberAig cfg a = .error (.alreadyDefined l)) ∧
    ((definedVars a).Nodup → (∃ r ∈ roots cfg a, ¬ Grounded a (r / 2)) →
      ∃ l, renumberAig cfg a = .error (.notDefined l) ∨ renumberAig cfg a = .error (.foundCycle l)) ∧
    ((definedVars a).Nodup → (∀ r ∈ roots cfg a, Grounded a (r / 2)) →
      ∃ o m, renumberAig cfg a = .ok (o, m)) :=
  ⟨renumber_dup, fun hn hr => renumber_illfounded_error (Nat.le_refl _) hn hr,
   fun hn hg => renumber_complete hn hg (by unfold defaultFuel; omega)⟩

/-- An undefined literal or a combinational cycle below a transferred root yields
`LitNotDefined` or `FoundCycle` (unless a doubly defined variable is reported first). -/
theorem renumber_errors_kind (cfg : Config) (a : Aig) (r v : Nat) (hn : (definedVars a).Nodup)
    (hr : r ∈ roots cfg a) (hd : DepStar a (r / 2) v) (hv : Undefined a v ∨ OnCycle a v) :
    ∃ l, renumberAig cfg a = .error (.notDefined l) ∨ renumberAig cfg a = .error (.foundCycle l) := by
  apply renumber_illfounded_error (Nat.le_refl _) hn
  refine ⟨r, hr, fun hg => ?_⟩
  have hgv : Grounded a v := by
    rcases hd with rfl | hd
    · exact hg
    · exact hg.depPlus hn hd
  rcases hv with hv | hv
  · exact hgv.not_undefined hv
  · exact hgv.not_onCycle hn hv

/-- **Codes fit.**  The renumbered circuit has at most as many and-gates as the original, hence
at most as many variables (`I + L + A' ≤ I + L + A`, and the old variables are distinct and
non-zero): every new code is bounded by the largest old code, so it fits whatever literal type
held the old codes. -/
theorem renumber_codes_fit (cfg : Config) (a : Aig) (fuel : Nat) (o : OrderedAig) (m : LitMap)
    (h : renumber cfg a fuel = .ok (o, m)) :
    o.gates.length ≤ a.gates.length ∧
    o.maxVarIndex ≤ a.inputs.length + a.latches.length + a.gates.length := by
  have hg := renumber_gate_count h
  have := (renumber_order cfg a fuel o m h).2.2.1
  exact ⟨hg, by omega⟩

/-! ### Non-vacuity -/

/-- Two inputs, one latch, four gates in non-topological order with negated and constant inputs,
a structural duplicate (`12 = 5∧2` vs `8 = 2∧5`) and a foldable gate (`14 = 12∧1`). -/
def exAig : Aig :=
  { inputs := [2, 4], latches := [⟨6, 9, some false⟩],
    gates := [⟨8, 6, 10⟩, ⟨2, 5, 8⟩, ⟨12, 1, 14⟩, ⟨5, 2, 12⟩],
    outputs := [11, 3, 14], justice := [[8], []] }

def exSigma : Nat → Bool := fun v => v != 0 && v != 2

/-- The hypotheses of `renumber_order` / `renumber_sound` are satisfiable (all options on). -/
example : ∃ o m, renumberAig ⟨true, true, true⟩ exAig = .ok (o, m) ∧ o.gates = [⟨5, 2⟩, ⟨8, 6⟩] ∧
    o.outputs = [11, 3, 8] ∧ Consistent exAig exSigma :=
  ⟨_, _, rfl, rfl, rfl, rfl, by decide⟩

/-- … and with all options off. -/
example : ∃ o m, renumberAig ⟨false, false, false⟩ exAig = .ok (o, m) ∧ o.gates.length = 4 :=
  ⟨_, _, rfl, rfl⟩

/-- `renumber_terminates` / `renumber_accepts_wellformed`: `exAig` is well-formed. -/
example : (definedVars exAig).Nodup := by decide


example : ∀ r ∈ roots ⟨true, true, true⟩ exAig, Grounded exAig (r / 2) :=
  (renumber_ok_wellformed _ exAig (defaultFuel exAig) _ _ rfl).2

/-- `renumber_errors_duplicate`: a latch state equal to an input (the F2 input). -/
example : ¬ (definedVars { inputs := [2], latches := [⟨2, 2, none⟩] }).Nodup := by decide

example : renumberAig ⟨false, false, false⟩ { inputs := [2], latches := [⟨2, 2, none⟩] } =
    .error (.alreadyDefined 2) := rfl

/-- `renumber_errors_illfounded`: a cycle `4 → 6 → 4` below output 4, and a dangling literal 9. -/
def exCyc : Aig := { inputs := [2], gates := [⟨6, 2, 4⟩, ⟨4, 2, 6⟩], outputs := [4] }

example : (4 : Nat) ∈ roots ⟨true, false, false⟩ exCyc ∧ DepStar exCyc (4 / 2) 2 ∧ OnCycle exCyc 2 := by
  refine ⟨by decide, Or.inl rfl, ?_⟩
  exact DepPlus.cons ⟨⟨6, 2, 4⟩, by decide, rfl, Or.inl rfl⟩
    (DepPlus.single ⟨⟨4, 2, 6⟩, by decide, rfl, Or.inl rfl⟩)

example : renumberAig ⟨true, false, false⟩ exCyc = .error (.foundCycle 6) := rfl

example : (5 : Nat) ∈ roots ⟨true, false, false⟩ { inputs := [2], outputs := [5] } ∧
    Undefined { inputs := [2], outputs := [5] } (5 / 2) := by
  refine ⟨by decide, ?_⟩
  unfold Undefined; decide

end Flussab.C12
