/-
C08 (DIMACS family: CNF, WCNF, GCNF),
    the catalogue clause for the numeric-overflow class at DOCUMENT
level: replace a whitespace-delimited all-digit token of an accepted document by a digit string whose
value is at least `2^64` (so it fits none of `usize`, `u64`,
    `isize`); if the result is rejected with
a syntax error, the error is on the line of the token and its column lies on the token.

For every format, literal type and header mode; no size hypothesis.  The token may be followed by a
space, a tab, CR or LF (so `\r\n` line ends are covered); in front of it stands a space, a newline
or nothing.  (All numeral tokens of these formats — header counts, top weight / group count, clause
weights, literals — report at the start of the numeral: `exceeds_var_count` at the mark, `give_up`
before anything was consumed, cf. `C08.range_error_at_token_start`; the theorem states the catalogue
clause: `first byte ≤ column ≤ last byte`.)

Where the hypothesis "rejected" fails: an all-digit word inside a comment line — the modified
document is accepted too.  (A group `{n}` is not a delimited all-digit word.)

Proof (`Proof/CnfCatalogue*.lean`, on the relational calculus of `Proof/Btor2Catalogue.lean`):
prefix determinism inside a line — every function of the model run side by side on
`r ++ tok ++ post` / `r ++ tok' ++ post` — and position independence (runs from "shifted" states),
the latter needed behind a comment that contains the replaced word.
-/
import Flussab.Proof.CnfCatalogueParser

namespace Flussab.C08
open Flussab Flussab.Cnf PM

/-- **A replaced numeral token is reported on the token** (DIMACS family, document level). -/
theorem cnf_overflow_error_on_token (fmt : Format) (lt : LitTy) (ignoreHeader : Bool)
    (pre tok tok' post : VBytes) (l c : Nat)
    (hacc : (parseAll fmt lt ignoreHeader (LR.init (pre ++ tok ++ post) false)).final = none)
    (hrej : (parseAll fmt lt ignoreHeader (LR.init (pre ++ tok'
        ++ post) false)).final = some (.syn l c))
    (hne : tok ≠ []) (hd : tok.all isDigit = true) (hd' : tok'.all isDigit = true)
    (hbig : 2 ^ 64 ≤ Text.decVal tok')
    (hpre : pre = [] ∨ pre.getLast? = some 32 ∨ pre.getLast? = some 10)
    (hpost : post.head? = some 32 ∨ post.head? = some 9 ∨ post.head? = some 13 ∨ post.head? = some 10) :
    l = 1 + pre.count 10 ∧
    (pre.reverse.takeWhile (· != 10)).length + 1 ≤ c ∧
    c < (pre.reverse.takeWhile (· != 10)).length + 1 + tok'.length :=
  Cnf.Cat.cnf_overflow_located fmt lt ignoreHeader pre tok tok' post l c hacc hrej hne hd hd' hbig hpre hpost

/-! ### non-vacuity

In the examples `[49, 56, 52, 52, …, 49, 54]` (20 bytes) is `18446744073709551616` = `2^64`. -/

/-- All hypotheses hold — the clause count of `p cnf 3 2` replaced by `2^64`: error at `1:9`, the
first byte of the replacement. -/
example :
    (parseAll .cnf ⟨32⟩ false (LR.init ([112, 32, 99, 110, 102, 32, 51, 32] ++ [50] ++ [10, 49, 32,
        45, 50, 32, 48, 10, 50, 32, 51, 32, 48, 10]) false)).final = none ∧
    (parseAll .cnf ⟨32⟩ false (LR.init ([112, 32, 99, 110, 102, 32, 51, 32] ++ [49, 56, 52, 52, 54,
        55, 52, 52, 48, 55, 51, 55, 48, 57, 53, 53, 49, 54, 49, 54] ++ [10, 49, 32, 45, 50, 32, 48,
        10, 50, 32, 51, 32, 48, 10]) false)).final =
      some (.syn 1 9) ∧
    ([50] : VBytes) ≠ [] ∧ ([50] : VBytes).all isDigit = true ∧ ([49, 56, 52, 52, 54, 55, 52, 52,
        48, 55, 51, 55, 48, 57, 53, 53, 49, 54, 49, 54] : VBytes).all isDigit = true ∧
    2 ^ 64 ≤ Text.decVal [49, 56, 52, 52, 54, 55, 52, 52, 48, 55, 51, 55, 48, 57, 53, 53, 49, 54,
        49, 54] ∧
    ([112, 32, 99, 110, 102, 32, 51, 32] : VBytes).getLast? = some 32 ∧
    ([10, 49, 32, 45, 50, 32, 48, 10, 50, 32, 51, 32, 48, 10] : VBytes).head? = some 10 ∧
    1 + ([112, 32, 99, 110, 102, 32, 51, 32] : VBytes).count 10 = 1 ∧
    (([112, 32, 99, 110, 102, 32, 51,
        32] : VBytes).reverse.takeWhile (· != 10)).length + 1 = 9 := by
  decide +kernel

/-- A literal on the third line: `3:3`. -/
example :
    (parseAll .cnf ⟨32⟩ false (LR.init ([112, 32, 99, 110, 102, 32, 51, 32, 50, 10, 49, 32, 45, 50,
        32, 48, 10, 50, 32] ++ [51] ++ [32, 48, 10]) false)).final = none ∧
    (parseAll .cnf ⟨32⟩ false (LR.init ([112, 32, 99, 110, 102, 32, 51, 32, 50, 10, 49, 32, 45, 50,
        32, 48, 10, 50, 32] ++ [49, 56, 52, 52, 54, 55, 52, 52, 48, 55, 51, 55, 48, 57, 53, 53, 49,
        54, 49, 54] ++ [32, 48, 10]) false)).final = some (.syn 3 3) := by
  decide +kernel

/-- The variable count of the header: `1:7`. -/
example :
    (parseAll .cnf ⟨32⟩ false (LR.init ([112, 32, 99, 110, 102, 32] ++ [51] ++ [32, 50, 10, 49, 32,
        45, 50, 32, 48, 10, 50, 32, 51, 32, 48, 10]) false)).final = none ∧
    (parseAll .cnf ⟨32⟩ false (LR.init ([112, 32, 99, 110, 102, 32] ++ [49, 56, 52, 52, 54, 55, 52,
        52, 48, 55, 51, 55, 48, 57, 53, 53, 49, 54, 49, 54] ++ [32, 50, 10, 49, 32, 45, 50, 32, 48,
        10, 50, 32, 51, 32, 48, 10]) false)).final = some (.syn 1 7) := by
  decide +kernel

/-- A clause weight (WCNF) at the start of a line: `2:1`. -/
example :
    (parseAll .wcnf ⟨32⟩ false (LR.init ([112, 32, 119, 99, 110, 102, 32, 50, 32, 49, 32, 49, 48,
        10] ++ [53] ++ [32, 49, 32, 50, 32, 48, 10]) false)).final = none ∧
    (parseAll .wcnf ⟨32⟩ false (LR.init ([112, 32, 119, 99, 110, 102, 32, 50, 32, 49, 32, 49, 48,
        10] ++ [49, 56, 52, 52, 54, 55, 52, 52, 48, 55, 51, 55, 48, 57, 53, 53, 49, 54, 49, 54]
        ++ [32, 49, 32, 50, 32, 48, 10]) false)).final = some (.syn 2 1) := by
  decide +kernel

/-- A literal behind a group (GCNF): `2:5`. -/
example :
    (parseAll .gcnf ⟨32⟩ false (LR.init ([112, 32, 103, 99, 110, 102, 32, 50, 32, 49, 32, 49, 10,
        123, 49, 125, 32] ++ [50] ++ [32, 48, 10]) false)).final = none ∧
    (parseAll .gcnf ⟨32⟩ false (LR.init ([112, 32, 103, 99, 110, 102, 32, 50, 32, 49, 32, 49, 10,
        123, 49, 125, 32] ++ [49, 56, 52, 52, 54, 55, 52, 52, 48, 55, 51, 55, 48, 57, 53, 53, 49,
        54, 49, 54] ++ [32, 48, 10]) false)).final = some (.syn 2 5) := by
  decide +kernel

/-- The terminating `0` of a clause in front of a CR LF line end, no header: `1:5`. -/
example :
    (parseAll .cnf ⟨32⟩ false (LR.init ([49, 32, 50, 32] ++ [48] ++ [13, 10]) false)).final = none ∧
    (parseAll .cnf ⟨32⟩ false (LR.init ([49, 32, 50, 32] ++ [49, 56, 52, 52, 54, 55, 52, 52, 48,
        55, 51, 55, 48, 57, 53, 53, 49, 54, 49, 54] ++ [13,
        10]) false)).final = some (.syn 1 5) := by
  decide +kernel

/-- Where the hypothesis "rejected" fails: a word of a comment line — the replacement is accepted. -/
example :
    (parseAll .cnf ⟨32⟩ false (LR.init ([99, 32] ++ [49, 50] ++ [32, 120, 10, 112, 32, 99, 110,
        102, 32, 49, 32, 49, 10, 49, 32, 48, 10]) false)).final = none ∧
    (parseAll .cnf ⟨32⟩ false (LR.init ([99, 32] ++ [49, 56, 52, 52, 54, 55, 52, 52, 48, 55, 51,
        55, 48, 57, 53, 53, 49, 54, 49, 54] ++ [32, 120, 10, 112, 32, 99, 110, 102, 32, 49, 32, 49,
        10, 49, 32, 48, 10]) false)).final = none := by
  decide +kernel

end Flussab.C08
