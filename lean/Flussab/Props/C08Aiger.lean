/-
C08 for the AIGER formats — syntax errors designate a position inside the input.

* `aiger_error_in_range` — for every entry point of the ASCII parser and every text-line entry
  point of the binary parser (`C05.Covered`), from any state satisfying the parser invariant:
  a syntax error `line:column` satisfies `1 ≤ line ≤ nlines b + 1`, `1 ≤ column ≤ lineLen b line + 1`.
* `aag_parse_error_in_range` — whole-file `ascii::Parser::parse` from the initial state.
* `aig_parse_error_in_range`, `aig_gate_error_in_range` — binary files.  Inside the and-gate
  block a byte may be `0x0A`, and the code does not count it as a line end (`binary_uint` never
  calls `line_at_offset`), so the `\n`-split statement over `b` itself is false in general: for
  `"aig 6 5 0 0 1\n" ++ [0x0A, 0x02] ++ "i9 x\n"` the error is reported at `2:4`, while the
  `\n`-split line 2 of `b` is empty.  What holds, and is proved: the position is in range of
  `mask b s p` = `b` with the bytes `[s, p)` replaced by zeros, for some `s ≤ p ≤ b.length` — in
  the proof `s` is the offset where the block starts (= `line_start` throughout the block) and `p`
  the cursor when the last varint before the error had been consumed; `mask b s p` has the length
  of `b` and differs from it only at offsets in `[s, p)`.  This is the "block is the continuation
  of one line" reading of DESIGN §4 C08; in particular `line ≤ nlines (mask b s p) + 1` and
  `column ≤ lineLen (mask b s p) line + 1 ≤ b.length + 1`.

Exact-location statements (the error is *on the corrupted token*) are checked on the implementation
by the `aiger` engine (family `corrupt`, `t=`), not proved.
-/
import Flussab.Props.C05Aiger

namespace Flussab.C08
open Flussab Flussab.Aiger PM Lines

/-- **C08 (range)** for the covered entry points. -/
theorem aiger_error_in_range {α : Type} {m : PM α} (c : C05.Covered m) (b : VBytes) (f : Bool)
    (lr lr' : LR) (h : Inv b f lr) (l col : Nat) (hr : m.run lr = (.error (.syn l col), lr')) :
    InRange b l col := by
  obtain ⟨Q, w⟩ := c.wp b f lr h
  exact ((Wp.of_run w).2 _ _ hr).2.1

/-- Whole-file ASCII `parse()`: every syntax error is in range of the input. -/
theorem aag_parse_error_in_range (b : VBytes) (f : Bool) (l : LitTy) (hl : l.bits ≤ 64)
    (hb : b.length + 3 ≤ usizeMax) (lr' : LR) (line col : Nat)
    (hr : (parseAag l).run (LR.init b f) = (.error (.syn line col), lr')) : InRange b line col :=
  aiger_error_in_range (.parseAag l hl) b f _ lr' (C05.aiger_inv_init b f hb) line col hr

/-- What the masked input is. -/
theorem mask_facts (b : VBytes) (s p : Nat) (hs : s ≤ p) (hp : p ≤ b.length) :
    (mask b s p).length = b.length ∧ (∀ i, i < s → (mask b s p)[i]? = b[i]?) ∧
    (∀ i, s ≤ i → i < p → (mask b s p)[i]? = some 0) ∧ (mask b s p).drop p = b.drop p :=
  ⟨length_mask b s p hs hp, fun i hi => getElem?_mask_lt b s p i hi (by omega),
    fun i h1 h2 => getElem?_mask_mid b s p i h1 h2 hp, drop_mask b s p hs hp⟩

theorem inRange_of_errM {b : VBytes} {f : Bool} {l col : Nat} {lr' : LR}
    (h : ErrM b f (.syn l col) lr') : ∃ s p, s ≤ p ∧ p ≤ b.length ∧ InRange (mask b s p) l col := by
  obtain ⟨s, p, hs, hp, he⟩ := h
  exact ⟨s, p, hs, hp, he.2.1⟩

/-- Binary `next_and_gate`: a syntax error is in range of the input with a prefix of the block
masked. -/
theorem aig_gate_error_in_range (b : VBytes) (f : Bool) (st : St) (lr lr' : LR) (h : MInv b f lr)
    (hs : SInv st) (l col : Nat) (hr : (nextAndGateBin st).run lr = (.error (.syn l col), lr')) :
    ∃ s p, s ≤ p ∧ p ≤ b.length ∧ InRange (mask b s p) l col :=
  inRange_of_errM ((Wp.of_run (nextAndGateBin_ok st h hs)).2 _ _ hr)

/-- Whole-file binary `parse()`: every syntax error is in range of the input in which (a prefix
of) the and-gate block is not line structure. -/
theorem aig_parse_error_in_range (b : VBytes) (f : Bool) (l : LitTy) (hl : l.bits ≤ 64)
    (hb : b.length + 3 ≤ usizeMax) (lr' : LR) (line col : Nat)
    (hr : (parseAig l).run (LR.init b f) = (.error (.syn line col), lr')) :
    ∃ s p, s ≤ p ∧ p ≤ b.length ∧ InRange (mask b s p) line col :=
  inRange_of_errM ((Wp.of_run (parseAig_ok l hl (C05.aiger_inv_init b f hb))).2 _ _ hr)

/-! ### non-vacuity -/

/-- An ASCII error run (literal `8 > 2M+1`) and its position `2:1`, which is in range. -/
example : C05.errOf ((parseAag ⟨8⟩).run (LR.init [97,97,103,32,51,32,48,32,48,32,49,32,48,10,56,10] false))
    = some (.syn 2 1) := by decide +kernel

/-- The binary counter-example to the `\n`-split form: error `2:4`, although line 2 of the raw
bytes is empty; in the masked input line 2 is `[0, 2, 'i', '9', ' ', 'x']`. -/
example : C05.isOk ((parseAig ⟨64⟩).run (LR.init C05.exAigLf false)) = true ∧
    C05.errOf ((parseAig ⟨64⟩).run (LR.init [97,105,103,32,54,32,53,32,48,32,48,32,49,10, 10,2, 105,57,32,120,10] false))
      = some (.syn 2 4) ∧
    lineLen [97,105,103,32,54,32,53,32,48,32,48,32,49,10, 10,2, 105,57,32,120,10] 2 = 0 ∧
    lineLen (mask [97,105,103,32,54,32,53,32,48,32,48,32,49,10, 10,2, 105,57,32,120,10] 14 16) 2 = 6 := by
  decide +kernel

end Flussab.C08
