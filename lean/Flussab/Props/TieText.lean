/-
Tie between `/repo/flussab/src/text.rs` (the scanners) and the hand-written scanner model — the
statements.  (Proofs: `Proof/TieText.lean`.)

`Flussab.Gen.Text.*` (file `Gen/TextGen.lean`) is produced by `tools/gen_core.py` from the Rust source
on every check run: loops, sticky overflow flags, the `_cont_pos` / `_cont_neg` continuations, the
8-byte fast paths with their `buf_len()` test and unsafe load, `newline`'s guard, `fixed`'s early return.
Each theorem says that a generated scanner *is* the scanner of `Model/Text.lean` which the property
theorems (C13, C16, C01, and through the token models C05–C09) are about: same result, same view
afterwards (the look-ahead ghost `peeked` included: the generated code demands exactly the bytes the
model says it demands), for every view, offset, integer type of at least 8 bits and buffered amount.
"No panic" is part of each equation: the `from_u8(..).unwrap()` calls cannot fail, the loops
terminate within `rest.length + 1` iterations, and the unsafe 8-byte load (translated as a load that
panics unless `offset + 8 ≤ buf_len()`) is always in bounds.

The kernel `swar_ascii_digits_u64_le` is translated separately (`tools/gen_swar.py`, `Gen/Swar.lean`).
-/
import Flussab.Proof.TieText

namespace Flussab
namespace TieText

open TieTextAux Text

/-- A pure model scanner `(result, view)` as the result of a generated `RM View` computation. -/
abbrev ret {α : Type} (p : α × View) : Option α × View := TieTextAux.ret p

theorem ascii_digits_tied (t : IntTy) (hb : 8 ≤ t.bits) (off : Nat) (v : View) :
    Gen.Text.asciiDigits t off v = ret (Text.asciiDigits t v off) := asciiDigits_eq t hb off v

theorem ascii_digits_cont_pos_tied (t : IntTy) (hb : 8 ≤ t.bits) (off : Nat) (value : Option Int) (v : View) :
    Gen.Text.asciiDigitsContPos t off value v = ret (Text.digitsCont t false v off value) :=
  contPos_eq t hb off value v

theorem ascii_digits_cont_neg_tied (t : IntTy) (hb : 8 ≤ t.bits) (off : Nat) (value : Option Int) (v : View) :
    Gen.Text.asciiDigitsContNeg t off value v = ret (Text.digitsCont t true v off value) :=
  contNeg_eq t hb off value v

theorem signed_ascii_digits_tied (t : IntTy) (hb : 8 ≤ t.bits) (off : Nat) (v : View) :
    Gen.Text.signedAsciiDigits t off v = ret (Text.signedAsciiDigits t v off) :=
  signedAsciiDigits_eq t hb off v

theorem ascii_digits_multi_cold_tied (t : IntTy) (hb : 8 ≤ t.bits) (off : Nat) (v : View) :
    Gen.Text.asciiDigitsMultiCold t off v = ret (Text.asciiDigits t v off) := multiCold_eq t hb off v

theorem signed_ascii_digits_multi_cold_tied (t : IntTy) (hb : 8 ≤ t.bits) (off : Nat) (v : View) :
    Gen.Text.signedAsciiDigitsMultiCold t off v = ret (Text.signedAsciiDigits t v off) :=
  signedMultiCold_eq t hb off v

/-- `ascii_digits_multi`, for every buffered amount `bl` (= `buf_len()`). -/
theorem ascii_digits_multi_tied (t : IntTy) (hb : 8 ≤ t.bits) (bl off : Nat) (v : View) :
    Gen.Text.asciiDigitsMulti t bl off v = ret (Text.asciiDigitsMulti t v off bl) :=
  asciiDigitsMulti_eq t hb bl off v

/-- `signed_ascii_digits_multi`, for every buffered amount that does not exceed the stream in front of
the cursor (the buffered window is a prefix of it — `Reader.Ok` / the refinement of C02).  The proof
also shows that `value as i32` and the negation never wrap (the kernel's value is below 10^8). -/
theorem signed_ascii_digits_multi_tied (t : IntTy) (hb : 8 ≤ t.bits) (bl off : Nat) (v : View)
    (hbl : bl ≤ v.rest.length) :
    Gen.Text.signedAsciiDigitsMulti t bl off v = ret (Text.signedAsciiDigitsMulti t v off bl) :=
  signedAsciiDigitsMulti_eq t hb bl off v hbl

theorem tabs_or_spaces_tied (off : Nat) (v : View) :
    Gen.Text.tabsOrSpaces off v = ret (Text.tabsOrSpaces v off) := tabsOrSpaces_eq off v

theorem newline_tied (off : Nat) (v : View) :
    Gen.Text.newline off v = ret (Text.newline v off) := newline_eq off v

theorem next_newline_tied (off : Nat) (v : View) :
    Gen.Text.nextNewline off v = ret (Text.nextNewline v off) := nextNewline_eq off v

theorem fixed_tied (off : Nat) (pat : VBytes) (v : View) :
    Gen.Text.fixed off pat v = ret (Text.fixed v off pat) := fixed_eq off pat v

/-- Non-vacuity: the generated signed scanner on `"-128 "` for `i8`, 6 bytes buffered. -/
example : (Gen.Text.signedAsciiDigits ⟨true, 8⟩ 0 (View.init [45, 49, 50, 56, 32] false)).1 = some (some (-128), 4) := by
  decide

end TieText
end Flussab
