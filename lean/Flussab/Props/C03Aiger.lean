/-
C03 for the AIGER formats — write ∘ parse = id.

Proved here, for every literal type of at most 64 bits and every value in the explicit domain:
* `aag_roundtrip` — `AigDomain ty a → Aag.parse ty (Aag.write a) = ok a` (the whole file is
  consumed): header with its trimming of trailing zero fields (5–9 fields), inputs, latches with
  all three reset forms, outputs, bad-state / constraint / justice (sizes, then literals
  distributed over the properties) / fairness sections, and gates, symbols of all seven kinds
  (incl. the `c<idx>` symbol vs. `c\n` comment header distinction), comment (also one ending in a
  newline, and the empty one);
* `aig_roundtrip` — `OrdDomain ty a →` the binary writer does not panic (`assert!`, array index)
  and `Aig.parse ty (Aig.write a) = ok a`: the same plus latches whose reset literal is the running
  counter, and the and-gate block with its two delta varints per gate;
* the sub-lemmas named in DESIGN §4 C03, each for arbitrary following text: `aig_varint_roundtrip`
  (all lengths 1–10; the repaired F8), `aig_delta_roundtrip`, `aiger_header_fields_roundtrip`
  (`header_fields_roundtrip`), `aiger_latch_reset_roundtrip` (`latch_reset_roundtrip`),
  `aiger_symbol_roundtrip` (the repaired F3: the index is checked against its own section),
  `aiger_comment_roundtrip`, `aiger_uint_roundtrip` (canonical decimal text reads back).

Domains (`Proof/AigerRtDomain.lean`): `AigDomain`: `2M+1 ≤ MAX_CODE`; `I+L+A ≤ M`; every literal
`≤ 2M+1`; defined literals even and `≥ 2`; symbol index `<` the count of its own section, names
valid UTF-8 without `\n`; comment valid UTF-8; and the written file is shorter than `usize::MAX`
(the line bookkeeping is `usize` arithmetic).  `OrdDomain` additionally: gate `i` has
`inputs[1] ≤ inputs[0] ≤ 2·(I+L+1+i)` (the writer's swap is then the identity and its `assert!`
holds).  The latch reset literal of a binary latch needs no condition: it is the running counter.

Not stated here: the converse `parse ∘ write ∘ parse = parse` (needs "`parse t = ok a` implies `a`
in the domain", of which C06 proves the numeric part; the UTF-8 / no-newline part of symbol names
is not yet exported as a theorem).  It is checked on every accepted input by the `aiger` engine.
-/
import Flussab.Proof.AigerRtDomain

namespace Flussab.C03
open Flussab Flussab.Aiger Flussab.AigerRT PM

/-- **`aag_roundtrip`.** -/
theorem aag_roundtrip (l : LitTy) (a : Aig) (h : AigDomain l a) :
    ∃ lr', (parseAag l).run (LR.init (writeAig a) false) = (.ok a, lr') ∧ lr'.v.rest = [] :=
  AigerRT.aag_roundtrip l a h.wf

/-- **`aig_roundtrip`.** -/
theorem aig_roundtrip (l : LitTy) (a : OrderedAig) (h : OrdDomain l a) :
    ∃ bs, writeOrderedAigBinary a = .ok bs ∧
      ∃ lr', (parseAig l).run (LR.init bs false) = (.ok a, lr') ∧ lr'.v.rest = [] :=
  AigerRT.aig_roundtrip l a h.wf

/-- What the binary writer produces, explicitly. -/
theorem aig_write_bytes (l : LitTy) (a : OrderedAig) (h : OrdDomain l a) :
    writeOrderedAigBinary a = .ok (binaryBytes a) := h.wf.write_ok

/-- **Round trip of a varint**, exact end state. -/
theorem aig_varint_roundtrip (n : Nat) (hn : n < 2 ^ 64) (bs : VBytes)
    (hw : writeBinaryUint n = some bs) (lr : LR) (rest : VBytes) (hrest : lr.v.rest = bs ++ rest) :
    binaryUint.run lr = (.ok n,
      { lr with v := { lr.v with rest := rest, pos := lr.v.pos + bs.length,
                                 peeked := max lr.v.peeked (lr.v.pos + bs.length) } }) :=
  binaryUint_write n hn bs hw lr rest hrest

/-- The writer never indexes beyond its 10-byte array for a `usize`, and what it emits. -/
theorem aig_varint_shape (n : Nat) (hn : n < 2 ^ 64) :
    ∃ bs, writeBinaryUint n = some bs ∧ 1 ≤ bs.length ∧ bs.length ≤ 10 ∧ Shape bs ∧ leValue bs = n :=
  writeBinaryUint_spec n hn

/-- `Steps N m a pre post`: from every healthy reader state (`CnfP.Good N`) whose remaining input
is `pre`, the call `m` returns `a` and leaves a healthy state whose remaining input is `post`. -/
abbrev Reads {α : Type} (N : Nat) (m : PM α) (a : α) (pre post : VBytes) : Prop :=
  CnfP.Steps N m a pre post

/-- `delta_roundtrip`: a delta within its base is read back and subtracted. -/
theorem aig_delta_roundtrip (N code delta : Nat) (hc : code < 2 ^ 64) (hd : delta ≤ code)
    (bs rest : VBytes) (hw : writeBinaryUint delta = some bs) :
    Reads N (deltaCode code) (code - delta) (bs ++ rest) rest :=
  deltaCode_steps code delta hc hd bs rest hw

/-- Canonical decimal text reads back (header fields, literals, sizes, symbol indices). -/
theorem aiger_uint_roundtrip (N n : Nat) (hn : n < 2 ^ 64) (rest : VBytes)
    (hnd : ∀ b, rest.head? = some b → isDigit b = false) :
    Reads N uint (.ok n) (Writer.natDigits n ++ rest) rest :=
  uint_steps n hn rest hnd

/-- `header_fields_roundtrip`: trailing zero fields dropped by the writer (at least five kept),
the parser reads 5–9 fields and defaults the rest to zero. -/
theorem aiger_header_fields_roundtrip (N : Nat) (bin : Bool) (l : LitTy) (h : Header)
    (hs : HeaderSane l h) (hsm : ∀ x ∈ headerFields h, x < 2 ^ 64) (rest : VBytes) :
    Reads N (Header.parse bin l) h (writeHeader bin h ++ rest) rest :=
  header_steps bin l h hs hsm rest

/-- `latch_reset_roundtrip`: omitted (`0`) / ` 1` / the latch's own literal. -/
theorem aiger_latch_reset_roundtrip (N : Nat) (p : Parser) (hp : POk p) (st : Nat)
    (init : Option Bool) (rest : VBytes) (hst : init = none → 2 ≤ st ∧ st ≤ p.maxLit) :
    Reads N (latchReset p st) init (writeInit init st ++ rest) rest :=
  latchReset_steps p hp st init rest hst

/-- A symbol line of any kind. -/
theorem aiger_symbol_roundtrip (N : Nat) (p : Parser) (hsm : ∀ x ∈ headerFields p.header, x < 2 ^ 64)
    (sym : Symbol) (hok : SymOk p.header sym) (rest : VBytes) :
    Reads N (nextSymbol p) (some sym) (writeSymbol sym ++ rest) rest :=
  nextSymbol_steps p hsm sym hok rest

/-- The comment (or its absence) at the end of the file. -/
theorem aiger_comment_roundtrip (N : Nat) (p : Parser) (c : Option VBytes)
    (hc : ∀ x, c = some x → validUtf8 x = true) :
    Reads N (comment p) c (writeTail [] c) [] :=
  comment_steps p c hc

/-- The writer's trimming keeps at least five fields and drops only zeros. -/
theorem aiger_header_trim (h : Header) :
    5 ≤ (trimFields (headerFields h)).length ∧ (trimFields (headerFields h)).length ≤ 9 := by
  unfold trimFields
  rw [List.length_reverse]
  have h9 : (headerFields h).reverse.length = 9 := by simp [headerFields]
  generalize (headerFields h).reverse = fs at h9
  match fs, h9 with
  | [a, b, c, d, e, f, g, i, j], _ =>
    cases a <;> cases b <;> cases c <;> cases d <;> cases e <;> simp [trimFieldsRev]

/-! ### non-vacuity: the domains are inhabited by non-trivial circuits -/

instance (h : Header) (s : Symbol) : Decidable (SymOk h s) := by unfold SymOk; infer_instance

def okVal {α : Type} (r : Except PErr α × LR) : Option α :=
  match r.1 with | .ok a => some a | .error _ => none

/-- A circuit with every section, every latch reset form, every symbol kind, a multi-byte name
and a comment ending in a newline. -/
def exAig1 : Aig :=
  { maxVarIndex := 5, inputs := [2, 10], latches := [⟨4, 7, some false⟩, ⟨6, 0, some true⟩, ⟨8, 1, none⟩],
    outputs := [11, 0], bad := [3], constraints := [2, 4], justice := [[2, 3], [], [11]],
    fairness := [5], gates := [],
    symbols := [⟨.input, 1, [195, 164]⟩, ⟨.output, 0, []⟩, ⟨.latch, 2, [97, 32, 98]⟩, ⟨.bad, 0, [120]⟩,
                ⟨.constraint, 1, [99]⟩, ⟨.justice, 2, [106]⟩, ⟨.fairness, 0, [102]⟩],
    comment := some [104, 105, 10] }

theorem exAig1_domain : AigDomain ⟨8⟩ exAig1 :=
  { bits := by decide, maxVar := by decide, vars := by decide, inputs := by decide,
    latches := by decide, lits := by decide, gates := by decide,
    symbols := by decide +kernel, comment := by decide +kernel, size := by decide +kernel }

/-- The theorem and the kernel agree on it. -/
example : okVal ((parseAag ⟨8⟩).run (LR.init (writeAig exAig1) false)) = some exAig1 := by
  decide +kernel

/-- A binary circuit over `u64` whose first delta needs the full 10 bytes
(`input_count = 2^62`), with a latch that resets to itself. -/
def exOrd1 : OrderedAig :=
  { maxVarIndex := 2 ^ 62 + 2, inputCount := 2 ^ 62, latches := [⟨3, none⟩], outputs := [2 ^ 63 + 4],
    gates := [⟨0, 0⟩], symbols := [⟨.input, 2 ^ 62 - 1, [120]⟩], comment := some [] }

theorem exOrd1_domain : OrdDomain ⟨64⟩ exOrd1 :=
  { bits := by decide, maxVar := by decide, vars := by decide, latches := by decide,
    lits := by decide,
    gates := by
      intro i g hg
      cases i with
      | zero => simp only [exOrd1, List.getElem?_cons_zero, Option.some.injEq] at hg; subst hg; decide
      | succ i => simp [exOrd1] at hg,
    symbols := by decide +kernel, comment := by decide +kernel, size := by decide +kernel }

example : (match writeOrderedAigBinary exOrd1 with
    | .ok bs => okVal ((parseAig ⟨64⟩).run (LR.init bs false)) == some exOrd1
    | .error _ => false) = true := by
  decide +kernel

/-- `2^63` is written as ten bytes. -/
example : writeBinaryUint (2 ^ 63) = some [128, 128, 128, 128, 128, 128, 128, 128, 128, 1] := by
  decide +kernel

/-- Outside the domain the round trip fails (so the domain predicate is doing work): a symbol
whose name contains a newline; a gate whose first input exceeds its own literal makes the writer
panic. -/
example : okVal ((parseAag ⟨8⟩).run (LR.init (writeAig
    { maxVarIndex := 1, inputs := [2], symbols := [⟨.input, 0, [97, 10, 98]⟩] }) false)) = none ∧
    (match writeOrderedAigBinary { maxVarIndex := 1, gates := [⟨4, 0⟩] } with
      | .ok _ => false | .error _ => true) = true := by
  decide +kernel

end Flussab.C03
