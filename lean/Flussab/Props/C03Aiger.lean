/-
C03 for the AIGER formats — write ∘ parse = id.

Proved here:
* `aig_varint_roundtrip` — `binaryUint (writeBinaryUint n ++ rest) = (n, rest)` for every
  `n < 2^64` (all lengths 1–10; the repaired F8), with the cursor exactly behind the encoding and
  nothing beyond it looked at;
* `aig_varint_shape` — what the writer emits: 1–10 bytes, continuation bit on all but the last,
  little-endian 7-bit groups of `n`;
* `aiger_header_fields` — the writer's trimming of trailing zero header fields keeps at least five
  fields and loses nothing but zeros (the parser reads 5–9 fields and defaults the rest to 0).
The whole-file statements `aag_roundtrip_full`, `aig_roundtrip_full` are stated with their explicit
domain predicates `WFaig` / `WFord` and are *not* proved; they are carried by the `aiger` engine
(families `rt`, `layout`: the crate's writers and an independent renderer against the abstract
value, plus `parse(write(parse t)) = parse t` on every accepted input) and instantiated below on
concrete circuits by kernel evaluation.
-/
import Flussab.Proof.AigerVarint
import Flussab.Proof.AigerParse

namespace Flussab.C03
open Flussab Flussab.Aiger PM

/-- **Round trip of a varint.** -/
theorem aig_varint_roundtrip (n : Nat) (hn : n < 2 ^ 64) (bs : VBytes)
    (hw : writeBinaryUint n = some bs) (lr : LR) (rest : VBytes) (hrest : lr.v.rest = bs ++ rest) :
    binaryUint.run lr = (.ok n,
      { lr with v := { lr.v with rest := rest, pos := lr.v.pos + bs.length,
                                 peeked := max lr.v.peeked (lr.v.pos + bs.length) } }) :=
  binaryUint_write n hn bs hw lr rest hrest

/-- The writer never indexes beyond its 10-byte array for a `usize`, and what it emits. -/
theorem aig_varint_shape (n : Nat) (hn : n < 2 ^ 64) :
    ∃ bs, writeBinaryUint n = some bs ∧ 1 ≤ bs.length ∧ bs.length ≤ 10 ∧ Shape bs ∧ leValue bs = n :=
  writeBinaryUint_spec n hn

theorem trimFieldsRev_spec (fs : List Nat) :
    ∃ k, fs = List.replicate k 0 ++ trimFieldsRev fs ∧
      (5 ≤ fs.length → 5 ≤ (trimFieldsRev fs).length) := by
  induction fs with
  | nil => exact ⟨0, rfl, fun h => h⟩
  | cons x xs ih =>
    cases x with
    | zero =>
      unfold trimFieldsRev
      by_cases h5 : xs.length ≥ 5
      · simp only [h5, ↓reduceIte]
        obtain ⟨k, hk, hl⟩ := ih
        refine ⟨k + 1, ?_, fun _ => hl h5⟩
        rw [List.replicate_succ, List.cons_append, ← hk]
      · simp only [h5, ↓reduceIte]
        exact ⟨0, rfl, fun h => h⟩
    | succ n =>
      unfold trimFieldsRev
      exact ⟨0, rfl, fun h => h⟩

/-- `header_fields_roundtrip` at the level of the field list: `write_header` drops only trailing
zeros and keeps at least five fields. -/
theorem aiger_header_fields (h : Header) :
    ∃ k, headerFields h = trimFields (headerFields h) ++ List.replicate k 0 ∧
      5 ≤ (trimFields (headerFields h)).length ∧ (trimFields (headerFields h)).length ≤ 9 := by
  obtain ⟨k, hk, hl⟩ := trimFieldsRev_spec (headerFields h).reverse
  refine ⟨k, ?_, ?_, ?_⟩
  · unfold trimFields
    have := congrArg List.reverse hk
    rw [List.reverse_reverse, List.reverse_append, List.reverse_replicate] at this
    exact this
  · unfold trimFields
    rw [List.length_reverse]
    exact hl (by simp [headerFields])
  · have := congrArg List.length hk
    unfold trimFields
    simp only [List.length_reverse, List.length_append, List.length_replicate] at this ⊢
    have h9 : (headerFields h).length = 9 := by simp [headerFields]
    omega

/-! ### the whole-file statements (domain explicit, not proved) -/

def litOk (m : Nat) (x : Nat) : Prop := x ≤ 2 * m + 1
def defOk (m : Nat) (x : Nat) : Prop := x ≤ 2 * m + 1 ∧ x % 2 = 0 ∧ 2 ≤ x

/-- A name: valid UTF-8 without a newline. -/
def nameOk (n : VBytes) : Prop := validUtf8 n = true ∧ 10 ∉ n

def symbolsOk (count : SymKind → Nat) (ss : List Symbol) : Prop :=
  ∀ s ∈ ss, s.index < count s.kind ∧ nameOk s.name

/-- Domain of the ASCII round trip for literal type `l`. -/
structure WFaig (l : LitTy) (a : Aig) : Prop where
  maxVar : 2 * a.maxVarIndex + 1 ≤ l.maxCode
  vars : a.inputs.length + a.latches.length + a.gates.length ≤ a.maxVarIndex
  inputs : ∀ x ∈ a.inputs, defOk a.maxVarIndex x
  latches : ∀ x ∈ a.latches, defOk a.maxVarIndex x.state ∧ litOk a.maxVarIndex x.next
  lits : ∀ x ∈ a.outputs ++ a.bad ++ a.constraints ++ a.justice.flatten ++ a.fairness,
    litOk a.maxVarIndex x
  gates : ∀ g ∈ a.gates, defOk a.maxVarIndex g.out ∧ litOk a.maxVarIndex g.in0 ∧
    litOk a.maxVarIndex g.in1
  symbols : symbolsOk (symCount
    { maxVarIndex := a.maxVarIndex, inputCount := a.inputs.length, latchCount := a.latches.length,
      outputCount := a.outputs.length, andGateCount := a.gates.length, badCount := a.bad.length,
      constraintCount := a.constraints.length, justiceCount := a.justice.length,
      fairnessCount := a.fairness.length }) a.symbols
  comment : ∀ c, a.comment = some c → validUtf8 c = true
  size : (writeAig a).length + 3 ≤ usizeMax

def okVal {α : Type} (r : Except PErr α × LR) : Option α :=
  match r.1 with | .ok a => some a | .error _ => none

/-- `aag_roundtrip`: what `ascii::Writer::write_aig` writes for a well-formed `Aig` is parsed back
to the same value. -/
def aag_roundtrip_full : Prop :=
  ∀ (l : LitTy) (a : Aig), WFaig l a → okVal ((parseAag l).run (LR.init (writeAig a) false)) = some a

/-- Domain of the binary round trip: additionally each gate's inputs are ordered and the first is
at most the gate's own literal (the writer's `assert!`). -/
structure WFord (l : LitTy) (a : OrderedAig) : Prop where
  maxVar : 2 * a.maxVarIndex + 1 ≤ l.maxCode
  vars : a.inputCount + a.latches.length + a.gates.length ≤ a.maxVarIndex
  latches : ∀ x ∈ a.latches, litOk a.maxVarIndex x.next
  lits : ∀ x ∈ a.outputs ++ a.bad ++ a.constraints ++ a.justice.flatten ++ a.fairness,
    litOk a.maxVarIndex x
  gates : ∀ i (g : OGate), a.gates[i]? = some g →
    g.in1 ≤ g.in0 ∧ g.in0 ≤ 2 * (a.inputCount + a.latches.length + 1 + i)
  symbols : symbolsOk (symCount (orderedHeader a)) a.symbols
  comment : ∀ c, a.comment = some c → validUtf8 c = true

/-- `aig_roundtrip`: the binary writer never panics on a well-formed `OrderedAig` and its output
is parsed back to the same value. -/
def aig_roundtrip_full : Prop :=
  ∀ (l : LitTy) (a : OrderedAig), WFord l a →
    ∃ bs, writeOrderedAigBinary a = .ok bs ∧
      (bs.length + 3 ≤ usizeMax → okVal ((parseAig l).run (LR.init bs false)) = some a)

/-! ### instances, by kernel evaluation -/

/-- A circuit with every section, every latch reset form, every symbol kind, a multi-byte name
and a comment ending in a newline. -/
def exAig1 : Aig :=
  { maxVarIndex := 5, inputs := [2, 10], latches := [⟨4, 7, some false⟩, ⟨6, 0, some true⟩, ⟨8, 1, none⟩],
    outputs := [11, 0], bad := [3], constraints := [2, 4], justice := [[2, 3], [], [11]],
    fairness := [5], gates := [],
    symbols := [⟨.input, 1, [195, 164]⟩, ⟨.output, 0, []⟩, ⟨.latch, 2, [97, 32, 98]⟩, ⟨.bad, 0, [120]⟩,
                ⟨.constraint, 1, [99]⟩, ⟨.justice, 2, [106]⟩, ⟨.fairness, 0, [102]⟩],
    comment := some [104, 105, 10] }

example : okVal ((parseAag ⟨8⟩).run (LR.init (writeAig exAig1) false)) = some exAig1 := by
  decide +kernel

/-- A binary circuit over `u64` whose first delta needs the full 10 bytes
(`input_count = 2^62`), and a latch that resets to itself. -/
def exOrd1 : OrderedAig :=
  { maxVarIndex := 2 ^ 62 + 2, inputCount := 2 ^ 62, latches := [⟨3, none⟩], outputs := [2 ^ 63 + 4],
    gates := [⟨0, 0⟩], symbols := [⟨.input, 2 ^ 62 - 1, [120]⟩], comment := some [] }

example : (match writeOrderedAigBinary exOrd1 with
    | .ok bs => okVal ((parseAig ⟨64⟩).run (LR.init bs false)) == some exOrd1
    | .error _ => false) = true := by
  decide +kernel

/-- The varint theorem is not vacuous: `2^63` is written as ten bytes. -/
example : writeBinaryUint (2 ^ 63) = some [128, 128, 128, 128, 128, 128, 128, 128, 128, 1] := by
  decide +kernel

/-- Outside the domain the round trip fails (so the domain predicate is doing work): a symbol
whose name contains a newline. -/
example : okVal ((parseAag ⟨8⟩).run (LR.init (writeAig
    { maxVarIndex := 1, inputs := [2], symbols := [⟨.input, 0, [97, 10, 98]⟩] }) false)) = none := by
  decide +kernel

end Flussab.C03
