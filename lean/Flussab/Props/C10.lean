/-
C10 — streaming uses memory bounded by chunk size and largest item, not input size.

Reader layer (L1): the length of the reader's buffer (`Vec::len`, which `resize`/`truncate` set)
stays below `3·C + K` through any history whose requests never demand more than `K` bytes of
look-ahead and whose chunk size never exceeds `C` — independent of how many bytes were streamed.
The heap itself (Vec capacity policy, allocator overhead, the parsers' own vectors) is measured by
the `stream` engine of the harness; see DESIGN.md §4 C10.
-/
import Flussab.Proof.ReaderOps

namespace Flussab.C10
open Flussab Reader

/-- An operation whose look-ahead demand is at most `K` bytes and whose chunk size is at most `C`
(state dependent for a direct `request_more`: allowed while at most `K` bytes are buffered). -/
def Within (C K : Nat) (r : Reader) : Op → Prop
  | .request n => n ≤ K
  | .reqAt k => k + 1 ≤ K
  | .requestMore => r.validLen ≤ K
  | .setChunk c => 1 ≤ c ∧ c ≤ C
  | _ => True

theorem Within.valid {C K : Nat} {r : Reader} {op : Op} (h : Within C K r op) : op.Valid := by
  cases op <;> simp_all [Within, Op.Valid]

/-- One operation keeps the buffer below the bound. -/
theorem op_buf_bounded (C K : Nat) (r : Reader) (op : Op) (h : r.Ok) (hh : r.src.Honest)
    (hc : r.chunk ≤ C) (hw : Within C K r op) (hb : r.buf.length ≤ 3 * C + K) :
    (op.run r).2.buf.length ≤ 3 * C + K ∧ (op.run r).2.chunk ≤ C := by
  cases op with
  | request n =>
    obtain ⟨r', bs, e, _, g, _, _, _, h4⟩ := request_spec r h hh n
    simp only [Op.run, e, Within] at *
    exact ⟨by have : 3 * r.chunk ≤ 3 * C := by omega
              omega, by rw [g.chunk]; exact hc⟩
  | reqAt k =>
    obtain ⟨r', bs, e, _, g, _, _, _, h4⟩ := requestByteAt_spec r h hh k
    simp only [Op.run, e, Within] at *
    exact ⟨by have : 3 * r.chunk ≤ 3 * C := by omega
              omega, by rw [g.chunk]; exact hc⟩
  | requestMore =>
    simp only [Within] at hw
    rcases requestMore_spec r h with ⟨_, e⟩ | ⟨_, r', bs, e, f, _, hbuf⟩ | ⟨_, r', e, l, _, hbuf⟩
    · simp only [Op.run, e]; exact ⟨hb, hc⟩
    · simp only [Op.run, e]
      exact ⟨by have : 3 * r.chunk ≤ 3 * C := by omega
                omega, by rw [f.chunk]; exact hc⟩
    · simp only [Op.run, e]
      exact ⟨by have : 3 * r.chunk ≤ 3 * C := by omega
                omega, by rw [l.chunk]; exact hc⟩
  | advance n =>
    rcases advance_spec r h n with ⟨_, r', e, _, _, _, _, _, hch, hbf, _⟩ | ⟨_, e⟩ <;> simp only [Op.run, e]
    · exact ⟨by rw [hbf]; exact hb, by rw [hch]; exact hc⟩
    · exact ⟨hb, hc⟩
  | advanceWithBuf n =>
    rcases advance_spec r h n with ⟨_, r', e, _, _, _, _, _, hch, hbf, _⟩ | ⟨_, e⟩ <;>
      simp only [Op.run, advanceWithBuf, e]
    · exact ⟨by rw [hbf]; exact hb, by rw [hch]; exact hc⟩
    · exact ⟨hb, hc⟩
  | setMark => exact ⟨hb, hc⟩
  | setMarkTo p => exact ⟨hb, hc⟩
  | setChunk c => simp only [Within] at hw; exact ⟨hb, hw.2⟩
  | checkIoError => exact ⟨hb, hc⟩

/-- A history all of whose operations stay within the demand bound, checked against the state
each one is applied to. -/
def AllWithin (C K : Nat) : List Op → Reader → Prop
  | [], _ => True
  | op :: ops, r => Within C K r op ∧ AllWithin C K ops (op.run r).2

/-- **The buffer length is bounded by `3·chunk + look-ahead`, whatever the number of bytes
streamed.**  `ops` has arbitrary length; the bound does not mention it, nor the stream length. -/
theorem buf_len_bounded (C K : Nat) (ops : List Op) (r : Reader) (h : r.Ok) (hh : r.src.Honest)
    (hc : r.chunk ≤ C) (hw : AllWithin C K ops r) (hb : r.buf.length ≤ 3 * C + K) :
    (runAll ops r).2.buf.length ≤ 3 * C + K := by
  induction ops generalizing r with
  | nil => exact hb
  | cons op ops ih =>
    obtain ⟨hw1, hw2⟩ := hw
    have s := op_stepped r op h hh hw1.valid
    obtain ⟨b1, c1⟩ := op_buf_bounded C K r op h hh hc hw1 hb
    simp only [runAll]
    exact ih _ s.ok s.honest c1 hw2 b1

/-- Non-vacuity: a fresh reader has an empty buffer, so the hypotheses are met by every fresh
reader with chunk `≤ C`; and a concrete streaming history stays within `3·2 + 3`. -/
example :
    let src : Source := { data := List.replicate 40 7, fault := false, sched := [] }
    let r := (mk' src).setChunkSize 2
    let ops : List Op := [.request 3, .advance 3, .request 3, .advance 3, .request 3, .advance 3,
                          .request 3, .advance 3, .request 3, .advance 3, .request 3]
    r.Ok ∧ r.chunk ≤ 2 ∧ r.buf.length ≤ 3 * 2 + 3 ∧ (runAll ops r).2.buf.length ≤ 9 ∧
      (runAll ops r).2.position = 15 := by
  exact ⟨⟨by decide, by decide, by decide, by decide, by decide, by decide⟩, by decide, by decide,
    by decide, by decide⟩

end Flussab.C10
