/-
Tie between the DIMACS writers of `/repo/flussab-cnf/src/cnf.rs`, `wcnf.rs`, `gcnf.rs` (`write_header`,
`write_clause`, six functions) and the byte-level writer model `Cnf.writeHeader` / `Cnf.writeClause` /
`Cnf.writeDoc` of `Model/Cnf.lean` that the round-trip theorems (C03, `Props/C03Cnf.lean`) are about — the
statements.  (Proofs: `Proof/TieDimacsWrite.lean`.)

`Flussab.Gen.CnfWrite.*`, `Gen.WcnfWrite.*`, `Gen.GcnfWrite.*` are produced by `tools/gen_core.py` from the
Rust source on every check run (`tools/unit_cnfwrite.py`, `unit_wcnfwrite.py`, `unit_gcnfwrite.py`).  They
call the *generated* writer (`Gen.Writer.writeAllDeferErr`, `Gen.WriteText.asciiDigits`).  Two statements
per function:

1. **what the function does to the writer** — run on any writer state with `len ≤ capacity`, any sink and
   schedule (panicking sinks included), it equals `Writer.runSeq` of a history of model operations
   (`Cnf.opsOfHeader` / `Cnf.opsOfClause`, `Model/DimacsWrite.lean`: one `Op.digits` per number, one
   `Op.write` per literal piece), where `runSeq` runs `Writer.Op.run` in sequence and lets a sink panic
   unwind (result `none`, the remaining ops not run);
2. **what that history writes** — the concatenation of `Op.bytes` (= `C11.written`) is exactly
   `Cnf.writeHeader fmt h` / `Cnf.writeClause fmt c`.

With C11 (`good_sink_exact`) this gives the corollaries at the end: on a sink that does not fail, after
the generated `flush`, the sink has received `old ++ buffered ++ Cnf.writeClause fmt c` (and
`Cnf.writeDoc fmt h cs` for a caller that writes a header and then clause by clause).

Side conditions (the Rust types): the literals' `dimacs()` values lie in `isize` (`IntTy.mk true 64`;
`L::dimacs` is `self as isize` for every `impl Dimacs`, contract `DimacsWriteExt.dimacs x = x`); a weight
is a `u64`, a group a `usize` (`< 2 ^ 64`) — which is what `ascii_digits::<I>`'s in-place path needs
(`Op.Valid`: the text is at most `I::MAX_LEN` long; `C11.digits_fit`).  Header fields are unsigned
(`DimacsWriteExt.Hdr`, `Nat`).

**Modelling decision that is not derived from the source**: `writeln!(writer, "p cnf {} {}", …)` goes
through std's `Write::write_fmt` into `impl Write for DeferredWriter`.  It is modelled
(`DimacsWriteExt.writeFmt`) as ONE `write_all` of the formatted text; std is only known to deliver the
text as a sequence of `write_all` calls whose concatenation is that text.  The header theorems of kind 1
are therefore exact up to where std cuts the text (this can move the point at which a full buffer is
flushed, and with a failing sink which prefix got out); the theorems of kind 2 and the good-sink
corollaries do not depend on it.  `{}` of `usize` / `u64` is the canonical decimal text
(`Writer.natDigits`).  No discrepancy between the Rust writers and `Cnf.writeHeader` / `Cnf.writeClause`
was found.
-/
import Flussab.Proof.TieDimacsWrite

namespace Flussab
namespace TieDimacsWrite

open TieDimacsWriteAux Writer

/-! ### cnf.rs -/

/-- `cnf::write_header`. -/
theorem cnf_write_header_tied (hd : DimacsWriteExt.Hdr) (w : Writer) (h : w.buf.length ≤ w.cap) :
    Gen.CnfWrite.writeHeader hd w = runSeq (Cnf.opsOfHeader .cnf (hdrModel hd)) w :=
  cnf_writeHeader_eq hd w h

/-- `cnf::write_clause::<L>`: per literal `ascii_digits::<isize>(lit.dimacs())` and `b" "`, then
`b"0\n"`. -/
theorem cnf_write_clause_tied (lits : List Int) (hl : ∀ x ∈ lits, (IntTy.mk true 64).fits x = true)
    (w : Writer) (h : w.buf.length ≤ w.cap) :
    Gen.CnfWrite.writeClause lits w = runSeq (Cnf.opsOfClause .cnf ⟨0, lits⟩) w :=
  cnf_writeClause_eq lits hl w h

/-! ### wcnf.rs -/

/-- `wcnf::write_header` (`extra` = `top_weight`). -/
theorem wcnf_write_header_tied (hd : DimacsWriteExt.Hdr) (w : Writer) (h : w.buf.length ≤ w.cap) :
    Gen.WcnfWrite.writeHeader hd w = runSeq (Cnf.opsOfHeader .wcnf (hdrModel hd)) w :=
  wcnf_writeHeader_eq hd w h

/-- `wcnf::write_clause::<L>`: `ascii_digits::<u64>(weight)`, per literal `b" "` and the literal, then
`b" 0\n"`. -/
theorem wcnf_write_clause_tied (weight : Nat) (hw : weight < 2 ^ 64) (lits : List Int)
    (hl : ∀ x ∈ lits, (IntTy.mk true 64).fits x = true) (w : Writer) (h : w.buf.length ≤ w.cap) :
    Gen.WcnfWrite.writeClause weight lits w = runSeq (Cnf.opsOfClause .wcnf ⟨weight, lits⟩) w :=
  wcnf_writeClause_eq weight hw lits hl w h

/-! ### gcnf.rs -/

/-- `gcnf::write_header` (`extra` = `group_count`). -/
theorem gcnf_write_header_tied (hd : DimacsWriteExt.Hdr) (w : Writer) (h : w.buf.length ≤ w.cap) :
    Gen.GcnfWrite.writeHeader hd w = runSeq (Cnf.opsOfHeader .gcnf (hdrModel hd)) w :=
  gcnf_writeHeader_eq hd w h

/-- `gcnf::write_clause::<L>`: `b"{"`, `ascii_digits::<usize>(group)`, `b"} "`, per literal the literal
and `b" "`, then `b"0\n"`. -/
theorem gcnf_write_clause_tied (group : Nat) (hgr : group < 2 ^ 64) (lits : List Int)
    (hl : ∀ x ∈ lits, (IntTy.mk true 64).fits x = true) (w : Writer) (h : w.buf.length ≤ w.cap) :
    Gen.GcnfWrite.writeClause group lits w = runSeq (Cnf.opsOfClause .gcnf ⟨group, lits⟩) w :=
  gcnf_writeClause_eq group hgr lits hl w h

/-! ### the three formats behind one interface (`Model/DimacsWriteGenRun.lean`), whole documents -/

theorem header_tied (fmt : Cnf.Format) (hd : Cnf.Header) (hw : hd.Writable) (w : Writer)
    (h : w.buf.length ≤ w.cap) : genHeader fmt hd w = runSeq (Cnf.opsOfHeader fmt hd) w :=
  genHeader_eq fmt hd hw w h

theorem clause_tied (fmt : Cnf.Format) (c : Cnf.Clause) (hc : c.Writable fmt) (w : Writer)
    (h : w.buf.length ≤ w.cap) : genClause fmt c w = runSeq (Cnf.opsOfClause fmt c) w :=
  genClause_eq fmt c hc w h

/-- A caller that writes the header (if any) and then clause by clause with the generated functions. -/
theorem doc_tied (fmt : Cnf.Format) (hd : Option Cnf.Header) (cs : List Cnf.Clause)
    (hh : ∀ h ∈ hd, Cnf.Header.Writable h) (hcs : ∀ c ∈ cs, c.Writable fmt) (w : Writer)
    (h : w.buf.length ≤ w.cap) : genDoc fmt hd cs w = runSeq (Cnf.opsOfDoc fmt hd cs) w :=
  genDoc_eq fmt hd cs hh hcs w h

/-! ### what the histories write -/

/-- The bytes of a header history = the model's header line (for every writer state: the ops are
`write`s, their bytes do not depend on it). -/
theorem header_bytes (fmt : Cnf.Format) (h : Cnf.Header) (w : Writer) :
    (Cnf.opsOfHeader fmt h).flatMap (Op.bytes w) = Cnf.writeHeader fmt h := opsOfHeader_bytes fmt h w

/-- The bytes of a clause history = the model's clause line. -/
theorem clause_bytes (fmt : Cnf.Format) (c : Cnf.Clause) (w : Writer) :
    (Cnf.opsOfClause fmt c).flatMap (Op.bytes w) = Cnf.writeClause fmt c := opsOfClause_bytes fmt c w

theorem doc_bytes (fmt : Cnf.Format) (h : Option Cnf.Header) (cs : List Cnf.Clause) (w : Writer) :
    (Cnf.opsOfDoc fmt h cs).flatMap (Op.bytes w) = Cnf.writeDoc fmt h cs := opsOfDoc_bytes fmt h cs w

/-- The same in the vocabulary of C11: `C11.written` of the history (the bytes each op adds, given the
state it is applied to). -/
theorem clause_written (fmt : Cnf.Format) (c : Cnf.Clause) (w : Writer) :
    C11.written (Cnf.opsOfClause fmt c) w = Cnf.writeClause fmt c := by
  rw [written_data _ (opsOfClause_data fmt c) w w]; exact opsOfClause_bytes fmt c w

theorem doc_written (fmt : Cnf.Format) (h : Option Cnf.Header) (cs : List Cnf.Clause) (w : Writer) :
    C11.written (Cnf.opsOfDoc fmt h cs) w = Cnf.writeDoc fmt h cs := by
  rw [written_data _ (opsOfDoc_data fmt h cs) w w]; exact opsOfDoc_bytes fmt h cs w

/-- Every op of a writable clause / document is inside C11's domain, so every C11 theorem applies to
these histories (failing sinks too: `C11.bad_sink_selection`, `writes_never_fail`, …). -/
theorem clause_ops_valid (fmt : Cnf.Format) (c : Cnf.Clause) (hc : c.Writable fmt) :
    ∀ op ∈ Cnf.opsOfClause fmt c, op.Valid := opsOfClause_valid fmt c hc

theorem doc_ops_valid (fmt : Cnf.Format) (h : Option Cnf.Header) (cs : List Cnf.Clause)
    (hcs : ∀ c ∈ cs, c.Writable fmt) : ∀ op ∈ Cnf.opsOfDoc fmt h cs, op.Valid := opsOfDoc_valid fmt h cs hcs

/-- Without a panic, `runSeq` ends in the state of C11's history runner. -/
theorem runSeq_state (ops : List Op) (hv : ∀ op ∈ ops, op.Valid) (w : Writer) (hi : C11.Inv w) :
    runSeq ops w = (some (), C11.runOps ops w) := runSeq_no_panic ops hv w hi

/-! ### composition with C11: what reaches a sink that does not fail -/

/-- **One clause.**  The generated `write_clause` of the format, then the generated `flush`, on a sink
that never fails (short writes and `Interrupted` allowed), no error parked: neither panics, `flush`
returns `Ok(())`, and the sink has received what it had, the bytes that were buffered, and
`Cnf.writeClause fmt c` — in order, once; nothing stays buffered. -/
theorem clause_sunk (fmt : Cnf.Format) (c : Cnf.Clause) (hc : c.Writable fmt) (w : Writer)
    (hg : w.sink.Good) (hinv : w.buf.length ≤ w.cap) (hup : w.panicked = false) (he : w.ioError = false) :
    ∃ w1 w2, genClause fmt c w = (some (), w1) ∧ Gen.Writer.flush w1 = (some (Except.ok ()), w2) ∧
      w2.sink.sunk = w.sink.sunk ++ w.buf ++ Cnf.writeClause fmt c ∧ w2.buf = [] := by
  obtain ⟨w1, w2, e1, e2, e3, e4⟩ := good_sink_flush _ (opsOfClause_valid fmt c hc) (opsOfClause_data fmt c)
    w hg hinv hup he
  exact ⟨w1, w2, by rw [genClause_eq fmt c hc w hinv, e1], e2, by rw [e3, opsOfClause_bytes], e4⟩

/-- **One header.** -/
theorem header_sunk (fmt : Cnf.Format) (hd : Cnf.Header) (hw : hd.Writable) (w : Writer)
    (hg : w.sink.Good) (hinv : w.buf.length ≤ w.cap) (hup : w.panicked = false) (he : w.ioError = false) :
    ∃ w1 w2, genHeader fmt hd w = (some (), w1) ∧ Gen.Writer.flush w1 = (some (Except.ok ()), w2) ∧
      w2.sink.sunk = w.sink.sunk ++ w.buf ++ Cnf.writeHeader fmt hd ∧ w2.buf = [] := by
  obtain ⟨w1, w2, e1, e2, e3, e4⟩ := good_sink_flush (Cnf.opsOfHeader fmt hd)
    (fun op hop => by simp only [Cnf.opsOfHeader, List.mem_cons, List.not_mem_nil, or_false] at hop; subst hop; trivial)
    (fun op hop => by simp only [Cnf.opsOfHeader, List.mem_cons, List.not_mem_nil, or_false] at hop; subst hop; trivial)
    w hg hinv hup he
  exact ⟨w1, w2, by rw [genHeader_eq fmt hd hw w hinv, e1], e2, by rw [e3, opsOfHeader_bytes], e4⟩

/-- **A whole document**: header (if any), then clause by clause, then `flush`, on a sink that never
fails: the sink has received `old ++ buffered ++ Cnf.writeDoc fmt h cs`.  Started on a fresh writer
(`sunk = []`, `buf = []`) the sink holds exactly `Cnf.writeDoc fmt h cs` — the input of the round-trip
theorems of C03. -/
theorem doc_sunk (fmt : Cnf.Format) (hd : Option Cnf.Header) (cs : List Cnf.Clause)
    (hh : ∀ h ∈ hd, Cnf.Header.Writable h) (hcs : ∀ c ∈ cs, c.Writable fmt) (w : Writer)
    (hg : w.sink.Good) (hinv : w.buf.length ≤ w.cap) (hup : w.panicked = false) (he : w.ioError = false) :
    ∃ w1 w2, genDoc fmt hd cs w = (some (), w1) ∧ Gen.Writer.flush w1 = (some (Except.ok ()), w2) ∧
      w2.sink.sunk = w.sink.sunk ++ w.buf ++ Cnf.writeDoc fmt hd cs ∧ w2.buf = [] := by
  obtain ⟨w1, w2, e1, e2, e3, e4⟩ := good_sink_flush _ (opsOfDoc_valid fmt hd cs hcs) (opsOfDoc_data fmt hd cs)
    w hg hinv hup he
  exact ⟨w1, w2, by rw [genDoc_eq fmt hd cs hh hcs w hinv, e1], e2, by rw [e3, opsOfDoc_bytes], e4⟩

/-- Non-vacuity: concrete clauses of the three formats satisfy the side conditions and write the
expected text; a literal of every `Dimacs` type (`≤ 64` bits) satisfies the literal side condition. -/
example :
    (Cnf.Clause.Writable .cnf ⟨0, [1, -2]⟩) ∧ (Cnf.Clause.Writable .wcnf ⟨7, [3]⟩) ∧
    Cnf.writeClause .cnf ⟨0, [1, -2]⟩ = [49, 32, 45, 50, 32, 48, 10] ∧
    Cnf.writeClause .wcnf ⟨7, [3]⟩ = [55, 32, 51, 32, 48, 10] ∧
    Cnf.writeClause .gcnf ⟨2, [3]⟩ = [123, 50, 125, 32, 51, 32, 48, 10] ∧
    Cnf.writeHeader .cnf ⟨3, 2, 0⟩ = [112, 32, 99, 110, 102, 32, 51, 32, 50, 10] := by
  refine ⟨⟨?_, by decide⟩, ⟨?_, fun _ => by decide⟩, by decide, by decide, by decide, by decide⟩
  · intro x hx; simp at hx; rcases hx with rfl | rfl <;> decide
  · intro x hx; simp at hx; subst hx; decide

end TieDimacsWrite
end Flussab
