/-
C05 for the AIGER formats — every input terminates with `Ok` or `Err`, never a panic.

Termination is by construction: the models of `Model/AigerToken.lean` / `Model/Aiger.lean` are
total functions (structural recursion; the loops that consume input carry fuel, and running out
of fuel is the explicit outcome `panic "fuel"`, excluded below).

Proved here, for every input `b` with `b.length + 3 ≤ usize::MAX` (a longer input cannot exist in
memory; the bound is what keeps `line_at_offset` from overflowing), failing or healthy source,
all literal types of at most 64 bits:
* `aag_parse_no_panic`, `aig_parse_no_panic` — whole-file `parse()` of both formats from the
  initial state never returns a panic;
* for the streaming API, from every state satisfying the parser invariant (`Inv b f` for text
  lines — it holds initially, `aiger_inv_init`, and every returning call re-establishes it; `MInv b f`
  inside the binary and-gate block — implied by `Inv`, `aig_block_inv_of_inv`):
  `aiger_new_no_panic` (`Parser::new`: the two `limit -= count`, `max_var_index * 2 + 1`),
  `aiger_next_no_panic` (every text-line `next_*` of both formats with its draining loop;
  `usize::MAX - total`, `total += count`), `aig_gate_no_panic` (binary `next_and_gate`:
  `binary_uint`, `code - delta`, the error at the mark), `aiger_symbol_no_panic` (F3, F5),
  `aiger_comment_no_panic` (F6, the multi-line jump), `aig_after_block` (after the block the text
  invariant holds again, over the input whose block bytes are masked, so the symbol and comment
  theorems apply), `aig_varint_fuel`.
The and-gate block: a consumed byte may be `0x0A`, so the no-newline-since-`line_start` clause of
`Inv` cannot hold over `b` itself; it holds over `mask b s p` (`b` with the block bytes `[s, p)`
replaced by zeros) — the block is the continuation of one line, as in DESIGN §4 C08.

Not modelled: the allocation bound `P_alloc_bounded` of DESIGN §4 C05 is checked on the
implementation by the `aiger` engine (counting allocator, `peak ≤ 64·len + 1 MiB`).
The C08 / C04 statements that the same Hoare triples give are in `Props/C08Aiger.lean` and
`Props/C04Aiger.lean`.
-/
import Flussab.Proof.AigerSafe
import Flussab.Proof.AigerJustice
import Flussab.Proof.AigerBinSafe
import Flussab.Proof.AigerVarint

namespace Flussab.C05
open Flussab Flussab.Aiger PM Lines

/-- The outcome of a run is not a panic. -/
def NoPanic {α : Type} (r : Except PErr α × LR) : Prop :=
  ∀ site lr', r ≠ (.error (.panic site), lr')

theorem noPanic_of_wp {α : Type} {b : VBytes} {f : Bool} {m : PM α} {lr : LR} {Q : α → LR → Prop}
    (h : Wp (Err b f) m lr Q) : NoPanic (m.run lr) := by
  intro site lr' hr
  unfold Wp at h
  rw [hr] at h
  exact h.2

/-- The invariant holds at the start of a parse. -/
theorem aiger_inv_init (b : VBytes) (fault : Bool) (h : b.length + 3 ≤ usizeMax) :
    Inv b fault (LR.init b fault) := inv_init b fault h

/-- `Parser::new` of either format never panics and re-establishes the invariant. -/
theorem aiger_new_no_panic (b : VBytes) (f : Bool) (bin : Bool) (l : LitTy) (hl : l.bits ≤ 64)
    (lr : LR) (h : Inv b f lr) :
    NoPanic ((Parser.new bin l).run lr) ∧
    ∀ p lr', (Parser.new bin l).run lr = (.ok p, lr') → Inv b f lr' ∧ ParserOk bin l p := by
  have w := Parser.new_ok bin l hl h
  exact ⟨noPanic_of_wp w, fun p lr' hr => (Wp.of_run w).1 p lr' hr⟩

/-- The section readers that read text lines. -/
inductive TextStep : {α : Type} → (St → PM (Option α × St)) → Prop where
  | lit (assigning : Bool) : TextStep (nextLit assigning)
  | latchAscii : TextStep nextLatchAscii
  | latchBin : TextStep nextLatchBin
  | justiceSize : TextStep nextJusticeSize
  | gateAscii : TextStep nextAndGateAscii

theorem TextStep.ok {α : Type} {next : St → PM (Option α × St)} (h : TextStep next) : StepOk next := by
  cases h with
  | lit a => exact nextLit_ok a
  | latchAscii => exact nextLatchAscii_ok
  | latchBin => exact nextLatchBin_ok
  | justiceSize => exact nextJusticeSize_ok
  | gateAscii => exact nextAndGateAscii_ok

/-- Every text-line `next_*` function, and the loop `while let Some(_) = next()? {}` around it
with the fuel the model gives it, never panics and keeps the invariants. -/
theorem aiger_next_no_panic {α : Type} {next : St → PM (Option α × St)} (hn : TextStep next)
    (b : VBytes) (f : Bool) (s : St) (lr : LR) (h : Inv b f lr) (hs : SInv s) :
    NoPanic ((next s).run lr) ∧ NoPanic ((whileSome next (s.left + 1) s []).run lr) ∧
    (∀ r lr', (next s).run lr = (.ok r, lr') → Inv b f lr' ∧ SInv r.2) := by
  have w := hn.ok b f s lr h hs
  refine ⟨noPanic_of_wp w, noPanic_of_wp (whileSome_ok hn.ok _ s [] lr h hs (by omega)), ?_⟩
  intro r lr' hr
  have := (Wp.of_run w).1 r lr' hr
  exact ⟨this.1, this.2.1⟩

/-- `next_symbol` never panics and keeps the invariant. -/
theorem aiger_symbol_no_panic (b : VBytes) (f : Bool) (p : Parser) (lr : LR) (h : Inv b f lr) :
    NoPanic ((nextSymbol p).run lr) ∧
    ∀ r lr', (nextSymbol p).run lr = (.ok r, lr') → Inv b f lr' := by
  have w := nextSymbol_ok p h
  exact ⟨noPanic_of_wp w, fun r lr' hr => ((Wp.of_run w).1 r lr' hr).1⟩

/-- `comment()` (remaining symbols, then the comment or the end of the file) never panics. -/
theorem aiger_comment_no_panic (b : VBytes) (f : Bool) (p : Parser) (lr : LR) (h : Inv b f lr) :
    NoPanic ((comment p).run lr) :=
  noPanic_of_wp (comment_ok p h)

/-- The length loop of `binary_uint` never runs out of its fuel. -/
theorem aig_varint_fuel (lr lr' : LR) :
    (binaryUintLen 11 0).run lr ≠ (.error (.panic "fuel"), lr') :=
  binaryUintLen_no_fuel_panic 11 0 (by decide) (by decide) lr lr'

/-- The entry points covered by the safety proofs, with their preconditions. -/
inductive Covered : {α : Type} → PM α → Prop where
  | new (bin : Bool) (l : LitTy) (hl : l.bits ≤ 64) : Covered (Parser.new bin l)
  | next {α : Type} {next : St → PM (Option α × St)} (hn : TextStep next) (s : St) (hs : SInv s) :
      Covered (next s)
  | drain {α : Type} {next : St → PM (Option α × St)} (hn : TextStep next) (s : St) (hs : SInv s) :
      Covered (whileSome next (s.left + 1) s [])
  | symbol (p : Parser) : Covered (nextSymbol p)
  | comment (p : Parser) : Covered (comment p)
  | parseAag (l : LitTy) (hl : l.bits ≤ 64) : Covered (Aiger.parseAag l)

theorem Covered.wp {α : Type} {m : PM α} (c : Covered m) (b : VBytes) (f : Bool) (lr : LR)
    (h : Inv b f lr) : ∃ Q, Wp (Err b f) m lr Q := by
  cases c with
  | new bin l hl => exact ⟨_, Parser.new_ok bin l hl h⟩
  | next hn s hs => exact ⟨_, hn.ok b f s lr h hs⟩
  | drain hn s hs => exact ⟨_, whileSome_ok hn.ok _ s [] lr h hs (by omega)⟩
  | symbol p => exact ⟨_, nextSymbol_ok p h⟩
  | comment p => exact ⟨_, comment_ok p h⟩
  | parseAag l hl => exact ⟨_, parseAag_ok l hl h⟩

/-- **No panic** at any covered entry point, from any state satisfying the invariant. -/
theorem aiger_no_panic {α : Type} {m : PM α} (c : Covered m) (b : VBytes) (f : Bool) (lr : LR)
    (h : Inv b f lr) : NoPanic (m.run lr) := by
  obtain ⟨Q, w⟩ := c.wp b f lr h
  exact noPanic_of_wp w

/-! ### the binary and-gate block and binary `parse()` -/

theorem noPanic_of_wpM {α : Type} {b : VBytes} {f : Bool} {m : PM α} {lr : LR} {Q : α → LR → Prop}
    (h : Wp (ErrM b f) m lr Q) : NoPanic (m.run lr) := by
  intro site lr' hr
  unfold Wp at h
  rw [hr] at h
  obtain ⟨s, p, _, _, he⟩ := h
  exact he.2

/-- The text invariant implies the block invariant. -/
theorem aig_block_inv_of_inv (b : VBytes) (f : Bool) (lr : LR) (h : Inv b f lr) : MInv b f lr :=
  MInv.of_inv h

/-- After (or anywhere in) the block the text invariant holds over the masked input; the
theorems about text lines, symbols and the comment are generic in the input and apply to it. -/
theorem aig_after_block (b : VBytes) (f : Bool) (lr : LR) (h : MInv b f lr) :
    Inv (mask b lr.lineStart lr.v.pos) f lr := h.2.2

/-- **`binary::ParseAndGates::next_and_gate` never panics** (two `delta_code`s: the varint loops,
`code - delta`, the column of the error at the mark) and keeps the block invariant, whatever the
bytes are. -/
theorem aig_gate_no_panic (b : VBytes) (f : Bool) (s : St) (lr : LR) (h : MInv b f lr) (hs : SInv s) :
    NoPanic ((nextAndGateBin s).run lr) ∧
    NoPanic ((whileSome nextAndGateBin (s.left + 1) s []).run lr) ∧
    ∀ r lr', (nextAndGateBin s).run lr = (.ok r, lr') → MInv b f lr' ∧ SInv r.2 := by
  have w := nextAndGateBin_ok s h hs
  refine ⟨noPanic_of_wpM w, noPanic_of_wpM (gatesLoop_ok _ s [] lr h hs (by omega)), ?_⟩
  intro r lr' hr
  have := (Wp.of_run w).1 r lr' hr
  exact ⟨this.1, this.2.1⟩

/-- **Whole-file `binary::Parser::parse` never panics**, for every input shorter than
`usize::MAX - 3`, healthy or failing source, and all five literal types. -/
theorem aig_parse_no_panic (b : VBytes) (f : Bool) (l : LitTy) (hl : l.bits ≤ 64)
    (hb : b.length + 3 ≤ usizeMax) : NoPanic ((parseAig l).run (LR.init b f)) :=
  noPanic_of_wpM (parseAig_ok l hl (aiger_inv_init b f hb))

/-- **Whole-file `ascii::Parser::parse` never panics**, for every input shorter than
`usize::MAX - 3`, healthy or failing source, and all five literal types: header arithmetic,
section counters, `usize::MAX - total`, symbol index limits, the column arithmetic of every error,
the multi-line jump of the comment reader, the indices of the justice distribution loop and all
fuel bounds. -/
theorem aag_parse_no_panic (b : VBytes) (f : Bool) (l : LitTy) (hl : l.bits ≤ 64)
    (hb : b.length + 3 ≤ usizeMax) : NoPanic ((parseAag l).run (LR.init b f)) :=
  aiger_no_panic (.parseAag l hl) b f _ (aiger_inv_init b f hb)

/-! ### non-vacuity -/

/-- `"aag 3 1 1 1 1\n2\n4 6 1\n6\n6 2 4\ni0 x\nc\nhi\n"` -/
def exAag : VBytes := [97,97,103,32,51,32,49,32,49,32,49,32,49,10,50,10,52,32,54,32,49,10,54,10,
  54,32,50,32,52,10,105,48,32,120,10,99,10,104,105,10]

def isOk {α : Type} (r : Except PErr α × LR) : Bool :=
  match r.1 with | .ok _ => true | .error _ => false

/-- The error of a run, if it ended in one. -/
def errOf {α : Type} (r : Except PErr α × LR) : Option PErr :=
  match r.1 with | .ok _ => none | .error e => some e

/-- The hypotheses are satisfiable and the conclusions speak about real runs: the initial state of
a small file satisfies the invariant, the header is accepted, and the invariant holds after it. -/
example : ∃ p lr', (Parser.new false ⟨8⟩).run (LR.init exAag false) = (.ok p, lr') ∧
    Inv exAag false lr' := by
  have h := aiger_inv_init exAag false (by decide)
  have hok : isOk ((Parser.new false ⟨8⟩).run (LR.init exAag false)) = true := by decide +kernel
  rcases hr : (Parser.new false ⟨8⟩).run (LR.init exAag false) with ⟨e | p, lr'⟩
  · rw [hr] at hok; cases hok
  · exact ⟨p, lr', rfl, ((aiger_new_no_panic exAag false false ⟨8⟩ (by decide) _ h).2 p lr' hr).1⟩

/-- An error outcome exists too (so "not a panic" is not vacuous): a truncated header. -/
example : isOk ((Parser.new false ⟨8⟩).run (LR.init [97, 97, 103, 32, 51] false)) = false := by
  decide +kernel

/-- `"aig 6 5 0 0 1\n" ++ [0x0A, 0x02] ++ "i0 x\n"`: the first delta of the only gate is the byte
`0x0A` — a newline byte inside the and-gate block, followed by a symbol line on the same "line". -/
def exAigLf : VBytes := [97,105,103,32,54,32,53,32,48,32,48,32,49,10, 10,2, 105,48,32,120,10]

/-- The binary theorems are about real runs in which a consumed block byte is a newline byte: the
file is accepted, and a variant with a bad symbol index is rejected with an error (not a panic)
on line 2 — the line that starts where the block starts. -/
example : isOk ((parseAig ⟨64⟩).run (LR.init exAigLf false)) = true ∧
    errOf ((parseAig ⟨64⟩).run (LR.init [97,105,103,32,54,32,53,32,48,32,48,32,49,10, 10,2, 105,57,32,120,10] false))
      = some (.syn 2 4) := by
  decide +kernel

end Flussab.C05
