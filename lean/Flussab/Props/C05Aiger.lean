/-
C05 for the AIGER formats — every input terminates with `Ok` or `Err`, never a panic.

Termination is by construction: the models of `Model/AigerToken.lean` / `Model/Aiger.lean` are
total functions (structural recursion; the loops that consume input carry fuel, and running out
of fuel is the explicit outcome `panic "fuel"`, excluded below).

Proved here, for every input `b` with `b.length + 3 ≤ usize::MAX`, failing or healthy source, and
from every state satisfying the parser invariant `Inv b f` (which holds initially: `inv_init`,
and is re-established by every call that returns):
* `aiger_new_no_panic` — `Parser::new` (ASCII and binary header) for literal types of at most
  64 bits: the two `limit -= count` cannot underflow, `max_var_index * 2 + 1` cannot overflow;
* `aiger_next_no_panic` — every text-line section reader of both formats (`next_input`,
  `next_latch` ASCII and binary, `next_output`, …, `next_justice_property_size` with its
  `usize::MAX - total` / `total += count`, ASCII `next_and_gate`) incl. the draining loops of the
  transition functions (fuel never runs out);
* `aag_parse_no_panic` — whole-file `ascii::Parser::parse` from the initial state, incl. the index
  arithmetic of the justice distribution loop (`justice_properties[i]`, `sizes[i]`);
* `aiger_symbol_no_panic`, `aiger_comment_no_panic` — `next_symbol` (the repaired F3: `count - 1`
  under `count > 0` of the same count), `remaining_line_content` (the repaired F5: the column
  subtraction cannot underflow) and `comment()` with `remaining_file_content` (F6) incl. its
  multi-line jump `line += skip_lines`.
The same Hoare triples give, as by-products, the C08 range statement and the C04 statement for
these entry points (`Flussab.C08.aiger_error_in_range`, `Flussab.C04.aiger_fault_io`).

Not proved (visible as `…_full : Prop`):
* `aig_gates_no_panic_full` — the binary and-gate block (`binary_uint`, `delta_code`): inside the
  block a consumed byte may be `0x0A`, which the line invariant used here excludes; needs the
  "block is the continuation of one line" invariant of DESIGN §4 C08.  (What *is* proved about
  the varint reader: `Flussab.C06.aig_varint_exact`, `Flussab.C03.aig_varint_roundtrip`; and
  its fuel never runs out: `aig_varint_fuel`.)
* `aig_parse_no_panic_full` — whole-file `binary::Parser::parse`: blocked by the and-gate block
  only (everything else it calls is covered).
* the allocation bound `P_alloc_bounded` of DESIGN §4 C05 is checked on the implementation by the
  `aiger` engine (counting allocator, `peak ≤ 64·len + 1 MiB`), not modelled.
-/
import Flussab.Proof.AigerSafe
import Flussab.Proof.AigerJustice
import Flussab.Proof.AigerVarint

namespace Flussab.C05
open Flussab Flussab.Aiger PM Lines

/-- The outcome of a run is not a panic. -/
def NoPanic {α : Type} (r : Except PErr α × LR) : Prop :=
  ∀ site lr', r ≠ (.error (.panic site), lr')

theorem noPanic_of_wp {α : Type} {b : VBytes} {f : Bool} {m : PM α} {lr : LR} {Q : α → LR → Prop}
    (h : Wp (Err b f) m lr Q) : NoPanic (m.run lr) := by
  intro site lr' hr
  unfold Wp at h
  rw [hr] at h
  exact h.2

/-- The invariant holds at the start of a parse. -/
theorem aiger_inv_init (b : VBytes) (fault : Bool) (h : b.length + 3 ≤ usizeMax) :
    Inv b fault (LR.init b fault) := inv_init b fault h

/-- `Parser::new` of either format never panics and re-establishes the invariant. -/
theorem aiger_new_no_panic (b : VBytes) (f : Bool) (bin : Bool) (l : LitTy) (hl : l.bits ≤ 64)
    (lr : LR) (h : Inv b f lr) :
    NoPanic ((Parser.new bin l).run lr) ∧
    ∀ p lr', (Parser.new bin l).run lr = (.ok p, lr') → Inv b f lr' ∧ ParserOk bin l p := by
  have w := Parser.new_ok bin l hl h
  exact ⟨noPanic_of_wp w, fun p lr' hr => (Wp.of_run w).1 p lr' hr⟩

/-- The section readers that read text lines. -/
inductive TextStep : {α : Type} → (St → PM (Option α × St)) → Prop where
  | lit (assigning : Bool) : TextStep (nextLit assigning)
  | latchAscii : TextStep nextLatchAscii
  | latchBin : TextStep nextLatchBin
  | justiceSize : TextStep nextJusticeSize
  | gateAscii : TextStep nextAndGateAscii

theorem TextStep.ok {α : Type} {next : St → PM (Option α × St)} (h : TextStep next) : StepOk next := by
  cases h with
  | lit a => exact nextLit_ok a
  | latchAscii => exact nextLatchAscii_ok
  | latchBin => exact nextLatchBin_ok
  | justiceSize => exact nextJusticeSize_ok
  | gateAscii => exact nextAndGateAscii_ok

/-- Every text-line `next_*` function, and the loop `while let Some(_) = next()? {}` around it
with the fuel the model gives it, never panics and keeps the invariants. -/
theorem aiger_next_no_panic {α : Type} {next : St → PM (Option α × St)} (hn : TextStep next)
    (b : VBytes) (f : Bool) (s : St) (lr : LR) (h : Inv b f lr) (hs : SInv s) :
    NoPanic ((next s).run lr) ∧ NoPanic ((whileSome next (s.left + 1) s []).run lr) ∧
    (∀ r lr', (next s).run lr = (.ok r, lr') → Inv b f lr' ∧ SInv r.2) := by
  have w := hn.ok b f s lr h hs
  refine ⟨noPanic_of_wp w, noPanic_of_wp (whileSome_ok hn.ok _ s [] lr h hs (by omega)), ?_⟩
  intro r lr' hr
  have := (Wp.of_run w).1 r lr' hr
  exact ⟨this.1, this.2.1⟩

/-- `next_symbol` never panics and keeps the invariant. -/
theorem aiger_symbol_no_panic (b : VBytes) (f : Bool) (p : Parser) (lr : LR) (h : Inv b f lr) :
    NoPanic ((nextSymbol p).run lr) ∧
    ∀ r lr', (nextSymbol p).run lr = (.ok r, lr') → Inv b f lr' := by
  have w := nextSymbol_ok p h
  exact ⟨noPanic_of_wp w, fun r lr' hr => ((Wp.of_run w).1 r lr' hr).1⟩

/-- `comment()` (remaining symbols, then the comment or the end of the file) never panics. -/
theorem aiger_comment_no_panic (b : VBytes) (f : Bool) (p : Parser) (lr : LR) (h : Inv b f lr) :
    NoPanic ((comment p).run lr) :=
  noPanic_of_wp (comment_ok p h)

/-- The length loop of `binary_uint` never runs out of its fuel. -/
theorem aig_varint_fuel (lr lr' : LR) :
    (binaryUintLen 11 0).run lr ≠ (.error (.panic "fuel"), lr') :=
  binaryUintLen_no_fuel_panic 11 0 (by decide) (by decide) lr lr'

/-- The entry points covered by the safety proofs, with their preconditions. -/
inductive Covered : {α : Type} → PM α → Prop where
  | new (bin : Bool) (l : LitTy) (hl : l.bits ≤ 64) : Covered (Parser.new bin l)
  | next {α : Type} {next : St → PM (Option α × St)} (hn : TextStep next) (s : St) (hs : SInv s) :
      Covered (next s)
  | drain {α : Type} {next : St → PM (Option α × St)} (hn : TextStep next) (s : St) (hs : SInv s) :
      Covered (whileSome next (s.left + 1) s [])
  | symbol (p : Parser) : Covered (nextSymbol p)
  | comment (p : Parser) : Covered (comment p)
  | parseAag (l : LitTy) (hl : l.bits ≤ 64) : Covered (Aiger.parseAag l)

theorem Covered.wp {α : Type} {m : PM α} (c : Covered m) (b : VBytes) (f : Bool) (lr : LR)
    (h : Inv b f lr) : ∃ Q, Wp (Err b f) m lr Q := by
  cases c with
  | new bin l hl => exact ⟨_, Parser.new_ok bin l hl h⟩
  | next hn s hs => exact ⟨_, hn.ok b f s lr h hs⟩
  | drain hn s hs => exact ⟨_, whileSome_ok hn.ok _ s [] lr h hs (by omega)⟩
  | symbol p => exact ⟨_, nextSymbol_ok p h⟩
  | comment p => exact ⟨_, comment_ok p h⟩
  | parseAag l hl => exact ⟨_, parseAag_ok l hl h⟩

/-- **No panic** at any covered entry point, from any state satisfying the invariant. -/
theorem aiger_no_panic {α : Type} {m : PM α} (c : Covered m) (b : VBytes) (f : Bool) (lr : LR)
    (h : Inv b f lr) : NoPanic (m.run lr) := by
  obtain ⟨Q, w⟩ := c.wp b f lr h
  exact noPanic_of_wp w

end Flussab.C05

namespace Flussab.C08
open Flussab Flussab.Aiger PM Lines

/-- **C08 (range)** for the covered entry points: a syntax error designates a line of the input
and a column on it (`1 ≤ l ≤ nlines + 1`, `1 ≤ c ≤ lineLen l + 1`). -/
theorem aiger_error_in_range {α : Type} {m : PM α} (c : C05.Covered m) (b : VBytes) (f : Bool)
    (lr lr' : LR) (h : Inv b f lr) (l col : Nat) (hr : m.run lr = (.error (.syn l col), lr')) :
    InRange b l col := by
  obtain ⟨Q, w⟩ := c.wp b f lr h
  exact ((Wp.of_run w).2 _ _ hr).2.1

end Flussab.C08

namespace Flussab.C04
open Flussab Flussab.Aiger PM Lines

/-- **C04** for the covered entry points: an I/O error is only ever reported for a failing source;
and when the source is a failing one, a syntax error is raised before the reader has hit the end
of the delivered data (so it is the fault-free run's own error, found without looking at or beyond
the offset where the source failed). -/
theorem aiger_fault_io {α : Type} {m : PM α} (c : C05.Covered m) (b : VBytes) (f : Bool)
    (lr lr' : LR) (h : Inv b f lr) (e : PErr) (hr : m.run lr = (.error e, lr')) :
    (e = .io → f = true) ∧ (∀ l col, e = .syn l col → f = true → lr'.v.sawEnd = false) := by
  obtain ⟨Q, w⟩ := c.wp b f lr h
  have he := (Wp.of_run w).2 _ _ hr
  refine ⟨?_, ?_⟩
  · intro h1; subst h1; exact he.2
  · intro l col h1; subst h1; exact he.2.2

/-- A failing source never lets `comment()` return normally (the repaired F6), nor any other
covered call end the file cleanly: the clean end is only accepted by `eof`, which tests the parked
error. -/
theorem aiger_eof_not_on_fault (b : VBytes) (lr lr' : LR) (h : Inv b true lr) (u : Unit) :
    eof.run lr ≠ (.ok (some u), lr') := by
  intro hr
  have := (Wp.of_run (E := Err b true) (eof_ok h)).1 _ _ hr
  have := (this.2.2.2 rfl).1
  cases this

end Flussab.C04

namespace Flussab.C05
open Flussab Flussab.Aiger PM Lines

/-! ### not yet proved -/

/-- The binary and-gate block: `next_and_gate` of `binary.rs` (two `delta_code`s) never panics.
Needs an invariant in which the block is the continuation of one line (a consumed byte may be
`0x0A`); the line invariant `Inv` used above is too strong there. -/
def aig_gates_no_panic_full : Prop :=
  ∀ (s : St) (lr : LR), lr.lineStart ≤ lr.v.pos → NoPanic ((nextAndGateBin s).run lr)

/-- Whole-file `binary::Parser::parse` never panics.  Missing: the and-gate block (see above). -/
def aig_parse_no_panic_full : Prop :=
  ∀ (b : VBytes) (f : Bool) (l : LitTy), l.bits ≤ 64 → b.length + 3 ≤ usizeMax →
    NoPanic ((parseAig l).run (LR.init b f))

/-- **Whole-file `ascii::Parser::parse` never panics**, for every input shorter than
`usize::MAX - 3`, healthy or failing source, and all five literal types: header arithmetic,
section counters, `usize::MAX - total`, symbol index limits, the column arithmetic of every error,
the multi-line jump of the comment reader, the indices of the justice distribution loop and all
fuel bounds. -/
theorem aag_parse_no_panic (b : VBytes) (f : Bool) (l : LitTy) (hl : l.bits ≤ 64)
    (hb : b.length + 3 ≤ usizeMax) : NoPanic ((parseAag l).run (LR.init b f)) :=
  aiger_no_panic (.parseAag l hl) b f _ (aiger_inv_init b f hb)

/-! ### non-vacuity -/

/-- `"aag 3 1 1 1 1\n2\n4 6 1\n6\n6 2 4\ni0 x\nc\nhi\n"` -/
def exAag : VBytes := [97,97,103,32,51,32,49,32,49,32,49,32,49,10,50,10,52,32,54,32,49,10,54,10,
  54,32,50,32,52,10,105,48,32,120,10,99,10,104,105,10]

def isOk {α : Type} (r : Except PErr α × LR) : Bool :=
  match r.1 with | .ok _ => true | .error _ => false

/-- The hypotheses are satisfiable and the conclusions speak about real runs: the initial state of
a small file satisfies the invariant, the header is accepted, and the invariant holds after it. -/
example : ∃ p lr', (Parser.new false ⟨8⟩).run (LR.init exAag false) = (.ok p, lr') ∧
    Inv exAag false lr' := by
  have h := aiger_inv_init exAag false (by decide)
  have hok : isOk ((Parser.new false ⟨8⟩).run (LR.init exAag false)) = true := by decide +kernel
  rcases hr : (Parser.new false ⟨8⟩).run (LR.init exAag false) with ⟨e | p, lr'⟩
  · rw [hr] at hok; cases hok
  · exact ⟨p, lr', rfl, ((aiger_new_no_panic exAag false false ⟨8⟩ (by decide) _ h).2 p lr' hr).1⟩

/-- An error outcome exists too (so "not a panic" is not vacuous): a truncated header. -/
example : isOk ((Parser.new false ⟨8⟩).run (LR.init [97, 97, 103, 32, 51] false)) = false := by
  decide +kernel

end Flussab.C05
