/-
Tie between the whole-file AIGER write drivers — `Writer::write_aig`, `Writer::write_ordered_aig` of
`/repo/flussab-aiger/src/ascii.rs` and `Writer::write_ordered_aig` of `/repo/flussab-aiger/src/binary.rs` — and the
whole-file writer functions of `Model/Aiger.lean` (`Aiger.writeAig`, `Aiger.writeOrderedAigAscii`,
`Aiger.binWriteOrderedAig` / `Aiger.writeOrderedAigBinary`) — the statements.  (Proofs: `Proof/TieAigerWriteDoc.lean`.)

`Flussab.Gen.AigerWriteDoc.*` (`Gen/AigerWriteDocGen.lean`, unit `tools/unit_aigerwritedoc.py`) and
`Flussab.Gen.AigerBinWriteDoc.*` (`Gen/AigerBinWriteDocGen.lean`, unit `tools/unit_aigerbinwritedoc.py`) are produced
by `tools/gen_core.py` from the Rust source on every check run.  The drivers call the *generated* piece writers
`Gen.AigerWrite.*` / `Gen.AigerBinWrite.*` (`write_header`, `write_lit`, `write_latch`, `write_count`,
`write_and_gate`, `write_symbol`, `write_comment`; tied one by one in `Props/TieAigerWrite.lean`), in `for` loops over
the vectors of the document (structural recursion over the lists), a nested loop for the justice properties, and —
ASCII `write_ordered_aig` — the counter `code` (threaded through the loops; `L::from_code(code)` is the code itself,
`L` = `Nat` as in the piece writers' unit).  Op histories and hypotheses: `Model/AigerWriteDoc.lean`.

TIED — ASCII (for a writer `w` with `buf.len() ≤ capacity`, every sink behaviour, sink panics included):

  `ascii_write_aig_tied`          `Gen.AigerWriteDoc.writeAig a w = runSeq (opsAig a) w` for a document all of whose
                                  numbers (header counts = vector lengths, literals, symbol indices) are `usize`
                                  (`AigFits a`); `opsAig a` is the concatenation of the per-piece op histories in the
                                  order of the Rust driver.
  `aig_bytes`                     `C11.written (opsAig a) w = Aiger.writeAig a`.
  `ascii_write_ordered_aig_tied`  `Gen.AigerWriteDoc.writeOrderedAig a w = runSeq (opsOrderedAigAscii a) w` for
                                  `OrdFits a` and `OrdCodesFit a`: `2 * (inputs + latches + gates + 1) < 2 ^ 64`, i.e.
                                  the counter `code` (2, +2 per input / latch / gate) is a `usize` up to its final
                                  value.  The generated `code += 2` is addition on `Nat`; under `OrdCodesFit` Rust's
                                  `usize` addition does not overflow either.
  `ordered_ascii_bytes`           `C11.written (opsOrderedAigAscii a) w = Aiger.writeOrderedAigAscii l a` for every
                                  literal type `l` in which the largest code written fits
                                  (`2 * (inputs + latches + gates) < 2 ^ l.bits`: the model's `l.fromCode` truncates,
                                  the translation's `L::from_code` does not).
  `aig_valid`, `ordered_aig_valid`  the ops of these histories are valid C11 ops.
  `aig_sink`, `ordered_aig_sink`  the good-sink corollaries: on a sink that does not fail, after the driver and a flush
                                  / drop the sink has received exactly `Aiger.writeAig a` / `writeOrderedAigAscii l a`
                                  after what it had and what was buffered.

TIED — `binary::Writer::write_ordered_aig` (`Gen.AigerBinWriteDoc.writeOrderedAig`, state `BinWriter` = writer + the
counter `code`).  The binary writer has a panic of its own (`assert!(code_0 <= self.code)` in `write_and_gate`) and
the counter, so its history is a list of events `BOp` (`Model/AigerWriteDoc.lean`): `.op` (a writer op), `.setCode c`,
`.panic`; `runSeqC` runs it (a sink panic inside an op and `.panic` end the run with the state as it is there).

  `bin_write_ordered_aig_tied`    for `buf.len() ≤ capacity` and `OrdFits a` (EVERY initial counter):
                                  `Gen.AigerBinWriteDoc.writeOrderedAig a s = runSeqC (bopsOrderedAigBin a) s` — result,
                                  writer and counter, on every path (sink panic, `assert!` panic of the first gate
                                  whose larger input exceeds the counter, normal return).
  `bin_ordered_aig_model`         the hand model on the same history: `runW (Aiger.binWriteOrderedAig a) o c =
                                  bopsOut (bopsOrderedAigBin a) o c` — `runW m o c` runs the model action in `Aiger.WM`
                                  from `{ out := o, code := c }` (`none` = `throw`), `bopsOut` reads a history as the
                                  model does: `none` once `.panic` is reached (the model's `throw` = the Rust `assert!`),
                                  else the ops' bytes (`piece`: `write bs` ↦ `bs`, `digits` ↦ the decimal text — what
                                  `C11.written` assigns to the op, `piece_written`) appended and the last counter.
  `bin_ordered_aig_wmOut`, `bin_ordered_aig_file`   the same for `wmOut` (from `out = []`) and for
                                  `Aiger.writeOrderedAigBinary a` (`.toOption`: the model's error string is not compared).
  `bin_write_ordered_aig_sections`  (no hypotheses) the generated driver is the sequence header; latch per latch; ops of
                                  `opsMid`; gate per gate; ops of `opsTail` — the five steps of `Aiger.binWriteOrderedAig`.
  `bin_mid_run`, `bin_tail_run`, `mid_bytes`, `tail_bytes`   runs and bytes of the two op-only sections.

  `bin_ordered_aig_sink`          good-sink corollary: if the model does not `throw` from the writer's counter
                                  (`wmOut (Aiger.binWriteOrderedAig a) s.code = some (bytes, c')`), then on a sink that does
                                  not fail the driver returns normally with counter `c'` and, after a flush / drop, the sink
                                  has received exactly `bytes` after what it had and what was buffered (`bopsOps` = the
                                  writer ops of the history).

NOT TIED: the behaviour of `code += 2` in the ASCII ordered driver beyond `OrdCodesFit` (Rust: debug panic / release
wrap; the hand model `Aiger.writeOrderedAigAscii` does not model it either, see its comment).  Nothing else of the
three drivers is left out.
-/
import Flussab.Proof.TieAigerWriteDoc
import Flussab.Props.TieAigerWrite

namespace Flussab
namespace TieAigerWriteDoc

open TieAigerWriteDocAux AigerWriteExt
open Writer (Op)

/-! ### `ascii::Writer::write_aig` -/

theorem ascii_write_aig_tied (w : Writer) (a : Aiger.Aig) (h : w.buf.length ≤ w.cap) (hf : AigFits a) :
    Gen.AigerWriteDoc.writeAig a w = runSeq (opsAig a) w := TieAigerWriteDocAux.ascii_write_aig_eq w a h hf

theorem aig_bytes (a : Aiger.Aig) (w : Writer) : C11.written (opsAig a) w = Aiger.writeAig a :=
  TieAigerWriteDocAux.aig_bytes a w

/-- The ops of a fitting document are inside C11's domain. -/
theorem aig_valid (a : Aiger.Aig) (hf : AigFits a) : ∀ op ∈ opsAig a, op.Valid := (good_aig a hf).1

/-- **What reaches the sink** (`write_aig`, then flush or drop, on a sink that does not fail). -/
theorem aig_sink (a : Aiger.Aig) (hf : AigFits a) (w : Writer) (hg : w.sink.Good)
    (hinv : w.buf.length ≤ w.cap) (hup : w.panicked = false) (he : w.ioError = false)
    (last : Op) (hlast : last = .flush ∨ last = .drop) :
    Gen.AigerWriteDoc.writeAig a w = (some (), C11.runOps (opsAig a) w) ∧
    (C11.runOps (opsAig a ++ [last]) w).sink.sunk = w.sink.sunk ++ w.buf ++ Aiger.writeAig a := by
  have h := TieAigerWrite.sink_gets_model_bytes (opsAig a) w (aig_valid a hf) hg hinv hup he last hlast
  rw [ascii_write_aig_tied w a hinv hf, h.1, h.2, aig_bytes]
  exact ⟨rfl, rfl⟩

/-! ### `ascii::Writer::write_ordered_aig` -/

theorem ascii_write_ordered_aig_tied (w : Writer) (a : Aiger.OrderedAig) (h : w.buf.length ≤ w.cap)
    (hf : OrdFits a) (hc : OrdCodesFit a) :
    Gen.AigerWriteDoc.writeOrderedAig a w = runSeq (opsOrderedAigAscii a) w :=
  TieAigerWriteDocAux.ascii_write_ordered_aig_eq w a h hf hc

theorem ordered_ascii_bytes (l : Aiger.LitTy) (a : Aiger.OrderedAig)
    (hl : 2 * (a.inputCount + a.latches.length + a.gates.length) < 2 ^ l.bits) (w : Writer) :
    C11.written (opsOrderedAigAscii a) w = Aiger.writeOrderedAigAscii l a :=
  TieAigerWriteDocAux.ordered_ascii_bytes l a hl w

theorem ordered_aig_valid (a : Aiger.OrderedAig) (hf : OrdFits a) (hc : OrdCodesFit a) :
    ∀ op ∈ opsOrderedAigAscii a, op.Valid := (good_ordered a hf hc).1

/-- **What reaches the sink** (`write_ordered_aig` of the ASCII writer, then flush or drop, good sink). -/
theorem ordered_aig_sink (l : Aiger.LitTy) (a : Aiger.OrderedAig) (hf : OrdFits a) (hc : OrdCodesFit a)
    (hl : 2 * (a.inputCount + a.latches.length + a.gates.length) < 2 ^ l.bits)
    (w : Writer) (hg : w.sink.Good)
    (hinv : w.buf.length ≤ w.cap) (hup : w.panicked = false) (he : w.ioError = false)
    (last : Op) (hlast : last = .flush ∨ last = .drop) :
    Gen.AigerWriteDoc.writeOrderedAig a w = (some (), C11.runOps (opsOrderedAigAscii a) w) ∧
    (C11.runOps (opsOrderedAigAscii a ++ [last]) w).sink.sunk =
      w.sink.sunk ++ w.buf ++ Aiger.writeOrderedAigAscii l a := by
  have h := TieAigerWrite.sink_gets_model_bytes (opsOrderedAigAscii a) w (ordered_aig_valid a hf hc) hg hinv hup he
    last hlast
  rw [ascii_write_ordered_aig_tied w a hinv hf hc, h.1, h.2, ordered_ascii_bytes l a hl]
  exact ⟨rfl, rfl⟩

/-! ### `binary::Writer::write_ordered_aig` (sections only, see the header) -/

/-- `for x in xs { f x }` (structural recursion over the list; a panic ends the loop). -/
abbrev forSeq {σ α : Type} (f : α → RM σ Unit) (xs : List α) : RM σ Unit := TieAigerWriteDocAux.forSeq f xs

theorem forSeq_nil {σ α : Type} (f : α → RM σ Unit) : forSeq f [] = pure () := rfl
theorem forSeq_cons {σ α : Type} (f : α → RM σ Unit) (x : α) (r : List α) :
    forSeq f (x :: r) = (do f x; forSeq f r) := rfl

theorem bin_write_ordered_aig_sections (a : Aiger.OrderedAig) :
    Gen.AigerBinWriteDoc.writeOrderedAig a =
      (do Gen.AigerBinWrite.writeHeader (Aiger.orderedHeader a)
          forSeq Gen.AigerBinWrite.writeLatch a.latches
          TieAigerWriteAux.genSeqB (opsMid a.outputs a.bad a.constraints a.justice a.fairness)
          forSeq Gen.AigerBinWrite.writeAndGate a.gates
          TieAigerWriteAux.genSeqB (opsTail a.symbols a.comment)) := TieAigerWriteDocAux.b_writeOrderedAig a

theorem bin_mid_run (a : Aiger.OrderedAig) (hf : OrdFits a) (s : BinWriter) (h : s.writer.buf.length ≤ s.writer.cap) :
    TieAigerWriteAux.genSeqB (opsMid a.outputs a.bad a.constraints a.justice a.fairness) s =
      runSeqB (opsMid a.outputs a.bad a.constraints a.justice a.fairness) s :=
  have g := good_mid _ _ _ _ _ hf.outputs hf.bad hf.constraints hf.justice hf.fairness
  TieAigerWriteAux.genSeqB_eq _ g.2 g.1 s h

theorem bin_tail_run (a : Aiger.OrderedAig) (hf : OrdFits a) (s : BinWriter) (h : s.writer.buf.length ≤ s.writer.cap) :
    TieAigerWriteAux.genSeqB (opsTail a.symbols a.comment) s = runSeqB (opsTail a.symbols a.comment) s :=
  have g := good_tail a.symbols a.comment hf.symbols
  TieAigerWriteAux.genSeqB_eq _ g.2 g.1 s h

theorem mid_bytes (o b c : List Nat) (j : List (List Nat)) (f : List Nat) (w : Writer) :
    C11.written (opsMid o b c j f) w = Aiger.writeMid o b c j f := by
  rw [TieAigerWriteAux.written_eq _ (wd_mid o b c j f), pieces_mid]

theorem tail_bytes (ss : List Aiger.Symbol) (c : Option (List UInt8)) (w : Writer) :
    C11.written (opsTail ss c) w = Aiger.writeTail ss c := by
  rw [TieAigerWriteAux.written_eq _ (wd_tail ss c), pieces_tail]

/-- **`binary::Writer::write_ordered_aig`** = the run of its event history, on every writer within capacity. -/
theorem bin_write_ordered_aig_tied (s : BinWriter) (a : Aiger.OrderedAig) (h : s.writer.buf.length ≤ s.writer.cap)
    (hf : OrdFits a) :
    Gen.AigerBinWriteDoc.writeOrderedAig a s = runSeqC (bopsOrderedAigBin a) s :=
  TieAigerWriteDocAux.bin_write_ordered_aig_eq a hf s h

/-- Run of a model action of `Aiger.WM` from `{ out := o, code := c }`; `none` = `throw`. -/
abbrev runW := @TieAigerWriteDocAux.runW
/-- The hand model's reading of an event history. -/
abbrev bopsOut := @TieAigerWriteDocAux.bopsOut

theorem runW_def (m : Aiger.WM Unit) (o : List UInt8) (c : Nat) :
    runW m o c = match m.run { out := o, code := c } with
      | .ok (_, b) => some (b.out, b.code)
      | .error _ => none := rfl

theorem bopsOut_nil (o : List UInt8) (c : Nat) : bopsOut [] o c = some (o, c) := rfl
theorem bopsOut_op (x : Op) (r : List BOp) (o : List UInt8) (c : Nat) :
    bopsOut (.op x :: r) o c = bopsOut r (o ++ TieAigerWriteAux.piece x) c := rfl
theorem bopsOut_setCode (c' : Nat) (r : List BOp) (o : List UInt8) (c : Nat) :
    bopsOut (.setCode c' :: r) o c = bopsOut r o c' := rfl
theorem bopsOut_panic (r : List BOp) (o : List UInt8) (c : Nat) : bopsOut (.panic :: r) o c = none := rfl

/-- `piece` of a write / digits op is what C11 says the op writes. -/
theorem piece_written (x : Op) (h : TieAigerWriteAux.WD x) (w : Writer) :
    C11.written [x] w = TieAigerWriteAux.piece x := by
  rw [TieAigerWriteAux.written_eq [x] (by intro op hop; simp only [List.mem_cons, List.not_mem_nil, or_false] at hop; subst hop; exact h)]
  simp [TieAigerWriteAux.pieces]

/-- **The hand model `Aiger.binWriteOrderedAig` and the Rust driver have the same event history.** -/
theorem bin_ordered_aig_model (a : Aiger.OrderedAig) (hf : OrdFits a) (o : List UInt8) (c : Nat) :
    runW (Aiger.binWriteOrderedAig a) o c = bopsOut (bopsOrderedAigBin a) o c :=
  TieAigerWriteDocAux.ordered_out a hf o c

theorem bin_ordered_aig_wmOut (a : Aiger.OrderedAig) (hf : OrdFits a) (c : Nat) :
    wmOut (Aiger.binWriteOrderedAig a) c = bopsOut (bopsOrderedAigBin a) [] c :=
  TieAigerWriteDocAux.ordered_out a hf [] c

theorem bin_ordered_aig_file (a : Aiger.OrderedAig) (hf : OrdFits a) :
    (Aiger.writeOrderedAigBinary a).toOption = (bopsOut (bopsOrderedAigBin a) [] 0).map (·.1) :=
  TieAigerWriteDocAux.ordered_file a hf

/-- **What reaches the sink** (binary `write_ordered_aig`, then flush or drop, on a sink that does not fail), when the
hand model does not `throw` (no gate fails the `assert!`): normal return with the model's final counter, and the sink
has received what it had, what was buffered, then exactly the model's bytes. -/
theorem bin_ordered_aig_sink (a : Aiger.OrderedAig) (hf : OrdFits a) (s : BinWriter) (hg : s.writer.sink.Good)
    (hinv : s.writer.buf.length ≤ s.writer.cap) (hup : s.writer.panicked = false) (he : s.writer.ioError = false)
    (bytes : List UInt8) (c' : Nat) (hm : wmOut (Aiger.binWriteOrderedAig a) s.code = some (bytes, c'))
    (last : Op) (hlast : last = .flush ∨ last = .drop) :
    Gen.AigerBinWriteDoc.writeOrderedAig a s =
      (some (), { writer := C11.runOps (bopsOps (bopsOrderedAigBin a)) s.writer, code := c' }) ∧
    (C11.runOps (bopsOps (bopsOrderedAigBin a) ++ [last]) s.writer).sink.sunk =
      s.writer.sink.sunk ++ s.writer.buf ++ bytes := by
  have hgood := good_bopsOrdered a hf
  have hout : TieAigerWriteDocAux.bopsOut (bopsOrderedAigBin a) [] s.code = some (bytes, c') :=
    (TieAigerWriteDocAux.ordered_out a hf [] s.code).symm.trans hm
  obtain ⟨hnp, hbytes⟩ := bopsOut_some _ _ _ _ hout
  obtain ⟨h1, h2, h3⟩ := runSeqC_noPanic (bopsOrderedAigBin a) s hnp
  have hs := TieAigerWrite.sink_gets_model_bytes _ s.writer hgood.1 hg hinv hup he last hlast
  rw [hs.1] at h1 h2
  have h3' := h3 [] (bytes, c') h1 hout
  refine ⟨?_, ?_⟩
  · rw [bin_write_ordered_aig_eq a hf s hinv]
    rcases hr : runSeqC (bopsOrderedAigBin a) s with ⟨r, ⟨w, c⟩⟩
    rw [hr] at h1 h2 h3'
    simp only at h1 h2 h3'
    subst h1 h2 h3'
    rfl
  · rw [hs.2, TieAigerWriteAux.written_eq _ hgood.2]
    simp only [List.nil_append] at hbytes
    rw [← hbytes]


/-- Non-vacuity of the hypotheses: a small document fits. -/
example : AigFits { maxVarIndex := 1, inputs := [2], outputs := [3] } ∧
    OrdFits { maxVarIndex := 1, inputCount := 1, outputs := [3] } ∧ OrdCodesFit { inputCount := 1 } := by
  refine ⟨⟨?_, by simp, by simp, by simp, by simp, by simp, by simp, by simp, by simp, by simp⟩,
    ⟨?_, by simp, by simp, by simp, by simp, by simp, by simp, by simp, by simp⟩, by simp [OrdCodesFit]⟩
  · intro f hf
    simp [aigHeader, Aiger.headerFields] at hf
    omega
  · intro f hf
    simp [Aiger.orderedHeader, Aiger.headerFields] at hf
    omega

end TieAigerWriteDoc
end Flussab
