/-
Tie between `/repo/flussab-aiger/src/token.rs` and the hand-written AIGER token model — the statements.
(Proofs: `Proof/TieAigerToken.lean`.)

`Flussab.Gen.AigerToken.*` (file `Gen/AigerTokenGen.lean`) is produced by `tools/gen_core.py`
(`tools/unit_aigertoken.py`) from the Rust source on every check run.  Each theorem says that a generated
token function *is* (as a function of the parser state: same result, same cursor, same mark, same line
bookkeeping, same look-ahead ghost, same panics and panic sites) the function of `Model/AigerToken.lean` that the
AIGER theorems of C03–C09 are about.  Calls into the core crate are mapped to the models of those functions,
which are tied to their own source by `Props/TieText.lean` and `Props/TieReader.lean`; the `Parsed` combinators
applied to closures (`or_give_up`, `map_err`, `and_also`), `reader.buf()[k]` and the `usize` instance of the
generic `uint` are the hand-written contracts of `Model/AigerTokenExt.lean`.

Tied (16): `fixed`, `fixed_not_eol`, `space`, `required_space`, `newline`, `required_newline`,
`required_newline_or_space`, `uint` (the `usize` instance, the only one used), `delta_code`, `delta_code_err`,
`header_field`, `not_assigning`, `invalid_initialization`, `lit`, `symbol_index`, `eof`.
Strings (`&str` names, `String` numerals, messages) are `Unit` on both sides: the model has no messages, so
`not_assigning`, `invalid_initialization` and `delta_code_err` are all `Aiger.errorAtMark`.

All equalities are unconditional.  `uint_tied` is the only one whose proof looks at the state: the model slices
`buf()[..offset]` once and reads its head, the source reads `buf()[0]` and slices later; the two agree (including
the panic site) because the scanner has demanded `offset` bytes (`PM.digitsCont_spec`).

Not translated (reasons also in `tools/unit_aigertoken.py`); where a translated function calls one of these, the
generated code calls its hand model, and these four stay tied by the correspondence runs only:
  `unexpected`              Vec / `format!` / `from_utf8_lossy` message building          (`Aiger.unexpected`)
  `exceeds_count`           branches on `value.starts_with('0')` (strings are not modelled) only to choose the
                            message; both branches are `give_up_at(mark)`                  (`Aiger.errorAtMark`)
  `remaining_line_content`  std UTF-8 validation, `from_utf8_unchecked`
  `remaining_file_content`  std UTF-8 validation, iterator adaptors with closures, `buf_len()`
-/
import Flussab.Proof.TieAigerToken

namespace Flussab
namespace TieAigerToken

open TieAigerTokenAux

theorem fixed_tied (pat : VBytes) : Gen.AigerToken.fixedTok pat = Aiger.fixed pat := fixedTok_eq pat
theorem fixed_not_eol_tied (pat : VBytes) : Gen.AigerToken.fixedNotEol pat = Aiger.fixedNotEol pat := fixedNotEol_eq pat
theorem space_tied : Gen.AigerToken.space = Aiger.space := space_eq
theorem required_space_tied : Gen.AigerToken.requiredSpace = Aiger.requiredSpace := requiredSpace_eq
theorem newline_tied : Gen.AigerToken.newline = Aiger.newline := newline_eq
theorem required_newline_tied : Gen.AigerToken.requiredNewline = Aiger.requiredNewline := requiredNewline_eq
theorem required_newline_or_space_tied :
    Gen.AigerToken.requiredNewlineOrSpace = Aiger.requiredNewlineOrSpace := requiredNewlineOrSpace_eq
theorem eof_tied : Gen.AigerToken.eof = Aiger.eof := eof_eq

/-- `uint::<usize>`: the generated generic `uint` at `usize`, its three outcomes (`Fallthrough`, `Res(Err(numeral))`,
`Res(Ok(v))` with the `usize` value as a `Nat`) read as the model's `UintRes`. -/
theorem uint_tied :
    (fun r => AigerTokenExt.toUintRes (AigerTokenExt.asUsize r)) <$> Gen.AigerToken.uint Aiger.usizeTy = Aiger.uint :=
  uint_eq

theorem delta_code_err_tied (code delta : Nat) (target reference : Unit) :
    Gen.AigerToken.deltaCodeErr code delta target reference = Aiger.errorAtMark := deltaCodeErr_eq code delta target reference
/-- `binary_uint`: both loops (length with the 10-byte limit, value with the overflow test on the wrapping
shift), `buf()[..n]`, `advance`. -/
theorem binary_uint_tied : Gen.AigerToken.binaryUint = Aiger.binaryUint := binaryUint_eq

theorem delta_code_tied (code : Nat) (target reference : Unit) :
    Gen.AigerToken.deltaCode code target reference = Aiger.deltaCode code := deltaCode_eq code target reference
theorem not_assigning_tied {α : Type} (intValue : Nat) (what value : Unit) :
    (Gen.AigerToken.notAssigning intValue what value : PM α) = Aiger.errorAtMark := notAssigning_eq intValue what value
theorem invalid_initialization_tied {α : Type} (found latch : Nat) :
    (Gen.AigerToken.invalidInitialization found latch : PM α) = Aiger.errorAtMark := invalidInitialization_eq found latch
theorem header_field_tied (name : Unit) (limit : Nat) (hardLimit : Bool) :
    Gen.AigerToken.headerField name limit hardLimit = Aiger.headerField limit := headerField_eq name limit hardLimit
theorem lit_tied (name : Unit) (limit : Nat) (assigning : Bool) :
    Gen.AigerToken.litTok name limit assigning = Aiger.lit limit assigning := litTok_eq name limit assigning
theorem symbol_index_tied (name : Unit) (limit : Nat) :
    Gen.AigerToken.symbolIndex name limit = Aiger.symbolIndex limit := symbolIndex_eq name limit

/-- Non-vacuity: the generated `lit` token on `"12 3"` with limit 20, assigning: value 12, cursor behind it. -/
example : (match Gen.AigerToken.litTok () 20 true (LR.init [49, 50, 32, 51] false) with
    | (.ok x, lr) => x == 12 && lr.v.pos == 2
    | _ => false) = true := by
  decide

/-- … and on the odd literal `"13"`: a syntax error at the mark (line 1, column 1). -/
example : (match (Gen.AigerToken.litTok () 20 true (LR.init [49, 51, 10] false)).1 with
    | .error (.syn 1 1) => true
    | _ => false) = true := by
  decide

end TieAigerToken
end Flussab
