/-
Tie between the streaming parser of `/repo/flussab-cnf/src/gcnf.rs` (`impl<'a, L: Dimacs> Parser<'a, L>`) and the
hand-written model `Model/Cnf.lean` with format `.gcnf` — the statements.  (Proofs: `Proof/TieGcnfParser.lean`.)

`Flussab.Gen.GcnfParser.*` (file `Gen/GcnfParserGen.lean`) is produced by `tools/gen_core.py`
(`tools/unit_gcnfparser.py`, a subclass of the WCNF / plain-CNF units) from the Rust source on every check run:
`new`, `parse_header`, `header`, `next_clause`.  The generated code acts on the pair (parser fields `Cnf.GParserS`
— the GCNF struct has the fields of the CNF one plus `group_limit`, `group_limit_is_hard` —, reader `LR`) in the
monad `GPPM = StateT Cnf.GParserS PM`; the model's functions take and return the record `Cnf.Parser` explicitly.
Calls into token.rs are the token models of `Model/CnfToken.lean` (tied to token.rs by `Props/TieCnfToken.lean`,
including `uint_count`, `clause_group`, `non_terminating_linebreaks`, `clause_lits`; `unexpected` by correspondence
runs), the `Parsed` combinators are the contracts of `Model/GcnfParserExt.lean`, `unexpected_statement` (chooses a
message) is `Cnf.unexpected`.  `Header { var_count, clause_count, group_count }` is the model's `Cnf.Header` with
`extra = group_count` (`uint_count::<usize>`).  `usize::MAX` is `PM.usizeMax`.

Correspondence of the records (`ofModelG`): the generated record has the Rust fields; the model record lacks
`lit_buf` (the model returns the literals), `lit_limit_is_hard` and `group_limit_is_hard` (they select a message
only) and has the extra constants `fmt`, `lit`.  `ofModelG p hard ghard buf` is the generated record with the
model's values (including `groupLimit`) and the given three extra fields; every generated record is of this form
(`ofModelG_surjective`).  A thrown `ParseError` leaves only the reader state on both sides.

* `parse_header_tied`: for every state, the generated `parse_header` leaves the parser fields alone and acts on
  the reader exactly like `Cnf.parseHeader .gcnf l`.
* `new_tied`: for every initial record (the struct literal overwrites it) and reader state, `Parser::new` returns
  and leaves `ofModelG p hard ghard []` where `p` is the model's `Cnf.Parser.new .gcnf l ignore_header`,
  `hard = hardAfterNew ..` (false iff a non-zero header variable count was used) and `ghard = ghardAfterNew ..`
  (false iff a non-zero header group count was used).  Hypothesis `l.bits ≤ 64` (every `Dimacs` type is at most
  64 bits wide): `header.var_count as isize` is translated as the wrapping cast; it is the identity because
  `var_count::<L>` returns at most `L::MAX_DIMACS ≤ isize::MAX`.
* `next_clause_tied`: for every model record `p` of GCNF (`p.fmt = .gcnf`; `L` is `p.lit`), every `hard`, `ghard`,
  `buf` and reader state, the generated `next_clause` on `ofModelG p hard ghard buf` returns `(group, literals)` =
  `(c.tag, c.lits)` of the clause `c` the model returns (`None` for `None`) and leaves `ofModelG p' hard ghard lits`
  (`lits = []` for `None`: the buffer was cleared) where `p'` is the model's new record.  No hypothesis on fuel:
  the loops' fuel is never used up.
* `header_tied`: the accessor.
Conventions as in §11.5 of DESIGN.md: `usize` addition (`clause_count += 1`) is unchecked.
-/
import Flussab.Proof.TieGcnfParser

namespace Flussab
namespace TieGcnfParser

open GcnfParserExt

export TieCnfParserAux (hardAfterNew litsOf)
export TieGcnfParserAux (ofModelG ghardAfterNew outOf)

/-- Every generated parser record corresponds to a model record. -/
theorem ofModelG_surjective (l : Cnf.LitTy) (s : Cnf.GParserS) :
    ∃ p : Cnf.Parser, p.fmt = .gcnf ∧ p.lit = l ∧ ofModelG p s.litLimitIsHard s.groupLimitIsHard s.litBuf = s :=
  ⟨{ fmt := .gcnf, lit := l, clauseCount := s.clauseCount, clauseLimit := s.clauseLimit,
     clauseLimitActive := s.clauseLimitActive, litLimit := s.litLimit, groupLimit := s.groupLimit,
     header := s.header }, rfl, rfl, rfl⟩

theorem parse_header_tied (l : Cnf.LitTy) :
    Gen.GcnfParser.parseHeader l = tok (Cnf.parseHeader .gcnf l) := TieGcnfParserAux.parseHeader_eq l

/-- The same, run on a parser record. -/
theorem parse_header_run (l : Cnf.LitTy) (s : Cnf.GParserS) :
    (Gen.GcnfParser.parseHeader l).run s = (Cnf.parseHeader .gcnf l >>= fun h => pure (h, s)) := by
  rw [TieGcnfParserAux.parseHeader_eq]; rfl

theorem new_tied (l : Cnf.LitTy) (hl : l.bits ≤ 64) (cfg : Cnf.Config) (s0 : Cnf.GParserS) :
    (Gen.GcnfParser.new l cfg).run s0 =
      (Cnf.Parser.new .gcnf l cfg.ignoreHeader >>= fun p =>
        pure (ofModelG p (hardAfterNew cfg.ignoreHeader p) (ghardAfterNew cfg.ignoreHeader p) [],
              ofModelG p (hardAfterNew cfg.ignoreHeader p) (ghardAfterNew cfg.ignoreHeader p) [])) :=
  TieGcnfParserAux.new_eq l hl cfg s0

theorem header_tied (s : Cnf.GParserS) : Gen.GcnfParser.header.run s = pure (s.header, s) := rfl

/-- `outOf c = (c.tag, c.lits)`: the group and the literals. -/
theorem next_clause_tied (p : Cnf.Parser) (hfmt : p.fmt = .gcnf) (hard ghard : Bool) (buf : List Int) :
    (Gen.GcnfParser.nextClause p.lit).run (ofModelG p hard ghard buf) =
      (Cnf.Parser.nextClause p >>= fun r => pure (r.1.map outOf, ofModelG r.2 hard ghard (litsOf r.1))) :=
  TieGcnfParserAux.nextClause_eq p hfmt hard ghard buf

end TieGcnfParser
end Flussab
