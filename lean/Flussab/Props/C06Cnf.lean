/-
C06, DIMACS family — enforced limits as theorems about every ACCEPTED input (any byte string,
failing or non-failing source): corollaries of `C03.cnf_parsed_is_wf` (whatever `parseAll`
accepts with a clean end lies in the explicit domain `Spec.CnfWF`).
-/
import Flussab.Props.C03Cnf

namespace Flussab.C06
open Flussab Cnf Spec

/-- **Literals within the declared variable count** (or, with no / zero / ignored header count,
within the literal type), and never zero: for every clause handed out by an accepting run. -/
theorem cnf_lits_within (fmt : Format) (l : LitTy) (ignoreHeader : Bool) (hl : 1 ≤ l.bits ∧ l.bits ≤ 64)
    (bytes : VBytes) (fault : Bool) (h : Option Header) (cs : List Clause)
    (hp : parseAll fmt l ignoreHeader (LR.init bytes fault) = { header := h, items := cs, final := none }) :
    ∀ c ∈ cs, ∀ x ∈ c.lits, x ≠ 0 ∧ -litLimit l ignoreHeader h ≤ x ∧ x ≤ litLimit l ignoreHeader h ∧
      -l.maxDimacs ≤ x ∧ x ≤ l.maxDimacs := by
  intro c hc x hx
  exact ((C03.cnf_parsed_is_wf fmt l ignoreHeader hl bytes fault h cs hp).clauses c hc).2 x hx

/-- **Exactly the declared number of clauses before a clean end** (a declared count of zero means
unspecified; an ignored header is not enforced). -/
theorem cnf_clean_end_count (fmt : Format) (l : LitTy) (ignoreHeader : Bool) (hl : 1 ≤ l.bits ∧ l.bits ≤ 64)
    (bytes : VBytes) (fault : Bool) (hd : Header) (cs : List Clause)
    (hp : parseAll fmt l ignoreHeader (LR.init bytes fault) = { header := some hd, items := cs, final := none }) :
    ignoreHeader = true ∨ hd.clauseCount = 0 ∨ hd.clauseCount = cs.length :=
  (C03.cnf_parsed_is_wf fmt l ignoreHeader hl bytes fault (some hd) cs hp).count hd rfl

/-- **Groups within the declared group count** (GCNF), weights within `u64` (WCNF). -/
theorem gcnf_group_within (l : LitTy) (ignoreHeader : Bool) (hl : 1 ≤ l.bits ∧ l.bits ≤ 64)
    (bytes : VBytes) (fault : Bool) (h : Option Header) (cs : List Clause)
    (hp : parseAll .gcnf l ignoreHeader (LR.init bytes fault) = { header := h, items := cs, final := none }) :
    ∀ c ∈ cs, 0 ≤ c.tag ∧ c.tag < 2 ^ 64 ∧ c.tag ≤ groupLimit ignoreHeader h := by
  intro c hc
  have := ((C03.cnf_parsed_is_wf .gcnf l ignoreHeader hl bytes fault h cs hp).clauses c hc).1
  simp only [TagWF] at this
  exact ⟨this.1, this.2.1, this.2.2 trivial⟩

/-- **The header itself is sane**: the variable count fits the literal type. -/
theorem cnf_header_within (fmt : Format) (l : LitTy) (ignoreHeader : Bool) (hl : 1 ≤ l.bits ∧ l.bits ≤ 64)
    (bytes : VBytes) (fault : Bool) (hd : Header) (cs : List Clause)
    (hp : parseAll fmt l ignoreHeader (LR.init bytes fault) = { header := some hd, items := cs, final := none }) :
    0 ≤ hd.varCount ∧ hd.varCount ≤ l.maxDimacs ∧ 0 ≤ hd.clauseCount ∧ hd.clauseCount < 2 ^ 64 := by
  have := (C03.cnf_parsed_is_wf fmt l ignoreHeader hl bytes fault (some hd) cs hp).header hd rfl
  exact ⟨this.1, this.2.1, this.2.2.1, this.2.2.2.1⟩

/-- Non-vacuity: an accepted document, and a rejected one with a literal beyond the declared count. -/
example :
    (parseAll .cnf ⟨8⟩ false (LR.init "p cnf 3 2\n1 -3 0\n2 0\n".toUTF8.toList false)).final = none ∧
    (parseAll .cnf ⟨8⟩ false (LR.init "p cnf 3 2\n1 -4 0\n2 0\n".toUTF8.toList false)).final = some (.syn 2 3) := by
  decide +kernel

end Flussab.C06
