/-
C09 (BTOR2 part) — lines are delivered without reading past the line that completes them.

`View.peeked` is the look-ahead ghost of the reader: every stream offset below it has been
demanded (`request_byte_at_offset`); by `C09.reads_only_when_demanded` (Props/C09.lean) a reader
pulls data from its source only for demanded offsets.  The theorems bound it at the moment
`next_line` hands out a `Line`.  Exactly what holds:

* a line WITHOUT trailing comment (its last consumed byte is its newline):
      `peeked ≤ pos`
  — nothing at or behind the cursor has been demanded.  (No `∨ sawEnd` alternative is needed: such
  a line is only accepted with its newline, so the end of the input is never what completes it.)
* a line that ENDS IN A COMMENT (a comment line, or a node with trailing comment):
      `peeked ≤ pos + 1`  and the byte under the cursor is that line's `'\n'` — or the input is
      exhausted —
  because `comment_body` looks at the newline to find the end of the comment and leaves the cursor
  ON it (the next call's `skip_whitespace` consumes it).  So the one byte that has been demanded
  and not consumed is still a byte of the line that completes the item: with a source that hands
  out one line per read, no later line has been requested.

In both cases `peeked ≤ pos + 1` ("tight"), which is also the precondition, so the statement
iterates over a whole parse.  These are partial-correctness statements (about calls that return a
line); no hypothesis on the input is needed, not even the size bound of C05.  A keyword token
that does not match may have looked at an arbitrarily long run of letters, a rejected numeral at all
its digits — but then `next_line` fails and nothing is handed out (`Proof/Btor2Lookahead.lean`).
-/
import Flussab.Proof.Btor2Lookahead

namespace Flussab.C09
open Flussab Btor2 PM

/-- The reader is tight before the first call. -/
theorem btor2_initial_tight (b : VBytes) (fault : Bool) : Tight (LR.init b fault) := by
  simp [Tight, LR.init, View.init]

/-- **`next_line` hands out a line without look-ahead beyond that line** (every input). -/
theorem btor2_item_no_lookahead (lr lr' : LR) (l : Line) (h : Tight lr)
    (hr : nextLine.run lr = (.ok (some l), lr')) :
    lr'.v.peeked ≤ lr'.v.pos + 1 ∧
    (l.endsInComment = false → lr'.v.peeked ≤ lr'.v.pos) ∧
    (l.endsInComment = true → lr'.v.rest[0]? = some 10 ∨ lr'.v.rest = []) :=
  (nextLine_la h).of_run.1 (some l) lr' hr l rfl

/-- … and leaves the reader tight for the next call. -/
theorem btor2_item_tight (lr lr' : LR) (l : Line) (h : Tight lr)
    (hr : nextLine.run lr = (.ok (some l), lr')) : Tight lr' :=
  (btor2_item_no_lookahead lr lr' l h hr).1

/-- The states of a whole-document parse at which a line has just been handed out. -/
inductive Btor2Delivered (b : VBytes) (fault : Bool) : Option Line → LR → Prop
  | start : Btor2Delivered b fault none (LR.init b fault)
  | next {prev : Option Line} {lr lr' : LR} {l : Line} :
      Btor2Delivered b fault prev lr → nextLine.run lr = (.ok (some l), lr') →
      Btor2Delivered b fault (some l) lr'

/-- **Whole documents**: at every point of a parse of any input at which a line has just been
handed out, nothing at or behind the cursor has been demanded — except, after a line that ends in a
comment, that line's own newline (or the end of the input has been reached). -/
theorem btor2_document_no_lookahead (b : VBytes) (fault : Bool) (item : Option Line) (lr : LR)
    (h : Btor2Delivered b fault item lr) :
    lr.v.peeked ≤ lr.v.pos + 1 ∧ (∀ l, item = some l →
      (l.endsInComment = false → lr.v.peeked ≤ lr.v.pos) ∧
      (l.endsInComment = true → lr.v.rest[0]? = some 10 ∨ lr.v.rest = [])) := by
  induction h with
  | start => exact ⟨btor2_initial_tight b fault, by simp⟩
  | next _ hr ih =>
    obtain ⟨h1, h2, h3⟩ := btor2_item_no_lookahead _ _ _ ih.1 hr
    refine ⟨h1, ?_⟩
    intro l hl
    simp only [Option.some.injEq] at hl
    subst hl
    exact ⟨h2, h3⟩

/-! ### non-vacuity -/

/-- `(pos, peeked, first unconsumed byte)` after each of the lines returned by up to `n` calls. -/
def btor2LookaheadTrace (b : VBytes) (n : Nat) : List (Nat × Nat × Option UInt8) := go n (LR.init b false)
where
  go : Nat → LR → List (Nat × Nat × Option UInt8)
    | 0, _ => []
    | n + 1, lr =>
      match nextLine.run lr with
      | (.ok (some _), lr') => (lr'.v.pos, lr'.v.peeked, lr'.v.rest[0]?) :: go n lr'
      | _ => []

/-- `"1 sort bitvec 8\n; c\n  2 input 1 x ;y"`: after the sort line the cursor is at offset 16 =
`peeked` (the `;` that starts the next line has not been looked at); after the comment line the
cursor is at 19 ON the newline and `peeked` = 20; the last line ends in a comment without newline:
cursor at 36 = end of input, `peeked` = 37 (the end has been observed). -/
example :
    btor2LookaheadTrace [49, 32, 115, 111, 114, 116, 32, 98, 105, 116, 118, 101, 99, 32, 56, 10,
      59, 32, 99, 10, 32, 32, 50, 32, 105, 110, 112, 117, 116, 32, 49, 32, 120, 32, 59, 121] 4 =
      [(16, 16, some 59), (19, 20, some 10), (36, 37, none)] := by
  decide +kernel

end Flussab.C09
