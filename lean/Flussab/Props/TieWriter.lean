/-
Tie between `/repo/flussab/src/deferred_writer.rs` + `/repo/flussab/src/write/text.rs` and the
hand-written writer model — the statements.  (Proofs: `Proof/TieWriter.lean`.)

`Flussab.Gen.Writer.*` (file `Gen/WriterGen.lean`) and `Flussab.Gen.WriteText.*`
(`Gen/WriteTextGen.lean`) are produced by `tools/gen_core.py` from the Rust source on every check run.
Each theorem below says that a generated function *is* the function of `Model/Writer.lean` that the
property theorems (C11, C14) are about — for every writer state satisfying the capacity invariant
`buf.len() ≤ capacity` (itself preserved by every operation and for every sink, `Writer.op_len`),
every argument, every sink and schedule, panicking sinks included: a sink panic is a `none` of the
external contract `WriterExt.sinkWriteAll`, and that the writer is then left with `panicked = true`
comes out of the translated assignments `self.panicked = true; …; self.panicked = false`.

Unsafe operations (`copy_from_nonoverlapping`, `set_len`, `ptr.add`, `itoap::write_to_ptr`) and
`debug_assert!`s are translated as *checked* operations (`Model/WriterExt.lean`) that are `none` when
violated, so the equations also say: no unsafe block of the writer is entered with its safety
precondition violated, the vector never reallocates, `split_at` is in range, and no debug assertion
fires (the model functions only return `none` when the sink panics).
-/
import Flussab.Proof.TieWriter
import Flussab.Model.WriterGenRun
import Flussab.Proof.WriterOps
import Flussab.Props.C11

namespace Flussab
namespace TieWriter

open TieWriterAux

/-! ### function by function -/

/-- `flush_defer_err`: every state (no invariant needed), every sink. -/
theorem flush_defer_err_tied (w : Writer) : Gen.Writer.flushDeferErr w = w.flushDeferErr :=
  flushDeferErr_eq w

/-- `write_all_defer_err`: fast path (`copy_from_nonoverlapping` + `set_len` inside the capacity)
and cold path. -/
theorem write_all_defer_err_tied (w : Writer) (bs : WBytes) (h : w.buf.length ≤ w.cap) :
    Gen.Writer.writeAllDeferErr bs w = w.writeAllDeferErr bs := writeAllDeferErr_eq w bs h

/-- `write_all_defer_err_cold`, under what its comment assumes ("we bailed out of the fast path"):
if the slice is shorter than the capacity, it does not fit next to the buffered bytes.  (Without
that, `split_at` panics in Rust and `none` comes out of the generated code, while `Writer.writeCold`
is only meaningful when reached from `writeAllDeferErr`.) -/
theorem write_all_defer_err_cold_tied (w : Writer) (bs : WBytes) (h : w.buf.length ≤ w.cap)
    (hc : bs.length < w.cap → w.cap ≤ w.buf.length + bs.length) :
    Gen.Writer.writeAllDeferErrCold bs w = w.writeCold bs := writeCold_eq' w bs h hc

/-- `buf_write_ptr(len)`: non-null (offset `len()` of the allocation) iff `len` bytes of room are
left; the state is untouched. -/
theorem buf_write_ptr_tied (w : Writer) (len : Nat) :
    Gen.Writer.bufWritePtr len w =
      (some (if w.buf.length + len ≤ w.cap then some w.buf.length else none), w) := bufWritePtr_eq w len

/-- `advance_unchecked(len)` under its documented safety contract (room for `len` bytes, and `len`
bytes `spare` written through the pointer before): the bytes become part of the buffer; neither the
`debug_assert!` nor `set_len`'s precondition fails. -/
theorem advance_unchecked_tied (w : Writer) (len : Nat) (spare : WBytes)
    (h : w.buf.length + len ≤ w.cap) (hs : len ≤ spare.length) :
    Gen.Writer.advanceUnchecked len spare w = (some (), { w with buf := w.buf ++ spare.take len }) :=
  advanceUnchecked_eq w len spare h hs

/-- `buf_write_ptr` + writing through the pointer + `advance_unchecked` = the model's `ptrWrite`. -/
theorem ptr_write_tied (w : Writer) (len : Nat) (bs : WBytes) :
    genPtrWrite len bs w = (some (w.ptrWrite len bs).1, (w.ptrWrite len bs).2) := genPtrWrite_eq w len bs

theorem check_io_error_tied (w : Writer) :
    Gen.Writer.checkIoError w =
      (some (if w.ioError then Except.error IoErr.other else Except.ok ()), w.checkIoError.2) :=
  checkIoError_eq w

/-- `<DeferredWriter as Write>::write`: `write_all_defer_err`, then `Ok(buf.len())`. -/
theorem write_tied (w : Writer) (bs : WBytes) (h : w.buf.length ≤ w.cap) :
    Gen.Writer.write bs w = match w.writeAllDeferErr bs with
      | (none, w') => (none, w')
      | (some (), w') => (some (Except.ok bs.length), w') := write_eq w bs h

/-- `<DeferredWriter as Write>::write_all`: `write_all_defer_err`, then `Ok(())`. -/
theorem write_all_tied (w : Writer) (bs : WBytes) (h : w.buf.length ≤ w.cap) :
    Gen.Writer.writeAll bs w = match w.writeAllDeferErr bs with
      | (none, w') => (none, w')
      | (some (), w') => (some (Except.ok ()), w') := writeAll_eq w bs h

/-- `<DeferredWriter as Write>::flush`. -/
theorem flush_tied (w : Writer) :
    Gen.Writer.flush w = match w.flush with
      | (none, w') => (none, w')
      | (some e, w') => (some (if e then Except.error IoErr.other else Except.ok ()), w') := flush_eq w

/-- `<DeferredWriter as Drop>::drop`. -/
theorem drop_tied (w : Writer) : Gen.Writer.drop w = w.drop := drop_eq w

/-- `write::text::ascii_digits_cold::<I>`: `itoap::write` → `Write::write` → `write_all_defer_err`. -/
theorem ascii_digits_cold_tied (w : Writer) (sg : Bool) (bits : Nat) (x : Int) (h : w.buf.length ≤ w.cap) :
    Gen.WriteText.asciiDigitsCold sg bits x w = w.writeAllDeferErr (Writer.intDigits x) :=
  asciiDigitsCold_eq w sg bits x h

/-- `write::text::ascii_digits::<I>` for a value of the type `I` (its text is at most `I::MAX_LEN`
bytes long: `Op.Valid`, `C11.digits_fit`). -/
theorem ascii_digits_tied (w : Writer) (sg : Bool) (bits : Nat) (x : Int) (h : w.buf.length ≤ w.cap)
    (hv : (Writer.Op.digits sg bits x).Valid) :
    Gen.WriteText.asciiDigits sg bits x w = w.asciiDigits sg bits x := asciiDigits_eq w sg bits x h hv

/-- The capacity `from_boxed_dyn_write` asks for (`DEFAULT_CHUNK_SIZE`, read from the source) is the
default capacity of the model. -/
theorem default_cap_tied (s : Sink) : ({ sink := s } : Writer).cap = Gen.Writer.defaultChunkSize := rfl

/-! ### whole histories -/

/-- One call of the API: the generated code and the model agree on result and state. -/
theorem op_tied (w : Writer) (h : w.buf.length ≤ w.cap) (op : Writer.Op) (hv : op.Valid) :
    genRun w op = op.run w := by
  cases op with
  | write bs =>
    simp only [genRun, Writer.Op.run, writeAll_eq w bs h]
    rcases w.writeAllDeferErr bs with ⟨_ | u, w'⟩ <;> rfl
  | digits sg bits x =>
    simp only [genRun, Writer.Op.run, asciiDigits_eq w sg bits x h hv]
    rcases w.asciiDigits sg bits x with ⟨_ | u, w'⟩ <;> rfl
  | ptr len bs =>
    simp only [genRun, Writer.Op.run, genPtrWrite_eq]
  | flush =>
    simp only [genRun, Writer.Op.run, flush_eq]
    rcases w.flush with ⟨_ | e, w'⟩
    · rfl
    · cases e <;> rfl
  | flushDefer =>
    simp only [genRun, Writer.Op.run, flushDeferErr_eq]
    rcases w.flushDeferErr with ⟨_ | u, w'⟩ <;> rfl
  | check =>
    simp only [genRun, Writer.Op.run, checkIoError_eq, Writer.checkIoError]
    cases w.ioError <;> rfl
  | drop =>
    simp only [genRun, Writer.Op.run, drop_eq]
    rcases w.drop with ⟨_ | u, w'⟩ <;> rfl

/-- **Every history of calls** (caught sink panics included, any sink, any schedule) started in a
state satisfying the capacity invariant: the code generated from `deferred_writer.rs` /
`write/text.rs` and the model produce the same results and the same final state.  The theorems
about `Writer.Op.run` histories (C11, C14) therefore speak about the translated source. -/
theorem history_tied (ops : List Writer.Op) (w : Writer) (h : w.buf.length ≤ w.cap)
    (hv : ∀ op ∈ ops, op.Valid) : genRunAll ops w = Writer.runAll ops w := by
  induction ops generalizing w with
  | nil => rfl
  | cons op ops ih =>
    have hvo := hv op (by simp)
    simp only [genRunAll, Writer.runAll, op_tied w h op hvo]
    have hok := (Writer.op_len w op hvo h).1
    rw [ih _ hok (fun o ho => hv o (by simp [ho]))]

/-- `Writer.runAll` is the history runner of C11 (`runOps`) with the results kept. -/
theorem runAll_state (ops : List Writer.Op) (w : Writer) : (Writer.runAll ops w).2 = C11.runOps ops w := by
  induction ops generalizing w with
  | nil => rfl
  | cons op ops ih => simp only [Writer.runAll, C11.runOps]; exact ih _

/-- Non-vacuity: a fresh default writer satisfies the invariant; and on a concrete history with a
short-writing, failing and finally panicking sink the generated code runs to the model's results —
the panic reaches the caller (`none`) with `panicked = true`, so the `drop` that follows does not
touch the sink again. -/
example :
    (({ sink := { sched := [] } } : Writer).buf.length ≤ ({ sink := { sched := [] } } : Writer).cap) ∧
    (let w : Writer := { sink := { sched := [.accept 2, .intr, .fail, .panic] }, cap := 4 }
     let ops : List Writer.Op :=
       [.write [1, 2, 3], .digits true 8 (-128), .ptr 2 [7], .flush, .write [1, 2, 3, 4, 5], .drop]
     w.buf.length ≤ w.cap ∧ (∀ op ∈ ops, op.Valid) ∧
     (genRunAll ops w).1 = [some false, some false, some true, some true, none, some false] ∧
     (genRunAll ops w).2.panicked = true ∧ (genRunAll ops w).2.sink.sunk = [1, 2]) := by
  refine ⟨by decide, by decide, ?_, by decide, by decide, by decide⟩
  intro op hop
  simp only [List.mem_cons, List.not_mem_nil, or_false] at hop
  rcases hop with rfl | rfl | rfl | rfl | rfl | rfl <;> simp [Writer.Op.Valid] <;> decide

end TieWriter
end Flussab
