/-
C04, remaining clause — every item handed out before the error is identical to the item the same
parser returns at that index when the source does not fail.

`r₁ := parseAll … (LR.init b true)` : the source delivers the bytes `b` and then fails.
`r₂ := parseAll … (LR.init (b ++ more) false)` : the fault-free run over any complete input that
extends what was delivered (`more = []` included: the same bytes with a clean end).

* `cnf_fault_prefix`: `r₁.items` is a prefix of `r₂.items`, and a header returned by the failing
  run is the header of the fault-free run (a header that is absent because the fault hit before
  it is not an item).
* `cnf_fault_syntax_same`: if the failing run ends in a syntax error, the fault-free run ends in
  the same syntax error after the same items.  Together with `cnf_fault_never_clean_end`,
  `cnf_fault_syntax_only_before_end` (Props/C04.lean) and C05 (no panic) this is the property's
  "only other admissible result": the failing run ends in an I/O error, or in the very syntax
  error the data has anyway.
* `log_fault_syntax_same`: the same for `parse_log` (which hands out nothing before it ends, so
  there is no prefix statement).

Proof (Proof/Sim.lean, Proof/CnfSim.lean, Proof/CnfPrefix.lean): a reader that has not hit the
end of its data cannot tell `b` from `b ++ more`; every function of the token layer and the
parsers commutes with extending the stream as long as its run ends with `sawEnd = false`; an item
is handed out with `peeked ≤ pos` (C09) — hence `sawEnd = false` — and a syntax error is raised
with `sawEnd = false` (C04).

Hypothesis: `b.length < 2^63` (as in C05), on the delivered bytes only.
-/
import Flussab.Proof.CnfPrefix

namespace Flussab.C04
open Flussab Cnf PM

/-- **Items handed out before the error are the items of the fault-free run** (`cnf` / `wcnf` /
`gcnf`, every literal type, both `ignore_header` settings, every `b` and `more`). -/
theorem cnf_fault_prefix (fmt : Format) (l : LitTy) (ignoreHeader : Bool) (b more : VBytes)
    (hb : b.length < 2 ^ 63) :
    (parseAll fmt l ignoreHeader (LR.init b true)).items <+:
      (parseAll fmt l ignoreHeader (LR.init (b ++ more) false)).items ∧
    (∀ h, (parseAll fmt l ignoreHeader (LR.init b true)).header = some h →
      (parseAll fmt l ignoreHeader (LR.init (b ++ more) false)).header = some h) :=
  ⟨(parseAll_prefix fmt l ignoreHeader b more hb).1, (parseAll_prefix fmt l ignoreHeader b more hb).2.1⟩

/-- **A syntax error of the failing run is the outcome of the fault-free run**, after the same
items. -/
theorem cnf_fault_syntax_same (fmt : Format) (l : LitTy) (ignoreHeader : Bool) (b more : VBytes)
    (hb : b.length < 2 ^ 63) (line col : Nat)
    (h : (parseAll fmt l ignoreHeader (LR.init b true)).final = some (.syn line col)) :
    (parseAll fmt l ignoreHeader (LR.init (b ++ more) false)).final = some (.syn line col) ∧
    (parseAll fmt l ignoreHeader (LR.init (b ++ more) false)).items =
      (parseAll fmt l ignoreHeader (LR.init b true)).items :=
  (parseAll_prefix fmt l ignoreHeader b more hb).2.2 line col h

/-- Per call, from any state of an error-free parse of a failing source (`Inv`, `Ready`, `J` hold
initially and after every returned item): a returned clause is returned, with the same parser
record, by the same call over the longer fault-free stream, in the corresponding state; a syntax
error is the same syntax error. -/
theorem next_clause_fault_same (p : Parser) (b more : VBytes) (lr : LR) (hI : Inv b true lr)
    (hR : Ready lr) (hJ : J lr) :
    (∀ c p' lr1, p.nextClause.run lr = (.ok (some c, p'), lr1) →
      p.nextClause.run (ext more lr) = (.ok (some c, p'), ext more lr1) ∧
      Inv b true lr1 ∧ Ready lr1 ∧ J lr1) ∧
    (∀ line col lr1, p.nextClause.run lr = (.error (.syn line col), lr1) →
      ∃ s, p.nextClause.run (ext more lr) = (.error (.syn line col), s)) := by
  obtain ⟨h1, _, h3, _⟩ := nextClause_left (q := more) p hI hR hJ
  exact ⟨fun c p' lr1 hr => ⟨(h1 c p' lr1 hr).2.2.2, (h1 c p' lr1 hr).1, (h1 c p' lr1 hr).2.1,
    (h1 c p' lr1 hr).2.2.1⟩, h3⟩

/-- The states related by the per-call theorem: the initial ones are. -/
theorem initial_related (b more : VBytes) (hb : b.length < 2 ^ 63) :
    Inv b true (LR.init b true) ∧ Ready (LR.init b true) ∧ J (LR.init b true) ∧
    ext more (LR.init b true) = LR.init (b ++ more) false :=
  ⟨inv_init b true (SizeOK.of_lt hb), Or.inl (by simp [Tight, LR.init, View.init]), J_init b true,
    ext_init b more⟩

/-- **`parse_log`: a syntax error of the failing run is the outcome of the fault-free run.** -/
theorem log_fault_syntax_same (l : LitTy) (ignoreUnknown : Bool) (b more : VBytes)
    (hb : b.length < 2 ^ 63) (line col : Nat) (lr1 : LR)
    (hr : (parseLog l ignoreUnknown).run (LR.init b true) = (.error (.syn line col), lr1)) :
    ∃ s, (parseLog l ignoreUnknown).run (LR.init (b ++ more) false) = (.error (.syn line col), s) :=
  parseLog_syntax_same l ignoreUnknown b more hb line col lr1 hr

/-! ### non-vacuity -/

/-- `"p cnf 2 2\n1 2 0\n-1"` from a failing source: header and first clause are handed out, then
the I/O error; the fault-free run over `… ++ " 0\n"` returns the same header, the same first
clause and one more.  A syntax error in the delivered part (`"1 x 0\n"`) is the outcome of both
runs. -/
example :
    (parseAll .cnf ⟨32⟩ false (LR.init
      [112, 32, 99, 110, 102, 32, 50, 32, 50, 10, 49, 32, 50, 32, 48, 10, 45, 49] true)).items =
        [{ tag := 0, lits := [1, 2] }] ∧
    (parseAll .cnf ⟨32⟩ false (LR.init
      [112, 32, 99, 110, 102, 32, 50, 32, 50, 10, 49, 32, 50, 32, 48, 10, 45, 49] true)).final =
        some .io ∧
    (parseAll .cnf ⟨32⟩ false (LR.init
      [112, 32, 99, 110, 102, 32, 50, 32, 50, 10, 49, 32, 50, 32, 48, 10, 45, 49] true)).header =
        some { varCount := 2, clauseCount := 2 } ∧
    (parseAll .cnf ⟨32⟩ false (LR.init
      [112, 32, 99, 110, 102, 32, 50, 32, 50, 10, 49, 32, 50, 32, 48, 10, 45, 49, 32, 48, 10]
        false)).items = [{ tag := 0, lits := [1, 2] }, { tag := 0, lits := [-1] }] ∧
    (parseAll .cnf ⟨32⟩ false (LR.init [49, 32, 120, 32, 48, 10] true)).final =
      some (.syn 1 3) ∧
    (parseAll .cnf ⟨32⟩ false (LR.init [49, 32, 120, 32, 48, 10, 50, 32, 48, 10] false)).final =
      some (.syn 1 3) := by
  decide +kernel

end Flussab.C04
