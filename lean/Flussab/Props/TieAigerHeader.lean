/-
Tie between `Header::parse::<L>` of `/repo/flussab-aiger/src/ascii.rs` and `binary.rs` and the model
`Aiger.Header.parse` — the statements.  (Proofs: `Proof/TieAigerHeader.lean`.)

The generated functions (`Gen/AigerHeaderAsciiGen.lean`, `Gen/AigerHeaderBinaryGen.lean`, regenerated from the
source on every check run) read the magic word, the five mandatory counts with the limit each is read with
(`(L::MAX_CODE - 1) / 2`; `M`; `M - I`; unlimited; `M - I - L`), the up to four optional counts and the final
newline, and build the `Header` from them field by field.  The theorems say they are the model function that the
header theorems of C06 (`aag_header_sane`, …), C03, C05 and C08 are about.  The two `limit -= count`
subtractions are checked operations on both sides (with different panic-site names); the proof shows, from the
bound `header_field` guarantees for its result, that they never fail, so the equation is unconditional apart
from `1 ≤ L::MAX_CODE` (every literal type has at least one bit), which `(L::MAX_CODE - 1)` needs.
-/
import Flussab.Proof.TieAigerHeader

namespace Flussab
namespace TieAigerHeader

open TieAigerHeaderAux

theorem ascii_header_parse_tied (l : Aiger.LitTy) (hl : 1 ≤ l.maxCode) :
    Gen.AigerHeaderAscii.parse l = Aiger.Header.parse false l := headerAscii_eq l hl

theorem binary_header_parse_tied (l : Aiger.LitTy) (hl : 1 ≤ l.maxCode) :
    Gen.AigerHeaderBinary.parse l = Aiger.Header.parse true l := headerBinary_eq l hl

/-- What `header_field` returns never exceeds the limit it was called with (used for the two
subtractions; also the core of C06's header limits). -/
theorem header_field_within_limit (limit : Nat) (lr : LR) (v : Nat) (s : LR)
    (h : Aiger.headerField limit lr = (.ok v, s)) : v ≤ limit := headerField_le limit lr v s h

/-- Non-vacuity: the hypothesis holds for the 8-bit literal type. -/
example : 1 ≤ (⟨8⟩ : Aiger.LitTy).maxCode := by decide

end TieAigerHeader
end Flussab
