/-
C15 — parser combinators implement exact three-way choice semantics.

Property theorems only.  All are stated for arbitrary value/error types and arbitrary closures.
The second component of each combinator's result is the number of times the closure ran.
-/
import Flussab.Model.Parsed

namespace Flussab.C15
open Flussab Parsed
variable {α β ε ε' : Type}

/-- An alternative parser runs if and only if the previous result was a fallthrough, and then its
result is the result; otherwise the previous result is returned unchanged. -/
theorem or_parse_spec (p : Parsed α ε) (f : Unit → Parsed α ε) :
    ((p.orParse f).2 = 1 ↔ p = .fallthrough) ∧ ((p.orParse f).2 = 0 ↔ p ≠ .fallthrough) ∧
    (p = .fallthrough → (p.orParse f).1 = f ()) ∧ (p ≠ .fallthrough → (p.orParse f).1 = p) := by
  cases p <;> simp [orParse]

theorem or_always_parse_spec (p : Parsed α ε) (f : Unit → Except ε α) :
    ((p.orAlwaysParse f).2 = 1 ↔ p = .fallthrough) ∧ ((p.orAlwaysParse f).2 = 0 ↔ p ≠ .fallthrough) ∧
    (p = .fallthrough → (p.orAlwaysParse f).1 = f ()) ∧
    (∀ v, p = .ok v → (p.orAlwaysParse f).1 = .ok v) ∧
    (∀ e, p = .err e → (p.orAlwaysParse f).1 = .error e) := by
  cases p <;> simp [orAlwaysParse]

/-- `or_give_up` maps fallthrough to the supplied error (built only then). -/
theorem or_give_up_spec (p : Parsed α ε) (mk : Unit → ε) :
    ((p.orGiveUp mk).2 = 1 ↔ p = .fallthrough) ∧
    (p = .fallthrough → (p.orGiveUp mk).1 = .error (mk ())) ∧
    (∀ v, p = .ok v → (p.orGiveUp mk) = (.ok v, 0)) ∧
    (∀ e, p = .err e → (p.orGiveUp mk) = (.error e, 0)) := by
  cases p <;> simp [orGiveUp]

/-- `optional` maps fallthrough to an absent value, never to an error. -/
theorem optional_spec (p : Parsed α ε) :
    (p = .fallthrough → p.optional = .ok none) ∧
    (∀ v, p = .ok v → p.optional = .ok (some v)) ∧
    (∀ e, p = .err e → p.optional = .error e) := by
  cases p <;> simp [Parsed.optional]

theorem matches_spec (p : Parsed α ε) :
    (p = .fallthrough → p.matches = .ok false) ∧
    (∀ v, p = .ok v → p.matches = .ok true) ∧
    (∀ e, p = .err e → p.matches = .error e) := by
  cases p <;> simp [Parsed.matches]

/-- A continuation runs iff the previous result was a success; its failure is committed: the
result is `Res(Err)`, never `Fallthrough`. -/
theorem and_then_spec (p : Parsed α ε) (f : α → Except ε β) :
    ((p.andThen f).2 = 1 ↔ ∃ v, p = .ok v) ∧ ((p.andThen f).2 = 0 ↔ ¬ ∃ v, p = .ok v) ∧
    (∀ v, p = .ok v → (p.andThen f).1 = ofResult (f v)) ∧
    (∀ v e, p = .ok v → f v = .error e → (p.andThen f).1 = .err e) ∧
    (∀ v, p = .ok v → (p.andThen f).1 ≠ .fallthrough) ∧
    (∀ e, p = .err e → (p.andThen f).1 = .err e) ∧
    (p = .fallthrough → (p.andThen f).1 = .fallthrough) := by
  cases p with
  | ok v => cases h : f v <;> simp [andThen, ofResult, h] <;> (intro v1 e hv; subst hv; simp [h])
  | err e => simp [andThen]
  | fallthrough => simp [andThen]

theorem and_also_spec (p : Parsed α ε) (f : α → α × Except ε Unit) :
    ((p.andAlso f).2 = 1 ↔ ∃ v, p = .ok v) ∧
    (∀ v e, p = .ok v → (f v).2 = .error e → (p.andAlso f).1 = .err e) ∧
    (∀ v, p = .ok v → (f v).2 = .ok () → (p.andAlso f).1 = .ok (f v).1) ∧
    (∀ e, p = .err e → (p.andAlso f).1 = .err e) ∧
    (p = .fallthrough → (p.andAlso f).1 = .fallthrough) := by
  cases p with
  | ok v =>
    simp only [andAlso]
    rcases hf : f v with ⟨v', r⟩
    cases r <;> simp_all <;> (intro v1 e hv; subst hv; simp [hf])
  | err e => simp [andAlso]
  | fallthrough => simp [andAlso]

theorem and_do_spec (p : Parsed α ε) (g : α → α) :
    ((p.andDo g).2 = 1 ↔ ∃ v, p = .ok v) ∧
    (∀ v, p = .ok v → (p.andDo g).1 = .ok (g v)) ∧
    (∀ e, p = .err e → (p.andDo g).1 = .err e) ∧
    (p = .fallthrough → (p.andDo g).1 = .fallthrough) := by
  cases p <;> simp [andDo]

/-- Mapping functions touch only the case they name. -/
theorem map_spec (p : Parsed α ε) (g : α → β) :
    ((p.map g).2 = 1 ↔ ∃ v, p = .ok v) ∧
    (∀ v, p = .ok v → (p.map g).1 = .ok (g v)) ∧
    (∀ e, p = .err e → (p.map g).1 = .err e) ∧
    (p = .fallthrough → (p.map g).1 = .fallthrough) := by
  cases p <;> simp [map]

theorem map_err_spec (p : Parsed α ε) (g : ε → ε') :
    ((p.mapErr g).2 = 1 ↔ ∃ e, p = .err e) ∧
    (∀ v, p = .ok v → (p.mapErr g).1 = .ok v) ∧
    (∀ e, p = .err e → (p.mapErr g).1 = .err (g e)) ∧
    (p = .fallthrough → (p.mapErr g).1 = .fallthrough) := by
  cases p <;> simp [mapErr]

theorem err_into_eq_map_err (p : Parsed α ε) (conv : ε → ε') : p.errInto conv = p.mapErr conv := rfl

theorem from_result_spec (r : Except ε α) :
    (∀ v, r = .ok v → ofResult r = .ok v) ∧ (∀ e, r = .error e → ofResult r = .err e) ∧
    ofResult r ≠ .fallthrough := by
  cases r <;> simp [ofResult]

theorem result_err_into_spec (r : Except ε α) (conv : ε → ε') :
    (∀ v, r = .ok v → ResultExt.errInto r conv = (.ok v, 0)) ∧
    (∀ e, r = .error e → ResultExt.errInto r conv = (.error (conv e), 1)) := by
  cases r <;> simp [ResultExt.errInto]

theorem result_and_also_spec (r : Except ε α) (f : α → α × Except ε Unit) :
    ((ResultExt.andAlso r f).2 = 1 ↔ ∃ v, r = .ok v) ∧
    (∀ v e, r = .ok v → (f v).2 = .error e → (ResultExt.andAlso r f).1 = .error e) ∧
    (∀ v, r = .ok v → (f v).2 = .ok () → (ResultExt.andAlso r f).1 = .ok (f v).1) ∧
    (∀ e, r = .error e → (ResultExt.andAlso r f).1 = .error e) := by
  cases r with
  | ok v =>
    simp only [ResultExt.andAlso]
    rcases hf : f v with ⟨v', r⟩
    cases r <;> simp_all <;> (intro v1 e hv; subst hv; simp [hf])
  | error e => simp [ResultExt.andAlso]

theorem result_and_do_spec (r : Except ε α) (g : α → α) :
    ((ResultExt.andDo r g).2 = 1 ↔ ∃ v, r = .ok v) ∧
    (∀ v, r = .ok v → (ResultExt.andDo r g).1 = .ok (g v)) ∧
    (∀ e, r = .error e → (ResultExt.andDo r g).1 = .error e) := by
  cases r <;> simp [ResultExt.andDo]

/-- Non-vacuity: all three cases exist and the combinators distinguish them. -/
example : ((Parsed.fallthrough : Parsed Nat Nat).orParse (fun _ => .ok 3)) = (.ok 3, 1) ∧
    ((Parsed.ok 5 : Parsed Nat Nat).andThen (fun v => (.error (v + 1) : Except Nat Nat))) = (.err 6, 1) := by
  decide

end Flussab.C15
