/-
C01 — parse results do not depend on how the input bytes arrive.

Where the arrival of bytes is visible at all — the reader (L1) and the scanners that look at
`buf_len()` — schedule independence is a theorem: every reader over the same stream, whatever its
read schedule (short reads, `Interrupted`), chunk size and buffer layout, answers every
parser-facing operation exactly like the abstract view (L1'), and the `_multi` scanners return
the same result for every amount of buffered data.  Above that level the format parsers are
*defined* over the view (`PM` = functions of `LR`, whose only reader state is the `View`), so they
are schedule independent by construction; that the Rust parsers really are such functions is
checked by the format engines, which run every generated, mutated and arbitrary input under
six schedules × chunk sizes and compare items, final outcome and line:column with the single
model answer.
-/
import Flussab.Proof.View
import Flussab.Props.C13

namespace Flussab.C01
open Flussab Reader

/-- Two concrete readers of the same abstract view: any schedules, chunk sizes, buffer layouts. -/
def SameView (r₁ r₂ : Reader) : Prop := ∃ v, Rel r₁ v ∧ Rel r₂ v

/-- Readers built from sources that hold the same bytes (pre-buffered + pending) with the same
kind of end, but arbitrary — and different — read schedules and chunk sizes, have the same view. -/
theorem fresh_readers_same_view (s₁ s₂ : Source) (c₁ c₂ : Nat) (hc₁ : 1 ≤ c₁) (hc₂ : 1 ≤ c₂)
    (hbytes : s₁.pre ++ s₁.data = s₂.pre ++ s₂.data) (hfault : s₁.fault = s₂.fault)
    (h₁ : s₁.ended = false ∧ s₁.afterEnd = 0 ∧ s₁.Honest)
    (h₂ : s₂.ended = false ∧ s₂.afterEnd = 0 ∧ s₂.Honest) :
    SameView ((mk' s₁).setChunkSize c₁) ((mk' s₂).setChunkSize c₂) := by
  refine ⟨View.init (s₁.pre ++ s₁.data) s₁.fault, ?_, ?_⟩
  · have r := Rel.init s₁ h₁.1 h₁.2.1 h₁.2.2
    exact { r with ok := ⟨r.ok.inBuf, hc₁, r.ok.errC, r.ok.endC, r.ok.after, r.ok.wf⟩ }
  · have r := Rel.init s₂ h₂.1 h₂.2.1 h₂.2.2
    rw [hbytes, hfault]
    exact { r with ok := ⟨r.ok.inBuf, hc₂, r.ok.errC, r.ok.endC, r.ok.after, r.ok.wf⟩ }

/-- **`request_byte_at_offset` is schedule independent**: same answer, and the readers keep
having the same view (so the statement iterates over any sequence of operations). -/
theorem request_byte_schedule_independent (r₁ r₂ : Reader) (h : SameView r₁ r₂) (k : Nat) :
    (r₁.requestByteAt k).1 = (r₂.requestByteAt k).1 ∧
    SameView (r₁.requestByteAt k).2 (r₂.requestByteAt k).2 := by
  obtain ⟨v, h1, h2⟩ := h
  obtain ⟨a1, b1⟩ := h1.reqAt k
  obtain ⟨a2, b2⟩ := h2.reqAt k
  exact ⟨by rw [a1, a2], ⟨_, b1, b2⟩⟩

/-- **`advance` / `advance_with_buf`** over scanned bytes: neither reader panics, both stay in
the same view; `&buf()[..n]` of scanned bytes is the same slice. -/
theorem advance_schedule_independent (r₁ r₂ : Reader) (v v' : View) (h1 : Rel r₁ v) (h2 : Rel r₂ v)
    (n : Nat) (hv : v.advance n = some v') :
    ∃ r₁' r₂', r₁.advance n = (some (), r₁') ∧ r₂.advance n = (some (), r₂') ∧ SameView r₁' r₂' := by
  obtain ⟨r₁', e1, q1⟩ := h1.advance n hv
  obtain ⟨r₂', e2, q2⟩ := h2.advance n hv
  exact ⟨r₁', r₂', e1, e2, ⟨v', q1, q2⟩⟩

theorem buf_prefix_schedule_independent (r₁ r₂ : Reader) (v : View) (h1 : Rel r₁ v) (h2 : Rel r₂ v)
    (n : Nat) (bs : VBytes) (hv : v.bufPrefix n = some bs) :
    r₁.window.take n = r₂.window.take n := by
  rw [(h1.bufPrefix n bs hv).2, (h2.bufPrefix n bs hv).2]

/-- **The passive observers** (`position`, `mark`, `is_at_end`, `io_error().is_some()`,
`is_complete`) and `check_io_error` agree on readers of the same view. -/
theorem observers_schedule_independent (r₁ r₂ : Reader) (h : SameView r₁ r₂) :
    r₁.position = r₂.position ∧ r₁.mark = r₂.mark ∧ r₁.isAtEnd = r₂.isAtEnd ∧
    r₁.ioError = r₂.ioError ∧ r₁.isComplete = r₂.isComplete ∧
    r₁.checkIoError.1 = r₂.checkIoError.1 ∧ SameView r₁.checkIoError.2 r₂.checkIoError.2 := by
  obtain ⟨v, h1, h2⟩ := h
  obtain ⟨a1, a2, a3, a4, a5⟩ := h1.observers
  obtain ⟨b1, b2, b3, b4, b5⟩ := h2.observers
  obtain ⟨c1, d1⟩ := h1.checkIoError
  obtain ⟨c2, d2⟩ := h2.checkIoError
  exact ⟨by rw [a1, b1], by rw [a2, b2], by rw [a3, b3], by rw [a4, b4], by rw [a5, b5],
    by rw [c1, c2], ⟨_, d1, d2⟩⟩

theorem set_mark_schedule_independent (r₁ r₂ : Reader) (h : SameView r₁ r₂)
    (hp₁ : r₁.position < usizeModulus) (hp₂ : r₂.position < usizeModulus) :
    SameView r₁.setMark r₂.setMark := by
  obtain ⟨v, h1, h2⟩ := h
  exact ⟨_, h1.setMark hp₁, h2.setMark hp₂⟩

/-- **Interrupted reads are invisible**: inserting `Interrupted` events anywhere in a schedule
changes nothing but the read-call count — a corollary: both readers have the same view. -/
theorem interrupted_invisible (s : Source) (extra : List Ev) (hi : ∀ e ∈ extra, e = Ev.intr)
    (h : s.ended = false ∧ s.afterEnd = 0 ∧ s.Honest) :
    SameView (mk' s) (mk' { s with sched := extra ++ s.sched }) := by
  refine ⟨View.init (s.pre ++ s.data) s.fault, Rel.init s h.1 h.2.1 h.2.2, ?_⟩
  exact Rel.init { s with sched := extra ++ s.sched } h.1 h.2.1 (by
    intro x hx
    simp only [List.mem_append] at hx
    rcases hx with hx | hx
    · have := hi _ hx; cases this
    · exact h.2.2 x hx)

/-- **The amount of buffered data does not matter to the optimised scanners** (C13): for every
`bl ≤` stream length the `_multi` variants return what the simple ones return. -/
theorem multi_scanners_buffer_independent (t : IntTy) (hb : 1 ≤ t.bits) (v : View) (off bl₁ bl₂ : Nat)
    (h₁ : bl₁ ≤ v.rest.length) (h₂ : bl₂ ≤ v.rest.length) :
    (Text.asciiDigitsMulti t v off bl₁).1 = (Text.asciiDigitsMulti t v off bl₂).1 ∧
    (Text.signedAsciiDigitsMulti t v off bl₁).1 = (Text.signedAsciiDigitsMulti t v off bl₂).1 := by
  rw [C13.multi_eq_simple t hb v off bl₁ h₁, C13.multi_eq_simple t hb v off bl₂ h₂,
    C13.signed_multi_eq_simple t hb v off bl₁ h₁, C13.signed_multi_eq_simple t hb v off bl₂ h₂]
  exact ⟨rfl, rfl⟩

/-- Non-vacuity: a one-shot source and a one-byte-per-read source with interrupts, chunk sizes
16384 and 1, are readers of the same view. -/
example :
    let s₁ : Source := { data := [49, 32, 48, 10], fault := false, sched := [] }
    let s₂ : Source := { data := [49, 32, 48, 10], fault := false, sched := [.give 1, .intr, .give 1, .give 1, .give 1] }
    SameView ((mk' s₁).setChunkSize 16384) ((mk' s₂).setChunkSize 1) := by
  apply fresh_readers_same_view <;> simp [Source.Honest]

end Flussab.C01
