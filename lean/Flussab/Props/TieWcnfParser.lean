/-
Tie between the streaming parser of `/repo/flussab-cnf/src/wcnf.rs` (`impl<'a, L: Dimacs> Parser<'a, L>`) and the
hand-written model `Model/Cnf.lean` with format `.wcnf` — the statements.  (Proofs: `Proof/TieWcnfParser.lean`.)

`Flussab.Gen.WcnfParser.*` (file `Gen/WcnfParserGen.lean`) is produced by `tools/gen_core.py`
(`tools/unit_wcnfparser.py`, a subclass of the plain-CNF unit) from the Rust source on every check run: `new`,
`parse_header`, `header`, `next_clause`.  As for plain CNF (`Props/TieCnfParser.lean`) the generated code acts on
the pair (parser fields `Cnf.ParserS` — the WCNF struct has the same fields as the CNF one —, reader `LR`) in the
monad `PPM = StateT Cnf.ParserS PM`; the model's functions take and return the record `Cnf.Parser` explicitly.
Calls into token.rs are the token models of `Model/CnfToken.lean` (tied to token.rs by `Props/TieCnfToken.lean`,
including `uint_count`, `non_terminating_linebreaks`, `clause_lits`; `unexpected` by correspondence runs), the
`Parsed` combinators are the contracts of `Model/CnfParserExt.lean`, `unexpected_statement` (chooses a message) is
`Cnf.unexpected`.  `Header { var_count, clause_count, top_weight }` is the model's `Cnf.Header` with
`extra = top_weight`.  `uint_count::<u64>` (clause weight, top weight) is `Cnf.uintCount Cnf.u64Ty`.

Correspondence of the records: `ofModel p hard buf` (of `Props/TieCnfParser.lean`) is the generated record with the
model's values and the two fields the model lacks (`lit_limit_is_hard` selects a message only, `lit_buf` is returned
by the model); the model's constants `fmt`, `lit`, `groupLimit` have no Rust field.  Every generated record is of
this form (`ofModel_surjective`).  A thrown `ParseError` leaves only the reader state on both sides.

* `parse_header_tied`: for every state, the generated `parse_header` leaves the parser fields alone and acts on
  the reader exactly like `Cnf.parseHeader .wcnf l`.
* `new_tied`: for every initial record (the struct literal overwrites it) and reader state, `Parser::new` returns
  and leaves `ofModel p hard []` where `p` is the model's `Cnf.Parser.new .wcnf l ignore_header` and
  `hard = hardAfterNew ..` (false iff a non-zero header variable count was used).  Hypothesis `l.bits ≤ 64`
  (every `Dimacs` type is at most 64 bits wide): `header.var_count as isize` is translated as the wrapping cast;
  it is the identity because `var_count::<L>` returns at most `L::MAX_DIMACS ≤ isize::MAX`.
* `next_clause_tied`: for every model record `p` of WCNF (`p.fmt = .wcnf`; `L` is `p.lit`), every `hard`, `buf`
  and reader state, the generated `next_clause` on `ofModel p hard buf` returns `(weight, literals)` =
  `(c.tag, c.lits)` of the clause `c` the model returns (`None` for `None`) and leaves `ofModel p' hard lits`
  (`lits = []` for `None`: the buffer was cleared) where `p'` is the model's new record.  No hypothesis on fuel:
  the loops' fuel is never used up.  (`input = &mut self.reader;` inside the loop re-borrows the reader: both
  `input` and `self.reader` are the reader state.)
* `header_tied`: the accessor.
Conventions as in §11.5 of DESIGN.md: `usize` addition (`clause_count += 1`) is unchecked.
-/
import Flussab.Proof.TieWcnfParser

namespace Flussab
namespace TieWcnfParser

open CnfParserExt

export TieCnfParserAux (ofModel hardAfterNew litsOf)
export TieWcnfParserAux (outOf)

/-- Every generated parser record corresponds to a model record. -/
theorem ofModel_surjective (l : Cnf.LitTy) (s : Cnf.ParserS) :
    ∃ p : Cnf.Parser, p.fmt = .wcnf ∧ p.lit = l ∧ ofModel p s.litLimitIsHard s.litBuf = s :=
  ⟨{ fmt := .wcnf, lit := l, clauseCount := s.clauseCount, clauseLimit := s.clauseLimit,
     clauseLimitActive := s.clauseLimitActive, litLimit := s.litLimit, header := s.header }, rfl, rfl, rfl⟩

theorem parse_header_tied (l : Cnf.LitTy) :
    Gen.WcnfParser.parseHeader l = tok (Cnf.parseHeader .wcnf l) := TieWcnfParserAux.parseHeader_eq l

/-- The same, run on a parser record. -/
theorem parse_header_run (l : Cnf.LitTy) (s : Cnf.ParserS) :
    (Gen.WcnfParser.parseHeader l).run s = (Cnf.parseHeader .wcnf l >>= fun h => pure (h, s)) := by
  rw [TieWcnfParserAux.parseHeader_eq]; rfl

theorem new_tied (l : Cnf.LitTy) (hl : l.bits ≤ 64) (cfg : Cnf.Config) (s0 : Cnf.ParserS) :
    (Gen.WcnfParser.new l cfg).run s0 =
      (Cnf.Parser.new .wcnf l cfg.ignoreHeader >>= fun p =>
        pure (ofModel p (hardAfterNew cfg.ignoreHeader p) [], ofModel p (hardAfterNew cfg.ignoreHeader p) [])) :=
  TieWcnfParserAux.new_eq l hl cfg s0

theorem header_tied (s : Cnf.ParserS) : Gen.WcnfParser.header.run s = pure (s.header, s) := rfl

/-- `outOf c = (c.tag, c.lits)`: the weight and the literals. -/
theorem next_clause_tied (p : Cnf.Parser) (hfmt : p.fmt = .wcnf) (hard : Bool) (buf : List Int) :
    (Gen.WcnfParser.nextClause p.lit).run (ofModel p hard buf) =
      (Cnf.Parser.nextClause p >>= fun r => pure (r.1.map outOf, ofModel r.2 hard (litsOf r.1))) :=
  TieWcnfParserAux.nextClause_eq p hfmt hard buf

end TieWcnfParser
end Flussab
