/-
Tie between `/repo/flussab-cnf/src/token.rs` and the hand-written DIMACS token model — the statements.
(Proofs: `Proof/TieCnfToken.lean`.)

`Flussab.Gen.CnfToken.*` (file `Gen/CnfTokenGen.lean`) is produced by `tools/gen_core.py` from the Rust
source on every check run.  Each theorem says that a generated token function *is* (as a function of
the parser state: same result, same cursor, same line bookkeeping, same look-ahead ghost, same panics —
none) the function of `Model/CnfToken.lean` that the DIMACS theorems of C03–C09 are about.  Calls into
the core crate are mapped to the models of those functions, which are tied to their own source by
`Props/TieText.lean` and `Props/TieReader.lean`.

Not translated (closures and `Parsed` combinators; listed with reasons in `tools/unit_cnftoken.py`):
`var_count`, `uint_count`, `clause_group`, `clause_lits`, `non_terminating_linebreaks`,
`interactive_end_of_line`, `unexpected`, `exceeds_var_count` — these stay tied by correspondence runs.
-/
import Flussab.Proof.TieCnfToken

namespace Flussab
namespace TieCnfToken

open TieCnfTokenAux

theorem is_end_of_word_tied (off : Nat) : Gen.CnfToken.isEndOfWord off = Cnf.isEndOfWord off := isEndOfWord_eq off
theorem word_tied (pat : VBytes) : Gen.CnfToken.wordTok pat = Cnf.word pat := wordTok_eq pat
theorem fixed_tied (pat : VBytes) : Gen.CnfToken.fixedTok pat = Cnf.fixed pat := fixedTok_eq pat
theorem uint_tied (t : IntTy) : Gen.CnfToken.uint t = Cnf.uint t := uint_eq t
theorem int_tied (t : IntTy) : Gen.CnfToken.int t = Cnf.int t := int_eq t
theorem braced_uint_tied (t : IntTy) : Gen.CnfToken.bracedUint t = Cnf.bracedUint t := bracedUint_eq t
theorem comment_tied : Gen.CnfToken.comment = Cnf.comment := comment_eq
theorem interactive_strict_comment_tied : Gen.CnfToken.interactiveStrictComment = Cnf.interactiveStrictComment :=
  interactiveStrictComment_eq
theorem interactive_skip_line_tied : Gen.CnfToken.interactiveSkipLine = Cnf.interactiveSkipLine :=
  interactiveSkipLine_eq
theorem newline_tied : Gen.CnfToken.newlineTok = Cnf.newline := newlineTok_eq
theorem interactive_newline_tied : Gen.CnfToken.interactiveNewline = Cnf.interactiveNewline :=
  interactiveNewline_eq
theorem eof_tied : Gen.CnfToken.eof = Cnf.eof := eof_eq
theorem skip_whitespace_tied : Gen.CnfToken.skipWhitespace = Cnf.skipWhitespace := skipWhitespace_eq

/-- Non-vacuity: the generated `int` token on `"-7 x"` for `i8`. -/
example : (match (Gen.CnfToken.int ⟨true, 8⟩ (LR.init [45, 55, 32, 120] false)).1 with
    | .ok (some (some x)) => x == -7
    | _ => false) = true := by
  decide

end TieCnfToken
end Flussab
