/-
Tie between `/repo/flussab-cnf/src/token.rs` and the hand-written DIMACS token model — the statements.
(Proofs: `Proof/TieCnfToken.lean`.)

`Flussab.Gen.CnfToken.*` (file `Gen/CnfTokenGen.lean`) is produced by `tools/gen_core.py` from the Rust
source on every check run.  Each theorem says that a generated token function *is* (as a function of
the parser state: same result, same cursor, same line bookkeeping, same look-ahead ghost, same panics —
none) the function of `Model/CnfToken.lean` that the DIMACS theorems of C03–C09 are about.  Calls into
the core crate are mapped to the models of those functions, which are tied to their own source by
`Props/TieText.lean` and `Props/TieReader.lean`.

Functions built from closures and `flussab::Parsed` combinators (`interactive_end_of_line`, `var_count`,
`uint_count`, `clause_group`, `non_terminating_linebreaks`): the combinators are the hand-written contracts
of `Model/CnfTokenExt.lean` (`or_parse`, `or_give_up`, `map_err`, `and_also` of flussab/src/parser.rs, applied
to the value of the receiver and the translated closure body); a `ParseError` is the thrown outcome, `?` /
`Ok` / `Err` are the identity on it, messages (`format!`) are not modelled.  The generic number tokens are
called at the instance rustc infers (`usize` in `var_count` / `clause_group`, `T` in `uint_count::<T>`);
`L: Dimacs` is the parameter `(l : Cnf.LitTy)`, `L::MAX_DIMACS as usize` is
`CnfTokenExt.isizeAsUsize l.maxDimacs` (= `l.maxDimacs`: it is not negative).  Parameters that only select
a message (`what`, `hard_limit`) are parameters of the generated function and absent from the model.
`non_terminating_linebreaks_tied` holds for *every* state although the generated loop and the model's
`skipLinesLoop` end differently when the fuel `rest.length + 1` runs out: it never does, since every
iteration that continues has consumed at least one byte.

Not translated (listed with reasons in `tools/unit_cnftoken.py`): `unexpected`, `exceeds_var_count` (message
formatting; calls of them are the models `Cnf.unexpected` / `Cnf.exceedsVarCount`) — these stay tied by
correspondence runs.  `clause_lits` is translated after a documented normalisation of its out-parameter
(`normalise_clause_lits`).
-/
import Flussab.Proof.TieCnfToken

namespace Flussab
namespace TieCnfToken

open TieCnfTokenAux

theorem is_end_of_word_tied (off : Nat) : Gen.CnfToken.isEndOfWord off = Cnf.isEndOfWord off := isEndOfWord_eq off
theorem word_tied (pat : VBytes) : Gen.CnfToken.wordTok pat = Cnf.word pat := wordTok_eq pat
theorem fixed_tied (pat : VBytes) : Gen.CnfToken.fixedTok pat = Cnf.fixed pat := fixedTok_eq pat
theorem uint_tied (t : IntTy) : Gen.CnfToken.uint t = Cnf.uint t := uint_eq t
theorem int_tied (t : IntTy) : Gen.CnfToken.int t = Cnf.int t := int_eq t
theorem braced_uint_tied (t : IntTy) : Gen.CnfToken.bracedUint t = Cnf.bracedUint t := bracedUint_eq t
theorem comment_tied : Gen.CnfToken.comment = Cnf.comment := comment_eq
theorem interactive_strict_comment_tied : Gen.CnfToken.interactiveStrictComment = Cnf.interactiveStrictComment :=
  interactiveStrictComment_eq
theorem interactive_skip_line_tied : Gen.CnfToken.interactiveSkipLine = Cnf.interactiveSkipLine :=
  interactiveSkipLine_eq
theorem newline_tied : Gen.CnfToken.newlineTok = Cnf.newline := newlineTok_eq
theorem interactive_newline_tied : Gen.CnfToken.interactiveNewline = Cnf.interactiveNewline :=
  interactiveNewline_eq
theorem eof_tied : Gen.CnfToken.eof = Cnf.eof := eof_eq
theorem skip_whitespace_tied : Gen.CnfToken.skipWhitespace = Cnf.skipWhitespace := skipWhitespace_eq

theorem interactive_end_of_line_tied : Gen.CnfToken.interactiveEndOfLine = Cnf.interactiveEndOfLine :=
  interactiveEndOfLine_eq
theorem var_count_tied (l : Cnf.LitTy) : Gen.CnfToken.varCount l = Cnf.varCount l := varCount_eq l
theorem uint_count_tied (t : IntTy) (what : Unit) : Gen.CnfToken.uintCount t what = Cnf.uintCount t :=
  uintCount_eq t what
theorem clause_group_tied (limit : Nat) (hardLimit : Bool) :
    Gen.CnfToken.clauseGroup limit hardLimit = Cnf.clauseGroup (limit : Int) := clauseGroup_eq limit hardLimit
theorem non_terminating_linebreaks_tied : Gen.CnfToken.nonTerminatingLinebreaks = Cnf.nonTerminatingLinebreaks :=
  nonTerminatingLinebreaks_eq

/-- Non-vacuity: the generated `int` token on `"-7 x"` for `i8`. -/
example : (match (Gen.CnfToken.int ⟨true, 8⟩ (LR.init [45, 55, 32, 120] false)).1 with
    | .ok (some (some x)) => x == -7
    | _ => false) = true := by
  decide

/-- Non-vacuity: the generated `var_count::<i8>` on `"128 "` is the syntax error at the mark (line 1, column 1). -/
example : (match (Gen.CnfToken.varCount ⟨8⟩ (LR.init [49, 50, 56, 32] false)).1 with
    | .error (.syn l c) => l == 1 && c == 1
    | _ => false) = true := by
  decide

/-- `clause_lits::<L>`: the zero-terminated literal list with its range checks, the `set_mark` calls that
place overflow / range errors on the offending numeral, and the line-break handling inside a clause.  The Rust
function fills the out-parameter `lits`; the generated function returns it (`tools/unit_cnftoken.py`,
`normalise_clause_lits`).  Unconditional: the generated loop runs with the model's fuel and the model's
out-of-fuel value, so no progress argument is needed. -/
theorem clause_lits_tied (l : Cnf.LitTy) (limit : Int) (hard : Bool) :
    Gen.CnfToken.clauseLits l limit hard = Cnf.clauseLits l limit := clauseLits_eq l limit hard

/-- Non-vacuity: the generated `non_terminating_linebreaks` on `"\n1"` (kept tiny: kernel evaluation of the
fuelled loop is expensive). -/
example : (match (Gen.CnfToken.nonTerminatingLinebreaks (LR.init [10, 49] false)).1 with
    | .ok b => b
    | _ => false) = true := by
  decide

end TieCnfToken
end Flussab
