/-
C06 for the AIGER formats — accepted input means what it says.

Proved here, for the models of the ASCII (`aag`) and binary (`aig`) parsers of
`Model/Aiger.lean` (streaming API and whole-file `parse()`), for every literal type and from
every reader state:
* `aig_varint_exact` — a returned varint is the value of exactly the 1–10 bytes consumed;
* `aag_header_sane` / `aig_header_sane` — `2M+1 ≤ MAX_CODE`, `I+L+A ≤ M`;
* `aag_*_within`, `aig_*_within` — every literal a section reader hands out is `≤ 2M+1`, defining
  ones are even and `≥ 2`; binary and-gate inputs are ordered (neither delta exceeded its base);
* `aiger_section_exhausted`, `aag_parse_sizes`, `aig_parse_sizes` — a section never yields more
  items than declared and `parse()` returns exactly the declared number in each of the nine
  sections;
* `aiger_symbol_index_within` — a symbol's index is below the size of its own section (F3).

* `aiger_justice_sizes` — the distribution loop of `parse()` gives each justice property exactly
  its declared number of literals.

* `aiger_uint_exact` — a decimal token denotes the number written: whenever `uint` returns `v` the
  bytes it consumed are the canonical decimal text of `v` (digits only, no leading zero) and
  `v < 2^64` (C13 `digits_exact` composed with the leading-zero rule and the uniqueness of
  canonical decimal text).

Nothing of C06-AIGER remains `_full`.
-/
import Flussab.Proof.AigerParse
import Flussab.Proof.AigerVarint
import Flussab.Proof.AigerJustice
import Flussab.Proof.AigerUint

namespace Flussab.C06
open Flussab Flussab.Aiger PM

/-- Continuation bit on all bytes but the last, 7 payload bits each, least significant group
first: the value of a binary AIGER varint. -/
theorem aig_varint_exact (lr lr' : LR) (n : Nat) (h : binaryUint.run lr = (.ok n, lr')) :
    ∃ bs rest, lr.v.rest = bs ++ rest ∧ 1 ≤ bs.length ∧ bs.length ≤ 10 ∧ Shape bs ∧
      n = leValue bs ∧ n < 2 ^ 64 ∧ lr'.v.rest = rest ∧ lr'.v.pos = lr.v.pos + bs.length ∧
      lr'.line = lr.line ∧ lr'.lineStart = lr.lineStart ∧ lr'.v.mark = lr.v.mark :=
  binaryUint_exact lr lr' n h

theorem aiger_header_sane (bin : Bool) (l : LitTy) (hl : 1 ≤ l.maxCode) (lr lr' : LR) (p : Parser)
    (h : (Parser.new bin l).run lr = (.ok p, lr')) :
    2 * p.header.maxVarIndex + 1 ≤ l.maxCode ∧
    p.header.inputCount + p.header.latchCount + p.header.andGateCount ≤ p.header.maxVarIndex ∧
    p.maxLit = 2 * p.header.maxVarIndex + 1 ∧ p.maxLit ≤ p.lit.maxCode := by
  have ok := Parser.new_post bin l lr p lr' h
  have := maxLit_le_maxCode ok.sane hl
  exact ⟨this, ok.sane.2, ok.maxLit, by rw [ok.maxLit, ok.lit]; exact this⟩

/-- `aag_header_sane`: an accepted ASCII header has `2M+1 ≤ MAX_CODE` and `I+L+A ≤ M`. -/
theorem aag_header_sane (l : LitTy) (hl : 1 ≤ l.maxCode) (lr lr' : LR) (p : Parser)
    (h : (Parser.new false l).run lr = (.ok p, lr')) :
    2 * p.header.maxVarIndex + 1 ≤ l.maxCode ∧
    p.header.inputCount + p.header.latchCount + p.header.andGateCount ≤ p.header.maxVarIndex :=
  let r := aiger_header_sane false l hl lr lr' p h; ⟨r.1, r.2.1⟩

/-- `aig_header_sane`: the same for the binary header. -/
theorem aig_header_sane (l : LitTy) (hl : 1 ≤ l.maxCode) (lr lr' : LR) (p : Parser)
    (h : (Parser.new true l).run lr = (.ok p, lr')) :
    2 * p.header.maxVarIndex + 1 ≤ l.maxCode ∧
    p.header.inputCount + p.header.latchCount + p.header.andGateCount ≤ p.header.maxVarIndex :=
  let r := aiger_header_sane true l hl lr lr' p h; ⟨r.1, r.2.1⟩

/-- `aiger_lit_within` for every literal section (`next_input` with `assigning = true`;
`next_output`, `next_bad_state_property`, `next_invariant_constraint`,
`next_justice_property_local_fairness_constraint`, `next_fairness_constraint` with `false`), both
formats: a returned literal is `≤ 2M+1`; a defining one is even and `≥ 2`. -/
theorem aiger_lit_within (assigning : Bool) (s s' : St) (lr lr' : LR) (x : Nat)
    (hm : s.p.maxLit ≤ s.p.lit.maxCode)
    (h : (nextLit assigning s).run lr = (.ok (some x, s'), lr')) :
    x ≤ s.p.maxLit ∧ (assigning = true → x % 2 = 0 ∧ 2 ≤ x) := by
  have := nextLit_spec assigning s lr _ lr' h
  exact this.1.value hm

/-- `aiger_lit_within` for an ASCII latch line. -/
theorem aag_latch_within (s s' : St) (lr lr' : LR) (x : Latch) (hm : s.p.maxLit ≤ s.p.lit.maxCode)
    (h : (nextLatchAscii s).run lr = (.ok (some x, s'), lr')) :
    x.state ≤ s.p.maxLit ∧ x.state % 2 = 0 ∧ 2 ≤ x.state ∧ x.next ≤ s.p.maxLit := by
  have := (nextLatchAscii_spec s lr _ lr' h).1
  have h1 := this.1.value hm
  exact ⟨h1.1, (h1.2 rfl).1, (h1.2 rfl).2, (this.2.value hm).1⟩

/-- `aiger_lit_within` for an ASCII and-gate line. -/
theorem aag_gate_within (s s' : St) (lr lr' : LR) (g : AndGate) (hm : s.p.maxLit ≤ s.p.lit.maxCode)
    (h : (nextAndGateAscii s).run lr = (.ok (some g, s'), lr')) :
    g.out ≤ s.p.maxLit ∧ g.out % 2 = 0 ∧ 2 ≤ g.out ∧ g.in0 ≤ s.p.maxLit ∧ g.in1 ≤ s.p.maxLit := by
  have := (nextAndGateAscii_spec s lr _ lr' h).1
  have h1 := this.1.value hm
  exact ⟨h1.1, (h1.2 rfl).1, (h1.2 rfl).2, (this.2.1.value hm).1, (this.2.2.value hm).1⟩

/-- `aiger_lit_within` for a binary latch line. -/
theorem aig_latch_within (s s' : St) (lr lr' : LR) (x : OLatch) (hm : s.p.maxLit ≤ s.p.lit.maxCode)
    (h : (nextLatchBin s).run lr = (.ok (some x, s'), lr')) : x.next ≤ s.p.maxLit :=
  ((nextLatchBin_spec s lr _ lr' h).1.value hm).1

/-- `aig_delta_le_code`: the two inputs of a binary and gate are the casts of codes `c1 ≤ c0`
(each delta was at most what it was subtracted from). -/
theorem aig_delta_le_code (s s' : St) (lr lr' : LR) (g : OGate)
    (h : (nextAndGateBin s).run lr = (.ok (some g, s'), lr')) :
    ∃ c0 c1, g.in0 = s.p.lit.fromCode c0 ∧ g.in1 = s.p.lit.fromCode c1 ∧ c1 ≤ c0 :=
  (nextAndGateBin_spec s lr _ lr' h).1

/-- No `(count+1)`-th item: an exhausted counted section returns `None` without touching the
input. -/
theorem aiger_section_exhausted (assigning : Bool) (s : St) (lr : LR) (h : s.left = 0) :
    (nextLit assigning s).run lr = (.ok (none, s), lr) := by
  unfold nextLit
  rw [h]
  rfl

/-- A drained section of the streaming API has exactly as many items as its counter said. -/
theorem aiger_section_count {α : Type} {P : Nat → LitTy → α → Prop} {w : α → Nat}
    {next : St → PM (Option α × St)} (hstep : StepSpec P w next) (s s' : St) (lr lr' : LR)
    (xs : List α) (h : (whileSome next (s.left + 1) s []).run lr = (.ok (xs, s'), lr')) :
    xs.length = s.left ∧ s'.left = 0 := by
  obtain ⟨ys, hy, hd⟩ := whileSome_spec hstep _ s [] lr _ lr' h
  simp only [List.reverse_nil, List.nil_append] at hy
  subst hy
  exact ⟨hd.length, hd.left⟩

/-- `aiger_section_sizes` + `aiger_lit_within` for `ascii::Parser::parse`: the returned `Aig` has
exactly the declared number of entries in each section, satisfies the header limits, and all its
literals are within `2M+1` (defining ones even, `≥ 2`). -/
theorem aag_parse_sizes (l : LitTy) (hl : 1 ≤ l.maxCode) (lr lr' : LR) (a : Aig)
    (h : (parseAag l).run lr = (.ok a, lr')) :
    ∃ p lr1, (Parser.new false l).run lr = (.ok p, lr1) ∧ AigOk p a ∧
      2 * a.maxVarIndex + 1 ≤ l.maxCode ∧
      a.inputs.length + a.latches.length + a.gates.length ≤ a.maxVarIndex ∧
      (∀ x ∈ a.inputs, x ≤ 2 * a.maxVarIndex + 1 ∧ x % 2 = 0 ∧ 2 ≤ x) ∧
      (∀ x ∈ a.latches, x.state ≤ 2 * a.maxVarIndex + 1 ∧ x.state % 2 = 0 ∧ 2 ≤ x.state ∧
        x.next ≤ 2 * a.maxVarIndex + 1) ∧
      (∀ x ∈ a.outputs ++ a.bad ++ a.constraints ++ a.justice.flatten ++ a.fairness,
        x ≤ 2 * a.maxVarIndex + 1) ∧
      (∀ g ∈ a.gates, g.out ≤ 2 * a.maxVarIndex + 1 ∧ g.out % 2 = 0 ∧ 2 ≤ g.out ∧
        g.in0 ≤ 2 * a.maxVarIndex + 1 ∧ g.in1 ≤ 2 * a.maxVarIndex + 1) := by
  unfold parseAag at h
  rw [Aiger.run_bind] at h
  rcases hp : (Parser.new false l).run lr with ⟨e | p, lr1⟩
  · rw [hp] at h; cases h
  · rw [hp] at h
    have ok := parseAscii_post p lr1 a lr' h
    obtain ⟨s1, s2, s3, s4⟩ := aiger_header_sane false l hl lr lr1 p hp
    refine ⟨p, lr1, rfl, ok, ?_, ?_, ?_, ?_, ?_, ?_⟩
    · rw [ok.maxVarIndex]; exact s1
    · rw [ok.maxVarIndex, ok.inputs, ok.latches, ok.gates]; exact s2
    · intro x hx
      have := (ok.inputsOk x hx).value s4
      rw [ok.maxVarIndex, ← s3]
      exact ⟨this.1, (this.2 rfl).1, (this.2 rfl).2⟩
    · intro x hx
      have := ok.latchesOk x hx
      have h1 := this.1.value s4
      rw [ok.maxVarIndex, ← s3]
      exact ⟨h1.1, (h1.2 rfl).1, (h1.2 rfl).2, (this.2.value s4).1⟩
    · intro x hx
      rw [ok.maxVarIndex, ← s3]
      simp only [List.mem_append, List.mem_flatten] at hx
      rcases hx with (((hx | hx) | hx) | ⟨j, hj, hx⟩) | hx
      · exact ((ok.outputsOk x hx).value s4).1
      · exact ((ok.badOk x hx).value s4).1
      · exact ((ok.constraintsOk x hx).value s4).1
      · exact ((ok.justiceOk j hj x hx).value s4).1
      · exact ((ok.fairnessOk x hx).value s4).1
    · intro g hg
      have := ok.gatesOk g hg
      have h1 := this.1.value s4
      rw [ok.maxVarIndex, ← s3]
      exact ⟨h1.1, (h1.2 rfl).1, (h1.2 rfl).2, (this.2.1.value s4).1, (this.2.2.value s4).1⟩

/-- The same for `binary::Parser::parse`. -/
theorem aig_parse_sizes (l : LitTy) (hl : 1 ≤ l.maxCode) (lr lr' : LR) (a : OrderedAig)
    (h : (parseAig l).run lr = (.ok a, lr')) :
    ∃ p lr1, (Parser.new true l).run lr = (.ok p, lr1) ∧ OrderedOk p a ∧
      2 * a.maxVarIndex + 1 ≤ l.maxCode ∧
      a.inputCount + a.latches.length + a.gates.length ≤ a.maxVarIndex ∧
      (∀ x ∈ a.latches, x.next ≤ 2 * a.maxVarIndex + 1) ∧
      (∀ x ∈ a.outputs ++ a.bad ++ a.constraints ++ a.justice.flatten ++ a.fairness,
        x ≤ 2 * a.maxVarIndex + 1) := by
  unfold parseAig at h
  rw [Aiger.run_bind] at h
  rcases hp : (Parser.new true l).run lr with ⟨e | p, lr1⟩
  · rw [hp] at h; cases h
  · rw [hp] at h
    have ok := parseBinary_post p lr1 a lr' h
    obtain ⟨s1, s2, s3, s4⟩ := aiger_header_sane true l hl lr lr1 p hp
    refine ⟨p, lr1, rfl, ok, ?_, ?_, ?_, ?_⟩
    · rw [ok.maxVarIndex]; exact s1
    · rw [ok.maxVarIndex, ok.inputCount, ok.latches, ok.gates]; exact s2
    · intro x hx
      rw [ok.maxVarIndex, ← s3]
      exact ((ok.latchesOk x hx).value s4).1
    · intro x hx
      rw [ok.maxVarIndex, ← s3]
      simp only [List.mem_append, List.mem_flatten] at hx
      rcases hx with (((hx | hx) | hx) | ⟨j, hj, hx⟩) | hx
      · exact ((ok.outputsOk x hx).value s4).1
      · exact ((ok.badOk x hx).value s4).1
      · exact ((ok.constraintsOk x hx).value s4).1
      · exact ((ok.justiceOk j hj x hx).value s4).1
      · exact ((ok.fairnessOk x hx).value s4).1

/-- `symbol_index_within` (the repaired F3): the index of a returned symbol is below the number of
entries of its own section, for all seven kinds, both formats. -/
theorem aiger_symbol_index_within (p : Parser) (lr lr' : LR) (s : Symbol)
    (h : (nextSymbol p).run lr = (.ok (some s), lr')) : s.index < symCount p.header s.kind :=
  nextSymbol_post p lr _ lr' h s rfl

/-- `aiger_section_sizes`, justice part (`Σ` justice sizes): the loop of `parse()` that reads the
local fairness constraints — started, as `parse()` does, with one empty vector per size line and
as many literals to read as the sizes add up to — returns the justice properties with exactly the
declared sizes. -/
theorem aiger_justice_sizes (sizes : List Nat) (fuel : Nat) (s s' : St) (js : List (List Nat))
    (lr lr' : LR) (hleft : s.left = sizes.sum)
    (h : (justiceLitsLoop sizes fuel s (sizes.map fun _ => []) 0).run lr = (.ok (js, s'), lr')) :
    js.map List.length = sizes :=
  justiceLitsLoop_sizes sizes fuel s _ 0 (by rw [hleft]; exact jinv_init sizes) lr (js, s') lr' h

/-- `uint_exact` for the AIGER decimal token (header fields, literals, symbol indices, justice
sizes all go through it). -/
theorem aiger_uint_exact (lr lr' : LR) (v : Nat) (h : uint.run lr = (.ok (.ok v), lr')) :
    ∃ rest, lr.v.rest = Writer.natDigits v ++ rest ∧ lr'.v.rest = rest ∧ v < 2 ^ 64 ∧
      lr'.v.pos = lr.v.pos + (Writer.natDigits v).length :=
  uint_exact lr lr' v h

/-! ### non-vacuity -/

/-- `"aag 3 1 1 1 1\n2\n4 6 1\n6\n6 2 4\ni0 x\nc\nhi\n"` -/
def exAag : VBytes := [97,97,103,32,51,32,49,32,49,32,49,32,49,10,50,10,52,32,54,32,49,10,54,10,
  54,32,50,32,52,10,105,48,32,120,10,99,10,104,105,10]

/-- `"aig 3 1 1 1 1\n6 4\n6\n" ++ [2, 2] ++ "l0 x\n"`: one latch with reset to itself, gate
`6 = 4 & 2`. -/
def exAig : VBytes := [97,105,103,32,51,32,49,32,49,32,49,32,49,10,54,32,52,10,54,10,2,2,
  108,48,32,120,10]

def okVal {α : Type} (r : Except PErr α × LR) : Option α :=
  match r.1 with | .ok a => some a | .error _ => none

/-- The hypotheses of `aag_parse_sizes` / `aag_header_sane` / the `…_within` theorems hold on a
circuit with an input, a latch, an output, a gate, a symbol and a comment. -/
example : okVal ((parseAag ⟨8⟩).run (LR.init exAag false)) =
    some { maxVarIndex := 3, inputs := [2], latches := [⟨4, 6, some true⟩], outputs := [6],
           gates := [⟨2, 4, 6⟩], symbols := [⟨.input, 0, [120]⟩], comment := some [104, 105] } := by
  decide +kernel

example : okVal ((parseAig ⟨64⟩).run (LR.init exAig false)) =
    some { maxVarIndex := 3, inputCount := 1, latches := [⟨6, none⟩], outputs := [6],
           gates := [⟨4, 2⟩], symbols := [⟨.latch, 0, [120]⟩] } := by
  decide +kernel

/-- `aig_varint_exact` is not vacuous: two bytes, value 300. -/
example : okVal (binaryUint.run (LR.init [0xAC, 0x02, 7] false)) = some 300 := by decide +kernel

/-- The limits reject: literal `8 > 2M+1 = 7`, odd defined literal, `I+L+A > M`, `M` beyond `u8`,
symbol index beyond its own section (with another, larger section present). -/
example : okVal ((parseAag ⟨8⟩).run (LR.init [97,97,103,32,51,32,48,32,48,32,49,32,48,10,56,10] false)) = none ∧
    okVal ((parseAag ⟨8⟩).run (LR.init [97,97,103,32,51,32,49,32,48,32,48,32,48,10,51,10] false)) = none ∧
    okVal ((parseAag ⟨8⟩).run (LR.init [97,97,103,32,49,32,49,32,49,32,48,32,48,10] false)) = none ∧
    okVal ((parseAag ⟨8⟩).run (LR.init [97,97,103,32,49,50,56,32,48,32,48,32,48,32,48,10] false)) = none ∧
    okVal ((parseAag ⟨8⟩).run (LR.init [97,97,103,32,49,32,48,32,48,32,50,32,48,32,49,10,48,10,48,10,48,10,98,49,32,120,10] false)) = none := by
  decide +kernel

end Flussab.C06
