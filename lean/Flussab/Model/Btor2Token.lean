/-
L6: `flussab-btor2/src/token.rs` (after the `fix:` commits for F10 and F11), function by function,
in the parser monad.

The keyword scanner `ascii_lowercase` looks at `buf_len()` to choose between an 8-byte SWAR kernel
(`Gen.asciiLowercaseU64`, regenerated from the source) and a byte-wise cold path; it is modelled
with the buffered amount as an explicit parameter (`asciiLowercaseMulti`), next to the simple
reference `lowercaseRun` ("longest run of `a..z`").  `Props/C01Btor2.lean` proves that they agree
for every buffered amount; the token functions are then written against the reference, exactly
like the DIMACS tokens use `Text.asciiDigits` for `ascii_digits_multi` (C13).
-/
import Flussab.Model.LineReader
import Flussab.Gen.Btor2Tables

namespace Flussab
namespace Btor2
open PM

def u64Ty : IntTy := ⟨false, 64⟩

def isLower (b : UInt8) : Bool := 97 ≤ b && b ≤ 122
def isHexDigit (b : UInt8) : Bool := (48 ≤ b && b ≤ 57) || (97 ≤ b && b ≤ 102) || (65 ≤ b && b ≤ 70)
def isBinDigit (b : UInt8) : Bool := b == 48 || b == 49

/-- `while matches!(request_byte_at_offset(offset), Some(<p>)) { offset += 1 }`: the offset of the
first byte at or after `off` that does not satisfy `p` (or of the end of the stream); that byte
is the last one demanded. -/
def scanWhile (p : UInt8 → Bool) (v : View) (off : Nat) : Nat × View :=
  let n := Text.runLen p (v.rest.drop off)
  (off + n, v.demand (off + n))

/-! ### the keyword scanner -/

/-- `ascii_lowercase_u64_cold`: the `array::from_fn` closure, called for `i = 0..8`
(`k` = calls left).  Result: the 8 bytes of the word, `len`, the view after the requests. -/
def coldLoop (off : Nat) : Nat → Nat → Bool → Nat → VBytes → View → VBytes × Nat × View
  | 0, _, _, len, acc, v => (acc.reverse, len, v)
  | k + 1, i, reading, len, acc, v =>
    if reading then
      match v.reqAt (off + i) with
      | (some c, v') =>
        if isLower c then coldLoop off k (i + 1) true (i + 1) (c :: acc) v'
        else coldLoop off k (i + 1) false len (0 :: acc) v'
      | (none, v') => coldLoop off k (i + 1) false len (0 :: acc) v'
    else coldLoop off k (i + 1) false len (0 :: acc) v

/-- `ascii_lowercase_u64_cold`. -/
def asciiLowercaseU64Cold (v : View) (off : Nat) : (BitVec 64 × Nat) × View :=
  let (bytes, len, v') := coldLoop off 8 0 true 0 [] v
  ((Text.le64 bytes, len), v')

/-- `ascii_lowercase_u64`: `bl` = `buf_len()`.  `none` = an arithmetic overflow check of the kernel
fired (debug build); `Proof/SwarLower.lean` shows it never does.  (`offset + 8` cannot overflow:
`offset ≤ buf_len()`, the length of an allocation.) -/
def asciiLowercaseU64 (v : View) (off bl : Nat) : Option ((BitVec 64 × Nat) × View) :=
  if bl < off + 8 then some (asciiLowercaseU64Cold v off)
  else
    let word := Text.le64 (v.rest.drop off)
    if Gen.asciiLowercaseU64NoPanic word then some (Gen.asciiLowercaseU64 word, v) else none

/-- The `loop` of `ascii_lowercase`, with explicit fuel; `bl o` = `buf_len()` when the step at
offset `o` starts (it can grow between steps: the cold path requests bytes).  Returns the end
offset. -/
def lowercaseLoop (bl : Nat → Nat) : Nat → View → Nat → Option (Nat × View)
  | 0, _, _ => none
  | f + 1, v, off =>
    match asciiLowercaseU64 v off (bl off) with
    | none => none
    | some ((_, adv), v') =>
      if adv < 8 then some (off + adv, v') else lowercaseLoop bl f v' (off + adv)

/-- `ascii_lowercase(reader, offset)` as the code computes it: end offset of the keyword
(`none` = panic: kernel overflow check or out of fuel — never, by `Props/C01Btor2.lean`). -/
def asciiLowercaseMulti (v : View) (off : Nat) (bl : Nat → Nat) : Option (Nat × View) :=
  lowercaseLoop bl (v.rest.length + 2) v off

/-- Reference for `ascii_lowercase`: the longest run of `a..z` at `off`. -/
def lowercaseRun (v : View) (off : Nat) : Nat × View := scanWhile isLower v off

/-! ### tokens -/

/-- Number of bytes the `unexpected_bytes` loop of `unexpected` collects (at most 60). -/
def unexpectedLen : VBytes → Nat → Nat
  | _, 60 => 60
  | [], n => n
  | b :: bs, n =>
    if n != 0 && (b == 10 || b == 13 || b == 9 || b == 32) then n else unexpectedLen bs (n + 1)

/-- `unexpected`: always an error at the current position (or the parked I/O error). -/
def unexpected {α : Type} : PM α := do
  if (← scan (Text.newline · 0)) != 0 then giveUp
  else if (← get).v.isAtEnd then giveUp
  else
    let n := unexpectedLen (← get).v.rest 0
    -- the loop requests offsets 0..n (the request at offset n is the one that stops it), but
    -- not beyond offset 59
    let _ ← reqAt (min n 59)
    giveUp

/-- `newline`: a single `\n` (no `\r\n`). -/
def newline : PM (Option Unit) := do
  if (← reqByte) == some 10 then
    advance 1
    lineAtOffset 0
    pure (some ())
  else pure none

/-- `space`. -/
def space : PM (Option Unit) := do
  if (← reqByte) == some 32 then
    advance 1
    pure (some ())
  else pure none

/-- `required_space`. -/
def requiredSpace : PM Unit := orGiveUp space unexpected

/-- The `loop` of `skip_whitespace`, with explicit fuel; returns the final offset. -/
def skipWsLoop : Nat → Nat → PM Nat
  | 0, _ => rpanic "fuel"
  | f + 1, off => do
    match ← reqAt off with
    | some 32 => skipWsLoop f (off + 1)
    | some 10 =>
      lineAtOffset (off + 1)
      skipWsLoop f (off + 1)
    | _ => pure off

/-- `skip_whitespace`. -/
def skipWhitespace : PM Unit := do
  let off ← skipWsLoop ((← get).v.rest.length + 2) 0
  advance off

/-- Executable twin of `skipWsLoop`.  Two costs of the original are avoided: the fuel
`fl.length + c` is kept as the pair `(fl, c)` and used up one list cell per iteration (so the caller
passes the remaining input instead of its length), and `cur = rest.drop off` is carried along so
that the request at offset `off` does not walk `off` cells of `rest` again (a whitespace run of
`n` bytes costs `n` steps, not `n²/2`). -/
def skipWsLoopFast : VBytes → Nat → VBytes → Nat → PM Nat
  | [], c, _, off => skipWsLoop c off
  | _ :: fl, c, cur, off => do
    match ← reqAtCur cur off with
    | some 32 => skipWsLoopFast fl c cur.tail (off + 1)
    | some 10 =>
      lineAtOffset (off + 1)
      skipWsLoopFast fl c cur.tail (off + 1)
    | _ => pure off

theorem skipWsLoop_eq_fast (fl : VBytes) (c : Nat) : ∀ (off : Nat) (lr : LR),
    skipWsLoop (fl.length + c) off lr = skipWsLoopFast fl c (lr.v.rest.drop off) off lr := by
  induction fl with
  | nil => intro off lr; simp only [List.length_nil, Nat.zero_add, skipWsLoopFast]
  | cons b fl ih =>
    intro off lr
    have h : (b :: fl).length + c = (fl.length + c) + 1 := by
      simp only [List.length_cons]; omega
    rw [h, skipWsLoop, skipWsLoopFast, bind_apply, bind_apply, reqAt_apply, reqAtCur_apply,
      ← View.demand_eq_demandCur, List.head?_drop]
    simp only []
    have hr : (lr.v.demand off).rest = lr.v.rest := by
      rw [View.demand_eq_demandCur, View.demandCur_rest]
    have hd : (lr.v.rest.drop off).tail =
        ({ lr with v := lr.v.demand off } : LR).v.rest.drop (off + 1) := by
      simp only [hr, List.tail_drop]
    by_cases h32 : lr.v.rest[off]? = some 32
    · rw [h32]; simp only []
      rw [ih, hd]
    · by_cases h10 : lr.v.rest[off]? = some 10
      · rw [h10]; simp only []
        rw [bind_apply, bind_apply]
        cases hl : lineAtOffset (off + 1) { lr with v := lr.v.demand off } with
        | mk r lr2 =>
          cases r with
          | error e => rfl
          | ok a =>
            simp only []
            have := lineAtOffset_rest _ _ _ _ hl
            rw [ih, hd, this]
      · generalize lr.v.rest[off]? = r at h32 h10
        split
        · exact absurd rfl h32
        · exact absurd rfl h10
        · rfl

/-- Executable form of `skipWhitespace`. -/
def skipWhitespaceFast : PM Unit := do
  let lr ← get
  let off ← skipWsLoopFast lr.v.rest 2 lr.v.rest 0
  advance off

@[csimp] theorem skipWhitespace_eq_fast : @skipWhitespace = @skipWhitespaceFast := by
  funext lr
  show ((get : PM LR) >>= fun s => skipWsLoop (s.v.rest.length + 2) 0 >>= fun off => advance off) lr =
    ((get : PM LR) >>= fun s => skipWsLoopFast s.v.rest 2 s.v.rest 0 >>= fun off => advance off) lr
  rw [bind_apply, bind_apply]
  show (skipWsLoop (lr.v.rest.length + 2) 0 >>= fun off => advance off) lr =
    (skipWsLoopFast lr.v.rest 2 lr.v.rest 0 >>= fun off => advance off) lr
  rw [bind_apply, bind_apply, skipWsLoop_eq_fast, List.drop_zero]

/-- `uint`: `none` = Fallthrough, `some none` = `Res(Err(numeral))` (overflow or leading zero),
`some (some v)` = value.  (`ascii_digits_multi` equals `ascii_digits`: property C13.) -/
def uint : PM (Option (Option Nat)) := do
  let (value, off) ← scan (Text.asciiDigits u64Ty · 0)
  if off != 0 then
    -- `input.reader.buf()[0]`
    let first ← bufPrefix 1
    let ok := first != [48] || off == 1
    match ok, value with
    | true, some v =>
      advance off
      pure (some (some v.toNat))
    | _, _ =>
      utf8Unwrap (← bufPrefix off)
      pure (some none)
  else pure none

/-- `exceeds_count`: an error at the mark. -/
def exceedsCount {α : Type} : PM α := do giveUpAt (← mark)

/-- `positive_int` (after F11: the mark is set before the number is scanned). -/
def positiveInt : PM (Option Nat) := do
  if (← reqByte) == some 48 then pure none
  else
    setMark
    match ← uint with
    | none => pure none
    | some none => exceedsCount
    | some (some v) =>
      if v == 0 then rpanic "NonZeroU64::new(0).unwrap()" else pure (some v)

/-- `nonnegative_int` (after F11). -/
def nonnegativeInt : PM (Option Nat) := do
  setMark
  match ← uint with
  | none => pure none
  | some none => exceedsCount
  | some (some v) => pure (some v)

/-- `node_id` / `sort_id`. -/
def nodeId : PM (Option Nat) := positiveInt
def sortId : PM (Option Nat) := positiveInt

def requiredPositiveInt : PM Nat := orGiveUp positiveInt unexpected
def requiredNonnegativeInt : PM Nat := orGiveUp nonnegativeInt unexpected
def requiredNodeId : PM Nat := orGiveUp nodeId unexpected
def requiredSortId : PM Nat := orGiveUp sortId unexpected

/-- `comment_start`. -/
def commentStart : PM (Option Unit) := do
  if (← reqByte) == some 59 then
    advance 1
    pure (some ())
  else pure none

/-- `comment_body` (after F10: a body that ends at the end of the input reports a parked I/O
error instead of being handed out).  Leaves the cursor ON the newline. -/
def commentBody : PM VBytes := do
  let off ← scan (scanWhile (· != 10) · 0)
  if (← reqAt off).isNone then
    let lr ← get
    let (e, v') := lr.v.checkIoError
    set { lr with v := v' }
    if e then throw .io
  advanceWithBuf off

/-- `symbol_name`. -/
def symbolName : PM (Option VBytes) := do
  let off ← scan (scanWhile (fun b => b != 10 && b != 32) · 0)
  if off == 0 then pure none
  else pure (some (← advanceWithBuf off))

/-- `eof`. -/
def eof : PM (Option Unit) := do
  if (← reqByte).isNone then
    if !(← get).v.ioErr then pure (some ()) else pure none
  else pure none

/-- `hex_string`. -/
def hexString (v : View) (off : Nat) : Nat × View := scanWhile isHexDigit v off

/-- `decimal_string`: an optional `-`, then digits. -/
def decimalString (v : View) (off : Nat) : Nat × View :=
  let v1 := v.demand off
  if v.rest[off]? == some 45 then scanWhile isDigit v1 (off + 1) else scanWhile isDigit v1 off

/-- `binary_string`. -/
def binaryString (v : View) (off : Nat) : Nat × View := scanWhile isBinDigit v off

/-- `required_hex_constant` / `required_decimal_constant` / `required_binary_constant`. -/
def requiredConstant (scanner : View → Nat → Nat × View) : PM VBytes := do
  let matched ← scan (scanner · 0)
  if matched == 0 then unexpected else advanceWithBuf matched

def requiredHexConstant : PM VBytes := requiredConstant hexString
def requiredDecimalConstant : PM VBytes := requiredConstant decimalString
def requiredBinaryConstant : PM VBytes := requiredConstant binaryString

/-- The shared body of `node_token` and `sort_token`: scan the run of `a..z` at the cursor, look it
up (`table` = the `match matched { … }`, `none` = its `_ => return Fallthrough` arm) and consume
it on a match. -/
def keywordToken {τ : Type} (table : VBytes → Option τ) : PM (Option τ) := do
  let off ← scan (lowercaseRun · 0)
  let matched ← bufPrefix off
  match table matched with
  | none => pure none
  | some t =>
    advance matched.length
    pure (some t)

/-- `node_token`: the scanned keyword is looked up in the table generated from the source. -/
def nodeToken : PM (Option Gen.Btor2.NodeToken) := keywordToken Gen.Btor2.nodeToken

/-- `sort_token`. -/
def sortToken : PM (Option Gen.Btor2.SortToken) := keywordToken Gen.Btor2.sortToken

end Btor2
end Flussab
