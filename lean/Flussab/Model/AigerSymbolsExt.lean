/-
Support for the generated symbol-table / comment readers of the two AIGER parsers
(`Gen/AigerSymbolsGen.lean` from `flussab-aiger/src/ascii.rs`, `Gen/AigerBinSymbolsGen.lean` from
`flussab-aiger/src/binary.rs`: `impl ParseSymbols`, `next_symbol` and `comment`).
Hand-written; part of the trusted base.

State (see `tools/unit_aigersymbols.py`): `ParseSymbols { parser: Parser<'a, L> }` has no counter.  The
fields of `parser` other than the reader are the model's record `Aiger.Parser`, the reader
`self.parser.reader` (and the alias `let input = &mut self.parser.reader`) is the state `LR` of the parser
monad `PM`.  The generated code runs in `SYM = StateT Aiger.Parser PM`: a thrown `ParseError` leaves only the
reader state.

Values: `&str` / `Cow<str>` (the symbol name, the comment) is the model's `VBytes` (the bytes of the text);
`SymbolTarget::X(i)` is the pair `(SymKind.x, i)`; `Symbol { target, name }` is the model's `Aiger.Symbol`.

Contracts: checked `usize` subtraction lifted from `PMExt`, and the `flussab::Parsed` combinators of
`flussab/src/parser.rs` over `SYM` (same definitions as `Model/CnfParserExt.lean` over `PPM`; justified by
`Props/TieParsed.lean`).  `Parsed<T, ParseError>` is `Option T` (`Fallthrough` = `none`; an error is the thrown
outcome), `Result<T, ParseError>` is the computation's result itself.
-/
import Flussab.Model.Aiger
import Flussab.Model.PMExt
import Flussab.Model.Rt

namespace Flussab

abbrev SYM := StateT Aiger.Parser PM

namespace AigerSymbolsExt
open PM

/-- A token-level computation (acts on the reader only). -/
def tok {α : Type} (x : PM α) : SYM α := StateT.lift x

def getS : SYM Aiger.Parser := get
def modifyS (f : Aiger.Parser → Aiger.Parser) : SYM Unit := modify f
def getLR : SYM LR := tok PMExt.getLR

/-- `a - b` on `usize` with the debug-build overflow check. -/
def usub (a b : Nat) : SYM Nat := tok (PMExt.usub a b)

/-- `a + b` on `usize` with the debug-build overflow check. -/
def uadd (a b : Nat) : SYM Nat := tok (PMExt.uadd a b)

/-- `Parsed::or_parse`. -/
def orParse {α : Type} (p : Option α) (parse : SYM (Option α)) : SYM (Option α) :=
  match p with
  | some a => pure (some a)
  | none => parse

/-- `Parsed::or_give_up`: `Res(result) => result`, `Fallthrough => Err(err())`. -/
def orGiveUp {α : Type} (p : Option α) (err : SYM α) : SYM α :=
  match p with
  | some a => pure a
  | none => err

/-- `Parsed::and_then`: on `Res(Ok(v))` the result of `parse(v)`, `Fallthrough => Fallthrough`. -/
def andThen {α β : Type} (p : Option α) (f : α → SYM β) : SYM (Option β) :=
  match p with
  | some v => do pure (some (← f v))
  | none => pure none

end AigerSymbolsExt
end Flussab
