/-
L1: `flussab::DeferredReader`, field for field (`flussab/src/deferred_reader.rs`).

Conventions (DESIGN.md §3): machine integers are `Nat`; a Rust panic is the result `none` and the
state is returned *as Rust leaves it at the panic point*; `mark_in_buf` is kept as the
mathematical (signed) difference `mark - pos_of_buf`, `mark()` reduces it mod 2^64, which is the
wrapping arithmetic of the code as long as `position()` itself has not wrapped.
-/
import Flussab.Model.Source

namespace Flussab

structure Reader where
  src : Source
  buf : Bytes := []
  posInBuf : Nat := 0
  validLen : Nat := 0
  complete : Bool := false
  ioError : Bool := false
  posOfBuf : Nat := 0
  markInBuf : Int := 0
  chunk : Nat := 16384
deriving Repr, Inhabited

/-- `buf[at .. at + bs.length] = bs` (a `read` into a slice, `copy_within`). -/
def writeAt (l : Bytes) (i : Nat) (bs : Bytes) : Bytes :=
  l.take i ++ bs ++ l.drop (i + bs.length)

def usizeModulus : Nat := 2 ^ 64

namespace Reader

/-- `DeferredReader::from_read`. -/
def mk' (src : Source) : Reader := { src := src }

/-- `buf()`: the bytes in front of the cursor. -/
def window (r : Reader) : Bytes := (r.buf.drop r.posInBuf).take r.validLen

def bufLen (r : Reader) : Nat := r.validLen

def position (r : Reader) : Nat := r.posOfBuf + r.posInBuf

def mark (r : Reader) : Nat := (((r.posOfBuf : Int) + r.markInBuf) % (usizeModulus : Int)).toNat

def isComplete (r : Reader) : Bool := r.complete

def isAtEnd (r : Reader) : Bool := r.complete && r.validLen == 0

def setChunkSize (r : Reader) (c : Nat) : Reader := { r with chunk := c }

def setMark (r : Reader) : Reader := { r with markInBuf := r.posInBuf }

def setMarkToPosition (r : Reader) (p : Nat) : Reader :=
  { r with markInBuf := (p : Int) - r.posOfBuf }

/-- `check_io_error`: `true` = `Err`, and the parked error is taken. -/
def checkIoError (r : Reader) : Bool × Reader := (r.ioError, { r with ioError := false })

/-- `advance(n)`; `none` = panic ("advanced past the current buffer size"), state untouched. -/
def advance (r : Reader) (n : Nat) : Option Unit × Reader :=
  if r.validLen < n then (none, r)
  else (some (), { r with validLen := r.validLen - n, posInBuf := r.posInBuf + n })

/-- `advance_with_buf(n)`: the bytes advanced over. -/
def advanceWithBuf (r : Reader) (n : Nat) : Option Bytes × Reader :=
  match r.advance n with
  | (none, r') => (none, r')
  | (some (), r') => (some ((r'.buf.drop (r'.posInBuf - n)).take n), r')

/-- `copy_within(pos..pos+valid, 0)` and rebasing of `pos_of_buf`, `mark_in_buf`, `pos_in_buf`. -/
def moveStep (r : Reader) : Reader :=
  { r with buf := writeAt r.buf 0 ((r.buf.drop r.posInBuf).take r.validLen),
           posOfBuf := r.posOfBuf + r.posInBuf,
           markInBuf := r.markInBuf - r.posInBuf,
           posInBuf := 0 }

/-- `if buf.len() > 4 * (pos + valid + chunk) { truncate(len / 2); shrink_to_fit() }`. -/
def shrinkStep (r : Reader) : Reader :=
  if r.buf.length > 4 * (r.posInBuf + r.validLen + r.chunk) then
    { r with buf := r.buf.take (r.buf.length / 2) }
  else r

/-- `request_more`, first part: `if realign { copy_within; rebase; maybe shrink }`. -/
def realignStep (r : Reader) : Reader :=
  if r.posInBuf > r.chunk * 2 then r.moveStep.shrinkStep else r

/-- `request_more`, second part: `if buf.len() < target_end { buf.resize(target_end, 0) }`. -/
def growStep (r : Reader) : Reader :=
  let targetEnd := r.posInBuf + r.validLen + r.chunk
  if r.buf.length < targetEnd then
    { r with buf := r.buf ++ List.replicate (targetEnd - r.buf.length) 0 }
  else r

/-- `request_more`, third part: the retried `read` into `buf[pos+valid .. target_end]`. -/
def readStep (r : Reader) : Option Bool × Reader :=
  match r.src.readRetry r.chunk with
  | (.data [], s) => (some true, { r with src := s, complete := true })
  | (.data bs, s) =>
      (some true, { r with src := s,
                           buf := writeAt r.buf (r.posInBuf + r.validLen) bs,
                           validLen := r.validLen + bs.length })
  | (.err, s) => (some true, { r with src := s, ioError := true, complete := true })
  | (.lie _, s) => (none, { r with src := s })
  | (.intr, s) => (some true, { r with src := s })  -- unreachable: `readRetry` never yields `intr`

/-- `request_more`.  Result `none`: a panic (`copy_within` out of range, or the load-bearing
`assert!(n <= chunk_size)`). -/
def requestMore (r : Reader) : Option Bool × Reader :=
  if r.complete then (some false, r) else
  if r.posInBuf > r.chunk * 2 ∧ r.posInBuf + r.validLen > r.buf.length then (none, r) else
  r.realignStep.growStep.readStep

/-- Measure that decreases with every productive `request_more`. -/
def fuel (r : Reader) : Nat :=
  r.src.pre.length + r.src.data.length + 1

/-- `request_cold`: `while valid_len < len && request_more() {}` — run with explicit fuel; the
theorem `requestLoop_fuel` (Proof/Reader) shows `fuel r + 1` always suffices. -/
def requestLoop : Nat → Reader → Nat → Option Unit × Reader
  | 0, r, _ => (some (), r)
  | f + 1, r, len =>
    if r.validLen < len then
      match r.requestMore with
      | (none, r') => (none, r')
      | (some false, r') => (some (), r')
      | (some true, r') => requestLoop f r' len
    else (some (), r)

/-- `request(len)`: the whole buffered window after trying to reach `len` bytes. -/
def request (r : Reader) (len : Nat) : Option Bytes × Reader :=
  match requestLoop (r.fuel + 1) r len with
  | (none, r') => (none, r')
  | (some (), r') => (some r'.window, r')

/-- `request_byte_at_offset(k)`. -/
def requestByteAt (r : Reader) (k : Nat) : Option (Option UInt8) × Reader :=
  match requestLoop (r.fuel + 1) r (k + 1) with
  | (none, r') => (none, r')
  | (some (), r') => (some (r'.window[k]?), r')

/-- The safe API of `DeferredReader` as data (property C02's operation alphabet). -/
inductive Op where
  | request (n : Nat)
  | reqAt (k : Nat)
  | requestMore
  | advance (n : Nat)
  | advanceWithBuf (n : Nat)
  | setMark
  | setMarkTo (p : Nat)
  | setChunk (c : Nat)
  | checkIoError
deriving Repr, DecidableEq, Inhabited

/-- What a call returned; `panic` = the call panicked (caught by the caller). -/
inductive Res where
  | unit
  | bytes (b : Bytes)
  | byte (o : Option UInt8)
  | bool (b : Bool)
  | panic
deriving Repr, DecidableEq, Inhabited

def Op.run (r : Reader) : Op → Res × Reader
  | .request n => match r.request n with
      | (none, r') => (.panic, r')
      | (some w, r') => (.bytes w, r')
  | .reqAt k => match r.requestByteAt k with
      | (none, r') => (.panic, r')
      | (some o, r') => (.byte o, r')
  | .requestMore => match r.requestMore with
      | (none, r') => (.panic, r')
      | (some b, r') => (.bool b, r')
  | .advance n => match r.advance n with
      | (none, r') => (.panic, r')
      | (some (), r') => (.unit, r')
  | .advanceWithBuf n => match r.advanceWithBuf n with
      | (none, r') => (.panic, r')
      | (some bs, r') => (.bytes bs, r')
  | .setMark => (.unit, r.setMark)
  | .setMarkTo p => (.unit, r.setMarkToPosition p)
  | .setChunk c => (.unit, r.setChunkSize c)
  | .checkIoError => match r.checkIoError with
      | (e, r') => (.bool e, r')

/-- Run a history, collecting the results. -/
def runAll : List Op → Reader → List Res × Reader
  | [], r => ([], r)
  | op :: ops, r =>
    let (res, r') := op.run r
    let (rs, r'') := runAll ops r'
    (res :: rs, r'')

end Reader
end Flussab
