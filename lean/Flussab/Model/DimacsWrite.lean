/-
The DIMACS writers (`write_header`, `write_clause` of `flussab-cnf/src/cnf.rs`, `wcnf.rs`, `gcnf.rs`) as
*histories of writer operations* (`Writer.Op`, `Model/Writer.lean`): which calls of the `DeferredWriter`
API a writer makes, in order.  `Props/TieDimacsWrite.lean` ties the functions generated from the Rust
source to these histories, and shows that the bytes the histories write are `Cnf.writeHeader` /
`Cnf.writeClause` / `Cnf.writeDoc` of `Model/Cnf.lean` (what the round-trip theorems C03 are about).

No Mathlib: may be linked into the executable driver.
-/
import Flussab.Model.Writer
import Flussab.Model.Cnf

namespace Flussab

namespace Writer

/-- A history of ops run the way a Rust function runs them: in sequence, and a panic of the sink
(`none`) unwinds through the function — the remaining ops are not run, the writer stays as it is at
that moment.  (`Writer.runAll` / `C11.runOps` model a caller that catches each panic; without a panic
the final states agree: `TieDimacsWrite.runSeq_state`.) -/
def runSeq : List Op → Writer → Option Unit × Writer
  | [], w => (some (), w)
  | op :: ops, w =>
    match op.run w with
    | (none, w') => (none, w')
    | (some _, w') => runSeq ops w'

end Writer

namespace Cnf
open Writer (Op)

/-- One literal inside `write_clause`: `ascii_digits::<isize>(writer, lit.dimacs())` and the separating
blank (`wcnf.rs` writes the blank first). -/
def litOps (fmt : Format) (x : Int) : List Op :=
  match fmt with
  | .wcnf => [.write [32], .digits true 64 x]
  | _ => [.digits true 64 x, .write [32]]

/-- `write_clause`: the weight (`u64`) / group (`usize`) through `ascii_digits`, one `litOps` per
literal, the terminating `0` and newline. -/
def opsOfClause (fmt : Format) (c : Clause) : List Op :=
  (match fmt with
    | .cnf => []
    | .wcnf => [.digits false 64 c.tag]
    | .gcnf => [.write [123], .digits false 64 c.tag, .write [125, 32]]) ++
  c.lits.flatMap (litOps fmt) ++
  [.write (match fmt with | .wcnf => [32, 48, 10] | _ => [48, 10])]

/-- `write_header`: `writeln!(writer, "p <fmt> {} {}[ {}]", …)`, modelled as one `write_all` of the
formatted line (`Model/DimacsWriteExt.lean`, `writeFmt`). -/
def opsOfHeader (fmt : Format) (h : Header) : List Op := [.write (writeHeader fmt h)]

/-- A whole document: the header (if any), then the clauses. -/
def opsOfDoc (fmt : Format) (h : Option Header) (cs : List Clause) : List Op :=
  (match h with | some h => opsOfHeader fmt h | none => []) ++ cs.flatMap (opsOfClause fmt)

/-- A clause the Rust signature can carry: every literal's `dimacs()` is an `isize`; the weight is a
`u64` / the group a `usize` (64-bit target).  (`cnf.rs` has no tag.) -/
def Clause.Writable (fmt : Format) (c : Clause) : Prop :=
  (∀ x ∈ c.lits, (IntTy.mk true 64).fits x = true) ∧ (fmt ≠ .cnf → 0 ≤ c.tag ∧ c.tag < 2 ^ 64)

/-- A header the Rust struct can carry: unsigned fields. -/
def Header.Writable (h : Header) : Prop := 0 ≤ h.varCount ∧ 0 ≤ h.clauseCount ∧ 0 ≤ h.extra

end Cnf
end Flussab
