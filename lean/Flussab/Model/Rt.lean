/-
Run-time support for the *generated* models (`Flussab/Gen/*Gen.lean`, written by
`tools/gen_core.py` from /repo's Rust source on every check run).

`RM σ α = σ → Option α × σ`: a computation over the state `σ` (the Rust `&mut self` / `&mut reader`)
that either returns a value or panics (`none`) and in both cases leaves the state as Rust leaves it
at that point.  This is the shape of the hand-written models (`Reader.advance : … → Option Unit ×
Reader`), so the tie theorems (`Props/Tie*.lean`) are plain equations between functions.

Loops of the source become recursive functions with explicit fuel (`Ctl`): `brk` = the loop was left
(by `break` or by its condition), `ret` = the enclosing function returned from inside the loop,
`fuel` = the fuel ran out (never happens: part of each tie theorem).

No imports: linked into the executable driver.
-/
namespace Flussab

abbrev RM (σ : Type) (α : Type) : Type := σ → Option α × σ

namespace RM

variable {σ α β : Type}

@[inline] protected def pure (a : α) : RM σ α := fun s => (some a, s)

@[inline] protected def bind (x : RM σ α) (f : α → RM σ β) : RM σ β := fun s =>
  match x s with
  | (some a, s') => f a s'
  | (none, s') => (none, s')

instance : Monad (RM σ) where
  pure := RM.pure
  bind := RM.bind

/-- A Rust panic: the state stays as it is. -/
@[inline] def panic : RM σ α := fun s => (none, s)

@[inline] def get : RM σ σ := fun s => (some s, s)
@[inline] def set (s : σ) : RM σ Unit := fun _ => (some (), s)
@[inline] def modify (f : σ → σ) : RM σ Unit := fun s => (some (), f s)

/-- `assert!(c)` / `debug_assert!(c)` (debug build). -/
@[inline] def assert (c : Bool) : RM σ Unit := if c then RM.pure () else panic

/-- `a - b` on `usize` with the debug-build overflow check. -/
@[inline] def usub (a b : Nat) : RM σ Nat := if b ≤ a then RM.pure (a - b) else panic

/-- Lift a pure state transformer with result. -/
@[inline] def lift (f : σ → α × σ) : RM σ α := fun s => let p := f s; (some p.1, p.2)

/-- An `Option` as a computation: `none` = panic. -/
@[inline] def liftOpt (o : Option α) : RM σ α := fun s => (o, s)

/-- Lift a state transformer that may panic. -/
@[inline] def liftO (f : σ → Option α × σ) : RM σ α := f

@[simp] theorem pure_apply (a : α) (s : σ) : (pure a : RM σ α) s = (some a, s) := rfl
@[simp] theorem bind_apply (x : RM σ α) (f : α → RM σ β) (s : σ) :
    (x >>= f) s = match x s with
      | (some a, s') => f a s'
      | (none, s') => (none, s') := rfl
@[simp] theorem panic_apply (s : σ) : (panic : RM σ α) s = (none, s) := rfl
@[simp] theorem get_apply (s : σ) : (get : RM σ σ) s = (some s, s) := rfl
@[simp] theorem set_apply (s t : σ) : (set t : RM σ Unit) s = (some (), t) := rfl
@[simp] theorem modify_apply (f : σ → σ) (s : σ) : (modify f : RM σ Unit) s = (some (), f s) := rfl
@[simp] theorem lift_apply (f : σ → α × σ) (s : σ) : (lift f : RM σ α) s = (some (f s).1, (f s).2) := rfl
@[simp] theorem liftOpt_apply (o : Option α) (s : σ) : (liftOpt o : RM σ α) s = (o, s) := rfl
@[simp] theorem liftO_apply (f : σ → Option α × σ) (s : σ) : (liftO f : RM σ α) s = f s := rfl
@[simp] theorem assert_true : (assert true : RM σ Unit) = pure () := rfl
@[simp] theorem assert_false : (assert false : RM σ Unit) = panic := rfl
theorem assert_apply (c : Bool) (s : σ) :
    (assert c : RM σ Unit) s = if c then (some (), s) else (none, s) := by
  cases c <;> rfl
theorem usub_apply (a b : Nat) (s : σ) :
    (usub a b : RM σ Nat) s = if b ≤ a then (some (a - b), s) else (none, s) := by
  unfold usub; split <;> rfl
@[simp] theorem map_apply (f : α → β) (x : RM σ α) (s : σ) :
    (f <$> x) s = match x s with
      | (some a, s') => (some (f a), s')
      | (none, s') => (none, s') := rfl
end RM

/-- Outcome of a translated loop. `μ` = the loop-carried mutable locals, `ρ` = the function's
return type (for a `return` inside the loop). -/
inductive Ctl (μ ρ : Type) where
  | brk (m : μ)
  | ret (r : ρ)
  | fuel
deriving Repr

/-- `usize::overflowing_sub`. -/
def usizeOSub (a b : Nat) : Nat × Bool :=
  (if a < b then a + 2 ^ 64 - b else a - b, decide (a < b))

/-- `slice[a..b]` with Rust's bounds checks (`none` = panic; for `get_unchecked` = the safety
precondition of the `unsafe` block is violated). -/
def sliceChecked (l : List UInt8) (a b : Nat) : Option (List UInt8) :=
  if a ≤ b ∧ b ≤ l.length then some ((l.drop a).take (b - a)) else none

/-- `slice[i]` with Rust's bounds check. -/
def indexChecked (l : List UInt8) (i : Nat) : Option UInt8 := l[i]?

/-- `Option<io::Error>` fields are modelled as `Bool` ("an error is parked"). -/
inductive IoErr where
  | interrupted
  | other
deriving Repr, DecidableEq, Inhabited

end Flussab
