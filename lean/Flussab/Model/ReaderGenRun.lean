/-
The safe API of the *generated* reader (`Gen/ReaderGen.lean`, translated from
`deferred_reader.rs`) over the operation alphabet of `Model/Reader.lean`.  Used by
`Props/TieReader.lean` (theorem `history_tied`: equal to `Reader.runAll`) and executed by the driver
next to the hand-written model on every `reader` case, which tests the translator itself against the
real code.
-/
import Flussab.Gen.ReaderGen

namespace Flussab
namespace TieReader

/-- The safe API of the generated reader, as the same operation alphabet as `Reader.Op`. -/
def genRun (r : Reader) : Reader.Op → Reader.Res × Reader
  | .request n => match Gen.Reader.request n r with
      | (none, r') => (.panic, r')
      | (some w, r') => (.bytes w, r')
  | .reqAt k => match Gen.Reader.requestByteAtOffset k r with
      | (none, r') => (.panic, r')
      | (some o, r') => (.byte o, r')
  | .requestMore => match Gen.Reader.requestMore r with
      | (none, r') => (.panic, r')
      | (some b, r') => (.bool b, r')
  | .advance n => match Gen.Reader.advance n r with
      | (none, r') => (.panic, r')
      | (some (), r') => (.unit, r')
  | .advanceWithBuf n => match Gen.Reader.advanceWithBuf n r with
      | (none, r') => (.panic, r')
      | (some bs, r') => (.bytes bs, r')
  | .setMark => match Gen.Reader.setMark r with
      | (none, r') => (.panic, r')
      | (some (), r') => (.unit, r')
  | .setMarkTo p => match Gen.Reader.setMarkToPosition p r with
      | (none, r') => (.panic, r')
      | (some (), r') => (.unit, r')
  | .setChunk c => match Gen.Reader.setChunkSize c r with
      | (none, r') => (.panic, r')
      | (some (), r') => (.unit, r')
  | .checkIoError => match Gen.Reader.checkIoError r with
      | (none, r') => (.panic, r')
      | (some (.error _), r') => (.bool true, r')
      | (some (.ok _), r') => (.bool false, r')

def genRunAll : List Reader.Op → Reader → List Reader.Res × Reader
  | [], r => ([], r)
  | op :: ops, r =>
    let (res, r') := genRun r op
    let (rs, r'') := genRunAll ops r'
    (res :: rs, r'')

end TieReader
end Flussab
