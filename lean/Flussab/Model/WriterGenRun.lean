/-
The API of the *generated* writer (`Gen/WriterGen.lean`, translated from `deferred_writer.rs`, and
`Gen/WriteTextGen.lean`, translated from `write/text.rs`) over the operation alphabet of
`Model/Writer.lean`.  Used by `Props/TieWriter.lean` (theorem `history_tied`: equal to
`Writer.runAll`); executable, so a driver can run it next to the hand-written model.
-/
import Flussab.Gen.WriterGen
import Flussab.Gen.WriteTextGen

namespace Flussab

namespace Writer

/-- A history of ops on the hand-written model: the results (`none` = the panic of the sink reached
the caller and was caught there) and the final state. -/
def runAll : List Op → Writer → List (Option Bool) × Writer
  | [], w => ([], w)
  | op :: ops, w =>
    let (res, w') := op.run w
    let (rs, w'') := runAll ops w'
    (res :: rs, w'')

end Writer

namespace TieWriter

/-- What a caller of the unsafe pair does (the model's `Op.ptr len bs`): ask for `len` bytes of room;
if the pointer is non-null, write `bs.take len` through it and advance by that many bytes. -/
def genPtrWrite (len : Nat) (bs : WBytes) : RM Writer Bool := do
  let p ← Gen.Writer.bufWritePtr len
  match p with
  | none => pure false
  | some _ =>
    Gen.Writer.advanceUnchecked (bs.take len).length (bs.take len)
    pure true

/-- The API of the generated writer, as the same operation alphabet as `Writer.Op`.  `write` goes
through the `Write::write_all` impl, `flush` through `Write::flush`, `drop` through `Drop::drop`. -/
def genRun (w : Writer) : Writer.Op → Option Bool × Writer
  | .write bs => match Gen.Writer.writeAll bs w with
      | (none, w') => (none, w')
      | (some (.ok _), w') => (some false, w')
      | (some (.error _), w') => (some true, w')
  | .digits s b x => match Gen.WriteText.asciiDigits s b x w with
      | (none, w') => (none, w')
      | (some (), w') => (some false, w')
  | .ptr len bs => genPtrWrite len bs w
  | .flush => match Gen.Writer.flush w with
      | (none, w') => (none, w')
      | (some (.ok _), w') => (some false, w')
      | (some (.error _), w') => (some true, w')
  | .flushDefer => match Gen.Writer.flushDeferErr w with
      | (none, w') => (none, w')
      | (some (), w') => (some false, w')
  | .check => match Gen.Writer.checkIoError w with
      | (none, w') => (none, w')
      | (some (.ok _), w') => (some false, w')
      | (some (.error _), w') => (some true, w')
  | .drop => match Gen.Writer.drop w with
      | (none, w') => (none, w')
      | (some (), w') => (some false, w')

def genRunAll : List Writer.Op → Writer → List (Option Bool) × Writer
  | [], w => ([], w)
  | op :: ops, w =>
    let (res, w') := genRun w op
    let (rs, w'') := genRunAll ops w'
    (res :: rs, w'')

end TieWriter
end Flussab
