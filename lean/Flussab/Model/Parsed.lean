/-
L5: `flussab::parser::Parsed` and its combinators (`flussab/src/parser.rs`).

Closures are ordinary functions; every combinator returns, next to its value, how many times it
invoked the closure it was given, so that "runs if and only if" (property C15) is a statement
about that count.
-/
namespace Flussab

/-- `Parsed<T, E>`: `Res(Ok v)`, `Res(Err e)` or `Fallthrough`. -/
inductive Parsed (α ε : Type) where
  | ok (v : α)
  | err (e : ε)
  | fallthrough
deriving Repr, DecidableEq, Inhabited

namespace Parsed
variable {α β ε ε' : Type}

/-- `From<Result<T, E>>`. -/
def ofResult : Except ε α → Parsed α ε
  | .ok v => .ok v
  | .error e => .err e

def mapErr (p : Parsed α ε) (f : ε → ε') : Parsed α ε' × Nat :=
  match p with
  | .ok v => (.ok v, 0)
  | .err e => (.err (f e), 1)
  | .fallthrough => (.fallthrough, 0)

/-- `err_into`: `self.map_err(From::from)`. -/
def errInto (p : Parsed α ε) (conv : ε → ε') : Parsed α ε' × Nat := p.mapErr conv

def orGiveUp (p : Parsed α ε) (mkErr : Unit → ε) : Except ε α × Nat :=
  match p with
  | .ok v => (.ok v, 0)
  | .err e => (.error e, 0)
  | .fallthrough => (.error (mkErr ()), 1)

def optional (p : Parsed α ε) : Except ε (Option α) :=
  match p with
  | .ok v => .ok (some v)
  | .err e => .error e
  | .fallthrough => .ok none

def «matches» (p : Parsed α ε) : Except ε Bool :=
  match p with
  | .ok _ => .ok true
  | .err e => .error e
  | .fallthrough => .ok false

def orParse (p : Parsed α ε) (parse : Unit → Parsed α ε) : Parsed α ε × Nat :=
  match p with
  | .fallthrough => (parse (), 1)
  | v => (v, 0)

def orAlwaysParse (p : Parsed α ε) (parse : Unit → Except ε α) : Except ε α × Nat :=
  match p with
  | .fallthrough => (parse (), 1)
  | .ok v => (.ok v, 0)
  | .err e => (.error e, 0)

def andThen (p : Parsed α ε) (parse : α → Except ε β) : Parsed β ε × Nat :=
  match p with
  | .ok v => (ofResult (parse v), 1)
  | .err e => (.err e, 0)
  | .fallthrough => (.fallthrough, 0)

/-- `and_also`: the closure gets `&mut T`; it returns the possibly modified value and its
result. -/
def andAlso (p : Parsed α ε) (parse : α → α × Except ε Unit) : Parsed α ε × Nat :=
  match p with
  | .ok v =>
      match parse v with
      | (_, .error e) => (.err e, 1)
      | (v', .ok ()) => (.ok v', 1)
  | other => (other, 0)

def andDo (p : Parsed α ε) (action : α → α) : Parsed α ε × Nat :=
  match p with
  | .ok v => (.ok (action v), 1)
  | other => (other, 0)

def map (p : Parsed α ε) (f : α → β) : Parsed β ε × Nat :=
  match p with
  | .ok v => (.ok (f v), 1)
  | .err e => (.err e, 0)
  | .fallthrough => (.fallthrough, 0)

end Parsed

-- `ResultExt` for plain `Result`.
namespace ResultExt
variable {α ε ε' : Type}

def errInto (r : Except ε α) (conv : ε → ε') : Except ε' α × Nat :=
  match r with
  | .ok v => (.ok v, 0)
  | .error e => (.error (conv e), 1)

def andAlso (r : Except ε α) (f : α → α × Except ε Unit) : Except ε α × Nat :=
  match r with
  | .ok v =>
      match f v with
      | (_, .error e) => (.error e, 1)
      | (v', .ok ()) => (.ok v', 1)
  | .error e => (.error e, 0)

def andDo (r : Except ε α) (action : α → α) : Except ε α × Nat :=
  match r with
  | .ok v => (.ok (action v), 1)
  | .error e => (.error e, 0)

end ResultExt
end Flussab
