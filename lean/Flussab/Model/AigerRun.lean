/-
L6: driving the AIGER streaming interface to its final result, at model level.

`Driver/EngAiger.lean` (`driveStream`, `driveParse`) runs the section functions of `Model/Aiger.lean`
one call at a time and prints every item as soon as the call that produced it has returned.  This
file is the same drive without the printing: an item is a value of `Item`, the log of items handed
out so far is part of the driver state `DS`, and a model error ends the drive with the log as it
is.  `runStream` is what the `aiger` engine computes in `mode=stream` (`stream = true`) and
`mode=skip` (`stream = false`: the sections are not read item by item, the transition functions
skip them); `runParse` is `mode=parse`.

The only difference to `Driver/EngAiger.lean` is presentation: the counted sections between the
header and the symbol table are a list of stages (`sections`), each "transition function, then
`while let Some(x) = s.next()? { items.push(x) }`", run in order by `runStages`; the calls and
their order are those of `driveStream` there.
-/
import Flussab.Model.Aiger

namespace Flussab
namespace Aiger
open PM

/-- What the streaming interface hands out, call by call. -/
inductive Item where
  | header (h : Header)
  | input (c : Nat)
  | latch (l : Latch)
  | olatch (l : OLatch)
  | output (c : Nat)
  | bad (c : Nat)
  | constraint (c : Nat)
  | justiceSize (n : Nat)
  | justiceLit (c : Nat)
  | fairness (c : Nat)
  | gate (g : AndGate)
  | ogate (g : OGate)
  | symbol (s : Symbol)
  | comment (c : Option VBytes)
  /-- `parse()` returned (`mode=parse`): the items of the returned value follow -/
  | parsed
deriving Repr, DecidableEq, Inhabited

/-- Driver state: the line reader and the items handed out so far (latest first). -/
structure DS where
  lr : LR
  items : List Item := []
deriving Inhabited

abbrev DM := ExceptT PErr (StateM DS)

/-- Run one model call; a model error ends the drive. -/
def step {α : Type} (act : PM α) : DM α := do
  let ds ← get
  match act.run ds.lr with
  | (.ok a, lr') => set { ds with lr := lr' }; pure a
  | (.error e, lr') => set { ds with lr := lr' }; throw e

/-- An item is handed to the consumer. -/
def emitItem (i : Item) : DM Unit := modify fun ds => { ds with items := i :: ds.items }

/-- `while let Some(x) = s.next()? { items.push(x) }` (fuel: `left + 1` at the entry). -/
def drain {α : Type} (next : St → PM (Option α × St)) (mk : α → Item) : Nat → St → DM St
  | 0, _ => throw (.panic "fuel")
  | f + 1, s => do
    match ← step (next s) with
    | (some a, s') => emitItem (mk a); drain next mk f s'
    | (none, s') => pure s'

/-- `while let Some(sym) = p.next_symbol()? { items.push(sym) }` (fuel: `rest.length + 2`). -/
def drainSymbols (p : Parser) : Nat → DM Unit
  | 0 => throw (.panic "fuel")
  | f + 1 => do
    match ← step (nextSymbol p) with
    | some s => emitItem (.symbol s); drainSymbols p f
    | none => pure ()

/-- The items of a section are read one by one (`stream`) or left to the next transition
function. -/
def dr {α : Type} (stream : Bool) (next : St → PM (Option α × St)) (mk : α → Item) (s : St) :
    DM St :=
  if stream then drain next mk (s.left + 1) s else pure s

/-- One counted section: its transition function, then its items. -/
def stage {α : Type} (stream : Bool) (tr : St → PM St) (next : St → PM (Option α × St))
    (mk : α → Item) (s : St) : DM St := do
  let s ← step (tr s)
  dr stream next mk s

/-- The counted sections in file order.  ASCII: inputs, latches, …; binary: no input section,
binary latch lines and the varint and-gate block. -/
def sections (bin stream : Bool) : List (St → DM St) :=
  (if bin then [stage stream toLatches nextLatchBin .olatch]
   else [dr stream nextInput .input, stage stream toLatches nextLatchAscii .latch]) ++
  [stage stream toOutputs nextOutput .output,
   stage stream toBad nextBad .bad,
   stage stream toConstraints nextConstraint .constraint,
   stage stream toJusticeSizes nextJusticeSize .justiceSize,
   stage stream toJusticeLits nextJusticeLit .justiceLit,
   stage stream toFairness nextFairness .fairness,
   (if bin then stage stream toAndGates nextAndGateBin .ogate
    else stage stream toAndGates nextAndGateAscii .gate)]

def runStages : List (St → DM St) → St → DM St
  | [], s => pure s
  | g :: gs, s => do
    let s ← g s
    runStages gs s

/-- Symbol table and comment: `symbols()`, every symbol, then `comment()`. -/
def driveTail (s : St) : DM Unit := do
  let p ← step (toSymbols s)
  drainSymbols p ((← get).lr.v.rest.length + 2)
  let c ← step (comment p)
  emitItem (.comment c)

/-- The whole drive in streaming (`stream = true`) or skipping mode. -/
def driveStream (bin : Bool) (l : LitTy) (stream : Bool) : DM Unit := do
  let p ← step (Parser.new bin l)
  emitItem (.header p.header)
  let s ← runStages (sections bin stream) (if bin then { p } else p.inputs)
  driveTail s

/-- Outcome of a drive: the items handed out, in order, and how it ended (`none` = clean end). -/
structure Run where
  items : List Item := []
  final : Option PErr := none
deriving Repr, DecidableEq, Inhabited

def runDM (act : DM Unit) (lr : LR) : Run :=
  let (r, ds) := act.run.run { lr }
  { items := ds.items.reverse,
    final := match r with
      | .ok _ => none
      | .error e => some e }

/-- `mode=stream` / `mode=skip` of the `aiger` engine. -/
def runStream (bin : Bool) (l : LitTy) (stream : Bool) (lr : LR) : Run :=
  runDM (driveStream bin l stream) lr

/-! ### `mode=parse` -/

def midItems (o b c : List Nat) (j : List (List Nat)) (f : List Nat) : List Item :=
  o.map .output ++ b.map .bad ++ c.map .constraint ++ j.map (fun x => .justiceSize x.length) ++
    j.flatten.map .justiceLit ++ f.map .fairness

def aigItems (a : Aig) : List Item :=
  [.header { maxVarIndex := a.maxVarIndex, inputCount := a.inputs.length,
             latchCount := a.latches.length, outputCount := a.outputs.length,
             andGateCount := a.gates.length, badCount := a.bad.length,
             constraintCount := a.constraints.length, justiceCount := a.justice.length,
             fairnessCount := a.fairness.length }] ++
    a.inputs.map .input ++ a.latches.map .latch ++
    midItems a.outputs a.bad a.constraints a.justice a.fairness ++
    a.gates.map .gate ++ a.symbols.map .symbol ++ [.comment a.comment]

def orderedItems (a : OrderedAig) : List Item :=
  [.header (orderedHeader a)] ++ a.latches.map .olatch ++
    midItems a.outputs a.bad a.constraints a.justice a.fairness ++
    a.gates.map .ogate ++ a.symbols.map .symbol ++ [.comment a.comment]

/-- Whole-file `parse()`: nothing is handed out before it returns. -/
def driveParse (bin : Bool) (l : LitTy) : DM Unit := do
  if bin then
    let a ← step (parseAig l)
    emitItem .parsed
    (orderedItems a).forM emitItem
  else
    let a ← step (parseAag l)
    emitItem .parsed
    (aigItems a).forM emitItem

/-- `mode=parse` of the `aiger` engine. -/
def runParse (bin : Bool) (l : LitTy) (lr : LR) : Run := runDM (driveParse bin l) lr

end Aiger
end Flussab
