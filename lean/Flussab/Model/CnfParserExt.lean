/-
Support for the generated streaming DIMACS CNF parser (`Gen/CnfParserGen.lean`, from
`flussab-cnf/src/cnf.rs`, `impl Parser`).  Hand-written; part of the trusted base.

State (see `tools/unit_cnfparser.py`): the fields of the Rust `Parser<'a, L>` other than the reader are the
record `Cnf.ParserS`; the reader (`self.reader`, and the local aliases `let reader = &mut self.reader`,
`let input = &mut self.reader`) is the state `LR` of the parser monad `PM`.  The generated code runs in
`PPM = StateT Cnf.ParserS PM`: a thrown `ParseError` leaves only the reader state (the parser record of a
failed call is not observable in the model either).

Types: values produced by the generic number tokens (`var_count`, `uint_count`) stay `Int` as in the token
unit; therefore `Header` is the model's `Cnf.Header` (`var_count`, `clause_count` : `Int`; `extra = 0` for
plain CNF) and the `usize` field `clause_limit`, which only ever receives `header.clause_count`, is an `Int`.
`clause_count` (a counter) is a `Nat`; `lit_limit : isize` is an `Int`; `lit_buf : Vec<L>` is the list of
literal values.

Contracts: the `flussab::Parsed` combinators of `flussab/src/parser.rs` over `PPM` (same definitions as
`Model/CnfTokenExt.lean` over `PM`), the cast `usize as isize`, and the call
`token::clause_lits(input, &mut self.lit_buf, limit, hard)`, whose out-parameter is the field `lit_buf`:
the hand model `Cnf.clauseLits` returns the literals, the contract stores them (on `Fallthrough` the
buffer is untouched: `lits.clear()` runs inside the `and_then` closure of `clause_lits`, i.e. only after
the first literal matched).
-/
import Flussab.Model.Cnf
import Flussab.Model.PMExt
import Flussab.Model.Rt

namespace Flussab
namespace Cnf

/-- The fields of `cnf::Parser<'a, L>` without `reader`. -/
structure ParserS where
  clauseCount : Nat
  clauseLimit : Int
  clauseLimitActive : Bool
  litLimit : Int
  litLimitIsHard : Bool
  litBuf : List Int
  header : Option Header
deriving Repr, DecidableEq, Inhabited

/-- `cnf::Config`. -/
structure Config where
  ignoreHeader : Bool := false
deriving Repr, DecidableEq, Inhabited

end Cnf

abbrev PPM := StateT Cnf.ParserS PM

namespace CnfParserExt
open PM

/-- A token-level computation (acts on the reader only). -/
def tok {α : Type} (x : PM α) : PPM α := StateT.lift x

def getP : PPM Cnf.ParserS := get
def setP (s : Cnf.ParserS) : PPM Unit := set s
def modifyP (f : Cnf.ParserS → Cnf.ParserS) : PPM Unit := modify f
def getLR : PPM LR := tok PMExt.getLR

/-- `Parsed::or_parse`. -/
def orParse {α : Type} (p : Option α) (parse : PPM (Option α)) : PPM (Option α) :=
  match p with
  | some a => pure (some a)
  | none => parse

/-- `Parsed::or_give_up`: `Res(result) => result`, `Fallthrough => Err(err())`. -/
def orGiveUp {α : Type} (p : Option α) (err : PPM α) : PPM α :=
  match p with
  | some a => pure a
  | none => err

/-- `Parsed::and_also`: on `Res(Ok(v))` run `parse(&mut v)` (an `Err` is the outcome), otherwise unchanged. -/
def andAlso {α : Type} (p : Option α) (f : α → PPM Unit) : PPM (Option α) :=
  match p with
  | some v => do f v; pure (some v)
  | none => pure none

/-- `Parsed::and_then`: on `Res(Ok(v))` the result of `parse(v)`, `Fallthrough => Fallthrough`. -/
def andThen {α β : Type} (p : Option α) (f : α → PPM β) : PPM (Option β) :=
  match p with
  | some v => do pure (some (← f v))
  | none => pure none

/-- `x as isize` for a `usize` (64-bit target): two's complement reinterpretation, as an integer. -/
def usizeAsIsize (x : Int) : Int := if x < 2 ^ 63 then x else x - 2 ^ 64

/-- `token::clause_lits(input, &mut self.lit_buf, limit, hard_limit)`: the model `Cnf.clauseLits` with the
out-parameter stored in the field (`hard_limit` only selects a message). -/
def clauseLits (l : Cnf.LitTy) (limit : Int) (_hard : Bool) : PPM (Option Unit) := do
  match ← tok (Cnf.clauseLits l limit) with
  | none => pure none
  | some lits =>
    modifyP fun r => { r with litBuf := lits }
    pure (some ())

end CnfParserExt
end Flussab
