/-
External operations the generated scanner model (`Gen/TextGen.lean`, from `flussab/src/text.rs`)
calls.  Hand-written; part of the trusted base (DESIGN.md §6).
-/
import Flussab.Model.Text
import Flussab.Model.Rt

namespace Flussab
namespace TextExt

/-- `reader.request_byte_at_offset(k)` seen from the view (theorem `request_byte_at_offset_tied` and
the refinement theorems of C01/C02 relate it to the L1 reader). -/
def reqAt (k : Nat) : RM View (Option UInt8) := RM.lift fun v => v.reqAt k

/-- `u64::from_le_bytes(*(reader.buf_ptr().add(off) as *const [u8; 8]))`: the unsafe load is in
bounds only if `off + 8 ≤ buf_len()`; otherwise it is a panic here (never happens: tie theorems).
The buffered bytes are a prefix of the stream in front of the cursor. -/
def loadLe64 (bl off : Nat) : RM View (BitVec 64) := fun v =>
  if off + 8 ≤ bl then (some (Text.le64 (v.rest.drop off)), v) else (none, v)

end TextExt
end Flussab
