/-
External operations the generated writer model (`Gen/WriterGen.lean`, `Gen/WriteTextGen.lean`) calls:
the `Vec<u8>` methods, raw-pointer operations, `Write::write_all` of the sink and the `itoap` entry
points as used by `deferred_writer.rs` / `write/text.rs`, stated by their documented contracts (part
of the trusted base, like `Model/ReaderExt.lean`).  Hand-written; everything else in `WriterGen` comes
from the Rust source.

Conventions
* A computation is `RM Writer α` (`Model/Rt.lean`): `none` = Rust panics *or* the safety precondition
  of an `unsafe` operation is violated, the state being what Rust leaves at that point.  So "the
  generated function does not return `none` although the sink does not panic" contains the safety
  of every unsafe block it went through.
* `*mut u8` is `Option Nat`: `none` = null, `some off` = pointer to offset `off` of the allocation of
  `self.buf`.
* The model state has no room for bytes beyond `len`.  An operation that writes into the spare
  capacity of `self.buf` checks its bounds and returns the bytes written as a ghost value; `setLen`
  takes that value.  Limitation (conservative): such a write must start exactly at `len`; anything
  else is `none`, and the tie theorems show that it does not occur.
* The capacity never changes.  `extend_from_slice` beyond the capacity would reallocate in Rust; here
  it is `none` (the tie theorems show that it does not occur).  `Vec::with_capacity(n)` is taken to
  allocate exactly `n` bytes (`Writer.cap`).
* `Option<io::Error>` is a `Bool`.

No Mathlib: linked into the executable driver.
-/
import Flussab.Model.Writer
import Flussab.Model.Rt

namespace Flussab
namespace WriterExt

/-- `Option<io::Error>` field modelled as `Bool`. -/
def optOfBool (b : Bool) : Option IoErr := if b then some IoErr.other else none

/-- `self.buf.clear()`. -/
def clear : RM Writer Unit := RM.modify fun w => { w with buf := [] }

/-- `self.buf.extend_from_slice(bs)` without reallocation (`none` = it would reallocate). -/
def extendFromSlice (bs : List UInt8) : RM Writer Unit := fun w =>
  if w.buf.length + bs.length ≤ w.cap then (some (), { w with buf := w.buf ++ bs }) else (none, w)

/-- `slice.split_at(i)`: panics if `i > len`. -/
def splitAtChecked (l : List UInt8) (i : Nat) : Option (List UInt8 × List UInt8) :=
  if i ≤ l.length then some (l.take i, l.drop i) else none

/-- `self.buf.as_mut_ptr().add(off)`; safety: the result is inside the allocation or one past it. -/
def ptrAdd (off : Nat) : RM Writer (Option Nat) := fun w =>
  if off ≤ w.cap then (some (some off), w) else (none, w)

/-- `self.buf.as_mut_ptr().add(off).copy_from_nonoverlapping(src.as_ptr(), n)`: `n` bytes of `src`
are written to `off .. off + n` of the allocation.  Safety: `n ≤ src.len()`, `off + n ≤ capacity`.
Returns the bytes now in the spare capacity (ghost). -/
def copyToSpare (off : Nat) (src : List UInt8) (n : Nat) : RM Writer (List UInt8) := fun w =>
  if off = w.buf.length ∧ off + n ≤ w.cap ∧ n ≤ src.length then (some (src.take n), w) else (none, w)

/-- `self.buf.set_len(n)` where `spare` is what has been written to the allocation from `len` on.
Safety: `n ≤ capacity` and the bytes `len .. n` are initialised. -/
def setLen (n : Nat) (spare : List UInt8) : RM Writer Unit := fun w =>
  if n ≤ w.cap ∧ n ≤ w.buf.length + spare.length then (some (), { w with buf := (w.buf ++ spare).take n })
  else (none, w)

/-- `self.io_error.take()`. -/
def takeIoError : RM Writer (Option IoErr) := fun w => (some (optOfBool w.ioError), { w with ioError := false })

/-- `self.write.write_all(bs)`: `std::io::Write::write_all` of the sink (`Sink.writeAll`, the
documented default loop over `write`).  A panic of the sink unwinds through the caller: `none`, with
the writer as it is at that moment (the sink has consumed its schedule entries). -/
def sinkWriteAll (bs : List UInt8) : RM Writer (Except IoErr Unit) := fun w =>
  match w.sink.writeAll bs with
  | (.ok, s) => (some (.ok ()), { w with sink := s })
  | (.err, s) => (some (.error IoErr.other), { w with sink := s })
  | (.panic, s) => (none, { w with sink := s })

/-- `itoap::write_to_ptr(ptr, value)`: writes the decimal text of `value` (`digits`) at `ptr` and
returns its length (here: the text itself, as ghost value; the caller takes `.length`).  Safety:
`ptr` is valid for `I::MAX_LEN` (`room`) bytes. -/
def writeToPtr (ptr : Option Nat) (room : Nat) (digits : List UInt8) : RM Writer (List UInt8) := fun w =>
  match ptr with
  | some off => if off = w.buf.length ∧ off + room ≤ w.cap then (some digits, w) else (none, w)
  | none => (none, w)

end WriterExt
end Flussab
