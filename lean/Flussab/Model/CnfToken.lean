/-
L6: `flussab-cnf/src/token.rs`, function by function, in the parser monad.
-/
import Flussab.Model.LineReader

namespace Flussab
namespace Cnf
open PM

def usizeTy : IntTy := ⟨false, 64⟩
def isizeTy : IntTy := ⟨true, 64⟩
def u64Ty : IntTy := ⟨false, 64⟩

/-- A `Dimacs` literal type: `i8`, `i16`, `i32`, `i64`/`isize` (64-bit target). -/
structure LitTy where
  bits : Nat
deriving Repr, DecidableEq, Inhabited

/-- `L::MAX_DIMACS`. -/
def LitTy.maxDimacs (l : LitTy) : Int := (2 ^ (l.bits - 1) : Nat) - 1

/-- `L::from_dimacs(value)`: a truncating cast. -/
def LitTy.fromDimacs (l : LitTy) (x : Int) : Int := (IntTy.mk true l.bits).wrap x

def isWordEnd : Option UInt8 → Bool
  | some 32 | some 9 | some 13 | some 10 | none => true
  | _ => false

/-- `is_end_of_word`. -/
def isEndOfWord (off : Nat) : PM Bool := do pure (isWordEnd (← reqAt off))

/-- `word`. -/
def word (pat : VBytes) : PM (Option Unit) := do
  let off ← scan (Text.fixed · 0 pat)
  if off != 0 then
    if ← isEndOfWord off then
      let off ← scan (Text.tabsOrSpaces · off)
      advance off
      pure (some ())
    else pure none
  else pure none

/-- `fixed` (token level). -/
def fixed (pat : VBytes) : PM (Option Unit) := do
  let off ← scan (Text.fixed · 0 pat)
  if off != 0 then
    advance off
    pure (some ())
  else pure none

/-- Shared tail of `uint` / `int`: after scanning `(value, offset)`.  Result: `none` =
Fallthrough, `some none` = `Res(Err(numeral))` (overflow), `some (some v)` = value. -/
def numberTail (value : Option Int) (off : Nat) : PM (Option (Option Int)) := do
  if off != 0 then
    if ← isEndOfWord off then
      match value with
      | some v =>
        let off ← scan (Text.tabsOrSpaces · off)
        advance off
        pure (some (some v))
      | none =>
        utf8Unwrap (← bufPrefix off)
        pure (some none)
    else pure none
  else pure none

/-- `uint::<T>` (the `_multi` scanner equals the simple one: property C13). -/
def uint (t : IntTy) : PM (Option (Option Int)) := do
  let (value, off) ← scan (Text.asciiDigits t · 0)
  numberTail value off

/-- `int::<T>`. -/
def int (t : IntTy) : PM (Option (Option Int)) := do
  let (value, off) ← scan (Text.signedAsciiDigits t · 0)
  numberTail value off

/-- `braced_uint::<T>`. -/
def bracedUint (t : IntTy) : PM (Option (Option Int)) := do
  if (← reqByte) != some 123 then pure none
  else
    let (value, off) ← scan (Text.asciiDigits t · 1)
    if off != 1 then
      if (← reqAt off) == some 125 then
        let off := off + 1
        match value with
        | some v =>
          let off ← scan (Text.tabsOrSpaces · off)
          advance off
          pure (some (some v))
        | none =>
          utf8Unwrap (← bufPrefix off)
          pure (some none)
      else pure none
    else pure none

/-- `comment`. -/
def comment : PM (Option Unit) := do
  if (← reqByte) == some 99 then
    let off ← scan (Text.nextNewline · 1)
    lineAtOffset off
    let off ← scan (Text.tabsOrSpaces · off)
    advance off
    pure (some ())
  else pure none

/-- `interactive_strict_comment`. -/
def interactiveStrictComment : PM (Option Unit) := do
  if (← scan (Text.fixed · 0 [99, 32])) != 0 then
    let off ← scan (Text.nextNewline · 2)
    lineAtOffset off
    advance off
    pure (some ())
  else pure none

/-- `interactive_skip_line`. -/
def interactiveSkipLine : PM (Option Unit) := do
  let off ← scan (Text.nextNewline · 0)
  if off != 0 then
    lineAtOffset off
    advance off
    pure (some ())
  else pure none

/-- `newline` (token level). -/
def newline : PM (Option Unit) := do
  let off ← scan (Text.newline · 0)
  if off != 0 then
    lineAtOffset off
    let off ← scan (Text.tabsOrSpaces · off)
    advance off
    pure (some ())
  else pure none

/-- `interactive_newline`. -/
def interactiveNewline : PM (Option Unit) := do
  let off ← scan (Text.newline · 0)
  if off != 0 then
    lineAtOffset off
    advance off
    pure (some ())
  else pure none

/-- `eof`. -/
def eof : PM (Option Unit) := do
  if (← reqByte).isNone then
    if !(← get).v.ioErr then pure (some ()) else pure none
  else pure none

/-- `interactive_end_of_line`. -/
def interactiveEndOfLine : PM (Option Unit) := orParse interactiveNewline eof

/-- `skip_whitespace`. -/
def skipWhitespace : PM Unit := do
  let skip ← scan (Text.tabsOrSpaces · 0)
  advance skip

/-- Number of bytes the `unexpected_bytes` loop of `unexpected` collects (at most 60). -/
def unexpectedLen : VBytes → Nat → Nat
  | _, 60 => 60
  | [], n => n
  | b :: bs, n =>
    if n != 0 && (b == 10 || b == 13 || b == 9 || b == 32) then n else unexpectedLen bs (n + 1)

/-- `unexpected`: always an error at the current position (or the parked I/O error). -/
def unexpected {α : Type} : PM α := do
  if (← scan (Text.newline · 0)) != 0 then giveUp
  else if (← get).v.isAtEnd then giveUp
  else
    let n := unexpectedLen (← get).v.rest 0
    -- the loop requests offsets 0..n (the request at offset n is the one that stops it), but
    -- not beyond offset 59
    let _ ← reqAt (min n 59)
    giveUp

/-- `exceeds_var_count`: an error at the mark. -/
def exceedsVarCount {α : Type} : PM α := do giveUpAt (← mark)

/-- `var_count::<L>`. -/
def varCount (l : LitTy) : PM (Option Int) := do
  setMark
  match ← uint usizeTy with
  | none => pure none
  | some none => exceedsVarCount
  | some (some count) =>
    if count > l.maxDimacs then exceedsVarCount else pure (some count)

/-- `uint_count::<T>`. -/
def uintCount (t : IntTy) : PM (Option Int) := do
  setMark
  match ← uint t with
  | none => pure none
  | some none => giveUp
  | some (some v) => pure (some v)

/-- `clause_group`. -/
def clauseGroup (limit : Int) : PM (Option Int) := do
  setMark
  match ← bracedUint usizeTy with
  | none => pure none
  | some none => giveUp
  | some (some g) => if g > limit then exceedsVarCount else pure (some g)

/-- `while comment(input).or_parse(|| newline(input)).matches()? {}` with explicit fuel. -/
def skipLinesLoop : Nat → PM Unit
  | 0 => rpanic "fuel"
  | f + 1 => do
    if ← «matches» (orParse comment newline) then skipLinesLoop f else pure ()

/-- `non_terminating_linebreaks`. -/
def nonTerminatingLinebreaks : PM Bool := do
  let linebreak ← «matches» newline
  if linebreak then
    skipLinesLoop ((← get).v.rest.length + 1)
  pure linebreak

/-- Executable twin of `skipLinesLoop`: the fuel `l.length + c` is kept as the pair `(l, c)` and
used up one list cell per iteration, so that the caller can pass the remaining input itself
instead of its length (which costs a walk over the whole remaining input per call). -/
def skipLinesLoopFast : VBytes → Nat → PM Unit
  | [], c => skipLinesLoop c
  | _ :: l, c => do
    if ← «matches» (orParse comment newline) then skipLinesLoopFast l c else pure ()

theorem skipLinesLoop_eq_fast (l : VBytes) (c : Nat) :
    skipLinesLoop (l.length + c) = skipLinesLoopFast l c := by
  induction l with
  | nil => simp only [List.length_nil, Nat.zero_add, skipLinesLoopFast]
  | cons b l ih =>
    have h : (b :: l).length + c = (l.length + c) + 1 := by
      simp only [List.length_cons]; omega
    rw [h, skipLinesLoop, skipLinesLoopFast, ih]

/-- Executable form of `nonTerminatingLinebreaks` (no `rest.length`). -/
def nonTerminatingLinebreaksFast : PM Bool := do
  let linebreak ← «matches» newline
  if linebreak then
    skipLinesLoopFast (← get).v.rest 1
  pure linebreak

@[csimp] theorem nonTerminatingLinebreaks_eq_fast :
    @nonTerminatingLinebreaks = @nonTerminatingLinebreaksFast := by
  simp only [nonTerminatingLinebreaks, nonTerminatingLinebreaksFast, skipLinesLoop_eq_fast]

/-- `int(input).map_err(|lit| exceeds_var_count(..))`. -/
def litInt : PM (Option Int) := do
  match ← int isizeTy with
  | none => pure none
  | some none => exceedsVarCount
  | some (some v) => pure (some v)

/-- The `while lit != 0` loop of `clause_lits`, with explicit fuel. -/
def clauseLitsLoop (l : LitTy) (limit : Int) : Nat → Int → List Int → PM (List Int)
  | 0, _, _ => rpanic "fuel"
  | f + 1, lit, acc =>
    if lit == 0 then pure acc.reverse
    else if -limit ≤ lit ∧ lit ≤ limit then do
      let acc := l.fromDimacs lit :: acc
      setMark
      match ← litInt with
      | some next => clauseLitsLoop l limit f next acc
      | none =>
        if ← nonTerminatingLinebreaks then
          setMark
          let next ← orGiveUp litInt unexpected
          clauseLitsLoop l limit f next acc
        else unexpected
    else exceedsVarCount

/-- `clause_lits`: `none` = Fallthrough, otherwise the zero-terminated literals. -/
def clauseLits (l : LitTy) (limit : Int) : PM (Option (List Int)) := do
  setMark
  match ← litInt with
  | none => pure none
  | some lit =>
    let lits ← clauseLitsLoop l limit ((← get).v.rest.length + 2) lit []
    pure (some lits)

/-- Executable twin of `clauseLitsLoop` with the fuel `fl.length + c` kept as `(fl, c)`, see
`skipLinesLoopFast`. -/
def clauseLitsLoopFast (l : LitTy) (limit : Int) : VBytes → Nat → Int → List Int → PM (List Int)
  | [], c, lit, acc => clauseLitsLoop l limit c lit acc
  | _ :: fl, c, lit, acc =>
    if lit == 0 then pure acc.reverse
    else if -limit ≤ lit ∧ lit ≤ limit then do
      let acc := l.fromDimacs lit :: acc
      setMark
      match ← litInt with
      | some next => clauseLitsLoopFast l limit fl c next acc
      | none =>
        if ← nonTerminatingLinebreaks then
          setMark
          let next ← orGiveUp litInt unexpected
          clauseLitsLoopFast l limit fl c next acc
        else unexpected
    else exceedsVarCount

theorem clauseLitsLoop_eq_fast (l : LitTy) (limit : Int) (fl : VBytes) (c : Nat) :
    ∀ (lit : Int) (acc : List Int),
      clauseLitsLoop l limit (fl.length + c) lit acc = clauseLitsLoopFast l limit fl c lit acc := by
  induction fl with
  | nil => intro lit acc; simp only [List.length_nil, Nat.zero_add, clauseLitsLoopFast]
  | cons b fl ih =>
    intro lit acc
    have h : (b :: fl).length + c = (fl.length + c) + 1 := by
      simp only [List.length_cons]; omega
    rw [h, clauseLitsLoop, clauseLitsLoopFast]
    simp only [ih]

/-- Executable form of `clauseLits` (no `rest.length`). -/
def clauseLitsFast (l : LitTy) (limit : Int) : PM (Option (List Int)) := do
  setMark
  match ← litInt with
  | none => pure none
  | some lit =>
    let lits ← clauseLitsLoopFast l limit (← get).v.rest 2 lit []
    pure (some lits)

@[csimp] theorem clauseLits_eq_fast : @clauseLits = @clauseLitsFast := by
  funext l limit
  simp only [clauseLits, clauseLitsFast, clauseLitsLoop_eq_fast]

end Cnf
end Flussab
