/-
External operations the generated BTOR2 token model (`Gen/Btor2TokenGen.lean`, from
`flussab-btor2/src/token.rs`) calls, beyond those of `Model/PMExt.lean`.
Hand-written; part of the trusted base (DESIGN.md §6).

Conventions (as in `Model/LineReader.lean`): a `ParseError` is never a value, it is the thrown final
outcome; `Parsed<T, ParseError>` is `PM (Option T)` (`none` = `Fallthrough`); `Parsed<T, String>`
(the number token: the error is the numeral's text, which is erased) is `PM (Option (Option T))`.
-/
import Flussab.Model.PMExt
import Flussab.Model.Btor2Token
import Flussab.Model.Rt

namespace Flussab
namespace Btor2TokenExt
open PM

/-- `reader.buf()[i]` for a byte inside the scanned prefix (like `PM.bufPrefix`, an index at or
beyond the scanned data is a panic here: whether it is one in the code depends on the read
schedule). -/
def bufAt (i : Nat) : PM UInt8 := do
  let bs ← bufPrefix (i + 1)
  PMExt.liftOpt bs[i]?

/-- `&reader.buf()[a..b]` with Rust's slice checks, `b` inside the scanned prefix. -/
def bufRange (a b : Nat) : PM VBytes := do
  let bs ← bufPrefix b
  PMExt.liftOpt (sliceChecked bs a b)

/-- `reader.check_io_error()?` in a function returning `Result<_, ParseError>`: a parked I/O error
is taken out of the reader and becomes the outcome. -/
def checkIoErrorTry : PM Unit := do
  let lr ← get
  let (e, v') := lr.v.checkIoError
  set { lr with v := v' }
  if e then throw .io

/-- `NonZeroU64::new(v).unwrap()`. -/
def nonZeroUnwrap (v : Nat) : PM Nat :=
  if v == 0 then rpanic "NonZeroU64::new(0).unwrap()" else pure v

/-- `Parsed::map_err` on a `Parsed<T, String>` with a closure that builds the `ParseError` from the
(erased) text. -/
def mapErr {α : Type} (p : PM (Option (Option α))) (err : Unit → PM (Option α)) : PM (Option α) := do
  match ← p with
  | none => pure none
  | some none => err ()
  | some (some v) => pure (some v)

/-- `Parsed::map` with a closure (which may panic, hence in `PM`). -/
def mapP {α β : Type} (p : PM (Option α)) (f : α → PM β) : PM (Option β) := do
  match ← p with
  | none => pure none
  | some v => pure (some (← f v))

/-- `ascii_lowercase_u64(reader, offset)` (the `buf_len()` test, the cold path and the kernel
`Gen.asciiLowercaseU64` generated from the source by `tools/gen_swar.py`): `bl` = `buf_len()`.
The kernel's overflow checks are panics. -/
def lowercaseU64 (bl off : Nat) : PM (BitVec 64 × Nat) := do
  let lr ← get
  match Btor2.asciiLowercaseU64 lr.v off bl with
  | some (r, v') =>
    set { lr with v := v' }
    pure r
  | none => rpanic "ascii_lowercase_u64: arithmetic overflow"

end Btor2TokenExt
end Flussab
