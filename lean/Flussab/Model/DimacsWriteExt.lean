/-
External contracts of the DIMACS writers (`write_header`, `write_clause` of `flussab-cnf/src/cnf.rs`,
`wcnf.rs`, `gcnf.rs`), used by the generated `Gen/CnfWriteGen.lean`, `Gen/WcnfWriteGen.lean`,
`Gen/GcnfWriteGen.lean`.  Hand-written and trusted, like `Model/WriterExt.lean`; everything else in
those files comes from the Rust source.  The writer itself is *not* a contract here: the generated
functions call the generated `Gen.Writer.writeAllDeferErr` / `Gen.WriteText.asciiDigits`.

Conventions
* A value of the literal type `L: Dimacs` is the mathematical integer it stands for (`Int`), as in
  `Model/Cnf.lean`.  Every `impl Dimacs` of the crate (`isize`, `i64`, `i32`, `i16`, `i8`) has
  `fn dimacs(self) -> isize { self as isize }`: a widening (or identity) cast of a signed type of at most
  64 bits on the 64-bit target, which keeps the value.  So `dimacs x = x`, and the value lies in `isize`
  (`IntTy.mk true 64`); the tie theorems carry that range as their side condition.
* `usize` / `u64` header fields, weights and group numbers are `Nat`.  `Header` of the three files is the
  one record `Hdr`; `extra` is `top_weight` (wcnf.rs) / `group_count` (gcnf.rs) and absent in cnf.rs.
* `writeln!(writer, "<fmt>", args…)` is `writer.write_fmt(format_args!("<fmt>\n", args…))` of
  `impl Write for DeferredWriter` (std's default `Write::write_fmt`): the formatted text reaches the
  writer as a sequence of `Write::write_all` calls whose concatenation is the text, and the
  `io::Result` is what those calls return.  Where std cuts the text into calls is not documented (at
  present: one call per literal piece of the format string and one per `{}` argument).  **Contract
  chosen here: ONE `write_all` of the whole text** (`writeFmt`).  The unit hands over the pieces as it
  reads them off the format string (literal pieces, `displayNat` of each argument, the final `\n`), so
  the generated definition shows them; only `writeFmt` joins them.  What this fixes beyond the
  documented behaviour is the *granularity* of the calls — which matters for where the buffer is
  flushed, not for the bytes written, in order (`Op.bytes` / `C11.written` do not depend on it).
* `{}` of a `usize` / `u64` (`impl Display`): the canonical decimal text, no sign, no padding —
  `Writer.natDigits`, the same text `itoap` produces.

No Mathlib: may be linked into the executable driver.
-/
import Flussab.Gen.WriterGen
import Flussab.Gen.WriteTextGen

namespace Flussab
namespace DimacsWriteExt

/-- `Header` of cnf.rs / wcnf.rs / gcnf.rs (`extra` = `top_weight` / `group_count`). -/
structure Hdr where
  varCount : Nat
  clauseCount : Nat
  extra : Nat := 0
deriving Repr, DecidableEq, Inhabited

/-- `lit.dimacs()`: `self as isize` of a signed type of at most 64 bits keeps the value. -/
def dimacs (x : Int) : Int := x

/-- `{}` of an unsigned integer (`Display`). -/
def displayNat (n : Nat) : List UInt8 := Writer.natDigits n

/-- `write!` / `writeln!` on the `DeferredWriter`: one `Write::write_all` of the formatted text
(`pieces` joined; see the header of this file). -/
def writeFmt (pieces : List (List UInt8)) : RM Writer (Except IoErr Unit) :=
  Gen.Writer.writeAll pieces.flatten

end DimacsWriteExt
end Flussab
