/-
Support for the generated solver-log parser (`Gen/SatLogGen.lean`, from `flussab-cnf/src/sat_solver_log.rs`).
Hand-written; part of the trusted base: the record of the parser's configuration.
-/
import Flussab.Model.Cnf
import Flussab.Model.CnfTokenExt

namespace Flussab
namespace SatLogExt

/-- `sat_solver_log::Config` (`#[non_exhaustive]`, one field; the field list is checked by the unit). -/
structure Config where
  ignoreUnknownLines : Bool := false
deriving Repr, DecidableEq, Inhabited

end SatLogExt
end Flussab
