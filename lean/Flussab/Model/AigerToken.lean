/-
L6: `flussab-aiger/src/token.rs` (and `lit.rs`), function by function, in the parser monad.

This is the code *after* the `fix:` commits for F5 (`remaining_line_content` moves to the next line
only once the name is valid UTF-8), F6 (`remaining_file_content` consults the parked I/O error)
and F8 (`binary_uint` accepts up to `(BITS + 6) / 7 = 10` bytes).

UTF-8: `std::str::from_utf8` is modelled by the total function `utf8ValidUpTo` (the length of the
longest well-formed prefix, i.e. `Utf8Error::valid_up_to()`, or the whole length for `Ok`); the
`aiger` engine compares it with the real function on every name and comment it sees.

Error messages are not modelled, so `exceeds_count`, `not_assigning`, `invalid_initialization` and
`delta_code_err` all collapse to "`give_up_at(mark)`".
-/
import Flussab.Model.LineReader

namespace Flussab
namespace Aiger
open PM

def usizeTy : IntTy := ⟨false, 64⟩

/-- A `Lit` type: `u8`, `u16`, `u32`, `u64`/`usize` (64-bit target). -/
structure LitTy where
  bits : Nat
deriving Repr, DecidableEq, Inhabited

/-- `L::MAX_CODE`. -/
def LitTy.maxCode (l : LitTy) : Nat := 2 ^ l.bits - 1

/-- `L::from_code(code)` followed by `.code()`: a truncating cast. -/
def LitTy.fromCode (l : LitTy) (c : Nat) : Nat := c % 2 ^ l.bits

/-! ### UTF-8 (`std::str::from_utf8`) -/

def isCont (b : UInt8) : Bool := 0x80 ≤ b && b ≤ 0xBF

/-- Length of the well-formed UTF-8 sequence at the front of the list; `0` if there is none
(empty list, ill-formed or truncated sequence).  Table 3-7 of the Unicode standard, which is what
`core::str::validations::run_utf8_validation` implements. -/
def utf8SeqLen : VBytes → Nat
  | [] => 0
  | b0 :: r =>
    if b0 < 0x80 then 1
    else if 0xC2 ≤ b0 && b0 ≤ 0xDF then
      match r with
      | b1 :: _ => if isCont b1 then 2 else 0
      | _ => 0
    else if 0xE0 ≤ b0 && b0 ≤ 0xEF then
      match r with
      | b1 :: b2 :: _ =>
        let ok1 :=
          if b0 == 0xE0 then 0xA0 ≤ b1 && b1 ≤ 0xBF
          else if b0 == 0xED then 0x80 ≤ b1 && b1 ≤ 0x9F
          else isCont b1
        if ok1 && isCont b2 then 3 else 0
      | _ => 0
    else if 0xF0 ≤ b0 && b0 ≤ 0xF4 then
      match r with
      | b1 :: b2 :: b3 :: _ =>
        let ok1 :=
          if b0 == 0xF0 then 0x90 ≤ b1 && b1 ≤ 0xBF
          else if b0 == 0xF4 then 0x80 ≤ b1 && b1 ≤ 0x8F
          else isCont b1
        if ok1 && isCont b2 && isCont b3 then 4 else 0
      | _ => 0
    else 0

/-- `valid_up_to`: scan sequence by sequence (`fuel` = number of bytes, each step consumes ≥ 1). -/
def utf8ValidUpToAux : Nat → VBytes → Nat → Nat
  | 0, _, n => n
  | f + 1, bs, n =>
    let k := utf8SeqLen bs
    if k == 0 then n else utf8ValidUpToAux f (bs.drop k) (n + k)

/-- Length of the longest prefix of `bs` that is well-formed UTF-8: `bs.length` iff
`from_utf8(bs)` is `Ok`, otherwise `err.valid_up_to()`. -/
def utf8ValidUpTo (bs : VBytes) : Nat := utf8ValidUpToAux bs.length bs 0

/-- `std::str::from_utf8(bs).is_ok()`. -/
def validUtf8 (bs : VBytes) : Bool := utf8ValidUpTo bs == bs.length

/-! ### tokens -/

/-- `reader.check_io_error()?`. -/
def checkIoError : PM Unit := do
  let lr ← get
  let (e, v') := lr.v.checkIoError
  set { lr with v := v' }
  if e then throw .io

/-- Number of bytes the `unexpected_bytes` loop of `unexpected` collects (at most 60). -/
def unexpectedLen : VBytes → Nat → Nat
  | _, 60 => 60
  | [], n => n
  | b :: bs, n =>
    if n != 0 && (b == 10 || b == 13 || b == 9 || b == 32) then n else unexpectedLen bs (n + 1)

/-- `unexpected`: always an error at the current position (or the parked I/O error). -/
def unexpected {α : Type} : PM α := do
  if (← scan (Text.newline · 0)) != 0 then giveUp
  else if (← get).v.isAtEnd then giveUp
  else
    let n := unexpectedLen (← get).v.rest 0
    -- the loop requests offsets 0..n (the request at offset n is the one that stops it), but
    -- not beyond offset 59
    let _ ← reqAt (min n 59)
    giveUp

/-- `fixed`. -/
def fixed (pat : VBytes) : PM (Option Unit) := do
  let off ← scan (Text.fixed · 0 pat)
  if off != 0 then
    advance off
    pure (some ())
  else pure none

/-- `fixed_not_eol`. -/
def fixedNotEol (pat : VBytes) : PM (Option Unit) := do
  let off ← scan (Text.fixed · 0 pat)
  if off != 0 then
    if (← reqAt off) == some 10 then pure none
    else
      advance off
      pure (some ())
  else pure none

/-- `space`. -/
def space : PM (Option Unit) := do
  if (← reqByte) == some 32 then
    advance 1
    pure (some ())
  else pure none

/-- `required_space`. -/
def requiredSpace : PM Unit := orGiveUp space unexpected

/-- `newline`. -/
def newline : PM (Option Unit) := do
  if (← reqByte) == some 10 then
    advance 1
    lineAtOffset 0
    pure (some ())
  else pure none

/-- `required_newline`. -/
def requiredNewline : PM Unit := orGiveUp newline unexpected

/-- `required_newline_or_space`: `true` = a space was found. -/
def requiredNewlineOrSpace : PM Bool := do
  let byte ← reqByte
  if byte == some 10 || byte == some 32 then
    advance 1
    if byte == some 10 then
      lineAtOffset 0
      pure false
    else pure true
  else unexpected

/-- Result of `uint`: `Fallthrough`, `Res(Err(numeral))` (leading zero or overflow) or a value. -/
inductive UintRes where
  | fall
  | bad
  | ok (v : Nat)
deriving Repr, DecidableEq, Inhabited

/-- `uint::<usize>` (the `_multi` scanner equals the simple one: property C13). -/
def uint : PM UintRes := do
  let (value, off) ← scan (Text.asciiDigits usizeTy · 0)
  if off != 0 then
    let bs ← bufPrefix off
    match bs with
    | [] => rpanic "buf()[0]"
    | b0 :: _ =>
      let plain := b0 != 48 || off == 1
      match plain, value with
      | true, some v =>
        advance off
        pure (.ok v.toNat)
      | _, _ =>
        utf8Unwrap bs
        pure .bad
  else pure .fall

/-- The first loop of `binary_uint`: number of bytes of the encoded value (at most 10 =
`(usize::BITS + 6) / 7`).  `n` = `byte_len`; the fuel (11 at the entry) never runs out because
the test `byte_len == 10` ends the loop first. -/
def binaryUintLen : Nat → Nat → PM Nat
  | 0, _ => rpanic "fuel"
  | fuel + 1, n => do
    match ← reqAt n with
    | some byte =>
      let n := n + 1
      if byte &&& 0x80 == 0 then pure n
      else if n == 10 then giveUp
      else binaryUintLen fuel n
    | none => unexpected

/-- The second loop of `binary_uint`: `for byte in buf()[..byte_len].iter().rev()`; `none` = the
value does not fit into a `usize`. -/
def binaryUintValue : VBytes → Nat → Option Nat
  | [], value => some value
  | byte :: rest, value =>
    let next := (value * 128) % 2 ^ 64
    if next / 128 != value then none
    else binaryUintValue rest (next ||| (byte &&& 0x7f).toNat)

/-- `binary_uint`. -/
def binaryUint : PM Nat := do
  let byteLen ← binaryUintLen 11 0
  let bs ← bufPrefix byteLen
  match binaryUintValue bs.reverse 0 with
  | none => giveUp
  | some value =>
    advance byteLen
    pure value

/-- `exceeds_count`, `not_assigning`, `invalid_initialization`, `delta_code_err`: an error at
the mark. -/
def errorAtMark {α : Type} : PM α := do giveUpAt (← mark)

/-- `delta_code`. -/
def deltaCode (code : Nat) : PM Nat := do
  setMark
  let delta ← binaryUint
  if delta > code then errorAtMark
  else pure (code - delta)

/-- `header_field`. -/
def headerField (limit : Nat) : PM Nat := do
  setMark
  match ← uint with
  | .bad => errorAtMark
  | .ok count => if count > limit then errorAtMark else pure count
  | .fall => unexpected

/-- `lit`. -/
def lit (limit : Nat) (assigning : Bool) : PM Nat := do
  setMark
  match ← uint with
  | .bad => errorAtMark
  | .ok count =>
    if assigning && (count == 0 || count % 2 != 0) then errorAtMark
    else if count > limit then errorAtMark
    else pure count
  | .fall => unexpected

/-- `symbol_index`. -/
def symbolIndex (limit : Nat) : PM Nat := headerField limit

/-- `remaining_line_content` (with the `fix:` for F5). -/
def remainingLineContent : PM VBytes := do
  let offset := Text.runLen (· != 10) (← get).v.rest
  -- the `while` loop requests offsets `0..=offset`; the `if` requests `offset` again
  if (← reqAt offset).isNone then
    advance offset
    unexpected
  else
    let bytes ← bufPrefix offset
    let upTo := utf8ValidUpTo bytes
    if upTo == bytes.length then
      lineAtOffset (offset + 1)
      let withNl ← advanceWithBuf (offset + 1)
      pure (withNl.take offset)
    else
      advance upTo
      unexpected

/-- The error arm of `remaining_file_content`, first half: if the valid prefix `bytes` contains a
newline, move the cursor behind the last one (`input.line += skip_lines; advance(advance);
line_at_offset(0)`); returns what is left of `valid_up_to`. -/
def fileContentSeek (bytes : VBytes) : PM Nat := do
  -- `bytes.iter().rev().position(|&b| b == b'\n')`
  let lastLine := Text.runLen (· != 10) bytes.reverse
  if lastLine < bytes.length then
    let adv := bytes.length - lastLine
    let skipLines := ((bytes.take (adv - 1)).filter (· == 10)).length
    let lr ← get
    if lr.line + skipLines > usizeMax then rpanic "line += skip_lines overflow"
    else
      set { lr with line := lr.line + skipLines }
      advance adv
      lineAtOffset 0
      pure (bytes.length - adv)
  else pure bytes.length

/-- `remaining_file_content` (with the `fix:` for F6).  The read-to-end loop
`while request_byte_at_offset(buf_len()).is_some() {}` is modelled by its effect: the request that
ends it is the one at offset `rest.length` (see `readToEnd_spec` in `Proof/AigerToken.lean`:
whatever `buf_len()` reports in between, the loop ends in this state). -/
def remainingFileContent : PM VBytes := do
  let len := (← get).v.rest.length
  let _ ← reqAt len
  checkIoError
  let bytes ← bufPrefix len
  let upTo := utf8ValidUpTo bytes
  if upTo == len && (bytes.getLast? == some 10 || len == 0) then
    let all ← advanceWithBuf len
    pure (all.take (len - 1))
  else
    -- `valid_up_to` is `err.valid_up_to()` or, for a missing final newline, `bytes.len()`
    let validUpTo ← fileContentSeek (bytes.take upTo)
    advance validUpTo
    unexpected

/-- `eof`. -/
def eof : PM (Option Unit) := do
  if (← reqByte).isNone then
    if !(← get).v.ioErr then pure (some ()) else pure none
  else pure none

end Aiger
end Flussab
