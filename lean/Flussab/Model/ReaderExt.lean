/-
External operations the generated reader model (`Gen/ReaderGen.lean`) calls: the `Vec<u8>` methods
and `Read::read` as used by `deferred_reader.rs`, stated by their documented contracts
(DESIGN.md §3.4 — part of the trusted base).  Hand-written; everything else in `ReaderGen` comes from
the Rust source.
-/
import Flussab.Model.Reader
import Flussab.Model.Rt

namespace Flussab
namespace ReaderExt

/-- `Option<io::Error>` field modelled as `Bool`. -/
def optOfBool (b : Bool) : Option IoErr := if b then some IoErr.other else none

/-- `self.buf.copy_within(a..b, d)`: panics if the range or the destination is out of bounds. -/
def copyWithin (a b d : Nat) : RM Reader Unit := fun r =>
  if a ≤ b ∧ b ≤ r.buf.length ∧ d + (b - a) ≤ r.buf.length then
    (some (), { r with buf := writeAt r.buf d ((r.buf.drop a).take (b - a)) })
  else (none, r)

/-- `self.buf.truncate(n)`. -/
def truncate (n : Nat) : RM Reader Unit := RM.modify fun r => { r with buf := r.buf.take n }

/-- `self.buf.resize(n, v)`. -/
def resize (n : Nat) (v : UInt8) : RM Reader Unit := RM.modify fun r =>
  { r with buf := if n ≤ r.buf.length then r.buf.take n else r.buf ++ List.replicate (n - r.buf.length) v }

/-- `self.io_error.take()`. -/
def takeIoError : RM Reader (Option IoErr) := fun r => (some (optOfBool r.ioError), { r with ioError := false })

/-- `self.read.read(&mut self.buf[a..b])`: one `read` call of the source with a slice of `b - a`
bytes; the bytes delivered are in the slice afterwards.  A source that breaks the contract reports a
count larger than the slice (`lie`). Slice bounds are checked (`none` = panic). -/
def readInto (a b : Nat) : RM Reader (Except IoErr Nat) := fun r =>
  if a ≤ b ∧ b ≤ r.buf.length then
    match r.src.read (b - a) with
    | (.data bs, s) => (some (.ok bs.length), { r with src := s, buf := writeAt r.buf a bs })
    | (.intr, s) => (some (.error IoErr.interrupted), { r with src := s })
    | (.err, s) => (some (.error IoErr.other), { r with src := s })
    | (.lie n, s) => (some (.ok n), { r with src := s })
  else (none, r)

/-- Fuel for the `Interrupted` retry loop: each retry consumes a schedule entry. -/
def retryFuel (r : Reader) : Nat := r.src.sched.length + 1

end ReaderExt
end Flussab
