/-
`Parsed<T, E>` with the shape of the Rust enum (`Res(Result<T, E>) | Fallthrough`), for the combinators
generated from `flussab/src/parser.rs` (`Gen/ParsedGen.lean`), and its map to the flattened `Model.Parsed`.
-/
import Flussab.Model.Parsed

namespace Flussab

inductive ParsedR (α ε : Type) where
  | res (r : Except ε α)
  | fallthrough
deriving Inhabited

namespace ParsedR
variable {α ε : Type}

def toModel : ParsedR α ε → Parsed α ε
  | .res (.ok v) => .ok v
  | .res (.error e) => .err e
  | .fallthrough => .fallthrough

def ofModel : Parsed α ε → ParsedR α ε
  | .ok v => .res (.ok v)
  | .err e => .res (.error e)
  | .fallthrough => .fallthrough

end ParsedR

namespace ParsedExt
variable {α ε ε' : Type}

/-- Contract of std's `Result::map_err`. -/
def resultMapErr (r : Except ε α) (f : ε → ε') : Except ε' α :=
  match r with
  | .ok v => .ok v
  | .error e => .error (f e)

end ParsedExt
end Flussab
