/-
L6: the AIGER parsers and writers of `flussab-aiger` (`ascii.rs`, `binary.rs`), function by
function, of the code *after* the `fix:` commits for F3 (symbol index limits use the section's own
count), F4 (the next-literal counter `code` of the binary parser/writer wraps instead of
overflowing), F7 (`parse()` no longer reserves from header counts) and F9 (the B/C/J/F header
counts are limited by `usize::MAX` only).

The two formats share `Header::parse`, every literal section and the symbol/comment part; they
differ in the magic word, in the absence of an input section, in the latch lines and in the
and-gate block (text lines vs. two delta-encoded varints per gate).  `bin : Bool` selects.

The Rust code is a typestate API (`ParseInputs` → `ParseLatches` → …), each state owning the
parser and a `…_left` counter.  Here a section state is `St` (parser + counter + the running
total of the justice sizes), `next_*` are functions `St → PM (Option item × St)` and the
transition functions (`latches()`, `outputs()`, …) are `St → PM St`.

Line/column bookkeeping of a binary file: the and-gate block is read with `binary_uint`, which
never calls `line_at_offset`; so while the block is read, and until the first newline of the
symbol table after it, `line`/`line_start` are those of the "line" that starts where the block
starts.  The model inherits this from mirroring the calls.
-/
import Flussab.Model.AigerToken
import Flussab.Model.Writer

namespace Flussab
namespace Aiger
open PM

/-- `Header` (same struct in `ascii.rs` and `binary.rs`). -/
structure Header where
  maxVarIndex : Nat
  inputCount : Nat
  latchCount : Nat
  outputCount : Nat
  andGateCount : Nat
  badCount : Nat := 0
  constraintCount : Nat := 0
  justiceCount : Nat := 0
  fairnessCount : Nat := 0
deriving Repr, DecidableEq, Inhabited

/-- Checked `usize` arithmetic (overflow checks of a debug build). -/
def checkedSub (site : String) (a b : Nat) : PM Nat :=
  if b > a then rpanic site else pure (a - b)

def checkedAdd (site : String) (a b : Nat) : PM Nat :=
  if a + b > usizeMax then rpanic site else pure (a + b)

def checkedMul (site : String) (a b : Nat) : PM Nat :=
  if a * b > usizeMax then rpanic site else pure (a * b)

def magic (bin : Bool) : VBytes := if bin then [97, 105, 103] else [97, 97, 103]

/-- The `loop { … break }` block of `Header::parse`: up to four optional counts, each introduced by
a space; the first newline ends the header. -/
def headerOptional (h : Header) : PM Header := do
  if !(← requiredNewlineOrSpace) then pure h else
  let badCount ← headerField usizeMax
  let h := { h with badCount }
  if !(← requiredNewlineOrSpace) then pure h else
  let constraintCount ← headerField usizeMax
  let h := { h with constraintCount }
  if !(← requiredNewlineOrSpace) then pure h else
  let justiceCount ← headerField usizeMax
  let h := { h with justiceCount }
  if !(← requiredNewlineOrSpace) then pure h else
  let fairnessCount ← headerField usizeMax
  let h := { h with fairnessCount }
  requiredNewline
  pure h

/-- `Header::parse::<L>`. -/
def Header.parse (bin : Bool) (l : LitTy) : PM Header := do
  orGiveUp (fixed (magic bin)) unexpected
  requiredSpace
  let maxVarIndex ← headerField ((l.maxCode - 1) / 2)
  let limit := maxVarIndex
  requiredSpace
  let inputCount ← headerField limit
  let limit ← checkedSub "limit -= input_count" limit inputCount
  requiredSpace
  let latchCount ← headerField limit
  let limit ← checkedSub "limit -= latch_count" limit latchCount
  requiredSpace
  let outputCount ← headerField usizeMax
  requiredSpace
  let andGateCount ← headerField limit
  let h : Header := { maxVarIndex, inputCount, latchCount, outputCount, andGateCount }
  headerOptional h

/-- `Parser<'a, L>` minus the reader (threaded by the monad); `code` exists in `binary.rs` only. -/
structure Parser where
  bin : Bool
  lit : LitTy
  header : Header
  maxLit : Nat
  code : Nat := 0
deriving Repr, Inhabited

/-- `Parser::new`. -/
def Parser.new (bin : Bool) (l : LitTy) : PM Parser := do
  let header ← Header.parse bin l
  let m2 ← checkedMul "max_var_index * 2" header.maxVarIndex 2
  let maxLit ← checkedAdd "max_var_index * 2 + 1" m2 1
  -- `header.input_count.wrapping_add(1).wrapping_mul(2)`
  let code := if bin then ((header.inputCount + 1) % 2 ^ 64 * 2) % 2 ^ 64 else 0
  pure { bin, lit := l, header, maxLit, code }

/-- A section state: `ParseInputs`, `ParseLatches`, … -/
structure St where
  p : Parser
  left : Nat := 0
  /-- `total_local_fairness_count` of `ParseJusticePropertySizes` -/
  total : Nat := 0
deriving Repr, Inhabited

structure Latch where
  state : Nat
  next : Nat
  init : Option Bool
deriving Repr, DecidableEq, Inhabited

structure OLatch where
  next : Nat
  init : Option Bool
deriving Repr, DecidableEq, Inhabited

structure AndGate where
  in0 : Nat
  in1 : Nat
  out : Nat
deriving Repr, DecidableEq, Inhabited

structure OGate where
  in0 : Nat
  in1 : Nat
deriving Repr, DecidableEq, Inhabited

inductive SymKind where
  | input | output | latch | bad | constraint | justice | fairness
deriving Repr, DecidableEq, Inhabited

structure Symbol where
  kind : SymKind
  index : Nat
  name : VBytes
deriving Repr, DecidableEq, Inhabited

/-- The body shared by `next_input`, `next_output`, `next_bad_state_property`, … : a literal line. -/
def litLine (p : Parser) (assigning : Bool) : PM Nat := do
  let c ← lit p.maxLit assigning
  requiredNewline
  pure (p.lit.fromCode c)

/-- Shape shared by the literal sections: `if left == 0 { None } else { left -= 1; … }`. -/
def nextLit (assigning : Bool) (s : St) : PM (Option Nat × St) :=
  match s.left with
  | 0 => pure (none, s)
  | left + 1 => do
    let s := { s with left }
    let c ← litLine s.p assigning
    pure (some c, s)

/-- `Parser::inputs` (ASCII). -/
def Parser.inputs (p : Parser) : St := { p, left := p.header.inputCount }

/-- `ParseInputs::next_input`. -/
def nextInput : St → PM (Option Nat × St) := nextLit true

/-- The initialization literal of a latch line: `initialization_code < 2` / `== state code`. -/
def latchInit (p : Parser) (stateCode : Nat) : PM (Option Bool) := do
  let initCode ← lit p.maxLit false
  let init ←
    (if initCode < 2 then pure (some (initCode != 0))
     else if initCode == stateCode then pure none
     else errorAtMark)
  requiredNewline
  pure init

/-- The optional reset part of a latch line:
`if required_newline_or_space()? { … initialization literal … } else { Some(false) }`. -/
def latchReset (p : Parser) (stateCode : Nat) : PM (Option Bool) := do
  if ← requiredNewlineOrSpace then latchInit p stateCode else pure (some false)

/-- `ParseLatches::next_latch` (ASCII). -/
def nextLatchAscii (s : St) : PM (Option Latch × St) :=
  match s.left with
  | 0 => pure (none, s)
  | left + 1 => do
    let s := { s with left }
    let stateCode ← lit s.p.maxLit true
    let state := s.p.lit.fromCode stateCode
    requiredSpace
    let next := s.p.lit.fromCode (← lit s.p.maxLit false)
    let init ← latchReset s.p stateCode
    pure (some { state, next, init }, s)

/-- `ParseLatches::next_latch` (binary); `code += 2` wraps (F4). -/
def nextLatchBin (s : St) : PM (Option OLatch × St) :=
  match s.left with
  | 0 => pure (none, s)
  | left + 1 => do
    let s := { s with left }
    let next := s.p.lit.fromCode (← lit s.p.maxLit false)
    let init ← latchReset s.p s.p.code
    let s := { s with p := { s.p with code := (s.p.code + 2) % 2 ^ 64 } }
    pure (some { next, init }, s)

def nextOutput : St → PM (Option Nat × St) := nextLit false
def nextBad : St → PM (Option Nat × St) := nextLit false
def nextConstraint : St → PM (Option Nat × St) := nextLit false
def nextJusticeLit : St → PM (Option Nat × St) := nextLit false
def nextFairness : St → PM (Option Nat × St) := nextLit false

/-- `ParseJusticePropertySizes::next_justice_property_size`. -/
def nextJusticeSize (s : St) : PM (Option Nat × St) :=
  match s.left with
  | 0 => pure (none, s)
  | left + 1 => do
    let s := { s with left }
    let limit ← checkedSub "usize::MAX - total_local_fairness_count" usizeMax s.total
    let count ← headerField limit
    requiredNewline
    let total ← checkedAdd "total_local_fairness_count += count" s.total count
    pure (some count, { s with total })

/-- `ParseAndGates::next_and_gate` (ASCII). -/
def nextAndGateAscii (s : St) : PM (Option AndGate × St) :=
  match s.left with
  | 0 => pure (none, s)
  | left + 1 => do
    let s := { s with left }
    let out := s.p.lit.fromCode (← lit s.p.maxLit true)
    requiredSpace
    let in0 := s.p.lit.fromCode (← lit s.p.maxLit false)
    requiredSpace
    let in1 := s.p.lit.fromCode (← lit s.p.maxLit false)
    requiredNewline
    pure (some { in0, in1, out }, s)

/-- `ParseAndGates::next_and_gate` (binary). -/
def nextAndGateBin (s : St) : PM (Option OGate × St) :=
  match s.left with
  | 0 => pure (none, s)
  | left + 1 => do
    let s := { s with left }
    let outputCode := s.p.code
    let c0 ← deltaCode outputCode
    let c1 ← deltaCode c0
    let s := { s with p := { s.p with code := (s.p.code + 2) % 2 ^ 64 } }
    pure (some { in0 := s.p.lit.fromCode c0, in1 := s.p.lit.fromCode c1 }, s)

/-- `while let Some(x) = next()? { push }`: `fuel` is `left + 1` at the entry of a counted
section (every call decrements `left`), `rest.length + 2` for the symbol table. -/
def whileSome {σ α : Type} (next : σ → PM (Option α × σ)) : Nat → σ → List α → PM (List α × σ)
  | 0, _, _ => rpanic "fuel"
  | f + 1, s, acc => do
    match ← next s with
    | (some a, s') => whileSome next f s' (a :: acc)
    | (none, s') => pure (acc.reverse, s')

/-- `while self.…_left != 0 { self.next_…()?; }` at the start of every transition function. -/
def finish {α : Type} (next : St → PM (Option α × St)) (s : St) : PM St := do
  let (_, s) ← whileSome next (s.left + 1) s []
  pure s

/-- `ParseInputs::latches` / (binary) `Parser::latches`. -/
def toLatches (s : St) : PM St := do
  let s ← (if s.p.bin then pure s else finish nextInput s)
  pure { s with left := s.p.header.latchCount }

/-- `ParseLatches::outputs`. -/
def toOutputs (s : St) : PM St := do
  let s ← (if s.p.bin then finish nextLatchBin s else finish nextLatchAscii s)
  pure { s with left := s.p.header.outputCount }

/-- `ParseOutputs::bad_state_properties`. -/
def toBad (s : St) : PM St := do
  let s ← finish nextOutput s
  pure { s with left := s.p.header.badCount }

/-- `ParseBadStateProperties::invariant_constraints`. -/
def toConstraints (s : St) : PM St := do
  let s ← finish nextBad s
  pure { s with left := s.p.header.constraintCount }

/-- `ParseInvariantConstraints::justice_properties`. -/
def toJusticeSizes (s : St) : PM St := do
  let s ← finish nextConstraint s
  pure { s with left := s.p.header.justiceCount, total := 0 }

/-- `ParseJusticePropertySizes::justice_property_local_fairness_constraints`. -/
def toJusticeLits (s : St) : PM St := do
  let s ← finish nextJusticeSize s
  pure { s with left := s.total }

/-- `ParseJusticePropertyLocalFairnessConstraints::fairness_constraints`. -/
def toFairness (s : St) : PM St := do
  let s ← finish nextJusticeLit s
  pure { s with left := s.p.header.fairnessCount }

/-- `ParseFairnessConstraints::and_gates`. -/
def toAndGates (s : St) : PM St := do
  let s ← finish nextFairness s
  pure { s with left := s.p.header.andGateCount }

/-- `ParseAndGates::symbols`. -/
def toSymbols (s : St) : PM Parser := do
  let s ← (if s.p.bin then finish nextAndGateBin s else finish nextAndGateAscii s)
  pure s.p

/-- One alternative of `next_symbol`:
`if count > 0 { fixed(c) } else { Fallthrough }.and_then(|_| symbol_index(.., count - 1))`. -/
def symAlt (count : Nat) (c : UInt8) (notEol : Bool) : PM (Option Nat) := do
  if count > 0 then
    match ← (if notEol then fixedNotEol [c] else fixed [c]) with
    | some () =>
      let limit ← checkedSub "count - 1" count 1
      let idx ← symbolIndex limit
      pure (some idx)
    | none => pure none
  else pure none

def symKinds (h : Header) : List (SymKind × Nat × UInt8 × Bool) :=
  [(.input, h.inputCount, 105, false), (.output, h.outputCount, 111, false),
   (.latch, h.latchCount, 108, false), (.bad, h.badCount, 98, false),
   (.constraint, h.constraintCount, 99, true), (.justice, h.justiceCount, 106, false),
   (.fairness, h.fairnessCount, 102, false)]

/-- The `or_parse` chain of `next_symbol`. -/
def symTarget : List (SymKind × Nat × UInt8 × Bool) → PM (Option (SymKind × Nat))
  | [] => pure none
  | (k, count, c, notEol) :: alts => do
    match ← symAlt count c notEol with
    | some idx => pure (some (k, idx))
    | none => symTarget alts

/-- `ParseSymbols::next_symbol` (with the `fix:` for F3: each kind is limited by its own count). -/
def nextSymbol (p : Parser) : PM (Option Symbol) := do
  match ← symTarget (symKinds p.header) with
  | some (kind, index) =>
    requiredSpace
    let name ← remainingLineContent
    pure (some { kind, index, name })
  | none => pure none

/-- `while self.next_symbol()?.is_some() {}`. -/
def skipSymbols (p : Parser) : Nat → PM Unit
  | 0 => rpanic "fuel"
  | f + 1 => do
    if (← nextSymbol p).isSome then skipSymbols p f else pure ()

/-- `ParseSymbols::comment`. -/
def comment (p : Parser) : PM (Option VBytes) := do
  skipSymbols p ((← get).v.rest.length + 2)
  if (← fixed [99]).isSome then
    requiredNewline
    let c ← remainingFileContent
    pure (some c)
  else
    orGiveUp eof unexpected
    pure none

/-! ### whole-file `parse()` -/

/-- `Aig<L>`. -/
structure Aig where
  maxVarIndex : Nat := 0
  inputs : List Nat := []
  latches : List Latch := []
  outputs : List Nat := []
  bad : List Nat := []
  constraints : List Nat := []
  justice : List (List Nat) := []
  fairness : List Nat := []
  gates : List AndGate := []
  symbols : List Symbol := []
  comment : Option VBytes := none
deriving Repr, DecidableEq, Inhabited

/-- `OrderedAig<L>`. -/
structure OrderedAig where
  maxVarIndex : Nat := 0
  inputCount : Nat := 0
  latches : List OLatch := []
  outputs : List Nat := []
  bad : List Nat := []
  constraints : List Nat := []
  justice : List (List Nat) := []
  fairness : List Nat := []
  gates : List OGate := []
  symbols : List Symbol := []
  comment : Option VBytes := none
deriving Repr, DecidableEq, Inhabited

/-- `while aig.justice_properties[jp].len() == justice_property_sizes[jp] { jp += 1 }`; `none` =
index out of bounds. -/
def justiceSeek (js : List (List Nat)) (sizes : List Nat) : Nat → Nat → Option Nat
  | 0, _ => none
  | f + 1, jp =>
    match js[jp]?, sizes[jp]? with
    | some j, some sz => if j.length == sz then justiceSeek js sizes f (jp + 1) else some jp
    | _, _ => none

/-- The loop of `parse()` that reads the local fairness constraints and distributes them over the
justice properties. -/
def justiceLitsLoop (sizes : List Nat) :
    Nat → St → List (List Nat) → Nat → PM (List (List Nat) × St)
  | 0, _, _, _ => rpanic "fuel"
  | f + 1, s, js, jp => do
    match ← nextJusticeLit s with
    | (some c, s') =>
      match justiceSeek js sizes (js.length + 1) jp with
      | none => rpanic "justice property index out of bounds"
      | some jp' => justiceLitsLoop sizes f s' (js.modify jp' (· ++ [c])) jp'
    | (none, s') => pure (js, s')

/-- The sections shared by both `parse()` functions, from the outputs to the fairness
constraints. -/
structure Mid where
  outputs : List Nat
  bad : List Nat
  constraints : List Nat
  justice : List (List Nat)
  fairness : List Nat

def parseMid (s : St) : PM (Mid × St) := do
  let s ← toOutputs s
  let (outputs, s) ← whileSome nextOutput (s.left + 1) s []
  let s ← toBad s
  let (bad, s) ← whileSome nextBad (s.left + 1) s []
  let s ← toConstraints s
  let (constraints, s) ← whileSome nextConstraint (s.left + 1) s []
  let s ← toJusticeSizes s
  -- each size read also pushes an empty vector onto `aig.justice_properties` (F7)
  let (sizes, s) ← whileSome nextJusticeSize (s.left + 1) s []
  let s ← toJusticeLits s
  let (justice, s) ← justiceLitsLoop sizes (s.left + 1) s (sizes.map fun _ => []) 0
  let s ← toFairness s
  let (fairness, s) ← whileSome nextFairness (s.left + 1) s []
  pure ({ outputs, bad, constraints, justice, fairness }, s)

/-- The tail shared by both `parse()` functions: symbol table and comment. -/
def parseTail (p : Parser) : PM (List Symbol × Option VBytes) := do
  let (symbols, _) ← whileSome (fun (_ : Unit) => do pure (← nextSymbol p, ()))
    ((← get).v.rest.length + 2) () []
  let c ← comment p
  pure (symbols, c)

/-- `ascii::Parser::parse`. -/
def parseAscii (p : Parser) : PM Aig := do
  let s := p.inputs
  let (inputs, s) ← whileSome nextInput (s.left + 1) s []
  let s ← toLatches s
  let (latches, s) ← whileSome nextLatchAscii (s.left + 1) s []
  let (mid, s) ← parseMid s
  let s ← toAndGates s
  let (gates, s) ← whileSome nextAndGateAscii (s.left + 1) s []
  let p ← toSymbols s
  let (symbols, c) ← parseTail p
  pure { maxVarIndex := p.header.maxVarIndex, inputs, latches, outputs := mid.outputs,
         bad := mid.bad, constraints := mid.constraints, justice := mid.justice,
         fairness := mid.fairness, gates, symbols, comment := c }

/-- `binary::Parser::parse`. -/
def parseBinary (p : Parser) : PM OrderedAig := do
  let s ← toLatches { p }
  let (latches, s) ← whileSome nextLatchBin (s.left + 1) s []
  let (mid, s) ← parseMid s
  let s ← toAndGates s
  let (gates, s) ← whileSome nextAndGateBin (s.left + 1) s []
  let p ← toSymbols s
  let (symbols, c) ← parseTail p
  pure { maxVarIndex := p.header.maxVarIndex, inputCount := p.header.inputCount, latches,
         outputs := mid.outputs, bad := mid.bad, constraints := mid.constraints,
         justice := mid.justice, fairness := mid.fairness, gates, symbols, comment := c }

/-- `Parser::from_read(..)?.parse()` of the ASCII format. -/
def parseAag (l : LitTy) : PM Aig := do parseAscii (← Parser.new false l)

/-- `Parser::from_read(..)?.parse()` of the binary format. -/
def parseAig (l : LitTy) : PM OrderedAig := do parseBinary (← Parser.new true l)

/-! ### writers

The `DeferredWriter` underneath is property C11; here a writer is the byte string it has been
given so far.  A Rust panic (`assert!`, array index) is `Except.error site`. -/

def natText (n : Nat) : VBytes := Writer.natDigits n

def headerFields (h : Header) : List Nat :=
  [h.maxVarIndex, h.inputCount, h.latchCount, h.outputCount, h.andGateCount, h.badCount,
   h.constraintCount, h.justiceCount, h.fairnessCount]

/-- `while let Some((0, rest)) = fields.split_last() { if rest.len() >= 5 { fields = rest } else
{ break } }` on the reversed field list. -/
def trimFieldsRev : List Nat → List Nat
  | 0 :: rest => if rest.length ≥ 5 then trimFieldsRev rest else 0 :: rest
  | fs => fs

def trimFields (fs : List Nat) : List Nat := (trimFieldsRev fs.reverse).reverse

/-- `write_header`. -/
def writeHeader (bin : Bool) (h : Header) : VBytes :=
  magic bin ++ ((trimFields (headerFields h)).map fun f => [32] ++ natText f).flatten ++ [10]

/-- `write_lit`, `write_count`. -/
def writeLit (c : Nat) : VBytes := natText c ++ [10]

def writeInit (init : Option Bool) (stateCode : Nat) : VBytes :=
  match init with
  | some true => [32, 49, 10]
  | some false => [10]
  | none => [32] ++ natText stateCode ++ [10]

/-- `ascii::Writer::write_latch`. -/
def writeLatchAscii (l : Latch) : VBytes :=
  natText l.state ++ [32] ++ natText l.next ++ writeInit l.init l.state

/-- `ascii::Writer::write_and_gate`. -/
def writeAndGateAscii (g : AndGate) : VBytes :=
  natText g.out ++ [32] ++ natText g.in0 ++ [32] ++ natText g.in1 ++ [10]

def symPrefix : SymKind → UInt8
  | .input => 105 | .output => 111 | .latch => 108 | .bad => 98
  | .constraint => 99 | .justice => 106 | .fairness => 102

/-- `write_symbol`. -/
def writeSymbol (s : Symbol) : VBytes :=
  [symPrefix s.kind] ++ natText s.index ++ [32] ++ s.name ++ [10]

/-- `write_comment`. -/
def writeComment (c : VBytes) : VBytes := [99, 10] ++ c ++ [10]

def writeLits (cs : List Nat) : VBytes := (cs.map writeLit).flatten

/-- The sections between the latches and the and gates, identical in every writer. -/
def writeMid (outputs bad constraints : List Nat) (justice : List (List Nat)) (fairness : List Nat) :
    VBytes :=
  writeLits outputs ++ writeLits bad ++ writeLits constraints ++
    writeLits (justice.map List.length) ++ (justice.map writeLits).flatten ++ writeLits fairness

def writeTail (symbols : List Symbol) (c : Option VBytes) : VBytes :=
  (symbols.map writeSymbol).flatten ++ (match c with | some c => writeComment c | none => [])

/-- `ascii::Writer::write_aig`. -/
def writeAig (a : Aig) : VBytes :=
  writeHeader false
    { maxVarIndex := a.maxVarIndex, inputCount := a.inputs.length, latchCount := a.latches.length,
      outputCount := a.outputs.length, andGateCount := a.gates.length, badCount := a.bad.length,
      constraintCount := a.constraints.length, justiceCount := a.justice.length,
      fairnessCount := a.fairness.length } ++
    writeLits a.inputs ++ (a.latches.map writeLatchAscii).flatten ++
    writeMid a.outputs a.bad a.constraints a.justice a.fairness ++
    (a.gates.map writeAndGateAscii).flatten ++ writeTail a.symbols a.comment

def orderedHeader (a : OrderedAig) : Header :=
  { maxVarIndex := a.maxVarIndex, inputCount := a.inputCount, latchCount := a.latches.length,
    outputCount := a.outputs.length, andGateCount := a.gates.length, badCount := a.bad.length,
    constraintCount := a.constraints.length, justiceCount := a.justice.length,
    fairnessCount := a.fairness.length }

/-- `ascii::Writer::write_ordered_aig` for literal type `l`: the running `code` starts at 2 and
advances by 2 per input, latch and gate (`code += 2` cannot overflow before memory is exhausted:
not modelled as a panic site); `L::from_code(code)` truncates. -/
def writeOrderedAigAscii (l : LitTy) (a : OrderedAig) : VBytes :=
  let inputs := (List.range a.inputCount).map fun i => l.fromCode (2 * (i + 1))
  let latches := a.latches.zipIdx.map fun (la, i) =>
    ({ state := l.fromCode (2 * (a.inputCount + 1 + i)), next := la.next, init := la.init } : Latch)
  let gates := a.gates.zipIdx.map fun (g, i) =>
    ({ in0 := g.in0, in1 := g.in1,
       out := l.fromCode (2 * (a.inputCount + a.latches.length + 1 + i)) } : AndGate)
  writeHeader false (orderedHeader a) ++ writeLits inputs ++ (latches.map writeLatchAscii).flatten ++
    writeMid a.outputs a.bad a.constraints a.justice a.fairness ++
    (gates.map writeAndGateAscii).flatten ++ writeTail a.symbols a.comment

/-- The loop of `write_binary_uint`: 7 bits per byte, low group first, continuation bit on all
but the last byte; `none` = index past the 10-byte array (impossible for a `usize`). -/
def writeBinaryUintAux : Nat → Nat → Option VBytes
  | 0, _ => none
  | f + 1, code =>
    if code / 128 == 0 then some [UInt8.ofNat (code % 128)]
    else (writeBinaryUintAux f (code / 128)).map (UInt8.ofNat (code % 128 + 128) :: ·)

/-- `write_binary_uint`. -/
def writeBinaryUint (code : Nat) : Option VBytes := writeBinaryUintAux 10 code

/-- `binary::Writer`: bytes written so far and the next-literal counter. -/
structure BinW where
  out : VBytes := []
  code : Nat := 0
deriving Repr, Inhabited

abbrev WM := StateT BinW (Except String)

def emit (bs : VBytes) : WM Unit := modify fun w => { w with out := w.out ++ bs }

/-- `self.code = self.code.wrapping_add(2)` (F4). -/
def bumpCode : WM Unit := modify fun w => { w with code := (w.code + 2) % 2 ^ 64 }

/-- `binary::Writer::write_header`. -/
def binWriteHeader (h : Header) : WM Unit := do
  modify fun w => { w with code := ((h.inputCount + 1) % 2 ^ 64 * 2) % 2 ^ 64 }
  emit (writeHeader true h)

/-- `binary::Writer::write_latch`. -/
def binWriteLatch (l : OLatch) : WM Unit := do
  emit (natText l.next ++ writeInit l.init (← get).code)
  bumpCode

def binWriteUint (code : Nat) : WM Unit :=
  match writeBinaryUint code with
  | some bs => emit bs
  | none => throw "bytes[len] out of bounds"

/-- `binary::Writer::write_and_gate`. -/
def binWriteAndGate (g : OGate) : WM Unit := do
  let (c0, c1) := if g.in0 < g.in1 then (g.in1, g.in0) else (g.in0, g.in1)
  let code := (← get).code
  if c0 > code then throw "assert!(code_0 <= self.code)"
  binWriteUint (code - c0)
  binWriteUint (c0 - c1)
  bumpCode

/-- `binary::Writer::write_ordered_aig`. -/
def binWriteOrderedAig (a : OrderedAig) : WM Unit := do
  binWriteHeader (orderedHeader a)
  a.latches.forM binWriteLatch
  emit (writeMid a.outputs a.bad a.constraints a.justice a.fairness)
  a.gates.forM binWriteAndGate
  emit (writeTail a.symbols a.comment)

/-- Bytes produced by `binary::Writer::new(..).write_ordered_aig(a)`; `error` = panic. -/
def writeOrderedAigBinary (a : OrderedAig) : Except String VBytes :=
  match (binWriteOrderedAig a).run {} with
  | .ok (_, w) => .ok w.out
  | .error e => .error e

end Aiger
end Flussab
