/-
L3: `flussab::text::LineReader` over the view, and the parser monad used by all format models.

`PM α = LR → Except PErr α × LR`: a parser step either returns or fails with the *final* outcome
of the parse (`io`, `syntax line column`, or `panic site` — a Rust panic / overflow check /
failed `unwrap`, an explicit value here so that "never panics" is a theorem).  The three-valued
`Parsed<T, E>` of the Rust code is `PM (Option T)`: `none` = `Fallthrough`.
-/
import Flussab.Model.Text

namespace Flussab

inductive PErr where
  | io
  | syn (line col : Nat)
  | panic (site : String)
deriving Repr, DecidableEq, Inhabited

structure LR where
  v : View
  line : Nat := 1
  lineStart : Nat := 0
deriving Repr, Inhabited

abbrev PM := ExceptT PErr (StateM LR)

namespace LR

def init (bytes : VBytes) (fault : Bool) : LR := { v := View.init bytes fault }

end LR

namespace PM

def usizeMax : Nat := 2 ^ 64 - 1

/-- Run a pure scanner of L2 on the view. -/
def scan {α : Type} (f : View → α × View) : PM α :=
  modifyGet fun lr => let (a, v') := f lr.v; (a, { lr with v := v' })

def reqAt (k : Nat) : PM (Option UInt8) := scan (·.reqAt k)

def reqByte : PM (Option UInt8) := reqAt 0

def rpanic {α : Type} (site : String) : PM α := throw (.panic site)

/-- `reader.advance(n)`. -/
def advance (n : Nat) : PM Unit := do
  let lr ← get
  match lr.v.advance n with
  | some v' => set { lr with v := v' }
  | none => rpanic "advance beyond scanned data"

/-- `&reader.buf()[..n]`. -/
def bufPrefix (n : Nat) : PM VBytes := do
  match (← get).v.bufPrefix n with
  | some bs => pure bs
  | none => rpanic "slice beyond scanned data"

/-- `reader.advance_with_buf(n)`. -/
def advanceWithBuf (n : Nat) : PM VBytes := do
  let bs ← bufPrefix n
  advance n
  pure bs

def setMark : PM Unit := modify fun lr => { lr with v := lr.v.setMark }

def position : PM Nat := do pure (← get).v.pos

def mark : PM Nat := do pure (← get).v.mark

/-- `line_at_offset(offset)`: `line += 1; line_start = position() + offset` (checked adds). -/
def lineAtOffset (off : Nat) : PM Unit := do
  let lr ← get
  if lr.line + 1 > usizeMax ∨ lr.v.pos + off > usizeMax then rpanic "line_at_offset overflow"
  else set { lr with line := lr.line + 1, lineStart := lr.v.pos + off }

/-- `give_up_at(position, msg)`: a parked I/O error wins; otherwise a syntax error at
`line : position - line_start + 1` (checked subtraction). -/
def giveUpAt {α : Type} (pos : Nat) : PM α := do
  let lr ← get
  let (e, v') := lr.v.checkIoError
  set { lr with v := v' }
  if e then throw .io
  else if pos < lr.lineStart then rpanic "column underflow (position before line start)"
  else throw (.syn lr.line (pos - lr.lineStart + 1))

/-- `give_up(msg)`. -/
def giveUp {α : Type} : PM α := do giveUpAt (← position)

/-- `Parsed::or_give_up`. -/
def orGiveUp {α : Type} (p : PM (Option α)) (err : PM α) : PM α := do
  match ← p with
  | some a => pure a
  | none => err

/-- `Parsed::matches()?`. -/
def «matches» {α : Type} (p : PM (Option α)) : PM Bool := do pure (← p).isSome

/-- `Parsed::or_parse`. -/
def orParse {α : Type} (p q : PM (Option α)) : PM (Option α) := do
  match ← p with
  | some a => pure (some a)
  | none => q

/-- `std::str::from_utf8(bytes).unwrap()` on scanned digits: ASCII only, else the `unwrap` panics. -/
def utf8Unwrap (bs : VBytes) : PM Unit :=
  if bs.all (· < 128) then pure () else rpanic "from_utf8().unwrap() on non-ASCII bytes"

/-! ### State-level facts used by the equality proofs of executable twins (`@[csimp]`)

`PM α` unfolds to `LR → Except PErr α × LR`; a twin that carries extra data tied to the state
(e.g. `rest.drop off`) is equal to the original only pointwise, so these proofs run the monad. -/

theorem bind_apply {α β : Type} (x : PM α) (f : α → PM β) (lr : LR) :
    (x >>= f) lr = match x lr with
      | (.ok a, lr') => f a lr'
      | (.error e, lr') => (.error e, lr') := by
  simp only [bind, ExceptT.bind, ExceptT.mk, ExceptT.bindCont, StateT.bind]
  cases x lr with
  | mk r lr' =>
    cases r with
    | ok a => simp
    | error e => simp; rfl

theorem reqAt_apply (k : Nat) (lr : LR) :
    reqAt k lr = (.ok (lr.v.rest[k]?), { lr with v := lr.v.demand k }) := rfl

/-- `reqAt off` for a caller that already holds `cur = rest.drop off` (cost O(1)). -/
def reqAtCur (cur : VBytes) (off : Nat) : PM (Option UInt8) :=
  scan fun v => (cur.head?, v.demandCur cur off)

theorem reqAtCur_apply (cur : VBytes) (k : Nat) (lr : LR) :
    reqAtCur cur k lr = (.ok cur.head?, { lr with v := lr.v.demandCur cur k }) := rfl

theorem reqAt_eq_reqAtCur (k : Nat) (lr : LR) : reqAt k lr = reqAtCur (lr.v.rest.drop k) k lr := by
  rw [reqAt_apply, reqAtCur_apply, ← View.demand_eq_demandCur, List.head?_drop]

theorem lineAtOffset_apply (off : Nat) (lr : LR) :
    lineAtOffset off lr =
      if lr.line + 1 > usizeMax ∨ lr.v.pos + off > usizeMax then
        (.error (.panic "line_at_offset overflow"), lr)
      else (.ok (), { lr with line := lr.line + 1, lineStart := lr.v.pos + off }) := by
  have hb : lineAtOffset off lr =
      (if lr.line + 1 > usizeMax ∨ lr.v.pos + off > usizeMax then rpanic "line_at_offset overflow"
       else set { lr with line := lr.line + 1, lineStart := lr.v.pos + off } : PM Unit) lr := by
    show ((get : PM LR) >>= fun lr : LR =>
        if lr.line + 1 > usizeMax ∨ lr.v.pos + off > usizeMax then rpanic "line_at_offset overflow"
        else set { lr with line := lr.line + 1, lineStart := lr.v.pos + off }) lr = _
    rw [bind_apply]; rfl
  rw [hb]
  by_cases h : lr.line + 1 > usizeMax ∨ lr.v.pos + off > usizeMax
  · rw [if_pos h, if_pos h]; rfl
  · rw [if_neg h, if_neg h]; rfl

theorem lineAtOffset_rest (off : Nat) (lr lr' : LR) (a : Unit) :
    lineAtOffset off lr = (.ok a, lr') → lr'.v.rest = lr.v.rest := by
  rw [lineAtOffset_apply]
  split
  · intro h; cases h
  · intro h; cases h; rfl

end PM
end Flussab
