/-
L3: `flussab::text::LineReader` over the view, and the parser monad used by all format models.

`PM α = LR → Except PErr α × LR`: a parser step either returns or fails with the *final* outcome
of the parse (`io`, `syntax line column`, or `panic site` — a Rust panic / overflow check /
failed `unwrap`, an explicit value here so that "never panics" is a theorem).  The three-valued
`Parsed<T, E>` of the Rust code is `PM (Option T)`: `none` = `Fallthrough`.
-/
import Flussab.Model.Text

namespace Flussab

inductive PErr where
  | io
  | syn (line col : Nat)
  | panic (site : String)
deriving Repr, DecidableEq, Inhabited

structure LR where
  v : View
  line : Nat := 1
  lineStart : Nat := 0
deriving Repr, Inhabited

abbrev PM := ExceptT PErr (StateM LR)

namespace LR

def init (bytes : VBytes) (fault : Bool) : LR := { v := View.init bytes fault }

end LR

namespace PM

def usizeMax : Nat := 2 ^ 64 - 1

/-- Run a pure scanner of L2 on the view. -/
def scan {α : Type} (f : View → α × View) : PM α :=
  modifyGet fun lr => let (a, v') := f lr.v; (a, { lr with v := v' })

def reqAt (k : Nat) : PM (Option UInt8) := scan (·.reqAt k)

def reqByte : PM (Option UInt8) := reqAt 0

def rpanic {α : Type} (site : String) : PM α := throw (.panic site)

/-- `reader.advance(n)`. -/
def advance (n : Nat) : PM Unit := do
  let lr ← get
  match lr.v.advance n with
  | some v' => set { lr with v := v' }
  | none => rpanic "advance beyond scanned data"

/-- `&reader.buf()[..n]`. -/
def bufPrefix (n : Nat) : PM VBytes := do
  match (← get).v.bufPrefix n with
  | some bs => pure bs
  | none => rpanic "slice beyond scanned data"

/-- `reader.advance_with_buf(n)`. -/
def advanceWithBuf (n : Nat) : PM VBytes := do
  let bs ← bufPrefix n
  advance n
  pure bs

def setMark : PM Unit := modify fun lr => { lr with v := lr.v.setMark }

def position : PM Nat := do pure (← get).v.pos

def mark : PM Nat := do pure (← get).v.mark

/-- `line_at_offset(offset)`: `line += 1; line_start = position() + offset` (checked adds). -/
def lineAtOffset (off : Nat) : PM Unit := do
  let lr ← get
  if lr.line + 1 > usizeMax ∨ lr.v.pos + off > usizeMax then rpanic "line_at_offset overflow"
  else set { lr with line := lr.line + 1, lineStart := lr.v.pos + off }

/-- `give_up_at(position, msg)`: a parked I/O error wins; otherwise a syntax error at
`line : position - line_start + 1` (checked subtraction). -/
def giveUpAt {α : Type} (pos : Nat) : PM α := do
  let lr ← get
  let (e, v') := lr.v.checkIoError
  set { lr with v := v' }
  if e then throw .io
  else if pos < lr.lineStart then rpanic "column underflow (position before line start)"
  else throw (.syn lr.line (pos - lr.lineStart + 1))

/-- `give_up(msg)`. -/
def giveUp {α : Type} : PM α := do giveUpAt (← position)

/-- `Parsed::or_give_up`. -/
def orGiveUp {α : Type} (p : PM (Option α)) (err : PM α) : PM α := do
  match ← p with
  | some a => pure a
  | none => err

/-- `Parsed::matches()?`. -/
def «matches» {α : Type} (p : PM (Option α)) : PM Bool := do pure (← p).isSome

/-- `Parsed::or_parse`. -/
def orParse {α : Type} (p q : PM (Option α)) : PM (Option α) := do
  match ← p with
  | some a => pure (some a)
  | none => q

/-- `std::str::from_utf8(bytes).unwrap()` on scanned digits: ASCII only, else the `unwrap` panics. -/
def utf8Unwrap (bs : VBytes) : PM Unit :=
  if bs.all (· < 128) then pure () else rpanic "from_utf8().unwrap() on non-ASCII bytes"

end PM
end Flussab
