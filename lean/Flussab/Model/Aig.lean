/-
L7: `flussab_aiger::aig` — `Aig`, `OrderedAig`, `Aig::lit_defs`, `LitMap`, `Renumber`
(`flussab-aiger/src/aig.rs`), with the latch-state duplicate check of the `fix:` commit for F2.

Conventions (DESIGN.md §3, §4 C12): literal codes are `Nat` (`L::from_code`/`code` are the
identity; the truncating casts of the narrow literal types are not modelled); the two hash maps
(`defs`, `LitMap::map`, `and_gate_index`) are association lists in which the newest binding
shadows older ones (iteration order is never observed by the code).  The explicit-stack DFS of
`Renumber::transfer` is a recursive function with fuel = maximal stack depth; the stack of
continuations is represented by the list `path` of their `lit` fields (bottom first), which is all
the mid-stack cycle test `stack.get(stack.len() / 2)` looks at.  `symbols` and `comment` are
copied verbatim by the code and are left out.
-/

namespace Flussab.Aig

structure Latch where
  state : Nat
  next : Nat
  init : Option Bool
deriving Repr, DecidableEq, Inhabited

structure AndGate where
  in0 : Nat
  in1 : Nat
  out : Nat
deriving Repr, DecidableEq, Inhabited

/-- `Aig<L>` (without `max_var_index`, `symbols`, `comment`, which `Renumber` never reads). -/
structure Aig where
  inputs : List Nat := []
  latches : List Latch := []
  outputs : List Nat := []
  bad : List Nat := []
  constraints : List Nat := []
  justice : List (List Nat) := []
  fairness : List Nat := []
  gates : List AndGate := []
deriving Repr, Inhabited

/-- `OrderedAndGate<L>`. -/
structure OGate where
  in0 : Nat
  in1 : Nat
deriving Repr, DecidableEq, Inhabited

structure OLatch where
  next : Nat
  init : Option Bool
deriving Repr, DecidableEq, Inhabited

/-- `OrderedAig<L>`. -/
structure OrderedAig where
  maxVarIndex : Nat
  inputCount : Nat
  latches : List OLatch
  outputs : List Nat
  bad : List Nat
  constraints : List Nat
  justice : List (List Nat)
  fairness : List Nat
  gates : List OGate
deriving Repr, Inhabited

inductive LitDef where
  | constant
  | input (i : Nat)
  | andGate (in0 in1 : Nat)
deriving Repr, DecidableEq, Inhabited

/-- `AigStructureError<L>`. -/
inductive Err where
  | alreadyDefined (lit : Nat)
  | notDefined (lit : Nat)
  | foundCycle (lit : Nat)
deriving Repr, DecidableEq, Inhabited

/-- Result of a fuelled computation. -/
inductive Res (α : Type) where
  | ok (a : α)
  | error (e : Err)
  | outOfFuel
deriving Repr, Inhabited

structure Config where
  trim : Bool
  hash : Bool
  fold : Bool
deriving Repr, DecidableEq, Inhabited

/-! ### association lists -/

/-- First binding of `k`. -/
def alookup {β : Type} (k : Nat) : List (Nat × β) → Option β
  | [] => none
  | (k', v) :: rest => if k = k' then some v else alookup k rest

abbrev Defs := List (Nat × LitDef)

def Defs.contains (d : Defs) (k : Nat) : Bool := (alookup k d).isSome

/-- One step of the loops of `lit_defs`:
`defs.contains_key(lit ^ 1) || defs.insert(lit, def).is_some()` ⇒ `LitAlreadyDefined`. -/
def defsAdd : List (Nat × LitDef) → Defs → Except Err Defs
  | [], d => .ok d
  | (lit, v) :: rest, d =>
    if d.contains (1 ^^^ lit) || d.contains lit then .error (.alreadyDefined lit)
    else defsAdd rest ((lit, v) :: d)

/-- `inputs.iter().enumerate()` as definitions. -/
def inputEntries : Nat → List Nat → List (Nat × LitDef)
  | _, [] => []
  | i, lit :: rest => (lit, .input i) :: inputEntries (i + 1) rest

def gateEntries (gs : List AndGate) : List (Nat × LitDef) :=
  gs.map fun g => (g.out, .andGate g.in0 g.in1)

/-- `Aig::lit_defs`. -/
def litDefs (a : Aig) : Except Err Defs :=
  match defsAdd (inputEntries 0 a.inputs) [(0, .constant)] with
  | .error e => .error e
  | .ok d => defsAdd (gateEntries a.gates) d

/-! ### `LitMap` -/

/-- Entries `(even key code, value code)`; newest first. -/
abbrev LitMap := List (Nat × Nat)

/-- `LitMap::get`: key `key & !1`, value xor-ed with `key & 1`. -/
def LitMap.get (m : LitMap) (key : Nat) : Option Nat :=
  (alookup (2 * (key / 2)) m).map (· ^^^ (key % 2))

/-- `LitMap::insert` (the returned old value is only ever tested with `is_some`, see `get`). -/
def LitMap.insert (m : LitMap) (key value : Nat) : LitMap :=
  (2 * (key / 2), value ^^^ (key % 2)) :: m

/-! ### `Renumber` -/

/-- The mutable part of `Renumber` (without `stack`, which is the `path` argument). -/
structure St where
  litMap : LitMap
  lastCode : Nat
  gates : List OGate
  index : List (OGate × Nat)
deriving Repr, Inhabited

def ilookup (g : OGate) : List (OGate × Nat) → Option Nat
  | [] => none
  | (g', v) :: rest => if g = g' then some v else ilookup g rest

/-- The definition search at the head of `State::Transfer`:
`for output in [lit, lit ^ 1] { if let Some(AndGate) = defs.get(output) { def = Some(..) } }`. -/
def findDef (defs : Defs) (lit : Nat) : Option AndGate :=
  let d0 : Option AndGate := match alookup lit defs with
    | some (.andGate a b) => some ⟨a, b, lit⟩
    | _ => none
  match alookup (1 ^^^ lit) defs with
  | some (.andGate a b) => some ⟨a, b, 1 ^^^ lit⟩
  | _ => d0

/-- `inputs.sort_unstable_by_key(|input| !input.code())` on two elements: descending. -/
def sort2 (a b : Nat) : Nat × Nat := if b ≤ a then (a, b) else (b, a)

/-- The constant folding cases, in the order of the code; arguments already sorted. -/
def foldGate (c0 c1 : Nat) : Option Nat :=
  if c0 = 0 ∨ c1 = 0 then some 0
  else if c0 = 1 ∨ c0 = c1 then some c1
  else if c1 = 1 then some c0
  else none

/-- Allocate a fresh gate code and push the gate. -/
def St.push (st : St) (g : OGate) (out : Nat) (addIndex : Bool) : Nat × St :=
  let c := st.lastCode + 2
  (c, { litMap := st.litMap.insert out c, lastCode := c, gates := st.gates ++ [g],
        index := if addIndex then (g, c) :: st.index else st.index })

/-- `State::Input1`: both inputs transferred (`t0`, `t1`); returns the transferred literal. -/
def finish (cfg : Config) (st : St) (lit out t0 t1 : Nat) : Nat × St :=
  let (a, b) := sort2 t0 t1
  match (if cfg.fold then foldGate a b else none) with
  | some f => (f ^^^ lit ^^^ out, { st with litMap := st.litMap.insert out f })
  | none =>
    if cfg.hash then
      match ilookup ⟨a, b⟩ st.index with
      | some l => (l ^^^ lit ^^^ out, { st with litMap := st.litMap.insert out l })
      | none =>
        let (c, st') := st.push ⟨a, b⟩ out true
        (c ^^^ lit ^^^ out, st')
    else
      let (c, st') := st.push ⟨a, b⟩ out false
      (c ^^^ lit ^^^ out, st')

/-- `Renumber::transfer`.  `path` = the `lit` fields of the continuation stack, bottom first. -/
def transfer (cfg : Config) (defs : Defs) : Nat → List Nat → St → Nat → Res (Nat × St)
  | 0, _, _, _ => .outOfFuel
  | fuel + 1, path, st, lit =>
    match st.litMap.get lit with
    | some t => .ok (t, st)
    | none =>
      if path[path.length / 2]? = some lit then .error (.foundCycle lit)
      else match findDef defs lit with
        | none => .error (.notDefined lit)
        | some d =>
          match transfer cfg defs fuel (path ++ [lit]) st d.in0 with
          | .ok (t0, st1) =>
            match transfer cfg defs fuel (path ++ [lit]) st1 d.in1 with
            | .ok (t1, st2) => .ok (finish cfg st2 lit d.out t0 t1)
            | .error e => .error e
            | .outOfFuel => .outOfFuel
          | .error e => .error e
          | .outOfFuel => .outOfFuel

/-- `for &lit in lits { self.transfer(lit)?; }`. -/
def transferAll (cfg : Config) (defs : Defs) (fuel : Nat) : List Nat → St → Res St
  | [], st => .ok st
  | lit :: rest, st =>
    match transfer cfg defs fuel [] st lit with
    | .ok (_, st') => transferAll cfg defs fuel rest st'
    | .error e => .error e
    | .outOfFuel => .outOfFuel

/-- The literals `initialize` transfers, in its order. -/
def roots (cfg : Config) (a : Aig) : List Nat :=
  (if cfg.trim then [] else a.gates.map (·.out)) ++ a.latches.map (·.next) ++ a.outputs ++ a.bad ++
    a.constraints ++ a.fairness ++ a.justice.flatten

/-- The input loop of `initialize`. -/
def initInputs : List Nat → St → St
  | [], st => st
  | lit :: rest, st =>
    initInputs rest { st with lastCode := st.lastCode + 2,
                              litMap := st.litMap.insert lit (st.lastCode + 2) }

/-- The latch loop of `initialize` (with the duplicate check of the F2 fix). -/
def initLatches (defs : Defs) : List Latch → St → Except Err St
  | [], st => .ok st
  | l :: rest, st =>
    if defs.contains l.state || defs.contains (1 ^^^ l.state) || (st.litMap.get l.state).isSome then
      .error (.alreadyDefined l.state)
    else
      initLatches defs rest { st with lastCode := st.lastCode + 2,
                                      litMap := st.litMap.insert l.state (st.lastCode + 2) }

def St.init : St := { litMap := LitMap.insert [] 0 0, lastCode := 0, gates := [], index := [] }

/-- `Renumber::new` = `lit_defs` + `initialize`. -/
def initState (cfg : Config) (a : Aig) (fuel : Nat) : Res St :=
  match litDefs a with
  | .error e => .error e
  | .ok defs =>
    match initLatches defs a.latches (initInputs a.inputs St.init) with
    | .error e => .error e
    | .ok st => transferAll cfg defs fuel (roots cfg a) st

/-- `new.lit_map.get(lit).unwrap()`. -/
def mapLit (m : LitMap) (lit : Nat) : Nat := (m.get lit).getD 0

/-- `Renumber::renumber_aig`; the second component is the final `lit_map`. -/
def renumber (cfg : Config) (a : Aig) (fuel : Nat) : Res (OrderedAig × LitMap) :=
  match initState cfg a fuel with
  | .error e => .error e
  | .outOfFuel => .outOfFuel
  | .ok st =>
    .ok ({ maxVarIndex := st.lastCode / 2,
           inputCount := a.inputs.length,
           latches := a.latches.map fun l => { next := mapLit st.litMap l.next, init := l.init },
           outputs := a.outputs.map (mapLit st.litMap),
           bad := a.bad.map (mapLit st.litMap),
           constraints := a.constraints.map (mapLit st.litMap),
           justice := a.justice.map fun js => js.map (mapLit st.litMap),
           fairness := a.fairness.map (mapLit st.litMap),
           gates := st.gates }, st.litMap)

/-- Fuel that always suffices (theorem `C12.renumber_terminates`): the stack never gets deeper
than twice the number of gates before the mid-stack test fires. -/
def defaultFuel (a : Aig) : Nat := 2 * a.gates.length + 3

def renumberAig (cfg : Config) (a : Aig) : Res (OrderedAig × LitMap) :=
  renumber cfg a (defaultFuel a)

/-! ### Semantics (used by the property theorems and by the driver's self-check) -/

/-- Value of a literal under a valuation of variables: parity = negation. -/
def litVal (f : Nat → Bool) (lit : Nat) : Bool := f (lit / 2) != (lit % 2 == 1)

/-- Value of a literal in a list of variable values (variable index = list index). -/
def litValL (vals : List Bool) (lit : Nat) : Bool := vals.getD (lit / 2) false != (lit % 2 == 1)

/-- Forward evaluation of an ordered gate list: gate `i` becomes variable `base.length + i`. -/
def evalGates : List OGate → List Bool → List Bool
  | [], vals => vals
  | g :: rest, vals => evalGates rest (vals ++ [litValL vals g.in0 && litValL vals g.in1])

/-- All variable values of an ordered circuit: constant, inputs, latches, gates. -/
def evalOrd (gates : List OGate) (inputs latches : List Bool) : List Bool :=
  evalGates gates (false :: (inputs ++ latches))

end Flussab.Aig
