/-
L7: `flussab_aiger::aig::Renumber` once more — this time with the EXPLICIT STACK of
`Renumber::transfer` (`flussab-aiger/src/aig.rs`), as a small-step machine.

`Flussab/Model/Aig.lean` models `transfer` as a recursive function (fuel = recursion depth) whose
`path` argument stands for the `lit` fields of the continuation stack.  Here the loop
`'outer: loop { match state { … } }` is mirrored literally: the four `State`s, the two
`Continuation`s, `self.stack` as an `Array` (push / pop / `get(len / 2)` are O(1)), one machine step
per loop iteration (`stepStack`), a fuelled driver (`runStack`, fuel = number of loop iterations) and
one definition per Rust function (`Continuation::returning`, `Renumber::transfer`,
`Renumber::initialize`, `Renumber::new`, `Renumber::renumber_aig`).

The data conventions are those of `Model/Aig.lean` (codes are `Nat`, the hash maps are association
lists, `St` holds `lit_map`, `last_code`, `and_gates`, `and_gate_index`); `LitMap.get/insert`,
`findDef` (the `for output in [lit, lit ^ 1]` search), `sort2`, `foldGate`, `ilookup`, `litDefs` and
the two leaf loops `initInputs` / `initLatches` of `initialize` are reused from there, everything
that concerns the control flow of `transfer` is new.  `Flussab/Proof/AigStack*.lean` proves that
this machine and the recursive model compute the same results and the same final tables
(`Flussab.Aig.renumberStack_eq_renumberAig`).
-/
import Flussab.Model.Aig

namespace Flussab.Aig

/-- `enum Continuation<L> { Input0 { lit, def }, Input1 { lit, def } }`. -/
inductive Cont where
  | input0 (lit : Nat) (d : AndGate)
  | input1 (lit : Nat) (d : AndGate)
deriving Repr, DecidableEq, Inhabited

/-- The `lit` field of either continuation (what the cycle test
`Some(&Continuation::Input0 { lit: l, .. } | &Continuation::Input1 { lit: l, .. })` binds). -/
def Cont.lit : Cont → Nat
  | .input0 lit _ => lit
  | .input1 lit _ => lit

/-- `enum State<L> { Transfer { lit }, Input0 { lit, def, transferred },
Input1 { lit, def, transferred }, Return { transferred } }`. -/
inductive TState where
  | transfer (lit : Nat)
  | input0 (lit : Nat) (d : AndGate) (transferred : Nat)
  | input1 (lit : Nat) (d : AndGate) (transferred : Nat)
  | ret (transferred : Nat)
deriving Repr, DecidableEq, Inhabited

/-- `Continuation::returning`. -/
def Cont.returning : Cont → Nat → TState
  | .input0 lit d, transferred => .input0 lit d transferred
  | .input1 lit d, transferred => .input1 lit d transferred

/-- The mutable fields of `struct Renumber<L>`: `lit_map`, `last_code`, `and_gates`,
`and_gate_index` (= `St`) and `stack: Vec<Continuation<L>>`.  (`config` and `defs` never change and
are parameters.) -/
structure Renumber where
  st : St
  stack : Array Cont
deriving Repr, Inhabited

/-- A configuration of the loop in `transfer`: `self` and the local variable `state`. -/
structure StackState where
  rn : Renumber
  state : TState
deriving Repr, Inhabited

/-- What `transfer` returns, together with `self` at that moment (after `Err` the stack is left
as it is — `new` then drops the whole `Renumber`). -/
abbrev StackResult := Except Err Nat × Renumber

/-- The cycle test of `State::Transfer`:
```
match self.stack.get(self.stack.len() / 2) {
    Some(&Continuation::Input0 { lit: l, .. } | &Continuation::Input1 { lit: l, .. })
        if lit == l => return Err(AigStructureError::FoundCycle { lit }),
    _ => (),
};
``` -/
def cycleHit (stack : Array Cont) (lit : Nat) : Bool :=
  match stack[stack.size / 2]? with
  | some c => lit == c.lit
  | none => false

/-- The body of `State::Input1` after `def.inputs[1] = transferred` (`d.in0`, `d.in1` are the two
*transferred* inputs, `d.out` the defined literal); returns the literal to return and `self`. -/
def stepInput1 (cfg : Config) (st : St) (lit : Nat) (d : AndGate) : Nat × St :=
  -- def.inputs.sort_unstable_by_key(|input| !input.code());
  let (i0, i1) := sort2 d.in0 d.in1
  -- let and_gate = OrderedAndGate { inputs: def.inputs };
  let andGate : OGate := ⟨i0, i1⟩
  -- if self.config.const_fold { let codes = …; let mut folded = None;
  --   if codes[0] == 0 || codes[1] == 0 { folded = Some(L::from_code(0)); }
  --   else if codes[0] == 1 || codes[0] == codes[1] { folded = Some(def.inputs[1]); }
  --   else if codes[1] == 1 { folded = Some(def.inputs[0]); }
  let folded : Option Nat := if cfg.fold then foldGate i0 i1 else none
  match folded with
  | some f =>
    -- if let Some(folded) = folded { self.lit_map.insert(def.output, folded);
    --   state = State::Return { transferred: folded.code() ^ lit.code() ^ def.output.code() };
    (f ^^^ lit ^^^ d.out, { st with litMap := st.litMap.insert d.out f })
  | none =>
    if cfg.hash then
      -- match self.and_gate_index.entry(and_gate) {
      match ilookup andGate st.index with
      | some newLit =>
        -- Entry::Occupied(entry) => { new_lit = *entry.get(); new_code = new_lit.code(); }
        -- self.lit_map.insert(def.output, new_lit);
        (newLit ^^^ lit ^^^ d.out, { st with litMap := st.litMap.insert d.out newLit })
      | none =>
        -- Entry::Vacant(entry) => { self.last_code += 2; new_code = self.last_code;
        --   new_lit = L::from_code(new_code); entry.insert(new_lit);
        --   self.and_gates.push(OrderedAndGate { inputs: def.inputs }); }
        -- self.lit_map.insert(def.output, new_lit);
        let newCode := st.lastCode + 2
        (newCode ^^^ lit ^^^ d.out,
          { litMap := st.litMap.insert d.out newCode, lastCode := newCode,
            gates := st.gates ++ [andGate], index := (andGate, newCode) :: st.index })
    else
      -- self.last_code += 2; new_code = self.last_code; new_lit = L::from_code(new_code);
      -- self.and_gates.push(OrderedAndGate { inputs: def.inputs });
      -- self.lit_map.insert(def.output, new_lit);
      let newCode := st.lastCode + 2
      (newCode ^^^ lit ^^^ d.out,
        { litMap := st.litMap.insert d.out newCode, lastCode := newCode,
          gates := st.gates ++ [andGate], index := st.index })

/-- One iteration of `'outer: loop { match state { … } }` in `Renumber::transfer`:
either `continue 'outer` with a new configuration (`.inl`) or `return` (`.inr`). -/
def stepStack (cfg : Config) (defs : Defs) (s : StackState) : StackState ⊕ StackResult :=
  match s with
  | ⟨rn, .transfer lit⟩ =>
    -- if let Some(transferred) = self.lit_map.get(lit) { state = State::Return { transferred }; continue }
    match rn.st.litMap.get lit with
    | some transferred => .inl ⟨rn, .ret transferred⟩
    | none =>
      -- match self.stack.get(self.stack.len() / 2) { … if lit == l => return Err(FoundCycle { lit }) … }
      if cycleHit rn.stack lit then .inr (.error (.foundCycle lit), rn)
      else
        -- let mut def = None; for output in [lit, L::from_code(1 ^ lit.code())] { … }
        match findDef defs lit with
        -- let def = if let Some(def) = def { def } else { return Err(LitNotDefined { lit }) };
        | none => .inr (.error (.notDefined lit), rn)
        | some d =>
          -- self.stack.push(Continuation::Input0 { lit, def });
          -- state = State::Transfer { lit: def.inputs[0] };
          .inl ⟨{ rn with stack := rn.stack.push (.input0 lit d) }, .transfer d.in0⟩
  | ⟨rn, .input0 lit d transferred⟩ =>
    -- def.inputs[0] = transferred;
    let d' : AndGate := { d with in0 := transferred }
    -- self.stack.push(Continuation::Input1 { lit, def }); state = State::Transfer { lit: def.inputs[1] };
    .inl ⟨{ rn with stack := rn.stack.push (.input1 lit d') }, .transfer d'.in1⟩
  | ⟨rn, .input1 lit d transferred⟩ =>
    -- def.inputs[1] = transferred; … state = State::Return { transferred: … };
    let d' : AndGate := { d with in1 := transferred }
    let r := stepInput1 cfg rn.st lit d'
    .inl ⟨{ rn with st := r.2 }, .ret r.1⟩
  | ⟨rn, .ret transferred⟩ =>
    -- State::Return { transferred } => match self.stack.pop() {
    match rn.stack.back? with
    --   Some(continuation) => { state = continuation.returning(transferred); continue 'outer; }
    | some continuation => .inl ⟨{ rn with stack := rn.stack.pop }, continuation.returning transferred⟩
    --   None => return Ok(transferred),
    | none => .inr (.ok transferred, rn)

/-- The loop itself; `fuel` bounds the number of iterations (`14·gates + 6` always suffice for a
call from `initialize`: `Flussab.C12.transferStack_never_out_of_fuel`). -/
def runStack (cfg : Config) (defs : Defs) : Nat → StackState → Res (Nat × Renumber)
  | 0, _ => .outOfFuel
  | fuel + 1, s =>
    match stepStack cfg defs s with
    | .inl s' => runStack cfg defs fuel s'
    | .inr (.ok t, rn) => .ok (t, rn)
    | .inr (.error e, _) => .error e

/-- `Renumber::transfer`: `let mut state = State::Transfer { lit }; 'outer: loop { … }`. -/
def transferStack (cfg : Config) (defs : Defs) (fuel : Nat) (rn : Renumber) (lit : Nat) :
    Res (Nat × Renumber) :=
  runStack cfg defs fuel ⟨rn, .transfer lit⟩

/-- `for &lit in lits { self.transfer(lit)?; }` (each call gets `fuel` iterations). -/
def transferAllStack (cfg : Config) (defs : Defs) (fuel : Nat) : List Nat → Renumber → Res Renumber
  | [], rn => .ok rn
  | lit :: rest, rn =>
    match transferStack cfg defs fuel rn lit with
    | .ok (_, rn') => transferAllStack cfg defs fuel rest rn'
    | .error e => .error e
    | .outOfFuel => .outOfFuel

/-- `?` on a `Res`. -/
def Res.andThen {α β : Type} (r : Res α) (f : α → Res β) : Res β :=
  match r with
  | .ok a => f a
  | .error e => .error e
  | .outOfFuel => .outOfFuel

/-- `Renumber::initialize` (with the latch-state duplicate check of the F2 fix). -/
def initializeStack (cfg : Config) (defs : Defs) (fuel : Nat) (rn : Renumber) (a : Aig) :
    Res Renumber :=
  -- self.lit_map.insert(L::from_code(0), L::from_code(0));
  let st := { rn.st with litMap := rn.st.litMap.insert 0 0 }
  -- for &lit in &aig.inputs { self.last_code += 2; self.lit_map.insert(lit, self.last_code); }
  let st := initInputs a.inputs st
  -- for latch in &aig.latches { … return Err(LitAlreadyDefined { lit }) … }
  match initLatches defs a.latches st with
  | .error e => .error e
  | .ok st =>
    let rn : Renumber := { rn with st := st }
    -- if !self.config.trim { for and in &aig.and_gates { self.transfer(and.output)?; } }
    (if cfg.trim then .ok rn else transferAllStack cfg defs fuel (a.gates.map (·.out)) rn).andThen fun rn =>
    -- for latch in &aig.latches { self.transfer(latch.next_state)?; }
    (transferAllStack cfg defs fuel (a.latches.map (·.next)) rn).andThen fun rn =>
    -- for lits in [&aig.outputs, &aig.bad_state_properties, &aig.invariant_constraints,
    --              &aig.fairness_constraints] { for &lit in lits { self.transfer(lit)?; } }
    (transferAllStack cfg defs fuel a.outputs rn).andThen fun rn =>
    (transferAllStack cfg defs fuel a.bad rn).andThen fun rn =>
    (transferAllStack cfg defs fuel a.constraints rn).andThen fun rn =>
    (transferAllStack cfg defs fuel a.fairness rn).andThen fun rn =>
    -- for lits in &aig.justice_properties { for &lit in lits { self.transfer(lit)?; } }
    transferAllStack cfg defs fuel a.justice.flatten rn

/-- `Renumber::new`: `lit_defs()?`, the struct literal (`lit_map: Default::default(), last_code: 0,
stack: vec![], and_gates: vec![], and_gate_index: Default::default()`), `initialize(aig)?`. -/
def newStack (cfg : Config) (a : Aig) (fuel : Nat) : Res Renumber :=
  match litDefs a with
  | .error e => .error e
  | .ok defs =>
    let new : Renumber := { st := { litMap := [], lastCode := 0, gates := [], index := [] }, stack := #[] }
    initializeStack cfg defs fuel new a

/-- `Renumber::renumber_aig` (second component: the final `lit_map`, as `renumber`). -/
def renumberStackFuel (cfg : Config) (a : Aig) (fuel : Nat) : Res (OrderedAig × LitMap) :=
  match newStack cfg a fuel with
  | .error e => .error e
  | .outOfFuel => .outOfFuel
  | .ok new =>
    let m := new.st.litMap
    .ok ({ maxVarIndex := new.st.lastCode / 2,        -- new.last_code >> 1
           inputCount := a.inputs.length,
           latches := a.latches.map fun l => { next := mapLit m l.next, init := l.init },
           outputs := a.outputs.map (mapLit m),
           bad := a.bad.map (mapLit m),
           constraints := a.constraints.map (mapLit m),
           justice := a.justice.map fun js => js.map (mapLit m),
           fairness := a.fairness.map (mapLit m),
           gates := new.st.gates }, m)                 -- std::mem::take(&mut new.and_gates)

/-- Loop iterations that suffice for every single `transfer` call made by `initialize`
(`Flussab.C12.renumberStack_never_out_of_fuel`). -/
def stackFuel (a : Aig) : Nat := 14 * a.gates.length + 6

/-- Executable entry point, drop-in for `renumberAig`. -/
def renumberStack (cfg : Config) (a : Aig) : Res (OrderedAig × LitMap) :=
  renumberStackFuel cfg a (stackFuel a)

end Flussab.Aig
