/-
Contracts of the generated BTOR2 writer (`Gen/Btor2WriteGen.lean`, unit `tools/unit_btor2write.py`).
Trusted; kept small.

The generated functions work on Lean types of the *Rust* shape of `flussab-btor2/src/btor2.rs`: `Value`,
`Assignment`, `SingleValueOutput`, `Array` are records of their own and the operands of binary / ternary ops are
`[NodeId; 2]` / `[NodeId; 3]` (pairs / triples).  `Model/Btor2.lean` — the types the C03 round-trip theorems are
about — inlines all of these into `NodeVariant` / `Output` / `Op` / `BSort`; `toModel` is that inlining (a
bijection: `ofModel` is its inverse, `toModel_ofModel` / `ofModel_toModel` in `Proof/TieBtor2Write.lean`).

  `NodeId(NonZeroU64)`, `NonZeroU64`, `u64`        `Nat` (`.0.get()` / `.get()` are the value itself)
  `&BStr`, `&str`, `BinaryConst(&str)` ..          the bytes
  `Const`                                          the model's `Btor2.Const` (same shape)
  `UnaryOp`, `BinaryOp`, `TernaryOp`, `AssignmentKind`, `SingleValueOutputKind`   the enums of
                                                   `Gen/Btor2Tables.lean` (generated from the same file)

Second half: the vocabulary of the tie theorems (`Props/TieBtor2Write.lean`): the history of writer ops each
function issues (`Writer.Op.write bs` per `write_all_defer_err`, `dig n` per `ascii_digits`), run by
`AigerWriteExt.runSeq`, and the "fits into `u64`" predicates.
-/
import Flussab.Model.Btor2
import Flussab.Model.AigerWriteExt

namespace Flussab
namespace Btor2WriteExt
open Gen.Btor2 (UnaryOp BinaryOp TernaryOp AssignmentKind SingleValueOutputKind)

/-! ### the Rust shape of the line types -/

/-- `Array(pub NodeId, pub NodeId)`. -/
structure Arr where
  domain : Nat
  codomain : Nat
deriving Repr, DecidableEq, Inhabited

/-- `Sort`. -/
inductive BSort where
  | bitVec (width : Nat)
  | array (a : Arr)
deriving Repr, DecidableEq, Inhabited

/-- `Op`. -/
inductive Op where
  | unary (op : UnaryOp) (a0 : Nat)
  | binary (op : BinaryOp) (args : Nat × Nat)
  | ternary (op : TernaryOp) (args : Nat × Nat × Nat)
deriving Repr, DecidableEq, Inhabited

/-- `ValueVariant`. -/
inductive ValueVariant where
  | const (c : Btor2.Const)
  | input
  | state
  | op (o : Op)
deriving Repr, DecidableEq, Inhabited

/-- `Value`. -/
structure Value where
  sort : Nat
  variant : ValueVariant
deriving Repr, DecidableEq, Inhabited

/-- `Assignment`. -/
structure Assignment where
  state : Nat
  sort : Nat
  kind : AssignmentKind
  value : Nat
deriving Repr, DecidableEq, Inhabited

/-- `SingleValueOutput`. -/
structure SingleValueOutput where
  kind : SingleValueOutputKind
  value : Nat
deriving Repr, DecidableEq, Inhabited

/-- `Output`. -/
inductive Output where
  | singleValue (s : SingleValueOutput)
  | justice (nodes : List Nat)
deriving Repr, DecidableEq, Inhabited

/-- `NodeVariant`. -/
inductive NodeVariant where
  | sort (s : BSort)
  | value (v : Value)
  | assignment (a : Assignment)
  | output (o : Output)
deriving Repr, DecidableEq, Inhabited

/-- `Node`. -/
structure Node where
  id : Nat
  variant : NodeVariant
  symbol : Option (List UInt8)
  comment : Option (List UInt8)
deriving Repr, DecidableEq, Inhabited

/-- `Line`. -/
inductive Line where
  | comment (c : List UInt8)
  | node (n : Node)
deriving Repr, DecidableEq, Inhabited

/-! ### the inlining into the types of `Model/Btor2.lean` -/

def BSort.toModel : BSort → Btor2.BSort
  | .bitVec w => .bitVec w
  | .array a => .array a.domain a.codomain

def Op.toModel : Op → Btor2.Op
  | .unary op a0 => .unary op a0
  | .binary op (a0, a1) => .binary op a0 a1
  | .ternary op (a0, a1, a2) => .ternary op a0 a1 a2

def ValueVariant.toModel : ValueVariant → Btor2.ValueVariant
  | .const c => .const c
  | .input => .input
  | .state => .state
  | .op o => .op o.toModel

def Output.toModel : Output → Btor2.Output
  | .singleValue s => .singleValue s.kind s.value
  | .justice nodes => .justice nodes

def NodeVariant.toModel : NodeVariant → Btor2.NodeVariant
  | .sort s => .sort s.toModel
  | .value v => .value v.sort v.variant.toModel
  | .assignment a => .assignment a.state a.sort a.kind a.value
  | .output o => .output o.toModel

def Node.toModel (n : Node) : Btor2.Node :=
  { id := n.id, variant := n.variant.toModel, symbol := n.symbol, comment := n.comment }

def Line.toModel : Line → Btor2.Line
  | .comment c => .comment c
  | .node n => .node n.toModel

def BSort.ofModel : Btor2.BSort → BSort
  | .bitVec w => .bitVec w
  | .array d c => .array ⟨d, c⟩

def Op.ofModel : Btor2.Op → Op
  | .unary op a0 => .unary op a0
  | .binary op a0 a1 => .binary op (a0, a1)
  | .ternary op a0 a1 a2 => .ternary op (a0, a1, a2)

def ValueVariant.ofModel : Btor2.ValueVariant → ValueVariant
  | .const c => .const c
  | .input => .input
  | .state => .state
  | .op o => .op (Op.ofModel o)

def Output.ofModel : Btor2.Output → Output
  | .singleValue kind value => .singleValue ⟨kind, value⟩
  | .justice nodes => .justice nodes

def NodeVariant.ofModel : Btor2.NodeVariant → NodeVariant
  | .sort s => .sort (BSort.ofModel s)
  | .value so va => .value ⟨so, ValueVariant.ofModel va⟩
  | .assignment st so kind va => .assignment ⟨st, so, kind, va⟩
  | .output o => .output (Output.ofModel o)

def Node.ofModel (n : Btor2.Node) : Node :=
  { id := n.id, variant := NodeVariant.ofModel n.variant, symbol := n.symbol, comment := n.comment }

def Line.ofModel : Btor2.Line → Line
  | .comment c => .comment c
  | .node n => .node (Node.ofModel n)

/-! ### vocabulary of the tie theorems: writer ops per function -/

open Writer (Op)
open AigerWriteExt (dig runSeq)

/-- `NodeId::write_into`. -/
def opsNodeId (n : Nat) : List Writer.Op := [dig n]

/-- `Sort::write_into`. -/
def opsSort : BSort → List Writer.Op
  | .bitVec w => [.write [115, 111, 114, 116, 32, 98, 105, 116, 118, 101, 99, 32], dig w]
  | .array a => [.write [115, 111, 114, 116, 32, 97, 114, 114, 97, 121, 32], dig a.domain, .write [32], dig a.codomain]

/-- `Assignment::write_into`. -/
def opsAssignment (a : Assignment) : List Writer.Op :=
  [.write (match a.kind with | .init => [105, 110, 105, 116, 32] | .next => [110, 101, 120, 116, 32]),
   dig a.sort, .write [32], dig a.state, .write [32], dig a.value]

/-- `SingleValueOutput::write_into`. -/
def opsSingleValueOutput (s : SingleValueOutput) : List Writer.Op :=
  [.write (match s.kind with
      | .output => [111, 117, 116, 112, 117, 116, 32]
      | .bad => [98, 97, 100, 32]
      | .constraint => [99, 111, 110, 115, 116, 114, 97, 105, 110, 116, 32]
      | .fair => [102, 97, 105, 114, 32]),
   dig s.value]

/-- The `for node in nodes` loop of `Output::write_into`. -/
def opsNodes (nodes : List Nat) : List Writer.Op := nodes.flatMap fun n => [.write [32], dig n]

/-- `Output::write_into`. -/
def opsOutput : Output → List Writer.Op
  | .singleValue s => opsSingleValueOutput s
  | .justice nodes => [.write [106, 117, 115, 116, 105, 99, 101, 32], dig nodes.length] ++ opsNodes nodes

/-- `UnaryOp::write_indices_into`. -/
def opsIndices : UnaryOp → List Writer.Op
  | .uext w => [.write [32], dig w]
  | .sext w => [.write [32], dig w]
  | .slice u l => [.write [32], dig u, .write [32], dig l]
  | _ => []

/-- `Value::write_into`; the keywords of the ops are the `name()` tables of `Gen/Btor2Tables.lean`. -/
def opsValue (v : Value) : List Writer.Op :=
  match v.variant with
  | .const (.binary s) => [.write [99, 111, 110, 115, 116, 32], dig v.sort, .write [32], .write s]
  | .const (.hex s) => [.write [99, 111, 110, 115, 116, 104, 32], dig v.sort, .write [32], .write s]
  | .const (.decimal s) => [.write [99, 111, 110, 115, 116, 100, 32], dig v.sort, .write [32], .write s]
  | .const .one => [.write [111, 110, 101, 32], dig v.sort]
  | .const .ones => [.write [111, 110, 101, 115, 32], dig v.sort]
  | .const .zero => [.write [122, 101, 114, 111, 32], dig v.sort]
  | .input => [.write [105, 110, 112, 117, 116, 32], dig v.sort]
  | .state => [.write [115, 116, 97, 116, 101, 32], dig v.sort]
  | .op (.unary op a0) =>
    [.write (Gen.Btor2.unaryOpName op), .write [32], dig v.sort, .write [32], dig a0] ++ opsIndices op
  | .op (.binary op (a0, a1)) =>
    [.write (Gen.Btor2.binaryOpName op), .write [32], dig v.sort, .write [32], dig a0, .write [32], dig a1]
  | .op (.ternary op (a0, a1, a2)) =>
    [.write (Gen.Btor2.ternaryOpName op), .write [32], dig v.sort, .write [32], dig a0, .write [32], dig a1,
     .write [32], dig a2]

/-- `NodeVariant::write_into`. -/
def opsVariant : NodeVariant → List Writer.Op
  | .sort s => opsSort s
  | .value v => opsValue v
  | .assignment a => opsAssignment a
  | .output o => opsOutput o

/-- The symbol / comment trailer of `Node::write_into`. -/
def opsTrailer (symbol comment : Option (List UInt8)) : List Writer.Op :=
  (match symbol with | some s => [.write [32], .write s] | none => []) ++
  (match comment with | some c => [.write [32, 59], .write c] | none => [])

/-- `Node::write_into`. -/
def opsNode (n : Node) : List Writer.Op :=
  [dig n.id, .write [32]] ++ opsVariant n.variant ++ opsTrailer n.symbol n.comment

/-- `Line::write_into_unterminated`. -/
def opsLineUnterminated : Line → List Writer.Op
  | .comment c => [.write [59], .write c]
  | .node n => opsNode n

/-- `Line::write_into`. -/
def opsLine (l : Line) : List Writer.Op := opsLineUnterminated l ++ [.write [10]]

/-! ### "every number is a `u64`" -/

/-- A `u64` / `usize` value. -/
def U64 (n : Nat) : Prop := n < 2 ^ 64

def BSort.Fits : BSort → Prop
  | .bitVec w => U64 w
  | .array a => U64 a.domain ∧ U64 a.codomain

def Assignment.Fits (a : Assignment) : Prop := U64 a.sort ∧ U64 a.state ∧ U64 a.value

def SingleValueOutput.Fits (s : SingleValueOutput) : Prop := U64 s.value

/-- `nodes.len()` is a `usize` (a slice), every node id a `u64`. -/
def Output.Fits : Output → Prop
  | .singleValue s => s.Fits
  | .justice nodes => U64 nodes.length ∧ ∀ n ∈ nodes, U64 n

def unaryFits : UnaryOp → Prop
  | .uext w => U64 w
  | .sext w => U64 w
  | .slice u l => U64 u ∧ U64 l
  | _ => True

def Op.Fits : Btor2WriteExt.Op → Prop
  | .unary op a0 => unaryFits op ∧ U64 a0
  | .binary _ (a0, a1) => U64 a0 ∧ U64 a1
  | .ternary _ (a0, a1, a2) => U64 a0 ∧ U64 a1 ∧ U64 a2

def Value.Fits (v : Value) : Prop :=
  U64 v.sort ∧ (match v.variant with | .op o => o.Fits | _ => True)

def NodeVariant.Fits : NodeVariant → Prop
  | .sort s => s.Fits
  | .value v => v.Fits
  | .assignment a => a.Fits
  | .output o => o.Fits

def Node.Fits (n : Node) : Prop := U64 n.id ∧ n.variant.Fits

def Line.Fits : Line → Prop
  | .comment _ => True
  | .node n => n.Fits

end Btor2WriteExt
end Flussab
