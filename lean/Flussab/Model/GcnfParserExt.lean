/-
Support for the generated streaming GCNF parser (`Gen/GcnfParserGen.lean`, from `flussab-cnf/src/gcnf.rs`,
`impl Parser`).  Hand-written; part of the trusted base.  Same design as `Model/CnfParserExt.lean` (plain CNF and
WCNF), for the GCNF parser struct, which has the two extra fields `group_limit`, `group_limit_is_hard`.

State (see `tools/unit_gcnfparser.py`): the fields of the Rust `gcnf::Parser<'a, L>` other than the reader are the
record `Cnf.GParserS`; the reader is the state `LR` of the parser monad `PM`.  The generated code runs in
`GPPM = StateT Cnf.GParserS PM`.

Types: as in `Model/CnfParserExt.lean`; `group_limit : usize`, which receives `usize::MAX` or
`header.group_count` (a value of the generic number token), is an `Int`.

Contracts: the `flussab::Parsed` combinators of `flussab/src/parser.rs` over `GPPM` (the definitions of
`Model/CnfParserExt.lean` with the other state record), `token::clause_lits` with the out-parameter `lit_buf`
(as in `Model/CnfParserExt.lean`), and `token::clause_group(input, limit, hard_limit)` (`hard_limit` only selects a
message).  `usize as isize` is `CnfParserExt.usizeAsIsize`; `Config` is `Cnf.Config`.
-/
import Flussab.Model.CnfParserExt

namespace Flussab
namespace Cnf

/-- The fields of `gcnf::Parser<'a, L>` without `reader`. -/
structure GParserS where
  clauseCount : Nat
  clauseLimit : Int
  clauseLimitActive : Bool
  litLimit : Int
  litLimitIsHard : Bool
  groupLimit : Int
  groupLimitIsHard : Bool
  litBuf : List Int
  header : Option Header
deriving Repr, DecidableEq, Inhabited

end Cnf

abbrev GPPM := StateT Cnf.GParserS PM

namespace GcnfParserExt
open PM

/-- A token-level computation (acts on the reader only). -/
def tok {α : Type} (x : PM α) : GPPM α := StateT.lift x

def getP : GPPM Cnf.GParserS := get
def setP (s : Cnf.GParserS) : GPPM Unit := set s
def modifyP (f : Cnf.GParserS → Cnf.GParserS) : GPPM Unit := modify f
def getLR : GPPM LR := tok PMExt.getLR

/-- `Parsed::or_parse`. -/
def orParse {α : Type} (p : Option α) (parse : GPPM (Option α)) : GPPM (Option α) :=
  match p with
  | some a => pure (some a)
  | none => parse

/-- `Parsed::or_give_up`: `Res(result) => result`, `Fallthrough => Err(err())`. -/
def orGiveUp {α : Type} (p : Option α) (err : GPPM α) : GPPM α :=
  match p with
  | some a => pure a
  | none => err

/-- `Parsed::and_also`: on `Res(Ok(v))` run `parse(&mut v)` (an `Err` is the outcome), otherwise unchanged. -/
def andAlso {α : Type} (p : Option α) (f : α → GPPM Unit) : GPPM (Option α) :=
  match p with
  | some v => do f v; pure (some v)
  | none => pure none

/-- `Parsed::and_then`: on `Res(Ok(v))` the result of `parse(v)`, `Fallthrough => Fallthrough`. -/
def andThen {α β : Type} (p : Option α) (f : α → GPPM β) : GPPM (Option β) :=
  match p with
  | some v => do pure (some (← f v))
  | none => pure none

/-- `token::clause_lits(input, &mut self.lit_buf, limit, hard_limit)`: the model `Cnf.clauseLits` with the
out-parameter stored in the field (`hard_limit` only selects a message). -/
def clauseLits (l : Cnf.LitTy) (limit : Int) (_hard : Bool) : GPPM (Option Unit) := do
  match ← tok (Cnf.clauseLits l limit) with
  | none => pure none
  | some lits =>
    modifyP fun r => { r with litBuf := lits }
    pure (some ())

/-- `token::clause_group(input, limit, hard_limit)` (`hard_limit` only selects a message). -/
def clauseGroup (limit : Int) (_hard : Bool) : GPPM (Option Int) := tok (Cnf.clauseGroup limit)

end GcnfParserExt
end Flussab
