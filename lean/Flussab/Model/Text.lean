/-
L2: `flussab::text` — the scanners, written against the view (L1').

Every function takes the view and an offset and returns its result together with the view after
the `request_byte_at_offset` calls it made (only the ghosts `peeked`, `sawEnd`, `ioErr` can
change: scanners never consume).  The `_multi` variants look at `buf_len()`, which depends on the
read schedule; here it is the explicit parameter `bl` ("some number of bytes is buffered"), and
property C13 is the theorem that the result does not depend on it.
-/
import Flussab.Model.View
import Flussab.Gen.Swar

namespace Flussab

/-- A Rust primitive integer type: signedness and width (`isize`/`usize` are 64 bit). -/
structure IntTy where
  signed : Bool
  bits : Nat
deriving Repr, DecidableEq, Inhabited

namespace IntTy

def minVal (t : IntTy) : Int := if t.signed then -(2 ^ (t.bits - 1) : Nat) else 0
def maxVal (t : IntTy) : Int := if t.signed then (2 ^ (t.bits - 1) : Nat) - 1 else (2 ^ t.bits : Nat) - 1
def fits (t : IntTy) (x : Int) : Bool := decide (t.minVal ≤ x) && decide (x ≤ t.maxVal)

/-- Two's-complement wrap of a mathematical integer into the type. -/
def wrap (t : IntTy) (x : Int) : Int :=
  let m : Int := (2 ^ t.bits : Nat)
  let r := x % m
  if t.signed && decide (r ≥ (2 ^ (t.bits - 1) : Nat)) then r - m else r

/-- `overflowing_mul` / `overflowing_add` / `overflowing_sub`: wrapped value and overflow flag. -/
def omul (t : IntTy) (a b : Int) : Int × Bool := (t.wrap (a * b), !t.fits (a * b))
def oadd (t : IntTy) (a b : Int) : Int × Bool := (t.wrap (a + b), !t.fits (a + b))
def osub (t : IntTy) (a b : Int) : Int × Bool := (t.wrap (a - b), !t.fits (a - b))

/-- `FromPrimitive::from_u32` / `from_i32`. -/
def fromInt (t : IntTy) (x : Int) : Option Int := if t.fits x then some x else none

end IntTy

def isDigit (b : UInt8) : Bool := 48 ≤ b && b ≤ 57
def digitVal (b : UInt8) : Int := (b.toNat - 48 : Nat)
def isBlank (b : UInt8) : Bool := b == 32 || b == 9

namespace Text

/-- Body shared by every `while let Some(digit @ b'0'..=b'9') = request_byte_at_offset(offset)`
loop: accumulate with sticky overflow flag; `sub` selects `overflowing_sub` (negative numbers).
Returns value, flag and the number of digits passed over. -/
def digitsLoop (t : IntTy) (sub : Bool) : VBytes → Int → Bool → Nat → Int × Bool × Nat
  | b :: bs, v, o, n =>
    if isDigit b then
      let (v1, o1) := t.omul v 10
      let (v2, o2) := if sub then t.osub v1 (digitVal b) else t.oadd v1 (digitVal b)
      digitsLoop t sub bs v2 (o || o1 || o2) (n + 1)
    else (v, o, n)
  | [], v, o, n => (v, o, n)

/-- `ascii_digits_cont_pos` / `_cont_neg`, and (with `value = some 0`) `ascii_digits`. -/
def digitsCont (t : IntTy) (sub : Bool) (v : View) (off : Nat) (value : Option Int) :
    (Option Int × Nat) × View :=
  let (val, ov, n) := digitsLoop t sub (v.rest.drop off) (value.getD 0) value.isNone 0
  ((if ov then none else some val, off + n), v.demand (off + n))

/-- `ascii_digits`. -/
def asciiDigits (t : IntTy) (v : View) (off : Nat) : (Option Int × Nat) × View :=
  digitsCont t false v off (some 0)

/-- `signed_ascii_digits` (after the `fix:` of F13: the first digit is subtracted with
`overflowing_sub`). -/
def signedAsciiDigits (t : IntTy) (v : View) (off : Nat) : (Option Int × Nat) × View :=
  match v.rest[off]? with
  | some 45 =>
    let v1 := v.demand off
    match v.rest[off + 1]? with
    | some d =>
      if isDigit d then
        -- the loop starting at the first digit with value 0 is exactly: first digit via
        -- `0.overflowing_sub(d)`, then `*10 - d` for the rest (0 * 10 never overflows)
        let (v0, o0) := t.osub 0 (digitVal d)
        let (val, ov, n) := digitsLoop t true (v.rest.drop (off + 2)) v0 o0 0
        ((if ov then none else some val, off + 2 + n), (v1.demand (off + 1)).demand (off + 2 + n))
      else ((some 0, off), v1.demand (off + 1))
    | none => ((some 0, off), v1.demand (off + 1))
  | _ => digitsCont t false v off (some 0)

/-- Little-endian 64-bit word of the 8 bytes at the front of a list (missing bytes = 0):
`u64::from_le_bytes(*(ptr as *const [u8; 8]))`. -/
def le64 (bs : VBytes) : BitVec 64 :=
  (bs.getD 0 0).toBitVec.setWidth 64 ||| ((bs.getD 1 0).toBitVec.setWidth 64 <<< 8) |||
  ((bs.getD 2 0).toBitVec.setWidth 64 <<< 16) ||| ((bs.getD 3 0).toBitVec.setWidth 64 <<< 24) |||
  ((bs.getD 4 0).toBitVec.setWidth 64 <<< 32) ||| ((bs.getD 5 0).toBitVec.setWidth 64 <<< 40) |||
  ((bs.getD 6 0).toBitVec.setWidth 64 <<< 48) ||| ((bs.getD 7 0).toBitVec.setWidth 64 <<< 56)

/-- `ascii_digits_multi`: `bl` = `buf_len()`. -/
def asciiDigitsMulti (t : IntTy) (v : View) (off : Nat) (bl : Nat) : (Option Int × Nat) × View :=
  if bl < off + 8 then asciiDigits t v off
  else
    let word := le64 (v.rest.drop off)
    let (value, md) := Gen.swarAsciiDigitsU64Le word
    let value := t.fromInt value.toNat
    if md == 8 then digitsCont t false v (off + 8) value
    else ((value, off + md), v)

/-- `signed_ascii_digits_multi`. -/
def signedAsciiDigitsMulti (t : IntTy) (v : View) (off : Nat) (bl : Nat) : (Option Int × Nat) × View :=
  if bl < off + 8 then signedAsciiDigits t v off
  else
    let word := le64 (v.rest.drop off)
    if word &&& 0xff#64 == 45#64 then
      let word := word >>> 8
      let (value, md) := Gen.swarAsciiDigitsU64Le word
      -- `-(value as i32)`: value < 10^7 here, no wrap
      let value := t.fromInt (-(value.toNat : Int))
      if md == 7 then digitsCont t true v (off + 8) value
      else ((value, off + (if md != 0 then 1 else 0) + md), v)
    else
      let (value, md) := Gen.swarAsciiDigitsU64Le word
      let value := t.fromInt value.toNat
      if md == 8 then digitsCont t false v (off + 8) value
      else ((value, off + md), v)

/-- Length of the leading run of bytes satisfying `p`. -/
def runLen (p : UInt8 → Bool) : VBytes → Nat
  | b :: bs => if p b then runLen p bs + 1 else 0
  | [] => 0

/-- `tabs_or_spaces`. -/
def tabsOrSpaces (v : View) (off : Nat) : Nat × View :=
  let n := runLen isBlank (v.rest.drop off)
  (off + n, v.demand (off + n))

/-- `newline`. -/
def newline (v : View) (off : Nat) : Nat × View :=
  match v.rest[off]? with
  | some 10 => (off + 1, v.demand off)
  | some 13 =>
    match v.rest[off + 1]? with
    | some 10 => (off + 2, (v.demand off).demand (off + 1))
    | _ => (off, (v.demand off).demand (off + 1))
  | _ => (off, v.demand off)

/-- `next_newline`. -/
def nextNewline (v : View) (off : Nat) : Nat × View :=
  let n := runLen (· != 10) (v.rest.drop off)
  let v1 := v.demand (off + n)
  -- `offset + request_byte_at_offset(offset).is_some() as usize`
  (off + n + (if (v.rest[off + n]?).isSome then 1 else 0), v1)

/-- Index of the first position where `pat` is not matched by `bs` (`pat.length` if it matches). -/
def matchLen : VBytes → VBytes → Nat
  | p :: ps, b :: bs => if p == b then matchLen ps bs + 1 else 0
  | _, _ => 0

/-- `fixed`. -/
def fixed (v : View) (off : Nat) (pat : VBytes) : Nat × View :=
  let m := matchLen pat (v.rest.drop off)
  if m = pat.length then
    (off + pat.length, if pat.isEmpty then v else v.demand (off + pat.length - 1))
  else (off, v.demand (off + m))

end Text
end Flussab
