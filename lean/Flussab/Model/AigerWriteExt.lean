/-
Contracts of the external operations used by the generated AIGER format writers
(`Gen/AigerWriteGen.lean`, `Gen/AigerBinWriteGen.lean`; units `tools/unit_aigerwrite.py`,
`tools/unit_aigerbinwrite.py`).  Trusted; kept small.

  `binary::Writer { writer, code, codec }`  `BinWriter` (the `DeferredWriter` model and the next-literal counter;
                                            `codec: PhantomData` has no content); `liftW` runs a computation of
                                            the `DeferredWriter` on the field `writer`
  `ascii::Writer { writer, codec }`         `#[repr(transparent)]` wrapper: the state is the `DeferredWriter`
  `symbol.target`                           the model's `Symbol` keeps `kind` and `index` apart; `Aiger.Symbol.target`
                                            re-assembles the Rust enum `SymbolTarget`
  `<[usize]>::split_last`                   `splitLast`
  `bytes[i] = v` on `[u8; N]`               `setChecked` (`none` = index out of range = panic)
-/
import Flussab.Model.Aiger
import Flussab.Model.Writer
import Flussab.Model.Rt

namespace Flussab
namespace AigerWriteExt

/-- `flussab_aiger::aig::SymbolTarget`. -/
inductive SymbolTarget where
  | input (index : Nat)
  | output (index : Nat)
  | latch (index : Nat)
  | bad (index : Nat)
  | constraint (index : Nat)
  | justice (index : Nat)
  | fairness (index : Nat)
deriving Repr, DecidableEq, Inhabited

/-- `symbol.target`. -/
def _root_.Flussab.Aiger.Symbol.target (s : Aiger.Symbol) : SymbolTarget :=
  match s.kind with
  | .input => .input s.index
  | .output => .output s.index
  | .latch => .latch s.index
  | .bad => .bad s.index
  | .constraint => .constraint s.index
  | .justice => .justice s.index
  | .fairness => .fairness s.index

/-- `<[T]>::split_last`. -/
def splitLast (l : List Nat) : Option (Nat × List Nat) :=
  match l.reverse with
  | [] => none
  | x :: r => some (x, r.reverse)

/-- `bytes[i] = v` with Rust's bounds check. -/
def setChecked (l : List UInt8) (i : Nat) (v : UInt8) : Option (List UInt8) :=
  if i < l.length then some (l.set i v) else none

/-- `binary::Writer`. -/
structure BinWriter where
  writer : Writer
  code : Nat
deriving Inhabited

/-- A computation of the `DeferredWriter`, run on `self.writer`. -/
@[inline] def liftW {α : Type} (x : RM Writer α) : RM BinWriter α := fun s =>
  let p := x s.writer
  (p.1, { s with writer := p.2 })

/-! ### Vocabulary of the tie theorems (`Props/TieAigerWrite.lean`): writer ops per format piece -/

open Writer (Op)

/-- `ascii_digits::<usize>(writer, n)`. -/
def dig (n : Nat) : Op := .digits false 64 (Int.ofNat n)

/-- Run a list of writer ops the way a Rust function body runs them: a panic (`none`, the sink panicked
inside `write_all`) ends the sequence. -/
def runSeq : List Op → Writer → Option Unit × Writer
  | [], w => (some (), w)
  | op :: ops, w =>
    match op.run w with
    | (none, w') => (none, w')
    | (some _, w') => runSeq ops w'

def opsLit (c : Nat) : List Op := [dig c, .write [10]]

def opsInit (init : Option Bool) (stateCode : Nat) : List Op :=
  match init with
  | some true => [.write [32, 49, 10]]
  | some false => [.write [10]]
  | none => [.write [32], dig stateCode, .write [10]]

def opsLatchAscii (l : Aiger.Latch) : List Op :=
  [dig l.state, .write [32], dig l.next] ++ opsInit l.init l.state

def opsAndGateAscii (g : Aiger.AndGate) : List Op :=
  [dig g.out, .write [32], dig g.in0, .write [32], dig g.in1, .write [10]]

def opsSymbol (s : Aiger.Symbol) : List Op :=
  [.write [Aiger.symPrefix s.kind], dig s.index, .write [32], .write s.name, .write [10]]

def opsComment (c : List UInt8) : List Op := [.write [99, 10], .write c, .write [10]]

def opsFields (fs : List Nat) : List Op := fs.flatMap fun f => [.write [32], dig f]

def opsHeader (bin : Bool) (h : Aiger.Header) : List Op :=
  [.write (Aiger.magic bin)] ++ opsFields (Aiger.trimFields (Aiger.headerFields h)) ++ [.write [10]]

/-- Every header field is a `usize`. -/
def HeaderFits (h : Aiger.Header) : Prop := ∀ f ∈ Aiger.headerFields h, f < 2 ^ 64

/-- `self.code = header.input_count.wrapping_add(1).wrapping_mul(2)` (`binary::Writer::write_header`). -/
def headerCode (h : Aiger.Header) : Nat := ((h.inputCount + 1) % 2 ^ 64 * 2) % 2 ^ 64

/-- `binary::Writer::write_latch` with the counter at `code`. -/
def opsLatchBin (l : Aiger.OLatch) (code : Nat) : List Op := [dig l.next] ++ opsInit l.init code

/-- `binary::Writer::write_and_gate`: the input codes after the swap (`code_0 ≥ code_1`). -/
def gateCodes (g : Aiger.OGate) : Nat × Nat := if g.in0 < g.in1 then (g.in1, g.in0) else (g.in0, g.in1)

/-- Run writer ops on the `writer` field of the binary writer. -/
def runSeqB (ops : List Op) (s : BinWriter) : Option Unit × BinWriter :=
  let p := runSeq ops s.writer
  (p.1, { s with writer := p.2 })

/-- Outcome of a model action of `Aiger.WM` started with the counter at `code`: `none` = panic (`throw`),
`some (bytes emitted, new counter)`. -/
def wmOut (m : Aiger.WM Unit) (code : Nat) : Option (List UInt8 × Nat) :=
  match m.run { out := [], code := code } with
  | .ok (_, b) => some (b.out, b.code)
  | .error _ => none

end AigerWriteExt
end Flussab
