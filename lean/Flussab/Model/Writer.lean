/-
L4: `flussab::DeferredWriter` (`flussab/src/deferred_writer.rs`) and `flussab::write::text`
(`flussab/src/write/text.rs`) over a scheduled sink.

The sink is the adversary of property C11: short writes, `Interrupted`, `Ok(0)`, a terminal
error, a panic — one schedule entry per `write` call.  `std::io::Write::write_all` (the default
method the writer calls on the sink) is modelled by its documented loop.
-/
namespace Flussab

abbrev WBytes := List UInt8

/-- One entry of a sink schedule (what the next `write` call does). -/
inductive WEv where
  /-- accept at most `n` bytes (at least one) -/
  | accept (n : Nat)
  | intr
  /-- `Ok(0)` although the slice is non-empty -/
  | zero
  /-- terminal error -/
  | fail
  /-- the sink panics -/
  | panic
deriving Repr, DecidableEq, Inhabited

structure Sink where
  sched : List WEv
  /-- every byte the sink accepted, in order -/
  sunk : WBytes := []
  /-- ghost: (offered length, accepted length or error code) per `write` call -/
  log : List (Nat × Nat) := []
deriving Repr, Inhabited

inductive WRes where
  | ok
  | err
  | panic
deriving Repr, DecidableEq, Inhabited

namespace Sink

/-- One `write(buf)` call: `(bytes accepted or outcome, sink)`. Codes in the log: accepted count,
`1000001` = Interrupted, `1000002` = terminal error, `1000003` = panic. -/
def write1 (s : Sink) (buf : WBytes) : (Option Nat × WRes) × Sink :=
  match s.sched with
  | [] => ((some buf.length, .ok), { s with sunk := s.sunk ++ buf, log := s.log ++ [(buf.length, buf.length)] })
  | .accept n :: rest =>
    let k := min (max n 1) buf.length
    ((some k, .ok), { s with sched := rest, sunk := s.sunk ++ buf.take k, log := s.log ++ [(buf.length, k)] })
  | .intr :: rest => ((none, .ok), { s with sched := rest, log := s.log ++ [(buf.length, 1000001)] })
  | .zero :: rest => ((some 0, .ok), { s with sched := rest, log := s.log ++ [(buf.length, 0)] })
  | .fail :: rest => ((none, .err), { s with sched := rest, log := s.log ++ [(buf.length, 1000002)] })
  | .panic :: rest => ((none, .panic), { s with sched := rest, log := s.log ++ [(buf.length, 1000003)] })

/-- `write_all(buf)`: `while !buf.is_empty() { match write(buf) { Ok(0) => Err(WriteZero),
Ok(n) => buf = &buf[n..], Err(Interrupted) => {}, Err(e) => return Err(e) } }`.
Fuel = `buf.length + sched.length + 1` always suffices (each call consumes a byte or an event). -/
def writeAllLoop : Nat → Sink → WBytes → WRes × Sink
  | 0, s, _ => (.ok, s)
  | f + 1, s, buf =>
    if buf.isEmpty then (.ok, s) else
    match s.write1 buf with
    | ((_, .panic), s') => (.panic, s')
    | ((_, .err), s') => (.err, s')
    | ((some 0, .ok), s') => (.err, s')
    | ((some n, .ok), s') => writeAllLoop f s' (buf.drop n)
    | ((none, .ok), s') => writeAllLoop f s' buf

def writeAll (s : Sink) (buf : WBytes) : WRes × Sink :=
  writeAllLoop (buf.length + s.sched.length + 1) s buf

end Sink

structure Writer where
  sink : Sink
  buf : WBytes := []
  cap : Nat := 16384
  ioError : Bool := false
  panicked : Bool := false
deriving Repr, Inhabited

namespace Writer

/-- `flush_defer_err`; `none` = the sink panicked (unwinding with `panicked = true`). -/
def flushDeferErr (w : Writer) : Option Unit × Writer :=
  if !w.ioError then
    match w.sink.writeAll w.buf with
    | (.panic, s) => (none, { w with sink := s, panicked := true })
    | (.err, s) => (some (), { w with sink := s, ioError := true, buf := [], panicked := false })
    | (.ok, s) => (some (), { w with sink := s, buf := [], panicked := false })
  else (some (), { w with buf := [] })

/-- `write_all_defer_err_cold`. -/
def writeCold (w : Writer) (bs : WBytes) : Option Unit × Writer :=
  -- fill the internal buffer up to capacity if the slice alone needs no write of its own
  let (w1, bs1) : Writer × WBytes :=
    if bs.length < w.cap then
      ({ w with buf := w.buf ++ bs.take (w.cap - w.buf.length) }, bs.drop (w.cap - w.buf.length))
    else (w, bs)
  match w1.flushDeferErr with
  | (none, w2) => (none, w2)
  | (some (), w2) =>
    if bs1.length < w2.cap then (some (), { w2 with buf := w2.buf ++ bs1 })
    else if !w2.ioError then
      match w2.sink.writeAll bs1 with
      | (.panic, s) => (none, { w2 with sink := s, panicked := true })
      | (.err, s) => (some (), { w2 with sink := s, ioError := true, panicked := false })
      | (.ok, s) => (some (), { w2 with sink := s, panicked := false })
    else (some (), w2)

/-- `write_all_defer_err` (= `write`, `write_all`). -/
def writeAllDeferErr (w : Writer) (bs : WBytes) : Option Unit × Writer :=
  if w.buf.length + bs.length ≤ w.cap then (some (), { w with buf := w.buf ++ bs })
  else w.writeCold bs

/-- `check_io_error`: `true` = `Err`. -/
def checkIoError (w : Writer) : Bool × Writer := (w.ioError, { w with ioError := false })

/-- `flush`: `flush_defer_err(); check_io_error()`. -/
def flush (w : Writer) : Option Bool × Writer :=
  match w.flushDeferErr with
  | (none, w') => (none, w')
  | (some (), w') => let (e, w'') := w'.checkIoError; (some e, w'')

/-- `Drop`: `if !panicked { flush_defer_err() }`. -/
def drop (w : Writer) : Option Unit × Writer :=
  if !w.panicked then w.flushDeferErr else (some (), w)

/-- Canonical decimal digits of a natural number (what `itoap` emits). -/
def natDigitsAux : Nat → Nat → WBytes → WBytes
  | 0, _, acc => acc
  | f + 1, n, acc =>
    let acc := UInt8.ofNat (48 + n % 10) :: acc
    if n / 10 = 0 then acc else natDigitsAux f (n / 10) acc

def natDigits (n : Nat) : WBytes := natDigitsAux (n + 1) n []

def intDigits (x : Int) : WBytes :=
  if x < 0 then 45 :: natDigits x.natAbs else natDigits x.natAbs

/-- `itoap::Integer::MAX_LEN`: the digits of the unsigned type of that width (3, 5, 10, 20, 39),
plus one for the signed types (`impl_integer!`: `$max_len + 1`). -/
def maxLen (signed : Bool) (bits : Nat) : Nat :=
  (natDigits (2 ^ bits)).length + (if signed then 1 else 0)

/-- `write::text::ascii_digits`: in place when `MAX_LEN` bytes of room are left, otherwise via
`itoap::write` → `write_all`. -/
def asciiDigits (w : Writer) (signed : Bool) (bits : Nat) (x : Int) : Option Unit × Writer :=
  if w.buf.length + maxLen signed bits ≤ w.cap then (some (), { w with buf := w.buf ++ intDigits x })
  else w.writeAllDeferErr (intDigits x)

/-- `buf_write_ptr(len)` + writing `bs` (`bs.length ≤ len`) + `advance_unchecked(bs.length)`;
`false` = null pointer (no room), nothing written. -/
def ptrWrite (w : Writer) (len : Nat) (bs : WBytes) : Bool × Writer :=
  if w.buf.length + len ≤ w.cap then (true, { w with buf := w.buf ++ bs.take len })
  else (false, w)

inductive Op where
  | write (bs : WBytes)
  | digits (signed : Bool) (bits : Nat) (x : Int)
  | ptr (len : Nat) (bs : WBytes)
  | flush
  | flushDefer
  | check
  | drop
deriving Repr, Inhabited

/-- Result of an op: `none` = panic propagated to the caller; `some b` = returned, `b` = an
error was reported (`flush`, `check`) / pointer was non-null (`ptr`). -/
def Op.run (w : Writer) : Op → Option Bool × Writer
  | .write bs => match w.writeAllDeferErr bs with
      | (none, w') => (none, w') | (some (), w') => (some false, w')
  | .digits s b x => match w.asciiDigits s b x with
      | (none, w') => (none, w') | (some (), w') => (some false, w')
  | .ptr len bs => let (ok, w') := w.ptrWrite len bs; (some ok, w')
  | .flush => w.flush
  | .flushDefer => match w.flushDeferErr with
      | (none, w') => (none, w') | (some (), w') => (some false, w')
  | .check => let (e, w') := w.checkIoError; (some e, w')
  | .drop => match w.drop with
      | (none, w') => (none, w') | (some (), w') => (some false, w')

end Writer
end Flussab
