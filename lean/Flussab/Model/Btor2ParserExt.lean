/-
Support for the generated BTOR2 line parser (`Gen/Btor2ParserGen.lean`, from
`flussab-btor2/src/parser.rs`, `impl Parser`).  Hand-written; part of the trusted base.

State (see `tools/unit_btor2parser.py`): the fields of the Rust `Parser<'a>` other than the reader are the
record `Btor2.ParserS` (the three scratch buffers); the reader (`self.reader`) is the state `LR` of the parser
monad `PM`.  The generated code runs in `BPM = StateT Btor2.ParserS PM`: a thrown `ParseError` leaves only the
reader state (the buffers of a failed call are not observable: the next `try_node` clears a buffer before it
uses it).

Types: the generated code builds values of the model's types `Btor2.Node`, `Btor2.Line`, ... — including the
*placeholder* values the Rust code builds to satisfy the borrow checker: `""`, `"".into()` and `&[]` are the
empty byte list / empty list.  `String` / `BString` / `Vec<NodeId>` buffers are byte lists / lists of ids.

Contracts:
* the `flussab::Parsed` combinators of `flussab/src/parser.rs` over `BPM`, applied to the *value* of the
  receiver (same definitions as `Model/CnfParserExt.lean`; justified by `Props/TieParsed.lean`), plus
  `Parsed::map` with a closure that may act on the parser state (`mapP`);
* the three `pub(crate)` methods of `impl Line` in `flussab-btor2/src/btor2.rs` that `next_line` calls on the
  placeholder line — `has_comment`, `update_comment`, `update_bufs` — are NOT translated (they assign through
  `&mut` references bound by patterns, `update_bufs` through an or-pattern with bindings); they are the three
  pure functions below, written next to the source text (btor2.rs lines 16–57).
-/
import Flussab.Model.Btor2
import Flussab.Model.Btor2TokenExt
import Flussab.Model.PMExt

namespace Flussab
namespace Btor2

/-- The fields of `parser::Parser<'a>` without `reader`. -/
structure ParserS where
  nodeBuf : List Nat
  constBuf : VBytes
  symbolBuf : VBytes
deriving Repr, DecidableEq, Inhabited

/-- `parser::Config` (`pub struct Config {}`). -/
structure Config where
deriving Repr, DecidableEq, Inhabited

end Btor2

abbrev BPM := StateT Btor2.ParserS PM

namespace Btor2ParserExt
open PM

/-- A token-level computation (acts on the reader only). -/
def tok {α : Type} (x : PM α) : BPM α := StateT.lift x

def getP : BPM Btor2.ParserS := get
def setP (s : Btor2.ParserS) : BPM Unit := set s
def modifyP (f : Btor2.ParserS → Btor2.ParserS) : BPM Unit := modify f
def getLR : BPM LR := tok PMExt.getLR

/-- `Parsed::or_parse`. -/
def orParse {α : Type} (p : Option α) (parse : BPM (Option α)) : BPM (Option α) :=
  match p with
  | some a => pure (some a)
  | none => parse

/-- `Parsed::or_give_up`: `Res(result) => result`, `Fallthrough => Err(err())`. -/
def orGiveUp {α : Type} (p : Option α) (err : BPM α) : BPM α :=
  match p with
  | some a => pure a
  | none => err

/-- `Parsed::and_then`: on `Res(Ok(v))` the result of `parse(v)`, `Fallthrough => Fallthrough`. -/
def andThen {α β : Type} (p : Option α) (f : α → BPM β) : BPM (Option β) :=
  match p with
  | some v => do pure (some (← f v))
  | none => pure none

/-- `Parsed::map`: on `Res(Ok(v))` the value `f(v)` (the closure may act on the parser's buffers),
`Fallthrough => Fallthrough`. -/
def mapP {α β : Type} (p : Option α) (f : α → BPM β) : BPM (Option β) :=
  match p with
  | some v => do pure (some (← f v))
  | none => pure none

/-- `Line::has_comment` (btor2.rs:17): `Comment(_) => true`, `Node(node) => node.comment.is_some()`. -/
def hasComment : Btor2.Line → Bool
  | .comment _ => true
  | .node n => n.comment.isSome

/-- `Line::update_comment` (btor2.rs:24): `Comment(c) => *c = comment`, `Node(node) => node.comment = Some(comment)`. -/
def updateComment : Btor2.Line → VBytes → Btor2.Line
  | .comment _, c => .comment c
  | .node n, c => .node { n with comment := some c }

/-- The `match &mut node.variant` of `Line::update_bufs` (btor2.rs:37–53): the payload of a binary / hex /
decimal constant becomes `constant`, the conditions of a `justice` output become `nodes`, everything else
is left alone. -/
def updateVariant (constant : VBytes) (nodes : List Nat) : Btor2.NodeVariant → Btor2.NodeVariant
  | .value sort (.const (.binary _)) => .value sort (.const (.binary constant))
  | .value sort (.const (.hex _)) => .value sort (.const (.hex constant))
  | .value sort (.const (.decimal _)) => .value sort (.const (.decimal constant))
  | .output (.justice _) => .output (.justice nodes)
  | v => v

/-- `Line::update_bufs` (btor2.rs:31): only for `Line::Node`; `if let Some(s) = &mut node.symbol { *s = symbol }`,
then the variant. -/
def updateBufs : Btor2.Line → VBytes → VBytes → List Nat → Btor2.Line
  | .comment c, _, _, _ => .comment c
  | .node n, constant, symbol, nodes =>
    .node { n with symbol := n.symbol.map (fun _ => symbol), variant := updateVariant constant nodes n.variant }

end Btor2ParserExt
end Flussab
