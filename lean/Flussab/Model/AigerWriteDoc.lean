/-
Vocabulary of the whole-file AIGER writer tie (`Props/TieAigerWriteDoc.lean`): the writer-op history of a whole
document, composed from the per-piece histories of `Model/AigerWriteExt.lean` in the order in which the Rust drivers
`ascii::Writer::write_aig`, `ascii::Writer::write_ordered_aig`, `binary::Writer::write_ordered_aig` call the pieces.
-/
import Flussab.Model.AigerWriteExt

namespace Flussab
namespace AigerWriteExt

open Writer (Op)

/-- `for &x in xs { self.write_lit(x) }`. -/
def opsLits (cs : List Nat) : List Op := cs.flatMap opsLit

/-- The sections between the latches and the and gates (the same loops in all three drivers). -/
def opsMid (outputs bad constraints : List Nat) (justice : List (List Nat)) (fairness : List Nat) : List Op :=
  opsLits outputs ++ (opsLits bad ++ (opsLits constraints ++ (opsLits (justice.map List.length) ++
    (justice.flatMap opsLits ++ opsLits fairness))))

/-- Symbol table and comment. -/
def opsTail (symbols : List Aiger.Symbol) (c : Option (List UInt8)) : List Op :=
  symbols.flatMap opsSymbol ++ (match c with | some c => opsComment c | none => [])

/-- The `Header { .. }` literal of `write_aig`. -/
def aigHeader (a : Aiger.Aig) : Aiger.Header :=
  { maxVarIndex := a.maxVarIndex, inputCount := a.inputs.length, latchCount := a.latches.length,
    outputCount := a.outputs.length, andGateCount := a.gates.length, badCount := a.bad.length,
    constraintCount := a.constraints.length, justiceCount := a.justice.length,
    fairnessCount := a.fairness.length }

/-- `ascii::Writer::write_aig`. -/
def opsAig (a : Aiger.Aig) : List Op :=
  opsHeader false (aigHeader a) ++ (opsLits a.inputs ++ (a.latches.flatMap opsLatchAscii ++
    (opsMid a.outputs a.bad a.constraints a.justice a.fairness ++
      (a.gates.flatMap opsAndGateAscii ++ opsTail a.symbols a.comment))))

/-- Every number `write_aig` hands to `ascii_digits::<usize>` is a `usize`. -/
structure AigFits (a : Aiger.Aig) : Prop where
  header : HeaderFits (aigHeader a)
  inputs : ∀ c ∈ a.inputs, c < 2 ^ 64
  latches : ∀ l ∈ a.latches, l.state < 2 ^ 64 ∧ l.next < 2 ^ 64
  outputs : ∀ c ∈ a.outputs, c < 2 ^ 64
  bad : ∀ c ∈ a.bad, c < 2 ^ 64
  constraints : ∀ c ∈ a.constraints, c < 2 ^ 64
  justice : ∀ j ∈ a.justice, j.length < 2 ^ 64 ∧ ∀ c ∈ j, c < 2 ^ 64
  fairness : ∀ c ∈ a.fairness, c < 2 ^ 64
  gates : ∀ g ∈ a.gates, g.out < 2 ^ 64 ∧ g.in0 < 2 ^ 64 ∧ g.in1 < 2 ^ 64
  symbols : ∀ s ∈ a.symbols, s.index < 2 ^ 64

/-! ### `ascii::Writer::write_ordered_aig`: the literal counter `code` starts at 2 and goes up by 2 per input,
latch and gate (as a natural number: the tie assumes the final value is a `usize`, so `+= 2` never overflows) -/

/-- `for _ in 0..n { self.write_lit(L::from_code(code)); code += 2 }`. -/
def opsOrdInputs : Nat → Nat → List Op
  | 0, _ => []
  | n + 1, code => opsLit code ++ opsOrdInputs n (code + 2)

/-- `for &OrderedLatch { .. } in &aig.latches { self.write_latch(Latch { state: L::from_code(code), .. }); code += 2 }`. -/
def opsOrdLatches : List Aiger.OLatch → Nat → List Op
  | [], _ => []
  | l :: r, code => opsLatchAscii { state := code, next := l.next, init := l.init } ++ opsOrdLatches r (code + 2)

/-- `for &OrderedAndGate { inputs } in &aig.and_gates { self.write_and_gate(AndGate { inputs, output: .. }); code += 2 }`. -/
def opsOrdGates : List Aiger.OGate → Nat → List Op
  | [], _ => []
  | g :: r, code => opsAndGateAscii { in0 := g.in0, in1 := g.in1, out := code } ++ opsOrdGates r (code + 2)

/-- `ascii::Writer::write_ordered_aig`. -/
def opsOrderedAigAscii (a : Aiger.OrderedAig) : List Op :=
  opsHeader false (Aiger.orderedHeader a) ++ (opsOrdInputs a.inputCount 2 ++
    (opsOrdLatches a.latches (2 + 2 * a.inputCount) ++
      (opsMid a.outputs a.bad a.constraints a.justice a.fairness ++
        (opsOrdGates a.gates (2 + 2 * a.inputCount + 2 * a.latches.length) ++ opsTail a.symbols a.comment))))

/-- Every number the ordered drivers hand to `ascii_digits::<usize>` is a `usize` (the ASCII driver also needs
`OrdCodesFit`; the binary driver's counter is `BinWriter.code`). -/
structure OrdFits (a : Aiger.OrderedAig) : Prop where
  header : HeaderFits (Aiger.orderedHeader a)
  latches : ∀ l ∈ a.latches, l.next < 2 ^ 64
  outputs : ∀ c ∈ a.outputs, c < 2 ^ 64
  bad : ∀ c ∈ a.bad, c < 2 ^ 64
  constraints : ∀ c ∈ a.constraints, c < 2 ^ 64
  justice : ∀ j ∈ a.justice, j.length < 2 ^ 64 ∧ ∀ c ∈ j, c < 2 ^ 64
  fairness : ∀ c ∈ a.fairness, c < 2 ^ 64
  gates : ∀ g ∈ a.gates, g.in0 < 2 ^ 64 ∧ g.in1 < 2 ^ 64
  symbols : ∀ s ∈ a.symbols, s.index < 2 ^ 64

/-- The counter of `ascii::Writer::write_ordered_aig` stays a `usize` up to its final value. -/
def OrdCodesFit (a : Aiger.OrderedAig) : Prop :=
  2 * (a.inputCount + a.latches.length + a.gates.length + 1) < 2 ^ 64

/-! ### `binary::Writer::write_ordered_aig`: event history of the binary writer

The binary writer has state besides the `DeferredWriter` (the counter `code`) and a panic of its own
(`assert!(code_0 <= self.code)` in `write_and_gate`), so its history is a list of events `BOp`: a writer op, an
assignment of the counter, the `assert!` panic.  `runSeqC` runs it: a sink panic inside an op and the `.panic` event
end the run with the state as it is at that point. -/

/-- An event of `binary::Writer`. -/
inductive BOp where
  | op (o : Op)
  | setCode (c : Nat)
  | panic

def runSeqC : List BOp → BinWriter → Option Unit × BinWriter
  | [], s => (some (), s)
  | .op o :: r, s =>
    match o.run s.writer with
    | (none, w') => (none, { s with writer := w' })
    | (some _, w') => runSeqC r { s with writer := w' }
  | .setCode c :: r, s => runSeqC r { s with code := c }
  | .panic :: _, s => (none, s)

/-- `self.code = self.code.wrapping_add(2)`. -/
def bump (c : Nat) : Nat := (c + 2) % 2 ^ 64

def bumps : Nat → Nat → Nat
  | 0, c => c
  | n + 1, c => bumps n (bump c)

/-- `for &latch in &aig.latches { self.write_latch(latch) }` with the counter at `c`. -/
def bopsLatches : List Aiger.OLatch → Nat → List BOp
  | [], _ => []
  | l :: r, c => (opsLatchBin l c).map .op ++ (.setCode (bump c) :: bopsLatches r (bump c))

/-- The bytes of `write_binary_uint(c)` (`[]` where the model has none: never for a `usize`, `uint_no_panic`). -/
def uintBytes (c : Nat) : List UInt8 := (Aiger.writeBinaryUint c).getD []

/-- `for &and_gate in &aig.and_gates { self.write_and_gate(and_gate) }` with the counter at `c`: the first gate whose
larger input exceeds the counter panics (nothing of it written), the gates after it are not reached. -/
def bopsGates : List Aiger.OGate → Nat → List BOp
  | [], _ => []
  | g :: r, c =>
    if c < (gateCodes g).1 then [.panic] else
      [Op.write (uintBytes (c - (gateCodes g).1)), Op.write (uintBytes ((gateCodes g).1 - (gateCodes g).2))].map .op ++
        (.setCode (bump c) :: bopsGates r (bump c))

/-- `binary::Writer::write_ordered_aig`. -/
def bopsOrderedAigBin (a : Aiger.OrderedAig) : List BOp :=
  (.setCode (headerCode (Aiger.orderedHeader a)) :: (opsHeader true (Aiger.orderedHeader a)).map .op) ++
    (bopsLatches a.latches (headerCode (Aiger.orderedHeader a)) ++
      ((opsMid a.outputs a.bad a.constraints a.justice a.fairness).map .op ++
        (bopsGates a.gates (bumps a.latches.length (headerCode (Aiger.orderedHeader a))) ++
          (opsTail a.symbols a.comment).map .op)))

/-- The writer ops of an event history. -/
def bopsOps : List BOp → List Op
  | [] => []
  | .op x :: r => x :: bopsOps r
  | _ :: r => bopsOps r

end AigerWriteExt
end Flussab
