/-
L0: the byte source behind a `DeferredReader` (`impl std::io::Read`).

A source is the data it has not delivered yet, how the stream ends (clean EOF or a non-`Interrupted`
I/O error), and a *schedule* saying how each `read` call behaves.  The schedule is the adversary of
properties C01/C02/C09: short reads, `Interrupted`, and (C14 only) a lying `Ok(n)` with `n` larger
than the slice handed in.  Bytes already sitting in a `BufReader` the reader was built from are
`pre`: `Cursor::new(buf_data).chain(inner)` serves them first, `min cap pre.length` per call,
without touching the inner source.

No imports: this file is part of the executable model linked into the driver.
-/
namespace Flussab

abbrev Bytes := List UInt8

/-- One entry of a read schedule. -/
inductive Ev where
  /-- deliver at most `n` bytes (at least one, at most the slice length) -/
  | give (n : Nat)
  /-- fail this call with `ErrorKind::Interrupted` -/
  | intr
  /-- violate the `Read` contract: report `cap + 1 + extra` bytes -/
  | lie (extra : Nat)
deriving Repr, DecidableEq, Inhabited

/-- What one `read` call returned. -/
inductive ReadRes where
  /-- `Ok(bs.length)` with `bs` written to the front of the slice; `[]` is `Ok(0)` -/
  | data (bs : Bytes)
  | intr
  | err
  /-- `Ok(n)` with `n` exceeding the slice length -/
  | lie (n : Nat)
deriving Repr, DecidableEq, Inhabited

structure Source where
  /-- bytes taken over from a `BufReader` (served first, schedule-free) -/
  pre : Bytes := []
  /-- bytes the inner source has not delivered yet -/
  data : Bytes
  /-- `true`: once `data` is exhausted the source fails; `false`: it reports end of file -/
  fault : Bool
  sched : List Ev
  /-- ghost: number of `read` calls seen by the inner source -/
  calls : Nat := 0
  /-- ghost: the inner source has returned `Ok(0)` or a terminal error -/
  ended : Bool := false
  /-- ghost: calls made after `ended` -/
  afterEnd : Nat := 0
  /-- ghost: total number of bytes handed out (pre + inner) -/
  delivered : Nat := 0
  /-- ghost: number of inner calls that were not `Interrupted` -/
  prod : Nat := 0
  /-- ghost: number of bytes handed out by the most recent call (0 for EOF / error / lie) -/
  lastGive : Nat := 0
deriving Repr, Inhabited

namespace Source

/-- Deliver at most `n` bytes of the inner data (or end the stream). -/
def deliver (s : Source) (n cap : Nat) : ReadRes × Source :=
  let k := min (min n cap) s.data.length
  if k = 0 then
    if s.data.isEmpty then
      (if s.fault then .err else .data [], { s with ended := true, prod := s.prod + 1, lastGive := 0 })
    else
      -- zero-length slice: a `Read` impl returns `Ok(0)` without consuming anything
      (.data [], { s with prod := s.prod + 1, lastGive := 0 })
  else
    (.data (s.data.take k), { s with data := s.data.drop k, delivered := s.delivered + k,
                                     prod := s.prod + 1, lastGive := k })

/-- One `read` call with a slice of `cap` bytes. -/
def read (s : Source) (cap : Nat) : ReadRes × Source :=
  if !s.pre.isEmpty then
    let k := min cap s.pre.length
    (.data (s.pre.take k), { s with pre := s.pre.drop k, delivered := s.delivered + k, lastGive := k })
  else
    let s := { s with calls := s.calls + 1,
                      afterEnd := if s.ended then s.afterEnd + 1 else s.afterEnd }
    match s.sched with
    | .intr :: rest => (.intr, { s with sched := rest })
    | .lie x :: rest =>
        let k := min cap s.data.length
        (.lie (cap + 1 + x), { s with sched := rest, data := s.data.drop k, prod := s.prod + 1,
                                      lastGive := 0 })
    | .give n :: rest => deliver { s with sched := rest } (max n 1) cap
    | [] => deliver s cap cap

/-- Number of leading `intr` events and the schedule after them. -/
def skipIntr : List Ev → Nat × List Ev
  | .intr :: rest => let p := skipIntr rest; (p.1 + 1, p.2)
  | l => (0, l)

/-- `loop { match read(..) { Err(Interrupted) => continue, r => break r } }`:
the interrupted calls are counted, then exactly one further call is made. -/
def readRetry (s : Source) (cap : Nat) : ReadRes × Source :=
  if !s.pre.isEmpty then s.read cap
  else
    let p := skipIntr s.sched
    let s1 := { s with sched := p.2, calls := s.calls + p.1,
                       afterEnd := if s.ended then s.afterEnd + p.1 else s.afterEnd }
    s1.read cap

end Source
end Flussab
