/-
L6: `flussab-btor2`: the `Line` / node / sort / constant types of `btor2.rs` (as far as the parser
and `Line::write_into` need them), the `TryFrom` validators of the constant types (after the
`fix:` for F12), the line parser of `parser.rs` and the writer `Line::write_into`.

Operator / kind enums and every keyword come from `Flussab.Gen.Btor2Tables`, regenerated from the
source on every check run.

Modelling decisions:
* Node ids, sort ids and bit widths (`NonZeroU64`) are `Nat`; "non-zero and `< 2^64`" is part of
  the well-formedness predicate `Line.WF`, and the `NonZeroU64::new(..).unwrap()` of the parser
  is an explicit panic site.
* The parser's scratch buffers (`node_buf`, `const_buf`, `symbol_buf`) and the placeholder values
  patched by `update_bufs` / `update_comment` are not modelled: the model builds the `Line` with
  its final contents (each buffer is cleared and filled by exactly the branch whose placeholder
  `update_bufs` later replaces, so no stale content can be observed).
* `&str` / `&BStr` payloads are byte lists.
-/
import Flussab.Model.Btor2Token
import Flussab.Model.Writer

namespace Flussab
namespace Btor2
open PM
open Gen.Btor2 (UnaryOp BinaryOp TernaryOp AssignmentKind SingleValueOutputKind NodeToken
  NodeValueToken SortToken)

/-! ### types (`btor2.rs`) -/

/-- `Sort`. -/
inductive BSort where
  | bitVec (width : Nat)
  | array (domain codomain : Nat)
deriving Repr, DecidableEq, Inhabited

/-- `Const`: the three textual forms carry the digit string as written. -/
inductive Const where
  | binary (s : VBytes)
  | decimal (s : VBytes)
  | hex (s : VBytes)
  | one
  | ones
  | zero
deriving Repr, DecidableEq, Inhabited

/-- `Op`. -/
inductive Op where
  | unary (op : UnaryOp) (a0 : Nat)
  | binary (op : BinaryOp) (a0 a1 : Nat)
  | ternary (op : TernaryOp) (a0 a1 a2 : Nat)
deriving Repr, DecidableEq, Inhabited

/-- `ValueVariant`. -/
inductive ValueVariant where
  | const (c : Const)
  | input
  | state
  | op (o : Op)
deriving Repr, DecidableEq, Inhabited

/-- `Output`. -/
inductive Output where
  | singleValue (kind : SingleValueOutputKind) (value : Nat)
  | justice (nodes : List Nat)
deriving Repr, DecidableEq, Inhabited

/-- `NodeVariant` (with `Value` and `Assignment` inlined). -/
inductive NodeVariant where
  | sort (s : BSort)
  | value (sort : Nat) (variant : ValueVariant)
  | assignment (state sort : Nat) (kind : AssignmentKind) (value : Nat)
  | output (o : Output)
deriving Repr, DecidableEq, Inhabited

/-- `Node`. -/
structure Node where
  id : Nat
  variant : NodeVariant
  symbol : Option VBytes := none
  comment : Option VBytes := none
deriving Repr, DecidableEq, Inhabited

/-- `Line`. -/
inductive Line where
  | comment (c : VBytes)
  | node (n : Node)
deriving Repr, DecidableEq, Inhabited

/-- Where `next_line` leaves the reader after the line `l`: behind the newline of a line without
comment, ON the newline of a line that ends in a comment (`comment_body` does not consume it). -/
def Line.endsInComment : Line → Bool
  | .comment _ => true
  | .node nd => nd.comment.isSome

/-! ### `TryFrom<&str>` validators (`true` = `Ok`) -/

/-- `BinaryConst::try_from`. -/
def binaryConstOk (s : VBytes) : Bool := !s.isEmpty && s.all isBinDigit

/-- `HexConst::try_from` (`char::is_ascii_hexdigit`). -/
def hexConstOk (s : VBytes) : Bool := !s.isEmpty && s.all isHexDigit

/-- The `for c in value.chars()` loop of `DecimalConst::try_from`: `take(&mut first) && c == '-'
|| c.is_ascii_digit()` (after F12). -/
def decimalCharsOk : Bool → VBytes → Bool
  | _, [] => true
  | first, c :: cs => ((first && c == 45) || isDigit c) && decimalCharsOk false cs

/-- `DecimalConst::try_from` (a lone `-` is accepted, as the crate's test suite requires). -/
def decimalConstOk (s : VBytes) : Bool := !s.isEmpty && decimalCharsOk true s

/-! ### the parser (`parser.rs`) -/

/-- The `for _ in 0..count` loop of a `justice` line, with explicit fuel. -/
def justiceLoop : Nat → Nat → List Nat → PM (List Nat)
  | 0, _, _ => rpanic "fuel"
  | f + 1, remaining, acc =>
    if remaining == 0 then pure acc.reverse
    else do
      requiredSpace
      let condition ← requiredNodeId
      justiceLoop f (remaining - 1) (condition :: acc)

/-- Executable twin of `justiceLoop` with the fuel `fl.length + c` kept as the pair `(fl, c)` and
used up one list cell per iteration, so that the caller passes the remaining input instead of
its length. -/
def justiceLoopFast : VBytes → Nat → Nat → List Nat → PM (List Nat)
  | [], c, remaining, acc => justiceLoop c remaining acc
  | _ :: fl, c, remaining, acc =>
    if remaining == 0 then pure acc.reverse
    else do
      requiredSpace
      let condition ← requiredNodeId
      justiceLoopFast fl c (remaining - 1) (condition :: acc)

theorem justiceLoop_eq_fast (fl : VBytes) (c : Nat) : ∀ (remaining : Nat) (acc : List Nat),
    justiceLoop (fl.length + c) remaining acc = justiceLoopFast fl c remaining acc := by
  induction fl with
  | nil => intro remaining acc; simp only [List.length_nil, Nat.zero_add, justiceLoopFast]
  | cons b fl ih =>
    intro remaining acc
    have h : (b :: fl).length + c = (fl.length + c) + 1 := by
      simp only [List.length_cons]; omega
    rw [h, justiceLoop, justiceLoopFast]
    simp only [ih]

/-- The `NodeToken::Value(value_token)` arm of `try_node`, after the sort id. -/
def valueVariant (tok : NodeValueToken) : PM ValueVariant := do
  match tok with
  | .const =>
    requiredSpace
    pure (.const (.binary (← requiredBinaryConstant)))
  | .constd =>
    requiredSpace
    pure (.const (.decimal (← requiredDecimalConstant)))
  | .consth =>
    requiredSpace
    pure (.const (.hex (← requiredHexConstant)))
  | .ones => pure (.const .ones)
  | .one => pure (.const .one)
  | .zero => pure (.const .zero)
  | .input => pure .input
  | .state => pure .state
  | .extOp e =>
    requiredSpace
    let a0 ← requiredNodeId
    requiredSpace
    let pad ← requiredNonnegativeInt
    pure (.op (.unary (Gen.Btor2.extOpTokenUnaryOp e pad) a0))
  | .slice =>
    requiredSpace
    let a0 ← requiredNodeId
    requiredSpace
    let u ← requiredNonnegativeInt
    requiredSpace
    let l ← requiredNonnegativeInt
    pure (.op (.unary (.slice u l) a0))
  | .unaryOp t =>
    requiredSpace
    let a0 ← requiredNodeId
    pure (.op (.unary (Gen.Btor2.unaryOpTokenUnaryOp t) a0))
  | .binaryOp b =>
    requiredSpace
    let a0 ← requiredNodeId
    requiredSpace
    let a1 ← requiredNodeId
    pure (.op (.binary b a0 a1))
  | .ternaryOp t =>
    requiredSpace
    let a0 ← requiredNodeId
    requiredSpace
    let a1 ← requiredNodeId
    requiredSpace
    let a2 ← requiredNodeId
    pure (.op (.ternary t a0 a1 a2))

/-- The `match node_token { … }` of `try_node`. -/
def nodeVariant (tok : NodeToken) : PM NodeVariant := do
  match tok with
  | .sort =>
    requiredSpace
    match ← orGiveUp sortToken unexpected with
    | .bitvec =>
      requiredSpace
      let width ← requiredPositiveInt
      pure (.sort (.bitVec width))
    | .array =>
      requiredSpace
      let domain ← requiredSortId
      requiredSpace
      let codomain ← requiredSortId
      pure (.sort (.array domain codomain))
  | .assignment kind =>
    requiredSpace
    let sort ← requiredSortId
    requiredSpace
    let state ← requiredNodeId
    requiredSpace
    let value ← requiredNodeId
    pure (.assignment state sort kind value)
  | .output kind =>
    requiredSpace
    let value ← requiredNodeId
    pure (.output (.singleValue kind value))
  | .justice =>
    requiredSpace
    let count ← requiredPositiveInt
    let nodes ← justiceLoop ((← get).v.rest.length + 2) count []
    pure (.output (.justice nodes))
  | .value vt =>
    requiredSpace
    let sort ← requiredSortId
    let variant ← valueVariant vt
    pure (.value sort variant)

/-- Executable form of `nodeVariant`: the `justice` arm does not compute `rest.length`. -/
def nodeVariantFast (tok : NodeToken) : PM NodeVariant := do
  match tok with
  | .sort =>
    requiredSpace
    match ← orGiveUp sortToken unexpected with
    | .bitvec =>
      requiredSpace
      let width ← requiredPositiveInt
      pure (.sort (.bitVec width))
    | .array =>
      requiredSpace
      let domain ← requiredSortId
      requiredSpace
      let codomain ← requiredSortId
      pure (.sort (.array domain codomain))
  | .assignment kind =>
    requiredSpace
    let sort ← requiredSortId
    requiredSpace
    let state ← requiredNodeId
    requiredSpace
    let value ← requiredNodeId
    pure (.assignment state sort kind value)
  | .output kind =>
    requiredSpace
    let value ← requiredNodeId
    pure (.output (.singleValue kind value))
  | .justice =>
    requiredSpace
    let count ← requiredPositiveInt
    let nodes ← justiceLoopFast (← get).v.rest 2 count []
    pure (.output (.justice nodes))
  | .value vt =>
    requiredSpace
    let sort ← requiredSortId
    let variant ← valueVariant vt
    pure (.value sort variant)

@[csimp] theorem nodeVariant_eq_fast : @nodeVariant = @nodeVariantFast := by
  funext tok
  cases tok <;> simp only [nodeVariant, nodeVariantFast, justiceLoop_eq_fast]

/-- The `(symbol, comment)` tail of `try_node`: optional symbol, and whether a comment was
started (its body is read by `next_line`).  A line without comment ends with its newline
consumed. -/
def trailer : PM (Option VBytes × Bool) := do
  match ← space with
  | some () =>
    match ← commentStart with
    | some () => pure (none, true)
    | none =>
      match ← symbolName with
      | some sym =>
        match ← space with
        | some () =>
          match ← commentStart with
          | some () => pure (some sym, true)
          | none => unexpected
        | none =>
          match ← newline with
          | some () => pure (some sym, false)
          | none => unexpected
      | none => unexpected
  | none =>
    match ← newline with
    | some () => pure (none, false)
    | none => unexpected

/-- `try_node`: the node without its comment body, and whether a comment body follows. -/
def tryNode : PM (Option (Node × Bool)) := do
  match ← nodeId with
  | none => pure none
  | some id =>
    requiredSpace
    let tok ← orGiveUp nodeToken unexpected
    let variant ← nodeVariant tok
    let (symbol, hasComment) ← trailer
    pure (some ({ id, variant, symbol, comment := none }, hasComment))

/-- `check_io_error()?`. -/
def checkIoError : PM Unit := do
  let lr ← get
  let (e, v') := lr.v.checkIoError
  set { lr with v := v' }
  if e then throw .io

/-- `next_line`: `none` = end of file. -/
def nextLine : PM (Option Line) := do
  skipWhitespace
  match ← tryNode with
  | some (node, hasComment) =>
    if hasComment then
      let c ← commentBody
      pure (some (.node { node with comment := some c }))
    else pure (some (.node node))
  | none =>
    match ← commentStart with
    | some () =>
      let c ← commentBody
      pure (some (.comment c))
    | none =>
      match ← eof with
      | some () =>
        checkIoError
        pure none
      | none => unexpected

/-- Drive `next_line` until it returns `None` or an error (each call consumes input or ends). -/
def driveLines : Nat → List Line → LR → List Line × Option PErr × LR
  | 0, acc, lr => (acc.reverse, some (.panic "fuel"), lr)
  | f + 1, acc, lr =>
    match nextLine.run lr with
    | (.ok (some l), lr') => driveLines f (l :: acc) lr'
    | (.ok none, lr') => (acc.reverse, none, lr')
    | (.error e, lr') => (acc.reverse, some e, lr')

/-- Parse a whole document. -/
def parseAll (lr : LR) : List Line × Option PErr :=
  let (items, fin, _) := driveLines (lr.v.rest.length + 2) [] lr
  (items, fin)

/-! ### the writer (`Line::write_into`) -/

def natText (n : Nat) : VBytes := Writer.natDigits n

/-- `Op`: keyword (`name()`), then the operands after the sort. -/
def opName : Op → VBytes
  | .unary op _ => Gen.Btor2.unaryOpName op
  | .binary op _ _ => Gen.Btor2.binaryOpName op
  | .ternary op _ _ _ => Gen.Btor2.ternaryOpName op

/-- `UnaryOp::write_indices_into`. -/
def writeIndices : UnaryOp → VBytes
  | .uext w => [32] ++ natText w
  | .sext w => [32] ++ natText w
  | .slice u l => [32] ++ natText u ++ [32] ++ natText l
  | _ => []

/-- `Value::write_into`. -/
def writeValue (sort : Nat) : ValueVariant → VBytes
  | .const (.binary s) => Gen.Btor2.kwConstBinary ++ natText sort ++ [32] ++ s
  | .const (.hex s) => Gen.Btor2.kwConstHex ++ natText sort ++ [32] ++ s
  | .const (.decimal s) => Gen.Btor2.kwConstDecimal ++ natText sort ++ [32] ++ s
  | .const .one => Gen.Btor2.kwConstOne ++ natText sort
  | .const .ones => Gen.Btor2.kwConstOnes ++ natText sort
  | .const .zero => Gen.Btor2.kwConstZero ++ natText sort
  | .input => Gen.Btor2.kwValueVariantInput ++ natText sort
  | .state => Gen.Btor2.kwValueVariantState ++ natText sort
  | .op (.unary op a0) =>
    Gen.Btor2.unaryOpName op ++ [32] ++ natText sort ++ [32] ++ natText a0 ++ writeIndices op
  | .op (.binary op a0 a1) =>
    Gen.Btor2.binaryOpName op ++ [32] ++ natText sort ++ [32] ++ natText a0 ++ [32] ++ natText a1
  | .op (.ternary op a0 a1 a2) =>
    Gen.Btor2.ternaryOpName op ++ [32] ++ natText sort ++ [32] ++ natText a0 ++ [32] ++ natText a1 ++
      [32] ++ natText a2

/-- `NodeVariant::write_into` (`Sort`, `Value`, `Assignment`, `Output`). -/
def writeVariant : NodeVariant → VBytes
  | .sort (.bitVec w) => Gen.Btor2.kwSortBitVec ++ natText w
  | .sort (.array d c) => Gen.Btor2.kwSortArray ++ natText d ++ [32] ++ natText c
  | .value sort variant => writeValue sort variant
  | .assignment state sort kind value =>
    Gen.Btor2.assignmentKindKw kind ++ natText sort ++ [32] ++ natText state ++ [32] ++ natText value
  | .output (.singleValue kind value) => Gen.Btor2.singleValueOutputKindKw kind ++ natText value
  | .output (.justice nodes) =>
    Gen.Btor2.kwOutputJustice ++ natText nodes.length ++ (nodes.map fun n => [32] ++ natText n).flatten

/-- `Node::write_into`. -/
def writeNode (n : Node) : VBytes :=
  natText n.id ++ [32] ++ writeVariant n.variant ++
    (match n.symbol with | some s => [32] ++ s | none => []) ++
    (match n.comment with | some c => [32, 59] ++ c | none => [])

/-- `Line::write_into_unterminated`. -/
def writeLineUnterminated : Line → VBytes
  | .comment c => Gen.Btor2.kwLineComment ++ c
  | .node n => writeNode n

/-- `Line::write_into`: with the terminating newline. -/
def writeLine (l : Line) : VBytes := writeLineUnterminated l ++ [10]

end Btor2
end Flussab
