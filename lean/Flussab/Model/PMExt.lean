/-
Support for the generated token models (`Gen/*TokenGen.lean`) in the parser monad `PM`.
Hand-written; part of the trusted base.
-/
import Flussab.Model.LineReader

namespace Flussab
namespace PMExt
open PM

def getLR : PM LR := get
def modifyLR (f : LR → LR) : PM Unit := modify f

/-- `assert!` / `debug_assert!`. -/
def assert (c : Bool) : PM Unit := if c then pure () else rpanic "assert"

/-- `a - b` on `usize` with the debug-build overflow check. -/
def usub (a b : Nat) : PM Nat := if b ≤ a then pure (a - b) else rpanic "usize subtraction overflow"

def liftOpt {α : Type} (o : Option α) : PM α :=
  match o with
  | some a => pure a
  | none => rpanic "index out of bounds"

/-- `reader.is_at_end()`. -/
def isAtEnd : PM Bool := do pure (← get).v.isAtEnd

/-- `reader.io_error()` (only ever tested with `is_none()` / `is_some()`). -/
def ioError : PM (Option Unit) := do pure (if (← get).v.ioErr then some () else none)

end PMExt
end Flussab
