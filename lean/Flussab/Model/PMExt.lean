/-
Support for the generated token models (`Gen/*TokenGen.lean`) in the parser monad `PM`.
Hand-written; part of the trusted base.
-/
import Flussab.Model.LineReader
import Flussab.Model.Rt

namespace Flussab
/-- A parked `io::Error` as a value (only its presence matters). -/
inductive IoErrP where
  | io
deriving Repr, DecidableEq, Inhabited

namespace PMExt
open PM

def getLR : PM LR := get
def modifyLR (f : LR → LR) : PM Unit := modify f

/-- `assert!` / `debug_assert!`. -/
def assert (c : Bool) : PM Unit := if c then pure () else rpanic "assert"

/-- `a - b` on `usize` with the debug-build overflow check. -/
def usub (a b : Nat) : PM Nat := if b ≤ a then pure (a - b) else rpanic "usize subtraction overflow"

/-- `a + b` on `usize` with the debug-build overflow check. -/
def uadd (a b : Nat) : PM Nat := if a + b > usizeMax then rpanic "usize addition overflow" else pure (a + b)

/-- `a * b` on `usize` with the debug-build overflow check. -/
def umul (a b : Nat) : PM Nat := if a * b > usizeMax then rpanic "usize multiplication overflow" else pure (a * b)

/-- `reader.check_io_error()`: the parked error is taken. -/
def checkIoError : PM (Except IoErrP Unit) := do
  let lr ← get
  let (e, v') := lr.v.checkIoError
  set { lr with v := v' }
  pure (if e then .error .io else .ok ())

/-- `err.into()` for a parked `io::Error`: the final outcome `io`. -/
def throwIo {α : Type} : PM α := throw .io

/-- `SyntaxError { location: LineColumn { line, column }, .. }.into()`. -/
def throwSyn {α : Type} (line column : Nat) : PM α := throw (.syn line column)

def liftOpt {α : Type} (o : Option α) : PM α :=
  match o with
  | some a => pure a
  | none => rpanic "index out of bounds"

/-- `reader.is_at_end()`. -/
def isAtEnd : PM Bool := do pure (← get).v.isAtEnd

/-- `reader.io_error()` (only ever tested with `is_none()` / `is_some()`). -/
def ioError : PM (Option Unit) := do pure (if (← get).v.ioErr then some () else none)

end PMExt
end Flussab
