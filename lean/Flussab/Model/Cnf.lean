/-
L6: the DIMACS-family parsers and writers of `flussab-cnf` (`cnf.rs`, `wcnf.rs`, `gcnf.rs`,
`sat_solver_log.rs`).  The three clause formats share one parser record, parametrised by what
stands in front of the literals of a clause.
-/
import Flussab.Model.CnfToken
import Flussab.Model.Writer

namespace Flussab
namespace Cnf
open PM

inductive Format where
  | cnf | wcnf | gcnf
deriving Repr, DecidableEq, Inhabited

/-- `Header` of the three formats: `extra` is `top_weight` (wcnf) / `group_count` (gcnf). -/
structure Header where
  varCount : Int
  clauseCount : Int
  extra : Int := 0
deriving Repr, DecidableEq, Inhabited

/-- The parser struct (`Parser<'a, L>`), minus the reader (threaded by the monad). -/
structure Parser where
  fmt : Format
  lit : LitTy
  clauseCount : Nat := 0
  clauseLimit : Int := 0
  clauseLimitActive : Bool := false
  litLimit : Int
  groupLimit : Int := PM.usizeMax
  header : Option Header := none
deriving Repr, Inhabited

def keyword : Format → VBytes
  | .cnf => [99, 110, 102]
  | .wcnf => [119, 99, 110, 102]
  | .gcnf => [103, 99, 110, 102]

/-- `while token::comment(reader).matches()? || token::newline(reader).matches()? {}`. -/
def headerSkipLoop : Nat → PM Unit
  | 0 => rpanic "fuel"
  | f + 1 => do
    if ← «matches» comment then headerSkipLoop f
    else if ← «matches» newline then headerSkipLoop f
    else pure ()

/-- `parse_header`. -/
def parseHeader (fmt : Format) (l : LitTy) : PM (Option Header) := do
  skipWhitespace
  headerSkipLoop ((← get).v.rest.length + 1)
  match ← word [112] with
  | none => pure none
  | some () =>
    orGiveUp (word (keyword fmt)) unexpected
    let varCount ← orGiveUp (varCount l) unexpected
    let clauseCount ← orGiveUp (uintCount usizeTy) unexpected
    let extra ← match fmt with
      | .cnf => pure 0
      | .wcnf => orGiveUp (uintCount u64Ty) unexpected
      | .gcnf => orGiveUp (uintCount usizeTy) unexpected
    orGiveUp interactiveEndOfLine unexpected
    pure (some { varCount, clauseCount, extra })

/-- `Parser::new`. -/
def Parser.new (fmt : Format) (l : LitTy) (ignoreHeader : Bool) : PM Parser := do
  let p : Parser := { fmt, lit := l, litLimit := l.maxDimacs }
  match ← parseHeader fmt l with
  | none => pure p
  | some h =>
    let p := if ignoreHeader then p else
      let p := if h.varCount != 0 then { p with litLimit := h.varCount } else p
      let p := if h.clauseCount != 0 then { p with clauseLimit := h.clauseCount, clauseLimitActive := true } else p
      if fmt == .gcnf && h.extra != 0 then { p with groupLimit := h.extra } else p
    pure { p with header := some h }

/-- One clause item: weight / group (0 for plain CNF) and literals. -/
structure Clause where
  tag : Int
  lits : List Int
deriving Repr, DecidableEq, Inhabited

/-- The clause alternative inside `next_clause`'s loop: `none` = Fallthrough. -/
def clauseAlt (p : Parser) : PM (Option Clause) := do
  match p.fmt with
  | .cnf =>
    match ← clauseLits p.lit p.litLimit with
    | none => pure none
    | some lits =>
      orGiveUp interactiveEndOfLine unexpected
      pure (some { tag := 0, lits })
  | .wcnf =>
    match ← uintCount u64Ty with
    | none => pure none
    | some w =>
      let _ ← nonTerminatingLinebreaks
      let lits ← orGiveUp (clauseLits p.lit p.litLimit) unexpected
      orGiveUp interactiveEndOfLine unexpected
      pure (some { tag := w, lits })
  | .gcnf =>
    match ← clauseGroup p.groupLimit with
    | none => pure none
    | some g =>
      let _ ← nonTerminatingLinebreaks
      let lits ← orGiveUp (clauseLits p.lit p.litLimit) unexpected
      orGiveUp interactiveEndOfLine unexpected
      pure (some { tag := g, lits })

/-- The `loop` of `next_clause`, with explicit fuel.  `none` = clean end of file. -/
def nextClauseLoop (p : Parser) : Nat → PM (Option Clause × Parser)
  | 0 => rpanic "fuel"
  | f + 1 => do
    let tryClause := (p.clauseCount : Int) != p.clauseLimit || !p.clauseLimitActive
    let c ← if tryClause then clauseAlt p else pure none
    match c with
    | some c => pure (some c, { p with clauseCount := p.clauseCount + 1 })
    | none =>
      if ← «matches» comment then nextClauseLoop p f
      else if ← «matches» newline then nextClauseLoop p f
      else
        let mayEnd := !p.clauseLimitActive || (p.clauseCount : Int) ≥ p.clauseLimit
        if mayEnd then
          if ← «matches» eof then pure (none, p) else unexpected
        else unexpected

/-- `next_clause`. -/
def Parser.nextClause (p : Parser) : PM (Option Clause × Parser) := do
  skipWhitespace
  nextClauseLoop p ((← get).v.rest.length + 2)

/-- Executable twin of `nextClauseLoop` with the fuel `fl.length + c` kept as `(fl, c)` (see
`skipLinesLoopFast`). -/
def nextClauseLoopFast (p : Parser) : VBytes → Nat → PM (Option Clause × Parser)
  | [], c => nextClauseLoop p c
  | _ :: fl, c => do
    let tryClause := (p.clauseCount : Int) != p.clauseLimit || !p.clauseLimitActive
    let c' ← if tryClause then clauseAlt p else pure none
    match c' with
    | some c' => pure (some c', { p with clauseCount := p.clauseCount + 1 })
    | none =>
      if ← «matches» comment then nextClauseLoopFast p fl c
      else if ← «matches» newline then nextClauseLoopFast p fl c
      else
        let mayEnd := !p.clauseLimitActive || (p.clauseCount : Int) ≥ p.clauseLimit
        if mayEnd then
          if ← «matches» eof then pure (none, p) else unexpected
        else unexpected

theorem nextClauseLoop_eq_fast (p : Parser) (fl : VBytes) (c : Nat) :
    nextClauseLoop p (fl.length + c) = nextClauseLoopFast p fl c := by
  induction fl with
  | nil => simp only [List.length_nil, Nat.zero_add, nextClauseLoopFast]
  | cons b fl ih =>
    have h : (b :: fl).length + c = (fl.length + c) + 1 := by
      simp only [List.length_cons]; omega
    rw [h, nextClauseLoop, nextClauseLoopFast, ih]

/-- Executable form of `Parser.nextClause` (no `rest.length`). -/
def Parser.nextClauseFast (p : Parser) : PM (Option Clause × Parser) := do
  skipWhitespace
  nextClauseLoopFast p (← get).v.rest 2

@[csimp] theorem Parser.nextClause_eq_fast : @Parser.nextClause = @Parser.nextClauseFast := by
  funext p
  simp only [Parser.nextClause, Parser.nextClauseFast, nextClauseLoop_eq_fast]

/-- Outcome of driving a streaming parser to its final result. -/
structure Run (ι : Type) where
  header : Option Header := none
  items : List ι := []
  /-- `none` = clean end of input -/
  final : Option PErr := none
deriving Repr, Inhabited

/-- Drive `next_clause` until it returns `None` or an error (each call consumes input or ends). -/
def driveClauses : Nat → Parser → List Clause → LR → List Clause × Option PErr × LR
  | 0, _, acc, lr => (acc.reverse, some (.panic "fuel"), lr)
  | f + 1, p, acc, lr =>
    match (p.nextClause).run lr with
    | (.ok (some c, p'), lr') => driveClauses f p' (c :: acc) lr'
    | (.ok (none, _), lr') => (acc.reverse, none, lr')
    | (.error e, lr') => (acc.reverse, some e, lr')

/-- Parse a whole document: `Parser::new`, then `next_clause` until the end. -/
def parseAll (fmt : Format) (l : LitTy) (ignoreHeader : Bool) (lr : LR) : Run Clause :=
  match (Parser.new fmt l ignoreHeader).run lr with
  | (.error e, _) => { final := some e }
  | (.ok p, lr') =>
    let (items, fin, _) := driveClauses (lr'.v.rest.length + 2) p [] lr'
    { header := p.header, items, final := fin }

/-! ### SAT solver log -/

structure SolverLog where
  satisfiable : Option Bool
  assignment : List Int
deriving Repr, DecidableEq, Inhabited

structure LogState where
  satisfiable : Option (Option Bool) := none
  assignment : List Int := []   -- reversed
  started : Bool := false
  finished : Bool := false
deriving Repr, Inhabited

/-- `while token::interactive_strict_comment(input).matches()? {}`. -/
def strictCommentLoop : Nat → PM Unit
  | 0 => rpanic "fuel"
  | f + 1 => do
    if ← «matches» interactiveStrictComment then strictCommentLoop f else pure ()

/-- Executable twin of `strictCommentLoop` with the fuel `fl.length + c` kept as `(fl, c)`. -/
def strictCommentLoopFast : VBytes → Nat → PM Unit
  | [], c => strictCommentLoop c
  | _ :: fl, c => do
    if ← «matches» interactiveStrictComment then strictCommentLoopFast fl c else pure ()

theorem strictCommentLoop_eq_fast (fl : VBytes) (c : Nat) :
    strictCommentLoop (fl.length + c) = strictCommentLoopFast fl c := by
  induction fl with
  | nil => simp only [List.length_nil, Nat.zero_add, strictCommentLoopFast]
  | cons b fl ih =>
    have h : (b :: fl).length + c = (fl.length + c) + 1 := by
      simp only [List.length_cons]; omega
    rw [h, strictCommentLoop, strictCommentLoopFast, ih]

/-- The `while let Some(lit) = …` loop of a value line. -/
def valueLoop (l : LitTy) : Nat → LogState → PM LogState
  | 0, _ => rpanic "fuel"
  | f + 1, st => do
    setMark
    match ← litInt with
    | none => pure st
    | some lit =>
      if lit == 0 then pure { st with finished := true }
      else if -l.maxDimacs ≤ lit ∧ lit ≤ l.maxDimacs then
        valueLoop l f { st with assignment := l.fromDimacs lit :: st.assignment }
      else exceedsVarCount

/-- Executable twin of `valueLoop` with the fuel `fl.length + c` kept as `(fl, c)`. -/
def valueLoopFast (l : LitTy) : VBytes → Nat → LogState → PM LogState
  | [], c, st => valueLoop l c st
  | _ :: fl, c, st => do
    setMark
    match ← litInt with
    | none => pure st
    | some lit =>
      if lit == 0 then pure { st with finished := true }
      else if -l.maxDimacs ≤ lit ∧ lit ≤ l.maxDimacs then
        valueLoopFast l fl c { st with assignment := l.fromDimacs lit :: st.assignment }
      else exceedsVarCount

theorem valueLoop_eq_fast (l : LitTy) (fl : VBytes) (c : Nat) :
    ∀ st : LogState, valueLoop l (fl.length + c) st = valueLoopFast l fl c st := by
  induction fl with
  | nil => intro st; simp only [List.length_nil, Nat.zero_add, valueLoopFast]
  | cons b fl ih =>
    intro st
    have h : (b :: fl).length + c = (fl.length + c) + 1 := by
      simp only [List.length_cons]; omega
    rw [h, valueLoop, valueLoopFast]
    simp only [ih]

/-- The outer `loop` of `parse_log`. -/
def logLoop (l : LitTy) (ignoreUnknown : Bool) : Nat → LogState → PM LogState
  | 0, _ => rpanic "fuel"
  | f + 1, st => do
    strictCommentLoop ((← get).v.rest.length + 1)
    let isV ← if !st.finished then «matches» (fixed [118, 32]) else pure false
    if isV then
      skipWhitespace
      let st ← valueLoop l ((← get).v.rest.length + 2) { st with started := true }
      orGiveUp interactiveEndOfLine unexpected
      logLoop l ignoreUnknown f st
    else
      let isS ← if st.satisfiable.isNone then «matches» (fixed [115, 32]) else pure false
      if isS then
        let sat ← orGiveUp (do
            let r ← orParse
              (do match ← fixed [83, 65, 84, 73, 83, 70, 73, 65, 66, 76, 69] with
                  | some () => pure (some (some true)) | none => pure none)
              (orParse
                (do match ← fixed [85, 78, 83, 65, 84, 73, 83, 70, 73, 65, 66, 76, 69] with
                    | some () => pure (some (some false)) | none => pure none)
                (do match ← fixed [85, 78, 75, 78, 79, 87, 78] with
                    | some () => pure (some none) | none => pure none))
            match r with
            | some v => do orGiveUp interactiveEndOfLine unexpected; pure (some v)
            | none => pure none) unexpected
        logLoop l ignoreUnknown f { st with satisfiable := some sat }
      else if ← «matches» eof then
        if st.started && !st.finished then unexpected else pure st
      else
        let skipped ← if ignoreUnknown then «matches» interactiveSkipLine else pure false
        if skipped then logLoop l ignoreUnknown f st else unexpected

/-- `parse_log`. -/
def parseLog (l : LitTy) (ignoreUnknown : Bool) : PM SolverLog := do
  let st ← logLoop l ignoreUnknown ((← get).v.rest.length + 2) {}
  pure { satisfiable := st.satisfiable.join, assignment := st.assignment.reverse }

/-- Executable twin of `logLoop`: the fuel `fl.length + c` kept as `(fl, c)`, and the inner loops
entered through their fast twins (no `rest.length` per line). -/
def logLoopFast (l : LitTy) (ignoreUnknown : Bool) : VBytes → Nat → LogState → PM LogState
  | [], c, st => logLoop l ignoreUnknown c st
  | _ :: fl, c, st => do
    strictCommentLoopFast (← get).v.rest 1
    let isV ← if !st.finished then «matches» (fixed [118, 32]) else pure false
    if isV then
      skipWhitespace
      let st ← valueLoopFast l (← get).v.rest 2 { st with started := true }
      orGiveUp interactiveEndOfLine unexpected
      logLoopFast l ignoreUnknown fl c st
    else
      let isS ← if st.satisfiable.isNone then «matches» (fixed [115, 32]) else pure false
      if isS then
        let sat ← orGiveUp (do
            let r ← orParse
              (do match ← fixed [83, 65, 84, 73, 83, 70, 73, 65, 66, 76, 69] with
                  | some () => pure (some (some true)) | none => pure none)
              (orParse
                (do match ← fixed [85, 78, 83, 65, 84, 73, 83, 70, 73, 65, 66, 76, 69] with
                    | some () => pure (some (some false)) | none => pure none)
                (do match ← fixed [85, 78, 75, 78, 79, 87, 78] with
                    | some () => pure (some none) | none => pure none))
            match r with
            | some v => do orGiveUp interactiveEndOfLine unexpected; pure (some v)
            | none => pure none) unexpected
        logLoopFast l ignoreUnknown fl c { st with satisfiable := some sat }
      else if ← «matches» eof then
        if st.started && !st.finished then unexpected else pure st
      else
        let skipped ← if ignoreUnknown then «matches» interactiveSkipLine else pure false
        if skipped then logLoopFast l ignoreUnknown fl c st else unexpected

theorem logLoop_eq_fast (l : LitTy) (ignoreUnknown : Bool) (fl : VBytes) (c : Nat) :
    ∀ st : LogState, logLoop l ignoreUnknown (fl.length + c) st = logLoopFast l ignoreUnknown fl c st := by
  induction fl with
  | nil => intro st; simp only [List.length_nil, Nat.zero_add, logLoopFast]
  | cons b fl ih =>
    intro st
    have h : (b :: fl).length + c = (fl.length + c) + 1 := by
      simp only [List.length_cons]; omega
    rw [h, logLoop, logLoopFast]
    simp only [ih, strictCommentLoop_eq_fast, valueLoop_eq_fast]

/-- Executable form of `parseLog` (no `rest.length`). -/
def parseLogFast (l : LitTy) (ignoreUnknown : Bool) : PM SolverLog := do
  let st ← logLoopFast l ignoreUnknown (← get).v.rest 2 {}
  pure { satisfiable := st.satisfiable.join, assignment := st.assignment.reverse }

@[csimp] theorem parseLog_eq_fast : @parseLog = @parseLogFast := by
  funext l ignoreUnknown
  simp only [parseLog, parseLogFast, logLoop_eq_fast]

/-! ### writers -/

def natText (n : Nat) : VBytes := Writer.natDigits n
def intText (x : Int) : VBytes := Writer.intDigits x

/-- `write_header`: `"p <fmt> <vars> <clauses>[ <extra>]\n"`. -/
def writeHeader (fmt : Format) (h : Header) : VBytes :=
  [112, 32] ++ keyword fmt ++ [32] ++ intText h.varCount ++ [32] ++ intText h.clauseCount ++
    (match fmt with | .cnf => [] | _ => [32] ++ intText h.extra) ++ [10]

/-- `write_clause` of the three formats. -/
def writeClause (fmt : Format) (c : Clause) : VBytes :=
  match fmt with
  | .cnf => (c.lits.map fun l => intText l ++ [32]).flatten ++ [48, 10]
  | .wcnf => intText c.tag ++ (c.lits.map fun l => [32] ++ intText l).flatten ++ [32, 48, 10]
  | .gcnf => [123] ++ intText c.tag ++ [125, 32] ++ (c.lits.map fun l => intText l ++ [32]).flatten ++ [48, 10]

def writeDoc (fmt : Format) (h : Option Header) (cs : List Clause) : VBytes :=
  (match h with | some h => writeHeader fmt h | none => []) ++ (cs.map (writeClause fmt)).flatten

end Cnf
end Flussab
