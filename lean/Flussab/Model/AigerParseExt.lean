/-
Support for the generated whole-file drivers of the two AIGER parsers (`Gen/AigerParseGen.lean` from
`flussab-aiger/src/ascii.rs`, `Gen/AigerBinParseGen.lean` from `flussab-aiger/src/binary.rs`: `Parser::parse`).
Hand-written; part of the trusted base.

State (see `tools/unit_aigerparse.py`): the reader is the state `LR` of the parser monad `PM`; the parser without
its reader is the value `Aiger.Parser`, the typestate values are `Aiger.St` (`ParseSymbols`: `Aiger.Parser`), the
result struct `Aig<L>` / `OrderedAig<L>` is the model's record `Aiger.Aig` / `Aiger.OrderedAig` (`Vec<T>` =
`List T` in push order; the defaults of the Lean structures are the Rust `Default`).

Contracts: checked indexing of a `Vec`.  Rust's message is "index out of bounds: the len is .. but the index is
.."; panic sites are names in the model, and the only indexing expressions of `parse()` are the three of the
justice bookkeeping (`aig.justice_properties[jp]` twice, `justice_property_sizes[jp]`), for which the model has
the one site name "justice property index out of bounds".  The contracts use that name, so that the generated
loop and `Aiger.justiceLitsLoop` agree also where they panic (no reachability argument is needed; that the site
is in fact unreachable is `Proof/AigerJustice.lean`, `justiceLitsLoop_ok`).
-/
import Flussab.Model.Aiger
import Flussab.Model.PMExt
import Flussab.Model.Rt

namespace Flussab
namespace AigerParseExt
open PM

/-- `v[i]` with the bounds check. -/
def index {α : Type} (xs : List α) (i : Nat) : PM α :=
  match xs[i]? with
  | some x => pure x
  | none => rpanic "justice property index out of bounds"

/-- `v[i].push(x)` with the bounds check. -/
def pushAt {α : Type} (xss : List (List α)) (i : Nat) (x : α) : PM (List (List α)) :=
  match xss[i]? with
  | some _ => pure (xss.modify i (· ++ [x]))
  | none => rpanic "justice property index out of bounds"

end AigerParseExt
end Flussab
