/-
Support for the generated AIGER token model (`Gen/AigerTokenGen.lean`, from `flussab-aiger/src/token.rs`).
Hand-written; part of the trusted base: the contracts of the `flussab::Parsed` combinators
(`flussab/src/parser.rs`) that token.rs applies to closures, of `reader.buf()[k]`, and of the `usize` instance
of the generic `uint`.

Encoding (see `tools/unit_aigertoken.py`): a `ParseError` is the thrown final outcome, so
`Parsed<T, ParseError>` is an `Option T` (`none` = `Fallthrough`) inside `PM`, `Result<T, ParseError>` is
`PM T`, and `Parsed<T, String>` (error = text of the numeral) is `Option (Option T)`.
-/
import Flussab.Model.PMExt
import Flussab.Model.AigerToken

namespace Flussab
namespace AigerTokenExt
open PM

/-- `Parsed::or_give_up(self, err: impl FnOnce() -> E) -> Result<T, E>` (parser.rs):
`Res(result) => result`, `Fallthrough => Err(err())`. -/
def orGiveUp {α : Type} (p : Option α) (err : PM α) : PM α :=
  match p with
  | some a => pure a
  | none => err

/-- `Parsed::map_err(self, f: impl FnOnce(E) -> E2)` from `Parsed<T, String>` to `Parsed<T, ParseError>`:
`Res(Ok(v)) => Res(Ok(v))`, `Res(Err(s)) => Res(Err(f(s)))` (here: `f` runs and its error is the outcome),
`Fallthrough => Fallthrough`.  The `String` is not modelled. -/
def mapErr {α : Type} (p : Option (Option α)) (f : Unit → PM (Option α)) : PM (Option α) :=
  match p with
  | some (some v) => pure (some v)
  | some none => f ()
  | none => pure none

/-- `Parsed::and_also(self, parse: impl FnOnce(&mut T) -> Result<(), E>)`: on `Res(Ok(v))` run `parse(&mut v)`
(an `Err` is the outcome), otherwise unchanged.  (No closure of token.rs assigns through the `&mut`.) -/
def andAlso {α : Type} (p : Option α) (f : α → PM Unit) : PM (Option α) :=
  match p with
  | some v => do f v; pure (some v)
  | none => pure none

/-- `reader.buf()[k]`: the view knows the buffer as far as it has been demanded (`bufPrefix`); an index beyond
that is a panic in the view (as for `&buf()[..n]`). -/
def bufAt (k : Nat) : PM UInt8 := do
  let bs ← bufPrefix (k + 1)
  match bs[k]? with
  | some b => pure b
  | none => rpanic "buf()[k]"

/-- `uint::<usize>`: the value of the `usize` instance of the generic `uint` (an `Int` within the range of the
type, by the scanner's contract) as a `Nat`. -/
def asUsize (r : Option (Option Int)) : Option (Option Nat) := r.map (·.map Int.toNat)

/-- The three outcomes of `uint::<usize>` as the model's `UintRes`. -/
def toUintRes : Option (Option Nat) → Aiger.UintRes
  | none => .fall
  | some none => .bad
  | some (some v) => .ok v

end AigerTokenExt
end Flussab
