/-
Support for the generated section readers of the ASCII AIGER parser (`Gen/AigerSectionsGen.lean`, from
`flussab-aiger/src/ascii.rs`: `Parser::inputs`, `impl ParseInputs`, `impl ParseLatches`, … `impl ParseAndGates`).
Hand-written; part of the trusted base.

State (see `tools/unit_aigersections.py`): every section struct of the typestate API is
`{ parser: Parser<'a, L>, <count>_left: usize }` (`ParseJusticePropertySizes` has the additional counter
`total_local_fairness_count`).  The fields other than the reader are the model's record `Aiger.St`
(`p : Aiger.Parser` = `parser` without its reader; `left` = the `<count>_left` field whatever its name;
`total` = `total_local_fairness_count`, which exists in one struct only and is carried along unchanged by the
others); the reader `self.parser.reader` is the state `LR` of the parser monad `PM`.  The generated code runs in
`ASM = StateT Aiger.St PM`: a thrown `ParseError` leaves only the reader state (the section struct of a failed
call is not observable in the model either).  The type parameter `L` of the structs is the field `p.lit` of the
record (`L::from_code(c)` is `p.lit.fromCode c`).

Contracts: checked `usize` subtraction / addition lifted from `PMExt`.
-/
import Flussab.Model.Aiger
import Flussab.Model.PMExt
import Flussab.Model.Rt

namespace Flussab

abbrev ASM := StateT Aiger.St PM

namespace AigerSectionsExt
open PM

/-- A token-level computation (acts on the reader only). -/
def tok {α : Type} (x : PM α) : ASM α := StateT.lift x

def getS : ASM Aiger.St := get
def modifyS (f : Aiger.St → Aiger.St) : ASM Unit := modify f

/-- `a - b` on `usize` with the debug-build overflow check. -/
def usub (a b : Nat) : ASM Nat := tok (PMExt.usub a b)

/-- `a + b` on `usize` with the debug-build overflow check. -/
def uadd (a b : Nat) : ASM Nat := tok (PMExt.uadd a b)

end AigerSectionsExt
end Flussab
