/-
The *generated* DIMACS writers (`Gen/CnfWriteGen.lean`, `Gen/WcnfWriteGen.lean`, `Gen/GcnfWriteGen.lean`,
translated from `flussab-cnf/src/{cnf,wcnf,gcnf}.rs`) behind one interface over the types of
`Model/Cnf.lean`, and a caller that writes a whole document with them (header, then clause by clause —
what the crate's own round-trip tests and `harness` do).  Used by `Props/TieDimacsWrite.lean`; executable.
-/
import Flussab.Gen.CnfWriteGen
import Flussab.Gen.WcnfWriteGen
import Flussab.Gen.GcnfWriteGen
import Flussab.Model.DimacsWrite

namespace Flussab
namespace TieDimacsWrite

/-- The Rust `Header` (unsigned fields; `extra` = `top_weight` / `group_count`) as the header of
`Model/Cnf.lean`, and back. -/
def hdrModel (h : DimacsWriteExt.Hdr) : Cnf.Header := ⟨h.varCount, h.clauseCount, h.extra⟩
def hdrOfModel (h : Cnf.Header) : DimacsWriteExt.Hdr := ⟨h.varCount.toNat, h.clauseCount.toNat, h.extra.toNat⟩

/-- `write_header` of the format's file. -/
def genHeader : Cnf.Format → Cnf.Header → RM Writer Unit
  | .cnf, h => Gen.CnfWrite.writeHeader (hdrOfModel h)
  | .wcnf, h => Gen.WcnfWrite.writeHeader (hdrOfModel h)
  | .gcnf, h => Gen.GcnfWrite.writeHeader (hdrOfModel h)

/-- `write_clause` of the format's file (`tag` = weight / group). -/
def genClause : Cnf.Format → Cnf.Clause → RM Writer Unit
  | .cnf, c => Gen.CnfWrite.writeClause c.lits
  | .wcnf, c => Gen.WcnfWrite.writeClause c.tag.toNat c.lits
  | .gcnf, c => Gen.GcnfWrite.writeClause c.tag.toNat c.lits

/-- A caller: `for c in clauses { write_clause(&mut writer, …) }`. -/
def genClauses (fmt : Cnf.Format) : List Cnf.Clause → RM Writer Unit
  | [] => pure ()
  | c :: cs => do
    genClause fmt c
    genClauses fmt cs

/-- A caller: the header if there is one, then every clause. -/
def genDoc (fmt : Cnf.Format) (h : Option Cnf.Header) (cs : List Cnf.Clause) : RM Writer Unit := do
  match h with
  | some h => genHeader fmt h
  | none => pure ()
  genClauses fmt cs

end TieDimacsWrite
end Flussab
