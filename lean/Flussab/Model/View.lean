/-
L1': the abstract view of a `DeferredReader` that all format-level code is written against.

A view is the stream in front of the cursor (`rest`), how the stream ends (`fault`), and the few
pieces of reader state a parser can observe: position, mark, whether the end of the stream has
been hit (`sawEnd` = `is_complete()`), whether an I/O error is parked (`ioErr`).  How the bytes
arrive (read sizes, chunk size, `Interrupted`) does not exist at this level; the refinement
theorems of `Flussab/Proof/View.lean` show that every L1 reader over the same stream answers the
operations below exactly like the view does (property C01/C02).

`peeked` is a ghost: all absolute stream offsets `< peeked` have been demanded from the reader
(property C09: look-ahead of the parsers; property C16: "requests no more than needed").
-/
namespace Flussab

abbrev VBytes := List UInt8

structure View where
  rest : VBytes
  fault : Bool := false
  sawEnd : Bool := false
  ioErr : Bool := false
  pos : Nat := 0
  mark : Nat := 0
  peeked : Nat := 0
deriving Repr, Inhabited

namespace View

def init (bytes : VBytes) (fault : Bool) : View := { rest := bytes, fault := fault }

/-- Effect of demanding the byte at offset `k` (`request_byte_at_offset(k)`), without the answer:
the look-ahead ghost grows; demanding a byte at or beyond the end of the stream makes the reader
hit the end (and park the error of a failing source). -/
def demand (v : View) (k : Nat) : View :=
  let v := { v with peeked := max v.peeked (v.pos + k + 1) }
  if k < v.rest.length then v
  else { v with sawEnd := true, ioErr := v.ioErr || (v.fault && !v.sawEnd) }

/-- Executable form of `demand`: decides `k < rest.length` by looking at `rest.drop k` (cost `k`,
not the length of the whole remaining input).  `demand_eq_demandFast` makes the compiler use it;
the theorems are about `demand`. -/
def demandFast (v : View) (k : Nat) : View :=
  let v := { v with peeked := max v.peeked (v.pos + k + 1) }
  match v.rest.drop k with
  | _ :: _ => v
  | [] => { v with sawEnd := true, ioErr := v.ioErr || (v.fault && !v.sawEnd) }

@[csimp] theorem demand_eq_demandFast : @demand = @demandFast := by
  funext v k
  simp only [demand, demandFast]
  cases h : v.rest.drop k with
  | nil =>
    have : ¬ k < v.rest.length := by
      intro hk
      have hl := List.length_drop (i := k) (l := v.rest)
      rw [h] at hl; simp at hl; omega
    simp [this]
  | cons a t =>
    have : k < v.rest.length := by
      have hl := List.length_drop (i := k) (l := v.rest)
      rw [h] at hl; simp at hl; omega
    simp [this]

/-- `request_byte_at_offset(k)`. -/
def reqAt (v : View) (k : Nat) : Option UInt8 × View := (v.rest[k]?, v.demand k)

/-- `demand v k` for a caller that already holds `cur = v.rest.drop k` (cost O(1)): used by the
executable twins of loops that request offsets `0, 1, 2, …` in turn and would otherwise walk
`k` cells of the list per request (see `Btor2.skipWsLoopFast`). -/
def demandCur (v : View) (cur : VBytes) (k : Nat) : View :=
  let v := { v with peeked := max v.peeked (v.pos + k + 1) }
  match cur with
  | _ :: _ => v
  | [] => { v with sawEnd := true, ioErr := v.ioErr || (v.fault && !v.sawEnd) }

theorem demand_eq_demandCur (v : View) (k : Nat) : v.demand k = v.demandCur (v.rest.drop k) k := by
  rw [demand_eq_demandFast]; rfl

theorem demandCur_rest (v : View) (cur : VBytes) (k : Nat) : (v.demandCur cur k).rest = v.rest := by
  unfold demandCur; cases cur <;> rfl

/-- `request_byte()`. -/
def reqByte (v : View) : Option UInt8 × View := v.reqAt 0

/-- Number of bytes in front of the cursor that are certainly buffered: those demanded so far
(and existing). `advance(n)` beyond this may panic depending on the read schedule, so the view
treats it as a panic outright; the parser theorems (C05) show it never happens. -/
def demanded (v : View) : Nat := min (v.peeked - v.pos) v.rest.length

/-- `advance(n)`; `none` = panic. -/
def advance (v : View) (n : Nat) : Option View :=
  if n ≤ v.demanded then some { v with rest := v.rest.drop n, pos := v.pos + n } else none

/-- `&buf()[..n]` for an already scanned `n`; `none` = slice index panic. -/
def bufPrefix (v : View) (n : Nat) : Option VBytes :=
  if n ≤ v.demanded then some (v.rest.take n) else none

/-- `n ≤ l.length`, decided in `n` steps. -/
def lengthGe (l : VBytes) (n : Nat) : Bool :=
  match n with
  | 0 => true
  | n + 1 => !(l.drop n).isEmpty

theorem lengthGe_iff (l : VBytes) (n : Nat) : lengthGe l n = true ↔ n ≤ l.length := by
  cases n with
  | zero => simp [lengthGe]
  | succ n =>
    simp only [lengthGe]
    cases h : l.drop n with
    | nil =>
      have hl := List.length_drop (i := n) (l := l)
      rw [h] at hl; simp at hl; simp; omega
    | cons a t =>
      have hl := List.length_drop (i := n) (l := l)
      rw [h] at hl; simp at hl; simp; omega

/-- Executable forms of `advance` / `bufPrefix` that do not walk the whole remaining input. -/
def advanceFast (v : View) (n : Nat) : Option View :=
  if n ≤ v.peeked - v.pos ∧ lengthGe v.rest n then some { v with rest := v.rest.drop n, pos := v.pos + n }
  else none

def bufPrefixFast (v : View) (n : Nat) : Option VBytes :=
  if n ≤ v.peeked - v.pos ∧ lengthGe v.rest n then some (v.rest.take n) else none

@[csimp] theorem advance_eq_advanceFast : @advance = @advanceFast := by
  funext v n
  simp only [advance, advanceFast, demanded]
  have := lengthGe_iff v.rest n
  by_cases h : n ≤ min (v.peeked - v.pos) v.rest.length
  · have h1 : n ≤ v.peeked - v.pos := by omega
    have h2 : lengthGe v.rest n = true := this.mpr (by omega)
    simp [h, h1, h2]
  · by_cases h1 : n ≤ v.peeked - v.pos
    · have h2 : ¬ lengthGe v.rest n = true := fun hh => h (by have := this.mp hh; omega)
      simp [h, h2]
    · simp [h, h1]

@[csimp] theorem bufPrefix_eq_bufPrefixFast : @bufPrefix = @bufPrefixFast := by
  funext v n
  simp only [bufPrefix, bufPrefixFast, demanded]
  have := lengthGe_iff v.rest n
  by_cases h : n ≤ min (v.peeked - v.pos) v.rest.length
  · have h1 : n ≤ v.peeked - v.pos := by omega
    have h2 : lengthGe v.rest n = true := this.mpr (by omega)
    simp [h, h1, h2]
  · by_cases h1 : n ≤ v.peeked - v.pos
    · have h2 : ¬ lengthGe v.rest n = true := fun hh => h (by have := this.mp hh; omega)
      simp [h, h2]
    · simp [h, h1]

def setMark (v : View) : View := { v with mark := v.pos }

def isAtEnd (v : View) : Bool := v.sawEnd && v.rest.isEmpty

/-- `check_io_error()`: `true` = `Err`. -/
def checkIoError (v : View) : Bool × View := (v.ioErr, { v with ioErr := false })

end View
end Flussab
