/-
Support for the generated DIMACS token model (`Gen/CnfTokenGen.lean`, from `flussab-cnf/src/token.rs`).
Hand-written; part of the trusted base: the contracts of the `flussab::Parsed` combinators
(`flussab/src/parser.rs`) that token.rs applies to closures, and of the `isize as usize` cast.

Encoding (see `tools/unit_cnftoken.py`): a `ParseError` is the thrown final outcome, so
`Parsed<T, ParseError>` is an `Option T` (`none` = `Fallthrough`) inside `PM`, `Result<T, ParseError>` is
`PM T`, and `Parsed<T, String>` (error = text of the numeral) is `Option (Option T)`.  The combinators take
the *value* of the receiver (it has been computed before the method is called) and the closure as a
computation that is run only where parser.rs calls it.
-/
import Flussab.Model.PMExt
import Flussab.Model.CnfToken
import Flussab.Model.Rt

namespace Flussab
namespace CnfTokenExt
open PM

/-- `Parsed::or_parse(self, parse: impl FnOnce() -> Parsed<T, E>)`: `Fallthrough => parse()`, `v => v`. -/
def orParse {α : Type} (p : Option α) (parse : PM (Option α)) : PM (Option α) :=
  match p with
  | some a => pure (some a)
  | none => parse

/-- `Parsed::or_give_up(self, err: impl FnOnce() -> E) -> Result<T, E>`:
`Res(result) => result`, `Fallthrough => Err(err())`. -/
def orGiveUp {α : Type} (p : Option α) (err : PM α) : PM α :=
  match p with
  | some a => pure a
  | none => err

/-- `Parsed::map_err(self, f: impl FnOnce(E) -> E2)` from `Parsed<T, String>` to `Parsed<T, ParseError>`:
`Res(Ok(v)) => Res(Ok(v))`, `Res(Err(s)) => Res(Err(f(s)))` (here: `f` runs and its error is the outcome),
`Fallthrough => Fallthrough`.  The `String` is not modelled. -/
def mapErr {α : Type} (p : Option (Option α)) (f : Unit → PM (Option α)) : PM (Option α) :=
  match p with
  | some (some v) => pure (some v)
  | some none => f ()
  | none => pure none

/-- `Parsed::and_also(self, parse: impl FnOnce(&mut T) -> Result<(), E>)`: on `Res(Ok(v))` run `parse(&mut v)`
(an `Err` is the outcome), otherwise unchanged.  (No closure of token.rs assigns through the `&mut`.) -/
def andAlso {α : Type} (p : Option α) (f : α → PM Unit) : PM (Option α) :=
  match p with
  | some v => do f v; pure (some v)
  | none => pure none

/-- `Parsed::and_then(self, parse: impl FnOnce(T) -> Result<U, E>)`: on `Res(Ok(v))` the result of `parse(v)`
(an `Err` is the outcome), `Fallthrough => Fallthrough`. -/
def andThen {α β : Type} (p : Option α) (f : α → PM β) : PM (Option β) :=
  match p with
  | some v => do pure (some (← f v))
  | none => pure none

/-- `x as usize` for an `isize` (64-bit target): two's complement reinterpretation, as an integer. -/
def isizeAsUsize (x : Int) : Int := if 0 ≤ x then x else x + 2 ^ 64

end CnfTokenExt
end Flussab
