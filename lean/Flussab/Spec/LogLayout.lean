/-
`Spec.LogLayout` — the layout grammar of SAT solver logs (`sat_solver_log.rs`) as DATA: the formal
counterpart of `gen_log` in `harness/src/gen_cnf.rs`.

A log is a list of lines; `LogLayout.render` distributes the assignment of the abstract value
`SolverLog` over the value lines in order.  Choices:
* comment lines `"c " ++ body` anywhere (also at the end)
* the solution line `"s SATISFIABLE"` / `"s UNSATISFIABLE"` / `"s UNKNOWN"` anywhere between the
  other lines (the generator: before or after the value lines); for `satisfiable = none` it may
  be absent or `"s UNKNOWN"`
* the value lines: any split of the literals over lines `"v " ++ blanks ++ (numeral ++ blanks)*`,
  including lines without literals; the last one carries the terminator `'-'? '0'^z "0"` and
  optional blanks; no value line at all only for an empty assignment
* numerals with leading zeros, blanks (spaces / tabs) after `"v "` and after each numeral
* when `ignore_unknown_lines`: arbitrary other lines (not starting with `"c "`, `"v "`, `"s "`)
* `"\n"` or `"\r\n"` per line; the last line end may be missing

The strictness of the parser that is outside this grammar (a bare `"c"` comment, blanks in front
of a line, `"s  SATISFIABLE"`, blanks after the solution) stays rejected.
-/
import Flussab.Spec.Layout

namespace Flussab
namespace Spec
open Cnf

inductive LogLine where
  /-- `"c " ++ body` -/
  | comment (body : VBytes)
  /-- any other line (only with `ignore_unknown_lines`) -/
  | unknown (text : VBytes)
  /-- the solution line -/
  | status
  /-- `"v " ++ pre ++ literals`, each literal with leading zeros and followed by blanks -/
  | values (pre : Blanks) (lits : List (Nat × Blank1))
  /-- the last value line: literals, terminator, blanks -/
  | final (pre : Blanks) (lits : List (Nat × Blank1)) (neg : Bool) (zeros : Nat) (post : Blanks)
deriving Repr, Inhabited

def statusWord : Option Bool → VBytes
  | some true => [83, 65, 84, 73, 83, 70, 73, 65, 66, 76, 69]
  | some false => [85, 78, 83, 65, 84, 73, 83, 70, 73, 65, 66, 76, 69]
  | none => [85, 78, 75, 78, 79, 87, 78]

def renderValueLits : List (Nat × Blank1) → List Int → VBytes
  | (z, b) :: ls, x :: xs => intNumeral z x ++ b.render ++ renderValueLits ls xs
  | _, _ => []

/-- The text of a line (without line end), given the literals not yet written. -/
def LogLine.render (sat : Option Bool) (xs : List Int) : LogLine → VBytes
  | .comment body => [99, 32] ++ body
  | .unknown text => text
  | .status => [115, 32] ++ statusWord sat
  | .values pre lits => [118, 32] ++ renderBlanks pre ++ renderValueLits lits xs
  | .final pre lits neg z post =>
    [118, 32] ++ renderBlanks pre ++ renderValueLits lits xs ++ terminator neg z ++ renderBlanks post

/-- Number of literals a line writes. -/
def LogLine.uses : LogLine → Nat
  | .values _ lits => lits.length
  | .final _ lits _ _ _ => lits.length
  | _ => 0

/-- The lines, each with its line end — except that the end of the last line is dropped when
`dropFinalEol`. -/
def renderLog (sat : Option Bool) (dropFinalEol : Bool) : List (LogLine × Eol) → List Int → VBytes
  | [], _ => []
  | (ln, e) :: rest, xs =>
    ln.render sat xs ++ (if rest.isEmpty && dropFinalEol then [] else e.render) ++
      renderLog sat dropFinalEol rest (xs.drop ln.uses)

def startsWith (pat text : VBytes) : Bool := pat.isPrefixOf text

/-- The lines fit the value, tracked through the parser-visible state: solution line seen,
assignment started / finished, literals still to be written. -/
def FitsLog (ignoreUnknown : Bool) (sat : Option Bool) (dropFinalEol : Bool) :
    (seenS started finished : Bool) → List (LogLine × Eol) → List Int → Prop
  | seenS, started, finished, [], xs =>
    xs = [] ∧ (started = true → finished = true) ∧ (sat.isSome = true → seenS = true)
  | seenS, started, finished, (ln, _) :: rest, xs =>
    match ln with
    | .comment body => body.all (· != 10) = true ∧
        FitsLog ignoreUnknown sat dropFinalEol seenS started finished rest xs
    | .unknown text => ignoreUnknown = true ∧ text.all (· != 10) = true ∧
        startsWith [99, 32] text = false ∧ startsWith [118, 32] text = false ∧
        startsWith [115, 32] text = false ∧
        -- an empty line needs its line end (otherwise there is no line)
        (text = [] → ¬ (rest.isEmpty = true ∧ dropFinalEol = true)) ∧
        FitsLog ignoreUnknown sat dropFinalEol seenS started finished rest xs
    | .status => seenS = false ∧
        FitsLog ignoreUnknown sat dropFinalEol true started finished rest xs
    | .values _ lits => finished = false ∧ lits.length ≤ xs.length ∧
        FitsLog ignoreUnknown sat dropFinalEol seenS true false rest (xs.drop lits.length)
    | .final _ lits _ _ _ => finished = false ∧ lits.length = xs.length ∧
        FitsLog ignoreUnknown sat dropFinalEol seenS true true rest []

instance (ign : Bool) (sat : Option Bool) (d : Bool) :
    (s a b : Bool) → (lines : List (LogLine × Eol)) → (xs : List Int) →
      Decidable (FitsLog ign sat d s a b lines xs)
  | s, a, b, [], xs => by unfold FitsLog; exact inferInstance
  | s, a, b, (.comment body, _) :: rest, xs => by
    unfold FitsLog
    have := instDecidableFitsLog ign sat d s a b rest xs
    exact inferInstance
  | s, a, b, (.unknown text, _) :: rest, xs => by
    unfold FitsLog
    have := instDecidableFitsLog ign sat d s a b rest xs
    exact inferInstance
  | s, a, b, (.status, _) :: rest, xs => by
    unfold FitsLog
    have := instDecidableFitsLog ign sat d true a b rest xs
    exact inferInstance
  | s, a, b, (.values _ lits, _) :: rest, xs => by
    unfold FitsLog
    have := instDecidableFitsLog ign sat d s true false rest (xs.drop lits.length)
    exact inferInstance
  | s, a, b, (.final _ lits _ _ _, _) :: rest, xs => by
    unfold FitsLog
    have := instDecidableFitsLog ign sat d s true true rest []
    exact inferInstance

structure LogLayout where
  lines : List (LogLine × Eol) := []
  dropFinalEol : Bool := false
deriving Repr, Inhabited

def LogLayout.render (ℓ : LogLayout) (v : SolverLog) : VBytes :=
  renderLog v.satisfiable ℓ.dropFinalEol ℓ.lines v.assignment

/-- `ℓ` is a layout of the log value `v` for a parser with the given `ignore_unknown_lines`. -/
def LogLayout.Fits (ℓ : LogLayout) (ignoreUnknown : Bool) (v : SolverLog) : Prop :=
  FitsLog ignoreUnknown v.satisfiable ℓ.dropFinalEol false false false ℓ.lines v.assignment

instance (ℓ : LogLayout) (ign : Bool) (v : SolverLog) : Decidable (ℓ.Fits ign v) := by
  unfold LogLayout.Fits; exact inferInstance

/-- Domain of the log theorem: literals are non-zero DIMACS literals of the type. -/
def LogWF (l : LitTy) (v : SolverLog) : Prop :=
  (1 ≤ l.bits ∧ l.bits ≤ 64) ∧ ∀ x ∈ v.assignment, x ≠ 0 ∧ -l.maxDimacs ≤ x ∧ x ≤ l.maxDimacs

instance (l : LitTy) (v : SolverLog) : Decidable (LogWF l v) := by unfold LogWF; exact inferInstance

end Spec
end Flussab
