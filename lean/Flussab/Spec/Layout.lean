/-
`Spec.Layout` — the layout grammar of the DIMACS family (CNF / WCNF / GCNF) as DATA.

A `Layout` value fixes every optional choice a text of a given abstract document
`(header?, clauses)` can make; `Layout.render` turns the document into bytes under these choices.
Property C07 (`Flussab/Props/C07.lean`) is: the parser models return the document for EVERY
layout.  This is the formal counterpart of the random generator `harness/src/gen_cnf.rs`
(`render`, `Out::*`); each choice point of the generator is a field here (the generator's choice
bits are given in brackets):

* `Blanks` (possibly empty) / `Blank1` (non-empty): runs of `' '` and `'\t'`            [0]
* `Eol`: `"\n"` or `"\r\n"`                                                               [1]
* `JunkLine`: a comment line `'c' ++ body ++ "\n"` (`body` free of `'\n'`; a trailing `'\r'` in
  the body makes it a CRLF comment line) or a blank line (just an `Eol`).  `Junk` is a list of
  junk lines EACH FOLLOWED by optional blanks.  The generator writes the optional blanks in front
  of a junk line [2,3]; as every place where junk may occur is itself preceded by an optional
  blank field (`lead`, `pre`, `post` of `Sep.brk`, the blanks of a trailer), "blanks in front of
  each line" and "blanks behind each line" describe the same set of texts — and the second form
  is how the tokenizer sees it (`comment` / `newline` consume the blanks that follow them).
* numerals: `'0'^z ++ canonical digits`, with `'-'` in front for negative numbers          [4]
* terminator of a clause: `'-'? ++ '0'^z ++ "0"` (the generator: `0`, `-0`, `00`)          [5]
* `Sep` between the numbers of a clause: blanks, or `Blanks ++ Eol ++ Blanks ++ Junk`  [6,7,8,9]
  (also after a WCNF weight and a GCNF group [15]; the generator's `" "` there is `Sep.blank`)
* leading blanks and junk before the header                                           [10,11]
* blanks before the `Eol` of the header                                                   [12]
* blanks and junk in front of every clause                                            [13,14]
* blanks after the terminator                                                             [16]
* the final `Eol` may be missing (`trailer = none`)                                       [17]
* junk and blanks after the final `Eol` (`trailer = some (blanks, junk)`)             [18,19]

Executable, no Mathlib; the layout of the clauses is a list parallel to the clause list (and the
layout of the literals a list parallel to the literal list), `Layout.Fits` says that the lengths
agree and that comment bodies contain no line feed.
-/
import Flussab.Model.Cnf

namespace Flussab
namespace Spec
open Cnf

inductive BlankCh where
  | sp | tab
deriving Repr, DecidableEq, Inhabited

def BlankCh.byte : BlankCh → UInt8
  | .sp => 32
  | .tab => 9

/-- A possibly empty run of blanks. -/
abbrev Blanks := List BlankCh

def renderBlanks (b : Blanks) : VBytes := b.map BlankCh.byte

/-- A non-empty run of blanks. -/
structure Blank1 where
  head : BlankCh := .sp
  tail : Blanks := []
deriving Repr, DecidableEq, Inhabited

def Blank1.render (b : Blank1) : VBytes := b.head.byte :: renderBlanks b.tail

inductive Eol where
  | lf | crlf
deriving Repr, DecidableEq, Inhabited

def Eol.render : Eol → VBytes
  | .lf => [10]
  | .crlf => [13, 10]

inductive JunkLine where
  /-- `'c' ++ body ++ "\n"` -/
  | comment (body : VBytes)
  /-- an empty line -/
  | blank (e : Eol)
deriving Repr, DecidableEq, Inhabited

def JunkLine.render : JunkLine → VBytes
  | .comment body => 99 :: body ++ [10]
  | .blank e => e.render

/-- A comment body must not contain a line feed. -/
def JunkLine.valid : JunkLine → Bool
  | .comment body => body.all (· != 10)
  | .blank _ => true

/-- Junk lines, each followed by optional blanks. -/
abbrev Junk := List (JunkLine × Blanks)

def renderJunk : Junk → VBytes
  | [] => []
  | (l, b) :: j => l.render ++ renderBlanks b ++ renderJunk j

def Junk.valid (j : Junk) : Bool := j.all fun x => x.1.valid

/-- Separator between two numbers of a clause. -/
inductive Sep where
  | blank (b : Blank1)
  /-- a line break inside the clause: `pre ++ eol ++ post ++ junk` -/
  | brk (pre : Blanks) (e : Eol) (post : Blanks) (junk : Junk)
deriving Repr, Inhabited

def Sep.render : Sep → VBytes
  | .blank b => b.render
  | .brk pre e post junk => renderBlanks pre ++ e.render ++ renderBlanks post ++ renderJunk junk

def Sep.valid : Sep → Bool
  | .blank _ => true
  | .brk _ _ _ junk => junk.valid

/-- `'0'^z ++` canonical decimal digits. -/
def numeral (z : Nat) (n : Nat) : VBytes := List.replicate z 48 ++ Writer.natDigits n

/-- Signed numeral: `'-'` in front of the numeral of the absolute value. -/
def intNumeral (z : Nat) (x : Int) : VBytes :=
  if x < 0 then 45 :: numeral z x.natAbs else numeral z x.natAbs

/-- The terminating zero of a clause: `'-'? ++ '0'^z ++ "0"`. -/
def terminator (neg : Bool) (z : Nat) : VBytes :=
  if neg then 45 :: numeral z 0 else numeral z 0

structure HeaderLayout where
  afterP : Blank1 := {}
  afterFmt : Blank1 := {}
  afterVars : Blank1 := {}
  /-- only used by WCNF / GCNF (in front of the third number) -/
  afterClauses : Blank1 := {}
  zVars : Nat := 0
  zClauses : Nat := 0
  zExtra : Nat := 0
  beforeEol : Blanks := []
  eol : Eol := .lf
deriving Repr, Inhabited

def renderHeader (hl : HeaderLayout) (fmt : Format) (h : Header) : VBytes :=
  [112] ++ hl.afterP.render ++ keyword fmt ++ hl.afterFmt.render ++
    intNumeral hl.zVars h.varCount ++ hl.afterVars.render ++ intNumeral hl.zClauses h.clauseCount ++
    (match fmt with
      | .cnf => []
      | _ => hl.afterClauses.render ++ intNumeral hl.zExtra h.extra) ++
    renderBlanks hl.beforeEol ++ hl.eol.render

structure ClauseLayout where
  /-- blanks at the start of the clause's first line -/
  pre : Blanks := []
  /-- junk lines in front of the clause -/
  junk : Junk := []
  /-- leading zeros of the weight / group (WCNF / GCNF) -/
  zTag : Nat := 0
  /-- separator after the weight / group (WCNF / GCNF) -/
  tagSep : Sep := .blank {}
  /-- per literal: leading zeros, separator after it -/
  lits : List (Nat × Sep) := []
  termNeg : Bool := false
  termZeros : Nat := 0
  /-- blanks after the terminator -/
  post : Blanks := []
  /-- end of the clause's last line (not rendered for the last clause if `trailer = none`) -/
  eol : Eol := .lf
deriving Repr, Inhabited

def renderLits : List (Nat × Sep) → List Int → VBytes
  | (z, s) :: ls, x :: xs => intNumeral z x ++ s.render ++ renderLits ls xs
  | _, _ => []

/-- What stands in front of the literals: nothing, `weight sep`, `{group} sep`. -/
def renderTag (fmt : Format) (cl : ClauseLayout) (c : Clause) : VBytes :=
  match fmt with
  | .cnf => []
  | .wcnf => intNumeral cl.zTag c.tag ++ cl.tagSep.render
  | .gcnf => [123] ++ intNumeral cl.zTag c.tag ++ [125] ++ cl.tagSep.render

/-- A clause without its `Eol`. -/
def renderClauseBody (fmt : Format) (cl : ClauseLayout) (c : Clause) : VBytes :=
  renderBlanks cl.pre ++ renderJunk cl.junk ++ renderTag fmt cl c ++ renderLits cl.lits c.lits ++
    terminator cl.termNeg cl.termZeros ++ renderBlanks cl.post

def renderTrailer : Option (Blanks × Junk) → VBytes
  | none => []
  | some (b, j) => renderBlanks b ++ renderJunk j

/-- The clauses, each with its `Eol` — except that the `Eol` of the last clause is dropped when
there is no trailer (`none`) — followed by the trailer. -/
def renderClauses (fmt : Format) : List ClauseLayout → List Clause → Option (Blanks × Junk) → VBytes
  | cl :: cls, c :: cs, tr =>
    renderClauseBody fmt cl c ++ (if cls.isEmpty && tr.isNone then [] else cl.eol.render) ++
      renderClauses fmt cls cs tr
  | _, _, tr => renderTrailer tr

def ClauseLayout.valid (cl : ClauseLayout) : Bool :=
  cl.junk.valid && cl.tagSep.valid && cl.lits.all fun x => x.2.valid

end Spec

open Spec Cnf in
structure Spec.Layout where
  /-- blanks at the very start -/
  lead : Blanks := []
  /-- junk lines in front of the header -/
  junk : Junk := []
  header : HeaderLayout := {}
  clauses : List ClauseLayout := []
  /-- `none`: the text ends right after the last clause, whose `Eol` is missing;
  `some (b, j)`: the last clause has its `Eol` and is followed by blanks and junk lines -/
  trailer : Option (Blanks × Junk) := some ([], [])
deriving Repr, Inhabited

namespace Spec
open Cnf

/-- `render ℓ fmt h cs`: the text of the document under layout `ℓ`.  A document without header and
without clauses consists of leading blanks and junk only (a trailer would be indistinguishable from
more of the same and is not rendered). -/
def Layout.render (ℓ : Layout) (fmt : Format) (h : Option Header) (cs : List Clause) : VBytes :=
  renderBlanks ℓ.lead ++ renderJunk ℓ.junk ++
    (match h with | some h => renderHeader ℓ.header fmt h | none => []) ++
    renderClauses fmt ℓ.clauses cs (if h.isNone && cs.isEmpty then none else ℓ.trailer)

/-- The clause layouts are parallel to the clauses. -/
def FitsClauses : List ClauseLayout → List Clause → Prop
  | [], [] => True
  | cl :: cls, c :: cs => cl.lits.length = c.lits.length ∧ cl.valid = true ∧ FitsClauses cls cs
  | _, _ => False

instance : (cls : List ClauseLayout) → (cs : List Clause) → Decidable (FitsClauses cls cs)
  | [], [] => isTrue trivial
  | _ :: cls, _ :: cs =>
    have := instDecidableFitsClauses cls cs
    inferInstanceAs (Decidable (_ ∧ _ ∧ _))
  | [], _ :: _ => isFalse id
  | _ :: _, [] => isFalse id

/-- `ℓ` is a layout for the clause list `cs`: one clause layout per clause, one literal layout per
literal, no line feed inside a comment body. -/
structure Layout.Fits (ℓ : Layout) (cs : List Clause) : Prop where
  junk : ℓ.junk.valid = true
  clauses : FitsClauses ℓ.clauses cs
  trailer : (match ℓ.trailer with | some (_, j) => j.valid | none => true) = true

instance (ℓ : Layout) (cs : List Clause) : Decidable (ℓ.Fits cs) :=
  decidable_of_iff (ℓ.junk.valid = true ∧ FitsClauses ℓ.clauses cs ∧
      (match ℓ.trailer with | some (_, j) => j.valid | none => true) = true)
    ⟨fun ⟨a, b, c⟩ => ⟨a, b, c⟩, fun ⟨a, b, c⟩ => ⟨a, b, c⟩⟩

/-- The layout of the writers: single spaces, `"\n"`, no junk, no leading zeros. -/
def ClauseLayout.canonical (c : Clause) : ClauseLayout :=
  { lits := c.lits.map fun _ => (0, .blank {}) }

def Layout.canonical (cs : List Clause) : Layout :=
  { clauses := cs.map ClauseLayout.canonical }

end Spec
end Flussab
