/-
`Spec.CnfWF` — the domain of the DIMACS-family round-trip / layout theorems (C03, C07): the
documents `(header?, clauses)` that the parsers accept, as an explicit decidable predicate.

Each condition excludes real values of the Rust types, namely exactly those the parser rejects
(or — for plain CNF — cannot represent):
* `bits`: the literal type is one of `i8 … i64/isize` (`1 ≤ bits ≤ 64`); wider types do not exist
  in the crate (`Dimacs` is implemented for `i8, i16, i32, i64, isize`).
* header: `var_count ≤ L::MAX_DIMACS` (a larger count is rejected by `var_count`, also with
  `ignore_header`); counts, top weight, group count are `usize`/`u64`, i.e. in `[0, 2^64)`; the
  plain CNF header has no third field (`extra = 0`).
* `count`: unless `ignore_header`, a non-zero `clause_count` must be the number of clauses
  (otherwise the parser reports a missing / surplus clause).
* literals: non-zero (zero is the terminator), `|lit| ≤ L::MAX_DIMACS` (`-MAX-1`, e.g. `-128` for
  `i8`, is a value of the type the parser rejects), and — unless `ignore_header` — `|lit| ≤
  var_count` when the header declares a non-zero variable count.
* tags: plain CNF clauses have none (`tag = 0`); WCNF weights are `u64`; GCNF groups are `usize`
  and — unless `ignore_header` — at most a non-zero declared `group_count`.
-/
import Flussab.Model.Cnf

namespace Flussab
namespace Spec
open Cnf

/-- The literal limit in force: a non-zero declared variable count unless the header is ignored. -/
def litLimit (l : LitTy) (ignoreHeader : Bool) (h : Option Header) : Int :=
  match h with
  | some hd => if !ignoreHeader && hd.varCount != 0 then hd.varCount else l.maxDimacs
  | none => l.maxDimacs

/-- The group limit in force (GCNF): a non-zero declared group count unless the header is ignored. -/
def groupLimit (ignoreHeader : Bool) (h : Option Header) : Int :=
  match h with
  | some hd => if !ignoreHeader && hd.extra != 0 then hd.extra else 2 ^ 64 - 1
  | none => 2 ^ 64 - 1

def HeaderWF (fmt : Format) (l : LitTy) (hd : Header) : Prop :=
  0 ≤ hd.varCount ∧ hd.varCount ≤ l.maxDimacs ∧ 0 ≤ hd.clauseCount ∧ hd.clauseCount < 2 ^ 64 ∧
    (if fmt = .cnf then hd.extra = 0 else 0 ≤ hd.extra ∧ hd.extra < 2 ^ 64)

def LitWF (l : LitTy) (limit : Int) (x : Int) : Prop :=
  x ≠ 0 ∧ -limit ≤ x ∧ x ≤ limit ∧ -l.maxDimacs ≤ x ∧ x ≤ l.maxDimacs

def TagWF (fmt : Format) (glimit : Int) (tag : Int) : Prop :=
  if fmt = .cnf then tag = 0
  else 0 ≤ tag ∧ tag < 2 ^ 64 ∧ (fmt = .gcnf → tag ≤ glimit)

def ClauseWF (fmt : Format) (l : LitTy) (limit glimit : Int) (c : Clause) : Prop :=
  TagWF fmt glimit c.tag ∧ ∀ x ∈ c.lits, LitWF l limit x

instance (fmt l hd) : Decidable (HeaderWF fmt l hd) := by unfold HeaderWF; exact inferInstance
instance (l limit x) : Decidable (LitWF l limit x) := by unfold LitWF; exact inferInstance
instance (fmt g t) : Decidable (TagWF fmt g t) := by unfold TagWF; exact inferInstance
instance (fmt l a b c) : Decidable (ClauseWF fmt l a b c) := by unfold ClauseWF; exact inferInstance

/-- The documents the DIMACS-family parsers accept (and return unchanged). -/
structure CnfWF (fmt : Format) (l : LitTy) (ignoreHeader : Bool) (h : Option Header)
    (cs : List Clause) : Prop where
  bits : 1 ≤ l.bits ∧ l.bits ≤ 64
  header : ∀ hd, h = some hd → HeaderWF fmt l hd
  count : ∀ hd, h = some hd → ignoreHeader = true ∨ hd.clauseCount = 0 ∨ hd.clauseCount = cs.length
  clauses : ∀ c ∈ cs, ClauseWF fmt l (litLimit l ignoreHeader h) (groupLimit ignoreHeader h) c

/-- `∀ hd, h = some hd → P hd` is decidable. -/
def decOnSome {α : Type} (h : Option α) (P : α → Prop) [DecidablePred P] :
    Decidable (∀ a, h = some a → P a) :=
  match h with
  | none => isTrue (fun _ e => by cases e)
  | some a => decidable_of_iff (P a) ⟨fun p _ e => by cases e; exact p, fun f => f a rfl⟩

instance (fmt l ign h cs) : Decidable (CnfWF fmt l ign h cs) :=
  have := decOnSome h (fun hd => HeaderWF fmt l hd)
  have := decOnSome h (fun hd : Header => ign = true ∨ hd.clauseCount = 0 ∨ hd.clauseCount = cs.length)
  decidable_of_iff
    ((1 ≤ l.bits ∧ l.bits ≤ 64) ∧ (∀ hd, h = some hd → HeaderWF fmt l hd) ∧
      (∀ hd, h = some hd → ign = true ∨ hd.clauseCount = 0 ∨ hd.clauseCount = cs.length) ∧
      ∀ c ∈ cs, ClauseWF fmt l (litLimit l ign h) (groupLimit ign h) c)
    ⟨fun ⟨a, b, c, d⟩ => ⟨a, b, c, d⟩, fun ⟨a, b, c, d⟩ => ⟨a, b, c, d⟩⟩

end Spec
end Flussab
