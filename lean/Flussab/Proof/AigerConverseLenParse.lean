/-
Length accounting for whole AIGER files: what the writers emit for a parsed circuit is at most one
byte longer than what the parser consumed.  (The one byte: a file that ends in the comment header
`c\n` yields the empty comment, which is written as `c\n\n`.)

Sections: the header (the writer trims trailing zero fields the parser may have read), literal
lines, latch lines (` 0` is written as nothing), and-gate lines, the binary latch lines and the
delta-coded and gates (indexed by the running counter), the justice literals (distributed over the
properties by `parse()`), symbols, comment.
-/
import Flussab.Proof.AigerConverseLen
import Flussab.Proof.AigerConverseParse
import Flussab.Proof.AigerJustice

namespace Flussab
namespace Aiger
open PM AigerRT

/-! ### generic loops -/

theorem flatten_length_sum {α : Type} (f : α → VBytes) (xs : List α) :
    ((xs.map f).flatten).length = (xs.map fun x => (f x).length).sum := by
  induction xs with
  | nil => rfl
  | cons x xs ih => simp only [List.map_cons, List.flatten_cons, List.length_append, List.sum_cons, ih]

/-- Postcondition of a step of a counted section: an item costs at least its weight. -/
def ItemQ {σ α : Type} (W : α → Nat) (r : Option α × σ) (k : Nat) : Prop :=
  match r.1 with
  | some a => W a ≤ k
  | none => True

theorem whileSome_con {σ α : Type} {next : σ → PM (Option α × σ)} {W : α → Nat}
    (h : ∀ s, Con (next s) (ItemQ W)) :
    ∀ (fuel : Nat) (s : σ) (acc : List α),
      Con (whileSome next fuel s acc)
        (fun r k => ∃ xs, r.1 = acc.reverse ++ xs ∧ (xs.map W).sum ≤ k) := by
  intro fuel
  induction fuel with
  | zero => intro s acc; unfold whileSome; exact Con.of_fails (fails_rpanic _)
  | succ fuel ih =>
    intro s acc
    unfold whileSome
    refine Con.bind (h s) fun r k1 hr => ?_
    obtain ⟨o, s'⟩ := r
    cases o with
    | none =>
      simp only
      exact Con.pure ⟨[], by simp, by simp⟩
    | some a =>
      simp only [ItemQ] at hr ⊢
      refine Con.mono (ih s' (a :: acc)) ?_
      rintro ⟨ys, s''⟩ k2 ⟨xs, hxs, hsum⟩
      simp only at hxs ⊢
      exact ⟨a :: xs, by rw [hxs]; simp, by simp only [List.map_cons, List.sum_cons]; omega⟩

theorem ItemQ.weaken {σ α : Type} {W : α → Nat} {m : PM (Option α × σ)} (h : Con m (ItemQ W)) :
    Con m (ItemQ (fun _ => 0)) :=
  Con.mono h fun r k _ => by
    unfold ItemQ
    split <;> simp

/-- The loop at the start of a transition function only consumes. -/
theorem finish_con {α : Type} {next : St → PM (Option α × St)} {W : α → Nat}
    (h : ∀ s, Con (next s) (ItemQ W)) (s : St) : Con (finish next s) (fun _ _ => True) := by
  unfold finish
  refine Con.bind (whileSome_con h _ s []) fun r k1 _ => ?_
  obtain ⟨xs, s'⟩ := r
  exact Con.pure trivial

/-! ### header -/

/-- Length of header fields as written: a space and the number, each. -/
def hfLen (fs : List Nat) : Nat := ((fs.map fun f => [32] ++ natText f).flatten).length

theorem hfLen_nil : hfLen [] = 0 := rfl

theorem hfLen_cons (x : Nat) (xs : List Nat) : hfLen (x :: xs) = 1 + dl x + hfLen xs := by
  simp only [hfLen, dl, List.map_cons, List.flatten_cons, List.length_append, List.length_cons,
    List.length_nil]
  try omega

theorem hfLen_append (xs ys : List Nat) : hfLen (xs ++ ys) = hfLen xs + hfLen ys := by
  induction xs with
  | nil => simp [hfLen_nil]
  | cons x xs ih => simp only [List.cons_append, hfLen_cons, ih]; omega

theorem trimRev_suffix : ∀ r : List Nat, trimFieldsRev r <:+ r := by
  intro r
  induction r with
  | nil => simp [trimFieldsRev]
  | cons x rest ih =>
    cases x with
    | zero =>
      by_cases h : rest.length ≥ 5
      · rw [trimRev_zero _ h]
        exact List.IsSuffix.trans ih (List.suffix_cons _ _)
      · rw [trimRev_zero_stop _ h]
        exact List.suffix_refl _
    | succ n => rw [trimRev_succ]; exact List.suffix_refl _

theorem trimRev_zeros (k : Nat) (r : List Nat) (h : 5 ≤ r.length) :
    trimFieldsRev (List.replicate k 0 ++ r) = trimFieldsRev r := by
  induction k with
  | zero => simp
  | succ k ih =>
    rw [List.replicate_succ, List.cons_append, trimRev_zero _ (by simp; omega), ih]

/-- The trimmed field list is a prefix of what the parser read. -/
theorem hfLen_trim (pre : List Nat) (k : Nat) (h : 5 ≤ pre.length) :
    hfLen (trimFields (pre ++ List.replicate k 0)) ≤ hfLen pre := by
  unfold trimFields
  rw [List.reverse_append, List.reverse_replicate, trimRev_zeros k _ (by simpa using h)]
  obtain ⟨t, ht⟩ := trimRev_suffix pre.reverse
  have : pre = (trimFieldsRev pre.reverse).reverse ++ t.reverse := by
    have := congrArg List.reverse ht
    simpa using this.symm
  conv => rhs; rw [this]
  rw [hfLen_append]
  omega

theorem magic_length (bin : Bool) : (magic bin).length = 3 := by cases bin <;> rfl

theorem writeHeader_le (bin : Bool) (h : Header) (pre : List Nat) (z : Nat)
    (hf : headerFields h = pre ++ List.replicate z 0) (h5 : 5 ≤ pre.length) :
    (writeHeader bin h).length ≤ 3 + hfLen pre + 1 := by
  have := hfLen_trim pre z h5
  unfold writeHeader
  rw [hf]
  simp only [List.length_append, magic_length, List.length_cons, List.length_nil]
  have e : ∀ fs : List Nat, ((fs.map fun f => [32] ++ natText f).flatten).length = hfLen fs :=
    fun _ => rfl
  rw [e]
  omega

/-- The five ways out of the optional part of the header. -/
abbrev OptQ (h h' : Header) (k : Nat) : Prop :=
  (h' = h ∧ k = 1) ∨
  (∃ b, h' = { h with badCount := b } ∧ k = (1 + dl b) + 1) ∨
  (∃ b c, h' = { h with badCount := b, constraintCount := c } ∧ k = (1 + dl b) + (1 + dl c) + 1) ∨
  (∃ b c j, h' = { h with badCount := b, constraintCount := c, justiceCount := j } ∧
    k = (1 + dl b) + (1 + dl c) + (1 + dl j) + 1) ∨
  (∃ b c j f, h' = { h with badCount := b, constraintCount := c, justiceCount := j, fairnessCount := f } ∧
    k = (1 + dl b) + (1 + dl c) + (1 + dl j) + (1 + dl f) + 1)

theorem con_headerOptional (h : Header) : Con (headerOptional h) (OptQ h) := by
  unfold headerOptional
  refine Con.bind con_requiredNewlineOrSpace fun sp k1 h1 => ?_
  split
  · exact Con.pure (Or.inl ⟨rfl, by omega⟩)
  refine Con.bind (con_headerField _) fun b k2 h2 => ?_
  refine Con.bind con_requiredNewlineOrSpace fun sp k3 h3 => ?_
  split
  · exact Con.pure (Or.inr (Or.inl ⟨b, rfl, by omega⟩))
  refine Con.bind (con_headerField _) fun c k4 h4 => ?_
  refine Con.bind con_requiredNewlineOrSpace fun sp k5 h5 => ?_
  split
  · exact Con.pure (Or.inr (Or.inr (Or.inl ⟨b, c, rfl, by omega⟩)))
  refine Con.bind (con_headerField _) fun j k6 h6 => ?_
  refine Con.bind con_requiredNewlineOrSpace fun sp k7 h7 => ?_
  split
  · exact Con.pure (Or.inr (Or.inr (Or.inr (Or.inl ⟨b, c, j, rfl, by omega⟩))))
  refine Con.bind (con_headerField _) fun f k8 h8 => ?_
  refine Con.bind con_requiredNewline fun _ k9 h9 => ?_
  exact Con.pure (Or.inr (Or.inr (Or.inr (Or.inr ⟨b, c, j, f, rfl, by omega⟩))))

/-- **Header**: `write_header` emits no more than `Header::parse` consumed. -/
theorem con_headerParse (bin : Bool) (l : LitTy) :
    Con (Header.parse bin l) (fun h k => (writeHeader bin h).length ≤ k) := by
  unfold Header.parse
  refine Con.bind (Q1 := fun _ k => k = 3) ?_ fun _ k0 h0 => ?_
  · refine Con.orGiveUp (Con.mono (con_fixed (magic bin)) ?_) fails_unexpected
    intro r k h a ha
    subst ha
    rw [← magic_length bin]
    exact h
  refine Con.bind con_requiredSpace fun _ k1 h1 => ?_
  refine Con.bind (con_headerField _) fun m k2 h2 => ?_
  refine Con.bind con_requiredSpace fun _ k3 h3 => ?_
  refine Con.bind (con_headerField _) fun i k4 h4 => ?_
  refine Con.bind (con_checkedSub _ _ _) fun lim1 k5 h5 => ?_
  refine Con.bind con_requiredSpace fun _ k6 h6 => ?_
  refine Con.bind (con_headerField _) fun la k7 h7 => ?_
  refine Con.bind (con_checkedSub _ _ _) fun lim2 k8 h8 => ?_
  refine Con.bind con_requiredSpace fun _ k9 h9 => ?_
  refine Con.bind (con_headerField _) fun o k10 h10 => ?_
  refine Con.bind con_requiredSpace fun _ k11 h11 => ?_
  refine Con.bind (con_headerField _) fun a k12 h12 => ?_
  refine Con.mono (con_headerOptional _) ?_
  intro h' k13 hopt
  have e5 : hfLen [m, i, la, o, a] = (1 + dl m) + (1 + dl i) + (1 + dl la) + (1 + dl o) + (1 + dl a) := by
    simp only [hfLen_cons, hfLen_nil]
    omega
  rcases hopt with ⟨rfl, hk⟩ | ⟨b, rfl, hk⟩ | ⟨b, c, rfl, hk⟩ | ⟨b, c, j, rfl, hk⟩ | ⟨b, c, j, f, rfl, hk⟩
  · refine Nat.le_trans (writeHeader_le bin _ [m, i, la, o, a] 4 rfl (by simp)) ?_
    omega
  · refine Nat.le_trans (writeHeader_le bin _ [m, i, la, o, a, b] 3 rfl (by simp)) ?_
    simp only [hfLen_cons, hfLen_nil]
    omega
  · refine Nat.le_trans (writeHeader_le bin _ [m, i, la, o, a, b, c] 2 rfl (by simp)) ?_
    simp only [hfLen_cons, hfLen_nil]
    omega
  · refine Nat.le_trans (writeHeader_le bin _ [m, i, la, o, a, b, c, j] 1 rfl (by simp)) ?_
    simp only [hfLen_cons, hfLen_nil]
    omega
  · refine Nat.le_trans (writeHeader_le bin _ [m, i, la, o, a, b, c, j, f] 0 rfl (by simp)) ?_
    simp only [hfLen_cons, hfLen_nil]
    omega

theorem con_parserNew (bin : Bool) (l : LitTy) :
    Con (Parser.new bin l) (fun p k => (writeHeader bin p.header).length ≤ k) := by
  unfold Parser.new
  refine Con.bind (con_headerParse bin l) fun h k1 h1 => ?_
  refine Con.bind (con_checkedMul _ _ _) fun _ k2 h2 => ?_
  refine Con.bind (con_checkedAdd _ _ _) fun _ k3 h3 => Con.pure ?_
  show (writeHeader bin h).length ≤ k1 + (k2 + (k3 + 0))
  omega

/-! ### literal lines -/

theorem writeLit_length (x : Nat) : (writeLit x).length = dl x + 1 := by
  simp [writeLit, dl]

theorem con_litLine (p : Parser) (a : Bool) :
    Con (litLine p a) (fun x k => (writeLit x).length ≤ k) := by
  unfold litLine
  refine Con.bind (con_lit _ _) fun c k1 h1 => ?_
  refine Con.bind con_requiredNewline fun _ k2 h2 => Con.pure ?_
  show (writeLit (p.lit.fromCode c)).length ≤ k1 + (k2 + 0)
  have := dl_fromCode p.lit c
  rw [writeLit_length]
  omega

theorem con_nextLit (a : Bool) (s : St) :
    Con (nextLit a s) (ItemQ fun x => (writeLit x).length) := by
  unfold nextLit
  split
  · exact Con.pure trivial
  · refine Con.bind (con_litLine _ _) fun x k1 h1 => Con.pure ?_
    show (writeLit x).length ≤ k1 + 0
    omega

theorem writeLits_length_sum (xs : List Nat) :
    (writeLits xs).length = (xs.map fun x => (writeLit x).length).sum :=
  flatten_length_sum writeLit xs

/-- A literal section as `parse()` reads it. -/
theorem con_litSection (a : Bool) (fuel : Nat) (s : St) :
    Con (whileSome (nextLit a) fuel s []) (fun r k => (writeLits r.1).length ≤ k) := by
  refine Con.mono (whileSome_con (con_nextLit a) fuel s []) ?_
  rintro ⟨xs, s'⟩ k ⟨ys, hys, hsum⟩
  simp only [List.reverse_nil, List.nil_append] at hys
  subst hys
  rw [writeLits_length_sum]
  exact hsum

/-! ### latches -/

/-- What the reset part of a latch line costs, against the code `sc` a `none` must repeat. -/
def ResetQ (sc : Nat) (init : Option Bool) (k : Nat) : Prop :=
  match init with
  | none => k = 1 + (dl sc + 1)
  | some true => 3 ≤ k
  | some false => 1 ≤ k

theorem con_latchInit (p : Parser) (sc : Nat) :
    Con (latchInit p sc) (fun init k => match init with
      | none => k = dl sc + 1
      | some _ => 2 ≤ k) := by
  unfold latchInit
  refine Con.bind (con_lit _ _) fun ic k1 h1 => ?_
  have hic := dl_pos ic
  refine Con.bind (Q1 := fun init k => k = 0 ∧ (init = none → ic = sc)) ?_ fun init k2 h2 => ?_
  · split
    · exact Con.pure ⟨rfl, fun h => by cases h⟩
    · split
      · rename_i heq
        exact Con.pure ⟨rfl, fun _ => by simpa using heq⟩
      · exact Con.of_fails fails_errorAtMark
  refine Con.bind con_requiredNewline fun _ k3 h3 => Con.pure ?_
  cases init with
  | none =>
    have := h2.2 rfl
    subst this
    show k1 + (k2 + (k3 + 0)) = dl ic + 1
    omega
  | some b =>
    show 2 ≤ k1 + (k2 + (k3 + 0))
    omega

theorem con_latchReset (p : Parser) (sc : Nat) : Con (latchReset p sc) (ResetQ sc) := by
  unfold latchReset
  refine Con.bind con_requiredNewlineOrSpace fun sp k1 h1 => ?_
  split
  · refine Con.mono (con_latchInit p sc) ?_
    intro init k2 h2
    cases init with
    | none => show k1 + k2 = 1 + (dl sc + 1); omega
    | some b =>
      cases b with
      | true => show 3 ≤ k1 + k2; omega
      | false => show 1 ≤ k1 + k2; omega
  · refine Con.pure ?_
    show 1 ≤ k1 + 0
    omega

theorem writeInit_le (init : Option Bool) (x sc k : Nat) (hx : dl x ≤ dl sc) (hk : ResetQ sc init k) :
    (writeInit init x).length ≤ k := by
  cases init with
  | none =>
    simp only [ResetQ] at hk
    simp only [writeInit, List.length_append, List.length_cons, List.length_nil]
    unfold dl at hx hk
    omega
  | some b =>
    cases b with
    | true => simp only [ResetQ] at hk; simp only [writeInit, List.length_cons, List.length_nil]; omega
    | false => simp only [ResetQ] at hk; simp only [writeInit, List.length_cons, List.length_nil]; omega

theorem con_nextLatchAscii (s : St) :
    Con (nextLatchAscii s) (ItemQ fun l => (writeLatchAscii l).length) := by
  unfold nextLatchAscii
  split
  · exact Con.pure trivial
  · refine Con.bind (con_lit _ _) fun sc k1 h1 => ?_
    refine Con.bind con_requiredSpace fun _ k2 h2 => ?_
    refine Con.bind (con_lit _ _) fun nc k3 h3 => ?_
    refine Con.bind (con_latchReset _ sc) fun init k4 h4 => Con.pure ?_
    show (writeLatchAscii ⟨s.p.lit.fromCode sc, s.p.lit.fromCode nc, init⟩).length ≤
      k1 + (k2 + (k3 + (k4 + 0)))
    have e1 := dl_fromCode s.p.lit sc
    have e2 := dl_fromCode s.p.lit nc
    have e3 := writeInit_le init (s.p.lit.fromCode sc) sc k4 e1 h4
    simp only [writeLatchAscii, List.length_append, List.length_cons, List.length_nil]
    unfold dl at e1 e2 h1 h3
    omega

/-! ### and gates (ASCII) -/

theorem con_nextAndGateAscii (s : St) :
    Con (nextAndGateAscii s) (ItemQ fun g => (writeAndGateAscii g).length) := by
  unfold nextAndGateAscii
  split
  · exact Con.pure trivial
  · refine Con.bind (con_lit _ _) fun oc k1 h1 => ?_
    refine Con.bind con_requiredSpace fun _ k2 h2 => ?_
    refine Con.bind (con_lit _ _) fun c0 k3 h3 => ?_
    refine Con.bind con_requiredSpace fun _ k4 h4 => ?_
    refine Con.bind (con_lit _ _) fun c1 k5 h5 => ?_
    refine Con.bind con_requiredNewline fun _ k6 h6 => Con.pure ?_
    show (writeAndGateAscii ⟨s.p.lit.fromCode c0, s.p.lit.fromCode c1, s.p.lit.fromCode oc⟩).length ≤
      k1 + (k2 + (k3 + (k4 + (k5 + (k6 + 0)))))
    have e1 := dl_fromCode s.p.lit oc
    have e2 := dl_fromCode s.p.lit c0
    have e3 := dl_fromCode s.p.lit c1
    simp only [writeAndGateAscii, List.length_append, List.length_cons, List.length_nil]
    unfold dl at e1 e2 e3 h1 h3 h5
    omega

/-! ### justice sizes and literals -/

theorem con_nextJusticeSize (s : St) :
    Con (nextJusticeSize s) (ItemQ fun c => (writeLit c).length) := by
  unfold nextJusticeSize
  split
  · exact Con.pure trivial
  · refine Con.bind (con_checkedSub _ _ _) fun lim k1 h1 => ?_
    refine Con.bind (con_headerField _) fun c k2 h2 => ?_
    refine Con.bind con_requiredNewline fun _ k3 h3 => ?_
    refine Con.bind (con_checkedAdd _ _ _) fun t k4 h4 => Con.pure ?_
    show (writeLit c).length ≤ k1 + (k2 + (k3 + (k4 + 0)))
    rw [writeLit_length]
    omega

/-- Bytes the writer emits for the local fairness constraints of all justice properties. -/
def jlen (js : List (List Nat)) : Nat := ((js.map writeLits).flatten).length

theorem jlen_cons (j : List Nat) (js : List (List Nat)) :
    jlen (j :: js) = (writeLits j).length + jlen js := by
  simp [jlen]

theorem writeLits_snoc (j : List Nat) (c : Nat) :
    (writeLits (j ++ [c])).length = (writeLits j).length + (writeLit c).length := by
  simp [writeLits]

theorem jlen_modify (c : Nat) : ∀ (js : List (List Nat)) (i : Nat),
    jlen (js.modify i (· ++ [c])) ≤ jlen js + (writeLit c).length := by
  intro js
  induction js with
  | nil => intro i; simp [jlen]
  | cons j js ih =>
    intro i
    cases i with
    | zero =>
      simp only [List.modify_zero_cons, jlen_cons, writeLits_snoc]
      omega
    | succ i =>
      simp only [List.modify_succ_cons, jlen_cons]
      have := ih i
      omega

theorem jlen_init (sizes : List Nat) : jlen (sizes.map fun _ => []) = 0 := by
  induction sizes with
  | nil => rfl
  | cons x xs ih => simp only [List.map_cons, jlen_cons, ih]; rfl

theorem con_justiceLitsLoop (sizes : List Nat) :
    ∀ (fuel : Nat) (s : St) (js : List (List Nat)) (jp : Nat),
      Con (justiceLitsLoop sizes fuel s js jp) (fun r k => jlen r.1 ≤ jlen js + k) := by
  intro fuel
  induction fuel with
  | zero => intro s js jp; unfold justiceLitsLoop; exact Con.of_fails (fails_rpanic _)
  | succ fuel ih =>
    intro s js jp
    unfold justiceLitsLoop
    refine Con.bind (con_nextLit false s) fun r k1 hr => ?_
    obtain ⟨o, s'⟩ := r
    cases o with
    | none =>
      simp only
      refine Con.pure ?_
      show jlen js ≤ jlen js + (k1 + 0)
      omega
    | some c =>
      simp only [ItemQ] at hr ⊢
      split
      · exact Con.of_fails (fails_rpanic _)
      · rename_i jp' _
        refine Con.mono (ih s' _ jp') ?_
        rintro ⟨js2, s2⟩ k2 h2
        simp only at h2 ⊢
        have := jlen_modify c js jp'
        omega

/-! ### transitions -/

theorem con_toLatches (s : St) : Con (toLatches s) (fun _ _ => True) := by
  unfold toLatches
  refine Con.bind (Q1 := fun _ _ => True) ?_ fun _ _ _ => Con.pure trivial
  exact Con.ite (fun _ => Con.pure trivial) (fun _ => finish_con (con_nextLit true) s)

theorem con_nextLatchBin_weak (s : St) : Con (nextLatchBin s) (ItemQ fun _ => 0) := by
  unfold nextLatchBin
  split
  · exact Con.pure trivial
  · refine Con.bind (con_lit _ _) fun nc k1 h1 => ?_
    refine Con.bind (con_latchReset _ _) fun init k2 h2 => Con.pure ?_
    show 0 ≤ _
    omega

theorem con_nextAndGateBin_weak (s : St) : Con (nextAndGateBin s) (ItemQ fun _ => 0) := by
  unfold nextAndGateBin
  split
  · exact Con.pure trivial
  · refine Con.bind (con_deltaCode _) fun c0 k1 h1 => ?_
    refine Con.bind (con_deltaCode _) fun c1 k2 h2 => Con.pure ?_
    show 0 ≤ _
    omega

theorem con_toOutputs (s : St) : Con (toOutputs s) (fun _ _ => True) := by
  unfold toOutputs
  refine Con.bind (Q1 := fun _ _ => True) ?_ fun _ _ _ => Con.pure trivial
  exact Con.ite (fun _ => finish_con con_nextLatchBin_weak s)
    (fun _ => finish_con con_nextLatchAscii s)

theorem con_toBad (s : St) : Con (toBad s) (fun _ _ => True) := by
  unfold toBad
  exact Con.bind (finish_con (con_nextLit false) s) fun _ _ _ => Con.pure trivial

theorem con_toConstraints (s : St) : Con (toConstraints s) (fun _ _ => True) := by
  unfold toConstraints
  exact Con.bind (finish_con (con_nextLit false) s) fun _ _ _ => Con.pure trivial

theorem con_toJusticeSizes (s : St) : Con (toJusticeSizes s) (fun _ _ => True) := by
  unfold toJusticeSizes
  exact Con.bind (finish_con (con_nextLit false) s) fun _ _ _ => Con.pure trivial

theorem con_toJusticeLits (s : St) : Con (toJusticeLits s) (fun _ _ => True) := by
  unfold toJusticeLits
  exact Con.bind (finish_con con_nextJusticeSize s) fun _ _ _ => Con.pure trivial

theorem con_toFairness (s : St) : Con (toFairness s) (fun _ _ => True) := by
  unfold toFairness
  exact Con.bind (finish_con (con_nextLit false) s) fun _ _ _ => Con.pure trivial

theorem con_toAndGates (s : St) : Con (toAndGates s) (fun _ _ => True) := by
  unfold toAndGates
  exact Con.bind (finish_con (con_nextLit false) s) fun _ _ _ => Con.pure trivial

theorem con_toSymbols (s : St) : Con (toSymbols s) (fun _ _ => True) := by
  unfold toSymbols
  refine Con.bind (Q1 := fun _ _ => True) ?_ fun _ _ _ => Con.pure trivial
  exact Con.ite (fun _ => finish_con con_nextAndGateBin_weak s)
    (fun _ => finish_con con_nextAndGateAscii s)

/-! ### the middle sections -/

theorem writeMid_length (o b c : List Nat) (j : List (List Nat)) (f : List Nat) :
    (writeMid o b c j f).length = (writeLits o).length + (writeLits b).length + (writeLits c).length +
      (writeLits (j.map List.length)).length + jlen j + (writeLits f).length := by
  simp only [writeMid, List.length_append, jlen]

/-- **Middle sections**: outputs, bad, constraints, justice (sizes and literals), fairness. -/
theorem con_parseMid (s : St) :
    Con (parseMid s) (fun r k =>
      (writeMid r.1.outputs r.1.bad r.1.constraints r.1.justice r.1.fairness).length ≤ k) := by
  unfold parseMid
  refine Con.bind (con_toOutputs s) fun s1 k1 _ => ?_
  refine Con.bind (con_litSection false _ s1) fun r k2 h2 => ?_
  obtain ⟨outputs, s2⟩ := r
  simp only at h2 ⊢
  refine Con.bind (con_toBad s2) fun s3 k3 _ => ?_
  refine Con.bind (con_litSection false _ s3) fun r k4 h4 => ?_
  obtain ⟨bad, s4⟩ := r
  simp only at h4 ⊢
  refine Con.bind (con_toConstraints s4) fun s5 k5 _ => ?_
  refine Con.bind (con_litSection false _ s5) fun r k6 h6 => ?_
  obtain ⟨constraints, s6⟩ := r
  simp only at h6 ⊢
  refine Con.bind (Con.and_post (con_toJusticeSizes s6) (toJusticeSizes_post s6)) fun s7 k7 h7 => ?_
  refine Con.bind (Con.and_post (whileSome_con con_nextJusticeSize _ s7 [])
    (whileSome_spec nextJusticeSize_spec _ s7 [])) fun r k8 h8 => ?_
  obtain ⟨sizes, s8⟩ := r
  obtain ⟨⟨xs, hxs, hsum⟩, ⟨ys, hys, d8⟩⟩ := h8
  simp only [List.reverse_nil, List.nil_append] at hxs hys
  subst hxs
  subst hys
  simp only
  refine Con.bind (Con.and_post (con_toJusticeLits s8) (toJusticeLits_post s8)) fun s9 k9 h9 => ?_
  have hleft : s9.left = sizes.sum := by
    rw [h9.2.2 d8.left, d8.total, h7.2.2.2]
    simp
  refine Con.bind (Con.and_post (con_justiceLitsLoop sizes _ s9 (sizes.map fun _ => []) 0)
    (justiceLitsLoop_sizes sizes _ s9 _ 0 (by rw [hleft]; exact jinv_init sizes))) fun r k10 h10 => ?_
  obtain ⟨justice, s10⟩ := r
  obtain ⟨hj, hjs⟩ := h10
  simp only at hj hjs ⊢
  rw [jlen_init] at hj
  refine Con.bind (con_toFairness s10) fun s11 k11 _ => ?_
  refine Con.bind (con_litSection false _ s11) fun r k12 h12 => ?_
  obtain ⟨fairness, s12⟩ := r
  simp only at h12 ⊢
  refine Con.pure ?_
  show (writeMid outputs bad constraints justice fairness).length ≤ _
  rw [writeMid_length, hjs, writeLits_length_sum sizes]
  omega

/-! ### symbol table and comment -/

theorem con_symAlt (count : Nat) (c : UInt8) (ne : Bool) :
    Con (symAlt count c ne) (fun r k => match r with
      | some idx => k = 1 + dl idx
      | none => k = 0) := by
  unfold symAlt
  refine Con.ite (fun _ => ?_) (fun _ => Con.pure rfl)
  refine Con.bind (Q1 := TokQ 1) ?_ fun r k1 h1 => ?_
  · split
    · exact con_fixedNotEol [c]
    · exact con_fixed [c]
  cases r with
  | none => exact Con.pure (by show k1 + 0 = 0; simp only [TokQ] at h1; omega)
  | some u =>
    simp only [TokQ] at h1 ⊢
    refine Con.bind (con_checkedSub _ _ _) fun lim k2 h2 => ?_
    refine Con.bind (con_symbolIndex _) fun idx k3 h3 => Con.pure ?_
    show k1 + (k2 + (k3 + 0)) = 1 + dl idx
    omega

theorem con_symTarget (alts : List (SymKind × Nat × UInt8 × Bool)) :
    Con (symTarget alts) (fun r k => match r with
      | some t => k = 1 + dl t.2
      | none => k = 0) := by
  induction alts with
  | nil => unfold symTarget; exact Con.pure rfl
  | cons a alts ih =>
    obtain ⟨kind, count, c, ne⟩ := a
    unfold symTarget
    refine Con.bind (con_symAlt count c ne) fun r k1 h1 => ?_
    cases r with
    | some idx =>
      simp only at h1 ⊢
      exact Con.pure (by show k1 + 0 = 1 + dl idx; omega)
    | none =>
      simp only at h1 ⊢
      refine Con.mono ih ?_
      intro r k2 h2
      cases r with
      | none => simp only at h2 ⊢; omega
      | some t => simp only at h2 ⊢; omega

theorem writeSymbol_length (s : Symbol) :
    (writeSymbol s).length = 1 + dl s.index + 1 + s.name.length + 1 := by
  simp only [writeSymbol, dl, List.length_append, List.length_cons, List.length_nil]

theorem con_nextSymbol (p : Parser) :
    Con (nextSymbol p) (fun r k => match r with
      | some s => (writeSymbol s).length ≤ k
      | none => k = 0) := by
  unfold nextSymbol
  refine Con.bind (con_symTarget _) fun r k1 h1 => ?_
  cases r with
  | none => simp only at h1 ⊢; exact Con.pure (by show k1 + 0 = 0; omega)
  | some t =>
    obtain ⟨kind, index⟩ := t
    simp only at h1 ⊢
    refine Con.bind con_requiredSpace fun _ k2 h2 => ?_
    refine Con.bind con_remainingLineContent fun name k3 h3 => Con.pure ?_
    show (writeSymbol ⟨kind, index, name⟩).length ≤ k1 + (k2 + (k3 + 0))
    rw [writeSymbol_length]
    simp only
    omega

theorem con_skipSymbols (p : Parser) : ∀ fuel, Con (skipSymbols p fuel) (fun _ _ => True) := by
  intro fuel
  induction fuel with
  | zero => unfold skipSymbols; exact Con.of_fails (fails_rpanic _)
  | succ fuel ih =>
    unfold skipSymbols
    refine Con.bind (con_nextSymbol p) fun r k1 _ => ?_
    split
    · exact Con.mono ih fun _ _ _ => trivial
    · exact Con.pure trivial

/-- **Comment**: `c\n` at the very end of the file is the empty comment, which the writer emits
as `c\n\n` — one byte more than was read; otherwise the comment is written as it was read. -/
theorem con_comment (p : Parser) :
    Con (comment p) (fun c k => (writeTail [] c).length ≤ k + 1) := by
  unfold comment
  refine Con.bind con_get fun s k0 _ => ?_
  refine Con.bind (con_skipSymbols p _) fun _ k1 _ => ?_
  refine Con.bind (con_fixed [99]) fun r k2 h2 => ?_
  split
  · rename_i hsome
    cases r with
    | none => simp at hsome
    | some u =>
      simp only [TokQ, List.length_cons, List.length_nil] at h2
      refine Con.bind con_requiredNewline fun _ k3 h3 => ?_
      refine Con.bind con_remainingFileContent fun c k4 h4 => Con.pure ?_
      show (writeTail [] (some c)).length ≤ k0 + (k1 + (k2 + (k3 + (k4 + 0)))) + 1
      simp only [writeTail, writeComment, List.map_nil, List.flatten_nil, List.nil_append,
        List.length_append, List.length_cons, List.length_nil]
      omega
  · refine Con.bind (Con.orGiveUp (Q := fun _ k => k = 0) (Con.mono con_eof ?_) fails_unexpected)
      fun _ k3 h3 => Con.pure ?_
    · intro r k h a _; exact h
    · show (writeTail [] none).length ≤ _
      simp [writeTail]

theorem writeTail_length (syms : List Symbol) (c : Option VBytes) :
    (writeTail syms c).length = (syms.map fun s => (writeSymbol s).length).sum +
      (writeTail [] c).length := by
  simp only [writeTail, List.length_append, flatten_length_sum, List.map_nil, List.flatten_nil,
    List.length_nil, Nat.zero_add]

/-- **Tail**: symbol table and comment. -/
theorem con_parseTail (p : Parser) :
    Con (parseTail p) (fun r k => (writeTail r.1 r.2).length ≤ k + 1) := by
  unfold parseTail
  refine Con.bind con_get fun s k0 _ => ?_
  refine Con.bind (whileSome_con (W := fun s => (writeSymbol s).length) ?_ _ () []) fun r k1 h1 => ?_
  · intro _
    refine Con.bind (con_nextSymbol p) fun r k hr => Con.pure ?_
    cases r with
    | none => exact trivial
    | some s => show (writeSymbol s).length ≤ k + 0; simp only at hr; omega
  obtain ⟨symbols, u⟩ := r
  obtain ⟨xs, hxs, hsum⟩ := h1
  simp only [List.reverse_nil, List.nil_append] at hxs
  subst hxs
  simp only
  refine Con.bind (con_comment p) fun c k2 h2 => Con.pure ?_
  show (writeTail symbols c).length ≤ k0 + (k1 + (k2 + 0)) + 1
  rw [writeTail_length]
  omega

/-! ### whole ASCII files -/

/-- The part of an ASCII file behind the header, as `write_aig` emits it. -/
def asciiBody (a : Aig) : VBytes :=
  writeLits a.inputs ++ (a.latches.map writeLatchAscii).flatten ++
    writeMid a.outputs a.bad a.constraints a.justice a.fairness ++
    (a.gates.map writeAndGateAscii).flatten ++ writeTail a.symbols a.comment

theorem con_parseAscii (p : Parser) :
    Con (parseAscii p) (fun a k => (asciiBody a).length ≤ k + 1) := by
  unfold parseAscii
  simp only
  refine Con.bind (con_litSection true _ p.inputs) fun r k1 h1 => ?_
  obtain ⟨inputs, s1⟩ := r
  simp only at h1 ⊢
  refine Con.bind (con_toLatches s1) fun s2 k2 _ => ?_
  refine Con.bind (whileSome_con con_nextLatchAscii _ s2 []) fun r k3 h3 => ?_
  obtain ⟨latches, s3⟩ := r
  obtain ⟨xs, hxs, hsum3⟩ := h3
  simp only [List.reverse_nil, List.nil_append] at hxs
  subst hxs
  simp only
  refine Con.bind (con_parseMid s3) fun r k4 h4 => ?_
  obtain ⟨mid, s4⟩ := r
  simp only at h4 ⊢
  refine Con.bind (con_toAndGates s4) fun s5 k5 _ => ?_
  refine Con.bind (whileSome_con con_nextAndGateAscii _ s5 []) fun r k6 h6 => ?_
  obtain ⟨gates, s6⟩ := r
  obtain ⟨xs, hxs, hsum6⟩ := h6
  simp only [List.reverse_nil, List.nil_append] at hxs
  subst hxs
  simp only
  refine Con.bind (con_toSymbols s6) fun p' k7 _ => ?_
  refine Con.bind (con_parseTail p') fun r k8 h8 => ?_
  obtain ⟨symbols, c⟩ := r
  simp only at h8 ⊢
  refine Con.pure ?_
  simp only [asciiBody, List.length_append, flatten_length_sum]
  omega

theorem writeAig_eq (a : Aig) : writeAig a = writeHeader false (aigHeader a) ++ asciiBody a := by
  simp only [writeAig, aigHeader, asciiBody, List.append_assoc]

/-- **ASCII**: what `write_aig` emits for a parsed circuit is at most one byte longer than what
was parsed. -/
theorem con_parseAag (l : LitTy) : Con (parseAag l) (fun a k => (writeAig a).length ≤ k + 1) := by
  unfold parseAag
  refine Con.bind (con_parserNew false l) fun p k1 h1 => ?_
  refine Con.mono (Con.and_post (con_parseAscii p) (parseAscii_post p)) ?_
  intro a k2 ⟨h2, ok⟩
  have hh : aigHeader a = p.header := aigHeader_eq ok
  rw [writeAig_eq, hh, List.length_append]
  omega

end Aiger
end Flussab
