/-
Accepted BTOR2 text is canonical (C06): when `next_line` returns a line `l`, the bytes it consumed
are `ws ++ write(l)` — spaces / newlines, then exactly what `Line::write_into` emits for `l` (for a
line that ends in a comment: without its newline, on which the cursor rests).  So an accepted
line means what it says, token by token: single spaces, canonical decimal numbers, the keyword of
the operator that is returned, constants and symbol as written.

A partial-correctness pass (error postcondition `T`) that tracks the consumed bytes.
-/
import Flussab.Proof.Btor2Numbers
import Flussab.Proof.Btor2Safe

namespace Flussab
namespace Btor2
open PM

/-! ### canonical decimal text is unique -/

theorem digit_roundtrip (d : UInt8) (hd : isDigit d = true) : UInt8.ofNat (48 + (d.toNat - 48)) = d := by
  simp only [isDigit, Bool.and_eq_true, decide_eq_true_eq] at hd
  have h1 : 48 ≤ d.toNat := UInt8.le_iff_toNat_le.mp hd.1
  have h2 : d.toNat ≤ 57 := UInt8.le_iff_toNat_le.mp hd.2
  apply UInt8.toNat_inj.mp
  simp [UInt8.toNat_ofNat']
  omega

theorem decVal_single (d : UInt8) : Text.decVal [d] = d.toNat - 48 := by simp [Text.decVal]

theorem decVal_snoc (L : VBytes) (d : UInt8) : Text.decVal (L ++ [d]) = Text.decVal L * 10 + (d.toNat - 48) := by
  rw [Text.decVal_append, decVal_single]; simp

/-- A digit string without leading zero is the canonical text of its value. -/
theorem digitsOf_decVal : ∀ (n : Nat) (ds : VBytes), ds.length = n → ds.all isDigit = true → ds ≠ [] →
    (ds = [48] ∨ ds.head? ≠ some 48) → Writer.digitsOf (Text.decVal ds) = ds := by
  intro n
  induction n using Nat.strongRecOn with
  | _ n ih =>
    intro ds hlen hall hne hcan
    rcases List.eq_nil_or_concat ds with h | ⟨L, d, h⟩
    · exact absurd h hne
    · rw [List.concat_eq_append] at h
      subst h
      simp only [List.all_append, List.all_cons, List.all_nil, Bool.and_true, Bool.and_eq_true] at hall
      obtain ⟨hL, hd⟩ := hall
      have hdr : d.toNat - 48 < 10 := by
        simp only [isDigit, Bool.and_eq_true, decide_eq_true_eq] at hd
        have h2 : d.toNat ≤ 57 := UInt8.le_iff_toNat_le.mp hd.2
        omega
      rw [decVal_snoc]
      by_cases hLn : L = []
      · subst hLn
        simp only [Text.decVal_nil, Nat.zero_mul, Nat.zero_add, List.nil_append]
        rw [Writer.digitsOf]
        simp only [hdr, ↓reduceDIte, digit_roundtrip d hd]
      · -- at least two digits: no leading zero, so the front part is canonical and positive
        obtain ⟨c, cs, hcs⟩ : ∃ c cs, L = c :: cs := by
          cases L with
          | nil => exact absurd rfl hLn
          | cons c cs => exact ⟨c, cs, rfl⟩
        have hc48 : c ≠ 48 := by
          rcases hcan with h | h
          · rw [hcs] at h; simp at h
          · rw [hcs] at h; simpa using h
        have hcd : isDigit c = true := by rw [hcs] at hL; simp only [List.all_cons, Bool.and_eq_true] at hL; exact hL.1
        have hpos : 0 < Text.decVal L := by rw [hcs]; exact decVal_pos c cs hcd hc48
        have hLlen : L.length < n := by rw [← hlen]; simp
        have ihL := ih L.length hLlen L rfl hL hLn (Or.inr (by rw [hcs]; simpa using hc48))
        rw [Writer.digitsOf]
        have hge : ¬ Text.decVal L * 10 + (d.toNat - 48) < 10 := by omega
        simp only [hge, ↓reduceDIte]
        have hdiv : (Text.decVal L * 10 + (d.toNat - 48)) / 10 = Text.decVal L := by omega
        have hmod : (Text.decVal L * 10 + (d.toNat - 48)) % 10 = d.toNat - 48 := by omega
        rw [hdiv, hmod, ihL, digit_roundtrip d hd]

/-- The digits a number token consumed are the canonical text of the number it returned. -/
theorem natText_of_numberRead {lr lr1 : LR} {v : Nat} (h : NumberRead lr v lr1) :
    natText v = lr.v.rest.takeWhile isDigit := by
  unfold natText
  rw [Writer.natDigits_eq, h.value]
  exact digitsOf_decVal _ _ rfl (takeWhile_all' isDigit _) h.nonempty h.canonical

/-! ### consumed bytes -/

variable {lr : LR}

/-- `lr1` is `lr` with exactly the bytes `t` consumed. -/
def Step (lr : LR) (t : VBytes) (lr1 : LR) : Prop := lr.v.rest = t ++ lr1.v.rest

theorem Step.refl (lr : LR) : Step lr [] lr := by simp [Step]

theorem Step.of_rest {lr lr1 : LR} (h : lr1.v.rest = lr.v.rest) : Step lr [] lr1 := by simp [Step, h]

theorem Step.trans {a b c : LR} {t u : VBytes} (h1 : Step a t b) (h2 : Step b u c) : Step a (t ++ u) c := by
  unfold Step at *; rw [h1, h2, List.append_assoc]

theorem Step.cast {a b : LR} {t u : VBytes} (h : Step a t b) (e : t = u) : Step a u b := e ▸ h

/-- `advance(n)` (when it does not panic) consumes the first `n` bytes. -/
theorem Wp.advance_c (n : Nat) :
    Wp T (PM.advance n) lr (fun _ lr1 => Step lr (lr.v.rest.take n) lr1 ∧ n ≤ lr.v.rest.length ∧
      lr1.v.sawEnd = lr.v.sawEnd ∧ lr1.v.ioErr = lr.v.ioErr) := by
  unfold PM.advance
  refine Wp.bind (Wp.get ?_)
  by_cases hn : n ≤ lr.v.demanded
  · simp only [View.advance, hn, ↓reduceIte]
    have : lr.v.demanded ≤ lr.v.rest.length := by unfold View.demanded; omega
    exact Wp.set ⟨by show lr.v.rest = lr.v.rest.take n ++ lr.v.rest.drop n; simp, by omega, rfl, rfl⟩
  · simp only [View.advance, hn, ↓reduceIte]
    trivial

theorem Wp.advanceWithBuf_c (n : Nat) :
    Wp T (PM.advanceWithBuf n) lr (fun bs lr1 => bs = lr.v.rest.take n ∧ Step lr bs lr1 ∧
      n ≤ lr.v.rest.length ∧ lr1.v.sawEnd = lr.v.sawEnd ∧ lr1.v.ioErr = lr.v.ioErr) := by
  unfold PM.advanceWithBuf
  refine Wp.bind' (Wp.bufPrefix_val n) ?_
  intro bs lr1 ⟨e1, hb, _⟩
  subst e1
  refine Wp.bind' (Wp.advance_c n) ?_
  intro _ lr2 ⟨s2, hn, h1, h2⟩
  exact Wp.pure ⟨hb, hb ▸ s2, hn, h1, h2⟩

/-- Whitespace between lines. -/
def isWs (b : UInt8) : Bool := b == 32 || b == 10

/-! ### tokens -/

theorem byteToken_c (c : UInt8) :
    Wp T (do if (← reqByte) == some c then advance 1; pure (some ()) else pure none : PM (Option Unit)) lr
      (fun r lr1 => (r = some () → Step lr [c] lr1) ∧
        (r = none → lr1.v.rest = lr.v.rest ∧ lr.v.rest[0]? ≠ some c)) := by
  refine Wp.bind' (Wp.reqAt_val 0) ?_
  intro a lr1 ⟨ha, r1⟩
  split
  · rename_i heq
    have h0 : lr.v.rest[0]? = some c := by rw [← ha]; simpa using heq
    refine Wp.bind' (Wp.advance_c 1) ?_
    intro _ lr2 ⟨s2, _, _, _⟩
    refine Wp.pure ⟨fun _ => ?_, by simp⟩
    have : lr1.v.rest.take 1 = [c] := by
      rw [r1]
      cases hr : lr.v.rest with
      | nil => rw [hr] at h0; simp at h0
      | cons x xs => rw [hr] at h0; simp at h0; simp [h0]
    rw [this] at s2
    exact (Step.of_rest r1).trans s2
  · rename_i hne
    exact Wp.pure ⟨by simp, fun _ => ⟨r1, by rw [← ha]; simpa using hne⟩⟩

theorem space_c : Wp T space lr (fun r lr1 => (r = some () → Step lr [32] lr1) ∧
    (r = none → lr1.v.rest = lr.v.rest ∧ lr.v.rest[0]? ≠ some 32)) := byteToken_c 32

theorem commentStart_c : Wp T commentStart lr (fun r lr1 => (r = some () → Step lr [59] lr1) ∧
    (r = none → lr1.v.rest = lr.v.rest ∧ lr.v.rest[0]? ≠ some 59)) := byteToken_c 59

theorem requiredSpace_c : Wp T requiredSpace lr (fun _ lr1 => Step lr [32] lr1) :=
  orGiveUp_pc (space_c.mono (fun r _ hh a ha => hh.1 (by rw [ha])))

theorem newline_c : Wp T newline lr (fun r lr1 => (r = some () → Step lr [10] lr1) ∧
    (r = none → lr1.v.rest = lr.v.rest)) := by
  unfold newline
  refine Wp.bind' (Wp.reqAt_val 0) ?_
  intro a lr1 ⟨ha, r1⟩
  split
  · rename_i heq
    have h0 : lr.v.rest[0]? = some 10 := by rw [← ha]; simpa using heq
    refine Wp.bind' (Wp.advance_c 1) ?_
    intro _ lr2 ⟨s2, _, _, _⟩
    refine Wp.bind' (Wp.lineAtOffset_pc 0) ?_
    intro _ lr3 hv
    refine Wp.pure ⟨fun _ => ?_, by simp⟩
    have : lr1.v.rest.take 1 = [10] := by
      rw [r1]
      cases hr : lr.v.rest with
      | nil => rw [hr] at h0; simp at h0
      | cons x xs => rw [hr] at h0; simp at h0; simp [h0]
    rw [this] at s2
    have s3 : Step lr2 [] lr3 := Step.of_rest (by rw [hv])
    exact ((Step.of_rest r1).trans s2).trans s3 |>.cast (by simp)
  · exact Wp.pure ⟨by simp, fun _ => r1⟩

theorem skipWsLoop_c (fuel : Nat) : ∀ (off : Nat) (lr : LR), (lr.v.rest.take off).all isWs = true →
    off ≤ lr.v.rest.length →
    Wp T (skipWsLoop fuel off) lr (fun r lr1 => lr1.v.rest = lr.v.rest ∧ (lr.v.rest.take r).all isWs = true) := by
  induction fuel with
  | zero => intro off lr _ _; unfold skipWsLoop; trivial
  | succ fuel ih =>
    intro off lr hall hle
    unfold skipWsLoop
    refine Wp.bind' (Wp.reqAt_val off) ?_
    intro a lr1 ⟨ha, r1⟩
    have hstep : ∀ x, lr.v.rest[off]? = some x → isWs x = true →
        (lr.v.rest.take (off + 1)).all isWs = true ∧ off + 1 ≤ lr.v.rest.length := by
      intro x hx hw
      have hlt := (List.getElem?_eq_some_iff.mp hx).1
      refine ⟨?_, by omega⟩
      rw [List.take_succ, hx]
      simp [hall, hw]
    split
    · rename_i h32
      obtain ⟨h1, h2⟩ := hstep 32 (by rw [← ha]) (by rfl)
      refine (ih (off + 1) lr1 (by rw [r1]; exact h1) (by rw [r1]; exact h2)).mono ?_
      intro r lr2 ⟨r2, a2⟩
      exact ⟨r2.trans r1, by rw [r1] at a2; exact a2⟩
    · rename_i h10
      obtain ⟨h1, h2⟩ := hstep 10 (by rw [← ha]) (by rfl)
      refine Wp.bind' (Wp.lineAtOffset_pc (off + 1)) ?_
      intro _ lr2 hv
      refine (ih (off + 1) lr2 (by rw [hv, r1]; exact h1) (by rw [hv, r1]; exact h2)).mono ?_
      intro r lr3 ⟨r3, a3⟩
      rw [hv, r1] at r3 a3
      exact ⟨r3, a3⟩
    · exact Wp.pure ⟨r1, hall⟩

/-- `skip_whitespace` consumes spaces and newlines only. -/
theorem skipWhitespace_c :
    Wp T skipWhitespace lr (fun _ lr1 => ∃ ws, ws.all isWs = true ∧ Step lr ws lr1) := by
  unfold skipWhitespace
  refine Wp.bind (Wp.get ?_)
  refine Wp.bind' (skipWsLoop_c _ 0 lr (by simp) (Nat.zero_le _)) ?_
  intro off lr1 ⟨r1, hall⟩
  refine (Wp.advance_c off).mono ?_
  intro _ lr2 ⟨s2, _, _, _⟩
  rw [r1] at s2
  exact ⟨_, hall, (Step.of_rest r1).trans s2⟩

/-- The digits consumed by a number token, as a `Step`. -/
theorem NumberRead.step {lr lr1 : LR} {v : Nat} (h : NumberRead lr v lr1) : Step lr (natText v) lr1 := by
  unfold Step
  rw [natText_of_numberRead h, h.rest]
  have := take_runLen isDigit lr.v.rest
  rw [runLen_eq_takeWhile] at this
  calc lr.v.rest
      = lr.v.rest.take (lr.v.rest.takeWhile isDigit).length ++
          lr.v.rest.drop (lr.v.rest.takeWhile isDigit).length := (List.take_append_drop _ _).symm
    _ = _ := by rw [this]

theorem uint_none_c : Wp T uint lr (fun r lr1 => r = none → lr1.v.rest = lr.v.rest) := by
  unfold uint
  refine Wp.bind' Wp.asciiDigits_exact ?_
  intro r lr1 ⟨_, r1, _⟩
  obtain ⟨value, off⟩ := r
  dsimp only
  split
  · refine Wp.bind_any ?_
    intro first lr2
    split
    · refine Wp.bind_any ?_
      intro _ lr3
      exact Wp.pure (by simp)
    · refine Wp.bind_any ?_
      intro _ lr3
      refine Wp.bind_any ?_
      intro _ lr4
      exact Wp.pure (by simp)
  · exact Wp.pure (fun _ => r1)

/-- `positive_int`: a returned id consumed its canonical text; a Fallthrough consumed nothing. -/
theorem positiveInt_c : Wp T positiveInt lr (fun r lr1 =>
    (∀ v, r = some v → Step lr (natText v) lr1 ∧ idOk v = true) ∧ (r = none → lr1.v.rest = lr.v.rest)) := by
  have h1 := positiveInt_exact_pc (lr := lr)
  have h2 : Wp T positiveInt lr (fun r lr1 => r = none → lr1.v.rest = lr.v.rest) := by
    unfold positiveInt
    refine Wp.bind' (Wp.reqAt_val 0) ?_
    intro a lr1 ⟨_, r1⟩
    split
    · exact Wp.pure (fun _ => r1)
    · refine Wp.bind (Wp.setMark ?_)
      refine Wp.bind' uint_none_c ?_
      intro r lr3 hr
      split
      · exact Wp.pure (fun _ => (hr rfl).trans r1)
      · exact exceedsCount_pc _
      · split
        · trivial
        · exact Wp.pure (by simp)
  unfold Wp at *
  rcases hrun : positiveInt.run lr with ⟨r, lr'⟩
  rw [hrun] at h1 h2
  cases r with
  | error e => trivial
  | ok o =>
    refine ⟨fun v hv => ?_, h2⟩
    obtain ⟨hn, h0⟩ := h1 v hv
    exact ⟨hn.step, by rw [idOk_iff]; exact ⟨h0, hn.range⟩⟩

theorem requiredId_c : Wp T requiredNodeId lr (fun v lr1 => Step lr (natText v) lr1 ∧ idOk v = true) :=
  orGiveUp_pc (positiveInt_c.mono (fun _ _ hh a ha => hh.1 a ha))

theorem requiredNonneg_c :
    Wp T requiredNonnegativeInt lr (fun v lr1 => Step lr (natText v) lr1 ∧ u64Ok v = true) :=
  orGiveUp_pc (nonnegativeInt_exact_pc.mono (fun _ _ hh a ha =>
    ⟨(hh a ha).step, by rw [u64Ok_iff]; exact (hh a ha).range⟩))

/-! ### keywords: the table read backwards -/

open Gen.Btor2 (NodeToken NodeValueToken SortToken UnaryOp BinaryOp TernaryOp AssignmentKind
  SingleValueOutputKind)

/-- The keyword of a node token: the first arm of `node_token`'s `match` that yields it. -/
def tokKw (tok : NodeToken) : VBytes :=
  ((Gen.Btor2.nodeKeywords.find? (fun e => e.2 == tok)).map (·.1)).getD []

def sortKw (tok : SortToken) : VBytes :=
  ((Gen.Btor2.sortKeywords.find? (fun e => e.2 == tok)).map (·.1)).getD []

theorem tokKw_table : ∀ e ∈ Gen.Btor2.nodeKeywords, tokKw e.2 = e.1 := by decide +kernel
theorem sortKw_table : ∀ e ∈ Gen.Btor2.sortKeywords, sortKw e.2 = e.1 := by decide

theorem lookup_mem {α β : Type} [BEq α] [LawfulBEq α] {l : List (α × β)} {k : α} {v : β}
    (h : l.lookup k = some v) : (k, v) ∈ l := by
  induction l with
  | nil => simp at h
  | cons e es ih =>
    obtain ⟨a, b⟩ := e
    simp only [List.lookup] at h
    by_cases hk : (k == a) = true
    · simp only [hk] at h
      have : k = a := by simpa using hk
      simp only [Option.some.injEq] at h
      subst this h; simp
    · have hk' : (k == a) = false := by simpa using hk
      simp only [hk'] at h
      exact List.mem_cons_of_mem _ (ih h)

/-- No two arms of `node_token` yield the same token: a token determines its keyword. -/
theorem nodeToken_inv {kw : VBytes} {tok : NodeToken} (h : Gen.Btor2.nodeToken kw = some tok) :
    tokKw tok = kw := tokKw_table (kw, tok) (lookup_mem h)

theorem sortToken_inv {kw : VBytes} {tok : SortToken} (h : Gen.Btor2.sortToken kw = some tok) :
    sortKw tok = kw := sortKw_table (kw, tok) (lookup_mem h)

/-- `scanWhile p` at the cursor: the run length; nothing is consumed; a run that reaches the end of
the input makes the reader observe it. -/
theorem Wp.scanWhile_c (p : UInt8 → Bool) :
    Wp T (PM.scan (scanWhile p · 0)) lr (fun n lr1 => n = Text.runLen p lr.v.rest ∧
      lr1.v.rest = lr.v.rest ∧ (lr.v.rest.length ≤ n → lr1.v.sawEnd = true)) := by
  apply Wp.scan
  simp only [scanWhile, List.drop_zero, Nat.zero_add]
  refine ⟨trivial, demand_rest _ _, fun hge => ?_⟩
  rw [demand_of_ge _ _ (by omega)]

/-- A keyword token consumes the keyword of the token it returns. -/
theorem keywordToken_c {τ : Type} (table : VBytes → Option τ) :
    Wp T (keywordToken table) lr (fun r lr1 => ∀ t, r = some t → ∃ kw, table kw = some t ∧ Step lr kw lr1) := by
  unfold keywordToken lowercaseRun
  refine Wp.bind' (Wp.scanWhile_c isLower) ?_
  intro off lr1 ⟨_, r1, _⟩
  refine Wp.bind' (Wp.bufPrefix_val off) ?_
  intro matched lr2 ⟨e2, hm, hle⟩
  subst e2
  split
  · exact Wp.pure (by simp)
  · rename_i t ht
    refine Wp.bind' (Wp.advance_c _) ?_
    intro _ lr3 ⟨s3, _, _, _⟩
    refine Wp.pure ?_
    intro t' ht'
    simp only [Option.some.injEq] at ht'
    subst ht'
    refine ⟨matched, ht, ?_⟩
    have hlen : matched.length = off := by rw [hm]; simp only [List.length_take]; omega
    rw [hlen, ← hm] at s3
    exact (Step.of_rest r1).trans s3

theorem requiredNodeToken_c :
    Wp T (orGiveUp nodeToken unexpected) lr (fun tok lr1 => Step lr (tokKw tok) lr1) := by
  refine orGiveUp_pc ((keywordToken_c Gen.Btor2.nodeToken).mono ?_)
  intro r lr1 hh a ha
  obtain ⟨kw, hk, s⟩ := hh a ha
  rw [nodeToken_inv hk]; exact s

theorem requiredSortToken_c :
    Wp T (orGiveUp sortToken unexpected) lr (fun tok lr1 => Step lr (sortKw tok) lr1) := by
  refine orGiveUp_pc ((keywordToken_c Gen.Btor2.sortToken).mono ?_)
  intro r lr1 hh a ha
  obtain ⟨kw, hk, s⟩ := hh a ha
  rw [sortToken_inv hk]; exact s

/-! ### symbols, comments, constants -/

theorem symbolName_c : Wp T symbolName lr (fun r lr1 =>
    (∀ s, r = some s → Step lr s lr1) ∧ (r = none → lr1.v.rest = lr.v.rest)) := by
  unfold symbolName
  refine Wp.bind' (Wp.scanWhile_c _) ?_
  intro off lr1 ⟨_, r1, _⟩
  split
  · exact Wp.pure ⟨by simp, fun _ => r1⟩
  · refine Wp.bind' (Wp.advanceWithBuf_c _) ?_
    intro bs lr2 ⟨_, s2, _, _, _⟩
    refine Wp.pure ⟨?_, by simp⟩
    intro s hs
    simp only [Option.some.injEq] at hs
    subst hs
    exact (Step.of_rest r1).trans s2

theorem Wp.reqAt_end (k : Nat) :
    Wp T (PM.reqAt k) lr (fun x lr1 => x = lr.v.rest[k]? ∧ lr1.v.rest = lr.v.rest ∧
      (x = none → lr1.v.sawEnd = true)) := by
  refine Wp.reqAt ⟨rfl, demand_rest _ _, fun hx => ?_⟩
  have hk : ¬ k < lr.v.rest.length := by
    have := List.getElem?_eq_none_iff.mp hx; omega
  rw [demand_of_ge lr.v k hk]

/-- `comment_body`: consumes the comment; the cursor then rests on the line's newline, or the
input is exhausted, its end has been observed and no I/O error is pending. -/
theorem commentBody_c : Wp T commentBody lr (fun c lr1 => Step lr c lr1 ∧
    (lr1.v.rest[0]? = some 10 ∨ (lr1.v.rest = [] ∧ lr1.v.sawEnd = true ∧ lr1.v.ioErr = false))) := by
  unfold commentBody
  refine Wp.bind' (Wp.scanWhile_c (· != 10)) ?_
  intro off lr1 ⟨hoff, r1, _⟩
  refine Wp.bind' (Wp.reqAt_end off) ?_
  intro a lr2 ⟨ha, r2, hend⟩
  rw [r1] at ha r2
  have hstop : ∀ x, lr.v.rest[off]? = some x → x = 10 := by
    intro x hx
    have := takeWhile_stop_drop (· != 10) lr.v.rest 0 x (by
      simpa [hoff, runLen_eq_takeWhile] using hx)
    simpa using this
  have hle : off ≤ lr.v.rest.length := by rw [hoff]; exact runLen_le _ _
  split
  · rename_i hnone
    have hnone' : a = none := by simpa using hnone
    refine Wp.bind (Wp.get ?_)
    simp only [View.checkIoError]
    refine Wp.bind (Wp.set ?_)
    by_cases hio : lr2.v.ioErr = true
    · simp only [hio, ↓reduceIte]
      exact Wp.bind (Wp.throw trivial)
    · have hio' : lr2.v.ioErr = false := by simpa using hio
      simp only [hio', Bool.false_eq_true, ↓reduceIte]
      refine (Wp.advanceWithBuf_c _).mono ?_
      intro bs lr3 ⟨hb, s3, _, h1, h2⟩
      have hb' : bs = lr2.v.rest.take off := hb
      have s3' : Step lr2 bs lr3 := s3
      have hge : lr.v.rest.length ≤ off := by
        rw [hnone'] at ha; exact List.getElem?_eq_none_iff.mp ha.symm
      refine ⟨(Step.of_rest r2).trans s3', Or.inr ⟨?_, ?_, ?_⟩⟩
      · unfold Step at s3'
        have hl := congrArg List.length s3'
        rw [hb', r2, List.length_append, List.length_take] at hl
        exact List.length_eq_zero_iff.mp (by omega)
      · rw [h1]; exact hend hnone'
      · rw [h2]
  · rename_i hsome
    refine (Wp.advanceWithBuf_c _).mono ?_
    intro bs lr3 ⟨hb, s3, hn, _, _⟩
    refine ⟨(Step.of_rest r2).trans s3, Or.inl ?_⟩
    unfold Step at s3
    cases hx : a with
    | none => rw [hx] at hsome; simp at hsome
    | some x =>
      rw [hx] at ha
      have hx10 := hstop x ha.symm
      have h1 : lr2.v.rest = lr2.v.rest.take off ++ lr2.v.rest.drop off := (List.take_append_drop _ _).symm
      rw [hb] at s3
      have hdrop : lr3.v.rest = lr2.v.rest.drop off := (List.append_cancel_left (s3.symm.trans h1))
      rw [hdrop, r2, List.getElem?_drop, Nat.add_zero, ← ha, hx10]

theorem requiredConstant_c (scanner : View → Nat → Nat × View) (ok : VBytes → Bool)
    (hs : ScanVal scanner ok) :
    Wp T (requiredConstant scanner) lr (fun s lr1 => Step lr s lr1 ∧ ok s = true) := by
  unfold requiredConstant
  refine Wp.bind (Wp.scan ?_)
  obtain ⟨h1, h2⟩ := hs lr.v
  split
  · exact unexpected_pc _
  · rename_i hne
    refine (Wp.advanceWithBuf_c _).mono ?_
    intro bs lr2 ⟨hb, s2, _, _, _⟩
    refine ⟨(Step.of_rest h1).trans s2, ?_⟩
    rw [hb]
    show ok ((scanner lr.v 0).2.rest.take (scanner lr.v 0).1) = true
    rw [h1]
    exact h2 (by simpa using hne)

/-! ### the node variants -/

theorem tokKw_const : tokKw (.value .const) ++ [32] = Gen.Btor2.kwConstBinary := by decide
theorem tokKw_constd : tokKw (.value .constd) ++ [32] = Gen.Btor2.kwConstDecimal := by decide
theorem tokKw_consth : tokKw (.value .consth) ++ [32] = Gen.Btor2.kwConstHex := by decide
theorem tokKw_one : tokKw (.value .one) ++ [32] = Gen.Btor2.kwConstOne := by decide
theorem tokKw_ones : tokKw (.value .ones) ++ [32] = Gen.Btor2.kwConstOnes := by decide
theorem tokKw_zero : tokKw (.value .zero) ++ [32] = Gen.Btor2.kwConstZero := by decide
theorem tokKw_input : tokKw (.value .input) ++ [32] = Gen.Btor2.kwValueVariantInput := by decide
theorem tokKw_state : tokKw (.value .state) ++ [32] = Gen.Btor2.kwValueVariantState := by decide
theorem tokKw_justice : tokKw .justice ++ [32] = Gen.Btor2.kwOutputJustice := by decide
theorem tokKw_assignment (k : AssignmentKind) : tokKw (.assignment k) ++ [32] = Gen.Btor2.assignmentKindKw k := by
  cases k <;> decide
theorem tokKw_output (k : SingleValueOutputKind) :
    tokKw (.output k) ++ [32] = Gen.Btor2.singleValueOutputKindKw k := by
  cases k <;> decide
theorem tokKw_sort_bitvec : tokKw .sort ++ [32] ++ sortKw .bitvec ++ [32] = Gen.Btor2.kwSortBitVec := by decide
theorem tokKw_sort_array : tokKw .sort ++ [32] ++ sortKw .array ++ [32] = Gen.Btor2.kwSortArray := by decide
theorem tokKw_binary (b : BinaryOp) : tokKw (.value (.binaryOp b)) = Gen.Btor2.binaryOpName b := by
  cases b <;> decide
theorem tokKw_ternary (t : TernaryOp) : tokKw (.value (.ternaryOp t)) = Gen.Btor2.ternaryOpName t := by
  cases t <;> decide
theorem tokKw_unary (t : Gen.Btor2.NodeValueUnaryOpToken) :
    tokKw (.value (.unaryOp t)) = Gen.Btor2.unaryOpName (Gen.Btor2.unaryOpTokenUnaryOp t) := by
  cases t <;> decide
theorem tokKw_ext (e : Gen.Btor2.NodeValueExtOpToken) (pad : Nat) :
    tokKw (.value (.extOp e)) = Gen.Btor2.unaryOpName (Gen.Btor2.extOpTokenUnaryOp e pad) := by
  cases e <;> (simp only [Gen.Btor2.extOpTokenUnaryOp, Gen.Btor2.unaryOpName]; decide)
theorem tokKw_slice (u l : Nat) : tokKw (.value .slice) = Gen.Btor2.unaryOpName (.slice u l) := by
  simp only [Gen.Btor2.unaryOpName]; decide

set_option hygiene false in
local macro "c_start" : tactic => `(tactic| have hs := Step.refl lr)
set_option hygiene false in
local macro "c_space" : tactic => `(tactic| (
  refine Wp.bind' requiredSpace_c ?_; intro _ _ hstep; replace hs := hs.trans hstep; clear hstep))
set_option hygiene false in
local macro "c_id" : tactic => `(tactic| (
  refine Wp.bind' requiredId_c ?_; intro _ _ hstep; replace hs := hs.trans hstep.1; clear hstep))
set_option hygiene false in
local macro "c_nonneg" : tactic => `(tactic| (
  refine Wp.bind' requiredNonneg_c ?_; intro _ _ hstep; replace hs := hs.trans hstep.1; clear hstep))

/-- The conditions of a `justice` line, consumed as ` <id>` each. -/
theorem justiceLoop_c (fuel : Nat) : ∀ (remaining : Nat) (acc : List Nat) (lr : LR),
    Wp T (justiceLoop fuel remaining acc) lr (fun r lr1 => ∃ new, r = acc.reverse ++ new ∧
      new.length = remaining ∧ Step lr (idsText new) lr1) := by
  induction fuel with
  | zero => intro _ _ lr; unfold justiceLoop; trivial
  | succ fuel ih =>
    intro remaining acc lr
    unfold justiceLoop
    split
    · rename_i h0
      have : remaining = 0 := by simpa using h0
      exact Wp.pure ⟨[], by simp, by simp [this], by simpa [idsText] using Step.refl lr⟩
    · rename_i hne
      have hpos : remaining ≠ 0 := by simpa using hne
      refine Wp.bind' requiredSpace_c ?_
      intro _ lr1 s1
      refine Wp.bind' requiredId_c ?_
      intro c lr2 ⟨s2, _⟩
      refine (ih (remaining - 1) (c :: acc) lr2).mono ?_
      intro r lr3 ⟨new, hr, hlen, s3⟩
      refine ⟨c :: new, by rw [hr]; simp, by simp only [List.length_cons]; omega, ?_⟩
      rw [idsText_cons]
      exact ((s1.trans s2).trans s3).cast (by simp)

/-- The value arm: what follows the sort id, and it is what the writer emits for the value. -/
theorem valueVariant_c (tok : NodeValueToken) :
    Wp T (valueVariant tok) lr (fun vv lr1 => ∃ t, Step lr t lr1 ∧
      ∀ srt, tokKw (.value tok) ++ [32] ++ natText srt ++ t = writeValue srt vv) := by
  cases tok <;> simp only [valueVariant]
  case const =>
    c_start; c_space
    refine Wp.bind' (requiredConstant_c binaryString _ (scanWhile_scanVal isBinDigit)) ?_
    intro s _ ⟨hstep, _⟩
    exact Wp.pure ⟨_, hs.trans hstep, fun srt => by simp [writeValue, ← tokKw_const]⟩
  case constd =>
    c_start; c_space
    refine Wp.bind' (requiredConstant_c decimalString _ decimalString_scanVal) ?_
    intro s _ ⟨hstep, _⟩
    exact Wp.pure ⟨_, hs.trans hstep, fun srt => by simp [writeValue, ← tokKw_constd]⟩
  case consth =>
    c_start; c_space
    refine Wp.bind' (requiredConstant_c hexString _ (scanWhile_scanVal isHexDigit)) ?_
    intro s _ ⟨hstep, _⟩
    exact Wp.pure ⟨_, hs.trans hstep, fun srt => by simp [writeValue, ← tokKw_consth]⟩
  case ones => exact Wp.pure ⟨[], Step.refl lr, fun srt => by simp [writeValue, ← tokKw_ones]⟩
  case one => exact Wp.pure ⟨[], Step.refl lr, fun srt => by simp [writeValue, ← tokKw_one]⟩
  case zero => exact Wp.pure ⟨[], Step.refl lr, fun srt => by simp [writeValue, ← tokKw_zero]⟩
  case input => exact Wp.pure ⟨[], Step.refl lr, fun srt => by simp [writeValue, ← tokKw_input]⟩
  case state => exact Wp.pure ⟨[], Step.refl lr, fun srt => by simp [writeValue, ← tokKw_state]⟩
  case extOp e =>
    c_start; c_space; c_id; c_space; c_nonneg
    refine Wp.pure ⟨_, hs, fun srt => ?_⟩
    rename_i a0 _ _ _ pad _
    rw [tokKw_ext e pad]
    cases e <;> simp [writeValue, writeIndices, Gen.Btor2.extOpTokenUnaryOp]
  case slice =>
    c_start; c_space; c_id; c_space; c_nonneg; c_space; c_nonneg
    refine Wp.pure ⟨_, hs, fun srt => ?_⟩
    rename_i a0 _ _ _ u _ _ _ l _
    rw [tokKw_slice u l]
    simp [writeValue, writeIndices]
  case unaryOp t =>
    c_start; c_space; c_id
    refine Wp.pure ⟨_, hs, fun srt => ?_⟩
    rw [tokKw_unary t]
    cases t <;> simp [writeValue, writeIndices, Gen.Btor2.unaryOpTokenUnaryOp]
  case binaryOp t =>
    c_start; c_space; c_id; c_space; c_id
    refine Wp.pure ⟨_, hs, fun srt => ?_⟩
    rw [tokKw_binary t]
    simp [writeValue]
  case ternaryOp t =>
    c_start; c_space; c_id; c_space; c_id; c_space; c_id
    refine Wp.pure ⟨_, hs, fun srt => ?_⟩
    rw [tokKw_ternary t]
    simp [writeValue]

/-- The `match node_token { … }`: after the keyword of `tok`, exactly the rest of what the writer
emits for the returned variant is consumed. -/
theorem nodeVariant_c (tok : NodeToken) :
    Wp T (nodeVariant tok) lr (fun v lr1 => ∃ t, Step lr t lr1 ∧ tokKw tok ++ t = writeVariant v) := by
  cases tok <;> simp only [nodeVariant]
  case sort =>
    c_start; c_space
    refine Wp.bind' requiredSortToken_c ?_
    intro st _ hstep
    replace hs := hs.trans hstep
    cases st
    · dsimp only
      c_space; c_id
      refine Wp.pure ⟨_, hs, ?_⟩
      simp only [writeVariant, ← tokKw_sort_bitvec, List.append_assoc, List.nil_append]
    · dsimp only
      c_space; c_id; c_space; c_id
      refine Wp.pure ⟨_, hs, ?_⟩
      simp only [writeVariant, ← tokKw_sort_array, List.append_assoc, List.nil_append]
  case assignment k =>
    c_start; c_space; c_id; c_space; c_id; c_space; c_id
    refine Wp.pure ⟨_, hs, ?_⟩
    simp only [writeVariant, ← tokKw_assignment k, List.append_assoc, List.nil_append]
  case output k =>
    c_start; c_space; c_id
    refine Wp.pure ⟨_, hs, ?_⟩
    simp only [writeVariant, ← tokKw_output k, List.append_assoc, List.nil_append]
  case justice =>
    c_start; c_space
    refine Wp.bind' requiredId_c ?_
    intro count _ ⟨hstep, _⟩
    replace hs := hs.trans hstep
    refine Wp.bind (Wp.get ?_)
    refine Wp.bind' (justiceLoop_c _ count [] _) ?_
    intro nodes _ ⟨new, hr, hlen, hstep2⟩
    simp only [List.reverse_nil, List.nil_append] at hr
    subst hr
    refine Wp.pure ⟨_, hs.trans hstep2, ?_⟩
    simp only [writeVariant, ← tokKw_justice, List.append_assoc, List.nil_append, hlen, idsText]
  case value vt =>
    c_start; c_space
    refine Wp.bind' requiredId_c ?_
    intro srt _ ⟨hstep, _⟩
    replace hs := hs.trans hstep
    refine Wp.bind' (valueVariant_c vt) ?_
    intro vv _ ⟨t, hstep2, heq⟩
    refine Wp.pure ⟨_, hs.trans hstep2, ?_⟩
    simp only [writeVariant, ← heq srt, List.append_assoc, List.nil_append]

/-- The `(symbol, comment)` tail consumes `trailerText`. -/
theorem trailer_c : Wp T trailer lr (fun r lr1 => Step lr (trailerText r.1 r.2) lr1) := by
  unfold trailer
  refine Wp.bind' space_c ?_
  intro r lr1 ⟨hsome, hnone⟩
  cases r with
  | some _ =>
    have s1 := hsome rfl
    dsimp only
    refine Wp.bind' commentStart_c ?_
    intro r lr2 ⟨hsome2, hnone2⟩
    cases r with
    | some _ => exact Wp.pure ((s1.trans (hsome2 rfl)).cast (by simp [trailerText]))
    | none =>
      have s2 := Step.of_rest (hnone2 rfl).1
      dsimp only
      refine Wp.bind' symbolName_c ?_
      intro r lr3 ⟨hsym, _⟩
      cases r with
      | some sym =>
        have s3 := hsym sym rfl
        dsimp only
        refine Wp.bind' space_c ?_
        intro r lr4 ⟨hsome4, hnone4⟩
        cases r with
        | some _ =>
          have s4 := hsome4 rfl
          dsimp only
          refine Wp.bind' commentStart_c ?_
          intro r lr5 ⟨hsome5, _⟩
          cases r with
          | some _ =>
            exact Wp.pure (((((s1.trans s2).trans s3).trans s4).trans (hsome5 rfl)).cast
              (by simp [trailerText]))
          | none => exact unexpected_pc _
        | none =>
          have s4 := Step.of_rest (hnone4 rfl).1
          dsimp only
          refine Wp.bind' newline_c ?_
          intro r lr5 ⟨hsome5, _⟩
          cases r with
          | some _ =>
            exact Wp.pure (((((s1.trans s2).trans s3).trans s4).trans (hsome5 rfl)).cast
              (by simp [trailerText]))
          | none => exact unexpected_pc _
      | none => exact unexpected_pc _
  | none =>
    have s1 := Step.of_rest (hnone rfl).1
    dsimp only
    refine Wp.bind' newline_c ?_
    intro r lr2 ⟨hsome2, _⟩
    cases r with
    | some _ => exact Wp.pure ((s1.trans (hsome2 rfl)).cast (by simp [trailerText]))
    | none => exact unexpected_pc _

/-- `try_node` consumes the head of the node's canonical text. -/
theorem tryNode_c : Wp T tryNode lr (fun r lr1 =>
    (∀ nd hc, r = some (nd, hc) → nd.comment = none ∧
      Step lr (nodeHeadText { nd with comment := if hc then some [] else none }) lr1) ∧
    (r = none → lr1.v.rest = lr.v.rest)) := by
  unfold tryNode
  refine Wp.bind' positiveInt_c ?_
  intro r lr1 ⟨hsome, hnone⟩
  cases r with
  | none => exact Wp.pure ⟨by simp, fun _ => hnone rfl⟩
  | some id =>
    obtain ⟨s1, _⟩ := hsome id rfl
    dsimp only
    refine Wp.bind' requiredSpace_c ?_
    intro _ lr2 s2
    refine Wp.bind' requiredNodeToken_c ?_
    intro tok lr3 s3
    refine Wp.bind' (nodeVariant_c tok) ?_
    intro variant lr4 ⟨t, s4, heq⟩
    refine Wp.bind' trailer_c ?_
    intro sc lr5 s5
    obtain ⟨symbol, hasComment⟩ := sc
    refine Wp.pure ⟨?_, by simp⟩
    intro nd hc hnd
    simp only [Option.some.injEq, Prod.mk.injEq] at hnd
    obtain ⟨h1, h2⟩ := hnd
    subst h1 h2
    refine ⟨rfl, ?_⟩
    refine (((((s1.trans s2).trans s3).trans s4).trans s5)).cast ?_
    simp only [nodeHeadText, ← heq, List.append_assoc, List.cons_append, List.nil_append]
    cases hasComment <;> simp

/-- **Accepted text is canonical**: when `next_line` returns `l`, it consumed spaces / newlines and
then exactly what the writer emits for `l` — including the newline for a line without comment,
excluding it (the cursor rests on it, or the input is exhausted) for a line that ends in a comment. -/
theorem nextLine_c : Wp T nextLine lr (fun r lr1 => ∀ l, r = some l → ∃ ws, ws.all isWs = true ∧
    (l.endsInComment = false → Step lr (ws ++ writeLine l) lr1) ∧
    (l.endsInComment = true → Step lr (ws ++ writeLineUnterminated l) lr1 ∧
      (lr1.v.rest[0]? = some 10 ∨ (lr1.v.rest = [] ∧ lr1.v.sawEnd = true ∧ lr1.v.ioErr = false)))) := by
  unfold nextLine
  refine Wp.bind' skipWhitespace_c ?_
  intro _ lr1 ⟨ws, hws, s1⟩
  refine Wp.bind' tryNode_c ?_
  intro r lr2 ⟨hsome, hnone⟩
  cases r with
  | some nc =>
    obtain ⟨node, hasComment⟩ := nc
    obtain ⟨hcm, s2⟩ := hsome node hasComment rfl
    obtain ⟨id, variant, symbol, comment⟩ := node
    simp only at hcm
    subst hcm
    dsimp only
    split
    · rename_i htrue
      simp only [htrue, ↓reduceIte] at s2
      refine Wp.bind' commentBody_c ?_
      intro c lr3 ⟨s3, hend⟩
      refine Wp.pure ?_
      intro l hl
      simp only [Option.some.injEq] at hl
      subst hl
      refine ⟨ws, hws, by simp [Line.endsInComment], fun _ => ⟨?_, hend⟩⟩
      refine ((s1.trans s2).trans s3).cast ?_
      cases symbol <;>
        simp [writeLineUnterminated, writeNode, nodeHeadText, trailerText, List.append_assoc]
    · rename_i hfalse
      have hf : hasComment = false := by simpa using hfalse
      simp only [hf, Bool.false_eq_true, ↓reduceIte] at s2
      refine Wp.pure ?_
      intro l hl
      simp only [Option.some.injEq] at hl
      subst hl
      refine ⟨ws, hws, fun _ => ?_, by simp [Line.endsInComment]⟩
      refine (s1.trans s2).cast ?_
      rw [writeLine_node_plain]
  | none =>
    have s2 := Step.of_rest (hnone rfl)
    dsimp only
    refine Wp.bind' commentStart_c ?_
    intro r lr3 ⟨hsome3, _⟩
    cases r with
    | some _ =>
      have s3 := hsome3 rfl
      dsimp only
      refine Wp.bind' commentBody_c ?_
      intro c lr4 ⟨s4, hend⟩
      refine Wp.pure ?_
      intro l hl
      simp only [Option.some.injEq] at hl
      subst hl
      refine ⟨ws, hws, by simp [Line.endsInComment], fun _ => ⟨?_, hend⟩⟩
      refine (((s1.trans s2).trans s3).trans s4).cast ?_
      simp [writeLineUnterminated, Btor2Tables.comment_kw]
    | none =>
      dsimp only
      refine Wp.bind_any ?_
      intro r lr4
      cases r with
      | some _ =>
        dsimp only
        refine Wp.bind_any ?_
        intro _ lr5
        exact Wp.pure (by simp)
      | none => exact unexpected_pc _

end Btor2
end Flussab
