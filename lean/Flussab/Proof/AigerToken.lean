/-
Facts about `Model/AigerToken.lean`: the read-to-end loop of `remaining_file_content`
(`readToEnd_spec`), UTF-8 validation (`utf8ValidUpTo_le`, ASCII, boundary examples), and the
value-level postconditions of the number tokens (`headerField_post`, `lit_post`: what is returned
respects the limit it was given — the basis of the C06 theorems).
-/
import Flussab.Proof.AigerBasic

namespace Flussab
namespace Aiger
open PM

/-! ### `while request_byte_at_offset(buf_len()).is_some() {}` -/

/-- The loop of `remaining_file_content` with `buf_len()` — which depends on how the bytes
arrive — supplied by an arbitrary function `bl` of the previous value (`bl b` is what `buf_len()`
reports after the request at offset `b` has succeeded). -/
def readToEndLoop (bl : Nat → Nat) : Nat → Nat → View → View
  | 0, _, v => v
  | f + 1, b, v =>
    if (v.reqAt b).1.isSome then readToEndLoop bl f (bl b) (v.reqAt b).2 else (v.reqAt b).2

theorem demand_rest (v : View) (k : Nat) : (v.demand k).rest = v.rest := by
  unfold View.demand; dsimp only; split <;> rfl

theorem demand_pos (v : View) (k : Nat) : (v.demand k).pos = v.pos := by
  unfold View.demand; dsimp only; split <;> rfl

theorem demand_demand_lt (v : View) (a b : Nat) (ha : a < v.rest.length) (hab : a ≤ b) :
    (v.demand a).demand b = v.demand b := by
  unfold View.demand
  simp only [ha, ↓reduceIte]
  have : max (max v.peeked (v.pos + a + 1)) (v.pos + b + 1) = max v.peeked (v.pos + b + 1) := by omega
  rw [this]

/-- **The read-to-end loop reads everything, whatever `buf_len()` reports**: if every
successful request makes `buf_len()` grow beyond the requested offset (the byte at that offset is
then buffered) without exceeding the stream, the loop ends in the state of one request at offset
`rest.length` — which is how `remainingFileContent` models it. -/
theorem readToEnd_spec (bl : Nat → Nat) (v : View)
    (hbl : ∀ b, b < v.rest.length → b < bl b ∧ bl b ≤ v.rest.length) :
    ∀ (fuel b : Nat), b ≤ v.rest.length → v.rest.length - b < fuel →
      readToEndLoop bl fuel b v = v.demand v.rest.length := by
  suffices h : ∀ (fuel b : Nat) (w : View), w.rest = v.rest → b ≤ v.rest.length →
      v.rest.length - b < fuel → w.demand v.rest.length = v.demand v.rest.length →
      readToEndLoop bl fuel b w = v.demand v.rest.length from
    fun fuel b hb hf => h fuel b v rfl hb hf rfl
  intro fuel
  induction fuel with
  | zero => intro b w _ _ hf; omega
  | succ fuel ih =>
    intro b w hw hb hf hd
    unfold readToEndLoop
    simp only [View.reqAt, hw]
    by_cases hlt : b < v.rest.length
    · have hs : v.rest[b]?.isSome = true := by
        rw [List.getElem?_eq_getElem hlt]; rfl
      simp only [hs, ↓reduceIte]
      obtain ⟨h1, h2⟩ := hbl b hlt
      apply ih (bl b) (w.demand b) (by rw [demand_rest, hw]) h2 (by omega)
      rw [demand_demand_lt w b _ (by rw [hw]; exact hlt) (by omega)]
      exact hd
    · have hb' : b = v.rest.length := by omega
      have hs : v.rest[b]?.isSome = false := by
        rw [List.getElem?_eq_none (by omega)]; rfl
      simp only [hs, Bool.false_eq_true, ↓reduceIte]
      rw [hb']
      exact hd

/-! ### UTF-8 -/

theorem utf8SeqLen_le (bs : VBytes) : utf8SeqLen bs ≤ bs.length := by
  unfold utf8SeqLen
  repeat' split
  all_goals (simp only [List.length_cons, List.length_nil])
  all_goals (try split)
  all_goals omega

theorem utf8ValidUpToAux_le (f : Nat) (bs : VBytes) (n : Nat) :
    utf8ValidUpToAux f bs n ≤ n + bs.length := by
  induction f generalizing bs n with
  | zero => simp [utf8ValidUpToAux]
  | succ f ih =>
    unfold utf8ValidUpToAux
    simp only
    split
    · omega
    · have h1 := ih (bs.drop (utf8SeqLen bs)) (n + utf8SeqLen bs)
      have h2 := utf8SeqLen_le bs
      simp only [List.length_drop] at h1
      omega

/-- `valid_up_to()` never exceeds the length: the `advance(valid_up_to)` in the error arms of
`remaining_line_content` / `remaining_file_content` stays inside the scanned bytes. -/
theorem utf8ValidUpTo_le (bs : VBytes) : utf8ValidUpTo bs ≤ bs.length := by
  have := utf8ValidUpToAux_le bs.length bs 0
  unfold utf8ValidUpTo
  omega

theorem utf8ValidUpToAux_ascii (f : Nat) (bs : VBytes) (n : Nat) (hf : bs.length ≤ f)
    (h : ∀ b ∈ bs, b < 128) : utf8ValidUpToAux f bs n = n + bs.length := by
  induction f generalizing bs n with
  | zero =>
    have : bs = [] := List.eq_nil_of_length_eq_zero (by omega)
    subst this; simp [utf8ValidUpToAux]
  | succ f ih =>
    unfold utf8ValidUpToAux
    cases bs with
    | nil => simp [utf8SeqLen]
    | cons b bs =>
      have hb : b < 0x80 := h b (by simp)
      have hk : utf8SeqLen (b :: bs) = 1 := by simp [utf8SeqLen, hb]
      simp only [hk, List.drop_succ_cons, List.drop_zero, List.length_cons]
      have := ih bs (n + 1) (by simp only [List.length_cons] at hf; omega)
        (fun x hx => h x (by simp [hx]))
      simp only [show ((1:Nat) == 0) = false from rfl, Bool.false_eq_true, ↓reduceIte]
      omega

/-- ASCII text is valid UTF-8 (every name and comment without bytes ≥ 0x80 is in the domain). -/
theorem validUtf8_ascii (bs : VBytes) (h : ∀ b ∈ bs, b < 128) : validUtf8 bs = true := by
  unfold validUtf8 utf8ValidUpTo
  rw [utf8ValidUpToAux_ascii bs.length bs 0 (Nat.le_refl _) h]
  simp

/-- Boundary cases of the validator against the table of the Unicode standard (the same cases
are run against `std::str::from_utf8` by the `aiger` engine). -/
example : validUtf8 [0xC2, 0x80] = true ∧ validUtf8 [0xDF, 0xBF] = true ∧
    validUtf8 [0xE0, 0xA0, 0x80] = true ∧ validUtf8 [0xED, 0x9F, 0xBF] = true ∧
    validUtf8 [0xEF, 0xBF, 0xBF] = true ∧ validUtf8 [0xF0, 0x90, 0x80, 0x80] = true ∧
    validUtf8 [0xF4, 0x8F, 0xBF, 0xBF] = true := by decide

example : validUtf8 [0x80] = false ∧ validUtf8 [0xC0, 0x80] = false ∧ validUtf8 [0xC1, 0xBF] = false ∧
    validUtf8 [0xE0, 0x9F, 0xBF] = false ∧ validUtf8 [0xED, 0xA0, 0x80] = false ∧
    validUtf8 [0xF0, 0x8F, 0xBF, 0xBF] = false ∧ validUtf8 [0xF4, 0x90, 0x80, 0x80] = false ∧
    validUtf8 [0xF5, 0x80, 0x80, 0x80] = false ∧ validUtf8 [0xE2, 0x82] = false := by decide

example : utf8ValidUpTo [97, 98, 0xFF, 99] = 2 ∧ utf8ValidUpTo [0xE2, 0x82, 0xAC, 0xE2, 0x82] = 3 ∧
    utf8ValidUpTo [0xF0, 0x9F, 0x98, 0x80, 0xED, 0xA0, 0x80] = 4 := by decide

/-! ### number tokens: what is returned respects the limit -/

/-- `header_field(limit)` (and `symbol_index(limit)`) returns only values `≤ limit`. -/
theorem headerField_post (limit : Nat) : Post (headerField limit) (· ≤ limit) := by
  unfold headerField
  refine Post.bind (Post.true _) fun _ _ => ?_
  refine Post.bind (Post.true _) fun r _ => ?_
  cases r with
  | fall => exact Post.of_fails fails_unexpected
  | bad => exact Post.of_fails fails_errorAtMark
  | ok count =>
    simp only
    refine Post.ite (fun _ => Post.of_fails fails_errorAtMark) (fun h => Post.pure (by omega))

theorem symbolIndex_post (limit : Nat) : Post (symbolIndex limit) (· ≤ limit) := headerField_post limit

/-- `lit(limit, assigning)` returns only literals `≤ limit`, and for a defining position only
even, non-constant ones. -/
theorem lit_post (limit : Nat) (assigning : Bool) :
    Post (lit limit assigning) (fun c => c ≤ limit ∧ (assigning = true → c % 2 = 0 ∧ 2 ≤ c)) := by
  unfold lit
  refine Post.bind (Post.true _) fun _ _ => ?_
  refine Post.bind (Post.true _) fun r _ => ?_
  cases r with
  | fall => exact Post.of_fails fails_unexpected
  | bad => exact Post.of_fails fails_errorAtMark
  | ok count =>
    simp only
    refine Post.ite (fun _ => Post.of_fails fails_errorAtMark) (fun h1 => ?_)
    refine Post.ite (fun _ => Post.of_fails fails_errorAtMark) (fun h2 => Post.pure ⟨by omega, ?_⟩)
    intro ha
    subst ha
    simp only [Bool.true_and, Bool.or_eq_true, beq_iff_eq, bne_iff_ne, ne_eq, not_or,
      Decidable.not_not] at h1
    omega

end Aiger
end Flussab
