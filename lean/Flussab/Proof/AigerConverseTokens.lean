/-
What the two free-text tokens of the AIGER formats return, exactly: a symbol name
(`remaining_line_content`) is the bytes up to the next newline, valid UTF-8, and the newline is
consumed with it; a comment (`remaining_file_content`) is everything up to the end of the file
minus its final newline, and it is valid UTF-8.
-/
import Flussab.Proof.AigerConverseUtf8

namespace Flussab
namespace Aiger
open PM

theorem Fails.bind_right {α β : Type} (m : PM α) {f : α → PM β} (h : ∀ a, Fails (f a)) :
    Fails (m >>= f) := by
  intro lr b lr' hr
  rw [run_bind] at hr
  rcases hm : m.run lr with ⟨e | a, lr1⟩
  · rw [hm] at hr; cases hr
  · rw [hm] at hr; exact h a lr1 b lr' hr

theorem run_lineAtOffset (off : Nat) (lr : LR) :
    (lineAtOffset off).run lr = if lr.line + 1 > usizeMax ∨ lr.v.pos + off > usizeMax
      then (.error (.panic "line_at_offset overflow"), lr)
      else (.ok (), { lr with line := lr.line + 1, lineStart := lr.v.pos + off }) := by
  unfold PM.lineAtOffset
  simp only [run_bind, run_get]
  split <;> rfl

theorem run_checkIoError' (lr : LR) :
    checkIoError.run lr = if lr.v.ioErr = true
      then (.error .io, { lr with v := { lr.v with ioErr := false } })
      else (.ok (), { lr with v := { lr.v with ioErr := false } }) := by
  unfold checkIoError
  simp only [run_bind, run_get, run_set, View.checkIoError]
  by_cases h : lr.v.ioErr = true
  · simp only [h]; rfl
  · simp only [h]; rfl

/-- The run of bytes satisfying `p` at the front of `l`, and what stops it. -/
theorem runLen_spec (p : UInt8 → Bool) (l : VBytes) :
    (l.take (Text.runLen p l)).all p = true ∧ (∀ x, l[Text.runLen p l]? = some x → p x = false) ∧
    Text.runLen p l ≤ l.length := by
  induction l with
  | nil => simp [Text.runLen]
  | cons c cs ih =>
    by_cases hc : p c = true
    · simp only [Text.runLen, hc, ↓reduceIte, List.take_succ_cons, List.all_cons, Bool.true_and,
        List.getElem?_cons_succ, List.length_cons]
      exact ⟨ih.1, ih.2.1, by omega⟩
    · have hc' : p c = false := by simpa using hc
      simp only [Text.runLen, hc', Bool.false_eq_true, ↓reduceIte, List.take_zero, List.all_nil,
        List.getElem?_cons_zero, Option.some.injEq, true_and]
      exact ⟨fun x hx => by rw [← hx]; exact hc', Nat.zero_le _⟩

/-! ### inversion of runs that return -/

theorem bind_ret {α β : Type} {m : PM α} {f : α → PM β} {lr lr' : LR} {b : β}
    (h : (m >>= f).run lr = (.ok b, lr')) :
    ∃ a lr1, m.run lr = (.ok a, lr1) ∧ (f a).run lr1 = (.ok b, lr') := by
  rw [run_bind] at h
  rcases hm : m.run lr with ⟨e | a, lr1⟩
  · rw [hm] at h; cases h
  · rw [hm] at h; exact ⟨a, lr1, rfl, h⟩

/-- `bind_inv h with a lr1 h1`: split the hypothesis `h : (m >>= f).run lr = (.ok b, lr')` into
`h1 : m.run lr = (.ok a, lr1)` and `h : (f a).run lr1 = (.ok b, lr')`. -/
macro "bind_inv " h:ident " with " a:ident lr:ident h1:ident : tactic =>
  `(tactic| (replace $h := bind_ret $h; obtain ⟨$a:ident, $lr:ident, $h1:ident, $h:ident⟩ := $h))

theorem pure_ret {α : Type} {a b : α} {lr lr' : LR} (h : (pure a : PM α).run lr = (.ok b, lr')) :
    a = b ∧ lr = lr' := by
  rw [run_pure] at h; cases h; exact ⟨rfl, rfl⟩

theorem get_ret {s lr lr' : LR} (h : (get : PM LR).run lr = (.ok s, lr')) : lr = s ∧ lr = lr' := by
  rw [run_get] at h; cases h; exact ⟨rfl, rfl⟩

theorem reqAt_ret {k : Nat} {x : Option UInt8} {lr lr' : LR} (h : (reqAt k).run lr = (.ok x, lr')) :
    lr.v.rest[k]? = x ∧ { lr with v := lr.v.demand k } = lr' := by
  rw [run_reqAt] at h; cases h; exact ⟨rfl, rfl⟩

theorem bufPrefix_ret {n : Nat} {bs : VBytes} {lr lr' : LR} (h : (bufPrefix n).run lr = (.ok bs, lr')) :
    lr.v.rest.take n = bs ∧ lr = lr' ∧ n ≤ lr.v.rest.length := by
  rw [run_bufPrefix] at h
  split at h
  · rename_i hd
    cases h
    exact ⟨rfl, rfl, by unfold View.demanded at hd; omega⟩
  · cases h

theorem advance_ret {n : Nat} {u : Unit} {lr lr' : LR} (h : (advance n).run lr = (.ok u, lr')) :
    { lr with v := { lr.v with rest := lr.v.rest.drop n, pos := lr.v.pos + n } } = lr' ∧
      n ≤ lr.v.rest.length := by
  rw [run_advance] at h
  split at h
  · rename_i hd
    cases h
    exact ⟨rfl, by unfold View.demanded at hd; omega⟩
  · cases h

theorem advanceWithBuf_ret {n : Nat} {bs : VBytes} {lr lr' : LR}
    (h : (advanceWithBuf n).run lr = (.ok bs, lr')) :
    lr.v.rest.take n = bs ∧ n ≤ lr.v.rest.length ∧
      { lr with v := { lr.v with rest := lr.v.rest.drop n, pos := lr.v.pos + n } } = lr' := by
  unfold advanceWithBuf at h
  bind_inv h with a lr1 h1
  obtain ⟨rfl, rfl, hn⟩ := bufPrefix_ret h1
  bind_inv h with u lr2 h2
  obtain ⟨rfl, _⟩ := advance_ret h2
  obtain ⟨rfl, rfl⟩ := pure_ret h
  exact ⟨rfl, hn, rfl⟩

theorem lineAtOffset_ret {off : Nat} {u : Unit} {lr lr' : LR}
    (h : (lineAtOffset off).run lr = (.ok u, lr')) :
    { lr with line := lr.line + 1, lineStart := lr.v.pos + off } = lr' ∧
      lr.v.pos + off ≤ usizeMax := by
  rw [run_lineAtOffset] at h
  split at h
  · cases h
  · rename_i hc
    cases h
    exact ⟨rfl, by omega⟩

theorem checkIoError_ret {u : Unit} {lr lr' : LR} (h : checkIoError.run lr = (.ok u, lr')) :
    { lr with v := { lr.v with ioErr := false } } = lr' := by
  rw [run_checkIoError'] at h
  split at h
  · cases h
  · cases h; rfl

/-- **`remaining_line_content` is exact**: the name is the text up to the next newline — which
exists and is consumed too —, it contains no newline and is valid UTF-8. -/
theorem remainingLineContent_exact (lr lr' : LR) (name : VBytes)
    (h : remainingLineContent.run lr = (.ok name, lr')) :
    ∃ rest, lr.v.rest = name ++ 10 :: rest ∧ lr'.v.rest = rest ∧
      name.all (· != 10) = true ∧ validUtf8 name = true := by
  obtain ⟨hall, hstop, hle⟩ := runLen_spec (· != 10) lr.v.rest
  unfold remainingLineContent at h
  bind_inv h with s lr0 h0
  obtain ⟨rfl, rfl⟩ := get_ret h0
  dsimp only at h
  generalize Text.runLen (· != 10) lr.v.rest = offset at h hall hstop hle
  bind_inv h with x lr1 h1
  obtain ⟨rfl, rfl⟩ := reqAt_ret h1
  cases hc : lr.v.rest[offset]? with
  | none =>
    rw [hc] at h
    simp only [Option.isNone_none, ↓reduceIte] at h
    exact absurd h (Fails.bind_right _ (fun _ => fails_unexpected) _ _ _)
  | some c =>
    rw [hc] at h
    simp only [Option.isNone_some, Bool.false_eq_true, ↓reduceIte] at h
    have hc10 : c = 10 := by simpa using hstop c hc
    subst hc10
    have hlt : offset < lr.v.rest.length := (List.getElem?_eq_some_iff.mp hc).1
    bind_inv h with bytes lr2 h2
    obtain ⟨rfl, rfl, _⟩ := bufPrefix_ret h2
    dsimp only at h
    simp only [demand_rest] at h
    split at h
    · rename_i hv
      bind_inv h with u lr3 h3
      obtain ⟨rfl, _⟩ := lineAtOffset_ret h3
      bind_inv h with withNl lr4 h4
      obtain ⟨rfl, _, rfl⟩ := advanceWithBuf_ret h4
      obtain ⟨rfl, rfl⟩ := pure_ret h
      simp only [demand_rest]
      rw [List.take_take, Nat.min_eq_left (by omega)]
      refine ⟨lr.v.rest.drop (offset + 1), ?_, rfl, hall, ?_⟩
      · have h1 : lr.v.rest = lr.v.rest.take offset ++ lr.v.rest.drop offset :=
          (List.take_append_drop _ _).symm
        have h2 : lr.v.rest.drop offset = 10 :: lr.v.rest.drop (offset + 1) := by
          rw [List.drop_eq_getElem_cons hlt]
          congr 1
          have := List.getElem?_eq_getElem hlt
          rw [hc] at this
          exact (Option.some.inj this).symm
        rw [h2] at h1
        exact h1
      · simpa [validUtf8] using hv
    · exact absurd h (Fails.bind_right _ (fun _ => fails_unexpected) _ _ _)

/-- **`remaining_file_content` is exact**: everything up to the end of the file is consumed; it is
valid UTF-8 and ends in a newline (or is empty); the comment is that text without its last
byte. -/
theorem remainingFileContent_exact (lr lr' : LR) (c : VBytes)
    (h : remainingFileContent.run lr = (.ok c, lr')) :
    lr'.v.rest = [] ∧ c = lr.v.rest.take (lr.v.rest.length - 1) ∧ validUtf8 lr.v.rest = true ∧
      (lr.v.rest.getLast? = some 10 ∨ lr.v.rest = []) := by
  unfold remainingFileContent at h
  bind_inv h with s lr0 h0
  obtain ⟨rfl, rfl⟩ := get_ret h0
  dsimp only at h
  bind_inv h with x lr1 h1
  obtain ⟨rfl, rfl⟩ := reqAt_ret h1
  bind_inv h with u lr2 h2
  have := checkIoError_ret h2
  subst this
  bind_inv h with bytes lr3 h3
  obtain ⟨rfl, rfl, _⟩ := bufPrefix_ret h3
  dsimp only at h
  simp only [demand_rest, List.take_length] at h
  split at h
  · rename_i hcond
    bind_inv h with all lr4 h4
    obtain ⟨rfl, _, rfl⟩ := advanceWithBuf_ret h4
    obtain ⟨rfl, rfl⟩ := pure_ret h
    simp only [Bool.and_eq_true, Bool.or_eq_true, beq_iff_eq, List.length_eq_zero_iff] at hcond
    refine ⟨?_, ?_, ?_, hcond.2⟩
    · simp only [List.drop_length]
    · simp only [List.take_length]
    · unfold validUtf8
      simpa using hcond.1
  · exact absurd h
      (Fails.bind_right _ (fun _ => Fails.bind_right _ (fun _ => fails_unexpected)) _ _ _)

/-- A returned comment is valid UTF-8. -/
theorem remainingFileContent_valid (lr lr' : LR) (c : VBytes)
    (h : remainingFileContent.run lr = (.ok c, lr')) : validUtf8 c = true := by
  obtain ⟨_, hc, hv, hl⟩ := remainingFileContent_exact lr lr' c h
  rw [hc]
  exact validUtf8_take_pred _ hv hl

end Aiger
end Flussab
