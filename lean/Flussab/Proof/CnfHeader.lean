/-
Header level of the layout-independence proof: `parse_header`, `Parser::new`, and the whole
document (`parseAll`) on a rendered text.
-/
import Flussab.Spec.CnfDomain
import Flussab.Proof.CnfDoc

namespace Flussab.CnfP
open Flussab Flussab.PM Flussab.Cnf Flussab.Spec
set_option linter.unusedSimpArgs false
set_option linter.unusedVariables false

/-- The text in front of which the header search gives up: neither blank, junk nor `'p'`. -/
structure NoHdr (X : VBytes) : Prop where
  nb : NB X
  h99 : X.head? ≠ some 99
  h10 : X.head? ≠ some 10
  h13 : X.head? ≠ some 13
  h112 : X.head? ≠ some 112

theorem NoHdr.nil : NoHdr [] := ⟨NB.nil, by simp, by simp, by simp, by simp⟩

theorem NoHdr.of_core {fmt X} (h : StartsCore fmt X) : NoHdr X :=
  ⟨h.nb, h.ne.1, h.ne.2.1, h.ne.2.2.1, h.ne.2.2.2⟩

theorem parseHeader_none {N} (fmt : Format) (l : LitTy) (b : Blanks) (j : Junk) (X : VBytes)
    (hv : j.valid = true) (hX : NoHdr X) :
    Steps N (parseHeader fmt l) none (renderBlanks b ++ (renderJunk j ++ X)) X := by
  unfold parseHeader
  refine Steps.bind (skipWhitespace_ok _ _ (allBlank_render b) (nb_junk j hX.nb)) ?_
  refine Steps.get_bind ?_
  intro lr hlr
  refine Steps.bind (headerSkipLoop_ok j X hv hX.nb hX.h99 hX.h10 hX.h13 _ (by rw [hlr]; simp)) ?_
  exact Steps.bind (word_fall 112 X hX.h112) (Steps.pure _ _)

structure HeaderOk (fmt : Format) (l : LitTy) (h : Header) : Prop where
  v0 : 0 ≤ h.varCount
  v1 : h.varCount ≤ l.maxDimacs
  c0 : 0 ≤ h.clauseCount
  c1 : h.clauseCount < 2 ^ 64
  x : if fmt = .cnf then h.extra = 0 else 0 ≤ h.extra ∧ h.extra < 2 ^ 64

theorem keyword_ne_nil (fmt : Format) : keyword fmt ≠ [] := by cases fmt <;> simp [keyword]

theorem nb_keyword (fmt : Format) (r : VBytes) : NB (keyword fmt ++ r) := by
  intro b hb
  cases fmt <;> simp [keyword] at hb <;> subst hb <;> rfl

theorem usize_fits (x : Int) (h0 : 0 ≤ x) (h1 : x < 2 ^ 64) : usizeTy.fits x = true := u64_fits x h0 h1

theorem word_ok' {N} (pat bl rest : VBytes) (hne : pat ≠ []) (hbl : AllBlank bl) (hnb : NB rest)
    (hwe : WE (bl ++ rest)) : Steps N (word pat) (some ()) (pat ++ (bl ++ rest)) rest :=
  (word_ok pat bl rest hne hbl hnb hwe).cast (by simp) rfl

theorem p_facts (T : VBytes) : NB ([112] ++ T) ∧ ([112] ++ T).head? ≠ some 99 ∧
    ([112] ++ T).head? ≠ some 10 ∧ ([112] ++ T).head? ≠ some 13 := by
  refine ⟨?_, by simp, by simp, by simp⟩
  intro x hx'; simp only [List.singleton_append, List.head?_cons, Option.some.injEq] at hx'
  subst hx'; rfl

theorem parseHeader_some {N} (fmt : Format) (l : LitTy) (hl2 : l.bits ≤ 64) (b : Blanks) (j : Junk)
    (hl : HeaderLayout) (h : Header) (R : VBytes) (hv : j.valid = true) (hh : HeaderOk fmt l h) :
    Steps N (parseHeader fmt l) (some h)
      (renderBlanks b ++ (renderJunk j ++ (renderHeader hl fmt h ++ R))) R := by
  obtain ⟨vc, cc, ex⟩ := h
  obtain ⟨v0, v1, c0, c1, hx⟩ := hh
  simp only at v0 v1 c0 c1 hx
  have heol : ∀ e : Eol, Steps N (orGiveUp interactiveEndOfLine unexpected) () (e.render ++ R) R :=
    fun e => Steps.orGiveUp (interactiveEndOfLine_ok e.render R (Or.inl (isEol_render e)))
  cases fmt with
  | cnf =>
    simp only [↓reduceIte] at hx
    subst hx
    unfold parseHeader renderHeader
    simp only [List.append_assoc, List.nil_append]
    obtain ⟨p1, p2, p3, p4⟩ := p_facts (hl.afterP.render ++ (keyword .cnf ++ (hl.afterFmt.render ++
      (intNumeral hl.zVars vc ++ (hl.afterVars.render ++ (intNumeral hl.zClauses cc ++
      (renderBlanks hl.beforeEol ++ (hl.eol.render ++ R))))))))
    refine Steps.bind (skipWhitespace_ok _ _ (allBlank_render b) (nb_junk j p1)) ?_
    refine Steps.get_bind ?_
    intro lr hlr
    refine Steps.bind (headerSkipLoop_ok j _ hv p1 p2 p3 p4 (lr.v.rest.length + 1)
      (by rw [hlr]; simp)) ?_
    refine Steps.bind (word_ok' [112] hl.afterP.render _ (by simp) (allBlank_render1 _)
      (nb_keyword _ _) (we_blank1 _ _)) ?_
    try simp only []
    refine Steps.bind (Steps.orGiveUp (word_ok' (keyword .cnf) hl.afterFmt.render _
      (keyword_ne_nil _) (allBlank_render1 _) (startsNum_intNumeral _ _ _).nb (we_blank1 _ _))) ?_
    refine Steps.bind (Steps.orGiveUp (varCount_ok l hl2 hl.zVars vc hl.afterVars.render _ v0 v1
      (allBlank_render1 _) (startsNum_intNumeral _ _ _).nb (we_blank1 _ _))) ?_
    refine Steps.bind (Steps.orGiveUp (uintCount_ok usizeTy (by decide) hl.zClauses cc
      (renderBlanks hl.beforeEol) _ c0 (usize_fits cc c0 c1) (allBlank_render _)
      (startsEol_eol _ _).line.nb (we_blanks _ (startsEol_eol _ _).we))) ?_
    try simp only []
    refine Steps.bind (Steps.pure _ _) ?_
    exact Steps.bind (heol _) (Steps.pure _ _)
  | wcnf =>
    simp only [reduceCtorEq, ↓reduceIte] at hx
    unfold parseHeader renderHeader
    simp only [List.append_assoc, List.nil_append]
    obtain ⟨p1, p2, p3, p4⟩ := p_facts (hl.afterP.render ++ (keyword .wcnf ++ (hl.afterFmt.render ++
      (intNumeral hl.zVars vc ++ (hl.afterVars.render ++ (intNumeral hl.zClauses cc ++
      (hl.afterClauses.render ++ (intNumeral hl.zExtra ex ++
      (renderBlanks hl.beforeEol ++ (hl.eol.render ++ R))))))))))
    refine Steps.bind (skipWhitespace_ok _ _ (allBlank_render b) (nb_junk j p1)) ?_
    refine Steps.get_bind ?_
    intro lr hlr
    refine Steps.bind (headerSkipLoop_ok j _ hv p1 p2 p3 p4 (lr.v.rest.length + 1)
      (by rw [hlr]; simp)) ?_
    refine Steps.bind (word_ok' [112] hl.afterP.render _ (by simp) (allBlank_render1 _)
      (nb_keyword _ _) (we_blank1 _ _)) ?_
    try simp only []
    refine Steps.bind (Steps.orGiveUp (word_ok' (keyword .wcnf) hl.afterFmt.render _
      (keyword_ne_nil _) (allBlank_render1 _) (startsNum_intNumeral _ _ _).nb (we_blank1 _ _))) ?_
    refine Steps.bind (Steps.orGiveUp (varCount_ok l hl2 hl.zVars vc hl.afterVars.render _ v0 v1
      (allBlank_render1 _) (startsNum_intNumeral _ _ _).nb (we_blank1 _ _))) ?_
    refine Steps.bind (Steps.orGiveUp (uintCount_ok usizeTy (by decide) hl.zClauses cc
      hl.afterClauses.render _ c0 (usize_fits cc c0 c1) (allBlank_render1 _)
      (startsNum_intNumeral _ _ _).nb (we_blank1 _ _))) ?_
    try simp only []
    refine Steps.bind (Steps.orGiveUp (uintCount_ok u64Ty (by decide) hl.zExtra ex
      (renderBlanks hl.beforeEol) _ hx.1 (u64_fits ex hx.1 hx.2) (allBlank_render _)
      (startsEol_eol _ _).line.nb (we_blanks _ (startsEol_eol _ _).we))) ?_
    exact Steps.bind (heol _) (Steps.pure _ _)
  | gcnf =>
    simp only [reduceCtorEq, ↓reduceIte] at hx
    unfold parseHeader renderHeader
    simp only [List.append_assoc, List.nil_append]
    obtain ⟨p1, p2, p3, p4⟩ := p_facts (hl.afterP.render ++ (keyword .gcnf ++ (hl.afterFmt.render ++
      (intNumeral hl.zVars vc ++ (hl.afterVars.render ++ (intNumeral hl.zClauses cc ++
      (hl.afterClauses.render ++ (intNumeral hl.zExtra ex ++
      (renderBlanks hl.beforeEol ++ (hl.eol.render ++ R))))))))))
    refine Steps.bind (skipWhitespace_ok _ _ (allBlank_render b) (nb_junk j p1)) ?_
    refine Steps.get_bind ?_
    intro lr hlr
    refine Steps.bind (headerSkipLoop_ok j _ hv p1 p2 p3 p4 (lr.v.rest.length + 1)
      (by rw [hlr]; simp)) ?_
    refine Steps.bind (word_ok' [112] hl.afterP.render _ (by simp) (allBlank_render1 _)
      (nb_keyword _ _) (we_blank1 _ _)) ?_
    try simp only []
    refine Steps.bind (Steps.orGiveUp (word_ok' (keyword .gcnf) hl.afterFmt.render _
      (keyword_ne_nil _) (allBlank_render1 _) (startsNum_intNumeral _ _ _).nb (we_blank1 _ _))) ?_
    refine Steps.bind (Steps.orGiveUp (varCount_ok l hl2 hl.zVars vc hl.afterVars.render _ v0 v1
      (allBlank_render1 _) (startsNum_intNumeral _ _ _).nb (we_blank1 _ _))) ?_
    refine Steps.bind (Steps.orGiveUp (uintCount_ok usizeTy (by decide) hl.zClauses cc
      hl.afterClauses.render _ c0 (usize_fits cc c0 c1) (allBlank_render1 _)
      (startsNum_intNumeral _ _ _).nb (we_blank1 _ _))) ?_
    try simp only []
    refine Steps.bind (Steps.orGiveUp (uintCount_ok usizeTy (by decide) hl.zExtra ex
      (renderBlanks hl.beforeEol) _ hx.1 (usize_fits ex hx.1 hx.2) (allBlank_render _)
      (startsEol_eol _ _).line.nb (we_blanks _ (startsEol_eol _ _).we))) ?_
    exact Steps.bind (heol _) (Steps.pure _ _)

/-! ### `Parser::new` -/

/-- The parser `Parser::new` builds from a header (a copy of the model's code). -/
def newParser (fmt : Format) (l : LitTy) (ignoreHeader : Bool) (h : Header) : Parser :=
  let p : Parser := { fmt, lit := l, litLimit := l.maxDimacs }
  let p := if ignoreHeader then p else
    let p := if h.varCount != 0 then { p with litLimit := h.varCount } else p
    let p := if h.clauseCount != 0 then { p with clauseLimit := h.clauseCount, clauseLimitActive := true } else p
    if fmt == .gcnf && h.extra != 0 then { p with groupLimit := h.extra } else p
  { p with header := some h }

theorem parserNew_none {N} (fmt : Format) (l : LitTy) (ign : Bool) (b : Blanks) (j : Junk)
    (X : VBytes) (hv : j.valid = true) (hX : NoHdr X) :
    Steps N (Parser.new fmt l ign) { fmt, lit := l, litLimit := l.maxDimacs }
      (renderBlanks b ++ (renderJunk j ++ X)) X := by
  unfold Parser.new
  exact Steps.bind (parseHeader_none fmt l b j X hv hX) (Steps.pure _ _)

theorem parserNew_some {N} (fmt : Format) (l : LitTy) (hl2 : l.bits ≤ 64) (ign : Bool) (b : Blanks)
    (j : Junk) (hl : HeaderLayout) (h : Header) (R : VBytes) (hv : j.valid = true)
    (hh : HeaderOk fmt l h) :
    Steps N (Parser.new fmt l ign) (newParser fmt l ign h)
      (renderBlanks b ++ (renderJunk j ++ (renderHeader hl fmt h ++ R))) R := by
  unfold Parser.new
  exact Steps.bind (parseHeader_some fmt l hl2 b j hl h R hv hh) (Steps.pure _ _)

/-! ### merging leading blanks / junk with those of the first clause (headerless documents) -/

theorem renderBlanks_append (a b : Blanks) :
    renderBlanks (a ++ b) = renderBlanks a ++ renderBlanks b := by simp [renderBlanks]

theorem merge_blank_junk (b2 : Blanks) (j2 : Junk) (h2 : j2.valid = true) :
    ∀ (j1 : Junk) (b1 : Blanks), j1.valid = true → ∃ (b : Blanks) (j : Junk), j.valid = true ∧
      renderBlanks b ++ renderJunk j =
        renderBlanks b1 ++ (renderJunk j1 ++ (renderBlanks b2 ++ renderJunk j2)) := by
  intro j1
  induction j1 with
  | nil =>
    intro b1 _
    exact ⟨b1 ++ b2, j2, h2, by simp [renderBlanks_append, renderJunk]⟩
  | cons x j1 ih =>
    obtain ⟨l, bb⟩ := x
    intro b1 h1
    obtain ⟨hl, hj⟩ := junk_valid_cons h1
    obtain ⟨b', j', hv', e'⟩ := ih bb hj
    refine ⟨b1, (l, b') :: j', ?_, ?_⟩
    · simp only [Junk.valid, List.all_cons, Bool.and_eq_true]
      exact ⟨hl, hv'⟩
    · simp only [renderJunk, List.append_assoc]
      rw [e']

/-! ### the whole document -/

theorem litWF_ok {l : LitTy} {limit x : Int} (h : LitWF l limit x) : LitOk l limit x :=
  ⟨h.1, h.2.1, h.2.2.1, h.2.2.2.1, h.2.2.2.2⟩

theorem drive_parseAll {N} (fmt : Format) (l : LitTy) (ign : Bool) (bytes : VBytes) (p : Parser)
    (R : VBytes) (cs : List Clause) (hlen : bytes.length = N) (hN : N < 2 ^ 64 - 1)
    (hnew : Steps N (Parser.new fmt l ign) p bytes R)
    (hdrive : ∀ lr : LR, Good N lr → lr.v.rest = R →
      ∃ lr', driveClauses (lr.v.rest.length + 2) p [] lr = (cs, none, lr')) :
    parseAll fmt l ign (LR.init bytes false) = { header := p.header, items := cs, final := none } := by
  have hg : Good N (LR.init bytes false) := by
    refine ⟨hN, rfl, rfl, ?_, ?_⟩
    · simp [LR.init, View.init]
    · simp [LR.init, View.init, hlen]
  obtain ⟨lr1, e1, g1, r1⟩ := hnew _ hg rfl
  obtain ⟨lr2, e2⟩ := hdrive lr1 g1 r1
  unfold parseAll
  rw [e1]
  simp only [e2]

/-- **Layout independence at the model level**: for every document in the domain, every fitting
layout, the parse of the rendered text is the document. -/
theorem parseAll_render (fmt : Format) (l : LitTy) (ign : Bool) (h : Option Header)
    (cs : List Clause) (ℓ : Layout) (hwf : CnfWF fmt l ign h cs) (hfit : ℓ.Fits cs)
    (hlen : (ℓ.render fmt h cs).length < 2 ^ 64 - 1) :
    parseAll fmt l ign (LR.init (ℓ.render fmt h cs) false) =
      { header := h, items := cs, final := none } := by
  obtain ⟨⟨hl1, hl2⟩, hwh, hwc, hwcs⟩ := hwf
  obtain ⟨fj, fc, ft⟩ := hfit
  cases h with
  | some hd =>
    -- with a header
    have hhd := hwh hd rfl
    have hok : HeaderOk fmt l hd := ⟨hhd.1, hhd.2.1, hhd.2.2.1, hhd.2.2.2.1, hhd.2.2.2.2⟩
    have hrender : ℓ.render fmt (some hd) cs = renderBlanks ℓ.lead ++ (renderJunk ℓ.junk ++
        (renderHeader ℓ.header fmt hd ++ renderClauses fmt ℓ.clauses cs ℓ.trailer)) := by
      simp [Layout.render]
    have hnew := parserNew_some (N := (ℓ.render fmt (some hd) cs).length) fmt l hl2 ign ℓ.lead ℓ.junk
      ℓ.header hd (renderClauses fmt ℓ.clauses cs ℓ.trailer) fj hok
    rw [← hrender] at hnew
    have hinv : PInv fmt l (newParser fmt l ign hd) cs := by
      have hcnt := hwc hd rfl
      refine ⟨?_, ?_, ?_, ?_⟩
      · unfold newParser; cases ign <;> simp <;> (repeat' split) <;> rfl
      · unfold newParser; cases ign <;> simp <;> (repeat' split) <;> rfl
      · intro c hc
        obtain ⟨htag, hlits⟩ := hwcs c hc
        have hll : (newParser fmt l ign hd).litLimit = litLimit l ign (some hd) := by
          unfold newParser litLimit; cases ign <;> simp <;> (repeat' split) <;> simp_all
        refine ⟨?_, fun x hx => by rw [hll]; exact litWF_ok (hlits x hx)⟩
        unfold TagWF at htag
        unfold TagOk
        cases fmt with
        | cnf => simpa using htag
        | wcnf => simp only [reduceCtorEq, ↓reduceIte] at htag; exact ⟨htag.1, htag.2.1⟩
        | gcnf =>
          simp only [reduceCtorEq, ↓reduceIte, forall_const] at htag
          refine ⟨htag.1, htag.2.1, ?_⟩
          have hgl : (newParser .gcnf l ign hd).groupLimit = groupLimit ign (some hd) := by
            unfold newParser groupLimit; cases ign <;> simp <;> (repeat' split) <;> simp_all [PM.usizeMax]
          rw [hgl]; exact htag.2.2
      · intro hact
        have : ign = false ∧ hd.clauseCount ≠ 0 ∧
            (newParser fmt l ign hd).clauseLimit = hd.clauseCount ∧
            (newParser fmt l ign hd).clauseCount = 0 := by
          revert hact
          unfold newParser; cases ign <;> simp <;> (repeat' split) <;> simp_all
        obtain ⟨h1, h2, h3, h4⟩ := this
        rw [h3, h4]
        rcases hcnt with hcnt | hcnt | hcnt
        · rw [h1] at hcnt; cases hcnt
        · exact absurd hcnt h2
        · simpa using hcnt
    have hhdr : (newParser fmt l ign hd).header = some hd := by
      unfold newParser; cases ign <;> simp
    rw [← hhdr]
    refine drive_parseAll fmt l ign _ _ _ cs rfl hlen hnew ?_
    intro lr hg hr
    have := driveClauses_ok (N := (ℓ.render fmt (some hd) cs).length) fmt l hl1 hl2 ℓ.trailer ft
      ℓ.clauses cs fc (newParser fmt l ign hd) [] lr _ hinv hg hr (Nat.le_refl _)
    simpa using this
  | none =>
    -- headerless
    have hinv : PInv fmt l { fmt, lit := l, litLimit := l.maxDimacs } cs := by
      refine ⟨rfl, rfl, ?_, fun h => by simp at h⟩
      intro c hc
      obtain ⟨htag, hlits⟩ := hwcs c hc
      refine ⟨?_, fun x hx => litWF_ok (hlits x hx)⟩
      unfold TagWF at htag
      unfold TagOk
      cases fmt with
      | cnf => simpa using htag
      | wcnf => simp only [reduceCtorEq, ↓reduceIte] at htag; exact ⟨htag.1, htag.2.1⟩
      | gcnf =>
        simp only [reduceCtorEq, ↓reduceIte, forall_const] at htag
        refine ⟨htag.1, htag.2.1, ?_⟩
        have := htag.2.2
        simp only [groupLimit] at this
        simp only [PM.usizeMax]
        omega
    cases hcs : cs with
    | nil =>
      subst hcs
      have hcls : ℓ.clauses = [] := by
        cases hc : ℓ.clauses with
        | nil => rfl
        | cons a t => rw [hc] at fc; exact absurd fc (by simp [FitsClauses])
      have hrender : ℓ.render fmt none [] = renderBlanks ℓ.lead ++ (renderJunk ℓ.junk ++ []) := by
        simp [Layout.render, hcls, renderClauses, renderTrailer]
      have hnew := parserNew_none (N := (ℓ.render fmt none []).length) fmt l ign ℓ.lead ℓ.junk [] fj
        NoHdr.nil
      rw [← hrender] at hnew
      refine drive_parseAll fmt l ign _ _ _ [] rfl hlen hnew ?_
      intro lr hg hr
      have := driveClauses_ok (N := (ℓ.render fmt none []).length) fmt l hl1 hl2 none rfl
        [] [] trivial _ [] lr _ hinv hg (by rw [hr]; rfl) (Nat.le_refl _)
      simpa using this
    | cons c cs' =>
      subst hcs
      obtain ⟨cl, cls, hcls⟩ : ∃ cl cls, ℓ.clauses = cl :: cls := by
        cases hc : ℓ.clauses with
        | nil => rw [hc] at fc; exact absurd fc (by simp [FitsClauses])
        | cons a t => exact ⟨a, t, rfl⟩
      rw [hcls] at fc
      obtain ⟨flen, fv, fcs⟩ := fc
      obtain ⟨fvj, _, _⟩ := clauseLayout_valid fv
      obtain ⟨b', j', hv', e'⟩ := merge_blank_junk cl.pre cl.junk fvj ℓ.junk ℓ.lead fj
      -- the text behind the merged blanks and junk: the first clause without its own
      let cl0 : ClauseLayout := { cl with pre := [], junk := [] }
      have hcore : renderClauses fmt (cl :: cls) (c :: cs') ℓ.trailer =
          renderBlanks cl.pre ++ (renderJunk cl.junk ++
            renderClauses fmt (cl0 :: cls) (c :: cs') ℓ.trailer) := by
        rw [renderClauses_cons, renderClauses_cons]
        simp [cl0, renderBlanks, renderJunk, coreText, renderTag]
      have hX : NoHdr (renderClauses fmt (cl0 :: cls) (c :: cs') ℓ.trailer) := by
        rw [renderClauses_cons]
        simp only [cl0, renderBlanks, renderJunk, List.map_nil, List.nil_append]
        exact NoHdr.of_core (startsCore_coreText fmt _ c _)
      have hrender : ℓ.render fmt none (c :: cs') = renderBlanks b' ++ (renderJunk j' ++
          renderClauses fmt (cl0 :: cls) (c :: cs') ℓ.trailer) := by
        simp only [Layout.render, hcls, Option.isNone_none, List.isEmpty_cons, Bool.and_false,
          Bool.false_eq_true, ↓reduceIte, List.append_nil, hcore]
        rw [← List.append_assoc (renderBlanks b'), e']
        simp only [List.append_assoc]
      have hnew := parserNew_none (N := (ℓ.render fmt none (c :: cs')).length) fmt l ign b' j' _ hv' hX
      rw [← hrender] at hnew
      refine drive_parseAll fmt l ign _ _ _ (c :: cs') rfl hlen hnew ?_
      intro lr hg hr
      have hfit0 : FitsClauses (cl0 :: cls) (c :: cs') := by
        refine ⟨flen, ?_, fcs⟩
        have := clauseLayout_valid fv
        simp only [ClauseLayout.valid, cl0, Junk.valid, List.all_nil, Bool.true_and, Bool.and_eq_true]
        exact ⟨this.2.1, this.2.2⟩
      have := driveClauses_ok (N := (ℓ.render fmt none (c :: cs')).length) fmt l hl1 hl2 ℓ.trailer ft
        (cl0 :: cls) (c :: cs') hfit0 _ [] lr _ hinv hg hr (Nat.le_refl _)
      simpa using this

end Flussab.CnfP
