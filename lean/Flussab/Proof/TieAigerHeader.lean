/-
Proofs of the tie between the generated `Header::parse` of the AIGER parsers (`Gen/AigerHeaderAsciiGen.lean`,
`Gen/AigerHeaderBinaryGen.lean`, from `flussab-aiger/src/ascii.rs` / `binary.rs`) and `Aiger.Header.parse`
(`Model/Aiger.lean`).  Statements: `Props/TieAigerHeader.lean`.
-/
import Flussab.Gen.AigerHeaderAsciiGen
import Flussab.Gen.AigerHeaderBinaryGen
import Flussab.Proof.TieAigerToken

namespace Flussab
namespace TieAigerHeaderAux
open PM TieLineReaderAux TieAigerTokenAux

theorem errorAtMark_apply {α : Type} (lr : LR) : ∃ e s, (Aiger.errorAtMark : PM α) lr = (.error e, s) := by
  have h : (Aiger.errorAtMark : PM α) lr = (PM.giveUpAt lr.v.mark : PM α) lr := by
    unfold Aiger.errorAtMark
    rw [PM.bind_apply]
    rfl
  rw [h, giveUpAt_apply]
  exact ⟨_, _, rfl⟩

/-- What `header_field` returns is within the limit it was called with. -/
theorem headerField_le (limit : Nat) (lr : LR) (v : Nat) (s : LR)
    (h : Aiger.headerField limit lr = (.ok v, s)) : v ≤ limit := by
  unfold Aiger.headerField at h
  rw [PM.bind_apply] at h
  have hm : (PM.setMark : PM Unit) lr = (.ok (), { lr with v := lr.v.setMark }) := rfl
  rw [hm] at h
  simp only at h
  rw [PM.bind_apply] at h
  rcases hu : Aiger.uint { lr with v := lr.v.setMark } with ⟨r, s1⟩
  rw [hu] at h
  cases r with
  | error e => cases h
  | ok u =>
    cases u with
    | bad =>
      simp only at h
      obtain ⟨e, s2, he⟩ := errorAtMark_apply (α := Nat) s1
      rw [he] at h; cases h
    | fall =>
      simp only at h
      rw [unexpected_apply] at h; cases h
    | ok count =>
      simp only at h
      by_cases hc : count > limit
      · simp only [hc, if_true] at h
        obtain ⟨e, s2, he⟩ := errorAtMark_apply (α := Nat) s1
        rw [he] at h; cases h
      · simp only [hc, if_false] at h
        cases h
        omega

theorem bind_congr_post {α β : Type} (x : PM α) (P : α → Prop)
    (hP : ∀ lr a s, x lr = (.ok a, s) → P a) (f g : α → PM β) (hfg : ∀ a, P a → f a = g a) :
    (x >>= f) = (x >>= g) := by
  funext lr
  rw [PM.bind_apply, PM.bind_apply]
  rcases hx : x lr with ⟨r, s⟩
  cases r with
  | error e => rfl
  | ok a => simp only; rw [hfg a (hP lr a s hx)]

theorem usub_eq_checkedSub (site : String) (a b : Nat) (h : b ≤ a) : PMExt.usub a b = Aiger.checkedSub site a b := by
  unfold PMExt.usub Aiger.checkedSub
  have : ¬ b > a := by omega
  simp [h, this]

theorem pm_bind_congr {α β : Type} {x : PM α} {f g : α → PM β} (h : ∀ a, f a = g a) :
    (x >>= f) = (x >>= g) := by
  funext lr; rw [PM.bind_apply, PM.bind_apply]; rcases x lr with ⟨r, s⟩; cases r <;> simp [h]

theorem unexpected_bind_h {α β : Type} (f : α → PM β) : ((Aiger.unexpected : PM α) >>= f) = Aiger.unexpected := by
  funext lr
  rw [PM.bind_apply, unexpected_apply, unexpected_apply]

/-- The optional counts (`loop { … break }`), as the four values the generated loop leaves. -/
theorem optional_eq (l : Aiger.LitTy) (h : Aiger.Header)
    (hb : h.badCount = 0) (hc : h.constraintCount = 0) (hj : h.justiceCount = 0) (hf : h.fairnessCount = 0) :
    (Gen.AigerHeaderAscii.parse.loop1 l 1 (0, 0, 0, 0) >>= fun r =>
      match r with
      | Ctl.ret v => pure v
      | Ctl.fuel => PM.rpanic "generated"
      | Ctl.brk (b, c, j, f) => pure ({ h with badCount := b, constraintCount := c, justiceCount := j, fairnessCount := f } : Aiger.Header))
    = Aiger.headerOptional h := by
  rcases h with ⟨mv, ic, lc, oc, ag, b0, c0, j0, f0⟩
  simp only at hb hc hj hf
  subst hb hc hj hf
  rw [Gen.AigerHeaderAscii.parse.loop1]
  unfold Aiger.headerOptional
  simp only [bind_assoc]
  congr 1; funext t1
  cases t1
  · simp
  · simp only [Bool.not_true, Bool.false_eq_true, if_false, bind_assoc]
    congr 1; funext b
    congr 1; funext t2
    cases t2
    · simp
    · simp only [Bool.not_true, Bool.false_eq_true, if_false, bind_assoc]
      congr 1; funext c
      congr 1; funext t3
      cases t3
      · simp
      · simp only [Bool.not_true, Bool.false_eq_true, if_false, bind_assoc]
        congr 1; funext j
        congr 1; funext t4
        cases t4
        · simp
        · simp only [Bool.not_true, Bool.false_eq_true, if_false, bind_assoc]
          congr 1

theorem headerAscii_eq (l : Aiger.LitTy) (hl : 1 ≤ l.maxCode) :
    Gen.AigerHeaderAscii.parse l = Aiger.Header.parse false l := by
  unfold Gen.AigerHeaderAscii.parse Aiger.Header.parse PM.orGiveUp
  have hmagic : Aiger.magic false = [97, 97, 103] := rfl
  have husub : (PMExt.usub l.maxCode 1 : PM Nat) = pure (l.maxCode - 1) := by
    unfold PMExt.usub; simp [hl]
  simp only [hmagic, husub, bind_assoc, pure_bind]
  apply pm_bind_congr; intro t1
  rcases t1 with _ | u
  · simp only [AigerTokenExt.orGiveUp, unexpected_bind_h]
  simp only [AigerTokenExt.orGiveUp, pure_bind]
  apply pm_bind_congr; intro _
  apply pm_bind_congr; intro mv
  apply pm_bind_congr; intro _
  refine bind_congr_post _ (fun ic => ic ≤ mv) (fun lr a s h => headerField_le mv lr a s h) _ _ ?_
  intro ic hic
  rw [usub_eq_checkedSub "limit -= input_count" mv ic hic]
  apply pm_bind_congr; intro lim1
  apply pm_bind_congr; intro _
  refine bind_congr_post _ (fun lc => lc ≤ lim1) (fun lr a s h => headerField_le lim1 lr a s h) _ _ ?_
  intro lc hlc
  rw [usub_eq_checkedSub "limit -= latch_count" lim1 lc hlc]
  apply pm_bind_congr; intro lim2
  apply pm_bind_congr; intro _
  apply pm_bind_congr; intro oc
  apply pm_bind_congr; intro _
  apply pm_bind_congr; intro ag
  have := optional_eq l ({ maxVarIndex := mv, inputCount := ic, latchCount := lc, outputCount := oc, andGateCount := ag } : Aiger.Header) rfl rfl rfl rfl
  rw [← this]
  apply pm_bind_congr; intro r
  rcases r with ⟨b, c, j, f⟩ | v | _ <;> rfl

/-- The optional counts (`loop { … break }`), as the four values the generated loop leaves. -/
theorem optional_eq_bin (l : Aiger.LitTy) (h : Aiger.Header)
    (hb : h.badCount = 0) (hc : h.constraintCount = 0) (hj : h.justiceCount = 0) (hf : h.fairnessCount = 0) :
    (Gen.AigerHeaderBinary.parse.loop1 l 1 (0, 0, 0, 0) >>= fun r =>
      match r with
      | Ctl.ret v => pure v
      | Ctl.fuel => PM.rpanic "generated"
      | Ctl.brk (b, c, j, f) => pure ({ h with badCount := b, constraintCount := c, justiceCount := j, fairnessCount := f } : Aiger.Header))
    = Aiger.headerOptional h := by
  rcases h with ⟨mv, ic, lc, oc, ag, b0, c0, j0, f0⟩
  simp only at hb hc hj hf
  subst hb hc hj hf
  rw [Gen.AigerHeaderBinary.parse.loop1]
  unfold Aiger.headerOptional
  simp only [bind_assoc]
  congr 1; funext t1
  cases t1
  · simp
  · simp only [Bool.not_true, Bool.false_eq_true, if_false, bind_assoc]
    congr 1; funext b
    congr 1; funext t2
    cases t2
    · simp
    · simp only [Bool.not_true, Bool.false_eq_true, if_false, bind_assoc]
      congr 1; funext c
      congr 1; funext t3
      cases t3
      · simp
      · simp only [Bool.not_true, Bool.false_eq_true, if_false, bind_assoc]
        congr 1; funext j
        congr 1; funext t4
        cases t4
        · simp
        · simp only [Bool.not_true, Bool.false_eq_true, if_false, bind_assoc]
          congr 1

theorem headerBinary_eq (l : Aiger.LitTy) (hl : 1 ≤ l.maxCode) :
    Gen.AigerHeaderBinary.parse l = Aiger.Header.parse true l := by
  unfold Gen.AigerHeaderBinary.parse Aiger.Header.parse PM.orGiveUp
  have hmagic : Aiger.magic true = [97, 105, 103] := rfl
  have husub : (PMExt.usub l.maxCode 1 : PM Nat) = pure (l.maxCode - 1) := by
    unfold PMExt.usub; simp [hl]
  simp only [hmagic, husub, bind_assoc, pure_bind]
  apply pm_bind_congr; intro t1
  rcases t1 with _ | u
  · simp only [AigerTokenExt.orGiveUp, unexpected_bind_h]
  simp only [AigerTokenExt.orGiveUp, pure_bind]
  apply pm_bind_congr; intro _
  apply pm_bind_congr; intro mv
  apply pm_bind_congr; intro _
  refine bind_congr_post _ (fun ic => ic ≤ mv) (fun lr a s h => headerField_le mv lr a s h) _ _ ?_
  intro ic hic
  rw [usub_eq_checkedSub "limit -= input_count" mv ic hic]
  apply pm_bind_congr; intro lim1
  apply pm_bind_congr; intro _
  refine bind_congr_post _ (fun lc => lc ≤ lim1) (fun lr a s h => headerField_le lim1 lr a s h) _ _ ?_
  intro lc hlc
  rw [usub_eq_checkedSub "limit -= latch_count" lim1 lc hlc]
  apply pm_bind_congr; intro lim2
  apply pm_bind_congr; intro _
  apply pm_bind_congr; intro oc
  apply pm_bind_congr; intro _
  apply pm_bind_congr; intro ag
  have := optional_eq_bin l ({ maxVarIndex := mv, inputCount := ic, latchCount := lc, outputCount := oc, andGateCount := ag } : Aiger.Header) rfl rfl rfl rfl
  rw [← this]
  apply pm_bind_congr; intro r
  rcases r with ⟨b, c, j, f⟩ | v | _ <;> rfl

end TieAigerHeaderAux
end Flussab
