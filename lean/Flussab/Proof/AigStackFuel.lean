/-
C12, explicit stack: an explicit bound on the number of loop iterations of `Renumber::transfer`.

`transferCost` (the exact iteration count of a call, `Proof/AigStack.lean`) is bounded through the
invariants of the recursive model: a successful call costs `6·(new lit_map entries) + 1`; a failing
call costs at most `6·(entries still missing) + 4·(stack slots still free) + 1`, where the stack
never holds more than `2·gates + 1` continuations (`PathInv.length_le`, the mid-stack test) and the
`lit_map` never more than one entry per defined variable (`CountInv`).  Hence `14·gates + 6`
iterations suffice for every call made by `initialize`.
-/
import Flussab.Proof.AigStack
import Flussab.Proof.AigCount

namespace Flussab.Aig

/-! ### `State::Input1` adds exactly one `lit_map` entry -/

theorem finish_length (cfg : Config) (st : St) (lit out t0 t1 : Nat) :
    (finish cfg st lit out t0 t1).2.litMap.length = st.litMap.length + 1 := by
  unfold finish
  rcases sort2 t0 t1 with ⟨x, y⟩
  simp only
  split
  · rfl
  · split
    · split
      · rfl
      · rfl
    · rfl

/-- A successful call takes `6·(new entries) + 1` iterations. -/
theorem transferCost_ok (cfg : Config) (defs : Defs) :
    ∀ (fuel : Nat) (path : List Nat) (st : St) (lit t : Nat) (st' : St),
      transfer cfg defs fuel path st lit = .ok (t, st') →
      transferCost cfg defs fuel path st lit + 6 * st.litMap.length = 6 * st'.litMap.length + 1 := by
  intro fuel
  induction fuel with
  | zero => intro path st lit t st' h; simp [transfer] at h
  | succ fuel ih =>
    intro path st lit t st' h
    cases hget : st.litMap.get lit with
    | some t' =>
      rw [transfer_hit _ _ _ _ _ _ hget] at h
      injection h with h; injection h with _ e2; subst e2
      rw [transferCost_hit _ _ _ _ _ _ hget]; omega
    | none =>
      by_cases hc : path[path.length / 2]? = some lit
      · rw [transfer_cycle _ _ _ _ _ _ hget hc] at h; exact absurd h (by simp)
      · cases hfd : findDef defs lit with
        | none => rw [transfer_undef _ _ _ _ _ _ hget hc hfd] at h; exact absurd h (by simp)
        | some d =>
          rw [transfer_miss _ _ _ _ _ _ hget hc hfd] at h
          rw [transferCost_miss _ _ _ _ _ _ hget hc hfd]
          cases e0 : transfer cfg defs fuel (path ++ [lit]) st d.in0 with
          | outOfFuel => rw [e0] at h; exact absurd h (by simp)
          | error e => rw [e0] at h; exact absurd h (by simp)
          | ok r0 =>
            obtain ⟨t0, st1⟩ := r0
            rw [e0] at h
            simp only at h ⊢
            cases e1 : transfer cfg defs fuel (path ++ [lit]) st1 d.in1 with
            | outOfFuel => rw [e1] at h; exact absurd h (by simp)
            | error e => rw [e1] at h; exact absurd h (by simp)
            | ok r1 =>
              obtain ⟨t1, st2⟩ := r1
              rw [e1] at h
              simp only at h ⊢
              injection h with h
              have hst : st' = (finish cfg st2 lit d.out t0 t1).2 := by rw [h]
              have := ih _ _ _ _ _ e0
              have := ih _ _ _ _ _ e1
              have := finish_length cfg st2 lit d.out t0 t1
              rw [hst]
              omega

/-! ### the `lit_map` holds at most one entry per defined variable -/

theorem definedVars_length (a : Aig) :
    (definedVars a).length = 1 + a.inputs.length + a.gates.length + a.latches.length := by
  simp [definedVars, definedLits]; omega

theorem litMap_length_le {a : Aig} {st : St} (hi : Inv a st) (hc : CountInv st) :
    st.litMap.length ≤ (definedVars a).length := by
  have hsub : ∀ v ∈ (keysOf st.litMap).map (· / 2), v ∈ definedVars a := by
    intro v hv
    simp only [keysOf, List.map_map, List.mem_map, Function.comp] at hv
    obtain ⟨⟨k, w⟩, hm, rfl⟩ := hv
    exact (hi.mapGround k w hm).defined
  have hlen := hc.nodup.length_le_of_subset hsub
  simp only [keysOf, List.length_map] at hlen
  exact hlen

theorem litMap_length_ge {a : Aig} {st : St} (hi : Inv a st) (hc : CountInv st) :
    a.inputs.length + a.latches.length + 1 ≤ st.litMap.length := by
  have h1 := hc.count
  have h2 := hi.code
  omega

/-! ### a failing call -/

/-- A failing call takes at most `6·(entries still missing) + 4·(stack slots still free) + 1`
iterations (written additively). -/
theorem transferCost_err_le {a : Aig} {defs : Defs} (hd : DefsOk a defs) (hf : DefsFull a defs)
    (hn : (definedVars a).Nodup) (cfg : Config) :
    ∀ (fuel : Nat) (path : List Nat) (st : St) (lit : Nat) (e : Err), Inv a st → CountInv st →
      PathInv a defs path lit st → transfer cfg defs fuel path st lit = .error e →
      transferCost cfg defs fuel path st lit + 6 * st.litMap.length + 4 * path.length ≤
        6 * (definedVars a).length + 4 * (2 * a.gates.length + 1) + 1 := by
  intro fuel
  induction fuel with
  | zero => intro path st lit e _ _ _ h; simp [transfer] at h
  | succ fuel ih =>
    intro path st lit e hinv hcnt hp h
    have hlen := litMap_length_le hinv hcnt
    have hplen := hp.length_le hd hf hn
    cases hget : st.litMap.get lit with
    | some t' => rw [transfer_hit _ _ _ _ _ _ hget] at h; exact absurd h (by simp)
    | none =>
      have hnk : ¬ st.litMap.HasKey lit := (LitMap.get_none_iff _ _).mp hget
      by_cases hnc : path[path.length / 2]? = some lit
      · rw [transferCost_cycle _ _ _ _ _ _ hget hnc]; omega
      · cases hfd : findDef defs lit with
        | none => rw [transferCost_undef _ _ _ _ _ _ hget hnc hfd]; omega
        | some d =>
          rw [transfer_miss _ _ _ _ _ _ hget hnc hfd] at h
          rw [transferCost_miss _ _ _ _ _ _ hget hnc hfd]
          obtain ⟨hmem, hl⟩ := findDef_mem hd hfd
          have hnokey0 : ∀ p ∈ path ++ [lit], ¬ st.litMap.HasKey p := by
            intro p hpm
            rcases List.mem_append.mp hpm with hpm | hpm
            · exact hp.nokey p hpm
            · simp only [List.mem_singleton] at hpm; subst hpm; exact hnk
          have p1 := hp.snoc hnk hnc hmem hl d.in0 (Or.inl rfl) st (fun _ h => h) hnokey0
            (fun hk => ⟨d, hfd, Or.inl ⟨rfl, hk⟩⟩)
          have hlen1 : (path ++ [lit]).length = path.length + 1 := by simp
          cases e0 : transfer cfg defs fuel (path ++ [lit]) st d.in0 with
          | outOfFuel => rw [e0] at h; exact absurd h (by simp)
          | error e' =>
            simp only
            have := ih _ _ _ e' hinv hcnt p1 e0
            rw [hlen1] at this
            omega
          | ok r0 =>
            obtain ⟨t0, st1⟩ := r0
            rw [e0] at h
            simp only at h ⊢
            have post0 := transfer_post hd cfg _ _ _ _ _ _ hinv e0
            have cnt1 := transfer_count hd hn cfg _ _ _ _ _ _ hinv hcnt e0
            have hnokey1 : ∀ p ∈ path ++ [lit], ¬ st1.litMap.HasKey p := by
              intro p hpm hk1
              rcases transfer_newkeys hd cfg _ _ _ _ _ _ e0 p hk1 with hk | hk
              · exact hnokey0 p hpm hk
              · have hgr := post0.inv.key_ground hk1
                have hdp := p1.dep p hpm
                have hcyc : DepPlus a (p / 2) (p / 2) := by
                  rcases hk with hk | hk
                  · rw [hk] at hdp; exact hdp
                  · exact hdp.trans hk
                exact hgr.not_onCycle hn hcyc
            have p2 := hp.snoc hnk hnc hmem hl d.in1 (Or.inr rfl) st1 post0.ext.keys hnokey1
              (fun _ => ⟨d, hfd, Or.inr ⟨rfl, post0.key⟩⟩)
            have c0 := transferCost_ok cfg defs _ _ _ _ _ _ e0
            cases e1 : transfer cfg defs fuel (path ++ [lit]) st1 d.in1 with
            | outOfFuel => rw [e1] at h; exact absurd h (by simp)
            | ok r1 => rw [e1] at h; exact absurd h (by simp)
            | error e' =>
              simp only
              have := ih _ _ _ e' post0.inv cnt1 p2 e1
              rw [hlen1] at this
              omega

/-- Loop iterations that suffice for one `transfer` call of `initialize`. -/
theorem transferCost_top_le {a : Aig} {defs : Defs} (hd : DefsOk a defs) (hf : DefsFull a defs)
    (hn : (definedVars a).Nodup) (cfg : Config) (fuel : Nat) (st : St) (lit : Nat)
    (hinv : Inv a st) (hcnt : CountInv st) (hne : transfer cfg defs fuel [] st lit ≠ .outOfFuel) :
    transferCost cfg defs fuel [] st lit + 1 ≤ 14 * a.gates.length + 6 := by
  have hge := litMap_length_ge hinv hcnt
  have hT := definedVars_length a
  cases e : transfer cfg defs fuel [] st lit with
  | outOfFuel => exact absurd e hne
  | error err =>
    have := transferCost_err_le hd hf hn cfg fuel [] st lit err hinv hcnt (PathInv.nil a defs lit st) e
    simp only [List.length_nil] at this
    omega
  | ok r =>
    obtain ⟨t, st'⟩ := r
    have c := transferCost_ok cfg defs _ _ _ _ _ _ e
    have post := transfer_post hd cfg _ _ _ _ _ _ hinv e
    have cnt' := transfer_count hd hn cfg _ _ _ _ _ _ hinv hcnt e
    have := litMap_length_le post.inv cnt'
    omega

end Flussab.Aig
