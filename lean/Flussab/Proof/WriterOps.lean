/-
L4 proofs, operation level: one step of `DeferredWriter` seen from the sink.
-/
import Flussab.Proof.Writer

namespace Flussab
namespace Writer
open Sink

/-- The bytes an op adds to the written stream, given the state it is applied to (a `ptr` op
writes only if the pointer is non-null, i.e. if there is room). -/
def Op.bytes (w : Writer) : Op → WBytes
  | .write bs => bs
  | .digits _ _ x => intDigits x
  | .ptr len bs => if w.buf.length + len ≤ w.cap then bs.take len else []
  | _ => []

/-- Ops inside the property's domain: the integer passed to `ascii_digits` is a value of the
type it is written as, so its text is at most `MAX_LEN` bytes long (`Flussab.C11.digits_fit`). -/
def Op.Valid : Op → Prop
  | .digits sg bits x => (intDigits x).length ≤ maxLen sg bits
  | _ => True

/-- The error flag an op reports to its caller (`flush`, `check_io_error`); other ops never
report. -/
def Op.reported (op : Op) (r : Bool) : Bool :=
  match op with
  | .flush => r
  | .check => r
  | _ => false

/-- One step on a sink that never panics.  `d` is what the sink received during the step. -/
structure Step (w w' : Writer) (bs : WBytes) (reported : Bool := false) : Prop where
  cap : w'.cap = w.cap
  inv : w'.buf.length ≤ w'.cap
  noPanic : w'.sink.NoPanic
  unpanicked : w'.panicked = false
  grow : ∃ d, w'.sink.sunk = w.sink.sunk ++ d ∧ (d ++ w'.buf).Sublist (w.buf ++ bs) ∧
    (reported = false → w'.ioError = false → w.ioError = false → d ++ w'.buf = w.buf ++ bs)
  parked : w.ioError = true → w'.sink = w.sink ∧ (reported = false → w'.ioError = true)
  sched : ∃ q, w.sink.sched = q ++ w'.sink.sched

theorem sublist_prefix_append {p b : WBytes} (h : p <+: b) (x : WBytes) : (p ++ x).Sublist (b ++ x) := by
  obtain ⟨t, rfl⟩ := h
  rw [List.append_assoc]
  exact List.Sublist.append (List.Sublist.refl p) (List.sublist_append_right t x)

/-- `flush_defer_err` on a sink that never panics. -/
theorem flushDeferErr_spec (w : Writer) (hnp : w.sink.NoPanic) (hinv : w.buf.length ≤ w.cap) :
    ∃ w', w.flushDeferErr = (some (), w') ∧ w'.buf = [] ∧ w'.cap = w.cap ∧ w'.sink.NoPanic ∧
      (∃ q, w.sink.sched = q ++ w'.sink.sched) ∧
      (w.ioError = true → w'.sink = w.sink ∧ w'.ioError = true ∧ w'.panicked = w.panicked) ∧
      (w.ioError = false → w'.panicked = false ∧ ∃ p, p <+: w.buf ∧ w'.sink.sunk = w.sink.sunk ++ p ∧
        (w'.ioError = false → p = w.buf) ∧ (w.sink.Good → w'.ioError = false)) := by
  unfold flushDeferErr
  cases he : w.ioError
  · simp only [Bool.not_false, ↓reduceIte]
    obtain ⟨p, hp, h1, h2, h3, _⟩ := writeAll_spec w.sink w.buf
    have hnpan := writeAll_noPanic w.sink w.buf hnp
    have hgood := writeAll_good w.sink w.buf
    generalize w.sink.writeAll w.buf = r at *
    obtain ⟨res, s⟩ := r
    cases res with
    | panic => exact absurd rfl hnpan
    | err =>
      exact ⟨_, rfl, rfl, rfl, hnp.of_suffix h3, h3, fun h => by simp at h,
        fun _ => ⟨rfl, p, hp, h1, fun h => by simp at h, fun hg => by have := hgood hg; simp at this⟩⟩
    | ok =>
      exact ⟨_, rfl, rfl, rfl, hnp.of_suffix h3, h3, fun h => by simp at h,
        fun _ => ⟨rfl, p, hp, h1, fun _ => h2 rfl, fun _ => rfl⟩⟩
  · simp only [Bool.not_true, Bool.false_eq_true, ↓reduceIte]
    exact ⟨_, rfl, rfl, rfl, hnp, ⟨[], rfl⟩, fun _ => ⟨rfl, rfl, rfl⟩, fun h => by simp at h⟩

theorem sublist_suffix (a b : WBytes) (k : Nat) : (b.drop k).Sublist (a ++ b) :=
  (List.drop_sublist k b).trans (List.sublist_append_right a b)

/-- `write_all_defer_err` on a sink that never panics. -/
theorem write_spec (w : Writer) (bs : WBytes) (hnp : w.sink.NoPanic) (hinv : w.buf.length ≤ w.cap)
    (hup : w.panicked = false) :
    ∃ w', w.writeAllDeferErr bs = (some (), w') ∧ Step w w' bs ∧ (w.sink.Good → w.ioError = false → w'.ioError = false) := by
  unfold writeAllDeferErr
  by_cases hfast : w.buf.length + bs.length ≤ w.cap
  · simp only [hfast, ↓reduceIte]
    refine ⟨_, rfl, ?_, fun _ h => h⟩
    exact { cap := rfl, inv := by simpa using hfast, noPanic := hnp, unpanicked := hup,
            grow := ⟨[], by simp, by simp, fun _ _ _ => by simp⟩,
            parked := fun h => ⟨rfl, fun _ => h⟩, sched := ⟨[], rfl⟩ }
  · simp only [hfast, ↓reduceIte]
    unfold writeCold
    by_cases hsmall : bs.length < w.cap
    · -- fill up, flush, keep the remainder
      simp only [hsmall, ↓reduceIte]
      have hfill : (w.buf ++ bs.take (w.cap - w.buf.length)).length ≤ w.cap := by
        simp only [List.length_append, List.length_take]; omega
      obtain ⟨w2, e2, hb2, hc2, hn2, hs2, hpark, hlive⟩ :=
        flushDeferErr_spec { w with buf := w.buf ++ bs.take (w.cap - w.buf.length) } hnp hfill
      rw [e2]
      have hrem : (bs.drop (w.cap - w.buf.length)).length < w2.cap := by
        rw [hc2]; simp only [List.length_drop]; omega
      simp only [hrem, ↓reduceIte]
      refine ⟨_, rfl, ?_, ?_⟩
      · refine { cap := hc2, inv := by simp only [hb2, List.nil_append]; omega, noPanic := hn2,
                 unpanicked := ?_, grow := ?_, parked := ?_, sched := hs2 }
        · cases he : w.ioError
          · exact (hlive he).1
          · rw [(hpark he).2.2]; exact hup
        · cases he : w.ioError
          · obtain ⟨_, p, hp, h1, h2, _⟩ := hlive he
            refine ⟨p, h1, ?_, ?_⟩
            · simp only [hb2, List.nil_append]
              have := sublist_prefix_append hp (bs.drop (w.cap - w.buf.length))
              simpa [List.append_assoc] using this
            · intro _ hno _
              simp only [hb2, List.nil_append]
              rw [h2 hno, List.append_assoc, List.take_append_drop]
          · obtain ⟨hs, hi, _⟩ := hpark he
            refine ⟨[], by simp [hs], ?_, fun _ h => by simp only at h; rw [hi] at h; simp at h⟩
            simp only [hb2, List.nil_append]
            exact sublist_suffix _ _ _
        · intro he
          obtain ⟨hs, hi, _⟩ := hpark he
          exact ⟨hs, fun _ => hi⟩
      · intro hg he
        obtain ⟨_, p, _, _, _, h⟩ := hlive he
        exact h hg
    · -- flush, then write the slice through
      simp only [hsmall, ↓reduceIte]
      obtain ⟨w2, e2, hb2, hc2, hn2, hs2, hpark, hlive⟩ := flushDeferErr_spec w hnp hinv
      rw [e2]
      have hbig : ¬ bs.length < w2.cap := by rw [hc2]; exact hsmall
      simp only [hbig, ↓reduceIte]
      cases he2 : w2.ioError
      · -- no error parked after the flush: direct write
        simp only [Bool.not_false, ↓reduceIte]
        have he : w.ioError = false := by
          cases h : w.ioError
          · rfl
          · rw [(hpark h).2.1] at he2; simp at he2
        obtain ⟨hp2, p, hp, h1, h2, h5⟩ := hlive he
        obtain ⟨p', hp', g1, g2, g3, _⟩ := writeAll_spec w2.sink bs
        have hnpan := writeAll_noPanic w2.sink bs hn2
        have hgood := writeAll_good w2.sink bs
        generalize w2.sink.writeAll bs = r at *
        obtain ⟨res, s⟩ := r
        have hsched : ∃ q, w.sink.sched = q ++ s.sched := by
          obtain ⟨q1, hq1⟩ := hs2
          obtain ⟨q2, hq2⟩ := g3
          exact ⟨q1 ++ q2, by rw [hq1, hq2, List.append_assoc]⟩
        have hsub : (p ++ p').Sublist (w.buf ++ bs) :=
          List.Sublist.append hp.sublist hp'.sublist
        cases res with
        | panic => exact absurd rfl hnpan
        | err =>
          refine ⟨_, rfl, ?_, fun hg _ => by have := hgood (hg.of_suffix hs2); simp at this⟩
          exact { cap := hc2, inv := by simp [hb2], noPanic := hn2.of_suffix g3, unpanicked := rfl,
                  grow := ⟨p ++ p', by simp only at g1 ⊢; rw [g1, h1, List.append_assoc], by simpa [hb2] using hsub,
                           fun _ h => by simp at h⟩,
                  parked := fun h => by rw [he] at h; simp at h, sched := hsched }
        | ok =>
          refine ⟨_, rfl, ?_, fun _ _ => rfl⟩
          exact { cap := hc2, inv := by simp [hb2], noPanic := hn2.of_suffix g3, unpanicked := rfl,
                  grow := ⟨p ++ p', by simp only at g1 ⊢; rw [g1, h1, List.append_assoc], by simpa [hb2] using hsub,
                           fun _ _ _ => by simp only [hb2, List.append_nil]; rw [h2 he2, g2 rfl]⟩,
                  parked := fun h => by rw [he] at h; simp at h, sched := hsched }
      · -- an error is parked: the slice is discarded
        simp only [Bool.not_true, Bool.false_eq_true, ↓reduceIte]
        refine ⟨_, rfl, ?_, ?_⟩
        · refine { cap := hc2, inv := by simp [hb2], noPanic := hn2, unpanicked := ?_, grow := ?_,
                   parked := ?_, sched := hs2 }
          · cases he : w.ioError
            · exact (hlive he).1
            · rw [(hpark he).2.2]; exact hup
          · cases he : w.ioError
            · obtain ⟨_, p, hp, h1, _, _⟩ := hlive he
              exact ⟨p, h1, by simp only [hb2, List.append_nil]; exact hp.sublist.trans (List.sublist_append_left _ _),
                fun _ h => by rw [he2] at h; simp at h⟩
            · obtain ⟨hs, _, _⟩ := hpark he
              exact ⟨[], by simp [hs], by simp [hb2], fun _ h => by rw [he2] at h; simp at h⟩
          · intro he
            obtain ⟨hs, hi, _⟩ := hpark he
            exact ⟨hs, fun _ => hi⟩
        · intro hg he
          obtain ⟨_, p, _, _, _, h⟩ := hlive he
          have := h hg
          rw [he2] at this; simp at this

/-- Every op on a sink that never panics: it returns (no panic reaches the caller), and is a
`Step`.  `r` is the error flag returned by `flush` / `check_io_error` (`false` otherwise, except
`ptr` where it says the pointer was non-null). -/
theorem op_step (w : Writer) (op : Op) (hv : op.Valid) (hnp : w.sink.NoPanic) (hinv : w.buf.length ≤ w.cap)
    (hup : w.panicked = false) :
    ∃ r w', op.run w = (some r, w') ∧
      Step w w' (op.bytes w) (op.reported r) ∧
      (w.sink.Good → w.ioError = false → w'.ioError = false ∧ op.reported r = false) ∧
      (match op with
        | .flush => w'.buf = [] ∧ w'.ioError = false ∧ (w.ioError = true → r = true)
        | .check => r = w.ioError ∧ w'.ioError = false ∧ w'.sink = w.sink ∧ w'.buf = w.buf
        | .flushDefer => w'.buf = []
        | .drop => w'.buf = []
        | _ => True) := by
  cases op with
  | write bs =>
    obtain ⟨w', e, st, hg⟩ := write_spec w bs hnp hinv hup
    exact ⟨false, w', by simp [Op.run, e], st, fun g h => ⟨hg g h, rfl⟩, trivial⟩
  | digits sg bits x =>
    simp only [Op.run, asciiDigits, Op.bytes]
    by_cases hroom : w.buf.length + maxLen sg bits ≤ w.cap
    · simp only [hroom, ↓reduceIte]
      have hfit : w.buf.length + (intDigits x).length ≤ w.cap := by
        simp only [Op.Valid] at hv; omega
      refine ⟨false, _, rfl, ?_, fun _ h => ⟨h, rfl⟩, trivial⟩
      exact { cap := rfl, inv := by simpa using hfit, noPanic := hnp, unpanicked := hup,
              grow := ⟨[], by simp, by simp, fun _ _ _ => by simp⟩,
              parked := fun h => ⟨rfl, fun _ => h⟩, sched := ⟨[], rfl⟩ }
    · simp only [hroom, ↓reduceIte]
      obtain ⟨w', e, st, hg⟩ := write_spec w (intDigits x) hnp hinv hup
      exact ⟨false, w', by simp [e], st, fun g h => ⟨hg g h, rfl⟩, trivial⟩
  | ptr len bs =>
    simp only [Op.run, ptrWrite, Op.bytes]
    by_cases hroom : w.buf.length + len ≤ w.cap
    · simp only [hroom, ↓reduceIte]
      refine ⟨true, _, rfl, ?_, fun _ h => ⟨h, rfl⟩, trivial⟩
      exact { cap := rfl, inv := by simp only [List.length_append, List.length_take]; omega,
              noPanic := hnp, unpanicked := hup,
              grow := ⟨[], by simp, by simp, fun _ _ _ => by simp⟩,
              parked := fun h => ⟨rfl, fun _ => h⟩, sched := ⟨[], rfl⟩ }
    · simp only [hroom, ↓reduceIte]
      refine ⟨false, _, rfl, ?_, fun _ h => ⟨h, rfl⟩, trivial⟩
      exact { cap := rfl, inv := hinv, noPanic := hnp, unpanicked := hup,
              grow := ⟨[], by simp, by simp, fun _ _ _ => by simp⟩,
              parked := fun h => ⟨rfl, fun _ => h⟩, sched := ⟨[], rfl⟩ }
  | flush =>
    obtain ⟨w2, e2, hb2, hc2, hn2, hs2, hpark, hlive⟩ := flushDeferErr_spec w hnp hinv
    simp only [Op.run, Writer.flush, e2, checkIoError, Op.bytes]
    refine ⟨w2.ioError, _, rfl, ?_, ?_, ⟨hb2, rfl, fun he => (hpark he).2.1⟩⟩
    · refine { cap := hc2, inv := by simp [hb2], noPanic := hn2, unpanicked := ?_, grow := ?_,
               parked := ?_, sched := hs2 }
      · cases he : w.ioError
        · exact (hlive he).1
        · rw [(hpark he).2.2]; exact hup
      · cases he : w.ioError
        · obtain ⟨_, p, hp, h1, h2, _⟩ := hlive he
          exact ⟨p, h1, by simp only [hb2, List.append_nil]; exact hp.sublist,
            fun hr _ _ => by simp only [hb2, List.append_nil]; exact h2 hr⟩
        · obtain ⟨hs, _, _⟩ := hpark he
          exact ⟨[], by simp [hs], by simp [hb2], fun _ _ h => by simp at h⟩
      · intro he
        -- the parked error is reported by this very flush; the sink is not called
        obtain ⟨hs, hi, _⟩ := hpark he
        exact ⟨hs, fun hr => by simp only [Op.reported] at hr; rw [hi] at hr; simp at hr⟩
    · intro hg he
      obtain ⟨_, p, _, _, _, h⟩ := hlive he
      exact ⟨rfl, h hg⟩
  | flushDefer =>
    obtain ⟨w2, e2, hb2, hc2, hn2, hs2, hpark, hlive⟩ := flushDeferErr_spec w hnp hinv
    simp only [Op.run, e2, Op.bytes]
    refine ⟨false, _, rfl, ?_, ?_, hb2⟩
    · refine { cap := hc2, inv := by simp [hb2], noPanic := hn2, unpanicked := ?_, grow := ?_,
               parked := ?_, sched := hs2 }
      · cases he : w.ioError
        · exact (hlive he).1
        · rw [(hpark he).2.2]; exact hup
      · cases he : w.ioError
        · obtain ⟨_, p, hp, h1, h2, _⟩ := hlive he
          exact ⟨p, h1, by simp only [hb2, List.append_nil]; exact hp.sublist,
            fun _ hr _ => by simp only [hb2, List.append_nil]; exact h2 hr⟩
        · obtain ⟨hs, hi, _⟩ := hpark he
          exact ⟨[], by simp [hs], by simp [hb2], fun _ h => by rw [hi] at h; simp at h⟩
      · intro he
        obtain ⟨hs, hi, _⟩ := hpark he
        exact ⟨hs, fun _ => hi⟩
    · intro hg he
      obtain ⟨_, p, _, _, _, h⟩ := hlive he
      exact ⟨h hg, rfl⟩
  | check =>
    simp only [Op.run, checkIoError, Op.bytes]
    refine ⟨w.ioError, _, rfl, ?_, fun _ h => ⟨rfl, h⟩, ⟨rfl, rfl, rfl, rfl⟩⟩
    exact { cap := rfl, inv := hinv, noPanic := hnp, unpanicked := hup,
            grow := ⟨[], by simp, by simp, fun _ _ _ => by simp⟩,
            parked := fun h => ⟨rfl, fun hr => by simp only [Op.reported] at hr; rw [h] at hr; simp at hr⟩, sched := ⟨[], rfl⟩ }
  | drop =>
    obtain ⟨w2, e2, hb2, hc2, hn2, hs2, hpark, hlive⟩ := flushDeferErr_spec w hnp hinv
    simp only [Op.run, Writer.drop, hup, Bool.not_false, ↓reduceIte, e2, Op.bytes]
    refine ⟨false, _, rfl, ?_, ?_, hb2⟩
    · refine { cap := hc2, inv := by simp [hb2], noPanic := hn2, unpanicked := ?_, grow := ?_,
               parked := ?_, sched := hs2 }
      · cases he : w.ioError
        · exact (hlive he).1
        · rw [(hpark he).2.2]; exact hup
      · cases he : w.ioError
        · obtain ⟨_, p, hp, h1, h2, _⟩ := hlive he
          exact ⟨p, h1, by simp only [hb2, List.append_nil]; exact hp.sublist,
            fun _ hr _ => by simp only [hb2, List.append_nil]; exact h2 hr⟩
        · obtain ⟨hs, hi, _⟩ := hpark he
          exact ⟨[], by simp [hs], by simp [hb2], fun _ h => by rw [hi] at h; simp at h⟩
      · intro he
        obtain ⟨hs, hi, _⟩ := hpark he
        exact ⟨hs, fun _ => hi⟩
    · intro hg he
      obtain ⟨_, p, _, _, _, h⟩ := hlive he
      exact ⟨h hg, rfl⟩

/-! ### the capacity invariant for EVERY sink (panicking ones included) -/

theorem flushDeferErr_len (w : Writer) (h : w.buf.length ≤ w.cap) :
    (w.flushDeferErr).2.buf.length ≤ (w.flushDeferErr).2.cap ∧ (w.flushDeferErr).2.cap = w.cap ∧
    ((w.flushDeferErr).1 = some () → (w.flushDeferErr).2.buf = []) := by
  unfold flushDeferErr
  split
  · split <;> simp_all
  · simp

theorem write_len (w : Writer) (bs : WBytes) (h : w.buf.length ≤ w.cap) :
    (w.writeAllDeferErr bs).2.buf.length ≤ (w.writeAllDeferErr bs).2.cap ∧
    (w.writeAllDeferErr bs).2.cap = w.cap := by
  unfold writeAllDeferErr
  split
  · simp_all
  · unfold writeCold
    by_cases hs : bs.length < w.cap
    · simp only [hs, ↓reduceIte]
      have h1 : (w.buf ++ bs.take (w.cap - w.buf.length)).length ≤ w.cap := by
        simp only [List.length_append, List.length_take]; omega
      obtain ⟨f1, f2, f3⟩ := flushDeferErr_len { w with buf := w.buf ++ bs.take (w.cap - w.buf.length) } h1
      generalize ({ w with buf := w.buf ++ bs.take (w.cap - w.buf.length) } : Writer).flushDeferErr = r at *
      obtain ⟨o, w2⟩ := r
      cases o with
      | none => exact ⟨f1, f2⟩
      | some u =>
        simp only at f1 f2 f3 ⊢
        have hb := f3 trivial
        split
        · rename_i hlt
          simp only [hb, List.nil_append]
          exact ⟨by omega, f2⟩
        · split <;> (try split) <;> simp_all
    · simp only [hs, ↓reduceIte]
      obtain ⟨f1, f2, f3⟩ := flushDeferErr_len w h
      generalize w.flushDeferErr = r at *
      obtain ⟨o, w2⟩ := r
      cases o with
      | none => exact ⟨f1, f2⟩
      | some u =>
        simp only at f1 f2 f3 ⊢
        have hb := f3 trivial
        have : ¬ bs.length < w2.cap := by rw [f2]; exact hs
        simp only [this, ↓reduceIte]
        split <;> (try split) <;> simp_all

/-- **Every op keeps `len ≤ capacity`, for every sink** — also when the sink panics and the
panic unwinds through the writer (`none` result). -/
theorem op_len (w : Writer) (op : Op) (hv : op.Valid) (h : w.buf.length ≤ w.cap) :
    (op.run w).2.buf.length ≤ (op.run w).2.cap ∧ (op.run w).2.cap = w.cap := by
  cases op with
  | write bs =>
    have := write_len w bs h
    simp only [Op.run]; split <;> (simp_all; try omega)
  | digits sg b x =>
    simp only [Op.run, asciiDigits]
    by_cases hroom : w.buf.length + maxLen sg b ≤ w.cap
    · simp only [hroom, ↓reduceIte, List.length_append]
      simp only [Op.Valid] at hv
      exact ⟨by omega, trivial⟩
    · have := write_len w (intDigits x) h
      simp only [hroom, ↓reduceIte]; split <;> (simp_all; try omega)
  | ptr len bs =>
    simp only [Op.run, ptrWrite]
    split
    · simp only [List.length_append, List.length_take]; exact ⟨by omega, trivial⟩
    · exact ⟨h, rfl⟩
  | flush =>
    obtain ⟨f1, f2, _⟩ := flushDeferErr_len w h
    simp only [Op.run, Writer.flush]
    split <;> (simp_all [checkIoError]; try omega)
  | flushDefer =>
    obtain ⟨f1, f2, _⟩ := flushDeferErr_len w h
    simp only [Op.run]; split <;> (simp_all; try omega)
  | check => exact ⟨h, rfl⟩
  | drop =>
    obtain ⟨f1, f2, _⟩ := flushDeferErr_len w h
    simp only [Op.run, Writer.drop]
    cases hp : w.panicked
    · simp only [Bool.not_false, ↓reduceIte]
      split <;> (simp_all; try omega)
    · simp only [Bool.not_true, Bool.false_eq_true, ↓reduceIte]
      exact ⟨h, trivial⟩

end Writer
end Flussab
