/-
Safety of the AIGER text token layer (`Model/AigerToken.lean`), one lemma per function, in the
Hoare framework of `Proof/PMHoare.lean`: from a state satisfying the parser invariant `Inv b f`
(the view is a cursor into the input `b`, `line_start ≤ position`, no newline consumed since
`line_start`, `(line_start, line)` right) the function never panics, re-establishes the
invariant and only moves forward; errors satisfy `Err b f` (never a panic; an I/O error only from
a failing source; a syntax error designates a position inside `b` — property C08 — and, for a
failing source, is raised before the reader has hit the end of the data — property C04).

The varint reader `binary_uint` is *not* covered: inside the and-gate block of a binary file a
consumed byte may be `0x0A`, which `Inv` (no newline since `line_start`) excludes; the block needs
the "continuation of one line" notion of DESIGN §4 C08 (see `Props/C05Aiger.lean`).
-/
import Flussab.Model.Aiger
import Flussab.Proof.PMHoare
import Flussab.Proof.AigerParse

namespace Flussab
namespace Aiger
open PM Lines

variable {b : VBytes} {f : Bool} {lr lr0 : LR} {E : PErr → LR → Prop}

/-- Postcondition of a token that stays on its line and leaves the mark alone. -/
abbrev TokPost (b : VBytes) (f : Bool) (lr : LR) {α : Type} (r : Option α) (lr1 : LR) : Prop :=
  Inv b f lr1 ∧ Fwd lr lr1 ∧ (r.isSome = true → lr.v.pos < lr1.v.pos)

/-- Postcondition of a token that may end the line. -/
abbrev LinePost (b : VBytes) (f : Bool) (lr : LR) {α : Type} (r : Option α) (lr1 : LR) : Prop :=
  Inv b f lr1 ∧ lr.v.pos ≤ lr1.v.pos ∧ (r.isSome = true → lr.v.pos < lr1.v.pos)

theorem unexpected_ok {α : Type} {Q : α → LR → Prop} (h : Inv b f lr) :
    Wp (Err b f) (unexpected : PM α) lr Q := by
  unfold unexpected
  refine Wp.bind' (Wp.newline0F (Ext.refl lr)) ?_
  intro r lr1 ⟨e1, _, _⟩
  split
  · exact Wp.err (h.ext e1)
  · refine Wp.bind (Wp.get ?_)
    split
    · exact Wp.err (h.ext e1)
    · refine Wp.bind (Wp.get ?_)
      refine Wp.bind' (Wp.reqAtF e1 _) ?_
      intro _ lr2 ⟨e2, _⟩
      exact Wp.err (h.ext e2)

/-- `exceeds_count`, `not_assigning`, `invalid_initialization`, `delta_code_err`: an error at the
mark, which must be on the current line. -/
theorem errorAtMark_ok {α : Type} {Q : α → LR → Prop} (h : Inv b f lr) (hm : MarkOK lr) :
    Wp (Err b f) (errorAtMark : PM α) lr Q := by
  unfold errorAtMark
  refine Wp.bind (Wp.mark ?_)
  exact Wp.errAt h hm.1 hm.2

theorem setMark_ok (h : Inv b f lr) :
    Wp E setMark lr (fun _ lr1 => Inv b f lr1 ∧ MarkOK lr1 ∧ lr1.v.pos = lr.v.pos ∧
      lr1.line = lr.line ∧ lr1.lineStart = lr.lineStart) := by
  refine Wp.setMark ⟨?_, ⟨h.online.le, Nat.le_refl _⟩, rfl, rfl, rfl⟩
  exact { size := h.size, rest := h.rest, pos_le := h.pos_le, fault := h.fault, online := h.online,
          finv := h.finv }

theorem fixed_ok (pat : VBytes) (hpat : ∀ x ∈ pat, x ≠ 10) (h : Inv b f lr) :
    Wp E (fixed pat) lr (TokPost b f lr) := by
  unfold fixed
  refine Wp.bind' (Wp.fixed0F (Ext.refl lr) pat) ?_
  intro off lr1 ⟨e1, _, _, hoff⟩
  split
  · rename_i hne
    have hne' : off ≠ 0 := by simpa using hne
    rcases hoff with ⟨h0, _⟩ | ⟨hlen, hpre, hpk⟩
    · exact absurd h0 hne'
    have hoffle : off ≤ lr.v.rest.length := by rw [hlen]; exact hpre.length_le
    refine Wp.bind' (Wp.adv e1 h hoffle hpk ?_) ?_
    · rw [hlen]; exact allAt_prefix hpre hpat
    intro _ lr2 ⟨i2, f2, p2, _, _⟩
    exact Wp.pure ⟨i2, f2, fun _ => by omega⟩
  · exact Wp.pure ⟨h.ext e1, e1.fwd, by simp⟩

theorem fixedNotEol_ok (pat : VBytes) (hpat : ∀ x ∈ pat, x ≠ 10) (h : Inv b f lr) :
    Wp E (fixedNotEol pat) lr (TokPost b f lr) := by
  unfold fixedNotEol
  refine Wp.bind' (Wp.fixed0F (Ext.refl lr) pat) ?_
  intro off lr1 ⟨e1, _, _, hoff⟩
  split
  · rename_i hne
    have hne' : off ≠ 0 := by simpa using hne
    rcases hoff with ⟨h0, _⟩ | ⟨hlen, hpre, hpk⟩
    · exact absurd h0 hne'
    have hoffle : off ≤ lr.v.rest.length := by rw [hlen]; exact hpre.length_le
    refine Wp.bind' (Wp.reqAtF e1 off) ?_
    intro c lr2 ⟨e2, _, p2, _⟩
    split
    · exact Wp.pure ⟨h.ext e2, e2.fwd, by simp⟩
    · refine Wp.bind' (Wp.adv e2 h hoffle (by omega) ?_) ?_
      · rw [hlen]; exact allAt_prefix hpre hpat
      intro _ lr3 ⟨i3, f3, p3, _, _⟩
      exact Wp.pure ⟨i3, f3, fun _ => by omega⟩
  · exact Wp.pure ⟨h.ext e1, e1.fwd, by simp⟩

theorem space_ok (h : Inv b f lr) : Wp E space lr (TokPost b f lr) := by
  unfold space
  refine Wp.bind' (Wp.reqByteF (Ext.refl lr)) ?_
  intro c lr1 ⟨e1, hc, p1, _⟩
  split
  · rename_i hsp
    have hc0 : lr.v.rest[0]? = some 32 := by rw [← hc]; simpa using hsp
    have hlen : 1 ≤ lr.v.rest.length := by
      have := (List.getElem?_eq_some_iff.mp hc0).1; omega
    refine Wp.bind' (Wp.adv e1 h hlen (by omega) ?_) ?_
    · exact AllAt.single hc0 (by decide)
    intro _ lr2 ⟨i2, f2, p2, _, _⟩
    exact Wp.pure ⟨i2, f2, fun _ => by omega⟩
  · exact Wp.pure ⟨h.ext e1, e1.fwd, by simp⟩

theorem requiredSpace_ok (h : Inv b f lr) :
    Wp (Err b f) requiredSpace lr (fun _ lr1 => Inv b f lr1 ∧ Fwd lr lr1) := by
  unfold requiredSpace
  refine Wp.orGiveUp ((space_ok h).mono ?_)
  intro r lr1 ⟨i1, f1, _⟩
  cases r with
  | none => exact unexpected_ok i1
  | some _ => exact ⟨i1, f1⟩

/-- The state after consuming a newline at the cursor and `line_at_offset(0)`. -/
theorem inv_after_newline {lr0 lr : LR} (e : Ext lr0 lr) (h : Inv b f lr0)
    (h10 : lr0.v.rest[0]? = some 10) :
    Inv b f { lr with v := { lr.v with rest := lr.v.rest.drop 1, pos := lr.v.pos + 1 },
                      line := lr.line + 1, lineStart := lr.v.pos + 1 + 0 } := by
  have hlen : 1 ≤ lr0.v.rest.length := by
    have := (List.getElem?_eq_some_iff.mp h10).1; omega
  have hl := h.rest_length
  have hb10 : b[lr0.v.pos]? = some 10 := by
    have := h.getElem? 0; rw [h10] at this; simpa using this.symm
  refine { size := h.size, rest := ?_, pos_le := ?_, fault := ?_, online := ?_, finv := e.finv h.finv }
  · show lr.v.rest.drop 1 = b.drop (lr.v.pos + 1)
    rw [e.rest, e.pos, h.rest, List.drop_drop]
  · show lr.v.pos + 1 ≤ b.length
    rw [e.pos]; omega
  · show lr.v.fault = f
    rw [e.fault]; exact h.fault
  · show OnLine b (lr.v.pos + 1 + 0) (lr.line + 1) (lr.v.pos + 1)
    rw [e.pos, e.line]
    refine ⟨by omega, by omega, fun i h1 h2 => by omega, ?_⟩
    apply lineAt_step b lr0.lineStart lr0.line _ h.online.lineAt
    · have := h.online.le; omega
    · omega
    · have : lr0.v.pos + 1 + 0 - 1 = lr0.v.pos := by omega
      rw [this]; exact h.online.nolf
    · left
      have : lr0.v.pos + 1 + 0 - 1 = lr0.v.pos := by omega
      rw [this]; exact hb10

/-- `advance(1); line_at_offset(0); …` over a newline at the cursor. -/
theorem newlineStep_ok {β : Type} {lr0 lr : LR} {k : Unit → PM β} {Q : β → LR → Prop}
    (e : Ext lr0 lr) (h : Inv b f lr0)
    (h10 : lr0.v.rest[0]? = some 10) (hp : lr0.v.pos + 1 ≤ lr.v.peeked)
    (hk : ∀ lr1, Inv b f lr1 → lr1.v.pos = lr0.v.pos + 1 → lr1.lineStart = lr1.v.pos →
      lr1.v.mark = lr0.v.mark → Wp E (k ()) lr1 Q) :
    Wp E (advance 1 >>= fun _ => lineAtOffset 0 >>= k) lr Q := by
  have hlen : 1 ≤ lr0.v.rest.length := by
    have := (List.getElem?_eq_some_iff.mp h10).1; omega
  have hsz := h.size
  obtain ⟨_, hs2⟩ := lineAt_le b _ _ h.online.lineAt
  have hpl := h.pos_le
  have hl := h.rest_length
  unfold SizeOK at hsz
  refine Wp.bind (Wp.advance (demanded_ge (by rw [e.rest]; exact hlen) (by rw [e.pos]; exact hp)) ?_)
  refine Wp.bind (Wp.lineAtOffset (by show lr.line + 1 ≤ usizeMax; rw [e.line]; omega)
    (by show lr.v.pos + 1 + 0 ≤ usizeMax; rw [e.pos]; omega) ?_)
  refine hk _ (inv_after_newline e h h10) ?_ ?_ ?_
  · show lr.v.pos + 1 = _; rw [e.pos]
  · rfl
  · exact e.mark

theorem newline_ok (h : Inv b f lr) : Wp E newline lr (LinePost b f lr) := by
  unfold newline
  refine Wp.bind' (Wp.reqByteF (Ext.refl lr)) ?_
  intro c lr1 ⟨e1, hc, p1, _⟩
  split
  · rename_i hnl
    have hc0 : lr.v.rest[0]? = some 10 := by rw [← hc]; simpa using hnl
    refine newlineStep_ok e1 h hc0 (by omega) ?_
    intro lr2 i2 p2 _ _
    exact Wp.pure ⟨i2, by omega, fun _ => by omega⟩
  · exact Wp.pure ⟨h.ext e1, by rw [e1.pos]; exact Nat.le_refl _, by simp⟩

theorem requiredNewline_ok (h : Inv b f lr) :
    Wp (Err b f) requiredNewline lr (fun _ lr1 => Inv b f lr1 ∧ lr.v.pos < lr1.v.pos) := by
  unfold requiredNewline
  refine Wp.orGiveUp ((newline_ok h).mono ?_)
  intro r lr1 ⟨i1, _, f1⟩
  cases r with
  | none => exact unexpected_ok i1
  | some _ => exact ⟨i1, f1 rfl⟩

/-- `required_newline_or_space`: a space keeps the line (and the mark), a newline starts one. -/
theorem requiredNewlineOrSpace_ok (h : Inv b f lr) :
    Wp (Err b f) requiredNewlineOrSpace lr (fun r lr1 => Inv b f lr1 ∧ lr.v.pos < lr1.v.pos ∧
      (r = true → Fwd lr lr1)) := by
  unfold requiredNewlineOrSpace
  refine Wp.bind' (Wp.reqByteF (Ext.refl lr)) ?_
  intro c lr1 ⟨e1, hc, p1, _⟩
  split
  · rename_i hcs
    by_cases hnl : c = some 10
    · subst hnl
      have hc0 : lr.v.rest[0]? = some 10 := hc.symm
      refine newlineStep_ok e1 h hc0 (by omega) ?_
      intro lr2 i2 p2 _ _
      exact Wp.pure ⟨i2, by omega, fun h => by cases h⟩
    · have hsp : c = some 32 := by
        simp only [Bool.or_eq_true, beq_iff_eq] at hcs
        rcases hcs with h1 | h1
        · exact absurd h1 hnl
        · exact h1
      subst hsp
      have hc0 : lr.v.rest[0]? = some 32 := hc.symm
      have hlen : 1 ≤ lr.v.rest.length := by
        have := (List.getElem?_eq_some_iff.mp hc0).1; omega
      refine Wp.bind' (Wp.adv e1 h hlen (by omega) (AllAt.single hc0 (by decide))) ?_
      intro _ lr2 ⟨i2, f2, p2, _, _⟩
      have : ((some (32 : UInt8)) == some 10) = false := by decide
      simp only [this, Bool.false_eq_true, ↓reduceIte]
      exact Wp.pure ⟨i2, by omega, fun _ => f2⟩
  · exact unexpected_ok (h.ext e1)

/-! ### numbers -/

/-- `uint`: never panics (`buf()[0]` exists, the digits are ASCII), stays on its line. -/
theorem uint_ok (h : Inv b f lr) :
    Wp E uint lr (fun _ lr1 => Inv b f lr1 ∧ Fwd lr lr1) := by
  unfold uint
  refine Wp.bind' (Wp.asciiDigitsF (Ext.refl lr) usizeTy 0) ?_
  intro r lr1 ⟨e1, _, hd, hlen, p1⟩
  obtain ⟨value, off⟩ := r
  dsimp only at hd hlen p1 ⊢
  have hoffle : off ≤ lr.v.rest.length := hlen (Nat.zero_le _)
  split
  · rename_i hne
    have hne' : off ≠ 0 := by simpa using hne
    refine Wp.bind (Wp.bufPrefixF e1 hoffle (by omega) ?_)
    have hall := allAt_take hd
    generalize hbs : lr.v.rest.take off = bs at hall
    cases bs with
    | nil =>
      have := congrArg List.length hbs
      simp only [List.length_take, List.length_nil] at this
      omega
    | cons b0 tl =>
      dsimp only
      split
      · refine Wp.bind' (Wp.adv e1 h hoffle (by omega) (hd.mono digit_ne_lf)) ?_
        intro _ lr2 ⟨i2, f2, _⟩
        exact Wp.pure ⟨i2, f2⟩
      · refine Wp.bind (Wp.utf8Unwrap (fun x hx => digit_lt x (hall x hx)) ?_)
        exact Wp.pure ⟨h.ext e1, e1.fwd⟩
  · exact Wp.pure ⟨h.ext e1, e1.fwd⟩

/-- Postcondition of `header_field` / `lit` / `symbol_index`: same line, the mark is at the start
of the numeral, the value respects the limit. -/
abbrev NumPost (b : VBytes) (f : Bool) (lr : LR) (lr1 : LR) : Prop :=
  Inv b f lr1 ∧ lr.v.pos ≤ lr1.v.pos ∧ MarkOK lr1 ∧ lr1.line = lr.line ∧ lr1.lineStart = lr.lineStart

theorem headerField_ok (limit : Nat) (h : Inv b f lr) :
    Wp (Err b f) (headerField limit) lr (fun r lr1 => NumPost b f lr lr1 ∧ r ≤ limit) := by
  unfold headerField
  refine Wp.bind' (setMark_ok h) ?_
  intro _ lr1 ⟨i1, m1, p1, l1, s1⟩
  refine Wp.bind' (uint_ok i1) ?_
  intro r lr2 ⟨i2, f2⟩
  have m2 := m1.fwd f2
  have := f2.pos
  split
  · exact errorAtMark_ok i2 m2
  · split
    · exact errorAtMark_ok i2 m2
    · exact Wp.pure ⟨⟨i2, by omega, m2, f2.line.trans l1, f2.lineStart.trans s1⟩, by omega⟩
  · exact unexpected_ok i2

theorem symbolIndex_ok (limit : Nat) (h : Inv b f lr) :
    Wp (Err b f) (symbolIndex limit) lr (fun r lr1 => NumPost b f lr lr1 ∧ r ≤ limit) :=
  headerField_ok limit h

theorem lit_ok (limit : Nat) (assigning : Bool) (h : Inv b f lr) :
    Wp (Err b f) (lit limit assigning) lr (fun r lr1 => NumPost b f lr lr1 ∧ r ≤ limit) := by
  unfold lit
  refine Wp.bind' (setMark_ok h) ?_
  intro _ lr1 ⟨i1, m1, p1, l1, s1⟩
  refine Wp.bind' (uint_ok i1) ?_
  intro r lr2 ⟨i2, f2⟩
  have m2 := m1.fwd f2
  have := f2.pos
  split
  · exact errorAtMark_ok i2 m2
  · split
    · exact errorAtMark_ok i2 m2
    · split
      · exact errorAtMark_ok i2 m2
      · exact Wp.pure ⟨⟨i2, by omega, m2, f2.line.trans l1, f2.lineStart.trans s1⟩, by omega⟩
  · exact unexpected_ok i2

/-! ### names and the end of the file -/

theorem getElem?_takeWhile_length (p : UInt8 → Bool) (l : VBytes) (x : UInt8)
    (h : l[(l.takeWhile p).length]? = some x) : p x = false := by
  induction l with
  | nil => simp at h
  | cons c cs ih =>
    by_cases hc : p c = true
    · simp only [List.takeWhile_cons, hc, ↓reduceIte, List.length_cons, List.getElem?_cons_succ] at h
      exact ih h
    · have hc' : p c = false := by simpa using hc
      simp only [List.takeWhile_cons, hc', Bool.false_eq_true, ↓reduceIte, List.length_nil,
        List.getElem?_cons_zero, Option.some.injEq] at h
      rw [← h]; exact hc'

/-- `advance_with_buf(n)` to a position on the current line. -/
theorem advanceWithBuf_ok' {lr0 lr : LR} {n : Nat} (e : Ext lr0 lr) (hb : Base b f lr0) (hf : FInv lr0)
    (hn : n ≤ lr0.v.rest.length) (hp : lr0.v.pos + n ≤ lr.v.peeked)
    (ho : OnLine b lr.lineStart lr.line (lr0.v.pos + n)) :
    Wp E (advanceWithBuf n) lr (fun bs lr1 => Inv b f lr1 ∧ lr1.v.pos = lr0.v.pos + n ∧
      bs = lr0.v.rest.take n) := by
  unfold advanceWithBuf
  refine Wp.bind (Wp.bufPrefixF e hn hp ?_)
  refine Wp.bind' (Wp.adv' e hb hf hn hp ho) ?_
  intro _ lr1 ⟨i1, p1, _⟩
  exact Wp.pure ⟨i1, p1, rfl⟩

/-- `remaining_line_content` (after the `fix:` for F5): the error for an invalid byte is raised
while `line_start` is still that of the symbol's own line, so its column is in range. -/
theorem remainingLineContent_ok (h : Inv b f lr) :
    Wp (Err b f) remainingLineContent lr (fun _ lr1 => Inv b f lr1 ∧ lr.v.pos < lr1.v.pos) := by
  unfold remainingLineContent
  refine Wp.bind (Wp.get ?_)
  rw [C16.runLen_eq_takeWhile]
  have hall : AllAt (· ≠ 10) lr.v.rest 0 ((lr.v.rest.takeWhile (· != 10)).length) := by
    have := allAt_takeWhile (· != 10) lr.v.rest 0
    simp only [List.drop_zero, Nat.zero_add] at this
    exact this.mono (fun x hx => by simpa using hx)
  have hle : (lr.v.rest.takeWhile (· != 10)).length ≤ lr.v.rest.length :=
    C13.takeWhile_length_le _ _
  have hat : ∀ x, lr.v.rest[(lr.v.rest.takeWhile (· != 10)).length]? = some x → x = 10 := by
    intro x hx
    have := getElem?_takeWhile_length (· != 10) lr.v.rest x hx
    simpa using this
  generalize (lr.v.rest.takeWhile (· != 10)).length = offset at hall hle hat ⊢
  refine Wp.bind' (Wp.reqAtF (Ext.refl lr) offset) ?_
  intro c lr1 ⟨e1, hc, p1, _⟩
  split
  · refine Wp.bind' (Wp.adv e1 h hle (by omega) hall) ?_
    intro _ lr2 ⟨i2, _, _⟩
    exact unexpected_ok i2
  · rename_i hsome
    have h10 : lr.v.rest[offset]? = some 10 := by
      cases hc' : lr.v.rest[offset]? with
      | none => rw [hc, hc'] at hsome; simp at hsome
      | some x => rw [hat x hc']
    have hlt : offset < lr.v.rest.length := (List.getElem?_eq_some_iff.mp h10).1
    refine Wp.bind (Wp.bufPrefixF e1 hle (by omega) ?_)
    dsimp only
    split
    · refine Wp.bind' (Wp.lao e1 h (by omega) (by omega) (by simpa using hall)
        (Or.inl (by simpa using h10))) ?_
      intro _ lr2 ⟨e2, hv2, hb2, ho2⟩
      have hpk : lr.v.pos + (offset + 1) ≤ lr2.v.peeked := by rw [hv2]; omega
      have ho3 : OnLine b lr2.lineStart lr2.line ((nextLine lr (offset + 1)).v.pos + (offset + 1)) := by
        rw [e2.lineStart, e2.line]; exact ho2
      refine Wp.bind' (advanceWithBuf_ok' e2 hb2 h.finv (by simp only [nextLine_v]; omega)
        (by simp only [nextLine_v]; exact hpk) ho3) ?_
      intro _ lr3 ⟨i3, p3, _⟩
      simp only [nextLine_v] at p3
      exact Wp.pure ⟨i3, by omega⟩
    · have hup := utf8ValidUpTo_le (lr.v.rest.take offset)
      simp only [List.length_take] at hup
      refine Wp.bind' (Wp.adv e1 h (by omega) (by omega) (hall.sub (Nat.le_refl _) (by omega))) ?_
      intro _ lr2 ⟨i2, _, _⟩
      exact unexpected_ok i2

end Aiger
end Flussab

namespace Flussab
namespace Aiger
open PM Lines

variable {b : VBytes} {f : Bool} {lr lr0 : LR} {E : PErr → LR → Prop}

/-- `eof` consumes nothing, and succeeds only at the end of a source that did not fail. -/
theorem eof_ok (h : Inv b f lr) :
    Wp E eof lr (fun r lr1 => Inv b f lr1 ∧ Fwd lr lr1 ∧ lr1.v.pos = lr.v.pos ∧
      (r.isSome = true → f = false ∧ lr1.v.sawEnd = true)) := by
  unfold eof
  refine Wp.bind' (Wp.reqByteF (Ext.refl lr)) ?_
  intro c lr1 ⟨e1, _, _, hse⟩
  have i1 := h.ext e1
  split
  · rename_i hnone
    refine Wp.bind (Wp.get ?_)
    split
    · rename_i hio
      refine Wp.pure ⟨i1, e1.fwd, e1.pos, fun _ => ?_⟩
      have hs := hse (by simpa using hnone)
      refine ⟨?_, hs⟩
      cases hf : f
      · rfl
      · have := i1.finv.1 (by rw [i1.fault]; exact hf) hs
        rw [this] at hio; simp at hio
    · exact Wp.pure ⟨i1, e1.fwd, e1.pos, by simp⟩
  · exact Wp.pure ⟨i1, e1.fwd, e1.pos, by simp⟩

/-! ### header -/

theorem checkedSub_ok {site : String} {x y : Nat} {Q : Nat → LR → Prop} (hxy : y ≤ x)
    (h : Q (x - y) lr) : Wp E (checkedSub site x y) lr Q := by
  unfold checkedSub
  have : ¬ y > x := by omega
  simp only [this, ↓reduceIte]
  exact Wp.pure h

theorem checkedAdd_ok {site : String} {x y : Nat} {Q : Nat → LR → Prop} (hxy : x + y ≤ usizeMax)
    (h : Q (x + y) lr) : Wp E (checkedAdd site x y) lr Q := by
  unfold checkedAdd
  have : ¬ x + y > usizeMax := by omega
  simp only [this, ↓reduceIte]
  exact Wp.pure h

theorem checkedMul_ok {site : String} {x y : Nat} {Q : Nat → LR → Prop} (hxy : x * y ≤ usizeMax)
    (h : Q (x * y) lr) : Wp E (checkedMul site x y) lr Q := by
  unfold checkedMul
  have : ¬ x * y > usizeMax := by omega
  simp only [this, ↓reduceIte]
  exact Wp.pure h

theorem headerOptional_ok (hd : Header) (h : Inv b f lr) :
    Wp (Err b f) (headerOptional hd) lr (fun r lr1 => Inv b f lr1 ∧ Header.Core hd r) := by
  unfold headerOptional
  refine Wp.bind' (requiredNewlineOrSpace_ok h) ?_
  intro s1 lr1 ⟨i1, _, _⟩
  split
  · exact Wp.pure ⟨i1, rfl, rfl, rfl, rfl⟩
  refine Wp.bind' (headerField_ok _ i1) ?_
  intro c1 lr2 ⟨⟨i2, _⟩, _⟩
  refine Wp.bind' (requiredNewlineOrSpace_ok i2) ?_
  intro s2 lr3 ⟨i3, _, _⟩
  split
  · exact Wp.pure ⟨i3, rfl, rfl, rfl, rfl⟩
  refine Wp.bind' (headerField_ok _ i3) ?_
  intro c2 lr4 ⟨⟨i4, _⟩, _⟩
  refine Wp.bind' (requiredNewlineOrSpace_ok i4) ?_
  intro s3 lr5 ⟨i5, _, _⟩
  split
  · exact Wp.pure ⟨i5, rfl, rfl, rfl, rfl⟩
  refine Wp.bind' (headerField_ok _ i5) ?_
  intro c3 lr6 ⟨⟨i6, _⟩, _⟩
  refine Wp.bind' (requiredNewlineOrSpace_ok i6) ?_
  intro s4 lr7 ⟨i7, _, _⟩
  split
  · exact Wp.pure ⟨i7, rfl, rfl, rfl, rfl⟩
  refine Wp.bind' (headerField_ok _ i7) ?_
  intro c4 lr8 ⟨⟨i8, _⟩, _⟩
  refine Wp.bind' (requiredNewline_ok i8) ?_
  intro _ lr9 ⟨i9, _⟩
  exact Wp.pure ⟨i9, rfl, rfl, rfl, rfl⟩

theorem magic_noLF (bin : Bool) : ∀ x ∈ magic bin, x ≠ 10 := by
  cases bin <;> decide

/-- `Header::parse` never panics: the two `limit -= count` cannot underflow because each count
was checked against `limit`. -/
theorem Header.parse_ok (bin : Bool) (l : LitTy) (h : Inv b f lr) :
    Wp (Err b f) (Header.parse bin l) lr (fun r lr1 => Inv b f lr1 ∧ HeaderSane l r) := by
  unfold Header.parse
  refine Wp.bind' (Q1 := fun _ lr1 => Inv b f lr1) (Wp.orGiveUp ((fixed_ok _ (magic_noLF bin) h).mono ?_)) ?_
  · intro r lr1 ⟨i1, _, _⟩
    cases r with
    | none => exact unexpected_ok i1
    | some _ => exact i1
  intro _ lr1 i1
  refine Wp.bind' (requiredSpace_ok i1) ?_
  intro _ lr2 ⟨i2, _⟩
  refine Wp.bind' (headerField_ok _ i2) ?_
  intro m lr3 ⟨⟨i3, _⟩, hm⟩
  refine Wp.bind' (requiredSpace_ok i3) ?_
  intro _ lr4 ⟨i4, _⟩
  refine Wp.bind' (headerField_ok _ i4) ?_
  intro ic lr5 ⟨⟨i5, _⟩, hic⟩
  refine Wp.bind (checkedSub_ok hic ?_)
  refine Wp.bind' (requiredSpace_ok i5) ?_
  intro _ lr6 ⟨i6, _⟩
  refine Wp.bind' (headerField_ok _ i6) ?_
  intro lc lr7 ⟨⟨i7, _⟩, hlc⟩
  refine Wp.bind (checkedSub_ok hlc ?_)
  refine Wp.bind' (requiredSpace_ok i7) ?_
  intro _ lr8 ⟨i8, _⟩
  refine Wp.bind' (headerField_ok _ i8) ?_
  intro oc lr9 ⟨⟨i9, _⟩, _⟩
  refine Wp.bind' (requiredSpace_ok i9) ?_
  intro _ lr10 ⟨i10, _⟩
  refine Wp.bind' (headerField_ok _ i10) ?_
  intro ac lr11 ⟨⟨i11, _⟩, hac⟩
  refine (headerOptional_ok _ i11).mono ?_
  intro r lr12 ⟨i12, c1, c2, c3, c4⟩
  refine ⟨i12, ?_⟩
  unfold HeaderSane
  simp only at c1 c2 c3 c4
  rw [c1, c2, c3, c4]
  exact ⟨hm, by omega⟩

/-- `Parser::new` never panics for the five literal types: `max_var_index * 2 + 1` fits because
`max_var_index ≤ (MAX_CODE - 1) / 2`. -/
theorem Parser.new_ok (bin : Bool) (l : LitTy) (hl : l.bits ≤ 64) (h : Inv b f lr) :
    Wp (Err b f) (Parser.new bin l) lr (fun p lr1 => Inv b f lr1 ∧ ParserOk bin l p) := by
  unfold Parser.new
  refine Wp.bind' (Header.parse_ok bin l h) ?_
  intro hd lr1 ⟨i1, hs⟩
  have hmc : l.maxCode ≤ usizeMax := by
    unfold LitTy.maxCode usizeMax
    have : 2 ^ l.bits ≤ 2 ^ 64 := Nat.pow_le_pow_right (by decide) hl
    omega
  have hm := hs.1
  have hu : usizeMax = 2 ^ 64 - 1 := rfl
  refine Wp.bind (checkedMul_ok (x := hd.maxVarIndex) (y := 2) (by omega) ?_)
  refine Wp.bind (checkedAdd_ok (x := hd.maxVarIndex * 2) (y := 1) (by omega) ?_)
  refine Wp.pure ⟨i1, hs, ?_, rfl, rfl⟩
  simp only
  omega

end Aiger
end Flussab

namespace Flussab
namespace Aiger
open PM Lines

variable {b : VBytes} {f : Bool} {lr lr0 : LR}

/-! ### section readers (text lines: every section of an ASCII file, and all of a binary file
but its and-gate block) -/

/-- Invariant of a section state: the running total of the justice sizes is a `usize`. -/
def SInv (s : St) : Prop := s.total ≤ usizeMax

/-- Safety of one `next_*` function: no panic, the invariants are kept, the counter goes down by
one per item. -/
def StepOk {α : Type} (next : St → PM (Option α × St)) : Prop :=
  ∀ (b : VBytes) (f : Bool) (s : St) (lr : LR), Inv b f lr → SInv s →
    Wp (Err b f) (next s) lr (fun r lr1 => Inv b f lr1 ∧ SInv r.2 ∧ lr.v.pos ≤ lr1.v.pos ∧
      match r.1 with
      | some _ => r.2.left + 1 = s.left
      | none => r.2 = s ∧ s.left = 0)

theorem litLine_ok (p : Parser) (assigning : Bool) (h : Inv b f lr) :
    Wp (Err b f) (litLine p assigning) lr (fun _ lr1 => Inv b f lr1 ∧ lr.v.pos < lr1.v.pos) := by
  unfold litLine
  refine Wp.bind' (lit_ok _ _ h) ?_
  intro c lr1 ⟨⟨i1, p1, _⟩, _⟩
  refine Wp.bind' (requiredNewline_ok i1) ?_
  intro _ lr2 ⟨i2, p2⟩
  exact Wp.pure ⟨i2, by omega⟩

theorem nextLit_ok (assigning : Bool) : StepOk (nextLit assigning) := by
  intro b f s lr h hs
  unfold nextLit
  split
  · rename_i h0
    exact Wp.pure ⟨h, hs, Nat.le_refl _, rfl, h0⟩
  · rename_i left hl
    refine Wp.bind' (litLine_ok _ _ h) ?_
    intro c lr1 ⟨i1, p1⟩
    exact Wp.pure ⟨i1, hs, by omega, hl.symm⟩

theorem latchInit_ok (p : Parser) (stateCode : Nat) (h : Inv b f lr) :
    Wp (Err b f) (latchInit p stateCode) lr (fun _ lr1 => Inv b f lr1 ∧ lr.v.pos < lr1.v.pos) := by
  unfold latchInit
  refine Wp.bind' (lit_ok _ _ h) ?_
  intro c lr1 ⟨⟨i1, p1, m1, _⟩, _⟩
  refine Wp.bind' (Q1 := fun _ lr2 => lr2 = lr1) ?_ ?_
  · split
    · exact Wp.pure rfl
    · split
      · exact Wp.pure rfl
      · exact errorAtMark_ok i1 m1
  intro init lr2 e
  subst e
  refine Wp.bind' (requiredNewline_ok i1) ?_
  intro _ lr3 ⟨i3, p3⟩
  exact Wp.pure ⟨i3, by omega⟩

theorem latchReset_ok (p : Parser) (stateCode : Nat) (h : Inv b f lr) :
    Wp (Err b f) (latchReset p stateCode) lr (fun _ lr1 => Inv b f lr1 ∧ lr.v.pos < lr1.v.pos) := by
  unfold latchReset
  refine Wp.bind' (requiredNewlineOrSpace_ok h) ?_
  intro sp lr1 ⟨i1, p1, _⟩
  split
  · refine (latchInit_ok p stateCode i1).mono ?_
    intro _ lr2 ⟨i2, p2⟩
    exact ⟨i2, by omega⟩
  · exact Wp.pure ⟨i1, p1⟩

theorem nextLatchAscii_ok : StepOk nextLatchAscii := by
  intro b f s lr h hs
  unfold nextLatchAscii
  split
  · rename_i h0
    exact Wp.pure ⟨h, hs, Nat.le_refl _, rfl, h0⟩
  · rename_i left hl
    refine Wp.bind' (lit_ok _ _ h) ?_
    intro sc lr1 ⟨⟨i1, p1, _⟩, _⟩
    refine Wp.bind' (requiredSpace_ok i1) ?_
    intro _ lr2 ⟨i2, f2⟩
    refine Wp.bind' (lit_ok _ _ i2) ?_
    intro nc lr3 ⟨⟨i3, p3, _⟩, _⟩
    refine Wp.bind' (latchReset_ok _ _ i3) ?_
    intro init lr4 ⟨i4, p4⟩
    have := f2.pos
    exact Wp.pure ⟨i4, hs, by omega, hl.symm⟩

theorem nextLatchBin_ok : StepOk nextLatchBin := by
  intro b f s lr h hs
  unfold nextLatchBin
  split
  · rename_i h0
    exact Wp.pure ⟨h, hs, Nat.le_refl _, rfl, h0⟩
  · rename_i left hl
    refine Wp.bind' (lit_ok _ _ h) ?_
    intro nc lr1 ⟨⟨i1, p1, _⟩, _⟩
    refine Wp.bind' (latchReset_ok _ _ i1) ?_
    intro init lr2 ⟨i2, p2⟩
    exact Wp.pure ⟨i2, hs, by omega, hl.symm⟩

theorem nextJusticeSize_ok : StepOk nextJusticeSize := by
  intro b f s lr h hs
  unfold nextJusticeSize
  split
  · rename_i h0
    exact Wp.pure ⟨h, hs, Nat.le_refl _, rfl, h0⟩
  · rename_i left hl
    refine Wp.bind (checkedSub_ok hs ?_)
    refine Wp.bind' (headerField_ok _ h) ?_
    intro count lr1 ⟨⟨i1, p1, _⟩, hc⟩
    refine Wp.bind' (requiredNewline_ok i1) ?_
    intro _ lr2 ⟨i2, p2⟩
    have hs' : s.total ≤ usizeMax := hs
    have hc' : count ≤ usizeMax - s.total := hc
    refine Wp.bind (checkedAdd_ok (x := s.total) (y := count) (by omega) ?_)
    refine Wp.pure ⟨i2, ?_, by omega, hl.symm⟩
    show s.total + count ≤ usizeMax
    omega

theorem nextAndGateAscii_ok : StepOk nextAndGateAscii := by
  intro b f s lr h hs
  unfold nextAndGateAscii
  split
  · rename_i h0
    exact Wp.pure ⟨h, hs, Nat.le_refl _, rfl, h0⟩
  · rename_i left hl
    refine Wp.bind' (lit_ok _ _ h) ?_
    intro oc lr1 ⟨⟨i1, p1, _⟩, _⟩
    refine Wp.bind' (requiredSpace_ok i1) ?_
    intro _ lr2 ⟨i2, f2⟩
    refine Wp.bind' (lit_ok _ _ i2) ?_
    intro c0 lr3 ⟨⟨i3, p3, _⟩, _⟩
    refine Wp.bind' (requiredSpace_ok i3) ?_
    intro _ lr4 ⟨i4, f4⟩
    refine Wp.bind' (lit_ok _ _ i4) ?_
    intro c1 lr5 ⟨⟨i5, p5, _⟩, _⟩
    refine Wp.bind' (requiredNewline_ok i5) ?_
    intro _ lr6 ⟨i6, p6⟩
    have := f2.pos; have := f4.pos
    exact Wp.pure ⟨i6, hs, by omega, hl.symm⟩

/-- `while let Some(x) = next()? { push }`: the fuel `left + 1` never runs out. -/
theorem whileSome_ok {α : Type} {next : St → PM (Option α × St)} (hstep : StepOk next) :
    ∀ (fuel : Nat) (s : St) (acc : List α) (lr : LR), Inv b f lr → SInv s → s.left < fuel →
      Wp (Err b f) (whileSome next fuel s acc) lr (fun r lr1 => Inv b f lr1 ∧ SInv r.2 ∧
        lr.v.pos ≤ lr1.v.pos) := by
  intro fuel
  induction fuel with
  | zero => intro s acc lr _ _ hf; omega
  | succ fuel ih =>
    intro s acc lr h hs hf
    unfold whileSome
    refine Wp.bind' (hstep b f s lr h hs) ?_
    intro r lr1 ⟨i1, s1, p1, hr⟩
    obtain ⟨o, s'⟩ := r
    cases o with
    | none => exact Wp.pure ⟨i1, s1, p1⟩
    | some a =>
      simp only at hr s1 ⊢
      refine (ih s' (a :: acc) lr1 i1 s1 (by omega)).mono ?_
      intro r lr2 ⟨i2, s2, p2⟩
      exact ⟨i2, s2, by omega⟩

theorem finish_ok {α : Type} {next : St → PM (Option α × St)} (hstep : StepOk next) (s : St)
    (h : Inv b f lr) (hs : SInv s) :
    Wp (Err b f) (finish next s) lr (fun r lr1 => Inv b f lr1 ∧ SInv r ∧ lr.v.pos ≤ lr1.v.pos) := by
  unfold finish
  refine Wp.bind' (whileSome_ok hstep _ s [] lr h hs (by omega)) ?_
  intro r lr1 ⟨i1, s1, p1⟩
  exact Wp.pure ⟨i1, s1, p1⟩

end Aiger
end Flussab

namespace Flussab
namespace Aiger
open PM Lines

variable {b : VBytes} {f : Bool} {lr lr0 : LR}

/-! ### transitions -/

/-- Postcondition shared by the transition functions. -/
abbrev TrPost (b : VBytes) (f : Bool) (s : St) (lr : LR) (r : St) (lr1 : LR) : Prop :=
  Inv b f lr1 ∧ SInv r ∧ lr.v.pos ≤ lr1.v.pos ∧ r.p.bin = s.p.bin

theorem finish_bin {α : Type} {next : St → PM (Option α × St)} {P : Nat → LitTy → α → Prop}
    {w : α → Nat} (hspec : StepSpec P w next) (s : St) :
    Post (finish next s) (fun r => r.p.bin = s.p.bin) :=
  (finish_post hspec s).mono fun _ h => h.2.1.2.2.2

/-- Combine a `Wp` fact with a state-independent `Post` fact about the same call. -/
theorem wp_andPost {α : Type} {E : PErr → LR → Prop} {m : PM α} {Q : α → LR → Prop} {R : α → Prop}
    (h : Wp E m lr Q) (hp : Post m R) : Wp E m lr (fun a lr1 => Q a lr1 ∧ R a) := by
  unfold Wp at *
  rcases hm : m.run lr with ⟨e | a, lr1⟩
  · rw [hm] at h; exact h
  · rw [hm] at h; exact ⟨h, hp lr a lr1 hm⟩

theorem toLatches_ok (s : St) (h : Inv b f lr) (hs : SInv s) :
    Wp (Err b f) (toLatches s) lr (TrPost b f s lr) := by
  unfold toLatches
  refine Wp.bind' (Q1 := fun r lr1 => Inv b f lr1 ∧ SInv r ∧ lr.v.pos ≤ lr1.v.pos ∧ r.p.bin = s.p.bin) ?_ ?_
  · split
    · exact Wp.pure ⟨h, hs, Nat.le_refl _, rfl⟩
    · exact (wp_andPost (finish_ok (nextLit_ok true) s h hs) (finish_bin (nextLit_spec true) s)).mono
        fun r lr1 ⟨⟨a, b', c⟩, d⟩ => ⟨a, b', c, d⟩
  intro r lr1 ⟨i1, s1, p1, b1⟩
  exact Wp.pure ⟨i1, s1, p1, b1⟩

theorem toOutputs_ok (s : St) (h : Inv b f lr) (hs : SInv s) :
    Wp (Err b f) (toOutputs s) lr (TrPost b f s lr) := by
  unfold toOutputs
  refine Wp.bind' (Q1 := fun r lr1 => Inv b f lr1 ∧ SInv r ∧ lr.v.pos ≤ lr1.v.pos ∧ r.p.bin = s.p.bin) ?_ ?_
  · split
    · exact (wp_andPost (finish_ok nextLatchBin_ok s h hs) (finish_bin nextLatchBin_spec s)).mono
        fun r lr1 ⟨⟨a, b', c⟩, d⟩ => ⟨a, b', c, d⟩
    · exact (wp_andPost (finish_ok nextLatchAscii_ok s h hs) (finish_bin nextLatchAscii_spec s)).mono
        fun r lr1 ⟨⟨a, b', c⟩, d⟩ => ⟨a, b', c, d⟩
  intro r lr1 ⟨i1, s1, p1, b1⟩
  exact Wp.pure ⟨i1, s1, p1, b1⟩

theorem litTransition_ok (s : St) (h : Inv b f lr) (hs : SInv s) :
    Wp (Err b f) (finish (nextLit false) s) lr (TrPost b f s lr) :=
  (wp_andPost (finish_ok (nextLit_ok false) s h hs) (finish_bin (nextLit_spec false) s)).mono
    fun r lr1 ⟨⟨a, b', c⟩, d⟩ => ⟨a, b', c, d⟩

theorem toBad_ok (s : St) (h : Inv b f lr) (hs : SInv s) :
    Wp (Err b f) (toBad s) lr (TrPost b f s lr) := by
  unfold toBad
  refine Wp.bind' (litTransition_ok s h hs) ?_
  intro r lr1 ⟨i1, s1, p1, b1⟩
  exact Wp.pure ⟨i1, s1, p1, b1⟩

theorem toConstraints_ok (s : St) (h : Inv b f lr) (hs : SInv s) :
    Wp (Err b f) (toConstraints s) lr (TrPost b f s lr) := by
  unfold toConstraints
  refine Wp.bind' (litTransition_ok s h hs) ?_
  intro r lr1 ⟨i1, s1, p1, b1⟩
  exact Wp.pure ⟨i1, s1, p1, b1⟩

theorem toJusticeSizes_ok (s : St) (h : Inv b f lr) (hs : SInv s) :
    Wp (Err b f) (toJusticeSizes s) lr (TrPost b f s lr) := by
  unfold toJusticeSizes
  refine Wp.bind' (litTransition_ok s h hs) ?_
  intro r lr1 ⟨i1, s1, p1, b1⟩
  exact Wp.pure ⟨i1, Nat.zero_le _, p1, b1⟩

theorem toJusticeLits_ok (s : St) (h : Inv b f lr) (hs : SInv s) :
    Wp (Err b f) (toJusticeLits s) lr (TrPost b f s lr) := by
  unfold toJusticeLits
  refine Wp.bind' (wp_andPost (finish_ok nextJusticeSize_ok s h hs) (finish_bin nextJusticeSize_spec s)) ?_
  intro r lr1 ⟨⟨i1, s1, p1⟩, b1⟩
  exact Wp.pure ⟨i1, s1, p1, b1⟩

theorem toFairness_ok (s : St) (h : Inv b f lr) (hs : SInv s) :
    Wp (Err b f) (toFairness s) lr (TrPost b f s lr) := by
  unfold toFairness
  refine Wp.bind' (litTransition_ok s h hs) ?_
  intro r lr1 ⟨i1, s1, p1, b1⟩
  exact Wp.pure ⟨i1, s1, p1, b1⟩

theorem toAndGates_ok (s : St) (h : Inv b f lr) (hs : SInv s) :
    Wp (Err b f) (toAndGates s) lr (TrPost b f s lr) := by
  unfold toAndGates
  refine Wp.bind' (litTransition_ok s h hs) ?_
  intro r lr1 ⟨i1, s1, p1, b1⟩
  exact Wp.pure ⟨i1, s1, p1, b1⟩

/-- `ParseAndGates::symbols` of the ASCII parser. -/
theorem toSymbols_ok (s : St) (hb : s.p.bin = false) (h : Inv b f lr) (hs : SInv s) :
    Wp (Err b f) (toSymbols s) lr (fun _ lr1 => Inv b f lr1 ∧ lr.v.pos ≤ lr1.v.pos) := by
  unfold toSymbols
  simp only [hb, Bool.false_eq_true, ↓reduceIte]
  refine Wp.bind' (finish_ok nextAndGateAscii_ok s h hs) ?_
  intro r lr1 ⟨i1, _, p1⟩
  exact Wp.pure ⟨i1, p1⟩

/-! ### symbol table -/

theorem symAlt_ok (count : Nat) (c : UInt8) (notEol : Bool) (hc : c ≠ 10) (h : Inv b f lr) :
    Wp (Err b f) (symAlt count c notEol) lr (LinePost b f lr) := by
  unfold symAlt
  have hpat : ∀ x ∈ [c], x ≠ 10 := by intro x hx; simp only [List.mem_singleton] at hx; rw [hx]; exact hc
  split
  · rename_i hcount
    refine Wp.bind' (Q1 := TokPost b f lr) ?_ ?_
    · split
      · exact fixedNotEol_ok _ hpat h
      · exact fixed_ok _ hpat h
    intro r lr1 ⟨i1, f1, p1⟩
    cases r with
    | none => exact Wp.pure ⟨i1, f1.pos, by simp⟩
    | some u =>
      have hp := p1 rfl
      dsimp only
      refine Wp.bind (checkedSub_ok (by omega) ?_)
      refine Wp.bind' (symbolIndex_ok _ i1) ?_
      intro idx lr2 ⟨⟨i2, p2, _⟩, _⟩
      exact Wp.pure ⟨i2, by omega, fun _ => by omega⟩
  · exact Wp.pure ⟨h, Nat.le_refl _, by simp⟩

theorem symTarget_ok (alts : List (SymKind × Nat × UInt8 × Bool)) (halts : ∀ a ∈ alts, a.2.2.1 ≠ 10) :
    ∀ lr, Inv b f lr → Wp (Err b f) (symTarget alts) lr (LinePost b f lr) := by
  induction alts with
  | nil => intro lr h; unfold symTarget; exact Wp.pure ⟨h, Nat.le_refl _, by simp⟩
  | cons a alts ih =>
    intro lr h
    obtain ⟨k, count, c, ne⟩ := a
    unfold symTarget
    refine Wp.bind' (symAlt_ok count c ne (halts (k, count, c, ne) (by simp)) h) ?_
    intro r lr1 ⟨i1, p1, q1⟩
    cases r with
    | some idx => exact Wp.pure ⟨i1, p1, fun _ => q1 rfl⟩
    | none =>
      refine (ih (fun a ha => halts a (by simp [ha])) lr1 i1).mono ?_
      intro r lr2 ⟨i2, p2, q2⟩
      exact ⟨i2, by omega, fun hr => by have := q2 hr; omega⟩

theorem symKinds_noLF (hd : Header) : ∀ a ∈ symKinds hd, a.2.2.1 ≠ 10 := by
  intro a ha
  simp only [symKinds, List.mem_cons, List.mem_nil_iff, or_false] at ha
  rcases ha with rfl | rfl | rfl | rfl | rfl | rfl | rfl <;> (dsimp only; decide)

/-- `next_symbol` (after the `fix:` for F3: `count - 1` is computed under `count > 0` of the same
count, so it cannot underflow). -/
theorem nextSymbol_ok (p : Parser) (h : Inv b f lr) :
    Wp (Err b f) (nextSymbol p) lr (LinePost b f lr) := by
  unfold nextSymbol
  refine Wp.bind' (symTarget_ok _ (symKinds_noLF p.header) lr h) ?_
  intro r lr1 ⟨i1, p1, q1⟩
  cases r with
  | none => exact Wp.pure ⟨i1, p1, by simp⟩
  | some t =>
    obtain ⟨kind, index⟩ := t
    dsimp only
    refine Wp.bind' (requiredSpace_ok i1) ?_
    intro _ lr2 ⟨i2, f2⟩
    refine Wp.bind' (remainingLineContent_ok i2) ?_
    intro name lr3 ⟨i3, p3⟩
    have := f2.pos
    exact Wp.pure ⟨i3, by omega, fun _ => by omega⟩

/-- `while self.next_symbol()?.is_some() {}`: every symbol consumes input, so the fuel suffices. -/
theorem skipSymbols_ok (p : Parser) :
    ∀ (fuel : Nat) (lr : LR), Inv b f lr → lr.v.rest.length < fuel →
      Wp (Err b f) (skipSymbols p fuel) lr (fun _ lr1 => Inv b f lr1 ∧ lr.v.pos ≤ lr1.v.pos) := by
  intro fuel
  induction fuel with
  | zero => intro lr _ hf; omega
  | succ fuel ih =>
    intro lr h hf
    unfold skipSymbols
    refine Wp.bind' (nextSymbol_ok p h) ?_
    intro r lr1 ⟨i1, p1, q1⟩
    split
    · rename_i hsome
      have hlt := Base.rest_lt h.toBase i1.toBase (q1 hsome)
      refine (ih lr1 i1 (by omega)).mono ?_
      intro _ lr2 ⟨i2, p2⟩
      exact ⟨i2, by omega⟩
    · exact Wp.pure ⟨i1, p1⟩

end Aiger
end Flussab

namespace Flussab
namespace Aiger
open PM Lines

variable {b : VBytes} {f : Bool} {lr lr0 : LR}

/-! ### the comment -/

/-- The trailing run of `B` satisfying `p`, as `remaining_file_content` finds it by scanning the
reversed bytes. -/
theorem suffix_run (p : UInt8 → Bool) (B : VBytes) :
    (B.reverse.takeWhile p).length ≤ B.length ∧
    AllAt (fun x => p x = true) B (B.length - (B.reverse.takeWhile p).length) B.length ∧
    ((B.reverse.takeWhile p).length < B.length →
      ∃ x, B[B.length - (B.reverse.takeWhile p).length - 1]? = some x ∧ p x = false) := by
  have hle : (B.reverse.takeWhile p).length ≤ B.length := by
    have := C13.takeWhile_length_le p B.reverse; simpa using this
  refine ⟨hle, ?_, ?_⟩
  · intro i h1 h2
    have := allAt_takeWhile p B.reverse 0
    simp only [List.drop_zero, Nat.zero_add] at this
    obtain ⟨x, hx, hp⟩ := this (B.length - 1 - i) (Nat.zero_le _) (by omega)
    rw [List.getElem?_reverse (by omega)] at hx
    have : B.length - 1 - (B.length - 1 - i) = i := by omega
    rw [this] at hx
    exact ⟨x, hx, hp⟩
  · intro hlt
    have hk : (B.reverse.takeWhile p).length < B.reverse.length := by simpa using hlt
    refine ⟨B.reverse[(B.reverse.takeWhile p).length], ?_, ?_⟩
    · rw [← List.getElem?_eq_getElem hk, List.getElem?_reverse (by simpa using hlt)]
      congr 1; omega
    · exact getElem?_takeWhile_length p B.reverse _ (List.getElem?_eq_getElem hk)


/-- The line number after jumping over `B.take (adv - 1)` and the newline behind it. -/
theorem lineAt_jump (h : Inv b f lr0) (adv : Nat) (h1 : 1 ≤ adv) (hle : adv ≤ lr0.v.rest.length)
    (h10 : lr0.v.rest[adv - 1]? = some 10) :
    LineAt b (lr0.v.pos + adv)
      (lr0.line + ((lr0.v.rest.take (adv - 1)).filter (· == 10)).length + 1) ∧
    lr0.line + ((lr0.v.rest.take (adv - 1)).filter (· == 10)).length + 1 ≤ b.length + 1 := by
  have hl := h.rest_length
  have hpl := h.pos_le
  have hb10 : b[lr0.v.pos + adv - 1]? = some 10 := by
    have := h.getElem? (adv - 1)
    rw [h10] at this
    have e : lr0.v.pos + (adv - 1) = lr0.v.pos + adv - 1 := by omega
    rw [e] at this; exact this.symm
  have hcnt : (b.take (lr0.v.pos + adv)).count 10 =
      (b.take lr0.lineStart).count 10 + ((lr0.v.rest.take (adv - 1)).filter (· == 10)).length + 1 := by
    have e1 : lr0.v.pos + adv = (lr0.v.pos + adv - 1) + 1 := by omega
    rw [e1, count_take_lf b _ hb10]
    have e2 : lr0.v.pos + adv - 1 = lr0.v.pos + (adv - 1) := by omega
    rw [e2, List.take_add, List.count_append, ← h.rest,
      count_take_of_noLF b _ _ h.online.le h.online.nolf]
    simp only [List.count_eq_length_filter]
  rcases h.online.lineAt with ⟨hst, hline⟩ | ⟨hs, _⟩
  · refine ⟨Or.inl ⟨⟨by omega, Or.inr hb10⟩, ?_⟩, ?_⟩
    · rw [hcnt, hline]; omega
    · have := count_take_le b (lr0.v.pos + adv)
      rw [hcnt] at this
      omega
  · have := h.online.le
    omega


theorem fileContentSeek_ok (e : Ext lr0 lr) (h : Inv b f lr0) (n : Nat) (hn : n ≤ lr0.v.rest.length)
    (hp : lr0.v.pos + n ≤ lr.v.peeked) :
    Wp (Err b f) (fileContentSeek (lr0.v.rest.take n)) lr (fun r lr1 => Inv b f lr1 ∧
      r ≤ lr1.v.rest.length ∧ lr1.v.pos + r ≤ lr1.v.peeked ∧ AllAt (· ≠ 10) lr1.v.rest 0 r) := by
  unfold fileContentSeek
  simp only [C16.runLen_eq_takeWhile]
  have hB : (lr0.v.rest.take n).length = n := by simp only [List.length_take]; omega
  obtain ⟨hk, hsuf, hlast⟩ := suffix_run (· != 10) (lr0.v.rest.take n)
  have hget : ∀ i, i < n → (lr0.v.rest.take n)[i]? = lr0.v.rest[i]? :=
    fun i hi => List.getElem?_take_of_lt hi
  generalize ((lr0.v.rest.take n).reverse.takeWhile (· != 10)).length = k at hk hsuf hlast ⊢
  rw [hB] at hk hsuf hlast ⊢
  have hsuf' : AllAt (· ≠ 10) lr0.v.rest (n - k) n := by
    intro i h1 h2
    obtain ⟨x, hx, hpx⟩ := hsuf i h1 h2
    rw [hget i h2] at hx
    exact ⟨x, hx, by simpa using hpx⟩
  split
  · rename_i hlt
    obtain ⟨x, hx, hpx⟩ := hlast hlt
    rw [hget _ (by omega)] at hx
    have hx10 : x = 10 := by simpa using hpx
    subst hx10
    have e1 : n - k - 1 = (n - k) - 1 := rfl
    have htt : (lr0.v.rest.take n).take (n - k - 1) = lr0.v.rest.take (n - k - 1) := by
      rw [List.take_take]; congr 1; omega
    rw [htt]
    obtain ⟨hline, hbound⟩ := lineAt_jump h (n - k) (by omega) (by omega) hx
    generalize hskip : ((lr0.v.rest.take (n - k - 1)).filter (· == 10)).length = skip at hline hbound ⊢
    have hsz := h.size
    unfold SizeOK at hsz
    have hl := h.rest_length
    have hpl := h.pos_le
    refine Wp.bind (Wp.get ?_)
    have hno : ¬ lr.line + skip > usizeMax := by rw [e.line]; omega
    simp only [hno, ↓reduceIte]
    refine Wp.bind (Wp.set ?_)
    refine Wp.bind (Wp.advance (demanded_ge (by show n - k ≤ lr.v.rest.length; rw [e.rest]; omega)
      (by show lr.v.pos + (n - k) ≤ lr.v.peeked; rw [e.pos]; omega)) ?_)
    refine Wp.bind (Wp.lineAtOffset (by show lr.line + skip + 1 ≤ usizeMax; rw [e.line]; omega)
      (by show lr.v.pos + (n - k) + 0 ≤ usizeMax; rw [e.pos]; omega) ?_)
    refine Wp.pure ⟨?_, ?_, ?_, ?_⟩
    · refine { size := h.size, rest := ?_, pos_le := ?_, fault := ?_, online := ?_, finv := e.finv h.finv }
      · show lr.v.rest.drop (n - k) = b.drop (lr.v.pos + (n - k))
        rw [e.rest, e.pos, h.rest, List.drop_drop]
      · show lr.v.pos + (n - k) ≤ b.length
        rw [e.pos]; omega
      · show lr.v.fault = f
        rw [e.fault]; exact h.fault
      · show OnLine b (lr.v.pos + (n - k) + 0) (lr.line + skip + 1) (lr.v.pos + (n - k))
        rw [e.pos, e.line]
        exact ⟨by omega, by omega, fun i h1 h2 => by omega, hline⟩
    · show n - (n - k) ≤ (lr.v.rest.drop (n - k)).length
      rw [e.rest, List.length_drop]; omega
    · show lr.v.pos + (n - k) + (n - (n - k)) ≤ lr.v.peeked
      rw [e.pos]; omega
    · show AllAt (· ≠ 10) (lr.v.rest.drop (n - k)) 0 (n - (n - k))
      rw [e.rest]
      intro i h1 h2
      obtain ⟨y, hy, hpy⟩ := hsuf' (n - k + i) (by omega) (by omega)
      exact ⟨y, by rw [List.getElem?_drop]; exact hy, hpy⟩
  · rename_i hge
    have hkn : n - k = 0 := by omega
    rw [hkn] at hsuf'
    exact Wp.pure ⟨h.ext e, by rw [e.rest]; exact hn, by rw [e.pos]; exact hp, by rw [e.rest]; exact hsuf'⟩


/-- `check_io_error()?`: a parked error ends the parse as an I/O error (only a failing source
parks one); otherwise nothing changes. -/
theorem checkIoError_ok (e : Ext lr0 lr) (h : Inv b f lr0) :
    Wp (Err b f) checkIoError lr (fun _ lr1 => Ext lr0 lr1 ∧ lr1.v.peeked = lr.v.peeked ∧
      lr1.v.ioErr = false ∧ lr1.v.sawEnd = lr.v.sawEnd) := by
  unfold checkIoError
  refine Wp.bind (Wp.get ?_)
  simp only [View.checkIoError]
  refine Wp.bind (Wp.set ?_)
  have i1 := h.ext e
  by_cases hio : lr.v.ioErr = true
  · simp only [hio, ↓reduceIte]
    refine Wp.throw ⟨?_, ?_⟩
    · exact { size := i1.size, rest := i1.rest, pos_le := i1.pos_le, fault := i1.fault,
              online := i1.online }
    · show f = true
      rw [← i1.fault]; exact i1.finv.2 hio
  · have hio' : lr.v.ioErr = false := by simpa using hio
    simp only [hio', Bool.false_eq_true, ↓reduceIte]
    refine Wp.pure ⟨⟨e.rest, e.pos, e.mark, e.line, e.lineStart, e.peeked, e.fault, ?_⟩, rfl, rfl, rfl⟩
    intro hf
    have := e.finv hf
    refine ⟨?_, ?_⟩
    · intro h1 h2
      have := this.1 h1 h2
      rw [hio'] at this; exact absurd this (by simp)
    · intro h1; exact absurd h1 (by simp)

/-- `remaining_file_content` (after the `fix:` for F6): never panics; a failing source gives an
I/O error; the UTF-8 / missing-newline error is reported on the last line that contains valid
data, with the line number advanced by the newlines skipped. -/
theorem remainingFileContent_ok (h : Inv b f lr) :
    Wp (Err b f) remainingFileContent lr (fun _ _ => f = false) := by
  unfold remainingFileContent
  refine Wp.bind (Wp.get ?_)
  refine Wp.bind' (Wp.reqAtF (Ext.refl lr) lr.v.rest.length) ?_
  intro c lr1 ⟨e1, hc, p1, hse⟩
  have hse1 : lr1.v.sawEnd = true := hse (by rw [hc]; exact List.getElem?_eq_none (Nat.le_refl _))
  refine Wp.bind' (checkIoError_ok e1 h) ?_
  intro _ lr2 ⟨e2, p2, hio2, hse2⟩
  have hf : f = false := by
    have i2 := h.ext e2
    cases hf : f
    · rfl
    · have := i2.finv.1 (by rw [i2.fault]; exact hf) (by rw [hse2]; exact hse1)
      rw [hio2] at this; cases this
  refine Wp.bind (Wp.bufPrefixF e2 (Nat.le_refl _) (by omega) ?_)
  dsimp only
  split
  · refine Wp.bind (Wp.advanceWithBuf (demanded_ge (by rw [e2.rest]; exact Nat.le_refl _)
      (by rw [e2.pos]; omega)) ?_)
    exact Wp.pure hf
  · have hup := utf8ValidUpTo_le (lr.v.rest.take lr.v.rest.length)
    simp only [List.length_take, Nat.min_self] at hup
    have htt : (lr.v.rest.take lr.v.rest.length).take (utf8ValidUpTo (lr.v.rest.take lr.v.rest.length)) =
        lr.v.rest.take (utf8ValidUpTo (lr.v.rest.take lr.v.rest.length)) := by
      rw [List.take_take]; congr 1; omega
    rw [htt]
    refine Wp.bind' (fileContentSeek_ok e2 h _ hup (by omega)) ?_
    intro r lr3 ⟨i3, hr, hpk, hall⟩
    refine Wp.bind' (Wp.adv (Ext.refl lr3) i3 hr hpk hall) ?_
    intro _ lr4 ⟨i4, _⟩
    exact unexpected_ok i4

/-- `ParseSymbols::comment`. -/
theorem comment_ok (p : Parser) (h : Inv b f lr) :
    Wp (Err b f) (comment p) lr (fun _ _ => f = false) := by
  unfold comment
  refine Wp.bind (Wp.get ?_)
  refine Wp.bind' (skipSymbols_ok p _ lr h (by omega)) ?_
  intro _ lr1 ⟨i1, _⟩
  refine Wp.bind' (fixed_ok [99] (by decide) i1) ?_
  intro r lr2 ⟨i2, _, _⟩
  split
  · refine Wp.bind' (requiredNewline_ok i2) ?_
    intro _ lr3 ⟨i3, _⟩
    refine Wp.bind' (remainingFileContent_ok i3) ?_
    intro _ _ hf
    exact Wp.pure hf
  · refine Wp.bind' (Q1 := fun _ _ => f = false) (Wp.orGiveUp ((eof_ok i2).mono ?_)) ?_
    · intro r lr3 ⟨i3, _, _, hr⟩
      cases r with
      | none => exact unexpected_ok i3
      | some _ => exact (hr rfl).1
    intro _ _ hf
    exact Wp.pure hf

end Aiger
end Flussab
