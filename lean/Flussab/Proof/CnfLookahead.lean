/-
Look-ahead of the DIMACS clause parsers (property C09, parser layer): how far the ghost
`View.peeked` ("all stream offsets below it have been demanded from the reader") can be ahead of
the cursor when an item is handed out.

This is a second, partial-correctness pass over `Model/CnfToken.lean` / `Model/Cnf.lean` with the
trivial error postcondition `T` (every error — and formally every panic — is accepted here; that
there are no panics is C05): only what holds when a function *returns* is tracked.

`Tight lr` : at most the byte under the cursor has been demanded (`peeked ≤ pos + 1`).  Every
token that succeeds re-establishes it (they end with `tabs_or_spaces`, which looks at the first
non-blank byte and no further).  A token that falls through may have looked further — a `-` or a
digit run not followed by a word end, a lone `\r` — but then the first byte in front of the
cursor is one (`ItemStart`, `\r`) on which none of the alternatives tried afterwards can succeed:
the call ends in an error and no item is handed out.  `Done lr` : the cursor is behind the line
end that completes the item and nothing beyond it has been demanded, or the end of the input has
been observed.
-/
import Flussab.Proof.CnfSafe

namespace Flussab
namespace Cnf
open PM

/-- Partial correctness: any error outcome is accepted. -/
abbrev T : PErr → LR → Prop := fun _ _ => True

/-- At most the byte under the cursor has been demanded. -/
def Tight (lr : LR) : Prop := lr.v.peeked ≤ lr.v.pos + 1

/-- Nothing behind the cursor has been demanded, or the end of the input has been observed (by
`eof`, which requires that no I/O error is parked). -/
def Done (lr : LR) : Prop :=
  (lr.v.peeked ≤ lr.v.pos ∨ (lr.v.sawEnd = true ∧ lr.v.ioErr = false)) ∧ Tight lr

/-- Nothing was consumed. -/
structure Same (lr lr1 : LR) : Prop where
  rest : lr1.v.rest = lr.v.rest
  pos : lr1.v.pos = lr.v.pos

theorem Same.refl (lr : LR) : Same lr lr := ⟨rfl, rfl⟩
theorem Same.trans {a b c : LR} (h1 : Same a b) (h2 : Same b c) : Same a c :=
  ⟨h2.rest.trans h1.rest, h2.pos.trans h1.pos⟩
theorem Same.of_ext {a b : LR} (e : Ext a b) : Same a b := ⟨e.rest, e.pos⟩
theorem Same.symm {a b : LR} (h : Same a b) : Same b a := ⟨h.rest.symm, h.pos.symm⟩

/-- First bytes of the tokens that start a clause item: a digit, `-`, `{`. -/
def ItemStart (o : Option UInt8) : Prop := ∃ x, o = some x ∧ (isDigit x = true ∨ x = 45 ∨ x = 123)

theorem ItemStart.ne {o : Option UInt8} (h : ItemStart o) :
    o ≠ none ∧ o ≠ some 10 ∧ o ≠ some 13 ∧ o ≠ some 99 ∧ o ≠ some 112 := by
  obtain ⟨x, hx, hc⟩ := h
  subst hx
  refine ⟨by simp, ?_, ?_, ?_, ?_⟩ <;> (intro he; simp at he; subst he; revert hc; decide)

/-- A `\r` that is not followed by `\n` in front of the cursor: the `newline` scanner looks at
both bytes and passes over neither. -/
def LoneCR (lr : LR) : Prop := lr.v.rest[0]? = some 13 ∧ lr.v.rest[1]? ≠ some 10

/-- A line break (LF or CRLF) in front of the cursor. -/
def AtBreak (lr : LR) : Prop :=
  lr.v.rest[0]? = some 10 ∨ (lr.v.rest[0]? = some 13 ∧ lr.v.rest[1]? = some 10)

theorem LoneCR.same {a b : LR} (h : LoneCR a) (s : Same a b) : LoneCR b := by
  unfold LoneCR at *; rw [s.rest]; exact h

theorem AtBreak.same {a b : LR} (h : AtBreak a) (s : Same a b) : AtBreak b := by
  unfold AtBreak at *; rw [s.rest]; exact h

theorem AtBreak.not_loneCR {a : LR} (h : AtBreak a) (h' : LoneCR a) : False := by
  rcases h with h | ⟨_, h⟩
  · rw [h'.1] at h; simp at h
  · exact h'.2 h

theorem AtBreak.not_itemStart {a : LR} (h : AtBreak a) (h' : ItemStart a.v.rest[0]?) : False := by
  have := h'.ne
  rcases h with h | ⟨h, _⟩ <;> simp [h] at this

theorem LoneCR.not_itemStart {a : LR} (h : LoneCR a) (h' : ItemStart a.v.rest[0]?) : False := by
  have := h'.ne
  simp [h.1] at this

/-- The two ways `parse_header` can fall through having looked at two bytes: a lone `\r`, or a
`p` that does not start a header word.  `next_clause` fails on both. -/
def Dead (lr : LR) : Prop := LoneCR lr ∨ lr.v.rest[0]? = some 112

/-- The look-ahead state between the calls of a parse. -/
def Ready (lr : LR) : Prop := Tight lr ∨ Dead lr

theorem Dead.same {a b : LR} (h : Dead a) (s : Same a b) : Dead b := by
  rcases h with h | h
  · exact Or.inl (h.same s)
  · exact Or.inr (by rw [s.rest]; exact h)

theorem Dead.first {a : LR} (h : Dead a) :
    a.v.rest[0]? = some 13 ∨ a.v.rest[0]? = some 112 := h.imp (fun h => h.1) id

theorem Dead.not_itemStart {a : LR} (h : Dead a) (h' : ItemStart a.v.rest[0]?) : False := by
  have := h'.ne
  rcases h.first with h | h <;> simp [h] at this

theorem Dead.not_atBreak {a : LR} (h : Dead a) (h' : AtBreak a) : False := by
  rcases h with h | h
  · exact h'.not_loneCR h
  · rcases h' with h' | ⟨h', _⟩ <;> (rw [h] at h'; simp at h')

variable {lr lr0 : LR}

/-! ### partial-correctness rules for the primitives with side conditions -/

/-- Nothing is claimed. -/
theorem Wp.top {α : Type} (m : PM α) : Wp T m lr (fun _ _ => True) := by
  unfold Wp
  rcases m.run lr with ⟨_ | _, _⟩ <;> trivial

theorem Wp.advance_pc (n : Nat) :
    Wp T (PM.advance n) lr (fun _ lr1 => lr1.v.pos = lr.v.pos + n ∧ lr1.v.peeked = lr.v.peeked ∧
      lr1.v.sawEnd = lr.v.sawEnd ∧ lr1.v.rest = lr.v.rest.drop n) := by
  unfold PM.advance
  refine Wp.bind (Wp.get ?_)
  by_cases hn : n ≤ lr.v.demanded
  · simp only [View.advance, hn, ↓reduceIte]
    exact Wp.set ⟨rfl, rfl, rfl, rfl⟩
  · simp only [View.advance, hn, ↓reduceIte]
    trivial

theorem Wp.lineAtOffset_pc (off : Nat) :
    Wp T (PM.lineAtOffset off) lr (fun _ lr1 => lr1.v = lr.v) := by
  unfold PM.lineAtOffset
  refine Wp.bind (Wp.get ?_)
  split
  · trivial
  · exact Wp.set rfl

theorem Wp.bufPrefix_pc (n : Nat) : Wp T (PM.bufPrefix n) lr (fun _ lr1 => lr1 = lr) := by
  unfold PM.bufPrefix
  refine Wp.bind (Wp.get ?_)
  split
  · exact Wp.pure rfl
  · trivial

theorem Wp.utf8_pc (bs : VBytes) : Wp T (PM.utf8Unwrap bs) lr (fun _ lr1 => lr1 = lr) := by
  unfold PM.utf8Unwrap
  split
  · exact Wp.pure rfl
  · trivial

/-- `give_up_at` never returns. -/
theorem Wp.giveUpAt_pc {α : Type} {Q : α → LR → Prop} (p : Nat) :
    Wp T (PM.giveUpAt p : PM α) lr Q := by
  unfold PM.giveUpAt
  refine Wp.bind (Wp.get ?_)
  simp only [View.checkIoError]
  refine Wp.bind (Wp.set ?_)
  by_cases h1 : lr.v.ioErr = true
  · simp only [h1, ↓reduceIte]; trivial
  · by_cases h2 : p < lr.lineStart
    · simp only [h1, h2, ↓reduceIte]; trivial
    · simp only [h1, h2, ↓reduceIte]; trivial

theorem Wp.giveUp_pc {α : Type} {Q : α → LR → Prop} : Wp T (PM.giveUp : PM α) lr Q := by
  unfold PM.giveUp
  exact Wp.bind (Wp.position (Wp.giveUpAt_pc _))

theorem unexpected_pc {α : Type} {Q : α → LR → Prop} : Wp T (unexpected : PM α) lr Q := by
  unfold unexpected
  refine Wp.bind' (Wp.newline0F (Ext.refl lr)) ?_
  intro r lr1 _
  split
  · exact Wp.giveUp_pc
  · refine Wp.bind (Wp.get ?_)
    split
    · exact Wp.giveUp_pc
    · refine Wp.bind (Wp.get ?_)
      refine Wp.bind' (Wp.reqAtF (Ext.refl lr1) _) ?_
      intro _ lr2 _
      exact Wp.giveUp_pc

theorem exceedsVarCount_pc {α : Type} {Q : α → LR → Prop} :
    Wp T (exceedsVarCount : PM α) lr Q := by
  unfold exceedsVarCount
  exact Wp.bind (Wp.mark (Wp.giveUpAt_pc _))

/-! ### tokens -/

/-- Postcondition of the number scanners. -/
abbrev NumLA (lr : LR) (r : Option (Option Int)) (lr1 : LR) : Prop :=
  (∀ v, r = some (some v) → ItemStart lr.v.rest[0]? ∧ (Tight lr → Tight lr1)) ∧
  ((r = none ∨ r = some none) → Same lr lr1 ∧ (Tight lr → Tight lr1 ∨ ItemStart lr.v.rest[0]?))

/-- Postcondition of the optional tokens that start with a number. -/
abbrev OptLA {α : Type} (lr : LR) (r : Option α) (lr1 : LR) : Prop :=
  (r.isSome = true → ItemStart lr.v.rest[0]? ∧ (Tight lr → Tight lr1)) ∧
  (r = none → Same lr lr1 ∧ (Tight lr → Tight lr1 ∨ ItemStart lr.v.rest[0]?))

theorem numberTail_la (e : Ext lr0 lr) (value : Option Int) (off : Nat)
    (hC : off ≠ 0 → ItemStart lr0.v.rest[0]?)
    (hp : lr.v.peeked ≤ max lr0.v.peeked (lr0.v.pos + off + 1) ∨
      (off = 0 ∧ ItemStart lr0.v.rest[0]?)) :
    Wp T (numberTail value off) lr (NumLA lr0) := by
  unfold numberTail
  split
  · rename_i hne
    have hne' : off ≠ 0 := by simpa using hne
    have hc := hC hne'
    have hp' : lr.v.peeked ≤ max lr0.v.peeked (lr0.v.pos + off + 1) := by
      rcases hp with h | ⟨h, _⟩
      · exact h
      · exact absurd h hne'
    refine Wp.bind' (isEndOfWord_ok e off) ?_
    intro c lr2 ⟨e2, p2⟩
    split
    · split
      · refine Wp.bind' (Wp.tabsF e2 off) ?_
        intro off' lr3 ⟨e3, hle, _, _, p3⟩
        refine Wp.bind' (Wp.advance_pc off') ?_
        intro _ lr4 ⟨q1, q2, _, _⟩
        refine Wp.pure ⟨fun v _ => ⟨hc, fun ht => ?_⟩, fun hn => by simp at hn⟩
        have := e3.pos
        unfold Tight at *
        omega
      · refine Wp.bind' (Wp.bufPrefix_pc off) ?_
        intro _ lr3 h3
        refine Wp.bind' (Wp.utf8_pc _) ?_
        intro _ lr4 h4
        subst h4; subst h3
        exact Wp.pure ⟨fun v hv => by simp at hv, fun _ => ⟨Same.of_ext e2, fun _ => Or.inr hc⟩⟩
    · exact Wp.pure ⟨fun v hv => by simp at hv, fun _ => ⟨Same.of_ext e2, fun _ => Or.inr hc⟩⟩
  · rename_i hne
    have h0 : off = 0 := by simpa using hne
    refine Wp.pure ⟨fun v hv => by simp at hv, fun _ => ⟨Same.of_ext e, fun ht => ?_⟩⟩
    rcases hp with h | ⟨_, h⟩
    · left
      have := e.pos
      unfold Tight at *
      omega
    · exact Or.inr h

theorem uint_la (t : IntTy) : Wp T (uint t) lr (NumLA lr) := by
  unfold uint
  refine Wp.bind' (Wp.asciiDigitsF (Ext.refl lr) t 0) ?_
  intro r lr1 ⟨e1, _, hd, _, p1⟩
  obtain ⟨value, off⟩ := r
  refine numberTail_la e1 value off (fun hne => ?_) (Or.inl (by simp only at p1; omega))
  obtain ⟨x, hx, hdx⟩ := hd 0 (Nat.le_refl _) (by simp only; omega)
  exact ⟨x, hx, Or.inl hdx⟩

theorem int_la (t : IntTy) : Wp T (int t) lr (NumLA lr) := by
  unfold int
  refine Wp.bind' (Wp.signedDigits0F (Ext.refl lr) t) ?_
  intro r lr1 ⟨e1, _, hd, p1⟩
  obtain ⟨value, off⟩ := r
  refine numberTail_la e1 value off (fun hne => ?_) ?_
  · obtain ⟨x, hx, hdx⟩ := hd 0 (Nat.le_refl _) (by simp only; omega)
    exact ⟨x, hx, by rcases hdx with h | h <;> simp [h]⟩
  · rcases p1 with h | ⟨h0, h45, _⟩
    · exact Or.inl h
    · exact Or.inr ⟨h0, 45, h45, Or.inr (Or.inl rfl)⟩

theorem bracedUint_la (t : IntTy) : Wp T (bracedUint t) lr (NumLA lr) := by
  unfold bracedUint
  refine Wp.bind' (Wp.reqByteF (Ext.refl lr)) ?_
  intro c lr1 ⟨e1, hc, p1, _⟩
  split
  · refine Wp.pure ⟨fun v hv => by simp at hv, fun _ => ⟨Same.of_ext e1, fun ht => Or.inl ?_⟩⟩
    have := e1.pos
    unfold Tight at *
    omega
  · rename_i hbr
    have hc0 : lr.v.rest[0]? = some 123 := by rw [← hc]; simpa using hbr
    have hC : ItemStart lr.v.rest[0]? := ⟨123, hc0, Or.inr (Or.inr rfl)⟩
    refine Wp.bind' (Wp.asciiDigitsF e1 t 1) ?_
    intro r lr2 ⟨e2, hle, _, _, p2⟩
    obtain ⟨value, off⟩ := r
    dsimp only at hle p2 ⊢
    split
    · refine Wp.bind' (Wp.reqAtF e2 off) ?_
      intro c2 lr3 ⟨e3, _, p3, _⟩
      split
      · split
        · refine Wp.bind' (Wp.tabsF e3 (off + 1)) ?_
          intro off' lr4 ⟨e4, hle', _, _, p4⟩
          refine Wp.bind' (Wp.advance_pc off') ?_
          intro _ lr5 ⟨q1, q2, _, _⟩
          refine Wp.pure ⟨fun v _ => ⟨hC, fun ht => ?_⟩, fun hn => by simp at hn⟩
          have := e4.pos
          unfold Tight at *
          omega
        · refine Wp.bind' (Wp.bufPrefix_pc _) ?_
          intro _ lr4 h4
          refine Wp.bind' (Wp.utf8_pc _) ?_
          intro _ lr5 h5
          subst h5; subst h4
          exact Wp.pure ⟨fun v hv => by simp at hv, fun _ => ⟨Same.of_ext e3, fun _ => Or.inr hC⟩⟩
      · exact Wp.pure ⟨fun v hv => by simp at hv, fun _ => ⟨Same.of_ext e3, fun _ => Or.inr hC⟩⟩
    · exact Wp.pure ⟨fun v hv => by simp at hv, fun _ => ⟨Same.of_ext e2, fun _ => Or.inr hC⟩⟩

theorem word_la (pat : VBytes) :
    Wp T (word pat) lr (fun r lr1 =>
      (r.isSome = true → lr.v.rest[0]? = pat[0]? ∧ pat ≠ [] ∧ (Tight lr → Tight lr1)) ∧
      (r = none → Same lr lr1)) := by
  unfold word
  refine Wp.bind' (Wp.fixed0F (Ext.refl lr) pat) ?_
  intro off lr1 ⟨e1, _, p1, hoff⟩
  split
  · rename_i hne
    have hne' : off ≠ 0 := by simpa using hne
    rcases hoff with ⟨h0, _⟩ | ⟨hlen, hpre, hpk⟩
    · exact absurd h0 hne'
    have hpat : pat ≠ [] := by intro h; subst h; simp at hlen; exact hne' hlen
    have hfirst : lr.v.rest[0]? = pat[0]? := by
      have := List.prefix_iff_getElem?.mp hpre 0 (List.length_pos_iff.mpr hpat)
      rw [this, List.getElem?_eq_getElem (List.length_pos_iff.mpr hpat)]
    refine Wp.bind' (isEndOfWord_ok e1 off) ?_
    intro c lr2 ⟨e2, p2⟩
    split
    · refine Wp.bind' (Wp.tabsF e2 off) ?_
      intro off' lr3 ⟨e3, hle, _, _, p3⟩
      refine Wp.bind' (Wp.advance_pc off') ?_
      intro _ lr4 ⟨q1, q2, _, _⟩
      refine Wp.pure ⟨fun _ => ⟨hfirst, hpat, fun ht => ?_⟩, fun hn => by simp at hn⟩
      have := e3.pos
      unfold Tight at *
      omega
    · exact Wp.pure ⟨by simp, fun _ => Same.of_ext e2⟩
  · exact Wp.pure ⟨by simp, fun _ => Same.of_ext e1⟩

/-- `word(b"p")` falling through: one byte looked at, or the first byte is a `p`. -/
theorem wordP_la :
    Wp T (word [112]) lr (fun r lr1 =>
      (r.isSome = true → lr.v.rest[0]? = some 112 ∧ (Tight lr → Tight lr1)) ∧
      (r = none → Same lr lr1 ∧ (Tight lr → Tight lr1 ∨ lr.v.rest[0]? = some 112))) := by
  unfold word
  refine Wp.bind' (Wp.fixed0F (Ext.refl lr) [112]) ?_
  intro off lr1 ⟨e1, _, p1, hoff⟩
  have ht1 : Tight lr → Tight lr1 := by
    intro ht
    have := e1.pos
    simp only [List.length_cons, List.length_nil] at p1
    unfold Tight at *
    omega
  split
  · rename_i hne
    have hne' : off ≠ 0 := by simpa using hne
    rcases hoff with ⟨h0, _⟩ | ⟨hlen, hpre, hpk⟩
    · exact absurd h0 hne'
    have hfirst : lr.v.rest[0]? = some 112 := List.prefix_iff_getElem?.mp hpre 0 (by simp)
    refine Wp.bind' (isEndOfWord_ok e1 off) ?_
    intro c lr2 ⟨e2, p2⟩
    split
    · refine Wp.bind' (Wp.tabsF e2 off) ?_
      intro off' lr3 ⟨e3, hle, _, _, p3⟩
      refine Wp.bind' (Wp.advance_pc off') ?_
      intro _ lr4 ⟨q1, q2, _, _⟩
      refine Wp.pure ⟨fun _ => ⟨hfirst, fun ht => ?_⟩, fun hn => by simp at hn⟩
      have := e3.pos
      unfold Tight at *
      omega
    · exact Wp.pure ⟨by simp, fun _ => ⟨Same.of_ext e2, fun _ => Or.inr hfirst⟩⟩
  · exact Wp.pure ⟨by simp, fun _ => ⟨Same.of_ext e1, fun ht => Or.inl (ht1 ht)⟩⟩

theorem lineTailBlanks_la (off : Nat) :
    Wp T (do
        lineAtOffset off
        let off ← scan (Text.tabsOrSpaces · off)
        advance off
        pure (some ())) lr (fun r lr1 => r.isSome = true ∧ lr.v.pos + off ≤ lr1.v.pos ∧
      lr1.v.peeked ≤ max lr.v.peeked (lr1.v.pos + 1)) := by
  refine Wp.bind' (Wp.lineAtOffset_pc off) ?_
  intro _ lr1 hv
  refine Wp.bind' (Wp.tabsF (Ext.refl lr1) off) ?_
  intro off' lr2 ⟨e2, hle, _, _, p2⟩
  refine Wp.bind' (Wp.advance_pc off') ?_
  intro _ lr3 ⟨q1, q2, _, _⟩
  have h1 : lr1.v.pos = lr.v.pos := by rw [hv]
  have h2 : lr1.v.peeked = lr.v.peeked := by rw [hv]
  have := e2.pos
  exact Wp.pure ⟨rfl, by omega, by omega⟩

theorem lineTailPlain_la (off : Nat) :
    Wp T (do
        lineAtOffset off
        advance off
        pure (some ())) lr (fun r lr1 => r.isSome = true ∧ lr1.v.pos = lr.v.pos + off ∧
      lr1.v.peeked = lr.v.peeked) := by
  refine Wp.bind' (Wp.lineAtOffset_pc off) ?_
  intro _ lr1 hv
  refine Wp.bind' (Wp.advance_pc off) ?_
  intro _ lr3 ⟨q1, q2, _, _⟩
  have h1 : lr1.v.pos = lr.v.pos := by rw [hv]
  have h2 : lr1.v.peeked = lr.v.peeked := by rw [hv]
  exact Wp.pure ⟨rfl, by omega, by omega⟩

theorem comment_la :
    Wp T comment lr (fun r lr1 =>
      (r.isSome = true → lr.v.rest[0]? = some 99 ∧ (Tight lr → Tight lr1)) ∧
      (r = none → Same lr lr1 ∧ (Tight lr → Tight lr1))) := by
  unfold comment
  refine Wp.bind' (Wp.reqByteF (Ext.refl lr)) ?_
  intro c lr1 ⟨e1, hc, p1, _⟩
  have hp1 := e1.pos
  split
  · rename_i hcc
    have hc0 : lr.v.rest[0]? = some 99 := by rw [← hc]; simpa using hcc
    refine Wp.bind' (Wp.nextNewlineF e1 1) ?_
    intro off lr2 ⟨e2, hle, _, hcase⟩
    have hp2 := e2.pos
    refine (lineTailBlanks_la off).mono ?_
    intro r lr3 ⟨hsome, q1, q2⟩
    refine ⟨fun _ => ⟨hc0, fun ht => ?_⟩, fun hn => by rw [hn] at hsome; simp at hsome⟩
    unfold Tight at *
    rcases hcase with ⟨_, _, _, p2⟩ | ⟨_, _, p2, _⟩ <;> omega
  · refine Wp.pure ⟨by simp, fun _ => ⟨Same.of_ext e1, fun ht => ?_⟩⟩
    unfold Tight at *
    omega

theorem newline_la :
    Wp T newline lr (fun r lr1 =>
      (r.isSome = true → AtBreak lr ∧
        (Tight lr → Tight lr1)) ∧
      (r = none → Same lr lr1 ∧ (Tight lr → Tight lr1 ∨ LoneCR lr))) := by
  unfold newline
  refine Wp.bind' (Wp.newline0F (Ext.refl lr)) ?_
  intro off lr1 ⟨e1, hr, p1⟩
  have hp1 := e1.pos
  split
  · rename_i hne
    have hne' : off ≠ 0 := by simpa using hne
    simp only [hne', ↓reduceIte] at p1
    refine (lineTailBlanks_la off).mono ?_
    intro r lr3 ⟨hsome, q1, q2⟩
    refine ⟨fun _ => ⟨?_, fun ht => ?_⟩, fun hn => by rw [hn] at hsome; simp at hsome⟩
    · rcases hr with ⟨h0, _⟩ | ⟨_, h⟩ | ⟨_, h, h'⟩
      · exact absurd h0 hne'
      · exact Or.inl h
      · exact Or.inr ⟨h, h'⟩
    · unfold Tight at *
      omega
  · rename_i hne
    have h0 : off = 0 := by simpa using hne
    refine Wp.pure ⟨by simp, fun _ => ⟨Same.of_ext e1, fun ht => ?_⟩⟩
    by_cases h13 : lr.v.rest[0]? = some 13
    · rcases hr with ⟨_, _, h⟩ | ⟨h, _⟩ | ⟨h, _⟩
      · exact Or.inr ⟨h13, h h13⟩
      · omega
      · omega
    · left
      simp only [h0, ↓reduceIte, h13] at p1
      unfold Tight at *
      omega

theorem interactiveNewline_la :
    Wp T interactiveNewline lr (fun r lr1 =>
      (r.isSome = true → (Tight lr → lr1.v.peeked ≤ lr1.v.pos)) ∧
      (r = none → Same lr lr1 ∧ (Tight lr → Tight lr1 ∨ LoneCR lr))) := by
  unfold interactiveNewline
  refine Wp.bind' (Wp.newline0F (Ext.refl lr)) ?_
  intro off lr1 ⟨e1, hr, p1⟩
  have hp1 := e1.pos
  split
  · rename_i hne
    have hne' : off ≠ 0 := by simpa using hne
    simp only [hne', ↓reduceIte] at p1
    refine (lineTailPlain_la off).mono ?_
    intro r lr3 ⟨hsome, q1, q2⟩
    refine ⟨fun _ ht => ?_, fun hn => by rw [hn] at hsome; simp at hsome⟩
    unfold Tight at *
    omega
  · rename_i hne
    have h0 : off = 0 := by simpa using hne
    refine Wp.pure ⟨by simp, fun _ => ⟨Same.of_ext e1, fun ht => ?_⟩⟩
    by_cases h13 : lr.v.rest[0]? = some 13
    · rcases hr with ⟨_, _, h⟩ | ⟨h, _⟩ | ⟨h, _⟩
      · exact Or.inr ⟨h13, h h13⟩
      · omega
      · omega
    · left
      simp only [h0, ↓reduceIte, h13] at p1
      unfold Tight at *
      omega

theorem eof_la :
    Wp T eof lr (fun r lr1 => Same lr lr1 ∧ (Tight lr → Tight lr1) ∧
      (r.isSome = true → lr.v.rest[0]? = none ∧ lr1.v.sawEnd = true ∧ lr1.v.ioErr = false)) := by
  unfold eof
  refine Wp.bind' (Wp.reqByteF (Ext.refl lr)) ?_
  intro c lr1 ⟨e1, hc, p1, hse⟩
  have hp1 := e1.pos
  have ht : Tight lr → Tight lr1 := by
    intro ht; unfold Tight at *; omega
  split
  · rename_i hnone
    have hcn : c = none := by simpa using hnone
    refine Wp.bind (Wp.get ?_)
    split
    · rename_i hio
      exact Wp.pure ⟨Same.of_ext e1, ht,
        fun _ => ⟨by rw [← hc]; exact hcn, hse hcn, by simpa using hio⟩⟩
    · exact Wp.pure ⟨Same.of_ext e1, ht, by simp⟩
  · exact Wp.pure ⟨Same.of_ext e1, ht, by simp⟩

theorem interactiveEndOfLine_la :
    Wp T interactiveEndOfLine lr (fun r lr1 => r.isSome = true → Tight lr → Done lr1) := by
  unfold interactiveEndOfLine
  refine Wp.orParse (interactiveNewline_la.mono ?_)
  intro r lr1 ⟨hs, hn⟩
  cases r with
  | some a =>
    intro _ ht
    have := hs rfl ht
    exact ⟨Or.inl this, by unfold Tight; omega⟩
  | none =>
    obtain ⟨same, h1⟩ := hn rfl
    refine eof_la.mono ?_
    intro r2 lr2 ⟨same2, ht2, hs2⟩ hsome ht
    obtain ⟨hnone, hse, hio⟩ := hs2 hsome
    rw [same.rest] at hnone
    rcases h1 ht with h | h
    · exact ⟨Or.inr ⟨hse, hio⟩, ht2 h⟩
    · rw [h.1] at hnone; simp at hnone

theorem orGiveUp_eol_la :
    Wp T (orGiveUp interactiveEndOfLine unexpected) lr (fun _ lr1 => Tight lr → Done lr1) := by
  refine Wp.orGiveUp (interactiveEndOfLine_la.mono ?_)
  intro r lr1 h
  cases r with
  | some a => exact h rfl
  | none => exact unexpected_pc

theorem skipWhitespace_la : Wp T skipWhitespace lr (fun _ lr1 => Tight lr → Tight lr1) := by
  unfold skipWhitespace
  refine Wp.bind' (Wp.tabsF (Ext.refl lr) 0) ?_
  intro off lr1 ⟨e1, _, _, _, p1⟩
  refine (Wp.advance_pc off).mono ?_
  intro _ lr2 ⟨q1, q2, _, _⟩ ht
  have := e1.pos
  unfold Tight at *
  omega

theorem setMark_la :
    Wp T setMark lr (fun _ lr1 => Same lr lr1 ∧ lr1.v.peeked = lr.v.peeked) :=
  Wp.setMark ⟨⟨rfl, rfl⟩, rfl⟩

theorem tight_iff {lr lr1 : LR} (h : Same lr lr1) (hp : lr1.v.peeked = lr.v.peeked) :
    Tight lr ↔ Tight lr1 := by
  unfold Tight; rw [h.pos, hp]

/-- A token function of the shape `set_mark(); number(..)…`: transfer of the number scanner's
postcondition over the `set_mark`. -/
theorem numLA_transfer {lr lr1 lr2 : LR} {r : Option (Option Int)} (h : Same lr lr1)
    (hp : lr1.v.peeked = lr.v.peeked) (hn : NumLA lr1 r lr2) : NumLA lr r lr2 := by
  obtain ⟨h1, h2⟩ := hn
  rw [h.rest] at h1 h2
  refine ⟨fun v hv => ⟨(h1 v hv).1, fun ht => (h1 v hv).2 ((tight_iff h hp).mp ht)⟩, fun hr => ?_⟩
  obtain ⟨s, t⟩ := h2 hr
  exact ⟨h.trans s, fun ht => t ((tight_iff h hp).mp ht)⟩

theorem varCount_la (l : LitTy) : Wp T (varCount l) lr (OptLA lr) := by
  unfold varCount
  refine Wp.bind' setMark_la ?_
  intro _ lr1 ⟨s1, p1⟩
  refine Wp.bind' (uint_la usizeTy) ?_
  intro r lr2 hn
  obtain ⟨h1, h2⟩ := numLA_transfer s1 p1 hn
  split
  · exact Wp.pure ⟨by simp, fun _ => h2 (Or.inl rfl)⟩
  · exact exceedsVarCount_pc
  · split
    · exact exceedsVarCount_pc
    · exact Wp.pure ⟨fun _ => h1 _ rfl, fun hn => by simp at hn⟩

theorem uintCount_la (t : IntTy) : Wp T (uintCount t) lr (OptLA lr) := by
  unfold uintCount
  refine Wp.bind' setMark_la ?_
  intro _ lr1 ⟨s1, p1⟩
  refine Wp.bind' (uint_la t) ?_
  intro r lr2 hn
  obtain ⟨h1, h2⟩ := numLA_transfer s1 p1 hn
  split
  · exact Wp.pure ⟨by simp, fun _ => h2 (Or.inl rfl)⟩
  · exact Wp.giveUp_pc
  · exact Wp.pure ⟨fun _ => h1 _ rfl, fun hn => by simp at hn⟩

theorem clauseGroup_la (limit : Int) : Wp T (clauseGroup limit) lr (OptLA lr) := by
  unfold clauseGroup
  refine Wp.bind' setMark_la ?_
  intro _ lr1 ⟨s1, p1⟩
  refine Wp.bind' (bracedUint_la usizeTy) ?_
  intro r lr2 hn
  obtain ⟨h1, h2⟩ := numLA_transfer s1 p1 hn
  split
  · exact Wp.pure ⟨by simp, fun _ => h2 (Or.inl rfl)⟩
  · exact Wp.giveUp_pc
  · split
    · exact exceedsVarCount_pc
    · exact Wp.pure ⟨fun _ => h1 _ rfl, fun hn => by simp at hn⟩

theorem litInt_la : Wp T litInt lr (OptLA lr) := by
  unfold litInt
  refine Wp.bind' (int_la isizeTy) ?_
  intro r lr1 ⟨h1, h2⟩
  split
  · exact Wp.pure ⟨by simp, fun _ => h2 (Or.inl rfl)⟩
  · exact exceedsVarCount_pc
  · exact Wp.pure ⟨fun _ => h1 _ rfl, fun hn => by simp at hn⟩

/-- `comment(..).or_parse(newline(..)).matches()`. -/
theorem commentOrNewline_la :
    Wp T («matches» (orParse comment newline)) lr (fun c lr1 =>
      (c = true → (lr.v.rest[0]? = some 99 ∨ AtBreak lr) ∧
        (Tight lr → Tight lr1)) ∧
      (c = false → Same lr lr1 ∧ (Tight lr → Tight lr1 ∨ LoneCR lr))) := by
  refine Wp.matches (Q := fun c lr1 =>
      (c = true → (lr.v.rest[0]? = some 99 ∨ AtBreak lr) ∧
        (Tight lr → Tight lr1)) ∧
      (c = false → Same lr lr1 ∧ (Tight lr → Tight lr1 ∨ LoneCR lr))) ?_
  refine Wp.orParse (comment_la.mono ?_)
  intro r lr1 ⟨hs, hn⟩
  cases r with
  | some a => exact ⟨fun _ => ⟨Or.inl (hs rfl).1, (hs rfl).2⟩, by simp⟩
  | none =>
    obtain ⟨s1, t1⟩ := hn rfl
    refine newline_la.mono ?_
    intro r2 lr2 ⟨hs2, hn2⟩
    cases r2 with
    | some a =>
      exact ⟨fun _ => ⟨Or.inr ((hs2 rfl).1.same s1.symm), fun ht => (hs2 rfl).2 (t1 ht)⟩, by simp⟩
    | none =>
      obtain ⟨s2, t2⟩ := hn2 rfl
      exact ⟨by simp, fun _ => ⟨s1.trans s2,
        fun ht => (t2 (t1 ht)).imp id (fun h => h.same s1.symm)⟩⟩

theorem skipLinesLoop_la (fuel : Nat) :
    Wp T (skipLinesLoop fuel) lr (fun _ lr1 =>
      Tight lr → Tight lr1 ∨ LoneCR lr1) := by
  induction fuel generalizing lr with
  | zero => unfold skipLinesLoop; trivial
  | succ n ih =>
    unfold skipLinesLoop
    refine Wp.bind' commentOrNewline_la ?_
    intro c lr1 ⟨ht, hf⟩
    split
    · rename_i hc
      refine ih.mono ?_
      intro _ lr2 h2 ht0
      exact h2 ((ht hc).2 ht0)
    · rename_i hc
      have hc' : c = false := by simpa using hc
      obtain ⟨s1, t1⟩ := hf hc'
      refine Wp.pure (fun ht0 => ?_)
      exact (t1 ht0).imp id (fun h => h.same s1)

theorem nonTerminatingLinebreaks_la :
    Wp T nonTerminatingLinebreaks lr (fun r lr1 =>
      (r = true → AtBreak lr) ∧
      (r = false → Same lr lr1) ∧
      (Tight lr → Tight lr1 ∨ LoneCR lr1)) := by
  unfold nonTerminatingLinebreaks
  refine Wp.bind' (Wp.matches (Q := fun c lr1 =>
      (c = true → AtBreak lr ∧ (Tight lr → Tight lr1)) ∧
      (c = false → Same lr lr1 ∧ (Tight lr → Tight lr1 ∨ LoneCR lr)))
    (newline_la.mono ?_)) ?_
  · intro r lr1 ⟨hs, hn⟩
    cases r with
    | some a => exact ⟨fun _ => hs rfl, by simp⟩
    | none => exact ⟨by simp, fun _ => hn rfl⟩
  · intro c lr1 ⟨ht, hf⟩
    dsimp only
    split
    · rename_i hc
      refine Wp.bind (Wp.get ?_)
      refine Wp.bind' (skipLinesLoop_la _) ?_
      intro _ lr2 h2
      exact Wp.pure ⟨fun _ => (ht hc).1, fun h => by rw [hc] at h; simp at h,
        fun ht0 => h2 ((ht hc).2 ht0)⟩
    · rename_i hc
      have hc' : c = false := by simpa using hc
      obtain ⟨s1, t1⟩ := hf hc'
      refine Wp.pure ⟨fun h => by rw [hc'] at h; simp at h, fun _ => s1, fun ht0 => ?_⟩
      exact (t1 ht0).imp id (fun h => h.same s1)

/-- The literal loop returns with at most the byte under the cursor demanded. -/
theorem clauseLitsLoop_la (l : LitTy) (limit : Int) (fuel : Nat) (lit : Int) (acc : List Int)
    (ht : Tight lr) :
    Wp T (clauseLitsLoop l limit fuel lit acc) lr (fun _ lr1 => Tight lr1) := by
  induction fuel generalizing lr lit acc with
  | zero => unfold clauseLitsLoop; trivial
  | succ n ih =>
    unfold clauseLitsLoop
    split
    · exact Wp.pure ht
    · split
      · refine Wp.bind' setMark_la ?_
        intro _ lr1 ⟨s1, p1⟩
        have ht1 := (tight_iff s1 p1).mp ht
        refine Wp.bind' litInt_la ?_
        intro r lr2 ⟨hs, hn⟩
        split
        · exact ih _ _ ((hs rfl).2 ht1)
        · obtain ⟨s2, t2⟩ := hn rfl
          refine Wp.bind' nonTerminatingLinebreaks_la ?_
          intro c lr3 ⟨hc1, _, t3⟩
          split
          · rename_i hc
            -- a line break in front of the cursor: the failed literal scan looked at one byte
            have hnl := (hc1 hc).same s2.symm
            have ht2 : Tight lr2 := by
              rcases t2 ht1 with h | h
              · exact h
              · exact (hnl.not_itemStart h).elim
            refine Wp.bind' setMark_la ?_
            intro _ lr4 ⟨s4, p4⟩
            refine Wp.bind' (Q1 := fun _ lr5 => Tight lr5) (Wp.orGiveUp (litInt_la.mono ?_)) ?_
            · intro r5 lr5 ⟨hs5, _⟩
              cases r5 with
              | none => exact unexpected_pc
              | some a =>
                obtain ⟨hi, t5⟩ := hs5 rfl
                rw [s4.rest] at hi
                have ht3 : Tight lr3 := by
                  rcases t3 ht2 with h | h
                  · exact h
                  · exact (h.not_itemStart hi).elim
                exact t5 ((tight_iff s4 p4).mp ht3)
            · intro next lr5 ht5
              exact ih _ _ ht5
          · exact unexpected_pc
      · exact exceedsVarCount_pc

theorem clauseLits_la (l : LitTy) (limit : Int) :
    Wp T (clauseLits l limit) lr (OptLA lr) := by
  unfold clauseLits
  refine Wp.bind' setMark_la ?_
  intro _ lr1 ⟨s1, p1⟩
  refine Wp.bind' litInt_la ?_
  intro r lr2 ⟨hs, hn⟩
  rw [s1.rest] at hs hn
  split
  · obtain ⟨s2, t2⟩ := hn rfl
    exact Wp.pure ⟨by simp, fun _ => ⟨s1.trans s2, fun ht => t2 ((tight_iff s1 p1).mp ht)⟩⟩
  · refine Wp.bind (Wp.get ?_)
    by_cases ht : Tight lr
    · refine Wp.bind' (clauseLitsLoop_la l limit _ _ [] ((hs rfl).2 ((tight_iff s1 p1).mp ht))) ?_
      intro lits lr3 ht3
      exact Wp.pure ⟨fun _ => ⟨(hs rfl).1, fun _ => ht3⟩, fun hn => by simp at hn⟩
    · refine Wp.bind' (Wp.top _) ?_
      intro lits lr3 _
      exact Wp.pure ⟨fun _ => ⟨(hs rfl).1, fun h => absurd h ht⟩, fun hn => by simp at hn⟩

/-! ### parsers -/

theorem orGiveUp_tight {α : Type} {p : PM (Option α)}
    (h : Wp T p lr (fun r lr1 => r.isSome = true → Tight lr → Tight lr1)) :
    Wp T (orGiveUp p unexpected) lr (fun _ lr1 => Tight lr → Tight lr1) := by
  refine Wp.orGiveUp (h.mono ?_)
  intro r lr1 hr
  cases r with
  | some a => exact hr rfl
  | none => exact unexpected_pc

theorem headerSkipLoop_la (fuel : Nat) :
    Wp T (headerSkipLoop fuel) lr (fun _ lr1 =>
      Tight lr → Tight lr1 ∨ LoneCR lr1) := by
  induction fuel generalizing lr with
  | zero => unfold headerSkipLoop; trivial
  | succ n ih =>
    unfold headerSkipLoop
    refine Wp.bind' (Wp.matches (Q := fun c lr1 => (c = true → Tight lr → Tight lr1) ∧
        (c = false → Same lr lr1 ∧ (Tight lr → Tight lr1))) (comment_la.mono ?_)) ?_
    · intro r lr1 ⟨hs, hn⟩
      cases r with
      | some a => exact ⟨fun _ => (hs rfl).2, by simp⟩
      | none => exact ⟨by simp, fun _ => hn rfl⟩
    · intro c lr1 ⟨hc1, hc0⟩
      split
      · rename_i hc
        refine ih.mono ?_
        intro _ lr2 h2 ht
        exact h2 (hc1 hc ht)
      · rename_i hc
        have hc' : c = false := by simpa using hc
        obtain ⟨s1, t1⟩ := hc0 hc'
        refine Wp.bind' (Wp.matches (Q := fun c lr2 => (c = true → Tight lr1 → Tight lr2) ∧
            (c = false → Same lr1 lr2 ∧ (Tight lr1 → Tight lr2 ∨ LoneCR lr1)))
          (newline_la.mono ?_)) ?_
        · intro r lr2 ⟨hs, hn⟩
          cases r with
          | some a => exact ⟨fun _ => (hs rfl).2, by simp⟩
          | none => exact ⟨by simp, fun _ => hn rfl⟩
        · intro c2 lr2 ⟨hd1, hd0⟩
          split
          · rename_i hc2
            refine ih.mono ?_
            intro _ lr3 h3 ht
            exact h3 (hd1 hc2 (t1 ht))
          · rename_i hc2
            have hc2' : c2 = false := by simpa using hc2
            obtain ⟨s2, t2⟩ := hd0 hc2'
            refine Wp.pure (fun ht => ?_)
            exact (t2 (t1 ht)).imp id (fun h => h.same s2)

/-- `parse_header`: a header is returned with the cursor behind its line end and nothing beyond
demanded (or the end of the input observed). -/
theorem parseHeader_la (fmt : Format) (l : LitTy) :
    Wp T (parseHeader fmt l) lr (fun r lr1 => (r.isSome = true → Tight lr → Done lr1) ∧
      (r = none → Tight lr → Ready lr1)) := by
  unfold parseHeader
  refine Wp.bind' skipWhitespace_la ?_
  intro _ lr1 t1
  refine Wp.bind (Wp.get ?_)
  refine Wp.bind' (headerSkipLoop_la _) ?_
  intro _ lr2 t2
  refine Wp.bind' wordP_la ?_
  intro r lr3 ⟨hs, hn⟩
  split
  · obtain ⟨s3, t3⟩ := hn rfl
    refine Wp.pure ⟨by simp, fun _ ht => ?_⟩
    rcases t2 (t1 ht) with h | h
    · rcases t3 h with h' | h'
      · exact Or.inl h'
      · exact Or.inr (Or.inr (by rw [s3.rest]; exact h'))
    · exact Or.inr (Or.inl (h.same s3))
  · obtain ⟨hp, t3⟩ := hs rfl
    have t03 : Tight lr → Tight lr3 := by
      intro ht
      rcases t2 (t1 ht) with h | h
      · exact t3 h
      · have h13 := h.1
        rw [hp] at h13; simp at h13
    refine Wp.bind' (orGiveUp_tight ((word_la (keyword fmt)).mono
      (fun r lr4 h4 hr => (h4.1 hr).2.2))) ?_
    intro _ lr4 t4
    refine Wp.bind' (orGiveUp_tight ((varCount_la l).mono (fun r lr5 h5 hr => (h5.1 hr).2))) ?_
    intro vc lr5 t5
    refine Wp.bind' (orGiveUp_tight ((uintCount_la usizeTy).mono
      (fun r lr6 h6 hr => (h6.1 hr).2))) ?_
    intro cc lr6 t6
    have tail : ∀ (ex : Int) (lr7 : LR), (Tight lr6 → Tight lr7) →
        Wp T (do
            orGiveUp interactiveEndOfLine unexpected
            pure (some ({ varCount := vc, clauseCount := cc, extra := ex } : Header))) lr7
          (fun r lr1 => (r.isSome = true → Tight lr → Done lr1) ∧
            (r = none → Tight lr → Ready lr1)) := by
      intro ex lr7 t7
      refine Wp.bind' orGiveUp_eol_la ?_
      intro _ lr8 t8
      exact Wp.pure ⟨fun _ ht => t8 (t7 (t6 (t5 (t4 (t03 ht))))), fun hn => by simp at hn⟩
    cases fmt <;> dsimp only
    · exact Wp.bind' (Q1 := fun _ lr7 => Tight lr6 → Tight lr7) (Wp.pure id)
        (fun ex lr7 h7 => tail ex lr7 h7)
    · exact Wp.bind' (orGiveUp_tight ((uintCount_la u64Ty).mono (fun r lr7 h7 hr => (h7.1 hr).2)))
        (fun ex lr7 h7 => tail ex lr7 h7)
    · exact Wp.bind' (orGiveUp_tight ((uintCount_la usizeTy).mono
        (fun r lr7 h7 hr => (h7.1 hr).2))) (fun ex lr7 h7 => tail ex lr7 h7)

theorem parserNew_la (fmt : Format) (l : LitTy) (ignoreHeader : Bool) :
    Wp T (Parser.new fmt l ignoreHeader) lr (fun p lr1 =>
      (p.header.isSome = true → Tight lr → Done lr1) ∧ (Tight lr → Ready lr1)) := by
  unfold Parser.new
  refine Wp.bind' (parseHeader_la fmt l) ?_
  intro r lr1 ⟨h1, h2⟩
  split
  · exact Wp.pure ⟨by simp, h2 rfl⟩
  · exact Wp.pure ⟨fun _ => h1 rfl, fun ht => Or.inl (h1 rfl ht).2⟩

theorem clauseRest_la (l : LitTy) (limit : Int) (tag : Int) :
    Wp T (do
        let _ ← nonTerminatingLinebreaks
        let lits ← orGiveUp (clauseLits l limit) unexpected
        orGiveUp interactiveEndOfLine unexpected
        pure (some ({ tag := tag, lits } : Clause))) lr
      (fun r lr1 => r.isSome = true ∧ (Tight lr → Done lr1)) := by
  refine Wp.bind' nonTerminatingLinebreaks_la ?_
  intro _ lr1 ⟨_, _, t1⟩
  refine Wp.bind' (Q1 := fun _ lr2 => Tight lr → Tight lr2)
    (Wp.orGiveUp ((clauseLits_la l limit).mono ?_)) ?_
  · intro r lr2 ⟨hs, _⟩
    cases r with
    | none => exact unexpected_pc
    | some a =>
      obtain ⟨hi, t2⟩ := hs rfl
      intro ht
      rcases t1 ht with h | h
      · exact t2 h
      · exact (h.not_itemStart hi).elim
  · intro lits lr2 t2
    refine Wp.bind' orGiveUp_eol_la ?_
    intro _ lr3 t3
    exact Wp.pure ⟨rfl, fun ht => t3 (t2 ht)⟩

/-- Postcondition of the clause alternative. -/
abbrev AltLA (lr : LR) (r : Option Clause) (lr1 : LR) : Prop :=
  (r.isSome = true → ItemStart lr.v.rest[0]? ∧ (Tight lr → Done lr1)) ∧
  (r = none → Same lr lr1 ∧ (Tight lr → Tight lr1 ∨ ItemStart lr.v.rest[0]?))

theorem clauseAlt_la (p : Parser) : Wp T (clauseAlt p) lr (AltLA lr) := by
  unfold clauseAlt
  split
  · refine Wp.bind' (clauseLits_la p.lit p.litLimit) ?_
    intro r lr1 ⟨hs, hn⟩
    split
    · exact Wp.pure ⟨by simp, fun _ => hn rfl⟩
    · refine Wp.bind' orGiveUp_eol_la ?_
      intro _ lr2 t2
      exact Wp.pure ⟨fun _ => ⟨(hs rfl).1, fun ht => t2 ((hs rfl).2 ht)⟩, fun hn => by simp at hn⟩
  · refine Wp.bind' (uintCount_la u64Ty) ?_
    intro r lr1 ⟨hs, hn⟩
    split
    · exact Wp.pure ⟨by simp, fun _ => hn rfl⟩
    · refine (clauseRest_la p.lit p.litLimit _).mono ?_
      intro r2 lr2 ⟨hsome, t2⟩
      exact ⟨fun _ => ⟨(hs rfl).1, fun ht => t2 ((hs rfl).2 ht)⟩,
        fun hn => by rw [hn] at hsome; simp at hsome⟩
  · refine Wp.bind' (clauseGroup_la p.groupLimit) ?_
    intro r lr1 ⟨hs, hn⟩
    split
    · exact Wp.pure ⟨by simp, fun _ => hn rfl⟩
    · refine (clauseRest_la p.lit p.litLimit _).mono ?_
      intro r2 lr2 ⟨hsome, t2⟩
      exact ⟨fun _ => ⟨(hs rfl).1, fun ht => t2 ((hs rfl).2 ht)⟩,
        fun hn => by rw [hn] at hsome; simp at hsome⟩

/-- The loop of `next_clause`, entered with at most the byte under the cursor demanded: a clause
is handed out with the cursor behind the line end that completes it and nothing beyond demanded,
or with the end of the input observed. -/
theorem nextClauseLoop_la (p : Parser) (fuel : Nat) (ht : Tight lr) :
    Wp T (nextClauseLoop p fuel) lr (fun r lr1 => ∀ c, r.1 = some c → Done lr1) := by
  induction fuel generalizing lr with
  | zero => unfold nextClauseLoop; trivial
  | succ n ih =>
    unfold nextClauseLoop
    dsimp only
    split
    case' isTrue => refine Wp.bind' (clauseAlt_la p) ?_
    case' isFalse =>
      refine Wp.bind' (Q1 := AltLA lr)
        (Wp.pure ⟨by simp, fun _ => ⟨Same.refl lr, fun h => Or.inl h⟩⟩) ?_
    all_goals
      intro c lr1 ⟨hs, hn⟩
      split
      · refine Wp.pure (fun c2 _ => (hs rfl).2 ht)
      · obtain ⟨s1, t1⟩ := hn rfl
        refine Wp.bind' (Wp.matches (Q := fun m lr2 =>
            (m = true → lr1.v.rest[0]? = some 99 ∧ (Tight lr1 → Tight lr2)) ∧
            (m = false → Same lr1 lr2 ∧ (Tight lr1 → Tight lr2))) (comment_la.mono ?_)) ?_
        · intro r lr2 ⟨hs2, hn2⟩
          cases r with
          | some a => exact ⟨fun _ => hs2 rfl, by simp⟩
          | none => exact ⟨by simp, fun _ => hn2 rfl⟩
        · intro m lr2 ⟨hm1, hm0⟩
          split
          · rename_i hm
            obtain ⟨hc, t2⟩ := hm1 hm
            rw [s1.rest] at hc
            have ht1 : Tight lr1 := by
              rcases t1 ht with h | h
              · exact h
              · have := h.ne; simp [hc] at this
            exact ih (t2 ht1)
          · rename_i hm
            have hm' : m = false := by simpa using hm
            obtain ⟨s2, t2⟩ := hm0 hm'
            refine Wp.bind' (Wp.matches (Q := fun m lr3 =>
                (m = true → AtBreak lr2 ∧
                  (Tight lr2 → Tight lr3))) (newline_la.mono ?_)) ?_
            · intro r lr3 ⟨hs3, _⟩
              cases r with
              | some a => exact fun _ => hs3 rfl
              | none => exact by simp
            · intro m3 lr3 hm3
              split
              · rename_i hmm
                obtain ⟨hc, t3⟩ := hm3 hmm
                have hc' := (hc.same s2.symm).same s1.symm
                have ht1 : Tight lr1 := by
                  rcases t1 ht with h | h
                  · exact h
                  · exact (hc'.not_itemStart h).elim
                exact ih (t3 (t2 ht1))
              · split
                · refine Wp.bind' (Wp.top _) ?_
                  intro m4 lr4 _
                  split
                  · exact Wp.pure (fun c2 hc2 => by simp at hc2)
                  · exact unexpected_pc
                · exact unexpected_pc

/-- `next_clause`. -/
theorem nextClause_la (p : Parser) (ht : Tight lr) :
    Wp T p.nextClause lr (fun r lr1 => ∀ c, r.1 = some c → Done lr1) := by
  unfold Parser.nextClause
  refine Wp.bind' skipWhitespace_la ?_
  intro _ lr1 t1
  refine Wp.bind (Wp.get ?_)
  exact nextClauseLoop_la p _ (t1 ht)

/-! ### from a state left behind by a header that fell through -/

theorem skipWhitespace_dead (hd : Dead lr) :
    Wp T skipWhitespace lr (fun _ lr1 => Same lr lr1) := by
  unfold skipWhitespace
  refine Wp.bind' (Wp.tabsF (Ext.refl lr) 0) ?_
  intro off lr1 ⟨e1, _, hbl, _, _⟩
  have h0 : off = 0 := by
    by_cases h : off = 0
    · exact h
    · obtain ⟨x, hx, hb⟩ := hbl 0 (Nat.le_refl _) (by omega)
      rcases hd.first with h' | h' <;>
        (rw [h'] at hx; simp at hx; subst hx; simp [isBlank] at hb)
  subst h0
  refine (Wp.advance_pc 0).mono ?_
  intro _ lr2 ⟨q1, _, _, q4⟩
  exact ⟨by rw [q4, e1.rest]; rfl, by rw [q1, e1.pos]; rfl⟩

/-- On a `Dead` state the loop of `next_clause` hands out nothing. -/
theorem nextClauseLoop_dead (p : Parser) (fuel : Nat) (hd : Dead lr) :
    Wp T (nextClauseLoop p fuel) lr (fun r _ => r.1 = none) := by
  cases fuel with
  | zero => unfold nextClauseLoop; trivial
  | succ n =>
    unfold nextClauseLoop
    dsimp only
    split
    case' isTrue => refine Wp.bind' (clauseAlt_la p) ?_
    case' isFalse =>
      refine Wp.bind' (Q1 := AltLA lr)
        (Wp.pure ⟨by simp, fun _ => ⟨Same.refl lr, fun h => Or.inl h⟩⟩) ?_
    all_goals
      intro c lr1 ⟨hs, hn⟩
      split
      · exact (hd.not_itemStart (hs rfl).1).elim
      · obtain ⟨s1, _⟩ := hn rfl
        refine Wp.bind' (Wp.matches (Q := fun m lr2 => m = false ∧ Same lr lr2) (comment_la.mono ?_)) ?_
        · intro r lr2 ⟨hs2, hn2⟩
          cases r with
          | some a =>
            have := (hs2 rfl).1
            rw [s1.rest] at this
            rcases hd.first with h | h <;> (rw [h] at this; simp at this)
          | none => exact ⟨rfl, s1.trans (hn2 rfl).1⟩
        · intro m lr2 ⟨hm, s2⟩
          subst hm
          simp only [Bool.false_eq_true, ↓reduceIte]
          refine Wp.bind' (Wp.matches (Q := fun m lr3 => m = false) (newline_la.mono ?_)) ?_
          · intro r lr3 ⟨hs3, _⟩
            cases r with
            | some a => exact (hd.not_atBreak ((hs3 rfl).1.same s2.symm)).elim
            | none => rfl
          · intro m3 lr3 hm3
            subst hm3
            simp only [Bool.false_eq_true, ↓reduceIte]
            split
            · refine Wp.bind' (Wp.top _) ?_
              intro m4 lr4 _
              split
              · exact Wp.pure rfl
              · exact unexpected_pc
            · exact unexpected_pc

/-- `next_clause` between the calls of a parse: whenever it hands out a clause, `Done`. -/
theorem nextClause_ready (p : Parser) (h : Ready lr) :
    Wp T p.nextClause lr (fun r lr1 => ∀ c, r.1 = some c → Done lr1) := by
  rcases h with ht | hd
  · exact nextClause_la p ht
  · unfold Parser.nextClause
    refine Wp.bind' (skipWhitespace_dead hd) ?_
    intro _ lr1 s1
    refine Wp.bind (Wp.get ?_)
    refine (nextClauseLoop_dead p _ (hd.same s1)).mono ?_
    intro r lr2 hr c hc
    rw [hr] at hc; simp at hc

end Cnf
end Flussab
