/-
Basic facts for reasoning about runs of the AIGER parser model: how the monad operations of
`PM = ExceptT PErr (StateM LR)` run, that the error functions of `Model/AigerToken.lean` never
return, and a state-independent partial-correctness predicate `Post` ("if the call returns a
value, the value satisfies `Q`") with its rules.  Self-contained: core Lean only.
-/
import Flussab.Model.Aiger

namespace Flussab
namespace Aiger
open PM

/-! ### running the monad -/

theorem run_bind {α β : Type} (m : PM α) (f : α → PM β) (lr : LR) :
    (m >>= f).run lr = match m.run lr with
      | (.ok a, lr') => (f a).run lr'
      | (.error e, lr') => (.error e, lr') := by
  show (ExceptT.run (m >>= f)) lr = _
  rw [ExceptT.run_bind]
  show (StateT.bind _ _) lr = _
  unfold StateT.bind
  show (match m.run lr with | (a, s) => _) = _
  rcases m.run lr with ⟨_|_, _⟩ <;> rfl

theorem run_pure {α : Type} (a : α) (lr : LR) : (pure a : PM α).run lr = (.ok a, lr) := rfl

theorem run_throw {α : Type} (e : PErr) (lr : LR) : (throw e : PM α).run lr = (.error e, lr) := rfl

theorem run_rpanic {α : Type} (s : String) (lr : LR) :
    (rpanic s : PM α).run lr = (.error (.panic s), lr) := rfl

theorem run_get (lr : LR) : (get : PM LR).run lr = (.ok lr, lr) := rfl

theorem run_set (s lr : LR) : (set s : PM PUnit).run lr = (.ok ⟨⟩, s) := rfl

theorem run_modify (f : LR → LR) (lr : LR) : (modify f : PM PUnit).run lr = (.ok ⟨⟩, f lr) := rfl

theorem run_scan {α : Type} (f : View → α × View) (lr : LR) :
    (scan f).run lr = (.ok (f lr.v).1, { lr with v := (f lr.v).2 }) := rfl

theorem run_reqAt (k : Nat) (lr : LR) :
    (reqAt k).run lr = (.ok lr.v.rest[k]?, { lr with v := lr.v.demand k }) := rfl

theorem run_reqByte (lr : LR) :
    reqByte.run lr = (.ok lr.v.rest[0]?, { lr with v := lr.v.demand 0 }) := rfl

theorem run_setMark (lr : LR) : setMark.run lr = (.ok ⟨⟩, { lr with v := lr.v.setMark }) := rfl

theorem run_mark (lr : LR) : mark.run lr = (.ok lr.v.mark, lr) := rfl

theorem run_position (lr : LR) : position.run lr = (.ok lr.v.pos, lr) := rfl

theorem run_ite {α : Type} (c : Prop) [Decidable c] (a b : PM α) (lr : LR) :
    (if c then a else b).run lr = if c then a.run lr else b.run lr := by
  split <;> rfl

/-- A call that returns (rather than fails). -/
def Returns {α : Type} (m : PM α) (lr : LR) (a : α) (lr' : LR) : Prop := m.run lr = (.ok a, lr')

/-- A call that never returns a value. -/
def Fails {α : Type} (m : PM α) : Prop := ∀ lr a lr', m.run lr ≠ (.ok a, lr')

theorem Fails.bind_left {α β : Type} {m : PM α} (h : Fails m) (f : α → PM β) : Fails (m >>= f) := by
  intro lr b lr' hr
  rw [run_bind] at hr
  rcases hm : m.run lr with ⟨e | a, lr1⟩
  · rw [hm] at hr; cases hr
  · exact h lr a lr1 hm

theorem fails_throw {α : Type} (e : PErr) : Fails (throw e : PM α) := by
  intro lr a lr' h; rw [run_throw] at h; cases h

theorem fails_rpanic {α : Type} (s : String) : Fails (rpanic s : PM α) := fails_throw _

theorem fails_giveUpAt {α : Type} (p : Nat) : Fails (giveUpAt p : PM α) := by
  intro lr a lr' h
  unfold giveUpAt at h
  simp only [run_bind, run_get, run_set] at h
  split at h
  · rw [run_throw] at h; cases h
  · split at h
    · rw [run_rpanic] at h; cases h
    · rw [run_throw] at h; cases h

theorem fails_giveUp {α : Type} : Fails (giveUp : PM α) := by
  intro lr a lr' h
  unfold giveUp at h
  simp only [run_bind, run_position] at h
  exact fails_giveUpAt _ _ _ _ h

theorem fails_errorAtMark {α : Type} : Fails (errorAtMark : PM α) := by
  intro lr a lr' h
  unfold errorAtMark at h
  simp only [run_bind, run_mark] at h
  exact fails_giveUpAt _ _ _ _ h

theorem fails_unexpected {α : Type} : Fails (unexpected : PM α) := by
  intro lr a lr' h
  unfold unexpected at h
  simp only [run_bind, run_scan, run_get, run_reqAt, run_ite] at h
  split at h
  · exact fails_giveUp _ _ _ h
  · split at h
    · exact fails_giveUp _ _ _ h
    · exact fails_giveUp _ _ _ h

/-! ### state-independent partial correctness -/

/-- If `m` returns a value, from whatever state, the value satisfies `Q`. -/
def Post {α : Type} (m : PM α) (Q : α → Prop) : Prop := ∀ lr a lr', m.run lr = (.ok a, lr') → Q a

theorem Post.of_fails {α : Type} {m : PM α} {Q : α → Prop} (h : Fails m) : Post m Q :=
  fun lr a lr' hr => absurd hr (h lr a lr')

theorem Post.pure {α : Type} {a : α} {Q : α → Prop} (h : Q a) : Post (Pure.pure a : PM α) Q := by
  intro lr b lr' hr
  rw [run_pure] at hr
  cases hr
  exact h

theorem Post.bind {α β : Type} {m : PM α} {f : α → PM β} {Q1 : α → Prop} {Q : β → Prop}
    (h1 : Post m Q1) (h2 : ∀ a, Q1 a → Post (f a) Q) : Post (m >>= f) Q := by
  intro lr b lr' hr
  rw [run_bind] at hr
  rcases hm : m.run lr with ⟨e | a, lr1⟩
  · rw [hm] at hr; cases hr
  · rw [hm] at hr
    exact h2 a (h1 lr a lr1 hm) lr1 b lr' hr

theorem Post.mono {α : Type} {m : PM α} {Q Q' : α → Prop} (h : Post m Q) (hq : ∀ a, Q a → Q' a) :
    Post m Q' := fun lr a lr' hr => hq a (h lr a lr' hr)

theorem Post.true {α : Type} (m : PM α) : Post m (fun _ => True) := fun _ _ _ _ => trivial

theorem Post.and {α : Type} {m : PM α} {Q Q' : α → Prop} (h : Post m Q) (h' : Post m Q') :
    Post m (fun a => Q a ∧ Q' a) := fun lr a lr' hr => ⟨h lr a lr' hr, h' lr a lr' hr⟩

theorem Post.ite {α : Type} {c : Prop} [Decidable c] {a b : PM α} {Q : α → Prop}
    (ha : c → Post a Q) (hb : ¬ c → Post b Q) : Post (if c then a else b) Q := by
  split
  · exact ha ‹_›
  · exact hb ‹_›

theorem Post.orGiveUp {α : Type} {p : PM (Option α)} {err : PM α} {Q : α → Prop}
    (hp : Post p (fun r => ∀ a, r = some a → Q a)) (he : Post err Q) : Post (orGiveUp p err) Q := by
  unfold PM.orGiveUp
  refine Post.bind hp ?_
  intro r hr
  cases r with
  | none => exact he
  | some a => exact Post.pure (hr a rfl)

end Aiger
end Flussab

namespace Flussab
namespace Aiger
open PM

theorem run_bufPrefix (n : Nat) (lr : LR) :
    (bufPrefix n).run lr = if n ≤ lr.v.demanded then (.ok (lr.v.rest.take n), lr)
      else (.error (.panic "slice beyond scanned data"), lr) := by
  unfold PM.bufPrefix
  simp only [run_bind, run_get, View.bufPrefix]
  by_cases h : n ≤ lr.v.demanded
  · simp only [h, ↓reduceIte]; rfl
  · simp only [h, ↓reduceIte]; rfl

theorem run_advance (n : Nat) (lr : LR) :
    (advance n).run lr = if n ≤ lr.v.demanded then
        (.ok (), { lr with v := { lr.v with rest := lr.v.rest.drop n, pos := lr.v.pos + n } })
      else (.error (.panic "advance beyond scanned data"), lr) := by
  unfold PM.advance
  simp only [run_bind, run_get, View.advance]
  by_cases h : n ≤ lr.v.demanded
  · simp only [h, ↓reduceIte]; rfl
  · simp only [h, ↓reduceIte]; rfl

theorem run_utf8Unwrap (bs : VBytes) (lr : LR) :
    (utf8Unwrap bs).run lr = if bs.all (· < 128) then (.ok (), lr)
      else (.error (.panic "from_utf8().unwrap() on non-ASCII bytes"), lr) := by
  unfold PM.utf8Unwrap
  split <;> rfl

end Aiger
end Flussab
