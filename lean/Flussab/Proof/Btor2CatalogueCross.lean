/-
Prefix determinism inside a line (C08, replaced numeral token): the tokens that can pass over the
replaced token — `symbol_name`, the three constant scanners, `comment_body`.  Started at the
boundary (or, for a comment, anywhere on the boundary's line) they consume `tok` in run 1 and
`tok'` in run 2 and leave the two runs in shifted states (`Cat.Sh`); a binary constant may also
stop on a digit `2..9` inside the token (`Dig2` / `Dig`).
-/
import Flussab.Proof.Btor2CatalogueTokens

namespace Flussab
namespace Btor2
namespace Cat
open PM

variable {X : Ctx} {α : Type}

theorem all_mono {p q : UInt8 → Bool} {l : VBytes} (h : l.all p = true) (hpq : ∀ x, p x = true → q x = true) :
    l.all q = true := by
  rw [List.all_eq_true] at *
  exact fun x hx => hpq x (h x hx)

/-- Both runs have consumed their token and looked at the byte behind it. -/
theorem sh_cross (hX : X.OK) {s : LR} (hs : St X s) (hr : s.v.rest = []) :
    Sh (advLR X.tok.length (E X.q1 (pk X.tok.length s)))
      (advLR X.tok'.length (E X.q2 (pk X.tok'.length s))) := by
  have h1 : 0 < X.tok.length := List.length_pos_iff.mpr hX.tok_ne
  have h2 : 0 < X.tok'.length := List.length_pos_iff.mpr hX.tok'_ne
  have hp := hs.peek
  rw [hr] at hp
  simp only [List.length_nil] at hp
  refine ⟨?_, rfl, rfl, rfl, ?_⟩
  · show (s.v.rest ++ X.q1).drop X.tok.length = (s.v.rest ++ X.q2).drop X.tok'.length
    simp [hr, Ctx.q1, Ctx.q2]
  · show max s.v.peeked (s.v.pos + X.tok.length + 1) - (s.v.pos + X.tok.length) =
      max s.v.peeked (s.v.pos + X.tok'.length + 1) - (s.v.pos + X.tok'.length)
    omega

theorem dig_drop {t p : VBytes} (hd : t.all isDigit = true) {n : Nat} (hn : n < t.length) :
    ∃ d tl, (t ++ p).drop n = d :: tl ∧ isDigit d = true := by
  refine ⟨t[n], t.drop (n + 1) ++ p, ?_, (List.all_eq_true.mp hd) _ (List.getElem_mem hn)⟩
  rw [List.drop_append_of_le_length (Nat.le_of_lt hn), List.drop_eq_getElem_cons hn]
  rfl

/-! ### `symbol_name` -/

theorem symbolName_pw (hX : X.OK) :
    PW X symbolName symbolName (fun a b => a.isSome = true ∧ b.isSome = true) No1 No1 := by
  intro s hs
  have l1 := hX.q1_len
  have l2 := hX.q2_len
  have hp32 : (fun b : UInt8 => b != 10 && b != 32) 32 = false := by decide
  have hp10 : (fun b : UInt8 => b != 10 && b != 32) 10 = false := by decide
  have hpd : ∀ x, isDigit x = true → (fun b : UInt8 => b != 10 && b != 32) x = true := by
    intro x hx
    have a := dig_ne hx (c := 10) (Or.inl (by decide))
    have b := dig_ne hx (c := 32) (Or.inl (by decide))
    simp [a, b]
  have hpn : ∀ x, (fun b : UInt8 => b != 10 && b != 32) x = true → x ≠ 10 := by
    intro x hx he
    subst he
    rw [hp10] at hx; cases hx
  unfold symbolName
  have f1 := scanWhile0_eq (fun b : UInt8 => b != 10 && b != 32) (E X.q1 s).v
  have f2 := scanWhile0_eq (fun b : UInt8 => b != 10 && b != 32) (E X.q2 s).v
  by_cases hr : s.v.rest = []
  · obtain ⟨c, tl, hpost, hc⟩ := hX.post_cons
    have hpc : (fun b : UInt8 => b != 10 && b != 32) c = false := by
      rcases hc with rfl | rfl
      · exact hp32
      · exact hp10
    have r1 : Text.runLen (fun b : UInt8 => b != 10 && b != 32) (E X.q1 s).v.rest = X.tok.length := by
      rw [E_nil_rest _ hr]; unfold Ctx.q1; rw [hpost]
      exact runLen_append _ _ c tl (all_mono hX.tok_dig hpd) hpc
    have r2 : Text.runLen (fun b : UInt8 => b != 10 && b != 32) (E X.q2 s).v.rest = X.tok'.length := by
      rw [E_nil_rest _ hr]; unfold Ctx.q2; rw [hpost]
      exact runLen_append _ _ c tl (all_mono hX.tok'_dig hpd) hpc
    rw [r1] at f1
    rw [r2] at f2
    have h1 : 0 < X.tok.length := List.length_pos_iff.mpr hX.tok_ne
    have h2 : 0 < X.tok'.length := List.length_pos_iff.mpr hX.tok'_ne
    have k1 : X.tok.length < s.v.rest.length + X.q1.length := by
      simp only [Ctx.q1, hpost, List.length_append, List.length_cons]; omega
    have k2 : X.tok'.length < s.v.rest.length + X.q2.length := by
      simp only [Ctx.q2, hpost, List.length_append, List.length_cons]; omega
    refine RWp.bind (RWp.scanE (f1 := (scanWhile (fun b : UInt8 => b != 10 && b != 32) · 0))
      (f2 := (scanWhile (fun b : UInt8 => b != 10 && b != 32) · 0)) f1 f2 k1 k2 ?_)
    have n1 : (X.tok.length == 0) = false := by rw [beq_eq_false_iff_ne]; omega
    have n2 : (X.tok'.length == 0) = false := by rw [beq_eq_false_iff_ne]; omega
    simp only [n1, n2, Bool.false_eq_true, ↓reduceIte]
    refine RWp.bind (RWp.advanceWithBuf (fun _ _ => ?_))
    exact RWp.pure (Or.inr (Or.inl ⟨⟨rfl, rfl⟩, sh_cross hX hs hr⟩))
  · obtain ⟨c, hlast, hc⟩ := hs.last hr
    have hpc : (fun b : UInt8 => b != 10 && b != 32) c = false := by
      rcases hc with rfl | rfl
      · exact hp32
      · exact hp10
    have hn := runLen_lt_of_getLast (fun b : UInt8 => b != 10 && b != 32) hlast hpc
    have r1 : Text.runLen (fun b : UInt8 => b != 10 && b != 32) (E X.q1 s).v.rest =
        Text.runLen (fun b : UInt8 => b != 10 && b != 32) s.v.rest := PM.runLen_append _ _ _ hn
    have r2 : Text.runLen (fun b : UInt8 => b != 10 && b != 32) (E X.q2 s).v.rest =
        Text.runLen (fun b : UInt8 => b != 10 && b != 32) s.v.rest := PM.runLen_append _ _ _ hn
    rw [r1] at f1
    rw [r2] at f2
    refine RWp.bind (RWp.scanE (f1 := (scanWhile (fun b : UInt8 => b != 10 && b != 32) · 0))
      (f2 := (scanWhile (fun b : UInt8 => b != 10 && b != 32) · 0)) f1 f2 (by omega) (by omega) ?_)
    split
    · exact RWp.pure (Post.inP (hs.pk _ (by omega)))
    · refine RWp.bind (RWp.advanceWithBufE (by simp only [pk_rest]; omega) ?_)
      refine RWp.pure (Post.inP (hs.adv_pk (by omega) (by omega) ?_))
      exact fun x hx => hpn x (runLen_take_all _ _ x hx)

/-! ### constants -/

/-- A constant scanner started inside the short input (which ends in a space / newline) stops inside
it, whatever follows. -/
def InR (f : View → Nat → Nat × View) : Prop :=
  ∀ (s : LR) (c : UInt8), s.v.rest.getLast? = some c → (c = 32 ∨ c = 10) →
    ∃ m, m < s.v.rest.length ∧ (∀ x ∈ s.v.rest.take m, x ≠ 10) ∧
      ∀ q, f (E q s).v 0 = (m, (E q s).v.demand m)

/-- In front of a digit the scanner is the run of the byte class `p`. -/
def AtB (f : View → Nat → Nat × View) (p : UInt8 → Bool) : Prop :=
  ∀ (v : View) (d : UInt8) (tl : VBytes), v.rest = d :: tl → isDigit d = true →
    f v 0 = (Text.runLen p v.rest, v.demand (Text.runLen p v.rest))

theorem inR_scanWhile (p : UInt8 → Bool) (h32 : p 32 = false) (h10 : p 10 = false) :
    InR (scanWhile p) := by
  intro s c hlast hc
  have hpc : p c = false := by
    rcases hc with rfl | rfl
    · exact h32
    · exact h10
  have hn := runLen_lt_of_getLast p hlast hpc
  refine ⟨Text.runLen p s.v.rest, hn, ?_, ?_⟩
  · intro x hx he
    subst he
    have := runLen_take_all p _ _ hx
    rw [h10] at this; cases this
  · intro q
    have := scanWhile0_eq p (E q s).v
    rw [show Text.runLen p (E q s).v.rest = Text.runLen p s.v.rest from PM.runLen_append _ _ _ hn] at this
    exact this

theorem atB_scanWhile (p : UInt8 → Bool) : AtB (scanWhile p) p :=
  fun v _ _ _ _ => scanWhile0_eq p v

theorem decimalString_of_ne (v : View) (h0 : 0 < v.rest.length) (h : ¬ v.rest[0]? = some 45) :
    decimalString v 0 = (Text.runLen isDigit v.rest, v.demand (Text.runLen isDigit v.rest)) := by
  have hb : (v.rest[0]? == some 45) = false := by simpa using h
  simp only [decimalString, hb, Bool.false_eq_true, ↓reduceIte, scanWhile, demand_rest, List.drop_zero,
    Nat.zero_add]
  rw [demand_demand v 0 _ h0 (Nat.zero_le _)]

theorem atB_decimalString : AtB decimalString isDigit := by
  intro v d tl hr hd
  apply decimalString_of_ne
  · rw [hr]; simp
  · rw [hr]
    simp only [List.getElem?_cons_zero, Option.some.injEq]
    exact dig_ne hd (c := 45) (Or.inl (by decide))

theorem inR_decimalString : InR decimalString := by
  intro s c hlast hc
  have hcd : isDigit c = false := ws_not_digit hc
  cases hr : s.v.rest with
  | nil => rw [hr] at hlast; simp at hlast
  | cons x r' =>
    by_cases hx : x = 45
    · subst hx
      -- `-`, then digits inside `r'` (which is not empty: the input ends in a space / newline)
      have hr'ne : r' ≠ [] := by
        intro he
        rw [hr, he] at hlast
        simp only [List.getLast?_singleton, Option.some.injEq] at hlast
        subst hlast
        rcases hc with h | h <;> cases h
      have hlast' : r'.getLast? = some c := by
        cases r' with
        | nil => exact absurd rfl hr'ne
        | cons z zs => rw [hr, List.getLast?_cons_cons] at hlast; exact hlast
      have hn := runLen_lt_of_getLast isDigit hlast' hcd
      refine ⟨1 + Text.runLen isDigit r', by simp only [List.length_cons]; omega, ?_, ?_⟩
      · intro y hy
        rw [show 1 + Text.runLen isDigit r' = Text.runLen isDigit r' + 1 by omega,
          List.take_succ_cons] at hy
        simp only [List.mem_cons] at hy
        rcases hy with rfl | hy
        · decide
        · exact digit_ne_lf y (runLen_take_all isDigit _ y hy)
      · intro q
        have hrest : (E q s).v.rest = 45 :: (r' ++ q) := by rw [E_rest, hr]; rfl
        have h0 : 0 < (E q s).v.rest.length := by rw [hrest]; simp
        have hb : ((E q s).v.rest[0]? == some 45) = true := by rw [hrest]; rfl
        simp only [decimalString, hb, ↓reduceIte, scanWhile, demand_rest]
        rw [hrest]
        simp only [Nat.zero_add, List.drop_succ_cons, List.drop_zero]
        rw [PM.runLen_append _ _ _ hn, demand_demand _ 0 _ h0 (Nat.zero_le _)]
    · have hlast' : s.v.rest.getLast? = some c := hlast
      have hn := runLen_lt_of_getLast isDigit hlast' hcd
      rw [hr] at hn
      refine ⟨Text.runLen isDigit (x :: r'), hn, ?_, ?_⟩
      · exact fun y hy => digit_ne_lf y (runLen_take_all isDigit _ y hy)
      · intro q
        have hrest : (E q s).v.rest = (x :: r') ++ q := by rw [E_rest, hr]
        have h0 : 0 < (E q s).v.rest.length := by rw [hrest]; simp
        have hne : ¬ (E q s).v.rest[0]? = some 45 := by
          rw [hrest]
          simp only [List.cons_append, List.getElem?_cons_zero, Option.some.injEq]
          exact hx
        rw [decimalString_of_ne _ h0 hne, hrest, PM.runLen_append _ _ _ hn]

/-- `required_*_constant`. -/
theorem requiredConstant_pw (hX : X.OK) (f : View → Nat → Nat × View) (p : UInt8 → Bool)
    (hin : InR f) (hb : AtB f p) (h32 : p 32 = false) (h10 : p 10 = false) :
    PW X (requiredConstant f) (requiredConstant f) (fun _ _ => True) (fun _ => True) (fun _ => True) := by
  intro s hs
  have l1 := hX.q1_len
  have l2 := hX.q2_len
  unfold requiredConstant
  by_cases hr : s.v.rest = []
  · obtain ⟨c, tl, hpost, hc⟩ := hX.post_cons
    have hpc : p c = false := by
      rcases hc with rfl | rfl
      · exact h32
      · exact h10
    obtain ⟨d1, tl1, e1, hd1⟩ := hX.q1_hd
    obtain ⟨d2, tl2, e2, hd2⟩ := hX.q2_hd
    have r1 : Text.runLen p (E X.q1 s).v.rest = Text.runLen p X.tok := by
      rw [E_nil_rest _ hr]; unfold Ctx.q1; rw [hpost]; exact runLen_append_hd p _ hpc
    have r2 : Text.runLen p (E X.q2 s).v.rest = Text.runLen p X.tok' := by
      rw [E_nil_rest _ hr]; unfold Ctx.q2; rw [hpost]; exact runLen_append_hd p _ hpc
    have f1 := hb (E X.q1 s).v d1 tl1 (by rw [E_nil_rest _ hr, e1]) hd1
    have f2 := hb (E X.q2 s).v d2 tl2 (by rw [E_nil_rest _ hr, e2]) hd2
    rw [r1] at f1
    rw [r2] at f2
    have m1 : Text.runLen p X.tok ≤ X.tok.length := runLen_le _ _
    have m2 : Text.runLen p X.tok' ≤ X.tok'.length := runLen_le _ _
    have k1 : Text.runLen p X.tok < s.v.rest.length + X.q1.length := by
      simp only [Ctx.q1, hpost, List.length_append, List.length_cons]; omega
    have k2 : Text.runLen p X.tok' < s.v.rest.length + X.q2.length := by
      simp only [Ctx.q2, hpost, List.length_append, List.length_cons]; omega
    refine RWp.bind (RWp.scanE (f1 := (f · 0)) (f2 := (f · 0)) f1 f2 k1 k2 ?_)
    by_cases z1 : Text.runLen p X.tok = 0
    · simp only [z1, beq_self_eq_true, ↓reduceIte]
      exact RWp.unexpectedLeft
    · have n1 : (Text.runLen p X.tok == 0) = false := by simpa using z1
      by_cases z2 : Text.runLen p X.tok' = 0
      · simp only [z2, beq_self_eq_true, ↓reduceIte]
        refine RWp.right (Wp.monoE (unexpected_at (Still.refl _)) ?_)
        exact atStart_loc (hs.loc hr 0 hX.tok'_pos)
      · have n2 : (Text.runLen p X.tok' == 0) = false := by simpa using z2
        simp only [n1, n2, Bool.false_eq_true, ↓reduceIte]
        refine RWp.advanceWithBuf (fun _ _ => ?_)
        by_cases c2 : Text.runLen p X.tok' < X.tok'.length
        · -- run 2 stopped on a digit of the replacement token
          refine Or.inr (Or.inr (Or.inl ⟨trivial, ?_, ?_⟩))
          · obtain ⟨d, tl', hd, hdd⟩ := dig_drop (p := X.post) hX.tok'_dig c2
            refine ⟨d, tl', ?_, hdd⟩
            show (s.v.rest ++ X.q2).drop _ = _
            rw [hr]; exact hd
          · exact hs.loc hr _ c2
        · by_cases c1 : Text.runLen p X.tok < X.tok.length
          · refine Or.inr (Or.inr (Or.inr ⟨trivial, ?_⟩))
            obtain ⟨d, tl', hd, hdd⟩ := dig_drop (p := X.post) hX.tok_dig c1
            refine ⟨d, tl', ?_, hdd⟩
            show (s.v.rest ++ X.q1).drop _ = _
            rw [hr]; exact hd
          · have e1' : Text.runLen p X.tok = X.tok.length := by omega
            have e2' : Text.runLen p X.tok' = X.tok'.length := by omega
            rw [e1', e2']
            exact Or.inr (Or.inl ⟨trivial, sh_cross hX hs hr⟩)
  · obtain ⟨c, hlast, hc⟩ := hs.last hr
    obtain ⟨m, hm, hno, hf⟩ := hin s c hlast hc
    refine RWp.bind (RWp.scanE (f1 := (f · 0)) (f2 := (f · 0)) (hf X.q1) (hf X.q2) (by omega) (by omega) ?_)
    split
    · exact RWp.unexpectedLeft
    · refine RWp.advanceWithBufE (by simp only [pk_rest]; omega) ?_
      exact Post.inP (hs.adv_pk (by omega) (by omega) hno)

/-! ### `comment_body` -/

/-- The view after a virtual `advance(n)`. -/
def vadv (n : Nat) (w : View) : View := { w with rest := w.rest.drop n, pos := w.pos + n }

theorem vadv_demand (n k : Nat) (w : View) (hn : n ≤ w.rest.length) :
    vadv n (w.demand (n + k)) = (vadv n w).demand k := by
  by_cases hk : n + k < w.rest.length
  · have hk' : k < (vadv n w).rest.length := by simp only [vadv, List.length_drop]; omega
    rw [demand_of_lt _ _ hk, demand_of_lt _ _ hk']
    simp only [vadv, Nat.add_assoc]
  · have hk' : ¬ k < (vadv n w).rest.length := by simp only [vadv, List.length_drop]; omega
    rw [demand_of_ge _ _ hk, demand_of_ge _ _ hk']
    simp only [vadv, Nat.add_assoc]

theorem runLen_append_all (p : UInt8 → Bool) {l : VBytes} (k : VBytes) (h : ∀ x ∈ l, p x = true) :
    Text.runLen p (l ++ k) = l.length + Text.runLen p k := by
  induction l with
  | nil => simp
  | cons y ys ih =>
    have hy : p y = true := h y (by simp)
    simp only [List.cons_append, Text.runLen, hy, ↓reduceIte, List.length_cons]
    rw [ih (fun x hx => h x (by simp [hx]))]
    omega

theorem runLen_lt_of_mem (p : UInt8 → Bool) {l : VBytes} {c : UInt8} (hc : c ∈ l) (hp : p c = false) :
    Text.runLen p l < l.length := by
  have hle := runLen_le p l
  by_cases he : Text.runLen p l = l.length
  · have := runLen_take_all p l c (by rw [he, List.take_length]; exact hc)
    rw [hp] at this; cases this
  · omega

theorem drop_cross (r t p : VBytes) (m : Nat) :
    (r ++ (t ++ p)).drop (r.length + (t.length + m)) = p.drop m := by
  rw [List.drop_length_add_append, List.drop_length_add_append]

theorem getElem_cross (r t p : VBytes) (m : Nat) :
    (r ++ (t ++ p))[r.length + (t.length + m)]? = p[m]? := by
  have h1 := List.getElem?_drop (xs := r ++ (t ++ p)) (i := r.length + (t.length + m)) (j := 0)
  have h2 := List.getElem?_drop (xs := p) (i := m) (j := 0)
  rw [drop_cross] at h1
  simp only [Nat.add_zero] at h1 h2
  rw [← h1, h2]

theorem throwBind_never {β : Type} (e : PErr) (f : α → PM β) (t : LR) (a : β) (u : LR) :
    ((throw e : PM α) >>= f).run t ≠ (.ok a, u) := by
  intro h
  rw [run_bind] at h
  cases h

/-- The part of `comment_body` behind the scan, from two states whose views are shifted behind the
scanned comments (of lengths `n1`, `n2`): the runs end in shifted states. -/
theorem commentTail {G : PErr → Prop} {t1 t2 : LR} {n1 n2 : Nat} {x : Option UInt8}
    {ε1 ε2 : VBytes → Prop}
    (hdrop : t1.v.rest.drop n1 = t2.v.rest.drop n2) (hg1 : t1.v.rest[n1]? = x) (hg2 : t2.v.rest[n2]? = x)
    (hle1 : n1 ≤ t1.v.rest.length) (hle2 : n2 ≤ t2.v.rest.length)
    (hla : t1.v.peeked - (t1.v.pos + n1) = t2.v.peeked - (t2.v.pos + n2))
    (hf : t1.v.fault = t2.v.fault) (hse : t1.v.sawEnd = t2.v.sawEnd) (hio : t1.v.ioErr = t2.v.ioErr)
    (f1 : scanWhile (· != 10) t1.v 0 = (n1, t1.v.demand n1))
    (f2 : scanWhile (· != 10) t2.v 0 = (n2, t2.v.demand n2)) :
    RWp G commentBody commentBody t1 t2 (Post X (fun _ _ => True) ε1 ε2) := by
  have hsh0 : ShV (vadv n1 t1.v) (vadv n2 t2.v) := ⟨hdrop, hf, hse, hio, hla⟩
  have hsh1 := hsh0.demand 0
  rw [← vadv_demand _ 0 _ hle1, ← vadv_demand _ 0 _ hle2] at hsh1
  simp only [Nat.add_zero] at hsh1
  have hsh2 := hsh1.demand 0
  rw [← vadv_demand _ 0 _ (by rw [demand_rest]; exact hle1),
    ← vadv_demand _ 0 _ (by rw [demand_rest]; exact hle2)] at hsh2
  simp only [Nat.add_zero] at hsh2
  unfold commentBody
  refine RWp.bind (RWp.scan ?_)
  rw [f1, f2]
  simp only
  refine RWp.bind (RWp.reqAt ?_)
  simp only [demand_rest, hg1, hg2]
  generalize hw1 : (t1.v.demand n1).demand n1 = w1 at hsh2
  generalize hw2 : (t2.v.demand n2).demand n2 = w2 at hsh2
  by_cases hnone : x.isNone = true
  · simp only [hnone, ↓reduceIte]
    refine RWp.getBind ?_
    simp only [View.checkIoError]
    refine RWp.bind (RWp.set ?_)
    have hioe : w1.ioErr = w2.ioErr := hsh2.ioErr
    by_cases hio1 : w1.ioErr = true
    · simp only [hio1, ↓reduceIte]
      exact RWp.left (throwBind_never _ _ _)
    · have hio2 : ¬ w2.ioErr = true := hioe ▸ hio1
      simp only [hio1, hio2, ↓reduceIte]
      refine RWp.advanceWithBuf (fun _ _ => ?_)
      refine Or.inr (Or.inl ⟨trivial, ?_⟩)
      exact ⟨hsh2.rest, hsh2.fault, hsh2.sawEnd, rfl, hsh2.la⟩
  · simp only [hnone, Bool.false_eq_true, ↓reduceIte]
    refine RWp.advanceWithBuf (fun _ _ => ?_)
    exact Or.inr (Or.inl ⟨trivial, hsh2⟩)

theorem commentBody_pw (hX : X.OK) : PW X commentBody commentBody (fun _ _ => True) No1 No1 := by
  intro s hs
  have l1 := hX.q1_len
  have l2 := hX.q2_len
  unfold commentBody
  have f1 := scanWhile0_eq (· != 10) (E X.q1 s).v
  have f2 := scanWhile0_eq (· != 10) (E X.q2 s).v
  by_cases h10 : s.v.rest.count 10 = 0
  · -- the comment runs over the replaced token
    have hr10 : ∀ x ∈ s.v.rest, (x != 10) = true := by
      intro x hx
      have := count10_zero.mp h10 x hx
      simpa using this
    have hd10 : ∀ x, isDigit x = true → (x != 10) = true := by
      intro x hx
      have := dig_ne hx (c := 10) (Or.inl (by decide))
      simpa using this
    have ht1 : ∀ x ∈ X.tok, (x != 10) = true := fun x hx => hd10 x (List.all_eq_true.mp hX.tok_dig x hx)
    have ht2 : ∀ x ∈ X.tok', (x != 10) = true := fun x hx => hd10 x (List.all_eq_true.mp hX.tok'_dig x hx)
    have r1 : Text.runLen (· != 10) (E X.q1 s).v.rest =
        s.v.rest.length + (X.tok.length + Text.runLen (· != 10) X.post) := by
      rw [E_rest, runLen_append_all _ _ hr10]; unfold Ctx.q1; rw [runLen_append_all _ _ ht1]
    have r2 : Text.runLen (· != 10) (E X.q2 s).v.rest =
        s.v.rest.length + (X.tok'.length + Text.runLen (· != 10) X.post) := by
      rw [E_rest, runLen_append_all _ _ hr10]; unfold Ctx.q2; rw [runLen_append_all _ _ ht2]
    rw [r1] at f1
    rw [r2] at f2
    have h1 : 0 < X.tok.length := List.length_pos_iff.mpr hX.tok_ne
    have h2 : 0 < X.tok'.length := List.length_pos_iff.mpr hX.tok'_ne
    have hml : Text.runLen (· != 10) X.post ≤ X.post.length := runLen_le _ _
    generalize hm : Text.runLen (· != 10) X.post = m at f1 f2 hml
    have hdrop : (E X.q1 s).v.rest.drop (s.v.rest.length + (X.tok.length + m)) =
        (E X.q2 s).v.rest.drop (s.v.rest.length + (X.tok'.length + m)) := by
      simp only [E_rest, Ctx.q1, Ctx.q2]
      rw [drop_cross, drop_cross]
    have hg1 : (E X.q1 s).v.rest[s.v.rest.length + (X.tok.length + m)]? = X.post[m]? := by
      simp only [E_rest, Ctx.q1]; exact getElem_cross _ _ _ _
    have hg2 : (E X.q2 s).v.rest[s.v.rest.length + (X.tok'.length + m)]? = X.post[m]? := by
      simp only [E_rest, Ctx.q2]; exact getElem_cross _ _ _ _
    have hle1 : s.v.rest.length + (X.tok.length + m) ≤ (E X.q1 s).v.rest.length := by
      simp only [E_rest, Ctx.q1, List.length_append]; omega
    have hle2 : s.v.rest.length + (X.tok'.length + m) ≤ (E X.q2 s).v.rest.length := by
      simp only [E_rest, Ctx.q2, List.length_append]; omega
    have hla : (E X.q1 s).v.peeked - ((E X.q1 s).v.pos + (s.v.rest.length + (X.tok.length + m))) =
        (E X.q2 s).v.peeked - ((E X.q2 s).v.pos + (s.v.rest.length + (X.tok'.length + m))) := by
      have hp := hs.peek
      simp only [E_peeked, E_pos]
      omega
    exact commentTail hdrop hg1 hg2 hle1 hle2 hla rfl rfl rfl f1 f2
  · -- the comment ends inside the short input
    have hmem : (10 : UInt8) ∈ s.v.rest := by
      apply Classical.byContradiction
      intro hn
      exact h10 (List.count_eq_zero.mpr hn)
    have hn := runLen_lt_of_mem (· != 10) hmem (by decide)
    have r1 : Text.runLen (· != 10) (E X.q1 s).v.rest = Text.runLen (· != 10) s.v.rest :=
      PM.runLen_append _ _ _ hn
    have r2 : Text.runLen (· != 10) (E X.q2 s).v.rest = Text.runLen (· != 10) s.v.rest :=
      PM.runLen_append _ _ _ hn
    rw [r1] at f1
    rw [r2] at f2
    refine RWp.bind (RWp.scanE (f1 := (scanWhile (· != 10) · 0)) (f2 := (scanWhile (· != 10) · 0))
      f1 f2 (by omega) (by omega) ?_)
    refine RWp.bind (RWp.reqAtE (by simp only [pk_rest]; omega) (by simp only [pk_rest]; omega) ?_)
    have g1 : (((pk (Text.runLen (· != 10) s.v.rest) s).v.rest ++ X.q1)[
        Text.runLen (· != 10) s.v.rest]?).isNone = false := by
      rw [pk_rest, List.getElem?_append_left hn, List.getElem?_eq_getElem hn]; rfl
    have g2 : (((pk (Text.runLen (· != 10) s.v.rest) s).v.rest ++ X.q2)[
        Text.runLen (· != 10) s.v.rest]?).isNone = false := by
      rw [pk_rest, List.getElem?_append_left hn, List.getElem?_eq_getElem hn]; rfl
    simp only [g1, g2, Bool.false_eq_true, ↓reduceIte]
    refine RWp.advanceWithBufE (by simp only [pk_rest]; omega) ?_
    refine Post.inP ?_
    have hst := (hs.pk (Text.runLen (· != 10) s.v.rest) (by omega)).adv_pk
      (n := Text.runLen (· != 10) s.v.rest) (k := Text.runLen (· != 10) s.v.rest)
      (by simp only [pk_rest]; omega) (by simp only [pk_rest]; omega) ?_
    · exact hst
    · intro x hx
      have := runLen_take_all (· != 10) _ x hx
      simpa using this

end Cat
end Btor2
end Flussab
