/-
Safety of the binary and-gate block and of whole-file `binary::Parser::parse`.

Inside the block a consumed byte may be `0x0A`, which the line invariant `Inv b f`
(`Proof/PMHoare.lean`: no newline consumed since `line_start`) excludes.  The code never calls
`line_at_offset` in the block, so for its bookkeeping the block *is* the continuation of the line
that starts where the block starts (DESIGN §4 C08).  This is expressed by changing the ghost input
instead of the invariant: `mask b s p` is `b` with the bytes `[s, p)` replaced by zeros.  While
the block is read, `MInv b f lr` = `Inv (mask b line_start position) f lr` holds, and all the
lemmas about text lines — which are generic in the ghost input — apply after the block with the
ghost `mask b s p` (`s` = start of the block, `p` = its end).  Errors satisfy
`ErrM b f` = `Err (mask b s p) f` for some `s ≤ p ≤ b.length`: never a panic, and a syntax error
designates a position in range *of the input whose and-gate block bytes are not line structure*.
-/
import Flussab.Proof.AigerJustice

namespace Flussab
namespace Aiger
open PM Lines

/-- `b` with the bytes at offsets `[s, p)` replaced by zeros. -/
def mask (b : VBytes) (s p : Nat) : VBytes := b.take s ++ List.replicate (p - s) 0 ++ b.drop p

theorem mask_prefix_length (b : VBytes) (s p : Nat) (hs : s ≤ p) (hp : p ≤ b.length) :
    (b.take s ++ List.replicate (p - s) (0 : UInt8)).length = p := by
  simp only [List.length_append, List.length_take, List.length_replicate]; omega

theorem length_mask (b : VBytes) (s p : Nat) (hs : s ≤ p) (hp : p ≤ b.length) :
    (mask b s p).length = b.length := by
  unfold mask
  rw [List.length_append, mask_prefix_length b s p hs hp, List.length_drop]; omega

theorem drop_mask (b : VBytes) (s p : Nat) (hs : s ≤ p) (hp : p ≤ b.length) :
    (mask b s p).drop p = b.drop p := by
  unfold mask
  exact List.drop_left' (mask_prefix_length b s p hs hp)

theorem take_mask (b : VBytes) (s p : Nat) (hp : s ≤ b.length) :
    (mask b s p).take s = b.take s := by
  unfold mask
  rw [List.append_assoc]
  exact List.take_left' (by simp only [List.length_take]; omega)

theorem mask_self (b : VBytes) (s : Nat) : mask b s s = b := by
  unfold mask
  simp

theorem getElem?_mask_lt (b : VBytes) (s p i : Nat) (hi : i < s) (hs : s ≤ b.length) :
    (mask b s p)[i]? = b[i]? := by
  unfold mask
  rw [List.append_assoc, List.getElem?_append_left (by simp only [List.length_take]; omega),
    List.getElem?_take_of_lt hi]

theorem getElem?_mask_mid (b : VBytes) (s p i : Nat) (h1 : s ≤ i) (h2 : i < p) (hp : p ≤ b.length) :
    (mask b s p)[i]? = some 0 := by
  unfold mask
  have hl : (b.take s).length = s := by simp only [List.length_take]; omega
  rw [List.getElem?_append_left (by rw [mask_prefix_length b s p (by omega) hp]; exact h2),
    List.getElem?_append_right (by omega), hl, List.getElem?_replicate]
  simp only [ite_eq_left_iff, reduceCtorEq, imp_false, Decidable.not_not]
  omega

theorem mask_mask (b : VBytes) (s p q : Nat) (hs : s ≤ p) (hpq : p ≤ q) (hq : q ≤ b.length) :
    mask (mask b s p) s q = mask b s q := by
  have hp : p ≤ b.length := by omega
  have hd : (mask b s p).drop q = b.drop q := by
    have : q = p + (q - p) := by omega
    rw [this, ← List.drop_drop, drop_mask b s p hs hp, List.drop_drop]
  show (mask b s p).take s ++ List.replicate (q - s) 0 ++ (mask b s p).drop q = _
  rw [take_mask b s p (by omega), hd]
  rfl

/-- The invariant while the and-gate block is read: the line invariant over the input in which
everything consumed since `line_start` is not line structure. -/
def MInv (b : VBytes) (f : Bool) (lr : LR) : Prop :=
  lr.lineStart ≤ lr.v.pos ∧ lr.v.pos ≤ b.length ∧ Inv (mask b lr.lineStart lr.v.pos) f lr

/-- Errors of a binary file: an error of the masked input, for some prefix `[s, p)` of the block. -/
def ErrM (b : VBytes) (f : Bool) (e : PErr) (lr : LR) : Prop :=
  ∃ s p, s ≤ p ∧ p ≤ b.length ∧ Err (mask b s p) f e lr

theorem errM_of_err {b : VBytes} {f : Bool} {e : PErr} {lr : LR} (h : Err b f e lr) : ErrM b f e lr :=
  ⟨0, 0, Nat.le_refl _, Nat.zero_le _, by rw [mask_self]; exact h⟩

/-- Weakening of the error postcondition. -/
theorem Wp.monoE {α : Type} {E E' : PErr → LR → Prop} {m : PM α} {lr : LR} {Q : α → LR → Prop}
    (h : Wp E m lr Q) (he : ∀ e lr1, E e lr1 → E' e lr1) : Wp E' m lr Q := by
  unfold Wp at *
  rcases hm : m.run lr with ⟨e | a, lr1⟩
  · rw [hm] at h; exact he _ _ h
  · rw [hm] at h; exact h

theorem wpToM {α : Type} {b : VBytes} {f : Bool} {m : PM α} {lr : LR} {Q : α → LR → Prop}
    (h : Wp (Err b f) m lr Q) : Wp (ErrM b f) m lr Q := Wp.monoE h fun _ _ he => errM_of_err he

/-- The state after `advance(k)`, whatever the `k` bytes are: the line invariant over the input in
which they (and everything else since `line_start`) are masked. -/
theorem inv_mask_advance {b : VBytes} {f : Bool} {lr0 lr : LR} (e : Ext lr0 lr) (h : Inv b f lr0)
    (k : Nat) (hk : k ≤ lr0.v.rest.length) :
    Inv (mask b lr0.lineStart (lr0.v.pos + k)) f
      { lr with v := { lr.v with rest := lr.v.rest.drop k, pos := lr.v.pos + k } } := by
  have hl := h.rest_length
  have hpl := h.pos_le
  have hs := h.online.le
  have hq : lr0.v.pos + k ≤ b.length := by omega
  have hsq : lr0.lineStart ≤ lr0.v.pos + k := by omega
  refine { size := ?_, rest := ?_, pos_le := ?_, fault := ?_, online := ?_, finv := e.finv h.finv }
  · have := h.size; unfold SizeOK at *; rw [length_mask b _ _ hsq hq]; exact this
  · show lr.v.rest.drop k = (mask b lr0.lineStart (lr0.v.pos + k)).drop (lr.v.pos + k)
    rw [e.rest, e.pos, drop_mask b _ _ hsq hq, h.rest, List.drop_drop]
  · show lr.v.pos + k ≤ (mask b lr0.lineStart (lr0.v.pos + k)).length
    rw [e.pos, length_mask b _ _ hsq hq]; exact hq
  · show lr.v.fault = f
    rw [e.fault]; exact h.fault
  · show OnLine (mask b lr0.lineStart (lr0.v.pos + k)) lr.lineStart lr.line (lr.v.pos + k)
    rw [e.lineStart, e.line, e.pos]
    refine ⟨hsq, by rw [length_mask b _ _ hsq hq]; exact hq, ?_, ?_⟩
    · intro i h1 h2
      rw [getElem?_mask_mid b _ _ i h1 h2 hq]
      simp
    · rcases h.online.lineAt with ⟨⟨hst1, hst2⟩, hline⟩ | ⟨hsl, hrest⟩
      · refine Or.inl ⟨⟨by rw [length_mask b _ _ hsq hq]; exact hst1, ?_⟩, ?_⟩
        · rcases hst2 with h0 | h10
          · exact Or.inl h0
          · by_cases hz : lr0.lineStart = 0
            · exact Or.inl hz
            · exact Or.inr (by rw [getElem?_mask_lt b _ _ _ (by omega) hst1]; exact h10)
        · rw [take_mask b _ _ hst1]; exact hline
      · have : lr0.v.pos + k = lr0.lineStart := by omega
        rw [this, mask_self]
        exact Or.inr ⟨hsl, hrest⟩

/-- The text invariant implies the block invariant (the bytes since `line_start` are no
newlines, so masking them changes nothing that matters). -/
theorem MInv.of_inv {b : VBytes} {f : Bool} {lr : LR} (h : Inv b f lr) : MInv b f lr := by
  refine ⟨h.online.le, h.pos_le, ?_⟩
  have := inv_mask_advance (Ext.refl lr) h 0 (Nat.zero_le _)
  simpa using this

variable {b : VBytes} {f : Bool} {lr lr0 : LR}

/-- The length loop of `binary_uint`: no panic; on return, `k` bytes at the cursor exist and have
been looked at. -/
theorem binaryUintLen_ok (h : Inv b f lr0) :
    ∀ (fuel n : Nat) (lr : LR), Ext lr0 lr → n < 10 → 10 - n < fuel →
      Wp (Err b f) (binaryUintLen fuel n) lr (fun k lr1 => Ext lr0 lr1 ∧ n < k ∧
        k ≤ lr0.v.rest.length ∧ lr0.v.pos + k ≤ lr1.v.peeked) := by
  intro fuel
  induction fuel with
  | zero => intro n lr _ _ hf; omega
  | succ fuel ih =>
    intro n lr e hn hf
    unfold binaryUintLen
    refine Wp.bind' (Wp.reqAtF e n) ?_
    intro a lr1 ⟨e1, ha, p1, _⟩
    split
    · rename_i byte
      have hlt : n < lr0.v.rest.length := (List.getElem?_eq_some_iff.mp ha.symm).1
      dsimp only
      split
      · exact Wp.pure ⟨e1, by omega, by omega, by omega⟩
      · split
        · exact Wp.err (h.ext e1)
        · rename_i h10
          have : n + 1 ≠ 10 := by simpa using h10
          refine (ih (n + 1) lr1 e1 (by omega) (by omega)).mono ?_
          intro k lr2 ⟨e2, hk, hl, hp⟩
          exact ⟨e2, by omega, hl, hp⟩
    · exact unexpected_ok (h.ext e1)

/-- What a block step leaves unchanged. -/
structure SameLine (lr lr1 : LR) : Prop where
  pos : lr.v.pos ≤ lr1.v.pos
  line : lr1.line = lr.line
  lineStart : lr1.lineStart = lr.lineStart
  mark : lr1.v.mark = lr.v.mark

/-- `binary_uint` never panics and keeps the block invariant. -/
theorem binaryUint_ok (h : MInv b f lr) :
    Wp (ErrM b f) binaryUint lr (fun _ lr1 => MInv b f lr1 ∧ SameLine lr lr1) := by
  obtain ⟨hs, hp, hi⟩ := h
  have hl := hi.rest_length
  rw [length_mask b _ _ hs hp] at hl
  refine Wp.monoE (E := Err (mask b lr.lineStart lr.v.pos) f) ?_
    (fun e lr1 he => ⟨_, _, hs, hp, he⟩)
  unfold binaryUint
  refine Wp.bind' (binaryUintLen_ok hi 11 0 lr (Ext.refl lr) (by decide) (by decide)) ?_
  intro k lr1 ⟨e1, hk0, hkl, hkp⟩
  refine Wp.bind (Wp.bufPrefixF e1 hkl hkp ?_)
  split
  · exact Wp.err (hi.ext e1)
  · refine Wp.bind (Wp.advance (demanded_ge (by rw [e1.rest]; exact hkl) (by rw [e1.pos]; exact hkp)) ?_)
    refine Wp.pure ⟨⟨?_, ?_, ?_⟩, ⟨?_, e1.line, e1.lineStart, e1.mark⟩⟩
    · show lr1.lineStart ≤ lr1.v.pos + k
      rw [e1.lineStart, e1.pos]; omega
    · show lr1.v.pos + k ≤ b.length
      rw [e1.pos]; omega
    · have := inv_mask_advance e1 hi k hkl
      rw [mask_mask b _ _ _ hs (by omega) (by omega)] at this
      have e2 : mask b lr1.lineStart (lr1.v.pos + k) = mask b lr.lineStart (lr.v.pos + k) := by
        rw [e1.lineStart, e1.pos]
      show Inv (mask b lr1.lineStart (lr1.v.pos + k)) f _
      rw [e2]
      exact this
    · show lr.v.pos ≤ lr1.v.pos + k
      rw [e1.pos]; omega

/-- `delta_code` never panics: the subtraction is guarded, and the error for a delta that is too
large is raised at the mark, which is the start of the varint on the (masked) current line. -/
theorem deltaCode_ok (code : Nat) (h : MInv b f lr) :
    Wp (ErrM b f) (deltaCode code) lr (fun _ lr1 => MInv b f lr1 ∧ lr.v.pos ≤ lr1.v.pos ∧
      lr1.lineStart = lr.lineStart) := by
  unfold deltaCode
  have h1 : MInv b f { lr with v := lr.v.setMark } := by
    obtain ⟨hs, hp, hi⟩ := h
    exact ⟨hs, hp, { size := hi.size, rest := hi.rest, pos_le := hi.pos_le, fault := hi.fault,
                     online := hi.online, finv := hi.finv }⟩
  refine Wp.bind (Wp.setMark ?_)
  refine Wp.bind' (binaryUint_ok h1) ?_
  intro delta lr2 ⟨h2, sl⟩
  have hmark : MarkOK lr2 := by
    refine ⟨?_, ?_⟩
    · rw [sl.lineStart, sl.mark]; exact h.1
    · rw [sl.mark]; exact sl.pos
  split
  · exact Wp.monoE (errorAtMark_ok h2.2.2 hmark) (fun e lr3 he => ⟨_, _, h2.1, h2.2.1, he⟩)
  · exact Wp.pure ⟨h2, sl.pos, sl.lineStart⟩

/-- `binary::ParseAndGates::next_and_gate` never panics. -/
theorem nextAndGateBin_ok (s : St) (h : MInv b f lr) (hs : SInv s) :
    Wp (ErrM b f) (nextAndGateBin s) lr (fun r lr1 => MInv b f lr1 ∧ SInv r.2 ∧
      lr.v.pos ≤ lr1.v.pos ∧
      match r.1 with
      | some _ => r.2.left + 1 = s.left
      | none => r.2 = s ∧ s.left = 0) := by
  unfold nextAndGateBin
  split
  · rename_i h0
    exact Wp.pure ⟨h, hs, Nat.le_refl _, rfl, h0⟩
  · rename_i left hl
    refine Wp.bind' (deltaCode_ok _ h) ?_
    intro c0 lr1 ⟨h1, p1, _⟩
    refine Wp.bind' (deltaCode_ok _ h1) ?_
    intro c1 lr2 ⟨h2, p2, _⟩
    exact Wp.pure ⟨h2, hs, by omega, hl.symm⟩

/-- The gate loop. -/
theorem gatesLoop_ok :
    ∀ (fuel : Nat) (s : St) (acc : List OGate) (lr : LR), MInv b f lr → SInv s → s.left < fuel →
      Wp (ErrM b f) (whileSome nextAndGateBin fuel s acc) lr (fun r lr1 => MInv b f lr1 ∧ SInv r.2 ∧
        lr.v.pos ≤ lr1.v.pos) := by
  intro fuel
  induction fuel with
  | zero => intro s acc lr _ _ hf; omega
  | succ fuel ih =>
    intro s acc lr h hs hf
    unfold whileSome
    refine Wp.bind' (nextAndGateBin_ok s h hs) ?_
    intro r lr1 ⟨i1, s1, p1, hr⟩
    obtain ⟨o, s'⟩ := r
    cases o with
    | none => exact Wp.pure ⟨i1, s1, p1⟩
    | some a =>
      simp only at hr s1 ⊢
      refine (ih s' (a :: acc) lr1 i1 s1 (by omega)).mono ?_
      intro r lr2 ⟨i2, s2, p2⟩
      exact ⟨i2, s2, by omega⟩

end Aiger
end Flussab

namespace Flussab
namespace Aiger
open PM Lines

variable {b : VBytes} {f : Bool} {lr : LR}

/-- `ParseAndGates::symbols` of the binary parser. -/
theorem toSymbolsBin_ok (s : St) (hb : s.p.bin = true) (h : MInv b f lr) (hs : SInv s) :
    Wp (ErrM b f) (toSymbols s) lr (fun _ lr1 => MInv b f lr1) := by
  unfold toSymbols
  simp only [hb, ↓reduceIte]
  unfold finish
  refine Wp.bind' (Q1 := fun _ lr1 => MInv b f lr1) ?_ ?_
  · refine Wp.bind' (gatesLoop_ok _ s [] lr h hs (by omega)) ?_
    rintro ⟨xs, s'⟩ lr1 ⟨i1, _, _⟩
    exact Wp.pure i1
  intro s' lr1 i1
  exact Wp.pure i1

/-- `binary::Parser::parse` never panics. -/
theorem parseBinary_ok (p : Parser) (hb : p.bin = true) (h : Inv b f lr) :
    Wp (ErrM b f) (parseBinary p) lr (fun _ _ => f = false) := by
  unfold parseBinary
  have hs0 : SInv ({ p } : St) := Nat.zero_le _
  refine Wp.bind' (wpToM (toLatches_ok ({ p } : St) h hs0)) ?_
  intro s2 lr2 ⟨i2, q2, _, b2⟩
  refine Wp.bind' (wpToM (whileSome_both nextLatchBin_ok nextLatchBin_spec s2 i2 q2)) ?_
  rintro ⟨latches, s3⟩ lr3 ⟨i3, q3, _, d3⟩
  dsimp only at q3 d3 ⊢
  refine Wp.bind' (wpToM (parseMid_ok s3 i3 q3)) ?_
  rintro ⟨mid, s4⟩ lr4 ⟨i4, q4, b4⟩
  dsimp only at q4 b4 ⊢
  refine Wp.bind' (wpToM (toAndGates_ok s4 i4 q4)) ?_
  intro s5 lr5 ⟨i5, q5, _, b5⟩
  refine Wp.bind' (wp_andPost (gatesLoop_ok _ s5 [] lr5 (MInv.of_inv i5) q5 (by omega))
    (whileSome_spec nextAndGateBin_spec _ s5 [])) ?_
  rintro ⟨gates, s6⟩ lr6 ⟨⟨i6, q6, _⟩, ys, _, d6⟩
  dsimp only at q6 d6 i6 ⊢
  have hb6 : s6.p.bin = true := by
    rw [d6.cfg.2.2.2, b5, b4, d3.cfg.2.2.2, b2]
    exact hb
  refine Wp.bind' (toSymbolsBin_ok s6 hb6 i6 q6) ?_
  intro p' lr7 ⟨hs7, hp7, i7⟩
  refine Wp.bind' (Wp.monoE (parseTail_ok p' i7) (fun e lr8 he => ⟨_, _, hs7, hp7, he⟩)) ?_
  rintro ⟨symbols, c⟩ lr8 hf
  exact Wp.pure hf

/-- `Parser::from_read(..)?.parse()` of the binary format never panics. -/
theorem parseAig_ok (l : LitTy) (hl : l.bits ≤ 64) (h : Inv b f lr) :
    Wp (ErrM b f) (parseAig l) lr (fun _ _ => f = false) := by
  unfold parseAig
  refine Wp.bind' (wpToM (Parser.new_ok true l hl h)) ?_
  intro p lr1 ⟨i1, ok⟩
  exact parseBinary_ok p ok.bin i1

end Aiger
end Flussab
