/-
Proofs of the tie between the generated streaming DIMACS CNF parser (`Gen/CnfParserGen.lean`, from
`flussab-cnf/src/cnf.rs`, `impl Parser`) and `Model/Cnf.lean`.  Statements: `Props/TieCnfParser.lean`.

The generated code runs in `PPM = StateT Cnf.ParserS PM` (parser fields + reader); the model threads the record
`Cnf.Parser` explicitly through `PM`.  Proofs run both sides on a state (`ppm_bind_apply`, `tok_apply`, ...) and
split on the outcome of each token; the straight-line part of `parse_header` is algebraic (`tok_bind`,
`tok_orGiveUp`).  Loops: the generated loops and the model's loops differ in their out-of-fuel values; both
start with more fuel than remaining input bytes and every iteration that continues has consumed a byte
(`prog_comment` / `prog_newline` of `Proof/TieCnfToken.lean`; a fall-through of the clause alternative
consumes nothing: `Cnf.clauseLits_la`), so the fuel is never used up (`hdr_loop`, `nc_loop`).
`header.var_count as isize` (`usizeAsIsize`) is the identity because `var_count` returns at most
`L::MAX_DIMACS ≤ isize::MAX` (`CnfP.parseHeader_ret`, needs `l.bits ≤ 64`).
-/
import Flussab.Gen.CnfParserGen
import Flussab.Proof.TieCnfToken
import Flussab.Proof.CnfSound
import Flussab.Proof.CnfLookahead

set_option linter.unusedSimpArgs false

namespace Flussab
namespace TieCnfParserAux
open PM CnfParserExt TieCnfTokenAux

variable {α β : Type}

/-- One run of a `PPM` computation. -/
theorem ppm_bind_apply (x : PPM α) (f : α → PPM β) (s : Cnf.ParserS) (lr : LR) :
    (x >>= f) s lr = match x s lr with
      | (.ok (a, s'), lr') => f a s' lr'
      | (.error e, lr') => (.error e, lr') := by
  show ((x s : PM (α × Cnf.ParserS)) >>= fun p => f p.1 p.2) lr = _
  rw [PM.bind_apply]
  rcases x s lr with ⟨_ | ⟨a, s'⟩, lr'⟩ <;> rfl

theorem ppm_pure_apply (a : α) (s : Cnf.ParserS) (lr : LR) : (pure a : PPM α) s lr = (.ok (a, s), lr) := rfl

theorem tok_apply (x : PM α) (s : Cnf.ParserS) (lr : LR) :
    tok x s lr = match x lr with
      | (.ok a, lr') => (.ok (a, s), lr')
      | (.error e, lr') => (.error e, lr') := by
  show ((x : PM α) >>= fun a => (pure (a, s) : PM (α × Cnf.ParserS))) lr = _
  rw [PM.bind_apply]
  rcases x lr with ⟨_ | a, lr'⟩ <;> rfl

theorem getP_apply (s : Cnf.ParserS) (lr : LR) : getP s lr = (.ok (s, s), lr) := rfl
theorem setP_apply (t s : Cnf.ParserS) (lr : LR) : setP t s lr = (.ok ((), t), lr) := rfl
theorem modifyP_apply (g : Cnf.ParserS → Cnf.ParserS) (s : Cnf.ParserS) (lr : LR) :
    modifyP g s lr = (.ok ((), g s), lr) := rfl
theorem getLR_apply' (s : Cnf.ParserS) (lr : LR) : CnfParserExt.getLR s lr = (.ok (lr, s), lr) := rfl


/-- A fall-through of `comment` / `newline` and a match that... -/
theorem hdr_step (l : Cnf.LitTy) (f : Nat) (s : Cnf.ParserS) (lr : LR) :
    Gen.CnfParser.parseHeader.loop1 l (f + 1) () s lr =
      (tok («matches» Cnf.comment) >>= fun c =>
        if c = true then Gen.CnfParser.parseHeader.loop1 l f ()
        else tok («matches» Cnf.newline) >>= fun c2 =>
          if c2 = true then Gen.CnfParser.parseHeader.loop1 l f () else pure (Ctl.brk ())) s lr := by
  rw [Gen.CnfParser.parseHeader.loop1]
  simp only [ppm_bind_apply, tok_apply, «matches», PM.bind_apply, pure_apply]
  rcases Cnf.comment lr with ⟨_ | o, lr1⟩
  · rfl
  · rcases o with _ | u
    · simp only [Option.isSome_none, Bool.false_eq_true, if_false, ppm_bind_apply, tok_apply, PM.bind_apply, pure_apply]
      rcases Cnf.newline lr1 with ⟨_ | o2, lr2⟩
      · rfl
      · rcases o2 with _ | u2
        · rfl
        · rfl
    · rfl


theorem prog_m_comment (lr : LR) : Wp T («matches» Cnf.comment) lr
    (fun c lr1 => c = true → lr1.v.rest.length < lr.v.rest.length) := by
  unfold «matches»
  refine Wp.bind' (prog_comment lr) ?_
  intro o lr1 h1
  exact Wp.pure (fun hc => h1.1 hc)

theorem prog_m_newline (lr : LR) : Wp T («matches» Cnf.newline) lr
    (fun c lr1 => (c = true → lr1.v.rest.length < lr.v.rest.length) ∧ (c = false → lr1.v.rest = lr.v.rest)) := by
  unfold «matches»
  refine Wp.bind' (prog_newline lr) ?_
  intro o lr1 h1
  refine Wp.pure ⟨fun hc => h1.1 hc, fun hc => h1.2 ?_⟩
  cases o <;> simp_all

theorem prog_m_comment' (lr : LR) : Wp T («matches» Cnf.comment) lr
    (fun c lr1 => (c = true → lr1.v.rest.length < lr.v.rest.length) ∧ (c = false → lr1.v.rest = lr.v.rest)) := by
  unfold «matches»
  refine Wp.bind' (prog_comment lr) ?_
  intro o lr1 h1
  refine Wp.pure ⟨fun hc => h1.1 hc, fun hc => h1.2 ?_⟩
  cases o <;> simp_all

theorem hdr_loop (l : Cnf.LitTy) (fuel : Nat) : ∀ (s : Cnf.ParserS) (lr : LR), lr.v.rest.length < fuel →
    Gen.CnfParser.parseHeader.loop1 l fuel () s lr =
      (tok (Cnf.headerSkipLoop fuel) >>= fun _ => (pure (Ctl.brk ()) : PPM (Ctl Unit (Option Cnf.Header)))) s lr := by
  induction fuel with
  | zero => intro s lr h; omega
  | succ fuel ih =>
    intro s lr hf
    rw [hdr_step, Cnf.headerSkipLoop]
    simp only [ppm_bind_apply, tok_apply, PM.bind_apply]
    have hp := (Wp.of_run (prog_m_comment' lr)).1
    cases hm : «matches» Cnf.comment lr with
    | mk r lr1 =>
      cases r with
      | error e => rfl
      | ok c =>
        cases c with
        | true =>
          have := (hp true lr1 hm).1 rfl
          have h2 := ih s lr1 (by omega)
          simp only [if_true]
          rw [h2]
          simp only [ppm_bind_apply, tok_apply]
        | false =>
          have e1 := (hp false lr1 hm).2 rfl
          simp only [Bool.false_eq_true, if_false, ppm_bind_apply, tok_apply, PM.bind_apply]
          have hp2 := (Wp.of_run (prog_m_newline lr1)).1
          cases hm2 : «matches» Cnf.newline lr1 with
          | mk r2 lr2 =>
            cases r2 with
            | error e => rfl
            | ok c2 =>
              cases c2 with
              | true =>
                have := (hp2 true lr2 hm2).1 rfl
                rw [e1] at this
                have h2 := ih s lr2 (by omega)
                simp only [if_true]
                rw [h2]
                simp only [ppm_bind_apply, tok_apply]
              | false => rfl


theorem tok_pure (a : α) : tok (pure a : PM α) = (pure a : PPM α) := by
  funext s lr; rfl

theorem tok_bind (x : PM α) (f : α → PM β) : tok (x >>= f) = tok x >>= fun a => tok (f a) := by
  funext s lr
  rw [ppm_bind_apply, tok_apply, tok_apply, PM.bind_apply]
  rcases x lr with ⟨_ | a, lr'⟩
  · rfl
  · simp only [tok_apply]

/-- `x.or_give_up(|| e)` on the value of `x` is the model's `orGiveUp x e`. -/
theorem tok_orGiveUp (x : PM (Option α)) (e : PM α) :
    tok (PM.orGiveUp x e) = tok x >>= fun o => CnfParserExt.orGiveUp o (tok e) := by
  unfold PM.orGiveUp
  rw [tok_bind]
  congr 1; funext o
  cases o with
  | none => rfl
  | some a => exact tok_pure a

theorem header_tail (l : Cnf.LitTy) :
    (tok (Cnf.word [112]) >>= fun t5 =>
        andThen t5 fun _ => do
          let t6 ← tok (Cnf.word [99, 110, 102])
          CnfParserExt.orGiveUp t6 (tok Cnf.unexpected)
          let t8 ← tok (Cnf.varCount l)
          let t9 ← CnfParserExt.orGiveUp t8 (tok Cnf.unexpected)
          let t10 ← tok (Cnf.uintCount Cnf.usizeTy)
          let t11 ← CnfParserExt.orGiveUp t10 (tok Cnf.unexpected)
          let t12 ← tok Cnf.interactiveEndOfLine
          CnfParserExt.orGiveUp t12 (tok Cnf.unexpected)
          pure ({ varCount := t9, clauseCount := t11 } : Cnf.Header)) =
      tok (do
        match ← Cnf.word [112] with
        | none => pure none
        | some () =>
          PM.orGiveUp (Cnf.word (Cnf.keyword .cnf)) Cnf.unexpected
          let varCount ← PM.orGiveUp (Cnf.varCount l) Cnf.unexpected
          let clauseCount ← PM.orGiveUp (Cnf.uintCount Cnf.usizeTy) Cnf.unexpected
          let extra ← (pure 0 : PM Int)
          PM.orGiveUp Cnf.interactiveEndOfLine Cnf.unexpected
          pure (some ({ varCount, clauseCount, extra } : Cnf.Header))) := by
  rw [tok_bind]
  congr 1; funext o
  cases o with
  | none => exact (tok_pure _).symm
  | some u =>
    simp only [CnfParserExt.andThen, tok_bind, tok_orGiveUp, tok_pure, bind_assoc, pure_bind, Cnf.keyword]

theorem parseHeader_eq (l : Cnf.LitTy) : Gen.CnfParser.parseHeader l = tok (Cnf.parseHeader .cnf l) := by
  funext s lr
  unfold Gen.CnfParser.parseHeader Cnf.parseHeader
  simp only [ppm_bind_apply, tok_apply, PM.bind_apply, getLR_apply', TieCnfTokenAux.get_apply]
  rcases Cnf.skipWhitespace lr with ⟨_ | u, lr1⟩
  · rfl
  · simp only []
    rw [hdr_loop l _ s lr1 (by omega)]
    simp only [ppm_bind_apply, tok_apply, PM.bind_apply]
    rcases Cnf.headerSkipLoop (lr1.v.rest.length + 1) lr1 with ⟨_ | u2, lr2⟩
    · rfl
    · simp only [ppm_pure_apply]
      have h := congrFun (congrFun (header_tail l) s) lr2
      rw [tok_apply, PM.bind_apply] at h
      exact h


/-- The generated parser record that corresponds to a model parser record: the model has no `lit_buf`
(the literals are returned) and no `lit_limit_is_hard` (it only selects a message). -/
def ofModel (p : Cnf.Parser) (hard : Bool) (buf : List Int) : Cnf.ParserS :=
  { clauseCount := p.clauseCount, clauseLimit := p.clauseLimit, clauseLimitActive := p.clauseLimitActive,
    litLimit := p.litLimit, litLimitIsHard := hard, litBuf := buf, header := p.header }

/-- `lit_limit_is_hard` after `Parser::new`: the limit is `L::MAX_DIMACS` unless a header variable count was used. -/
def hardAfterNew (ignoreHeader : Bool) (p : Cnf.Parser) : Bool :=
  match p.header with
  | some h => ignoreHeader || h.varCount == 0
  | none => true

theorem usizeAsIsize_small (x : Int) (h : x < 2 ^ 63) : CnfParserExt.usizeAsIsize x = x := by
  unfold CnfParserExt.usizeAsIsize; rw [if_pos h]

theorem new_eq (l : Cnf.LitTy) (hl : l.bits ≤ 64) (cfg : Cnf.Config) (s0 : Cnf.ParserS) :
    (Gen.CnfParser.new l cfg).run s0 =
      (Cnf.Parser.new .cnf l cfg.ignoreHeader >>= fun p =>
        pure (ofModel p (hardAfterNew cfg.ignoreHeader p) [], ofModel p (hardAfterNew cfg.ignoreHeader p) [])) := by
  funext lr
  show Gen.CnfParser.new l cfg s0 lr = _
  unfold Gen.CnfParser.new Cnf.Parser.new
  rw [parseHeader_eq]
  simp only [ppm_bind_apply, tok_apply, PM.bind_apply, setP_apply]
  have hret := CnfP.parseHeader_ret .cnf l lr
  rcases hrun : Cnf.parseHeader .cnf l lr with ⟨_ | o, lr1⟩
  · rfl
  · rcases o with _ | h
    · rfl
    · have hwf := hret (some h) lr1 hrun h rfl
      obtain ⟨h0, h1, h2, h3, h4⟩ := hwf
      have hm := Flussab.CnfP.maxDimacs_le l hl
      have hu : CnfParserExt.usizeAsIsize h.varCount = h.varCount := usizeAsIsize_small _ (by omega)
      simp only [hu]
      rcases cfg with ⟨ign⟩
      cases ign with
      | true => rfl
      | false =>
        have hvb : (h.varCount == 0) = decide (h.varCount = 0) := by
          by_cases hv : h.varCount = 0 <;> simp [hv]
        by_cases hv : h.varCount = 0 <;> by_cases hc : h.clauseCount = 0 <;>
          simp [hv, hc, hvb, ppm_bind_apply, modifyP_apply, getP_apply, ofModel, hardAfterNew, pure_apply]


/-- `unexpected` never returns: binding it to a continuation changes nothing. -/
theorem unexpected_bind (f : α → PM β) : ((Cnf.unexpected : PM α) >>= f) = Cnf.unexpected := by
  unfold Cnf.unexpected
  rw [bind_assoc]
  congr 1; funext n
  split
  · exact giveUp_bind f
  · rw [bind_assoc]
    congr 1; funext lr
    split
    · exact giveUp_bind f
    · rw [bind_assoc]
      congr 1; funext lr2
      show ((reqAt _ >>= fun _ => (giveUp : PM α)) >>= f) = (reqAt _ >>= fun _ => (giveUp : PM β))
      rw [bind_assoc]
      congr 1; funext o
      exact giveUp_bind f

/-- `unexpected` is an error, the same one at every result type. -/
theorem unexpected_err (lr : LR) : ∃ e lr', ∀ γ : Type, (Cnf.unexpected : PM γ) lr = (.error e, lr') := by
  rcases h : (Cnf.unexpected : PM Empty) lr with ⟨_ | o, lr'⟩
  · rename_i e
    refine ⟨e, lr', fun γ => ?_⟩
    rw [← unexpected_bind (fun x : Empty => nomatch x), PM.bind_apply, h]
  · exact nomatch o

/-! ### `next_clause` -/

abbrev NC := Ctl Unit (Option (List Int))

/-- What the generated loop returns for a result of the model's loop. -/
def ncOut (hard : Bool) (buf : List Int) (r : Except PErr ((Option Cnf.Clause × Cnf.Parser)) × LR) :
    Except PErr (NC × Cnf.ParserS) × LR :=
  match r with
  | (.ok (c, p'), lr') =>
    (.ok (Ctl.ret (c.map (·.lits)), ofModel p' hard (match c with | some c => c.lits | none => buf)), lr')
  | (.error e, lr') => (.error e, lr')

/-- The part of an iteration after the clause alternative fell through (generated code). -/
def restG (l : Cnf.LitTy) (f : Nat) : PPM NC := do
  let t6 ← tok Cnf.comment
  if t6.isSome = true then Gen.CnfParser.nextClause.loop1 l f ()
    else do
      let t7 ← tok Cnf.newline
      if t7.isSome = true then Gen.CnfParser.nextClause.loop1 l f ()
        else do
          let s1 ← getP
          let s2 ← getP
          let s3 ← getP
          if (!s1.clauseLimitActive || decide ((s2.clauseCount : Int) ≥ s3.clauseLimit)) = true then do
              let t8 ← tok Cnf.eof
              let t9 ← pure t8.isSome
              if t9 = true then pure (Ctl.ret none) else tok Cnf.unexpected
            else do
              let t9 ← pure false
              if t9 = true then pure (Ctl.ret none) else tok Cnf.unexpected

/-- The same part of the model's loop. -/
def restM (p : Cnf.Parser) (f : Nat) : PM (Option Cnf.Clause × Cnf.Parser) := do
  if ← «matches» Cnf.comment then Cnf.nextClauseLoop p f
  else if ← «matches» Cnf.newline then Cnf.nextClauseLoop p f
  else
    let mayEnd := !p.clauseLimitActive || (p.clauseCount : Int) ≥ p.clauseLimit
    if mayEnd then
      if ← «matches» Cnf.eof then pure (none, p) else Cnf.unexpected
    else Cnf.unexpected

theorem rest_eq (p : Cnf.Parser) (hard : Bool) (buf : List Int) (f : Nat)
    (ih : ∀ lr : LR, lr.v.rest.length < f →
      Gen.CnfParser.nextClause.loop1 p.lit f () (ofModel p hard buf) lr = ncOut hard buf (Cnf.nextClauseLoop p f lr))
    (lr : LR) (hf : lr.v.rest.length < f + 1) :
    restG p.lit f (ofModel p hard buf) lr = ncOut hard buf (restM p f lr) := by
  unfold restG restM «matches»
  simp only [ppm_bind_apply, tok_apply, PM.bind_apply, pure_apply]
  have hp := (Wp.of_run (prog_comment lr)).1
  rcases hm : Cnf.comment lr with ⟨_ | o, lr1⟩
  · rfl
  · have hp1 := hp o lr1 hm
    cases o with
    | some u =>
      have := hp1.1 rfl
      simp only [Option.isSome_some, if_true]
      exact ih lr1 (by omega)
    | none =>
      have e1 := hp1.2 rfl
      simp only [Option.isSome_none, Bool.false_eq_true, if_false, ppm_bind_apply, tok_apply, PM.bind_apply, pure_apply]
      have hp2 := (Wp.of_run (prog_newline lr1)).1
      rcases hm2 : Cnf.newline lr1 with ⟨_ | o2, lr2⟩
      · rfl
      · have hp3 := hp2 o2 lr2 hm2
        cases o2 with
        | some u =>
          have := hp3.1 rfl
          rw [e1] at this
          simp only [Option.isSome_some, if_true]
          exact ih lr2 (by omega)
        | none =>
          simp only [Option.isSome_none, Bool.false_eq_true, if_false, ppm_bind_apply, getP_apply, ofModel]
          by_cases hme : (!p.clauseLimitActive || decide ((p.clauseCount : Int) ≥ p.clauseLimit)) = true
          · simp only [hme, if_true, ppm_bind_apply, tok_apply, PM.bind_apply, pure_apply]
            rcases Cnf.eof lr2 with ⟨_ | o3, lr3⟩
            · rfl
            · cases o3 with
              | some u => rfl
              | none =>
                simp only [Option.isSome_none, Bool.false_eq_true, if_false, ppm_pure_apply, tok_apply]
                obtain ⟨e, lr4, hu⟩ := unexpected_err lr3
                rw [hu, hu]; rfl
          · simp only [hme, Bool.false_eq_true, if_false, ppm_bind_apply, ppm_pure_apply, tok_apply]
            obtain ⟨e, lr4, hu⟩ := unexpected_err lr2
            rw [hu, hu]; rfl


theorem nc_loop (p : Cnf.Parser) (hfmt : p.fmt = .cnf) (hard : Bool) (buf : List Int) (fuel : Nat) :
    ∀ lr : LR, lr.v.rest.length < fuel →
      Gen.CnfParser.nextClause.loop1 p.lit fuel () (ofModel p hard buf) lr =
        ncOut hard buf (Cnf.nextClauseLoop p fuel lr) := by
  induction fuel with
  | zero => intro lr h; omega
  | succ f ih =>
    intro lr hf
    rw [Gen.CnfParser.nextClause.loop1, Cnf.nextClauseLoop]
    simp only [ppm_bind_apply, getP_apply, PM.bind_apply]
    by_cases hc : (((p.clauseCount : Int) != p.clauseLimit) || !p.clauseLimitActive) = true
    · have hc' : (((ofModel p hard buf).clauseCount : Int) != (ofModel p hard buf).clauseLimit ||
          !(ofModel p hard buf).clauseLimitActive) = true := hc
      simp only [hc, hc', if_true, ppm_bind_apply, getP_apply]
      unfold Cnf.clauseAlt CnfParserExt.clauseLits
      have hl : (ofModel p hard buf).litLimit = p.litLimit := rfl
      simp only [hfmt, hl, ppm_bind_apply, tok_apply, PM.bind_apply]
      have hla := (Wp.of_run (Cnf.clauseLits_la (lr := lr) p.lit p.litLimit)).1
      rcases hm : Cnf.clauseLits p.lit p.litLimit lr with ⟨_ | o, lr1⟩
      · rfl
      · have h1 := hla o lr1 hm
        cases o with
        | none =>
          have e1 := (h1.2 rfl).1.rest
          have := rest_eq p hard buf f ih lr1 (by rw [e1]; exact hf)
          simp only [ppm_pure_apply, CnfParserExt.andAlso, Option.isSome_none, Bool.false_eq_true, if_false, pure_apply]
          exact this
        | some lits =>
          simp only [ppm_bind_apply, modifyP_apply, ppm_pure_apply, CnfParserExt.andAlso, tok_apply, PM.orGiveUp,
            PM.bind_apply]
          rcases Cnf.interactiveEndOfLine lr1 with ⟨_ | o2, lr2⟩
          · rfl
          · cases o2 with
            | some u => rfl
            | none =>
              obtain ⟨e, lr4, hu⟩ := unexpected_err lr2
              simp only [CnfParserExt.orGiveUp, tok_apply, hu]
              rfl
    · have hc' : ¬ (((ofModel p hard buf).clauseCount : Int) != (ofModel p hard buf).clauseLimit ||
          !(ofModel p hard buf).clauseLimitActive) = true := hc
      simp only [hc, hc', if_false, pure_apply]
      exact rest_eq p hard buf f ih lr hf


/-- Literals handed out by `next_clause` and left in `lit_buf` (`None`: the buffer was cleared). -/
def litsOf (c : Option Cnf.Clause) : List Int :=
  match c with
  | some c => c.lits
  | none => []

/-- `Gen.CnfParser.nextClause` with the fuel expression abstracted (so that no proof step can make the kernel
unfold the fuelled loops at `rest.length + 2`). -/
def nextClauseG (l : Cnf.LitTy) (fuelOf : LR → Nat) : PPM (Option (List Int)) := do
  CnfParserExt.modifyP fun r => { r with litBuf := [] }
  CnfParserExt.tok (Cnf.skipWhitespace)
  let r10 ← Gen.CnfParser.nextClause.loop1 l (fuelOf (← CnfParserExt.getLR)) ()
  match r10 with
  | Ctl.ret v => pure v
  | Ctl.fuel => (CnfParserExt.tok (PM.rpanic "generated"))
  | Ctl.brk _ => (CnfParserExt.tok (PM.rpanic "generated"))

def nextClauseM (p : Cnf.Parser) (fuelOf : LR → Nat) : PM (Option Cnf.Clause × Cnf.Parser) := do
  Cnf.skipWhitespace
  Cnf.nextClauseLoop p (fuelOf (← get))

theorem nextClauseG_eq (p : Cnf.Parser) (hfmt : p.fmt = .cnf) (hard : Bool) (buf : List Int)
    (fuelOf : LR → Nat) (hfuel : ∀ lr : LR, lr.v.rest.length < fuelOf lr) :
    (nextClauseG p.lit fuelOf).run (ofModel p hard buf) =
      (nextClauseM p fuelOf >>= fun r => pure (r.1.map (·.lits), ofModel r.2 hard (litsOf r.1))) := by
  funext lr
  show nextClauseG p.lit fuelOf (ofModel p hard buf) lr = _
  unfold nextClauseG nextClauseM
  simp only [ppm_bind_apply, modifyP_apply, tok_apply, PM.bind_apply, getLR_apply', TieCnfTokenAux.get_apply]
  rcases Cnf.skipWhitespace lr with ⟨_ | u, lr1⟩
  · rfl
  · simp only []
    have h := nc_loop p hfmt hard [] (fuelOf lr1) lr1 (hfuel lr1)
    have e : ({ ofModel p hard buf with litBuf := [] } : Cnf.ParserS) = ofModel p hard [] := rfl
    rw [e, h]
    rcases Cnf.nextClauseLoop p (fuelOf lr1) lr1 with ⟨_ | ⟨c, p'⟩, lr2⟩
    · rfl
    · cases c <;> rfl

theorem nextClause_eq (p : Cnf.Parser) (hfmt : p.fmt = .cnf) (hard : Bool) (buf : List Int) :
    (Gen.CnfParser.nextClause p.lit).run (ofModel p hard buf) =
      (Cnf.Parser.nextClause p >>= fun r => pure (r.1.map (·.lits), ofModel r.2 hard (litsOf r.1))) :=
  nextClauseG_eq p hfmt hard buf (fun lr => lr.v.rest.length + 2) (fun lr => by omega)

end TieCnfParserAux
end Flussab
