/-
From words to byte lists: the SWAR kernel applied to the little-endian load of 8 buffered bytes
returns the length and the decimal value of the leading digit run of those 8 bytes.
-/
import Flussab.Proof.Swar
import Flussab.Proof.Digits

namespace Flussab.Swar
open Flussab Flussab.Text Flussab.Gen

theorem isDig_toBitVec (b : UInt8) : isDig b.toBitVec = isDigit b := by
  simp only [isDig, isDigit]
  congr 1

theorem le64_bytes (b0 b1 b2 b3 b4 b5 b6 b7 : UInt8) (rest : VBytes) :
    byteAt (le64 (b0 :: b1 :: b2 :: b3 :: b4 :: b5 :: b6 :: b7 :: rest)) 0 = b0.toBitVec ∧ byteAt (le64 (b0 :: b1 :: b2 :: b3 :: b4 :: b5 :: b6 :: b7 :: rest)) 1 = b1.toBitVec ∧
    byteAt (le64 (b0 :: b1 :: b2 :: b3 :: b4 :: b5 :: b6 :: b7 :: rest)) 2 = b2.toBitVec ∧ byteAt (le64 (b0 :: b1 :: b2 :: b3 :: b4 :: b5 :: b6 :: b7 :: rest)) 3 = b3.toBitVec ∧
    byteAt (le64 (b0 :: b1 :: b2 :: b3 :: b4 :: b5 :: b6 :: b7 :: rest)) 4 = b4.toBitVec ∧ byteAt (le64 (b0 :: b1 :: b2 :: b3 :: b4 :: b5 :: b6 :: b7 :: rest)) 5 = b5.toBitVec ∧
    byteAt (le64 (b0 :: b1 :: b2 :: b3 :: b4 :: b5 :: b6 :: b7 :: rest)) 6 = b6.toBitVec ∧ byteAt (le64 (b0 :: b1 :: b2 :: b3 :: b4 :: b5 :: b6 :: b7 :: rest)) 7 = b7.toBitVec := by
  simp only [le64, byteAt, List.getD_cons_zero, List.getD_cons_succ]
  generalize b0.toBitVec = x0
  generalize b1.toBitVec = x1
  generalize b2.toBitVec = x2
  generalize b3.toBitVec = x3
  generalize b4.toBitVec = x4
  generalize b5.toBitVec = x5
  generalize b6.toBitVec = x6
  generalize b7.toBitVec = x7
  refine ⟨?_, ?_, ?_, ?_, ?_, ?_, ?_, ?_⟩ <;> bv_decide

/-- Value of one digit lane. -/
theorem dv_toNat (w : BitVec 64) (i : Nat) (b : UInt8) (hb : byteAt w i = b.toBitVec)
    (hd : isDigit b = true) : (dv w i).toNat = b.toNat - 48 ∧ b.toNat - 48 ≤ 9 := by
  have hr := digitVal_range b hd
  simp only [isDigit, Bool.and_eq_true, decide_eq_true_eq] at hd
  have h1 : 48 ≤ b.toNat := UInt8.le_iff_toNat_le.mp hd.1
  have h2 : b.toNat ≤ 57 := UInt8.le_iff_toNat_le.mp hd.2
  simp only [dv, hb, BitVec.toNat_setWidth, BitVec.toNat_sub, UInt8.toNat_toBitVec, BitVec.toNat_ofNat]
  omega

/-- **Kernel on 8 buffered bytes** = (length, value) of their leading digit run. -/
theorem swar_list (b0 b1 b2 b3 b4 b5 b6 b7 : UInt8) (rest : VBytes) :
    let ds := (List.take 8 (b0 :: b1 :: b2 :: b3 :: b4 :: b5 :: b6 :: b7 :: rest)).takeWhile isDigit
    (swarAsciiDigitsU64Le (le64 (b0 :: b1 :: b2 :: b3 :: b4 :: b5 :: b6 :: b7 :: rest))).2 = ds.length ∧
    (swarAsciiDigitsU64Le (le64 (b0 :: b1 :: b2 :: b3 :: b4 :: b5 :: b6 :: b7 :: rest))).1.toNat = decVal ds := by
  obtain ⟨hb0, hb1, hb2, hb3, hb4, hb5, hb6, hb7⟩ := le64_bytes b0 b1 b2 b3 b4 b5 b6 b7 rest
  intro ds
  simp only [ds]
  cases hd0 : isDigit b0
  · -- b0 is not a digit: run length 0
    have hs := swar_c0 (le64 (b0 :: b1 :: b2 :: b3 :: b4 :: b5 :: b6 :: b7 :: rest))  (by rw [hb0, isDig_toBitVec]; exact hd0)
    simp only [List.take, List.takeWhile, hd0]
    rw [hs]
    refine ⟨rfl, ?_⟩
    simp [decVal]
  · -- b0 is a digit
    cases hd1 : isDigit b1
    · -- b1 is not a digit: run length 1
      have hs := swar_c1 (le64 (b0 :: b1 :: b2 :: b3 :: b4 :: b5 :: b6 :: b7 :: rest)) (by rw [hb0, isDig_toBitVec]; exact hd0) (by rw [hb1, isDig_toBitVec]; exact hd1)
      simp only [List.take, List.takeWhile, hd0, hd1]
      rw [hs]
      obtain ⟨e0, r0⟩ := dv_toNat (le64 (b0 :: b1 :: b2 :: b3 :: b4 :: b5 :: b6 :: b7 :: rest)) 0 b0 hb0 hd0
      refine ⟨rfl, ?_⟩
      simp only [decVal, List.foldl, BitVec.toNat_add, BitVec.toNat_mul, BitVec.toNat_ofNat, e0]
      omega
    · -- b1 is a digit
      cases hd2 : isDigit b2
      · -- b2 is not a digit: run length 2
        have hs := swar_c2 (le64 (b0 :: b1 :: b2 :: b3 :: b4 :: b5 :: b6 :: b7 :: rest)) (by rw [hb0, isDig_toBitVec]; exact hd0) (by rw [hb1, isDig_toBitVec]; exact hd1) (by rw [hb2, isDig_toBitVec]; exact hd2)
        simp only [List.take, List.takeWhile, hd0, hd1, hd2]
        rw [hs]
        obtain ⟨e0, r0⟩ := dv_toNat (le64 (b0 :: b1 :: b2 :: b3 :: b4 :: b5 :: b6 :: b7 :: rest)) 0 b0 hb0 hd0
        obtain ⟨e1, r1⟩ := dv_toNat (le64 (b0 :: b1 :: b2 :: b3 :: b4 :: b5 :: b6 :: b7 :: rest)) 1 b1 hb1 hd1
        refine ⟨rfl, ?_⟩
        simp only [decVal, List.foldl, BitVec.toNat_add, BitVec.toNat_mul, BitVec.toNat_ofNat, e0, e1]
        omega
      · -- b2 is a digit
        cases hd3 : isDigit b3
        · -- b3 is not a digit: run length 3
          have hs := swar_c3 (le64 (b0 :: b1 :: b2 :: b3 :: b4 :: b5 :: b6 :: b7 :: rest)) (by rw [hb0, isDig_toBitVec]; exact hd0) (by rw [hb1, isDig_toBitVec]; exact hd1) (by rw [hb2, isDig_toBitVec]; exact hd2) (by rw [hb3, isDig_toBitVec]; exact hd3)
          simp only [List.take, List.takeWhile, hd0, hd1, hd2, hd3]
          rw [hs]
          obtain ⟨e0, r0⟩ := dv_toNat (le64 (b0 :: b1 :: b2 :: b3 :: b4 :: b5 :: b6 :: b7 :: rest)) 0 b0 hb0 hd0
          obtain ⟨e1, r1⟩ := dv_toNat (le64 (b0 :: b1 :: b2 :: b3 :: b4 :: b5 :: b6 :: b7 :: rest)) 1 b1 hb1 hd1
          obtain ⟨e2, r2⟩ := dv_toNat (le64 (b0 :: b1 :: b2 :: b3 :: b4 :: b5 :: b6 :: b7 :: rest)) 2 b2 hb2 hd2
          refine ⟨rfl, ?_⟩
          simp only [decVal, List.foldl, BitVec.toNat_add, BitVec.toNat_mul, BitVec.toNat_ofNat, e0, e1, e2]
          omega
        · -- b3 is a digit
          cases hd4 : isDigit b4
          · -- b4 is not a digit: run length 4
            have hs := swar_c4 (le64 (b0 :: b1 :: b2 :: b3 :: b4 :: b5 :: b6 :: b7 :: rest)) (by rw [hb0, isDig_toBitVec]; exact hd0) (by rw [hb1, isDig_toBitVec]; exact hd1) (by rw [hb2, isDig_toBitVec]; exact hd2) (by rw [hb3, isDig_toBitVec]; exact hd3) (by rw [hb4, isDig_toBitVec]; exact hd4)
            simp only [List.take, List.takeWhile, hd0, hd1, hd2, hd3, hd4]
            rw [hs]
            obtain ⟨e0, r0⟩ := dv_toNat (le64 (b0 :: b1 :: b2 :: b3 :: b4 :: b5 :: b6 :: b7 :: rest)) 0 b0 hb0 hd0
            obtain ⟨e1, r1⟩ := dv_toNat (le64 (b0 :: b1 :: b2 :: b3 :: b4 :: b5 :: b6 :: b7 :: rest)) 1 b1 hb1 hd1
            obtain ⟨e2, r2⟩ := dv_toNat (le64 (b0 :: b1 :: b2 :: b3 :: b4 :: b5 :: b6 :: b7 :: rest)) 2 b2 hb2 hd2
            obtain ⟨e3, r3⟩ := dv_toNat (le64 (b0 :: b1 :: b2 :: b3 :: b4 :: b5 :: b6 :: b7 :: rest)) 3 b3 hb3 hd3
            refine ⟨rfl, ?_⟩
            simp only [decVal, List.foldl, BitVec.toNat_add, BitVec.toNat_mul, BitVec.toNat_ofNat, e0, e1, e2, e3]
            omega
          · -- b4 is a digit
            cases hd5 : isDigit b5
            · -- b5 is not a digit: run length 5
              have hs := swar_c5 (le64 (b0 :: b1 :: b2 :: b3 :: b4 :: b5 :: b6 :: b7 :: rest)) (by rw [hb0, isDig_toBitVec]; exact hd0) (by rw [hb1, isDig_toBitVec]; exact hd1) (by rw [hb2, isDig_toBitVec]; exact hd2) (by rw [hb3, isDig_toBitVec]; exact hd3) (by rw [hb4, isDig_toBitVec]; exact hd4) (by rw [hb5, isDig_toBitVec]; exact hd5)
              simp only [List.take, List.takeWhile, hd0, hd1, hd2, hd3, hd4, hd5]
              rw [hs]
              obtain ⟨e0, r0⟩ := dv_toNat (le64 (b0 :: b1 :: b2 :: b3 :: b4 :: b5 :: b6 :: b7 :: rest)) 0 b0 hb0 hd0
              obtain ⟨e1, r1⟩ := dv_toNat (le64 (b0 :: b1 :: b2 :: b3 :: b4 :: b5 :: b6 :: b7 :: rest)) 1 b1 hb1 hd1
              obtain ⟨e2, r2⟩ := dv_toNat (le64 (b0 :: b1 :: b2 :: b3 :: b4 :: b5 :: b6 :: b7 :: rest)) 2 b2 hb2 hd2
              obtain ⟨e3, r3⟩ := dv_toNat (le64 (b0 :: b1 :: b2 :: b3 :: b4 :: b5 :: b6 :: b7 :: rest)) 3 b3 hb3 hd3
              obtain ⟨e4, r4⟩ := dv_toNat (le64 (b0 :: b1 :: b2 :: b3 :: b4 :: b5 :: b6 :: b7 :: rest)) 4 b4 hb4 hd4
              refine ⟨rfl, ?_⟩
              simp only [decVal, List.foldl, BitVec.toNat_add, BitVec.toNat_mul, BitVec.toNat_ofNat, e0, e1, e2, e3, e4]
              omega
            · -- b5 is a digit
              cases hd6 : isDigit b6
              · -- b6 is not a digit: run length 6
                have hs := swar_c6 (le64 (b0 :: b1 :: b2 :: b3 :: b4 :: b5 :: b6 :: b7 :: rest)) (by rw [hb0, isDig_toBitVec]; exact hd0) (by rw [hb1, isDig_toBitVec]; exact hd1) (by rw [hb2, isDig_toBitVec]; exact hd2) (by rw [hb3, isDig_toBitVec]; exact hd3) (by rw [hb4, isDig_toBitVec]; exact hd4) (by rw [hb5, isDig_toBitVec]; exact hd5) (by rw [hb6, isDig_toBitVec]; exact hd6)
                simp only [List.take, List.takeWhile, hd0, hd1, hd2, hd3, hd4, hd5, hd6]
                rw [hs]
                obtain ⟨e0, r0⟩ := dv_toNat (le64 (b0 :: b1 :: b2 :: b3 :: b4 :: b5 :: b6 :: b7 :: rest)) 0 b0 hb0 hd0
                obtain ⟨e1, r1⟩ := dv_toNat (le64 (b0 :: b1 :: b2 :: b3 :: b4 :: b5 :: b6 :: b7 :: rest)) 1 b1 hb1 hd1
                obtain ⟨e2, r2⟩ := dv_toNat (le64 (b0 :: b1 :: b2 :: b3 :: b4 :: b5 :: b6 :: b7 :: rest)) 2 b2 hb2 hd2
                obtain ⟨e3, r3⟩ := dv_toNat (le64 (b0 :: b1 :: b2 :: b3 :: b4 :: b5 :: b6 :: b7 :: rest)) 3 b3 hb3 hd3
                obtain ⟨e4, r4⟩ := dv_toNat (le64 (b0 :: b1 :: b2 :: b3 :: b4 :: b5 :: b6 :: b7 :: rest)) 4 b4 hb4 hd4
                obtain ⟨e5, r5⟩ := dv_toNat (le64 (b0 :: b1 :: b2 :: b3 :: b4 :: b5 :: b6 :: b7 :: rest)) 5 b5 hb5 hd5
                refine ⟨rfl, ?_⟩
                simp only [decVal, List.foldl, BitVec.toNat_add, BitVec.toNat_mul, BitVec.toNat_ofNat, e0, e1, e2, e3, e4, e5]
                omega
              · -- b6 is a digit
                cases hd7 : isDigit b7
                · -- b7 is not a digit: run length 7
                  have hs := swar_c7 (le64 (b0 :: b1 :: b2 :: b3 :: b4 :: b5 :: b6 :: b7 :: rest)) (by rw [hb0, isDig_toBitVec]; exact hd0) (by rw [hb1, isDig_toBitVec]; exact hd1) (by rw [hb2, isDig_toBitVec]; exact hd2) (by rw [hb3, isDig_toBitVec]; exact hd3) (by rw [hb4, isDig_toBitVec]; exact hd4) (by rw [hb5, isDig_toBitVec]; exact hd5) (by rw [hb6, isDig_toBitVec]; exact hd6) (by rw [hb7, isDig_toBitVec]; exact hd7)
                  simp only [List.take, List.takeWhile, hd0, hd1, hd2, hd3, hd4, hd5, hd6, hd7]
                  rw [hs]
                  obtain ⟨e0, r0⟩ := dv_toNat (le64 (b0 :: b1 :: b2 :: b3 :: b4 :: b5 :: b6 :: b7 :: rest)) 0 b0 hb0 hd0
                  obtain ⟨e1, r1⟩ := dv_toNat (le64 (b0 :: b1 :: b2 :: b3 :: b4 :: b5 :: b6 :: b7 :: rest)) 1 b1 hb1 hd1
                  obtain ⟨e2, r2⟩ := dv_toNat (le64 (b0 :: b1 :: b2 :: b3 :: b4 :: b5 :: b6 :: b7 :: rest)) 2 b2 hb2 hd2
                  obtain ⟨e3, r3⟩ := dv_toNat (le64 (b0 :: b1 :: b2 :: b3 :: b4 :: b5 :: b6 :: b7 :: rest)) 3 b3 hb3 hd3
                  obtain ⟨e4, r4⟩ := dv_toNat (le64 (b0 :: b1 :: b2 :: b3 :: b4 :: b5 :: b6 :: b7 :: rest)) 4 b4 hb4 hd4
                  obtain ⟨e5, r5⟩ := dv_toNat (le64 (b0 :: b1 :: b2 :: b3 :: b4 :: b5 :: b6 :: b7 :: rest)) 5 b5 hb5 hd5
                  obtain ⟨e6, r6⟩ := dv_toNat (le64 (b0 :: b1 :: b2 :: b3 :: b4 :: b5 :: b6 :: b7 :: rest)) 6 b6 hb6 hd6
                  refine ⟨rfl, ?_⟩
                  simp only [decVal, List.foldl, BitVec.toNat_add, BitVec.toNat_mul, BitVec.toNat_ofNat, e0, e1, e2, e3, e4, e5, e6]
                  omega
                · -- b7 is a digit
                  have hs := swar_c8 (le64 (b0 :: b1 :: b2 :: b3 :: b4 :: b5 :: b6 :: b7 :: rest)) (by rw [hb0, isDig_toBitVec]; exact hd0) (by rw [hb1, isDig_toBitVec]; exact hd1) (by rw [hb2, isDig_toBitVec]; exact hd2) (by rw [hb3, isDig_toBitVec]; exact hd3) (by rw [hb4, isDig_toBitVec]; exact hd4) (by rw [hb5, isDig_toBitVec]; exact hd5) (by rw [hb6, isDig_toBitVec]; exact hd6) (by rw [hb7, isDig_toBitVec]; exact hd7)
                  simp only [List.take, List.takeWhile, hd0, hd1, hd2, hd3, hd4, hd5, hd6, hd7]
                  rw [hs]
                  obtain ⟨e0, r0⟩ := dv_toNat (le64 (b0 :: b1 :: b2 :: b3 :: b4 :: b5 :: b6 :: b7 :: rest)) 0 b0 hb0 hd0
                  obtain ⟨e1, r1⟩ := dv_toNat (le64 (b0 :: b1 :: b2 :: b3 :: b4 :: b5 :: b6 :: b7 :: rest)) 1 b1 hb1 hd1
                  obtain ⟨e2, r2⟩ := dv_toNat (le64 (b0 :: b1 :: b2 :: b3 :: b4 :: b5 :: b6 :: b7 :: rest)) 2 b2 hb2 hd2
                  obtain ⟨e3, r3⟩ := dv_toNat (le64 (b0 :: b1 :: b2 :: b3 :: b4 :: b5 :: b6 :: b7 :: rest)) 3 b3 hb3 hd3
                  obtain ⟨e4, r4⟩ := dv_toNat (le64 (b0 :: b1 :: b2 :: b3 :: b4 :: b5 :: b6 :: b7 :: rest)) 4 b4 hb4 hd4
                  obtain ⟨e5, r5⟩ := dv_toNat (le64 (b0 :: b1 :: b2 :: b3 :: b4 :: b5 :: b6 :: b7 :: rest)) 5 b5 hb5 hd5
                  obtain ⟨e6, r6⟩ := dv_toNat (le64 (b0 :: b1 :: b2 :: b3 :: b4 :: b5 :: b6 :: b7 :: rest)) 6 b6 hb6 hd6
                  obtain ⟨e7, r7⟩ := dv_toNat (le64 (b0 :: b1 :: b2 :: b3 :: b4 :: b5 :: b6 :: b7 :: rest)) 7 b7 hb7 hd7
                  refine ⟨rfl, ?_⟩
                  simp only [decVal, List.foldl, BitVec.toNat_add, BitVec.toNat_mul, BitVec.toNat_ofNat, e0, e1, e2, e3, e4, e5, e6, e7]
                  omega

theorem le64_first_byte (b0 b1 b2 b3 b4 b5 b6 b7 : UInt8) (rest : VBytes) :
    ((le64 (b0 :: b1 :: b2 :: b3 :: b4 :: b5 :: b6 :: b7 :: rest) &&& 0xff#64 == 45#64) = (b0 == 45)) ∧
    le64 (b0 :: b1 :: b2 :: b3 :: b4 :: b5 :: b6 :: b7 :: rest) >>> 8 =
      le64 (b1 :: b2 :: b3 :: b4 :: b5 :: b6 :: b7 :: 0 :: []) := by
  have hb : (b0 == 45) = (b0.toBitVec == 45#8) := by
    cases h : b0 == 45
    · have : b0 ≠ 45 := by simpa using h
      have : b0.toBitVec ≠ 45#8 := fun hh => this (UInt8.toBitVec_inj.mp hh)
      simp [this]
    · have : b0 = 45 := by simpa using h
      subst this; rfl
  rw [hb]
  simp only [le64, List.getD_cons_zero, List.getD_cons_succ]
  have h0 : (0 : UInt8).toBitVec = 0#8 := rfl
  rw [h0]
  generalize b0.toBitVec = x0
  generalize b1.toBitVec = x1
  generalize b2.toBitVec = x2
  generalize b3.toBitVec = x3
  generalize b4.toBitVec = x4
  generalize b5.toBitVec = x5
  generalize b6.toBitVec = x6
  generalize b7.toBitVec = x7
  constructor <;> bv_decide


end Flussab.Swar
