/-
Value-level facts about the AIGER parser models (`Model/Aiger.lean`), the basis of the C06
theorems: an accepted header is sane, every literal a section reader returns is within `2M+1`
(defining ones even and non-constant), and the sections `parse()` returns have exactly the
declared sizes.  All statements are of the form "if the call returns, then …" (`Post`).
-/
import Flussab.Proof.AigerToken

namespace Flussab
namespace Aiger
open PM

/-! ### header -/

theorem checkedSub_post (site : String) (a b : Nat) :
    Post (checkedSub site a b) (fun r => r = a - b ∧ b ≤ a) := by
  unfold checkedSub
  exact Post.ite (fun _ => Post.of_fails (fails_rpanic _)) (fun h => Post.pure ⟨rfl, by omega⟩)

theorem checkedAdd_post (site : String) (a b : Nat) :
    Post (checkedAdd site a b) (fun r => r = a + b ∧ a + b ≤ usizeMax) := by
  unfold checkedAdd
  exact Post.ite (fun _ => Post.of_fails (fails_rpanic _)) (fun h => Post.pure ⟨rfl, by omega⟩)

theorem checkedMul_post (site : String) (a b : Nat) :
    Post (checkedMul site a b) (fun r => r = a * b ∧ a * b ≤ usizeMax) := by
  unfold checkedMul
  exact Post.ite (fun _ => Post.of_fails (fails_rpanic _)) (fun h => Post.pure ⟨rfl, by omega⟩)

/-- The header fields that define variables. -/
def Header.Core (h h' : Header) : Prop :=
  h'.maxVarIndex = h.maxVarIndex ∧ h'.inputCount = h.inputCount ∧ h'.latchCount = h.latchCount ∧
  h'.andGateCount = h.andGateCount

theorem headerOptional_post (h : Header) : Post (headerOptional h) (Header.Core h) := by
  unfold headerOptional
  refine Post.bind (Post.true _) fun _ _ => Post.ite (fun _ => Post.pure ⟨rfl, rfl, rfl, rfl⟩) fun _ => ?_
  refine Post.bind (Post.true _) fun _ _ => ?_
  refine Post.bind (Post.true _) fun _ _ => Post.ite (fun _ => Post.pure ⟨rfl, rfl, rfl, rfl⟩) fun _ => ?_
  refine Post.bind (Post.true _) fun _ _ => ?_
  refine Post.bind (Post.true _) fun _ _ => Post.ite (fun _ => Post.pure ⟨rfl, rfl, rfl, rfl⟩) fun _ => ?_
  refine Post.bind (Post.true _) fun _ _ => ?_
  refine Post.bind (Post.true _) fun _ _ => Post.ite (fun _ => Post.pure ⟨rfl, rfl, rfl, rfl⟩) fun _ => ?_
  refine Post.bind (Post.true _) fun _ _ => ?_
  refine Post.bind (Post.true _) fun _ _ => Post.pure ⟨rfl, rfl, rfl, rfl⟩

/-- What an accepted header guarantees (C06 `aag_header_sane` / `aig_header_sane`). -/
def HeaderSane (l : LitTy) (h : Header) : Prop :=
  h.maxVarIndex ≤ (l.maxCode - 1) / 2 ∧ h.inputCount + h.latchCount + h.andGateCount ≤ h.maxVarIndex

theorem Header.parse_post (bin : Bool) (l : LitTy) : Post (Header.parse bin l) (HeaderSane l) := by
  unfold Header.parse
  refine Post.bind (Post.true _) fun _ _ => ?_
  refine Post.bind (Post.true _) fun _ _ => ?_
  refine Post.bind (headerField_post _) fun m hm => ?_
  refine Post.bind (Post.true _) fun _ _ => ?_
  refine Post.bind (headerField_post _) fun i hi => ?_
  refine Post.bind (checkedSub_post _ _ _) fun lim1 h1 => ?_
  refine Post.bind (Post.true _) fun _ _ => ?_
  refine Post.bind (headerField_post _) fun la hla => ?_
  refine Post.bind (checkedSub_post _ _ _) fun lim2 h2 => ?_
  refine Post.bind (Post.true _) fun _ _ => ?_
  refine Post.bind (Post.true _) fun o _ => ?_
  refine Post.bind (Post.true _) fun _ _ => ?_
  refine Post.bind (headerField_post _) fun a ha => ?_
  refine Post.mono (headerOptional_post _) ?_
  intro h' hc
  obtain ⟨c1, c2, c3, c4⟩ := hc
  unfold HeaderSane
  simp only at c1 c2 c3 c4
  rw [c1, c2, c3, c4]
  obtain ⟨e1, _⟩ := h1
  obtain ⟨e2, _⟩ := h2
  subst e1 e2
  exact ⟨hm, by omega⟩

/-- What `Parser::new` establishes. -/
structure ParserOk (bin : Bool) (l : LitTy) (p : Parser) : Prop where
  sane : HeaderSane l p.header
  maxLit : p.maxLit = 2 * p.header.maxVarIndex + 1
  lit : p.lit = l
  bin : p.bin = bin

theorem Parser.new_post (bin : Bool) (l : LitTy) : Post (Parser.new bin l) (ParserOk bin l) := by
  unfold Parser.new
  refine Post.bind (Header.parse_post bin l) fun h hh => ?_
  refine Post.bind (checkedMul_post _ _ _) fun m2 hm2 => ?_
  refine Post.bind (checkedAdd_post _ _ _) fun ml hml => ?_
  refine Post.pure ⟨hh, ?_, rfl, rfl⟩
  simp only
  omega

/-- `2M+1 ≤ MAX_CODE` for an accepted header (the literal type has at least one bit). -/
theorem maxLit_le_maxCode {l : LitTy} {h : Header} (hs : HeaderSane l h) (hl : 1 ≤ l.maxCode) :
    2 * h.maxVarIndex + 1 ≤ l.maxCode := by
  have := hs.1
  omega

/-! ### section readers -/

/-- The parts of a section state that no `next_*` function changes. -/
def SameCfg (s s' : St) : Prop :=
  s'.p.header = s.p.header ∧ s'.p.maxLit = s.p.maxLit ∧ s'.p.lit = s.p.lit ∧ s'.p.bin = s.p.bin

theorem SameCfg.refl (s : St) : SameCfg s s := ⟨rfl, rfl, rfl, rfl⟩

theorem SameCfg.trans {a b c : St} (h1 : SameCfg a b) (h2 : SameCfg b c) : SameCfg a c :=
  ⟨h2.1.trans h1.1, h2.2.1.trans h1.2.1, h2.2.2.1.trans h1.2.2.1, h2.2.2.2.trans h1.2.2.2⟩

/-- Specification of one `next_*` function: an item satisfying `P` (stated relative to the
limit `max_lit` and the literal type), the counter goes down by one and the justice total grows by
the item's weight; or the section is exhausted and nothing changes. -/
def StepSpec {α : Type} (P : Nat → LitTy → α → Prop) (w : α → Nat)
    (next : St → PM (Option α × St)) : Prop :=
  ∀ s, Post (next s) (fun r => match r.1 with
    | some a => P s.p.maxLit s.p.lit a ∧ r.2.left + 1 = s.left ∧ SameCfg s r.2 ∧
        r.2.total = s.total + w a
    | none => s.left = 0 ∧ r.2 = s)

/-- A literal as a section returns it: the truncating cast of a code `≤ max_lit`. -/
def LitOk (assigning : Bool) (maxLit : Nat) (l : LitTy) (x : Nat) : Prop :=
  ∃ c, x = l.fromCode c ∧ c ≤ maxLit ∧ (assigning = true → c % 2 = 0 ∧ 2 ≤ c)

theorem litLine_post (p : Parser) (assigning : Bool) :
    Post (litLine p assigning) (LitOk assigning p.maxLit p.lit) := by
  unfold litLine
  refine Post.bind (lit_post _ _) fun c hc => ?_
  refine Post.bind (Post.true _) fun _ _ => Post.pure ⟨c, rfl, hc.1, hc.2⟩

theorem nextLit_spec (assigning : Bool) : StepSpec (LitOk assigning) (fun _ => 0) (nextLit assigning) := by
  intro s
  unfold nextLit
  split
  · rename_i h0
    exact Post.pure ⟨h0, rfl⟩
  · rename_i left hl
    refine Post.bind (litLine_post _ _) fun c hc => Post.pure ?_
    exact ⟨hc, hl.symm, SameCfg.refl _, rfl⟩

theorem nextJusticeSize_spec : StepSpec (fun _ _ _ => True) id nextJusticeSize := by
  intro s
  unfold nextJusticeSize
  split
  · rename_i h0
    exact Post.pure ⟨h0, rfl⟩
  · rename_i left hl
    refine Post.bind (Post.true _) fun _ _ => ?_
    refine Post.bind (Post.true _) fun count _ => ?_
    refine Post.bind (Post.true _) fun _ _ => ?_
    refine Post.bind (checkedAdd_post _ _ _) fun t ht => Post.pure ?_
    exact ⟨trivial, hl.symm, SameCfg.refl _, ht.1⟩

/-- An ASCII latch as returned. -/
def LatchOk (maxLit : Nat) (l : LitTy) (x : Latch) : Prop :=
  LitOk true maxLit l x.state ∧ LitOk false maxLit l x.next

theorem nextLatchAscii_spec : StepSpec LatchOk (fun _ => 0) nextLatchAscii := by
  intro s
  unfold nextLatchAscii
  split
  · rename_i h0
    exact Post.pure ⟨h0, rfl⟩
  · rename_i left hl
    refine Post.bind (lit_post _ _) fun sc hsc => ?_
    refine Post.bind (Post.true _) fun _ _ => ?_
    refine Post.bind (lit_post _ _) fun nc hnc => ?_
    refine Post.bind (Post.true _) fun init _ => Post.pure ?_
    exact ⟨⟨⟨sc, rfl, hsc.1, hsc.2⟩, ⟨nc, rfl, hnc.1, hnc.2⟩⟩, hl.symm, SameCfg.refl _, rfl⟩

/-- An ASCII and gate as returned. -/
def GateOk (maxLit : Nat) (l : LitTy) (g : AndGate) : Prop :=
  LitOk true maxLit l g.out ∧ LitOk false maxLit l g.in0 ∧ LitOk false maxLit l g.in1

theorem nextAndGateAscii_spec : StepSpec GateOk (fun _ => 0) nextAndGateAscii := by
  intro s
  unfold nextAndGateAscii
  split
  · rename_i h0
    exact Post.pure ⟨h0, rfl⟩
  · rename_i left hl
    refine Post.bind (lit_post _ _) fun oc hoc => ?_
    refine Post.bind (Post.true _) fun _ _ => ?_
    refine Post.bind (lit_post _ _) fun c0 hc0 => ?_
    refine Post.bind (Post.true _) fun _ _ => ?_
    refine Post.bind (lit_post _ _) fun c1 hc1 => ?_
    refine Post.bind (Post.true _) fun _ _ => Post.pure ?_
    exact ⟨⟨⟨oc, rfl, hoc.1, hoc.2⟩, ⟨c0, rfl, hc0.1, hc0.2⟩, ⟨c1, rfl, hc1.1, hc1.2⟩⟩, hl.symm,
      SameCfg.refl _, rfl⟩

/-- What a drained section looks like. -/
structure Drained {α : Type} (P : Nat → LitTy → α → Prop) (w : α → Nat) (s : St)
    (xs : List α) (s' : St) : Prop where
  length : xs.length = s.left
  all : ∀ x ∈ xs, P s.p.maxLit s.p.lit x
  left : s'.left = 0
  cfg : SameCfg s s'
  total : s'.total = s.total + (xs.map w).sum

/-- `while let Some(x) = next()? { push }` over a counted section: exactly `left` items, each
satisfying the step's item predicate. -/
theorem whileSome_spec {α : Type} {P : Nat → LitTy → α → Prop} {w : α → Nat}
    {next : St → PM (Option α × St)} (hstep : StepSpec P w next) :
    ∀ (fuel : Nat) (s : St) (acc : List α),
      Post (whileSome next fuel s acc) (fun r => ∃ xs, r.1 = acc.reverse ++ xs ∧ Drained P w s xs r.2) := by
  intro fuel
  induction fuel with
  | zero => intro s acc; unfold whileSome; exact Post.of_fails (fails_rpanic _)
  | succ fuel ih =>
    intro s acc
    unfold whileSome
    refine Post.bind (hstep s) fun r hr => ?_
    obtain ⟨o, s'⟩ := r
    cases o with
    | none =>
      simp only at hr ⊢
      obtain ⟨h0, hs⟩ := hr
      subst hs
      exact Post.pure ⟨[], by simp, ⟨by simp [h0], by simp, h0, SameCfg.refl _, by simp⟩⟩
    | some a =>
      simp only at hr ⊢
      obtain ⟨hp, hl, hc, ht⟩ := hr
      refine Post.mono (ih s' (a :: acc)) ?_
      rintro ⟨ys, s''⟩ ⟨xs, hxs, hd⟩
      simp only at hxs hd ⊢
      refine ⟨a :: xs, by rw [hxs]; simp, ⟨?_, ?_, hd.left, hc.trans hd.cfg, ?_⟩⟩
      · simp only [List.length_cons, hd.length]; omega
      · intro x hx
        rcases List.mem_cons.mp hx with rfl | hx
        · exact hp
        · have := hd.all x hx
          rw [hc.2.1, hc.2.2.1] at this
          exact this
      · rw [hd.total, ht]; simp only [List.map_cons, List.sum_cons]; omega

/-- The loop at the start of every transition function. -/
theorem finish_post {α : Type} {P : Nat → LitTy → α → Prop} {w : α → Nat}
    {next : St → PM (Option α × St)} (hstep : StepSpec P w next) (s : St) :
    Post (finish next s) (fun s' => s'.left = 0 ∧ SameCfg s s' ∧ s.total ≤ s'.total ∧
      (s.left = 0 → s'.total = s.total)) := by
  unfold finish
  refine Post.bind (whileSome_spec hstep _ s []) fun r hr => ?_
  obtain ⟨xs, s'⟩ := r
  obtain ⟨ys, _, hd⟩ := hr
  refine Post.pure ⟨hd.left, hd.cfg, by rw [hd.total]; omega, ?_⟩
  intro h0
  have : ys = [] := List.eq_nil_of_length_eq_zero (by rw [hd.length, h0])
  rw [hd.total, this]; simp

end Aiger
end Flussab

namespace Flussab
namespace Aiger
open PM

/-! ### binary section readers -/

theorem deltaCode_post (code : Nat) : Post (deltaCode code) (· ≤ code) := by
  unfold deltaCode
  refine Post.bind (Post.true _) fun _ _ => ?_
  refine Post.bind (Post.true _) fun d _ => ?_
  exact Post.ite (fun _ => Post.of_fails fails_errorAtMark) (fun _ => Post.pure (Nat.sub_le _ _))

/-- A binary latch as returned. -/
def OLatchOk (maxLit : Nat) (l : LitTy) (x : OLatch) : Prop := LitOk false maxLit l x.next

theorem nextLatchBin_spec : StepSpec OLatchOk (fun _ => 0) nextLatchBin := by
  intro s
  unfold nextLatchBin
  split
  · rename_i h0
    exact Post.pure ⟨h0, rfl⟩
  · rename_i left hl
    refine Post.bind (lit_post _ _) fun nc hnc => ?_
    refine Post.bind (Post.true _) fun init _ => Post.pure ?_
    exact ⟨⟨nc, rfl, hnc.1, hnc.2⟩, hl.symm, ⟨rfl, rfl, rfl, rfl⟩, rfl⟩

/-- A binary and gate as returned: the truncating casts of two codes, the second not larger
than the first (`aig_delta_le_code`: neither delta exceeded what it was subtracted from). -/
def OGateOk (_maxLit : Nat) (l : LitTy) (g : OGate) : Prop :=
  ∃ c0 c1, g.in0 = l.fromCode c0 ∧ g.in1 = l.fromCode c1 ∧ c1 ≤ c0

theorem nextAndGateBin_spec : StepSpec OGateOk (fun _ => 0) nextAndGateBin := by
  intro s
  unfold nextAndGateBin
  split
  · rename_i h0
    exact Post.pure ⟨h0, rfl⟩
  · rename_i left hl
    refine Post.bind (deltaCode_post _) fun c0 _ => ?_
    refine Post.bind (deltaCode_post _) fun c1 h1 => Post.pure ?_
    exact ⟨⟨c0, c1, rfl, rfl, h1⟩, hl.symm, ⟨rfl, rfl, rfl, rfl⟩, rfl⟩

/-! ### transitions -/

theorem toLatches_post (s : St) :
    Post (toLatches s) (fun r => r.left = s.p.header.latchCount ∧ SameCfg s r) := by
  unfold toLatches
  refine Post.bind (Q1 := fun s' => SameCfg s s') ?_ fun s' hs' => Post.pure ⟨by rw [← hs'.1], hs'⟩
  exact Post.ite (fun _ => Post.pure (SameCfg.refl s))
    (fun _ => Post.mono (finish_post (nextLit_spec true) s) fun _ h => h.2.1)

theorem toOutputs_post (s : St) :
    Post (toOutputs s) (fun r => r.left = s.p.header.outputCount ∧ SameCfg s r) := by
  unfold toOutputs
  refine Post.bind (Q1 := fun s' => SameCfg s s') ?_ fun s' hs' => Post.pure ⟨by rw [← hs'.1], hs'⟩
  exact Post.ite (fun _ => Post.mono (finish_post nextLatchBin_spec s) fun _ h => h.2.1)
    (fun _ => Post.mono (finish_post nextLatchAscii_spec s) fun _ h => h.2.1)

theorem toBad_post (s : St) :
    Post (toBad s) (fun r => r.left = s.p.header.badCount ∧ SameCfg s r) := by
  unfold toBad
  exact Post.bind (finish_post (nextLit_spec false) s) fun s' hs' =>
    Post.pure ⟨by rw [← hs'.2.1.1], hs'.2.1⟩

theorem toConstraints_post (s : St) :
    Post (toConstraints s) (fun r => r.left = s.p.header.constraintCount ∧ SameCfg s r) := by
  unfold toConstraints
  exact Post.bind (finish_post (nextLit_spec false) s) fun s' hs' =>
    Post.pure ⟨by rw [← hs'.2.1.1], hs'.2.1⟩

theorem toJusticeSizes_post (s : St) :
    Post (toJusticeSizes s) (fun r => r.left = s.p.header.justiceCount ∧ SameCfg s r ∧ r.total = 0) := by
  unfold toJusticeSizes
  exact Post.bind (finish_post (nextLit_spec false) s) fun s' hs' =>
    Post.pure ⟨by rw [← hs'.2.1.1], hs'.2.1, rfl⟩

theorem toJusticeLits_post (s : St) :
    Post (toJusticeLits s) (fun r => SameCfg s r ∧ (s.left = 0 → r.left = s.total)) := by
  unfold toJusticeLits
  exact Post.bind (finish_post nextJusticeSize_spec s) fun s' hs' =>
    Post.pure ⟨hs'.2.1, fun h0 => hs'.2.2.2 h0⟩

theorem toFairness_post (s : St) :
    Post (toFairness s) (fun r => r.left = s.p.header.fairnessCount ∧ SameCfg s r) := by
  unfold toFairness
  exact Post.bind (finish_post (nextLit_spec false) s) fun s' hs' =>
    Post.pure ⟨by rw [← hs'.2.1.1], hs'.2.1⟩

theorem toAndGates_post (s : St) :
    Post (toAndGates s) (fun r => r.left = s.p.header.andGateCount ∧ SameCfg s r) := by
  unfold toAndGates
  exact Post.bind (finish_post (nextLit_spec false) s) fun s' hs' =>
    Post.pure ⟨by rw [← hs'.2.1.1], hs'.2.1⟩

theorem toSymbols_post (s : St) :
    Post (toSymbols s) (fun p => p.header = s.p.header ∧ p.maxLit = s.p.maxLit ∧ p.lit = s.p.lit) := by
  unfold toSymbols
  refine Post.bind (Q1 := fun s' => SameCfg s s') ?_ fun s' hs' => Post.pure ⟨hs'.1, hs'.2.1, hs'.2.2.1⟩
  exact Post.ite (fun _ => Post.mono (finish_post nextAndGateBin_spec s) fun _ h => h.2.1)
    (fun _ => Post.mono (finish_post nextAndGateAscii_spec s) fun _ h => h.2.1)

/-! ### the justice distribution loop of `parse()` -/

theorem modify_all {α : Type} (P : α → Prop) (f : α → α) (hf : ∀ a, P a → P (f a)) :
    ∀ (l : List α) (i : Nat), (∀ a ∈ l, P a) → ∀ a ∈ l.modify i f, P a := by
  intro l
  induction l with
  | nil => intro i h a ha; simp at ha
  | cons x l ih =>
    intro i h a ha
    cases i with
    | zero =>
      simp only [List.modify_zero_cons, List.mem_cons] at ha
      rcases ha with rfl | ha
      · exact hf x (h x (by simp))
      · exact h a (by simp [ha])
    | succ i =>
      simp only [List.modify_succ_cons, List.mem_cons] at ha
      rcases ha with rfl | ha
      · exact h a (by simp)
      · exact ih i (fun b hb => h b (by simp [hb])) a ha

/-- The distribution loop keeps the number of justice properties and only ever adds literals
that `next_justice_property_local_fairness_constraint` returned. -/
theorem justiceLitsLoop_post (sizes : List Nat) :
    ∀ (fuel : Nat) (s : St) (js : List (List Nat)) (jp : Nat),
      (∀ j ∈ js, ∀ x ∈ j, LitOk false s.p.maxLit s.p.lit x) →
      Post (justiceLitsLoop sizes fuel s js jp) (fun r => r.1.length = js.length ∧
        (∀ j ∈ r.1, ∀ x ∈ j, LitOk false s.p.maxLit s.p.lit x) ∧ SameCfg s r.2) := by
  intro fuel
  induction fuel with
  | zero => intro s js jp _; unfold justiceLitsLoop; exact Post.of_fails (fails_rpanic _)
  | succ fuel ih =>
    intro s js jp hjs
    unfold justiceLitsLoop
    refine Post.bind (nextLit_spec false s) fun r hr => ?_
    obtain ⟨o, s'⟩ := r
    cases o with
    | none =>
      simp only at hr ⊢
      obtain ⟨_, hs⟩ := hr
      subst hs
      exact Post.pure ⟨rfl, hjs, SameCfg.refl _⟩
    | some c =>
      simp only at hr ⊢
      obtain ⟨hp, _, hc, _⟩ := hr
      split
      · exact Post.of_fails (fails_rpanic _)
      · rename_i jp' _
        have hjs' : ∀ j ∈ js.modify jp' (· ++ [c]), ∀ x ∈ j, LitOk false s'.p.maxLit s'.p.lit x := by
          rw [hc.2.1, hc.2.2.1]
          refine modify_all (fun j => ∀ x ∈ j, LitOk false s.p.maxLit s.p.lit x) _ ?_ js jp' hjs
          intro j hj x hx
          rcases List.mem_append.mp hx with hx | hx
          · exact hj x hx
          · simp only [List.mem_singleton] at hx; subst hx; exact hp
        refine Post.mono (ih s' _ jp' hjs') ?_
        rintro ⟨js2, s2⟩ ⟨h1, h2, h3⟩
        simp only at h1 h2 h3 ⊢
        refine ⟨by rw [h1, List.length_modify], ?_, hc.trans h3⟩
        rw [← hc.2.1, ← hc.2.2.1]; exact h2

end Aiger
end Flussab

namespace Flussab
namespace Aiger
open PM

/-! ### `parse()` -/

/-- The middle sections as `parse()` collects them: declared sizes, literals within range. -/
structure MidOk (s : St) (m : Mid) : Prop where
  outputs : m.outputs.length = s.p.header.outputCount
  bad : m.bad.length = s.p.header.badCount
  constraints : m.constraints.length = s.p.header.constraintCount
  justice : m.justice.length = s.p.header.justiceCount
  fairness : m.fairness.length = s.p.header.fairnessCount
  outputsOk : ∀ x ∈ m.outputs, LitOk false s.p.maxLit s.p.lit x
  badOk : ∀ x ∈ m.bad, LitOk false s.p.maxLit s.p.lit x
  constraintsOk : ∀ x ∈ m.constraints, LitOk false s.p.maxLit s.p.lit x
  justiceOk : ∀ j ∈ m.justice, ∀ x ∈ j, LitOk false s.p.maxLit s.p.lit x
  fairnessOk : ∀ x ∈ m.fairness, LitOk false s.p.maxLit s.p.lit x

theorem SameCfg.all {α : Type} {P : Nat → LitTy → α → Prop} {s s' : St} (h : SameCfg s s')
    {xs : List α} (hx : ∀ x ∈ xs, P s'.p.maxLit s'.p.lit x) : ∀ x ∈ xs, P s.p.maxLit s.p.lit x := by
  rw [← h.2.1, ← h.2.2.1]; exact hx

theorem parseMid_post (s : St) : Post (parseMid s) (fun r => MidOk s r.1 ∧ SameCfg s r.2) := by
  unfold parseMid
  refine Post.bind (toOutputs_post s) fun s1 h1 => ?_
  refine Post.bind (whileSome_spec (nextLit_spec false) _ s1 []) fun r hr => ?_
  obtain ⟨outputs, s2⟩ := r
  obtain ⟨xs, hxs, d1⟩ := hr
  simp only [List.reverse_nil, List.nil_append] at hxs
  subst hxs
  have c2 : SameCfg s s2 := h1.2.trans d1.cfg
  simp only
  refine Post.bind (toBad_post s2) fun s3 h3 => ?_
  refine Post.bind (whileSome_spec (nextLit_spec false) _ s3 []) fun r hr => ?_
  obtain ⟨bad, s4⟩ := r
  obtain ⟨xs, hxs, d2⟩ := hr
  simp only [List.reverse_nil, List.nil_append] at hxs
  subst hxs
  have c3 : SameCfg s s3 := c2.trans h3.2
  have c4 : SameCfg s s4 := c3.trans d2.cfg
  simp only
  refine Post.bind (toConstraints_post s4) fun s5 h5 => ?_
  refine Post.bind (whileSome_spec (nextLit_spec false) _ s5 []) fun r hr => ?_
  obtain ⟨constraints, s6⟩ := r
  obtain ⟨xs, hxs, d3⟩ := hr
  simp only [List.reverse_nil, List.nil_append] at hxs
  subst hxs
  have c5 : SameCfg s s5 := c4.trans h5.2
  have c6 : SameCfg s s6 := c5.trans d3.cfg
  simp only
  refine Post.bind (toJusticeSizes_post s6) fun s7 h7 => ?_
  refine Post.bind (whileSome_spec nextJusticeSize_spec _ s7 []) fun r hr => ?_
  obtain ⟨sizes, s8⟩ := r
  obtain ⟨xs, hxs, d4⟩ := hr
  simp only [List.reverse_nil, List.nil_append] at hxs
  subst hxs
  have c7 : SameCfg s s7 := c6.trans h7.2.1
  have c8 : SameCfg s s8 := c7.trans d4.cfg
  simp only
  refine Post.bind (toJusticeLits_post s8) fun s9 h9 => ?_
  have c9 : SameCfg s s9 := c8.trans h9.1
  refine Post.bind (justiceLitsLoop_post sizes _ s9 (sizes.map fun _ => []) 0 ?_) fun r hr => ?_
  · intro j hj x hx
    obtain ⟨_, _, rfl⟩ := List.mem_map.mp hj
    simp at hx
  obtain ⟨justice, s10⟩ := r
  obtain ⟨j1, j2, j3⟩ := hr
  simp only at j1 j2 j3 ⊢
  have c10 : SameCfg s s10 := c9.trans j3
  refine Post.bind (toFairness_post s10) fun s11 h11 => ?_
  refine Post.bind (whileSome_spec (nextLit_spec false) _ s11 []) fun r hr => ?_
  obtain ⟨fairness, s12⟩ := r
  obtain ⟨xs, hxs, d5⟩ := hr
  simp only [List.reverse_nil, List.nil_append] at hxs
  subst hxs
  have c11 : SameCfg s s11 := c10.trans h11.2
  have c12 : SameCfg s s12 := c11.trans d5.cfg
  simp only
  refine Post.pure ⟨⟨?_, ?_, ?_, ?_, ?_, ?_, ?_, ?_, ?_, ?_⟩, c12⟩
  · rw [d1.length, h1.1]
  · rw [d2.length, h3.1, c2.1]
  · rw [d3.length, h5.1, c4.1]
  · rw [j1, List.length_map, d4.length, h7.1, c6.1]
  · rw [d5.length, h11.1, c10.1]
  · exact (h1.2).all d1.all
  · exact c3.all d2.all
  · exact c5.all d3.all
  · intro j hj x hx
    have := j2 j hj x hx
    rw [c9.2.1, c9.2.2.1] at this
    exact this
  · exact c11.all d5.all

/-- An `Aig` as `ascii::Parser::parse` returns it for the parser `p` (C06 `aiger_section_sizes`,
`aiger_lit_within` for the whole-file API). -/
structure AigOk (p : Parser) (a : Aig) : Prop where
  maxVarIndex : a.maxVarIndex = p.header.maxVarIndex
  inputs : a.inputs.length = p.header.inputCount
  latches : a.latches.length = p.header.latchCount
  outputs : a.outputs.length = p.header.outputCount
  bad : a.bad.length = p.header.badCount
  constraints : a.constraints.length = p.header.constraintCount
  justice : a.justice.length = p.header.justiceCount
  fairness : a.fairness.length = p.header.fairnessCount
  gates : a.gates.length = p.header.andGateCount
  inputsOk : ∀ x ∈ a.inputs, LitOk true p.maxLit p.lit x
  latchesOk : ∀ x ∈ a.latches, LatchOk p.maxLit p.lit x
  outputsOk : ∀ x ∈ a.outputs, LitOk false p.maxLit p.lit x
  badOk : ∀ x ∈ a.bad, LitOk false p.maxLit p.lit x
  constraintsOk : ∀ x ∈ a.constraints, LitOk false p.maxLit p.lit x
  justiceOk : ∀ j ∈ a.justice, ∀ x ∈ j, LitOk false p.maxLit p.lit x
  fairnessOk : ∀ x ∈ a.fairness, LitOk false p.maxLit p.lit x
  gatesOk : ∀ g ∈ a.gates, GateOk p.maxLit p.lit g

theorem parseAscii_post (p : Parser) : Post (parseAscii p) (AigOk p) := by
  unfold parseAscii
  simp only
  refine Post.bind (whileSome_spec (nextLit_spec true) _ p.inputs []) fun r hr => ?_
  obtain ⟨inputs, s1⟩ := r
  obtain ⟨xs, hxs, d1⟩ := hr
  simp only [List.reverse_nil, List.nil_append] at hxs
  subst hxs
  simp only
  refine Post.bind (toLatches_post s1) fun s2 h2 => ?_
  have c2 : SameCfg p.inputs s2 := d1.cfg.trans h2.2
  refine Post.bind (whileSome_spec nextLatchAscii_spec _ s2 []) fun r hr => ?_
  obtain ⟨latches, s3⟩ := r
  obtain ⟨xs, hxs, d2⟩ := hr
  simp only [List.reverse_nil, List.nil_append] at hxs
  subst hxs
  have c3 : SameCfg p.inputs s3 := c2.trans d2.cfg
  simp only
  refine Post.bind (parseMid_post s3) fun r hr => ?_
  obtain ⟨mid, s4⟩ := r
  obtain ⟨hm, hc⟩ := hr
  simp only at hm hc ⊢
  have c4 : SameCfg p.inputs s4 := c3.trans hc
  refine Post.bind (toAndGates_post s4) fun s5 h5 => ?_
  have c5 : SameCfg p.inputs s5 := c4.trans h5.2
  refine Post.bind (whileSome_spec nextAndGateAscii_spec _ s5 []) fun r hr => ?_
  obtain ⟨gates, s6⟩ := r
  obtain ⟨xs, hxs, d3⟩ := hr
  simp only [List.reverse_nil, List.nil_append] at hxs
  subst hxs
  have c6 : SameCfg p.inputs s6 := c5.trans d3.cfg
  simp only
  refine Post.bind (toSymbols_post s6) fun p' hp' => ?_
  refine Post.bind (Post.true _) fun r _ => ?_
  obtain ⟨symbols, c⟩ := r
  simp only
  have e0 : p.inputs.p = p := rfl
  refine Post.pure ⟨?_, ?_, ?_, ?_, ?_, ?_, ?_, ?_, ?_, ?_, ?_, ?_, ?_, ?_, ?_, ?_, ?_⟩
  · show p'.header.maxVarIndex = _; rw [hp'.1, c6.1]; rfl
  · exact d1.length
  · show latches.length = _; rw [d2.length, h2.1, d1.cfg.1]; rfl
  · show mid.outputs.length = _; rw [hm.outputs, c3.1]; rfl
  · show mid.bad.length = _; rw [hm.bad, c3.1]; rfl
  · show mid.constraints.length = _; rw [hm.constraints, c3.1]; rfl
  · show mid.justice.length = _; rw [hm.justice, c3.1]; rfl
  · show mid.fairness.length = _; rw [hm.fairness, c3.1]; rfl
  · show gates.length = _; rw [d3.length, h5.1, c4.1]; rfl
  · exact d1.all
  · exact c2.all d2.all
  · exact c3.all hm.outputsOk
  · exact c3.all hm.badOk
  · exact c3.all hm.constraintsOk
  · intro j hj x hx
    have := hm.justiceOk j hj x hx
    rw [c3.2.1, c3.2.2.1] at this
    exact this
  · exact c3.all hm.fairnessOk
  · exact c5.all d3.all

/-- An `OrderedAig` as `binary::Parser::parse` returns it. -/
structure OrderedOk (p : Parser) (a : OrderedAig) : Prop where
  maxVarIndex : a.maxVarIndex = p.header.maxVarIndex
  inputCount : a.inputCount = p.header.inputCount
  latches : a.latches.length = p.header.latchCount
  outputs : a.outputs.length = p.header.outputCount
  bad : a.bad.length = p.header.badCount
  constraints : a.constraints.length = p.header.constraintCount
  justice : a.justice.length = p.header.justiceCount
  fairness : a.fairness.length = p.header.fairnessCount
  gates : a.gates.length = p.header.andGateCount
  latchesOk : ∀ x ∈ a.latches, OLatchOk p.maxLit p.lit x
  outputsOk : ∀ x ∈ a.outputs, LitOk false p.maxLit p.lit x
  badOk : ∀ x ∈ a.bad, LitOk false p.maxLit p.lit x
  constraintsOk : ∀ x ∈ a.constraints, LitOk false p.maxLit p.lit x
  justiceOk : ∀ j ∈ a.justice, ∀ x ∈ j, LitOk false p.maxLit p.lit x
  fairnessOk : ∀ x ∈ a.fairness, LitOk false p.maxLit p.lit x
  gatesOk : ∀ g ∈ a.gates, OGateOk p.maxLit p.lit g

theorem parseBinary_post (p : Parser) : Post (parseBinary p) (OrderedOk p) := by
  unfold parseBinary
  refine Post.bind (toLatches_post { p }) fun s2 h2 => ?_
  refine Post.bind (whileSome_spec nextLatchBin_spec _ s2 []) fun r hr => ?_
  obtain ⟨latches, s3⟩ := r
  obtain ⟨xs, hxs, d2⟩ := hr
  simp only [List.reverse_nil, List.nil_append] at hxs
  subst hxs
  have c3 : SameCfg { p } s3 := h2.2.trans d2.cfg
  simp only
  refine Post.bind (parseMid_post s3) fun r hr => ?_
  obtain ⟨mid, s4⟩ := r
  obtain ⟨hm, hc⟩ := hr
  simp only at hm hc ⊢
  have c4 : SameCfg { p } s4 := c3.trans hc
  refine Post.bind (toAndGates_post s4) fun s5 h5 => ?_
  have c5 : SameCfg { p } s5 := c4.trans h5.2
  refine Post.bind (whileSome_spec nextAndGateBin_spec _ s5 []) fun r hr => ?_
  obtain ⟨gates, s6⟩ := r
  obtain ⟨xs, hxs, d3⟩ := hr
  simp only [List.reverse_nil, List.nil_append] at hxs
  subst hxs
  have c6 : SameCfg { p } s6 := c5.trans d3.cfg
  simp only
  refine Post.bind (toSymbols_post s6) fun p' hp' => ?_
  refine Post.bind (Post.true _) fun r _ => ?_
  obtain ⟨symbols, c⟩ := r
  simp only
  refine Post.pure ⟨?_, ?_, ?_, ?_, ?_, ?_, ?_, ?_, ?_, ?_, ?_, ?_, ?_, ?_, ?_, ?_⟩
  · show p'.header.maxVarIndex = _; rw [hp'.1, c6.1]
  · show p'.header.inputCount = _; rw [hp'.1, c6.1]
  · show latches.length = _; rw [d2.length, h2.1]
  · show mid.outputs.length = _; rw [hm.outputs, c3.1]
  · show mid.bad.length = _; rw [hm.bad, c3.1]
  · show mid.constraints.length = _; rw [hm.constraints, c3.1]
  · show mid.justice.length = _; rw [hm.justice, c3.1]
  · show mid.fairness.length = _; rw [hm.fairness, c3.1]
  · show gates.length = _; rw [d3.length, h5.1, c4.1]
  · exact (h2.2).all d2.all
  · exact c3.all hm.outputsOk
  · exact c3.all hm.badOk
  · exact c3.all hm.constraintsOk
  · intro j hj x hx
    have := hm.justiceOk j hj x hx
    rw [c3.2.1, c3.2.2.1] at this
    exact this
  · exact c3.all hm.fairnessOk
  · exact c5.all d3.all

/-- A literal that passed the limit check is not changed by the truncating cast. -/
theorem fromCode_of_le (l : LitTy) (c maxLit : Nat) (hc : c ≤ maxLit) (hm : maxLit ≤ l.maxCode) :
    l.fromCode c = c := by
  unfold LitTy.fromCode
  unfold LitTy.maxCode at hm
  have : 0 < 2 ^ l.bits := Nat.pow_pos (by decide)
  exact Nat.mod_eq_of_lt (by omega)

/-- What `LitOk` means once the header is known to be sane: the returned literal itself is within
`2M+1`, and a defining one is even and at least 2. -/
theorem LitOk.value {assigning : Bool} {maxLit : Nat} {l : LitTy} {x : Nat}
    (h : LitOk assigning maxLit l x) (hm : maxLit ≤ l.maxCode) :
    x ≤ maxLit ∧ (assigning = true → x % 2 = 0 ∧ 2 ≤ x) := by
  obtain ⟨c, rfl, hc, ha⟩ := h
  rw [fromCode_of_le l c maxLit hc hm]
  exact ⟨hc, ha⟩

end Aiger
end Flussab

namespace Flussab
namespace Aiger
open PM

/-! ### symbol table -/

/-- The number of entries of the section a symbol kind refers to. -/
def symCount (h : Header) : SymKind → Nat
  | .input => h.inputCount | .output => h.outputCount | .latch => h.latchCount
  | .bad => h.badCount | .constraint => h.constraintCount | .justice => h.justiceCount
  | .fairness => h.fairnessCount

theorem symAlt_post (count : Nat) (c : UInt8) (notEol : Bool) :
    Post (symAlt count c notEol) (fun r => ∀ idx, r = some idx → idx < count) := by
  unfold symAlt
  refine Post.ite (fun hc => ?_) (fun _ => Post.pure (by intro idx h; cases h))
  refine Post.bind (Post.true _) fun r _ => ?_
  cases r with
  | none => exact Post.pure (by intro idx h; cases h)
  | some u =>
    simp only
    refine Post.bind (checkedSub_post _ _ _) fun lim hl => ?_
    refine Post.bind (symbolIndex_post _) fun idx hi => Post.pure ?_
    intro idx' h
    cases h
    omega

theorem symTarget_post (alts : List (SymKind × Nat × UInt8 × Bool)) :
    Post (symTarget alts) (fun r => ∀ k idx, r = some (k, idx) →
      ∃ count c ne, (k, count, c, ne) ∈ alts ∧ idx < count) := by
  induction alts with
  | nil => unfold symTarget; exact Post.pure (by intro k idx h; cases h)
  | cons a alts ih =>
    obtain ⟨k, count, c, ne⟩ := a
    unfold symTarget
    refine Post.bind (symAlt_post count c ne) fun r hr => ?_
    cases r with
    | some idx =>
      refine Post.pure ?_
      intro k' idx' h
      cases h
      exact ⟨count, c, ne, by simp, hr idx rfl⟩
    | none =>
      refine Post.mono ih ?_
      intro r h k' idx' hk
      obtain ⟨count', c', ne', hm, hlt⟩ := h k' idx' hk
      exact ⟨count', c', ne', by simp [hm], hlt⟩

/-- C06 `symbol_index_within` (the repaired F3): a returned symbol's index is below the number
of entries of *its own* section. -/
theorem nextSymbol_post (p : Parser) :
    Post (nextSymbol p) (fun r => ∀ s, r = some s → s.index < symCount p.header s.kind) := by
  unfold nextSymbol
  refine Post.bind (symTarget_post _) fun r hr => ?_
  cases r with
  | none => exact Post.pure (by intro s h; cases h)
  | some t =>
    obtain ⟨kind, index⟩ := t
    simp only
    refine Post.bind (Post.true _) fun _ _ => ?_
    refine Post.bind (Post.true _) fun name _ => Post.pure ?_
    intro s h
    cases h
    obtain ⟨count, c, ne, hm, hlt⟩ := hr kind index rfl
    simp only [symKinds, List.mem_cons, Prod.mk.injEq, List.mem_nil_iff, or_false] at hm
    rcases hm with h | h | h | h | h | h | h <;> obtain ⟨rfl, rfl, _, _⟩ := h <;> exact hlt

end Aiger
end Flussab
