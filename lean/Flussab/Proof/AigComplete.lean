/-
C12: completeness.  A well-formed graph (no variable defined twice, every transferred root
well-founded) is accepted: `lit_defs`, the latch loop and every `transfer` succeed.
-/
import Flussab.Proof.AigFinal

namespace Flussab.Aig

/-! ### completeness of `lit_defs` and of the latch loop -/

theorem LitMap.hasKey_insert_iff (m : LitMap) (key value k : Nat) :
    (m.insert key value).HasKey k ↔ key / 2 = k / 2 ∨ m.HasKey k := by
  simp only [LitMap.HasKey, LitMap.insert, List.map_cons, List.mem_cons]
  constructor
  · rintro (h | h)
    · exact Or.inl (by omega)
    · exact Or.inr h
  · rintro (h | h)
    · exact Or.inl (by omega)
    · exact Or.inr h

theorem defsAdd_complete (es : List (Nat × LitDef)) (d : Defs) (h : (kv (es.reverse ++ d)).Nodup) :
    ∃ d', defsAdd es d = .ok d' := by
  induction es generalizing d with
  | nil => exact ⟨d, rfl⟩
  | cons e rest ih =>
    obtain ⟨lit, v⟩ := e
    have e1 : ((lit, v) :: rest).reverse ++ d = rest.reverse ++ ((lit, v) :: d) := by simp
    rw [e1] at h
    simp only [defsAdd]
    have hnot : lit / 2 ∉ kv d := by
      unfold kv at h ⊢
      rw [List.map_append, List.nodup_append] at h
      have := h.2.1
      simp only [List.map_cons, List.nodup_cons] at this
      exact this.1
    have hc : ¬ ((d.contains (1 ^^^ lit) || d.contains lit) = true) := by
      rw [contains_var_iff]; exact hnot
    simp only [hc]
    exact ih _ h

theorem nodup_parts {a : Aig} (hn : (definedVars a).Nodup) :
    (a.inputs.map (· / 2)).Nodup ∧ (a.gates.map (·.out / 2)).Nodup ∧
    (a.latches.map (·.state / 2)).Nodup ∧
    (0 ∉ a.inputs.map (· / 2)) ∧ (0 ∉ a.gates.map (·.out / 2)) ∧ (0 ∉ a.latches.map (·.state / 2)) ∧
    (∀ x ∈ a.inputs.map (· / 2), x ∉ a.gates.map (·.out / 2)) ∧
    (∀ x ∈ a.latches.map (·.state / 2), x ∉ a.inputs.map (· / 2) ∧ x ∉ a.gates.map (·.out / 2)) := by
  unfold definedVars definedLits at hn
  simp only [List.map_cons, List.map_append, List.map_map] at hn
  rw [List.nodup_cons] at hn
  obtain ⟨h0, hn⟩ := hn
  rw [List.nodup_append] at hn
  obtain ⟨hIG, hL, hd2⟩ := hn
  rw [List.nodup_append] at hIG
  obtain ⟨hI, hG, hd1⟩ := hIG
  have z : (0 : Nat) / 2 = 0 := rfl
  rw [z] at h0
  simp only [List.mem_append, not_or] at h0
  refine ⟨hI, hG, hL, h0.1.1, h0.1.2, h0.2, ?_, ?_⟩
  · intro x hx hg; exact hd1 x hx x hg rfl
  · intro x hx
    exact ⟨fun hi => hd2 x (List.mem_append.mpr (Or.inl hi)) x hx rfl,
           fun hg => hd2 x (List.mem_append.mpr (Or.inr hg)) x hx rfl⟩

theorem kv_gateEntries (gs : List AndGate) : kv (gateEntries gs) = gs.map (·.out / 2) := by
  unfold kv gateEntries; rw [List.map_map]; rfl

theorem kv_inputEntries (i : Nat) (l : List Nat) : kv (inputEntries i l) = l.map (· / 2) := by
  unfold kv
  calc (inputEntries i l).map (fun x => x.1 / 2)
      = ((inputEntries i l).map (·.1)).map (· / 2) := by rw [List.map_map]; rfl
    _ = l.map (· / 2) := by rw [inputEntries_fst]

theorem kv_append (d1 d2 : Defs) : kv (d1 ++ d2) = kv d1 ++ kv d2 := by unfold kv; simp

theorem kv_reverse (d : Defs) : kv d.reverse = (kv d).reverse := by unfold kv; simp

theorem litDefs_complete {a : Aig} (hn : (definedVars a).Nodup) : ∃ defs, litDefs a = .ok defs := by
  obtain ⟨hI, hG, _, h0I, h0G, _, hIG, _⟩ := nodup_parts hn
  have n1 : (kv ((inputEntries 0 a.inputs).reverse ++ [(0, LitDef.constant)])).Nodup := by
    rw [kv_append, kv_reverse, kv_inputEntries, List.nodup_append]
    refine ⟨(List.reverse_perm _).nodup_iff.mpr hI, by simp [kv], ?_⟩
    intro x hx y hy hxy
    simp only [kv, List.map_cons, List.map_nil, List.mem_singleton] at hy
    subst hxy; subst hy
    exact h0I (List.mem_reverse.mp hx)
  obtain ⟨d, hd⟩ := defsAdd_complete _ _ n1
  have ed := (defsAdd_ok hd).1
  have n2 : (kv ((gateEntries a.gates).reverse ++ d)).Nodup := by
    rw [kv_append, kv_reverse, kv_gateEntries, List.nodup_append]
    refine ⟨(List.reverse_perm _).nodup_iff.mpr hG, by rw [ed]; exact n1, ?_⟩
    intro x hx y hy hxy
    subst hxy
    rw [ed, kv_append, kv_reverse, kv_inputEntries] at hy
    have hx' := List.mem_reverse.mp hx
    simp only [List.mem_append, List.mem_reverse, kv, List.map_cons, List.map_nil,
      List.mem_singleton] at hy
    rcases hy with hy | hy
    · exact hIG x hy hx'
    · have z : (0 : Nat) / 2 = 0 := rfl
      rw [z] at hy; subst hy; exact h0G hx'
  obtain ⟨d', hd'⟩ := defsAdd_complete _ _ n2
  exact ⟨d', by unfold litDefs; rw [hd]; exact hd'⟩

theorem initInputs_hasKey (l : List Nat) (st : St) (k : Nat) :
    (initInputs l st).litMap.HasKey k ↔ st.litMap.HasKey k ∨ ∃ lit ∈ l, lit / 2 = k / 2 := by
  induction l generalizing st with
  | nil => simp [initInputs]
  | cons x rest ih =>
    simp only [initInputs]
    rw [ih, LitMap.hasKey_insert_iff]
    simp only [List.mem_cons, exists_eq_or_imp]
    constructor
    · rintro ((h | h) | h)
      · exact Or.inr (Or.inl h)
      · exact Or.inl h
      · exact Or.inr (Or.inr h)
    · rintro (h | h | h)
      · exact Or.inl (Or.inr h)
      · exact Or.inl (Or.inl h)
      · exact Or.inr h

theorem initLatches_complete (defs : Defs) (ls : List Latch) (st : St)
    (h1 : (ls.map (·.state / 2)).Nodup)
    (h2 : ∀ l ∈ ls, l.state / 2 ∉ kv defs ∧ ¬ st.litMap.HasKey l.state) :
    ∃ st', initLatches defs ls st = .ok st' := by
  induction ls generalizing st with
  | nil => exact ⟨st, rfl⟩
  | cons l rest ih =>
    simp only [initLatches]
    obtain ⟨a1, a2⟩ := h2 l (by simp)
    have c1 : ¬ ((defs.contains l.state || defs.contains (1 ^^^ l.state)) = true) := by
      rw [Bool.or_comm, contains_var_iff]; exact a1
    have c2 : ¬ ((st.litMap.get l.state).isSome = true) := by
      rw [LitMap.get_isSome_iff]; exact a2
    have c : ¬ ((defs.contains l.state || defs.contains (1 ^^^ l.state) ||
        (st.litMap.get l.state).isSome) = true) := by
      rw [Bool.or_eq_true, not_or]; exact ⟨c1, c2⟩
    simp only [c]
    simp only [List.map_cons, List.nodup_cons] at h1
    apply ih _ h1.2
    intro l' hl'
    refine ⟨(h2 l' (List.mem_cons_of_mem _ hl')).1, ?_⟩
    rw [LitMap.hasKey_insert_iff, not_or]
    refine ⟨?_, (h2 l' (List.mem_cons_of_mem _ hl')).2⟩
    intro he
    exact h1.1 (List.mem_map.mpr ⟨l', hl', he.symm⟩)

theorem initLatches_hasKey {defs : Defs} {ls : List Latch} {st st' : St}
    (h : initLatches defs ls st = .ok st') : ∀ l ∈ ls, st'.litMap.HasKey l.state := by
  induction ls generalizing st with
  | nil => simp
  | cons x rest ih =>
    simp only [initLatches] at h
    split at h
    · exact absurd h (by simp)
    · intro l hl
      rcases List.mem_cons.mp hl with rfl | hl
      · exact initLatches_keys h _ (LitMap.hasKey_insert_self _ _ _)
      · exact ih h l hl

/-- Constant, inputs and latch states all have `lit_map` entries. -/
structure LeafKeys (a : Aig) (m : LitMap) : Prop where
  const : m.HasKey 0
  inputs : ∀ l ∈ a.inputs, m.HasKey l
  latches : ∀ l ∈ a.latches, m.HasKey l.state

theorem LeafKeys.mono {a : Aig} {m m' : LitMap} (h : LeafKeys a m)
    (hk : ∀ k, m.HasKey k → m'.HasKey k) : LeafKeys a m' :=
  ⟨hk _ h.const, fun l hl => hk _ (h.inputs l hl), fun l hl => hk _ (h.latches l hl)⟩

theorem init_complete {a : Aig} (hn : (definedVars a).Nodup) {defs : Defs} (hd : litDefs a = .ok defs) :
    ∃ st0, initLatches defs a.latches (initInputs a.inputs St.init) = .ok st0 ∧
      LeafKeys a st0.litMap := by
  obtain ⟨hI, hG, hL, h0I, h0G, h0L, hIG, hLIG⟩ := nodup_parts hn
  have hinitKey : ∀ k, St.init.litMap.HasKey k ↔ k / 2 = 0 := by
    intro k; simp only [St.init, LitMap.HasKey, LitMap.insert, List.map_cons, List.map_nil, List.mem_singleton]; omega
  obtain ⟨st0, h0⟩ := initLatches_complete defs a.latches (initInputs a.inputs St.init) hL (by
    intro l hl
    have hm : l.state / 2 ∈ a.latches.map (·.state / 2) := List.mem_map.mpr ⟨l, hl, rfl⟩
    constructor
    · rw [litDefs_kv hd]
      simp only [List.mem_append, List.mem_reverse, List.mem_singleton, not_or]
      exact ⟨(hLIG _ hm).2, (hLIG _ hm).1, fun h => h0L (h ▸ hm)⟩
    · rw [initInputs_hasKey, hinitKey, not_or]
      refine ⟨fun h => h0L (h ▸ hm), ?_⟩
      rintro ⟨lit, hlit, he⟩
      exact (hLIG _ hm).1 (List.mem_map.mpr ⟨lit, hlit, he⟩))
  refine ⟨st0, h0, ?_, ?_, ?_⟩
  · exact initLatches_keys h0 _ ((initInputs_hasKey _ _ _).mpr (Or.inl ((hinitKey 0).mpr rfl)))
  · intro l hl
    exact initLatches_keys h0 _ ((initInputs_hasKey _ _ _).mpr (Or.inr ⟨l, hl, rfl⟩))
  · exact initLatches_hasKey h0

/-! ### completeness of `transfer` -/

/-- Every gate of `a` is found under its output literal. -/
def DefsFull (a : Aig) (defs : Defs) : Prop :=
  ∀ g ∈ a.gates, alookup g.out defs = some (.andGate g.in0 g.in1)

theorem alookup_of_mem_nodup {l : Defs} (hn : (kv l).Nodup) {k : Nat} {v : LitDef} (hm : (k, v) ∈ l) :
    alookup k l = some v := by
  cases h : alookup k l with
  | none =>
    have := (alookup_none_iff k l).mp h
    exact absurd (List.mem_map.mpr ⟨(k, v), hm, rfl⟩) this
  | some v' =>
    have hm' := alookup_mem h
    have := nodup_map_inj (f := fun x : Nat × LitDef => x.1 / 2) hn hm' hm rfl
    injection this with _ e; rw [e]

theorem litDefs_defsFull {a : Aig} {defs : Defs} (h : litDefs a = .ok defs) : DefsFull a defs := by
  intro g hg
  obtain ⟨e, hn⟩ := litDefs_ok h
  apply alookup_of_mem_nodup hn
  rw [e]
  simp only [List.mem_append, List.mem_reverse]
  exact Or.inl (List.mem_map.mpr ⟨g, hg, rfl⟩)

theorem findDef_complete {a : Aig} {defs : Defs} (hf : DefsFull a defs) {g : AndGate} (hg : g ∈ a.gates)
    {lit : Nat} (hl : lit / 2 = g.out / 2) : ∃ d, findDef defs lit = some d := by
  have hlook := hf g hg
  unfold findDef
  simp only
  by_cases hp : g.out % 2 = lit % 2
  · have e : g.out = lit := eq_of_div_mod hl.symm hp
    rw [e] at hlook
    rw [hlook]
    cases h1 : alookup (1 ^^^ lit) defs with
    | none => exact ⟨_, rfl⟩
    | some v => cases v <;> exact ⟨_, rfl⟩
  · have e : g.out = 1 ^^^ lit := by
      apply eq_of_div_mod
      · rw [one_xor_div]; exact hl.symm
      · rw [one_xor_mod]; omega
    rw [e] at hlook
    rw [hlook]
    exact ⟨_, rfl⟩

/-- On a well-formed graph `transfer` succeeds: no spurious cycle report, no missing definition,
and the fuel bound of `transfer_fuel`. -/
theorem transfer_complete {a : Aig} {defs : Defs} (hd : DefsOk a defs) (hf : DefsFull a defs)
    (hn : (definedVars a).Nodup) (cfg : Config) :
    ∀ (fuel : Nat) (path : List Nat) (st : St) (lit n : Nat), Inv a st → LeafKeys a st.litMap →
      (∀ p ∈ path, DepPlus a (p / 2) (lit / 2)) → GroundedH a (lit / 2) n → n < fuel →
      ∃ t st', transfer cfg defs fuel path st lit = .ok (t, st') := by
  intro fuel
  induction fuel with
  | zero => intro _ _ _ n _ _ _ _ h; omega
  | succ fuel ih =>
    intro path st lit n hinv hk hp hg hlt
    have hgr : Grounded a (lit / 2) := by
      clear hlt ih
      generalize lit / 2 = v at hg
      induction hg with
      | const => exact .const
      | input l hl => exact .input l hl
      | latch l hl => exact .latch l hl
      | gate g _ _ hg _ _ i0 i1 => exact .gate g hg i0 i1
    unfold transfer
    cases hget : st.litMap.get lit with
    | some t => exact ⟨t, st, rfl⟩
    | none =>
      simp only
      have hnk : ¬ st.litMap.HasKey lit := (LitMap.get_none_iff _ _).mp hget
      -- no false cycle report
      have hnc : ¬ (path[path.length / 2]? = some lit) := by
        intro hc
        have hmem : lit ∈ path := List.mem_of_getElem? hc
        exact hgr.not_onCycle hn (hp lit hmem)
      rw [if_neg hnc]
      -- the variable is a gate output
      have hgate : ∃ g ∈ a.gates, lit / 2 = g.out / 2 := by
        generalize hv : lit / 2 = v at hgr
        cases hgr with
        | const => exact absurd (LitMap.hasKey_of_var (k := 0) (k' := lit) (by omega) hk.const) hnk
        | input l hl => exact absurd (LitMap.hasKey_of_var hv.symm (hk.inputs l hl)) hnk
        | latch l hl => exact absurd (LitMap.hasKey_of_var hv.symm (hk.latches l hl)) hnk
        | gate g hg _ _ => exact ⟨g, hg, rfl⟩
      obtain ⟨g, hgm, hgl⟩ := hgate
      obtain ⟨d, hfd⟩ := findDef_complete hf hgm hgl
      rw [hfd]
      simp only
      obtain ⟨hmem, hl⟩ := findDef_mem hd hfd
      rw [hl] at hg
      obtain ⟨h0, h1, rfl, g0, g1⟩ := hg.gate_inv hn hmem
      have hp' : ∀ x : Nat, (x = d.in0 ∨ x = d.in1) → ∀ p ∈ path ++ [lit], DepPlus a (p / 2) (x / 2) := by
        intro x hx p hpm
        have hdep : Dep a (lit / 2) (x / 2) := by
          refine ⟨d, hmem, hl.symm, ?_⟩
          rcases hx with rfl | rfl
          · exact Or.inl rfl
          · exact Or.inr rfl
        rcases List.mem_append.mp hpm with hpm | hpm
        · exact (hp p hpm).snoc hdep
        · simp only [List.mem_singleton] at hpm; subst hpm; exact DepPlus.single hdep
      obtain ⟨t0, st1, e0⟩ := ih (path ++ [lit]) st d.in0 h0 hinv hk (hp' _ (Or.inl rfl)) g0 (by omega)
      rw [e0]
      simp only
      have p0 := transfer_post hd cfg _ _ _ _ _ _ hinv e0
      obtain ⟨t1, st2, e1⟩ := ih (path ++ [lit]) st1 d.in1 h1 p0.inv (hk.mono p0.ext.keys)
        (hp' _ (Or.inr rfl)) g1 (by omega)
      rw [e1]
      exact ⟨_, _, rfl⟩

theorem transferAll_complete {a : Aig} {defs : Defs} (hd : DefsOk a defs) (hf : DefsFull a defs)
    (hn : (definedVars a).Nodup) (cfg : Config) (fuel : Nat) :
    ∀ (lits : List Nat) (st : St), Inv a st → LeafKeys a st.litMap →
      (∀ l ∈ lits, ∃ n, GroundedH a (l / 2) n ∧ n < fuel) →
      ∃ st', transferAll cfg defs fuel lits st = .ok st' := by
  intro lits
  induction lits with
  | nil => intro st _ _ _; exact ⟨st, rfl⟩
  | cons l rest ih =>
    intro st hinv hk h
    obtain ⟨n, gn, hlt⟩ := h l (by simp)
    obtain ⟨t, st1, e⟩ := transfer_complete hd hf hn cfg fuel [] st l n hinv hk (by simp) gn hlt
    have p := transfer_post hd cfg _ _ _ _ _ _ hinv e
    simp only [transferAll, e]
    exact ih st1 p.inv (hk.mono p.ext.keys) (fun l' hl' => h l' (List.mem_cons_of_mem _ hl'))


/-- A well-formed graph is accepted (with fuel exceeding the number of gates). -/
theorem renumber_complete {cfg : Config} {a : Aig} {fuel : Nat} (hn : (definedVars a).Nodup)
    (hg : ∀ r ∈ roots cfg a, Grounded a (r / 2)) (hf : a.gates.length < fuel) :
    ∃ o m, renumber cfg a fuel = .ok (o, m) := by
  obtain ⟨defs, h1⟩ := litDefs_complete hn
  obtain ⟨st0, h2, hk⟩ := init_complete hn h1
  have i0 : Inv a st0 :=
    (initLatches_inv a.latches [] _ _ (by simp)
      (by simpa using initInputs_inv (a := a) a.inputs [] St.init (by simp) (initInv_init a)) h2).toInv
  obtain ⟨st, h3⟩ := transferAll_complete (litDefs_defsOk h1) (litDefs_defsFull h1) hn cfg fuel
    (roots cfg a) st0 i0 hk (by
      intro l hl
      obtain ⟨n, gn⟩ := (hg l hl).height
      exact ⟨n, gn, by have := gn.le_gates hn; omega⟩)
  unfold renumber initState
  simp only [h1, h2, h3]
  exact ⟨_, _, rfl⟩

end Flussab.Aig
