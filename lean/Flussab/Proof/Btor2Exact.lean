/-
Exact behaviour of the BTOR2 tokens on text of the shape the writer emits: a token's text followed
by a byte that ends it.  `Adv lr n lr1`: the state `lr1` is `lr` with `n` more bytes of the current
line consumed and nothing else changed except the look-ahead ghost (which only grows) and the mark.
These are the building blocks of the round-trip theorem (C03).
-/
import Flussab.Model.Btor2
import Flussab.Proof.PMHoare
import Flussab.Proof.Btor2Basic
import Flussab.Proof.Decimal

namespace Flussab
namespace Btor2
open PM

/-- `lr1` is `lr` after consuming `n` bytes of the current line. -/
structure Adv (lr : LR) (n : Nat) (lr1 : LR) : Prop where
  rest : lr1.v.rest = lr.v.rest.drop n
  pos : lr1.v.pos = lr.v.pos + n
  fault : lr1.v.fault = lr.v.fault
  sawEnd : lr1.v.sawEnd = lr.v.sawEnd
  ioErr : lr1.v.ioErr = lr.v.ioErr
  line : lr1.line = lr.line
  lineStart : lr1.lineStart = lr.lineStart
  peeked : lr.v.peeked ≤ lr1.v.peeked

theorem Adv.refl (lr : LR) : Adv lr 0 lr :=
  ⟨by simp, rfl, rfl, rfl, rfl, rfl, rfl, Nat.le_refl _⟩

theorem Adv.trans {a b c : LR} {n m : Nat} (h1 : Adv a n b) (h2 : Adv b m c) : Adv a (n + m) c :=
  ⟨by rw [h2.rest, h1.rest, List.drop_drop], by rw [h2.pos, h1.pos]; omega, h2.fault.trans h1.fault,
   h2.sawEnd.trans h1.sawEnd, h2.ioErr.trans h1.ioErr, h2.line.trans h1.line,
   h2.lineStart.trans h1.lineStart, Nat.le_trans h1.peeked h2.peeked⟩

/-- The unconsumed input after an `Adv` over a known prefix. -/
theorem Adv.rest_of {lr lr1 : LR} {t tl : VBytes} (h : Adv lr t.length lr1) (hr : lr.v.rest = t ++ tl) :
    lr1.v.rest = tl := by
  rw [h.rest, hr]; simp

variable {E : PErr → LR → Prop} {lr0 lr : LR} {n : Nat}

/-- Demanding an existing byte changes the ghost only. -/
theorem Adv.demand (a : Adv lr0 n lr) {k : Nat} (hk : k < lr.v.rest.length) :
    Adv lr0 n { lr with v := lr.v.demand k } ∧ lr.v.pos + k + 1 ≤ (lr.v.demand k).peeked := by
  rw [demand_of_lt lr.v k hk]
  refine ⟨⟨a.rest, a.pos, a.fault, a.sawEnd, a.ioErr, a.line, a.lineStart, ?_⟩, ?_⟩
  · have := a.peeked; show lr0.v.peeked ≤ max lr.v.peeked (lr.v.pos + k + 1); omega
  · show lr.v.pos + k + 1 ≤ max lr.v.peeked (lr.v.pos + k + 1); omega

theorem Wp.reqAtA (a : Adv lr0 n lr) {k : Nat} (hk : k < lr.v.rest.length) :
    Wp E (PM.reqAt k) lr (fun x lr1 => x = lr.v.rest[k]? ∧ Adv lr0 n lr1 ∧ lr1.v.rest = lr.v.rest ∧
      lr1.v.pos = lr.v.pos ∧ lr.v.pos + k + 1 ≤ lr1.v.peeked) := by
  obtain ⟨a1, p1⟩ := a.demand hk
  exact Wp.reqAt ⟨rfl, a1, demand_rest _ _, demand_pos _ _, p1⟩

/-- A scanner whose effect on the view is one demand of an existing byte. -/
theorem Wp.scanA {α : Type} (a : Adv lr0 n lr) {f : View → α × View} {k : Nat}
    (hf : (f lr.v).2 = lr.v.demand k) (hk : k < lr.v.rest.length) :
    Wp E (PM.scan f) lr (fun x lr1 => x = (f lr.v).1 ∧ Adv lr0 n lr1 ∧ lr1.v.rest = lr.v.rest ∧
      lr1.v.pos = lr.v.pos ∧ lr.v.pos + k + 1 ≤ lr1.v.peeked) := by
  obtain ⟨a1, p1⟩ := a.demand hk
  apply Wp.scan
  rw [hf]
  exact ⟨rfl, a1, demand_rest _ _, demand_pos _ _, p1⟩

theorem Wp.advanceA (a : Adv lr0 n lr) {m : Nat} (hm : m ≤ lr.v.rest.length)
    (hp : lr.v.pos + m ≤ lr.v.peeked) :
    Wp E (PM.advance m) lr (fun _ lr1 => Adv lr0 (n + m) lr1) := by
  refine Wp.advance (demanded_ge hm hp) ?_
  exact ⟨by show lr.v.rest.drop m = lr0.v.rest.drop (n + m); rw [a.rest, List.drop_drop],
    by show lr.v.pos + m = lr0.v.pos + (n + m); rw [a.pos]; omega,
    a.fault, a.sawEnd, a.ioErr, a.line, a.lineStart, a.peeked⟩

theorem Wp.bufPrefixA {m : Nat} {Q : VBytes → LR → Prop} (hm : m ≤ lr.v.rest.length)
    (hp : lr.v.pos + m ≤ lr.v.peeked) (h : Q (lr.v.rest.take m) lr) : Wp E (PM.bufPrefix m) lr Q :=
  Wp.bufPrefix (demanded_ge hm hp) h

theorem Wp.advanceWithBufA (a : Adv lr0 n lr) {m : Nat} (hm : m ≤ lr.v.rest.length)
    (hp : lr.v.pos + m ≤ lr.v.peeked) :
    Wp E (PM.advanceWithBuf m) lr (fun bs lr1 => bs = lr.v.rest.take m ∧ Adv lr0 (n + m) lr1) := by
  unfold PM.advanceWithBuf
  refine Wp.bind (Wp.bufPrefixA hm hp ?_)
  refine Wp.bind' (Wp.advanceA a hm hp) ?_
  intro _ lr1 a1
  exact Wp.pure ⟨rfl, a1⟩

/-! ### runs on written text -/

/-- The run of `p` in `t ++ x :: tl` when all of `t` satisfies `p` and `x` does not. -/
theorem runLen_append (p : UInt8 → Bool) (t : VBytes) (x : UInt8) (tl : VBytes)
    (ht : t.all p = true) (hx : p x = false) : Text.runLen p (t ++ x :: tl) = t.length := by
  induction t with
  | nil => simp [Text.runLen, hx]
  | cons y ys ih =>
    simp only [List.all_cons, Bool.and_eq_true] at ht
    simp [Text.runLen, ht.1, ih ht.2]

theorem takeWhile_append (p : UInt8 → Bool) (t : VBytes) (x : UInt8) (tl : VBytes)
    (ht : t.all p = true) (hx : p x = false) : (t ++ x :: tl).takeWhile p = t := by
  induction t with
  | nil => simp [List.takeWhile, hx]
  | cons y ys ih =>
    simp only [List.all_cons, Bool.and_eq_true] at ht
    simp [List.takeWhile, ht.1, ih ht.2]

/-- `scanWhile p` at the cursor over `t ++ x :: tl`. -/
theorem Wp.scanWhileA (a : Adv lr0 n lr) (p : UInt8 → Bool) {t : VBytes} {x : UInt8} {tl : VBytes}
    (hr : lr.v.rest = t ++ x :: tl) (ht : t.all p = true) (hx : p x = false) :
    Wp E (PM.scan (scanWhile p · 0)) lr (fun r lr1 => r = t.length ∧ Adv lr0 n lr1 ∧
      lr1.v.rest = lr.v.rest ∧ lr1.v.pos = lr.v.pos ∧ lr.v.pos + t.length + 1 ≤ lr1.v.peeked) := by
  have hrun : Text.runLen p (lr.v.rest.drop 0) = t.length := by
    rw [List.drop_zero, hr]; exact runLen_append p t x tl ht hx
  have hk : 0 + t.length < lr.v.rest.length := by rw [hr]; simp
  refine (Wp.scanA (k := 0 + t.length) a (by simp only [scanWhile, hrun]) hk).mono ?_
  intro r lr1 ⟨h1, h2, h3, h4, h5⟩
  refine ⟨by rw [h1]; simp only [scanWhile, hrun]; omega, h2, h3, h4, by omega⟩

/-! ### single bytes -/

theorem byteToken_some (c : UInt8) {tl : VBytes} (hr : lr.v.rest = c :: tl) :
    Wp E (do if (← reqByte) == some c then advance 1; pure (some ()) else pure none : PM (Option Unit)) lr
      (fun r lr1 => r = some () ∧ Adv lr 1 lr1) := by
  refine Wp.bind' (Wp.reqAtA (Adv.refl lr) (k := 0) (by rw [hr]; simp)) ?_
  intro x lr1 ⟨hx, a1, r1, p1, k1⟩
  have : x = some c := by rw [hx, hr]; rfl
  subst this
  simp only [beq_self_eq_true, ↓reduceIte]
  refine Wp.bind' (Wp.advanceA a1 (by rw [r1, hr]; simp) (by rw [p1]; omega)) ?_
  intro _ lr2 a2
  exact Wp.pure ⟨rfl, by simpa using a2⟩

theorem byteToken_none (c : UInt8) {x : UInt8} {tl : VBytes} (hr : lr.v.rest = x :: tl) (hx : x ≠ c) :
    Wp E (do if (← reqByte) == some c then advance 1; pure (some ()) else pure none : PM (Option Unit)) lr
      (fun r lr1 => r = none ∧ Adv lr 0 lr1) := by
  refine Wp.bind' (Wp.reqAtA (Adv.refl lr) (k := 0) (by rw [hr]; simp)) ?_
  intro y lr1 ⟨hy, a1, _, _, _⟩
  have : y = some x := by rw [hy, hr]; rfl
  subst this
  have hne : (some x == some c) = false := by simpa using hx
  simp only [hne, Bool.false_eq_true, ↓reduceIte]
  exact Wp.pure ⟨rfl, a1⟩

theorem space_some {tl : VBytes} (hr : lr.v.rest = 32 :: tl) :
    Wp E space lr (fun r lr1 => r = some () ∧ Adv lr 1 lr1) := byteToken_some 32 hr

theorem space_none {x : UInt8} {tl : VBytes} (hr : lr.v.rest = x :: tl) (hx : x ≠ 32) :
    Wp E space lr (fun r lr1 => r = none ∧ Adv lr 0 lr1) := byteToken_none 32 hr hx

theorem commentStart_some {tl : VBytes} (hr : lr.v.rest = 59 :: tl) :
    Wp E commentStart lr (fun r lr1 => r = some () ∧ Adv lr 1 lr1) := byteToken_some 59 hr

theorem commentStart_none {x : UInt8} {tl : VBytes} (hr : lr.v.rest = x :: tl) (hx : x ≠ 59) :
    Wp E commentStart lr (fun r lr1 => r = none ∧ Adv lr 0 lr1) := byteToken_none 59 hr hx

theorem requiredSpace_exact {tl : VBytes} (hr : lr.v.rest = 32 :: tl) :
    Wp E requiredSpace lr (fun _ lr1 => Adv lr 1 lr1) := by
  unfold requiredSpace
  refine Wp.orGiveUp ((space_some hr).mono ?_)
  intro r lr1 ⟨h1, a1⟩
  subst h1; exact a1

/-- The state after a consumed newline: the next line starts at the cursor. -/
structure NextLine (lr lr1 : LR) : Prop where
  rest : lr1.v.rest = lr.v.rest.drop 1
  pos : lr1.v.pos = lr.v.pos + 1
  fault : lr1.v.fault = lr.v.fault
  sawEnd : lr1.v.sawEnd = lr.v.sawEnd
  ioErr : lr1.v.ioErr = lr.v.ioErr
  line : lr1.line = lr.line + 1
  lineStart : lr1.lineStart = lr.v.pos + 1

theorem newline_some {tl : VBytes} (hr : lr.v.rest = 10 :: tl) (h1 : lr.line + 1 ≤ usizeMax)
    (h2 : lr.v.pos + 1 ≤ usizeMax) :
    Wp E newline lr (fun r lr1 => r = some () ∧ NextLine lr lr1) := by
  unfold newline
  refine Wp.bind' (Wp.reqAtA (Adv.refl lr) (k := 0) (by rw [hr]; simp)) ?_
  intro x lr1 ⟨hx, a1, r1, p1, k1⟩
  have : x = some 10 := by rw [hx, hr]; rfl
  subst this
  simp only [beq_self_eq_true, ↓reduceIte]
  refine Wp.bind' (Wp.advanceA a1 (m := 1) (by rw [r1, hr]; simp) (by rw [p1]; omega)) ?_
  intro _ lr2 a2
  refine Wp.bind (Wp.lineAtOffset (by rw [a2.line]; exact h1) (by rw [a2.pos]; omega) ?_)
  refine Wp.pure ⟨rfl, ?_⟩
  exact ⟨by simpa using a2.rest, by simpa using a2.pos, a2.fault, a2.sawEnd, a2.ioErr,
    by show lr2.line + 1 = lr.line + 1; rw [a2.line],
    by show lr2.v.pos + 0 = lr.v.pos + 1; rw [a2.pos]⟩

/-! ### numbers -/

/-- What the parser needs to know about canonical decimal text. -/
theorem natText_spec (v : Nat) :
    (natText v).all isDigit = true ∧ natText v ≠ [] ∧ Text.decVal (natText v) = v ∧
    (v ≠ 0 → (natText v).head? ≠ some 48) ∧ (v = 0 → natText v = [48]) := by
  unfold natText
  rw [Writer.natDigits_eq]
  obtain ⟨h1, h2, h3, h4, h5⟩ := Writer.digitsOf_spec v
  exact ⟨List.all_eq_true.mpr h2, h3, h1, h4, h5⟩

theorem Wp.setMarkA (a : Adv lr0 n lr) :
    Wp E PM.setMark lr (fun _ lr1 => Adv lr0 n lr1 ∧ lr1.v.rest = lr.v.rest ∧ lr1.v.pos = lr.v.pos ∧
      lr1.v.peeked = lr.v.peeked) :=
  Wp.setMark ⟨⟨a.rest, a.pos, a.fault, a.sawEnd, a.ioErr, a.line, a.lineStart, a.peeked⟩, rfl, rfl, rfl⟩

/-- `uint` on the canonical text of a `u64`, followed by a non-digit. -/
theorem uint_exact (v : Nat) (hv : v < 2 ^ 64) {x : UInt8} {tl : VBytes}
    (hr : lr.v.rest = natText v ++ x :: tl) (hx : isDigit x = false) :
    Wp E uint lr (fun r lr1 => r = some (some v) ∧ Adv lr (natText v).length lr1) := by
  obtain ⟨hall, hne, hval, hnz, hz⟩ := natText_spec v
  have htw : lr.v.rest.takeWhile isDigit = natText v := by rw [hr]; exact takeWhile_append isDigit _ x tl hall hx
  have hlen : 0 < (natText v).length := List.length_pos_iff.mpr hne
  have hfit : u64Ty.fits ((v : Nat) : Int) = true := by
    rw [IntTy.fits_iff]; simp only [u64Ty, IntTy.minVal, IntTy.maxVal, Bool.false_eq_true, ↓reduceIte]
    constructor <;> omega
  unfold uint
  have hx1 := C13.digits_exact u64Ty (by decide) lr.v 0
  obtain ⟨_, hx2⟩ := digitsCont_spec u64Ty false lr.v 0 (some 0)
  simp only [List.drop_zero, Nat.zero_add, htw, hval, hfit, ↓reduceIte] at hx1 hx2
  have hk : (natText v).length < lr.v.rest.length := by rw [hr]; simp
  refine Wp.bind' (Wp.scanA (Adv.refl lr) (f := (Text.asciiDigits u64Ty · 0)) (k := (natText v).length)
    (by simp only [Text.asciiDigits]; exact hx2) hk) ?_
  intro r lr1 ⟨h1, a1, r1, p1, k1⟩
  simp only [hx1] at h1
  subst h1
  have hne0 : ((natText v).length != 0) = true := by simp; omega
  simp only [hne0, ↓reduceIte]
  refine Wp.bind (Wp.bufPrefixA (m := 1) (by rw [r1]; omega) (by rw [p1]; omega) ?_)
  have hok : (lr1.v.rest.take 1 != [48] || (natText v).length == 1) = true := by
    rw [r1, hr]
    by_cases h0 : v = 0
    · rw [hz h0]; rfl
    · have := hnz h0
      cases hd : natText v with
      | nil => exact absurd hd hne
      | cons d ds =>
        rw [hd] at this
        simp only [List.head?_cons, ne_eq, Option.some.injEq] at this
        simp [this]
  simp only [hok]
  refine Wp.bind' (Wp.advanceA a1 (by rw [r1]; omega) (by rw [p1]; omega)) ?_
  intro _ lr2 a2
  exact Wp.pure ⟨by simp, by simpa using a2⟩

/-- `positive_int` on the text of a non-zero `u64`. -/
theorem positiveInt_exact (v : Nat) (h0 : 0 < v) (hv : v < 2 ^ 64) {x : UInt8} {tl : VBytes}
    (hr : lr.v.rest = natText v ++ x :: tl) (hx : isDigit x = false) :
    Wp E positiveInt lr (fun r lr1 => r = some v ∧ Adv lr (natText v).length lr1) := by
  obtain ⟨_, hne, _, hnz, _⟩ := natText_spec v
  unfold positiveInt
  have hk : 0 < lr.v.rest.length := by rw [hr]; simp; omega
  refine Wp.bind' (Wp.reqAtA (Adv.refl lr) (k := 0) hk) ?_
  intro y lr1 ⟨hy, a1, r1, p1, _⟩
  have hn48 : (y == some 48) = false := by
    rw [hy, hr]
    cases hd : natText v with
    | nil => exact absurd hd hne
    | cons d ds =>
      have := hnz (by omega)
      rw [hd] at this
      simp only [List.head?_cons, ne_eq, Option.some.injEq] at this
      simp [this]
  simp only [hn48, Bool.false_eq_true, ↓reduceIte]
  refine Wp.bind' (Wp.setMarkA a1) ?_
  intro _ lr2 ⟨a2, r2, p2, _⟩
  refine Wp.bind' (uint_exact v hv (by rw [r2, r1]; exact hr) hx) ?_
  intro r lr3 ⟨hres, a3⟩
  subst hres
  have hvz : (v == 0) = false := by simp; omega
  simp only [hvz, Bool.false_eq_true, ↓reduceIte]
  exact Wp.pure ⟨rfl, by simpa using a2.trans a3⟩

/-- `nonnegative_int` on the text of a `u64`. -/
theorem nonnegativeInt_exact (v : Nat) (hv : v < 2 ^ 64) {x : UInt8} {tl : VBytes}
    (hr : lr.v.rest = natText v ++ x :: tl) (hx : isDigit x = false) :
    Wp E nonnegativeInt lr (fun r lr1 => r = some v ∧ Adv lr (natText v).length lr1) := by
  unfold nonnegativeInt
  refine Wp.bind' (Wp.setMarkA (Adv.refl lr)) ?_
  intro _ lr2 ⟨a2, r2, p2, _⟩
  refine Wp.bind' (uint_exact v hv (by rw [r2]; exact hr) hx) ?_
  intro r lr3 ⟨hres, a3⟩
  subst hres
  exact Wp.pure ⟨rfl, by simpa using a2.trans a3⟩

/-- `uint` / `positive_int` in front of a byte that is not a digit: Fallthrough, nothing consumed. -/
theorem uint_none {y : UInt8} {T : VBytes} (hr : lr.v.rest = y :: T) (hy : isDigit y = false) :
    Wp E uint lr (fun r lr1 => r = none ∧ Adv lr 0 lr1) := by
  have htw : lr.v.rest.takeWhile isDigit = [] := by rw [hr]; simp [List.takeWhile, hy]
  unfold uint
  have hx1 := C13.digits_exact u64Ty (by decide) lr.v 0
  obtain ⟨_, hx2⟩ := digitsCont_spec u64Ty false lr.v 0 (some 0)
  simp only [List.drop_zero, Nat.zero_add, htw, List.length_nil] at hx1 hx2
  refine Wp.bind' (Wp.scanA (Adv.refl lr) (f := (Text.asciiDigits u64Ty · 0)) (k := 0)
    (by simp only [Text.asciiDigits]; exact hx2) (by rw [hr]; simp)) ?_
  intro r lr1 ⟨h1, a1, _, _, _⟩
  simp only [hx1] at h1
  subst h1
  simp only [bne_self_eq_false, Bool.false_eq_true, ↓reduceIte]
  exact Wp.pure ⟨rfl, a1⟩

theorem positiveInt_none {y : UInt8} {T : VBytes} (hr : lr.v.rest = y :: T) (hy : isDigit y = false) :
    Wp E positiveInt lr (fun r lr1 => r = none ∧ Adv lr 0 lr1) := by
  unfold positiveInt
  refine Wp.bind' (Wp.reqAtA (Adv.refl lr) (k := 0) (by rw [hr]; simp)) ?_
  intro z lr1 ⟨hz, a1, r1, _, _⟩
  have hz' : z = some y := by rw [hz, hr]; rfl
  subst hz'
  have hn48 : (some y == some (48 : UInt8)) = false := by
    have : y ≠ 48 := by intro h; subst h; simp [isDigit] at hy
    simpa using this
  simp only [hn48, Bool.false_eq_true, ↓reduceIte]
  refine Wp.bind' (Wp.setMarkA a1) ?_
  intro _ lr2 ⟨a2, r2, _, _⟩
  refine Wp.bind' (uint_none (by rw [r2, r1]; exact hr) hy) ?_
  intro r lr3 ⟨hres, a3⟩
  subst hres
  exact Wp.pure ⟨rfl, by simpa using a2.trans a3⟩

/-- The canonical text of a number starts with a digit. -/
theorem natText_head (v : Nat) : ∃ d ds, natText v = d :: ds ∧ isDigit d = true := by
  obtain ⟨hall, hne, _, _, _⟩ := natText_spec v
  cases h : natText v with
  | nil => exact absurd h hne
  | cons d ds =>
    rw [h] at hall
    simp only [List.all_cons, Bool.and_eq_true] at hall
    exact ⟨d, ds, rfl, hall.1⟩

theorem orGiveUp_exact {α : Type} {p : PM (Option α)} {v : α} {m : Nat}
    (h : Wp E p lr (fun r lr1 => r = some v ∧ Adv lr m lr1)) :
    Wp E (orGiveUp p unexpected) lr (fun r lr1 => r = v ∧ Adv lr m lr1) := by
  refine Wp.orGiveUp (h.mono ?_)
  intro r lr1 ⟨h1, a1⟩
  subst h1; exact ⟨rfl, a1⟩

/-- `required_node_id` / `required_sort_id` / `required_positive_int`. -/
theorem requiredId_exact (v : Nat) (h0 : 0 < v) (hv : v < 2 ^ 64) {x : UInt8} {tl : VBytes}
    (hr : lr.v.rest = natText v ++ x :: tl) (hx : isDigit x = false) :
    Wp E requiredNodeId lr (fun r lr1 => r = v ∧ Adv lr (natText v).length lr1) :=
  orGiveUp_exact (positiveInt_exact v h0 hv hr hx)

theorem requiredNonneg_exact (v : Nat) (hv : v < 2 ^ 64) {x : UInt8} {tl : VBytes}
    (hr : lr.v.rest = natText v ++ x :: tl) (hx : isDigit x = false) :
    Wp E requiredNonnegativeInt lr (fun r lr1 => r = v ∧ Adv lr (natText v).length lr1) :=
  orGiveUp_exact (nonnegativeInt_exact v hv hr hx)

/-! ### keywords, symbols, comments, constants -/

/-- A keyword token on `kw ++ x :: tl`. -/
theorem keywordToken_exact {τ : Type} (table : VBytes → Option τ) {kw : VBytes} {t : τ} {x : UInt8}
    {tl : VBytes} (hr : lr.v.rest = kw ++ x :: tl) (hkw : kw.all isLower = true) (hx : isLower x = false)
    (ht : table kw = some t) :
    Wp E (keywordToken table) lr (fun r lr1 => r = some t ∧ Adv lr kw.length lr1) := by
  unfold keywordToken lowercaseRun
  refine Wp.bind' (Wp.scanWhileA (Adv.refl lr) isLower hr hkw hx) ?_
  intro off lr1 ⟨ho, a1, r1, p1, k1⟩
  subst ho
  have hle : kw.length ≤ lr1.v.rest.length := by rw [r1, hr]; simp
  refine Wp.bind (Wp.bufPrefixA hle (by rw [p1]; omega) ?_)
  have htake : lr1.v.rest.take kw.length = kw := by rw [r1, hr]; simp
  rw [htake, ht]
  dsimp only
  refine Wp.bind' (Wp.advanceA a1 hle (by rw [p1]; omega)) ?_
  intro _ lr2 a2
  exact Wp.pure ⟨rfl, by simpa using a2⟩

/-- `symbol_name` on a well-formed symbol followed by a space or newline. -/
theorem symbolName_exact {sym : VBytes} {x : UInt8} {tl : VBytes} (hr : lr.v.rest = sym ++ x :: tl)
    (hne : sym ≠ []) (hsym : sym.all (fun b => b != 10 && b != 32) = true) (hx : x = 32 ∨ x = 10) :
    Wp E symbolName lr (fun r lr1 => r = some sym ∧ Adv lr sym.length lr1) := by
  unfold symbolName
  have hx' : (x != 10 && x != 32) = false := by rcases hx with h | h <;> subst h <;> rfl
  refine Wp.bind' (Wp.scanWhileA (Adv.refl lr) _ hr hsym hx') ?_
  intro off lr1 ⟨ho, a1, r1, p1, k1⟩
  subst ho
  have hpos : 0 < sym.length := List.length_pos_iff.mpr hne
  have hne0 : (sym.length == 0) = false := by simp; omega
  simp only [hne0, Bool.false_eq_true, ↓reduceIte]
  have hle : sym.length ≤ lr1.v.rest.length := by rw [r1, hr]; simp
  refine Wp.bind' (Wp.advanceWithBufA a1 hle (by rw [p1]; omega)) ?_
  intro bs lr2 ⟨hb, a2⟩
  have : bs = sym := by rw [hb, r1, hr]; simp
  subst this
  exact Wp.pure ⟨rfl, by simpa using a2⟩

/-- `comment_body` on a comment followed by its newline: the cursor stays on the newline. -/
theorem commentBody_exact {c : VBytes} {tl : VBytes} (hr : lr.v.rest = c ++ 10 :: tl)
    (hc : c.all (· != 10) = true) :
    Wp E commentBody lr (fun r lr1 => r = c ∧ Adv lr c.length lr1) := by
  unfold commentBody
  refine Wp.bind' (Wp.scanWhileA (Adv.refl lr) _ hr hc (by rfl)) ?_
  intro off lr1 ⟨ho, a1, r1, p1, k1⟩
  subst ho
  have hk : c.length < lr1.v.rest.length := by rw [r1, hr]; simp
  refine Wp.bind' (Wp.reqAtA a1 hk) ?_
  intro y lr2 ⟨hy, a2, r2, p2, k2⟩
  have hy' : y.isNone = false := by
    rw [hy, r1, hr]; simp
  simp only [hy', Bool.false_eq_true, ↓reduceIte]
  have hle : c.length ≤ lr2.v.rest.length := by rw [r2]; omega
  refine (Wp.advanceWithBufA a2 hle (by rw [p2]; omega)).mono ?_
  intro bs lr3 ⟨hb, a3⟩
  refine ⟨?_, by simpa using a3⟩
  rw [hb, r2, r1, hr]; simp

/-- `required_*_constant` for a scanner that passes exactly over `s` and demands the byte after. -/
theorem requiredConstant_exact (scanner : View → Nat → Nat × View) {s : VBytes} {x : UInt8} {tl : VBytes}
    (hr : lr.v.rest = s ++ x :: tl) (hne : s ≠ [])
    (hscan : scanner lr.v 0 = (s.length, lr.v.demand s.length)) :
    Wp E (requiredConstant scanner) lr (fun r lr1 => r = s ∧ Adv lr s.length lr1) := by
  unfold requiredConstant
  have hk : s.length < lr.v.rest.length := by rw [hr]; simp
  refine Wp.bind' (Wp.scanA (Adv.refl lr) (f := (scanner · 0)) (k := s.length) (by simp only [hscan]) hk) ?_
  intro off lr1 ⟨ho, a1, r1, p1, k1⟩
  simp only [hscan] at ho
  subst ho
  have hpos : 0 < s.length := List.length_pos_iff.mpr hne
  have hne0 : (s.length == 0) = false := by simp; omega
  simp only [hne0, Bool.false_eq_true, ↓reduceIte]
  have hle : s.length ≤ lr1.v.rest.length := by rw [r1, hr]; simp
  refine (Wp.advanceWithBufA a1 hle (by rw [p1]; omega)).mono ?_
  intro bs lr2 ⟨hb, a2⟩
  refine ⟨?_, by simpa using a2⟩
  rw [hb, r1, hr]; simp

theorem scanWhile_exact (p : UInt8 → Bool) (v : View) {s : VBytes} {x : UInt8} {tl : VBytes}
    (hr : v.rest = s ++ x :: tl) (hs : s.all p = true) (hx : p x = false) :
    scanWhile p v 0 = (s.length, v.demand s.length) := by
  simp only [scanWhile, List.drop_zero, hr, runLen_append p s x tl hs hx, Nat.zero_add]

theorem decimalCharsOk_false (cs : VBytes) : decimalCharsOk false cs = cs.all isDigit := by
  induction cs with
  | nil => rfl
  | cons c cs ih => simp [decimalCharsOk, ih]

/-- `decimal_string` on a string `DecimalConst::try_from` accepts, followed by a non-digit. -/
theorem decimalString_exact (v : View) {s : VBytes} {x : UInt8} {tl : VBytes}
    (hr : v.rest = s ++ x :: tl) (hs : decimalConstOk s = true) (hx : isDigit x = false) :
    decimalString v 0 = (s.length, v.demand s.length) := by
  cases s with
  | nil => simp [decimalConstOk] at hs
  | cons c cs =>
    simp only [decimalConstOk, List.isEmpty_cons, Bool.not_false, Bool.true_and, decimalCharsOk,
      decimalCharsOk_false, Bool.and_eq_true, Bool.or_eq_true, beq_iff_eq] at hs
    obtain ⟨hc, hcs⟩ := hs
    have h0 : 0 < v.rest.length := by rw [hr]; simp
    have hget : v.rest[0]? = some c := by rw [hr]; rfl
    simp only [decimalString, hget]
    by_cases h45 : c = 45
    · subst h45
      simp only [beq_self_eq_true, ↓reduceIte, scanWhile, demand_rest]
      have hd : v.rest.drop (0 + 1) = cs ++ x :: tl := by rw [hr]; rfl
      rw [hd, runLen_append isDigit cs x tl hcs hx, demand_demand v 0 _ h0 (by omega)]
      simp only [List.length_cons]
      rw [show 0 + 1 + cs.length = cs.length + 1 by omega]
    · have hne : (some c == some (45 : UInt8)) = false := by simpa using h45
      have hcd : isDigit c = true := by rcases hc with h | h; exact absurd h h45; exact h
      have hall : (c :: cs).all isDigit = true := by simp [hcd, hcs]
      simp only [hne, Bool.false_eq_true, ↓reduceIte, scanWhile, demand_rest, List.drop_zero]
      rw [hr, runLen_append isDigit (c :: cs) x tl hall hx, demand_demand v 0 _ h0 (by omega)]
      simp

/-! ### `skip_whitespace` in front of a line -/

/-- `skip_whitespace` when the next byte is neither a space nor a newline: nothing is consumed. -/
theorem skipWhitespace_noop {x : UInt8} {tl : VBytes} (hr : lr.v.rest = x :: tl) (h32 : x ≠ 32)
    (h10 : x ≠ 10) : Wp E skipWhitespace lr (fun _ lr1 => Adv lr 0 lr1) := by
  unfold skipWhitespace
  refine Wp.bind (Wp.get ?_)
  have hf : lr.v.rest.length + 2 = (lr.v.rest.length + 1) + 1 := by omega
  rw [hf, skipWsLoop]
  refine Wp.bind (Wp.bind' (Wp.reqAtA (Adv.refl lr) (k := 0) (by rw [hr]; simp)) ?_)
  intro y lr1 ⟨hy, a1, r1, p1, k1⟩
  have hyx : y = some x := by rw [hy, hr]; rfl
  subst hyx
  split
  · rename_i heq; simp only [Option.some.injEq] at heq; exact absurd heq h32
  · rename_i heq; simp only [Option.some.injEq] at heq; exact absurd heq h10
  · refine Wp.pure ?_
    refine (Wp.advanceA a1 (m := 0) (Nat.zero_le _) (by rw [p1]; omega)).mono ?_
    intro _ lr2 a2
    simpa using a2

end Btor2
end Flussab
