/-
C04, prefix clause for the AIGER streaming drive (`Model/AigerRun.lean`): the drive over a source
that delivers `b` and then fails, compared with the drive over the fault-free source `b ++ q`.

`DSim q m m' ds Q` relates the run of the driver program `m` from `ds` (left: failing source)
with the run of `m'` from `dext q ds` (right: the longer fault-free stream; `m'` differs from `m`
only in the fuel of the symbol loop):
* the items of the left run are the first items of the right run;
* once the left reader has seen the end of its data, the left run hands out nothing more;
* the left run does not panic; if it ends in a syntax error, the right run ends in the same
  error with the same items; if it returns with the end of the data unseen, the right run returns
  the same value in the corresponding state.
Per model call (`DSim.step`) this needs: safety of the call (C05/C04: no panic, a syntax error
is raised with `sawEnd = false`), the simulation of `Proof/AigerSimParse.lean`, and — for an item
to be handed out (`DSim.emit`) — `sawEnd = false`, which is the look-ahead bound of C09
(`peeked ≤ pos` when an item is returned) read through `J`.

The safety invariant is `AInv lr` = "`Inv b' true lr` for some ghost input `b'`": in a binary file
the ghost changes from `b` to `mask b s p` at the and-gate block (`Proof/AigerBinSafe.lean`), and
nothing here depends on which input it is.
-/
import Flussab.Model.AigerRun
import Flussab.Proof.AigerSimParse
import Flussab.Proof.AigerLookahead
import Flussab.Proof.AigerBinSafe

namespace Flussab
namespace Aiger
open PM Lines

/-! ### running the driver monad -/

theorem dm_run_bind {α β : Type} (m : DM α) (f : α → DM β) (ds : DS) :
    (m >>= f).run ds = match m.run ds with
      | (.ok a, ds') => (f a).run ds'
      | (.error e, ds') => (.error e, ds') := by
  show (ExceptT.run (m >>= f)) ds = _
  rw [ExceptT.run_bind]
  show (StateT.bind _ _) ds = _
  unfold StateT.bind
  show (match m.run ds with | (a, s) => _) = _
  rcases m.run ds with ⟨_|_, _⟩ <;> rfl

theorem dm_run_pure {α : Type} (a : α) (ds : DS) : (pure a : DM α).run ds = (.ok a, ds) := rfl

theorem dm_run_throw {α : Type} (e : PErr) (ds : DS) :
    (throw e : DM α).run ds = (.error e, ds) := rfl

theorem dm_run_get_bind {β : Type} (g : DS → DM β) (ds : DS) :
    (get >>= g).run ds = (g ds).run ds := rfl

theorem step_run {α : Type} (act : PM α) (ds : DS) :
    (step act).run ds = match act.run ds.lr with
      | (.ok a, lr') => (.ok a, { ds with lr := lr' })
      | (.error e, lr') => (.error e, { ds with lr := lr' }) := by
  unfold step
  rw [dm_run_get_bind]
  rcases act.run ds.lr with ⟨_|_, _⟩ <;> rfl

theorem emitItem_run (i : Item) (ds : DS) :
    (emitItem i).run ds = (.ok (), { ds with items := i :: ds.items }) := rfl

/-! ### the relation -/

/-- The driver state over the longer fault-free stream. -/
def dext (q : VBytes) (ds : DS) : DS := { ds with lr := ext q ds.lr }

/-- A driver program only adds items. -/
def Grows {α : Type} (m : DM α) : Prop :=
  ∀ ds res ds1, m.run ds = (res, ds1) → ds.items <:+ ds1.items

/-- The outcome clause of `DSim`. -/
def Out {α : Type} (q : VBytes) (Q : α → DS → Prop) (ds : DS) (res : Except PErr α) (ds1 : DS)
    (res' : Except PErr α) (ds1' : DS) : Prop :=
  match res with
  | .error (.panic _) => False
  | .error .io => True
  | .error (.syn l c) =>
    ds.lr.v.sawEnd = false ∧ res' = .error (.syn l c) ∧ ds1'.items = ds1.items
  | .ok a => Q a ds1 ∧
    (ds1.lr.v.sawEnd = false → ds.lr.v.sawEnd = false ∧ res' = .ok a ∧ ds1' = dext q ds1)

/-- See the file comment. -/
def DSim {α : Type} (q : VBytes) (m m' : DM α) (ds : DS) (Q : α → DS → Prop) : Prop :=
  ∀ res ds1, m.run ds = (res, ds1) → ∀ res' ds1', m'.run (dext q ds) = (res', ds1') →
    ds1.items <:+ ds1'.items ∧ (ds.lr.v.sawEnd = true → ds1.items = ds.items) ∧
    Out q Q ds res ds1 res' ds1'

variable {α β : Type} {q : VBytes} {ds : DS}

theorem Grows.pure (a : α) : Grows (pure a : DM α) := by
  intro ds res ds1 h
  obtain ⟨_, rfl⟩ := Prod.mk.inj (show ((.ok a : Except PErr α), ds) = (res, ds1) from h)
  exact List.suffix_refl _

theorem Grows.throw (e : PErr) : Grows (throw e : DM α) := by
  intro ds res ds1 h
  obtain ⟨_, rfl⟩ := Prod.mk.inj (show ((.error e : Except PErr α), ds) = (res, ds1) from h)
  exact List.suffix_refl _

theorem Grows.step (act : PM α) : Grows (step act) := by
  intro ds res ds1 h
  rw [step_run] at h
  rcases hm : act.run ds.lr with ⟨e | a, lr1⟩
  all_goals
    rw [hm] at h
    simp only at h
    obtain ⟨_, rfl⟩ := Prod.mk.inj h
    exact List.suffix_refl _

theorem Grows.emit (i : Item) : Grows (emitItem i) := by
  intro ds res ds1 h
  rw [emitItem_run] at h
  obtain ⟨_, rfl⟩ := Prod.mk.inj h
  exact List.suffix_cons _ _

theorem Grows.bind {m : DM α} {f : α → DM β} (hm : Grows m) (hf : ∀ a, Grows (f a)) :
    Grows (m >>= f) := by
  intro ds res ds2 h
  rw [dm_run_bind] at h
  rcases hm1 : m.run ds with ⟨e | a, ds1⟩
  · rw [hm1] at h
    simp only at h
    obtain ⟨_, rfl⟩ := Prod.mk.inj h
    exact hm _ _ _ hm1
  · rw [hm1] at h
    simp only at h
    exact List.IsSuffix.trans (hm _ _ _ hm1) (hf a _ _ _ h)

theorem Grows.get_bind {g : DS → DM β} (h : ∀ s, Grows (g s)) : Grows (get >>= g) := by
  intro ds res ds1 hr
  rw [dm_run_get_bind] at hr
  exact h ds _ _ _ hr

theorem Grows.ite {c : Prop} [Decidable c] {a b : DM α} (ha : Grows a) (hb : Grows b) :
    Grows (if c then a else b) := by
  split
  · exact ha
  · exact hb

theorem Out.mono {Q Q' : α → DS → Prop} {res res' : Except PErr α} {ds1 ds1' : DS}
    (h : Out q Q ds res ds1 res' ds1') (hq : ∀ a d, Q a d → Q' a d) :
    Out q Q' ds res ds1 res' ds1' := by
  unfold Out at *
  cases res with
  | error e => cases e <;> exact h
  | ok a => exact ⟨hq _ _ h.1, h.2⟩

theorem DSim.mono {m m' : DM α} {Q Q' : α → DS → Prop} (h : DSim q m m' ds Q)
    (hq : ∀ a d, Q a d → Q' a d) : DSim q m m' ds Q' := by
  intro res ds1 hr res' ds1' hr'
  obtain ⟨h1, h2, h3⟩ := h res ds1 hr res' ds1' hr'
  exact ⟨h1, h2, h3.mono hq⟩

theorem DSim.pure (a : α) {Q : α → DS → Prop} (h : Q a ds) :
    DSim q (pure a : DM α) (pure a) ds Q := by
  intro res ds1 hr res' ds1' hr'
  obtain ⟨rfl, rfl⟩ := Prod.mk.inj (show ((.ok a : Except PErr α), ds) = (res, ds1) from hr)
  obtain ⟨rfl, rfl⟩ := Prod.mk.inj
    (show ((.ok a : Except PErr α), dext q ds) = (res', ds1') from hr')
  exact ⟨List.suffix_refl _, fun _ => rfl, h, fun hs => ⟨hs, rfl, rfl⟩⟩

theorem DSim.ite {c : Prop} [Decidable c] {a a' b b' : DM α} {Q : α → DS → Prop}
    (ht : c → DSim q a a' ds Q) (hf : ¬ c → DSim q b b' ds Q) :
    DSim q (if c then a else b) (if c then a' else b') ds Q := by
  by_cases h : c
  · simp only [h, ↓reduceIte]; exact ht h
  · simp only [h, ↓reduceIte]; exact hf h

theorem DSim.get_bind {g g' : DS → DM β} {Q : β → DS → Prop}
    (h : DSim q (g ds) (g' (dext q ds)) ds Q) : DSim q (get >>= g) (get >>= g') ds Q := by
  intro res ds1 hr res' ds1' hr'
  rw [dm_run_get_bind] at hr hr'
  exact h res ds1 hr res' ds1' hr'

/-- An item is handed out: only while the end of the data has not been seen. -/
theorem DSim.emit (i : Item) (hs : ds.lr.v.sawEnd = false) :
    DSim q (emitItem i) (emitItem i) ds (fun _ ds1 => ds1 = { ds with items := i :: ds.items }) := by
  intro res ds1 hr res' ds1' hr'
  rw [emitItem_run] at hr hr'
  obtain ⟨rfl, rfl⟩ := Prod.mk.inj hr
  obtain ⟨rfl, rfl⟩ := Prod.mk.inj hr'
  refine ⟨List.suffix_refl _, fun h => ?_, rfl, fun _ => ⟨hs, rfl, rfl⟩⟩
  rw [hs] at h
  exact absurd h (by simp)

theorem DSim.bind {m m' : DM α} {f f' : α → DM β} {Q1 : α → DS → Prop} {Q : β → DS → Prop}
    (hm : DSim q m m' ds Q1) (hf : ∀ a ds1, Q1 a ds1 → DSim q (f a) (f' a) ds1 Q)
    (hg : ∀ a, Grows (f' a)) : DSim q (m >>= f) (m' >>= f') ds Q := by
  intro res ds2 hrun res' ds2' hrun'
  rw [dm_run_bind] at hrun hrun'
  rcases hm1 : m.run ds with ⟨e | a, ds1⟩
  · -- the left run ends in the first part
    rw [hm1] at hrun
    simp only at hrun
    obtain ⟨rfl, rfl⟩ := Prod.mk.inj hrun
    rcases hm1' : m'.run (dext q ds) with ⟨e' | a', ds1'⟩
    · rw [hm1'] at hrun'
      simp only at hrun'
      obtain ⟨rfl, rfl⟩ := Prod.mk.inj hrun'
      obtain ⟨i1, i2, o⟩ := hm _ _ hm1 _ _ hm1'
      refine ⟨i1, i2, ?_⟩
      unfold Out at o ⊢
      cases e with
      | io => trivial
      | panic s => exact o
      | syn l c =>
        obtain ⟨o1, o2, o3⟩ := o
        simp only [Except.error.injEq] at o2
        subst o2
        exact ⟨o1, rfl, o3⟩
    · rw [hm1'] at hrun'
      simp only at hrun'
      obtain ⟨i1, i2, o⟩ := hm _ _ hm1 _ _ hm1'
      refine ⟨List.IsSuffix.trans i1 (hg a' _ _ _ hrun'), i2, ?_⟩
      unfold Out at o ⊢
      cases e with
      | io => trivial
      | panic s => exact o
      | syn l c => exact absurd o.2.1 (by simp)
  · rw [hm1] at hrun
    simp only at hrun
    rcases hm1' : m'.run (dext q ds) with ⟨e' | a', ds1'⟩
    · rw [hm1'] at hrun'
      simp only at hrun'
      obtain ⟨rfl, rfl⟩ := Prod.mk.inj hrun'
      obtain ⟨i1, i2, o⟩ := hm _ _ hm1 _ _ hm1'
      unfold Out at o
      obtain ⟨hq1, himp⟩ := o
      cases hs : ds1.lr.v.sawEnd
      · exact absurd (himp hs).2.1 (by simp)
      · -- the left run has seen the end: it hands out nothing more
        rcases hx : (f' a).run (dext q ds1) with ⟨r2', d2'⟩
        obtain ⟨_, k2, o2⟩ := hf a ds1 hq1 _ _ hrun _ _ hx
        refine ⟨by rw [k2 hs]; exact i1, fun h => by rw [k2 hs]; exact i2 h, ?_⟩
        unfold Out at o2 ⊢
        cases res with
        | error e =>
          cases e with
          | io => trivial
          | panic s => exact o2
          | syn l c => rw [hs] at o2; exact absurd o2.1 (by simp)
        | ok b =>
          refine ⟨o2.1, fun h => ?_⟩
          have := (o2.2 h).1
          rw [hs] at this
          exact absurd this (by simp)
    · rw [hm1'] at hrun'
      simp only at hrun'
      obtain ⟨i1, i2, o⟩ := hm _ _ hm1 _ _ hm1'
      unfold Out at o
      obtain ⟨hq1, himp⟩ := o
      cases hs : ds1.lr.v.sawEnd
      · -- the first part is reproduced by the right run
        obtain ⟨s0, ha, hd⟩ := himp hs
        simp only [Except.ok.injEq] at ha
        subst ha
        subst hd
        obtain ⟨k1, _, o2⟩ := hf a' ds1 hq1 _ _ hrun _ _ hrun'
        refine ⟨k1, fun h => by rw [s0] at h; exact absurd h (by simp), ?_⟩
        unfold Out at o2 ⊢
        cases res with
        | error e =>
          cases e with
          | io => trivial
          | panic s => exact o2
          | syn l c => exact ⟨s0, o2.2⟩
        | ok b => exact ⟨o2.1, fun h => ⟨s0, (o2.2 h).2⟩⟩
      · rcases hx : (f' a).run (dext q ds1) with ⟨r2', d2'⟩
        obtain ⟨_, k2, o2⟩ := hf a ds1 hq1 _ _ hrun _ _ hx
        refine ⟨by rw [k2 hs]; exact List.IsSuffix.trans i1 (hg a' _ _ _ hrun'),
          fun h => by rw [k2 hs]; exact i2 h, ?_⟩
        unfold Out at o2 ⊢
        cases res with
        | error e =>
          cases e with
          | io => trivial
          | panic s => exact o2
          | syn l c => rw [hs] at o2; exact absurd o2.1 (by simp)
        | ok b =>
          refine ⟨o2.1, fun h => ?_⟩
          have := (o2.2 h).1
          rw [hs] at this
          exact absurd this (by simp)

/-! ### one model call -/

/-- The safety invariant with the ghost input abstracted. -/
def AInv (lr : LR) : Prop := ∃ b, Inv b true lr

/-- Error postcondition of a failing source: never a panic, a syntax error is raised before the
end of the data has been seen. -/
def AErr (e : PErr) (lr : LR) : Prop := ∃ b, Err b true e lr

theorem AErr.of_err {b : VBytes} {e : PErr} {lr : LR} (h : Err b true e lr) : AErr e lr := ⟨b, h⟩

theorem AErr.of_errM {b : VBytes} {e : PErr} {lr : LR} (h : ErrM b true e lr) : AErr e lr := by
  obtain ⟨s, p, _, _, he⟩ := h
  exact ⟨_, he⟩

theorem AErr.not_panic {s : String} {lr : LR} (h : AErr (.panic s) lr) : False := by
  obtain ⟨b, h⟩ := h
  exact h.2

theorem AErr.syn_sawEnd {l c : Nat} {lr : LR} (h : AErr (.syn l c) lr) : lr.v.sawEnd = false := by
  obtain ⟨b, h⟩ := h
  exact h.2.2 rfl

theorem wpA {b : VBytes} {m : PM α} {lr : LR} {Q : α → LR → Prop}
    (h : Wp (Err b true) m lr Q) : Wp AErr m lr Q := Wp.monoE h fun _ _ he => AErr.of_err he

theorem wpAM {b : VBytes} {m : PM α} {lr : LR} {Q : α → LR → Prop}
    (h : Wp (ErrM b true) m lr Q) : Wp AErr m lr Q := Wp.monoE h fun _ _ he => AErr.of_errM he

/-- A safety fact and a partial-correctness fact about the same call. -/
theorem wp_and {E : PErr → LR → Prop} {m : PM α} {lr : LR} {Q R : α → LR → Prop}
    (h : Wp E m lr Q) (h' : Wp T m lr R) : Wp E m lr (fun a lr1 => Q a lr1 ∧ R a lr1) := by
  unfold Wp at *
  rcases hm : m.run lr with ⟨e | a, lr1⟩
  · rw [hm] at h; exact h
  · rw [hm] at h h'; exact ⟨h, h'⟩

/-- One model call of the drive. -/
theorem DSim.step {act act' : PM α} {Q0 : α → LR → Prop} (hJ : J ds.lr)
    (hw : Wp AErr act ds.lr Q0) (hc : R2 q act act' ds.lr) :
    DSim q (step act) (step act') ds
      (fun a ds1 => Q0 a ds1.lr ∧ J ds1.lr ∧ ds1.items = ds.items) := by
  intro res ds1 hr res' ds1' hr'
  rw [step_run] at hr hr'
  have hitems : ds1.items = ds.items ∧ ds1'.items = ds.items := by
    constructor
    · rcases hm : act.run ds.lr with ⟨e | a, lr1⟩
      all_goals
        rw [hm] at hr
        simp only at hr
        obtain ⟨_, rfl⟩ := Prod.mk.inj hr
        rfl
    · rcases hm : act'.run (dext q ds).lr with ⟨e | a, lr1⟩
      all_goals
        rw [hm] at hr'
        simp only at hr'
        obtain ⟨_, rfl⟩ := Prod.mk.inj hr'
        rfl
  refine ⟨by rw [hitems.1, hitems.2]; exact List.suffix_refl _, fun _ => hitems.1, ?_⟩
  obtain ⟨wok, werr⟩ := Wp.of_run hw
  rcases hm : act.run ds.lr with ⟨e | a, lr1⟩
  · rw [hm] at hr
    simp only at hr
    obtain ⟨rfl, rfl⟩ := Prod.mk.inj hr
    have he := werr e lr1 hm
    unfold Out
    cases e with
    | io => trivial
    | panic s => exact he.not_panic
    | syn l c =>
      obtain ⟨_, h1⟩ := hc hJ _ _ hm trivial
      obtain ⟨s0, s, hs⟩ := h1 he.syn_sawEnd
      have hs' : act'.run (dext q ds).lr = (.error (.syn l c), s) := hs
      rw [hs'] at hr'
      simp only at hr'
      obtain ⟨rfl, rfl⟩ := Prod.mk.inj hr'
      exact ⟨s0, rfl, rfl⟩
  · rw [hm] at hr
    simp only at hr
    obtain ⟨rfl, rfl⟩ := Prod.mk.inj hr
    obtain ⟨j1, h1⟩ := hc hJ _ _ hm trivial
    unfold Out
    refine ⟨⟨wok a lr1 hm, j1, rfl⟩, fun hs => ?_⟩
    obtain ⟨s0, ha⟩ := h1 hs
    have ha' : act'.run (dext q ds).lr = (.ok a, ext q lr1) := ha
    rw [ha'] at hr'
    simp only at hr'
    obtain ⟨rfl, rfl⟩ := Prod.mk.inj hr'
    exact ⟨s0, rfl, rfl⟩

end Aiger
end Flussab
