/-
Basic facts used by the BTOR2 proofs: the view under `demand` (two views that differ only in the
look-ahead ghost), and runs of bytes satisfying a predicate (`Text.runLen`, `scanWhile`).
-/
import Flussab.Model.Btor2Token

namespace Flussab.Btor2
open Flussab Flussab.Text

/-! ### the view under `demand` -/

theorem demand_rest (v : View) (k : Nat) : (v.demand k).rest = v.rest := by
  unfold View.demand; dsimp only; split <;> rfl

theorem demand_pos (v : View) (k : Nat) : (v.demand k).pos = v.pos := by
  unfold View.demand; dsimp only; split <;> rfl

theorem demand_of_lt (v : View) (k : Nat) (h : k < v.rest.length) :
    v.demand k = { v with peeked := max v.peeked (v.pos + k + 1) } := by
  unfold View.demand; dsimp only; simp [h]

/-- Demanding an existing byte and then a later one is demanding the later one. -/
theorem demand_demand (v : View) (a b : Nat) (ha : a < v.rest.length) (hab : a ≤ b) :
    (v.demand a).demand b = v.demand b := by
  rw [demand_of_lt v a ha]
  unfold View.demand; dsimp only
  have hm : max (max v.peeked (v.pos + a + 1)) (v.pos + b + 1) = max v.peeked (v.pos + b + 1) := by omega
  rw [hm]

/-- Two views that differ at most in the look-ahead ghost `peeked`. -/
structure SameButPeek (a b : View) : Prop where
  rest : a.rest = b.rest
  fault : a.fault = b.fault
  sawEnd : a.sawEnd = b.sawEnd
  ioErr : a.ioErr = b.ioErr
  pos : a.pos = b.pos
  mark : a.mark = b.mark

theorem SameButPeek.refl (a : View) : SameButPeek a a := ⟨rfl, rfl, rfl, rfl, rfl, rfl⟩

theorem SameButPeek.trans {a b c : View} (h1 : SameButPeek a b) (h2 : SameButPeek b c) : SameButPeek a c :=
  ⟨h1.rest.trans h2.rest, h1.fault.trans h2.fault, h1.sawEnd.trans h2.sawEnd, h1.ioErr.trans h2.ioErr,
   h1.pos.trans h2.pos, h1.mark.trans h2.mark⟩

theorem demand_of_ge (v : View) (k : Nat) (h : ¬ k < v.rest.length) :
    v.demand k = { v with peeked := max v.peeked (v.pos + k + 1), sawEnd := true,
                          ioErr := v.ioErr || (v.fault && !v.sawEnd) } := by
  unfold View.demand; dsimp only; simp [h]

theorem SameButPeek.demand {a b : View} (h : SameButPeek a b) (k : Nat) :
    SameButPeek (a.demand k) (b.demand k) := by
  by_cases hk : k < a.rest.length
  · rw [demand_of_lt a k hk, demand_of_lt b k (h.rest ▸ hk)]
    exact ⟨h.rest, h.fault, h.sawEnd, h.ioErr, h.pos, h.mark⟩
  · rw [demand_of_ge a k hk, demand_of_ge b k (h.rest ▸ hk)]
    refine ⟨h.rest, h.fault, rfl, ?_, h.pos, h.mark⟩
    show (a.ioErr || (a.fault && !a.sawEnd)) = (b.ioErr || (b.fault && !b.sawEnd))
    rw [h.ioErr, h.fault, h.sawEnd]

theorem demand_peeked (v : View) (k : Nat) : (v.demand k).peeked = max v.peeked (v.pos + k + 1) := by
  unfold View.demand; dsimp only; split <;> rfl

theorem sameButPeek_of_lt (v : View) (k : Nat) (h : k < v.rest.length) : SameButPeek (v.demand k) v := by
  rw [demand_of_lt v k h]; exact ⟨rfl, rfl, rfl, rfl, rfl, rfl⟩

/-! ### runs -/

theorem runLen_eq_takeWhile (p : UInt8 → Bool) (l : VBytes) : runLen p l = (l.takeWhile p).length := by
  induction l with
  | nil => rfl
  | cons x xs ih =>
    by_cases hp : p x = true
    · simp [runLen, List.takeWhile, hp, ih]
    · simp [runLen, List.takeWhile, hp]

theorem runLen_le (p : UInt8 → Bool) (l : VBytes) : runLen p l ≤ l.length := by
  induction l with
  | nil => simp [runLen]
  | cons x xs ih => simp only [runLen]; split <;> simp <;> omega

theorem takeWhile_take_length (p : UInt8 → Bool) (l : VBytes) (k : Nat) :
    ((l.take k).takeWhile p).length = min (runLen p l) k := by
  induction l generalizing k with
  | nil => simp [runLen]
  | cons x xs ih =>
    cases k with
    | zero => simp
    | succ k =>
      by_cases hp : p x = true
      · simp only [List.take_succ_cons, List.takeWhile, runLen, hp, ↓reduceIte, List.length_cons, ih k]; omega
      · simp [List.take_succ_cons, List.takeWhile, runLen, hp]

/-- The run at `j` in terms of the byte at `j`. -/
theorem runLen_drop_cases (p : UInt8 → Bool) (l : VBytes) (j : Nat) :
    (l[j]? = none → runLen p (l.drop j) = 0) ∧
    (∀ c, l[j]? = some c → p c = false → runLen p (l.drop j) = 0) ∧
    (∀ c, l[j]? = some c → p c = true → runLen p (l.drop j) = runLen p (l.drop (j + 1)) + 1 ∧ j < l.length) := by
  refine ⟨?_, ?_, ?_⟩
  · intro h
    have : l.length ≤ j := List.getElem?_eq_none_iff.mp h
    rw [List.drop_eq_nil_of_le this]; rfl
  · intro c h hp
    obtain ⟨hlt, hc⟩ := List.getElem?_eq_some_iff.mp h
    rw [List.drop_eq_getElem_cons hlt, hc]; simp [runLen, hp]
  · intro c h hp
    obtain ⟨hlt, hc⟩ := List.getElem?_eq_some_iff.mp h
    rw [List.drop_eq_getElem_cons hlt, hc]; simp [runLen, hp, hlt]

/-- Skipping 8 bytes of a run of at least 8. -/
theorem runLen_drop_add (p : UInt8 → Bool) (l : VBytes) (j k : Nat) (h : k ≤ runLen p (l.drop j)) :
    runLen p (l.drop (j + k)) = runLen p (l.drop j) - k := by
  induction k generalizing j with
  | zero => simp
  | succ k ih =>
    obtain ⟨h1, h2, h3⟩ := runLen_drop_cases p l j
    cases hj : l[j]? with
    | none => rw [h1 hj] at h; omega
    | some c =>
      cases hp : p c with
      | false => rw [h2 c hj hp] at h; omega
      | true =>
        obtain ⟨e, _⟩ := h3 c hj hp
        have := ih (j + 1) (by omega)
        rw [show j + (k + 1) = j + 1 + k by omega, this, e]; omega

/-- The byte that ends a run does not satisfy the predicate. -/
theorem takeWhile_stop (p : UInt8 → Bool) (l : VBytes) (x : UInt8)
    (h : l[(l.takeWhile p).length]? = some x) : p x = false := by
  induction l with
  | nil => simp at h
  | cons y ys ih =>
    by_cases hp : p y = true
    · simp only [List.takeWhile, hp, List.length_cons, List.getElem?_cons_succ] at h
      exact ih h
    · have hp' : p y = false := by simpa using hp
      simp only [List.takeWhile, hp', List.length_nil, List.getElem?_cons_zero, Option.some.injEq] at h
      rw [← h]; exact hp'

theorem takeWhile_stop_drop (p : UInt8 → Bool) (l : VBytes) (off : Nat) (x : UInt8)
    (h : l[off + ((l.drop off).takeWhile p).length]? = some x) : p x = false := by
  apply takeWhile_stop p (l.drop off) x
  rw [List.getElem?_drop]; exact h

end Flussab.Btor2
