/-
Proofs of the tie between the generated streaming WCNF parser (`Gen/WcnfParserGen.lean`, from
`flussab-cnf/src/wcnf.rs`, `impl Parser`) and `Model/Cnf.lean` (format `.wcnf`).  Statements:
`Props/TieWcnfParser.lean`.

Same method as `Proof/TieCnfParser.lean` (whose state-level lemmas `ppm_bind_apply`, `tok_apply`, `tok_bind`,
`tok_orGiveUp`, `unexpected_err`, the progress lemmas `prog_m_*` and the record correspondence `ofModel` are
reused): the generated code runs in `PPM = StateT Cnf.ParserS PM`; both sides are run on a state and split on
the outcome of each token.  New compared to plain CNF: the header has the third number `top_weight`
(`uint_count::<u64>`), and the clause alternative starts with the weight (`uint_count::<u64>`; its fall-through
consumes nothing: `Cnf.uintCount_la`), followed by `non_terminating_linebreaks`, the literals and the end of
line inside the `and_also` closure.

Kernel cost: `simp` must not rewrite under the `have x := t2` that the generated closure contains
(`token::non_terminating_linebreaks(input)?;` discards its value): the proof term makes the kernel time out.  The
closure is therefore run separately (`closG_run`: first step by `rw`, then `dsimp only` removes the `have`), and
`nc_loop` replaces the run of the closure by `rw [hrun]` instead of simplifying through it.
-/
import Flussab.Gen.WcnfParserGen
import Flussab.Proof.TieCnfParser

set_option linter.unusedSimpArgs false

namespace Flussab
namespace TieWcnfParserAux
open PM CnfParserExt TieCnfTokenAux TieCnfParserAux

variable {α β : Type}

theorem hdr_step (l : Cnf.LitTy) (f : Nat) (s : Cnf.ParserS) (lr : LR) :
    Gen.WcnfParser.parseHeader.loop1 l (f + 1) () s lr =
      (tok («matches» Cnf.comment) >>= fun c =>
        if c = true then Gen.WcnfParser.parseHeader.loop1 l f ()
        else tok («matches» Cnf.newline) >>= fun c2 =>
          if c2 = true then Gen.WcnfParser.parseHeader.loop1 l f () else pure (Ctl.brk ())) s lr := by
  rw [Gen.WcnfParser.parseHeader.loop1]
  simp only [ppm_bind_apply, tok_apply, «matches», PM.bind_apply, pure_apply]
  rcases Cnf.comment lr with ⟨_ | o, lr1⟩
  · rfl
  · rcases o with _ | u
    · simp only [Option.isSome_none, Bool.false_eq_true, if_false, ppm_bind_apply, tok_apply, PM.bind_apply, pure_apply]
      rcases Cnf.newline lr1 with ⟨_ | o2, lr2⟩
      · rfl
      · rcases o2 with _ | u2
        · rfl
        · rfl
    · rfl

theorem hdr_loop (l : Cnf.LitTy) (fuel : Nat) : ∀ (s : Cnf.ParserS) (lr : LR), lr.v.rest.length < fuel →
    Gen.WcnfParser.parseHeader.loop1 l fuel () s lr =
      (tok (Cnf.headerSkipLoop fuel) >>= fun _ => (pure (Ctl.brk ()) : PPM (Ctl Unit (Option Cnf.Header)))) s lr := by
  induction fuel with
  | zero => intro s lr h; omega
  | succ fuel ih =>
    intro s lr hf
    rw [hdr_step, Cnf.headerSkipLoop]
    simp only [ppm_bind_apply, tok_apply, PM.bind_apply]
    have hp := (Wp.of_run (prog_m_comment' lr)).1
    cases hm : «matches» Cnf.comment lr with
    | mk r lr1 =>
      cases r with
      | error e => rfl
      | ok c =>
        cases c with
        | true =>
          have := (hp true lr1 hm).1 rfl
          have h2 := ih s lr1 (by omega)
          simp only [if_true]
          rw [h2]
          simp only [ppm_bind_apply, tok_apply]
        | false =>
          have e1 := (hp false lr1 hm).2 rfl
          simp only [Bool.false_eq_true, if_false, ppm_bind_apply, tok_apply, PM.bind_apply]
          have hp2 := (Wp.of_run (prog_m_newline lr1)).1
          cases hm2 : «matches» Cnf.newline lr1 with
          | mk r2 lr2 =>
            cases r2 with
            | error e => rfl
            | ok c2 =>
              cases c2 with
              | true =>
                have := (hp2 true lr2 hm2).1 rfl
                rw [e1] at this
                have h2 := ih s lr2 (by omega)
                simp only [if_true]
                rw [h2]
                simp only [ppm_bind_apply, tok_apply]
              | false => rfl

theorem header_tail (l : Cnf.LitTy) :
    (tok (Cnf.word [112]) >>= fun t5 =>
        andThen t5 fun _ => do
          let t6 ← tok (Cnf.word [119, 99, 110, 102])
          CnfParserExt.orGiveUp t6 (tok Cnf.unexpected)
          let t8 ← tok (Cnf.varCount l)
          let t9 ← CnfParserExt.orGiveUp t8 (tok Cnf.unexpected)
          let t10 ← tok (Cnf.uintCount Cnf.usizeTy)
          let t11 ← CnfParserExt.orGiveUp t10 (tok Cnf.unexpected)
          let t12 ← tok (Cnf.uintCount Cnf.u64Ty)
          let t13 ← CnfParserExt.orGiveUp t12 (tok Cnf.unexpected)
          let t14 ← tok Cnf.interactiveEndOfLine
          CnfParserExt.orGiveUp t14 (tok Cnf.unexpected)
          pure ({ varCount := t9, clauseCount := t11, extra := t13 } : Cnf.Header)) =
      tok (do
        match ← Cnf.word [112] with
        | none => pure none
        | some () =>
          PM.orGiveUp (Cnf.word (Cnf.keyword .wcnf)) Cnf.unexpected
          let varCount ← PM.orGiveUp (Cnf.varCount l) Cnf.unexpected
          let clauseCount ← PM.orGiveUp (Cnf.uintCount Cnf.usizeTy) Cnf.unexpected
          let extra ← PM.orGiveUp (Cnf.uintCount Cnf.u64Ty) Cnf.unexpected
          PM.orGiveUp Cnf.interactiveEndOfLine Cnf.unexpected
          pure (some ({ varCount, clauseCount, extra } : Cnf.Header))) := by
  rw [tok_bind]
  congr 1; funext o
  cases o with
  | none => exact (tok_pure _).symm
  | some u =>
    simp only [CnfParserExt.andThen, tok_bind, tok_orGiveUp, tok_pure, bind_assoc, pure_bind, Cnf.keyword]

theorem parseHeader_eq (l : Cnf.LitTy) : Gen.WcnfParser.parseHeader l = tok (Cnf.parseHeader .wcnf l) := by
  funext s lr
  unfold Gen.WcnfParser.parseHeader Cnf.parseHeader
  simp only [ppm_bind_apply, tok_apply, PM.bind_apply, getLR_apply', TieCnfTokenAux.get_apply]
  rcases Cnf.skipWhitespace lr with ⟨_ | u, lr1⟩
  · rfl
  · simp only []
    rw [hdr_loop l _ s lr1 (by omega)]
    simp only [ppm_bind_apply, tok_apply, PM.bind_apply]
    rcases Cnf.headerSkipLoop (lr1.v.rest.length + 1) lr1 with ⟨_ | u2, lr2⟩
    · rfl
    · simp only [ppm_pure_apply]
      have h := congrFun (congrFun (header_tail l) s) lr2
      rw [tok_apply, PM.bind_apply] at h
      exact h

theorem new_eq (l : Cnf.LitTy) (hl : l.bits ≤ 64) (cfg : Cnf.Config) (s0 : Cnf.ParserS) :
    (Gen.WcnfParser.new l cfg).run s0 =
      (Cnf.Parser.new .wcnf l cfg.ignoreHeader >>= fun p =>
        pure (ofModel p (hardAfterNew cfg.ignoreHeader p) [], ofModel p (hardAfterNew cfg.ignoreHeader p) [])) := by
  funext lr
  show Gen.WcnfParser.new l cfg s0 lr = _
  unfold Gen.WcnfParser.new Cnf.Parser.new
  rw [parseHeader_eq]
  simp only [ppm_bind_apply, tok_apply, PM.bind_apply, setP_apply]
  have hret := CnfP.parseHeader_ret .wcnf l lr
  rcases hrun : Cnf.parseHeader .wcnf l lr with ⟨_ | o, lr1⟩
  · rfl
  · rcases o with _ | h
    · rfl
    · have hwf := hret (some h) lr1 hrun h rfl
      obtain ⟨h0, h1, h2, h3, h4⟩ := hwf
      have hm := Flussab.CnfP.maxDimacs_le l hl
      have hu : CnfParserExt.usizeAsIsize h.varCount = h.varCount := usizeAsIsize_small _ (by omega)
      simp only [hu]
      rcases cfg with ⟨ign⟩
      cases ign with
      | true => rfl
      | false =>
        have hvb : (h.varCount == 0) = decide (h.varCount = 0) := by
          by_cases hv : h.varCount = 0 <;> simp [hv]
        have hg : (Cnf.Format.wcnf == Cnf.Format.gcnf) = false := rfl
        by_cases hv : h.varCount = 0 <;> by_cases hc : h.clauseCount = 0 <;>
          simp [hv, hc, hvb, hg, ppm_bind_apply, modifyP_apply, getP_apply, ofModel, hardAfterNew, pure_apply]

/-! ### `next_clause` -/

abbrev NC := Ctl Unit (Option (Int × List Int))

/-- The value `next_clause` hands out for a clause of the model: `(weight, literals)`. -/
def outOf (c : Cnf.Clause) : Int × List Int := (c.tag, c.lits)

/-- What the generated loop returns for a result of the model's loop. -/
def ncOut (hard : Bool) (buf : List Int) (r : Except PErr ((Option Cnf.Clause × Cnf.Parser)) × LR) :
    Except PErr (NC × Cnf.ParserS) × LR :=
  match r with
  | (.ok (c, p'), lr') =>
    (.ok (Ctl.ret (c.map outOf), ofModel p' hard (match c with | some c => c.lits | none => buf)), lr')
  | (.error e, lr') => (.error e, lr')

/-- The part of an iteration after the clause alternative fell through (generated code). -/
def restG (l : Cnf.LitTy) (f : Nat) : PPM NC := do
  let t6 ← tok Cnf.comment
  if t6.isSome = true then Gen.WcnfParser.nextClause.loop1 l f ()
    else do
      let t7 ← tok Cnf.newline
      if t7.isSome = true then Gen.WcnfParser.nextClause.loop1 l f ()
        else do
          let s1 ← getP
          let s2 ← getP
          let s3 ← getP
          if (!s1.clauseLimitActive || decide ((s2.clauseCount : Int) ≥ s3.clauseLimit)) = true then do
              let t8 ← tok Cnf.eof
              let t9 ← pure t8.isSome
              if t9 = true then pure (Ctl.ret none) else tok Cnf.unexpected
            else do
              let t9 ← pure false
              if t9 = true then pure (Ctl.ret none) else tok Cnf.unexpected

theorem rest_eq (p : Cnf.Parser) (hard : Bool) (buf : List Int) (f : Nat)
    (ih : ∀ lr : LR, lr.v.rest.length < f →
      Gen.WcnfParser.nextClause.loop1 p.lit f () (ofModel p hard buf) lr = ncOut hard buf (Cnf.nextClauseLoop p f lr))
    (lr : LR) (hf : lr.v.rest.length < f + 1) :
    restG p.lit f (ofModel p hard buf) lr = ncOut hard buf (restM p f lr) := by
  unfold restG restM «matches»
  simp only [ppm_bind_apply, tok_apply, PM.bind_apply, pure_apply]
  have hp := (Wp.of_run (prog_comment lr)).1
  rcases hm : Cnf.comment lr with ⟨_ | o, lr1⟩
  · rfl
  · have hp1 := hp o lr1 hm
    cases o with
    | some u =>
      have := hp1.1 rfl
      simp only [Option.isSome_some, if_true]
      exact ih lr1 (by omega)
    | none =>
      have e1 := hp1.2 rfl
      simp only [Option.isSome_none, Bool.false_eq_true, if_false, ppm_bind_apply, tok_apply, PM.bind_apply, pure_apply]
      have hp2 := (Wp.of_run (prog_newline lr1)).1
      rcases hm2 : Cnf.newline lr1 with ⟨_ | o2, lr2⟩
      · rfl
      · have hp3 := hp2 o2 lr2 hm2
        cases o2 with
        | some u =>
          have := hp3.1 rfl
          rw [e1] at this
          simp only [Option.isSome_some, if_true]
          exact ih lr2 (by omega)
        | none =>
          simp only [Option.isSome_none, Bool.false_eq_true, if_false, ppm_bind_apply, getP_apply, ofModel]
          by_cases hme : (!p.clauseLimitActive || decide ((p.clauseCount : Int) ≥ p.clauseLimit)) = true
          · simp only [hme, if_true, ppm_bind_apply, tok_apply, PM.bind_apply, pure_apply]
            rcases Cnf.eof lr2 with ⟨_ | o3, lr3⟩
            · rfl
            · cases o3 with
              | some u => rfl
              | none =>
                simp only [Option.isSome_none, Bool.false_eq_true, if_false, ppm_pure_apply, tok_apply]
                obtain ⟨e, lr4, hu⟩ := unexpected_err lr3
                rw [hu, hu]; rfl
          · simp only [hme, Bool.false_eq_true, if_false, ppm_bind_apply, ppm_pure_apply, tok_apply]
            obtain ⟨e, lr4, hu⟩ := unexpected_err lr2
            rw [hu, hu]; rfl

/-- The `and_also` closure of `next_clause` (text of the generated code). -/
def closG (l : Cnf.LitTy) : PPM Unit := do
  let t2 ← CnfParserExt.tok (Cnf.nonTerminatingLinebreaks)
  let _ := t2
  let t3 ← CnfParserExt.clauseLits l ((← CnfParserExt.getP).litLimit) ((← CnfParserExt.getP).litLimitIsHard)
  let t4 ← CnfParserExt.orGiveUp t3 do
    CnfParserExt.tok Cnf.unexpected
  let t5 ← CnfParserExt.tok (Cnf.interactiveEndOfLine)
  let t6 ← CnfParserExt.orGiveUp t5 do
    CnfParserExt.tok Cnf.unexpected
  pure t6

/-- The same part of the model's `clauseAlt`. -/
def closM (p : Cnf.Parser) : PM (List Int) := do
  let _ ← Cnf.nonTerminatingLinebreaks
  let lits ← PM.orGiveUp (Cnf.clauseLits p.lit p.litLimit) Cnf.unexpected
  PM.orGiveUp Cnf.interactiveEndOfLine Cnf.unexpected
  pure lits

theorem closG_run (p : Cnf.Parser) (hard : Bool) (buf : List Int) (lr : LR) :
    closG p.lit (ofModel p hard buf) lr =
      match closM p lr with
      | (.ok lits, lr') => (.ok ((), ofModel p hard lits), lr')
      | (.error e, lr') => (.error e, lr') := by
  unfold closG closM CnfParserExt.clauseLits PM.orGiveUp
  rw [ppm_bind_apply, tok_apply, PM.bind_apply]
  rcases Cnf.nonTerminatingLinebreaks lr with ⟨_ | b, lr2⟩
  · rfl
  · have hl : (ofModel p hard buf).litLimit = p.litLimit := rfl
    dsimp only
    simp only [getP_apply, hl, ppm_bind_apply, tok_apply, PM.bind_apply]
    rcases Cnf.clauseLits p.lit p.litLimit lr2 with ⟨_ | o, lr3⟩
    · rfl
    · cases o with
      | none =>
        obtain ⟨e, lr4, hu⟩ := unexpected_err lr3
        simp only [ppm_pure_apply, CnfParserExt.orGiveUp, tok_apply, hu]
      | some lits =>
        simp only [ppm_bind_apply, modifyP_apply, ppm_pure_apply, CnfParserExt.orGiveUp, tok_apply,
          PM.bind_apply, pure_apply]
        rcases Cnf.interactiveEndOfLine lr3 with ⟨_ | o2, lr4⟩
        · rfl
        · cases o2 with
          | some u => rfl
          | none =>
            obtain ⟨e, lr5, hu⟩ := unexpected_err lr4
            simp only [tok_apply, hu]

/-- Continuation after a `PPM Unit` step that was run. -/
def contK {β : Type} (r : Except PErr (Unit × Cnf.ParserS) × LR) (k : PPM β) : Except PErr (β × Cnf.ParserS) × LR :=
  match r with
  | (.ok (_, s'), lr') => k s' lr'
  | (.error e, lr') => (.error e, lr')

theorem andAlso_some (w : Int) (c : Int → PPM Unit) :
    CnfParserExt.andAlso (some w) c = (c w >>= fun _ => pure (some w)) := rfl

/-- The model's clause alternative for WCNF, with the part after the weight as `closM`. -/
theorem clauseAlt_wcnf (p : Cnf.Parser) (hfmt : p.fmt = .wcnf) :
    Cnf.clauseAlt p = (Cnf.uintCount Cnf.u64Ty >>= fun o =>
      match o with
      | none => pure none
      | some w => closM p >>= fun lits => pure (some ({ tag := w, lits } : Cnf.Clause))) := by
  unfold Cnf.clauseAlt closM
  simp only [hfmt]
  congr 1; funext o
  cases o with
  | none => rfl
  | some w => simp only [bind_assoc, pure_bind]

theorem nc_loop (p : Cnf.Parser) (hfmt : p.fmt = .wcnf) (hard : Bool) (buf : List Int) (fuel : Nat) :
    ∀ lr : LR, lr.v.rest.length < fuel →
      Gen.WcnfParser.nextClause.loop1 p.lit fuel () (ofModel p hard buf) lr =
        ncOut hard buf (Cnf.nextClauseLoop p fuel lr) := by
  induction fuel with
  | zero => intro lr h; omega
  | succ f ih =>
    intro lr hf
    rw [Gen.WcnfParser.nextClause.loop1, Cnf.nextClauseLoop, clauseAlt_wcnf p hfmt]
    simp only [ppm_bind_apply, getP_apply, PM.bind_apply]
    by_cases hc : (((p.clauseCount : Int) != p.clauseLimit) || !p.clauseLimitActive) = true
    · have hc' : (((ofModel p hard buf).clauseCount : Int) != (ofModel p hard buf).clauseLimit ||
          !(ofModel p hard buf).clauseLimitActive) = true := hc
      simp only [hc, hc', if_true, ppm_bind_apply, getP_apply]
      simp only [tok_apply, PM.bind_apply]
      have hla := (Wp.of_run (Cnf.uintCount_la (lr := lr) Cnf.u64Ty)).1
      rcases hm : Cnf.uintCount Cnf.u64Ty lr with ⟨_ | o, lr1⟩
      · rfl
      · have h1 := hla o lr1 hm
        cases o with
        | none =>
          have e1 := (h1.2 rfl).1.rest
          have := rest_eq p hard buf f ih lr1 (by rw [e1]; exact hf)
          simp only [ppm_pure_apply, CnfParserExt.andAlso, Option.isSome_none, Bool.false_eq_true, if_false, pure_apply]
          exact this
        | some w =>
          have hrun := closG_run p hard buf lr1
          unfold closG at hrun
          dsimp only at hrun ⊢
          rw [andAlso_some, ppm_bind_apply]
          rw [hrun, PM.bind_apply]
          rcases closM p lr1 with ⟨_ | lits, lr2⟩
          · rfl
          · rfl
    · have hc' : ¬ (((ofModel p hard buf).clauseCount : Int) != (ofModel p hard buf).clauseLimit ||
          !(ofModel p hard buf).clauseLimitActive) = true := hc
      simp only [hc, hc', if_false, pure_apply]
      exact rest_eq p hard buf f ih lr hf


/-- `Gen.WcnfParser.nextClause` with the fuel expression abstracted (so that no proof step can make the kernel
unfold the fuelled loops at `rest.length + 2`). -/
def nextClauseG (l : Cnf.LitTy) (fuelOf : LR → Nat) : PPM (Option (Int × List Int)) := do
  CnfParserExt.modifyP fun r => { r with litBuf := [] }
  CnfParserExt.tok (Cnf.skipWhitespace)
  let r10 ← Gen.WcnfParser.nextClause.loop1 l (fuelOf (← CnfParserExt.getLR)) ()
  match r10 with
  | Ctl.ret v => pure v
  | Ctl.fuel => (CnfParserExt.tok (PM.rpanic "generated"))
  | Ctl.brk _ => (CnfParserExt.tok (PM.rpanic "generated"))

theorem nextClauseG_eq (p : Cnf.Parser) (hfmt : p.fmt = .wcnf) (hard : Bool) (buf : List Int)
    (fuelOf : LR → Nat) (hfuel : ∀ lr : LR, lr.v.rest.length < fuelOf lr) :
    (nextClauseG p.lit fuelOf).run (ofModel p hard buf) =
      (nextClauseM p fuelOf >>= fun r => pure (r.1.map outOf, ofModel r.2 hard (litsOf r.1))) := by
  funext lr
  show nextClauseG p.lit fuelOf (ofModel p hard buf) lr = _
  unfold nextClauseG nextClauseM
  simp only [ppm_bind_apply, modifyP_apply, tok_apply, PM.bind_apply, getLR_apply', TieCnfTokenAux.get_apply]
  rcases Cnf.skipWhitespace lr with ⟨_ | u, lr1⟩
  · rfl
  · simp only []
    have h := nc_loop p hfmt hard [] (fuelOf lr1) lr1 (hfuel lr1)
    have e : ({ ofModel p hard buf with litBuf := [] } : Cnf.ParserS) = ofModel p hard [] := rfl
    rw [e, h]
    rcases Cnf.nextClauseLoop p (fuelOf lr1) lr1 with ⟨_ | ⟨c, p'⟩, lr2⟩
    · rfl
    · cases c <;> rfl

theorem nextClause_eq (p : Cnf.Parser) (hfmt : p.fmt = .wcnf) (hard : Bool) (buf : List Int) :
    (Gen.WcnfParser.nextClause p.lit).run (ofModel p hard buf) =
      (Cnf.Parser.nextClause p >>= fun r => pure (r.1.map outOf, ofModel r.2 hard (litsOf r.1))) :=
  nextClauseG_eq p hfmt hard buf (fun lr => lr.v.rest.length + 2) (fun lr => by omega)

end TieWcnfParserAux
end Flussab
