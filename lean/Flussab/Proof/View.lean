/-
Refinement L1 → L1': every `DeferredReader` (any read schedule, chunk size, buffer layout) over a
given stream answers the parser-facing operations exactly like the abstract `View` does.
-/
import Flussab.Model.View
import Flussab.Proof.ReaderOps

namespace Flussab

/-- The reader `r` is a concrete state of the view `v`. -/
structure Rel (r : Reader) (v : View) : Prop where
  ok : r.Ok
  honest : r.src.Honest
  rest : v.rest = r.rest
  fault : v.fault = r.src.fault
  sawEnd : v.sawEnd = r.complete
  ioErr : v.ioErr = r.ioError
  pos : v.pos = r.position
  mark : v.mark = r.mark
  /-- everything the view regards as demanded is buffered -/
  buffered : v.demanded ≤ r.validLen

namespace Rel
open Reader

theorem validLen_le_rest {r : Reader} (h : r.Ok) : r.validLen ≤ r.rest.length := by
  rw [← h.window_length]; exact (window_le_rest r).length_le

/-- `request_byte_at_offset(k)`: same answer, related states again. -/
theorem reqAt {r : Reader} {v : View} (h : Rel r v) (k : Nat) :
    (r.requestByteAt k).1 = some (v.reqAt k).1 ∧ Rel (r.requestByteAt k).2 (v.reqAt k).2 := by
  obtain ⟨r', bs, e, ok, g, h1, h2, h3, h4, h5⟩ := requestByteAt_spec r h.ok h.honest k
  rw [e]
  refine ⟨by simp [View.reqAt, h.rest], ?_⟩
  simp only [View.reqAt, View.demand]
  have hvl := validLen_le_rest ok
  rw [g.rest] at hvl
  by_cases hk : k < v.rest.length
  · -- the byte exists: the reader did not hit the end
    have hk' : k < r.rest.length := by rw [← h.rest]; exact hk
    have hc : r'.complete = r.complete := by
      rcases h5 with h5 | h5
      · exact h5
      · rcases h2 with h2 | ⟨_, h2⟩ <;> omega
    have hv : k < r'.validLen := by
      rcases h2 with h2 | ⟨_, h2⟩
      · exact h2
      · omega
    simp only [hk, ↓reduceIte]
    exact { ok := ok, honest := g.honest h.honest, rest := by simp [h.rest, g.rest],
            fault := by simp [h.fault, g.fault], sawEnd := by simp [h.sawEnd, hc],
            ioErr := by simp only [h.ioErr, g.ioError, hc]; cases r.ioError <;> cases r.src.fault <;> cases r.complete <;> rfl,
            pos := by simp [h.pos, g.position], mark := by simp [h.mark, g.mark],
            buffered := by
              have hb := h.buffered
              have hgv := g.validLen
              simp only [View.demanded] at hb ⊢
              rw [h.rest] at hb hk ⊢
              omega }
  · have hk' : r.rest.length ≤ k := by rw [← h.rest]; omega
    have hc : r'.complete = true := by
      rcases h2 with h2 | ⟨h2, _⟩
      · omega
      · exact h2
    have hall : r'.validLen = r.rest.length := by
      rw [← g.rest, ok.complete_rest hc, ok.window_length]
    simp only [hk, ↓reduceIte]
    exact { ok := ok, honest := g.honest h.honest, rest := by simp [h.rest, g.rest],
            fault := by simp [h.fault, g.fault], sawEnd := by simp [hc],
            ioErr := by
              simp only [h.ioErr, h.fault, h.sawEnd, g.ioError, hc]
              cases r.ioError <;> cases r.src.fault <;> cases r.complete <;> rfl,
            pos := by simp [h.pos, g.position], mark := by simp [h.mark, g.mark],
            buffered := by
              simp only [View.demanded]
              rw [hall, h.rest]; omega }

/-- `advance(n)` for an `n` the view regards as demanded: no panic, related states. -/
theorem advance {r : Reader} {v v' : View} (h : Rel r v) (n : Nat) (hv : v.advance n = some v') :
    ∃ r', r.advance n = (some (), r') ∧ Rel r' v' := by
  simp only [View.advance] at hv
  split at hv
  · rename_i hn
    simp at hv; subst hv
    have hnv : n ≤ r.validLen := Nat.le_trans hn h.buffered
    rcases advance_spec r h.ok n with ⟨_, r', e, eff, hs, hm, hc, hi, _⟩ | ⟨hlt, _⟩
    · refine ⟨r', e, ?_⟩
      exact { ok := eff.ok, honest := by rw [hs]; exact h.honest,
              rest := by
                simp only [h.rest]
                exact (rest_drop_of_advance r r' n hnv h.ok eff.window hs).symm,
              fault := by simp [h.fault, hs], sawEnd := by simp [h.sawEnd, hc],
              ioErr := by simp [h.ioErr, hi], pos := by simp [h.pos, eff.position],
              mark := by simp [h.mark, hm],
              buffered := by
                have hb := h.buffered
                have := eff.validLen
                simp only [View.demanded, List.length_drop] at hb hn ⊢
                simp only [List.length_nil] at this
                omega }
    · omega
  · simp at hv

/-- `&buf()[..n]` for a demanded `n`: the first `n` bytes of the stream. -/
theorem bufPrefix {r : Reader} {v : View} (h : Rel r v) (n : Nat) (bs : VBytes)
    (hv : v.bufPrefix n = some bs) : n ≤ r.validLen ∧ r.window.take n = bs := by
  simp only [View.bufPrefix] at hv
  split at hv
  · rename_i hn
    simp at hv; subst hv
    have hnv : n ≤ r.validLen := Nat.le_trans hn h.buffered
    refine ⟨hnv, ?_⟩
    rw [h.rest]
    simp only [Reader.rest]
    rw [List.take_append_of_le_length (by rw [h.ok.window_length]; exact hnv)]
  · simp at hv

theorem setMark {r : Reader} {v : View} (h : Rel r v) (hp : r.position < usizeModulus) :
    Rel r.setMark v.setMark := by
  have hm : r.setMark.mark = r.position := by
    simp only [Reader.setMark, Reader.mark, Reader.position] at *
    have : ((r.posOfBuf : Int) + (r.posInBuf : Int)) % (usizeModulus : Int) = (r.posOfBuf + r.posInBuf : Nat) := by
      rw [← Int.natCast_add]; exact Int.emod_eq_of_lt (by omega) (by exact_mod_cast hp)
    rw [this]; omega
  exact { ok := ⟨h.ok.inBuf, h.ok.chunkPos, h.ok.errC, h.ok.endC, h.ok.after, h.ok.wf⟩,
          honest := h.honest, rest := by simp [View.setMark, Reader.setMark, h.rest, Reader.rest, window],
          fault := h.fault, sawEnd := h.sawEnd, ioErr := h.ioErr,
          pos := by simp [View.setMark, Reader.setMark, h.pos, position],
          mark := by rw [hm]; simp [View.setMark, h.pos],
          buffered := h.buffered }

theorem checkIoError {r : Reader} {v : View} (h : Rel r v) :
    r.checkIoError.1 = v.checkIoError.1 ∧ Rel r.checkIoError.2 v.checkIoError.2 := by
  refine ⟨by simp [Reader.checkIoError, View.checkIoError, h.ioErr], ?_⟩
  exact { ok := ⟨h.ok.inBuf, h.ok.chunkPos, fun hf => absurd hf (by simp [Reader.checkIoError]),
                  h.ok.endC, h.ok.after, h.ok.wf⟩,
          honest := h.honest, rest := by simp [View.checkIoError, Reader.checkIoError, h.rest, Reader.rest, window],
          fault := h.fault, sawEnd := h.sawEnd, ioErr := rfl,
          pos := by simp [View.checkIoError, Reader.checkIoError, h.pos, position],
          mark := by simp [View.checkIoError, Reader.checkIoError, h.mark, Reader.mark],
          buffered := h.buffered }

/-- The passive observers agree. -/
theorem observers {r : Reader} {v : View} (h : Rel r v) :
    r.position = v.pos ∧ r.mark = v.mark ∧ r.isAtEnd = v.isAtEnd ∧ r.ioError = v.ioErr ∧
    r.isComplete = v.sawEnd := by
  refine ⟨h.pos.symm, h.mark.symm, ?_, h.ioErr.symm, h.sawEnd.symm⟩
  simp only [Reader.isAtEnd, View.isAtEnd, h.sawEnd, h.rest]
  cases hc : r.complete
  · simp
  · simp only [Bool.true_and]
    rw [h.ok.complete_rest hc]
    have := h.ok.window_length
    cases hw : r.window with
    | nil => rw [hw] at this; simp at this; simp [← this]
    | cons a t => rw [hw] at this; simp at this; simp; omega

/-- A freshly built reader is a concrete state of the initial view of its stream. -/
theorem init (src : Source) (hfresh : src.ended = false) (hafter : src.afterEnd = 0)
    (hh : src.Honest) : Rel (Reader.mk' src) (View.init (src.pre ++ src.data) src.fault) :=
  { ok := ⟨by simp [mk'], by simp [mk'], by simp [mk'], by simp [mk', hfresh], by simp [mk', hafter],
           by simp [mk', hfresh]⟩,
    honest := hh, rest := by simp [View.init, mk', Reader.rest, window],
    fault := rfl, sawEnd := rfl, ioErr := rfl, pos := by simp [View.init, mk', position],
    mark := by simp [View.init, mk', Reader.mark], buffered := by simp [View.init, View.demanded, mk'] }

end Rel
end Flussab
