/-
Proofs of the tie between the generated writer model (`Gen/WriterGen.lean` from `deferred_writer.rs`,
`Gen/WriteTextGen.lean` from `write/text.rs`) and `Model/Writer.lean`.  The statements that count are
collected in `Props/TieWriter.lean`.
-/
import Flussab.Model.WriterGenRun
import Flussab.Proof.WriterOps

namespace Flussab
namespace TieWriterAux

theorem flushDeferErr_eq (w : Writer) : Gen.Writer.flushDeferErr w = w.flushDeferErr := by
  unfold Gen.Writer.flushDeferErr Writer.flushDeferErr
  cases he : w.ioError
  · simp [WriterExt.optOfBool, WriterExt.sinkWriteAll, WriterExt.clear, he]
    rcases w.sink.writeAll w.buf with ⟨res, s⟩
    cases res <;> simp
  · simp [WriterExt.optOfBool, WriterExt.clear, he]

theorem writeCold_eq' (w : Writer) (bs : WBytes) (h : w.buf.length ≤ w.cap)
    (hc : bs.length < w.cap → w.cap ≤ w.buf.length + bs.length) :
    Gen.Writer.writeAllDeferErrCold bs w = w.writeCold bs := by
  unfold Gen.Writer.writeAllDeferErrCold Writer.writeCold
  by_cases hs : bs.length < w.cap
  · have hk : w.cap - w.buf.length ≤ bs.length := by have := hc hs; omega
    have h1 : (w.buf ++ bs.take (w.cap - w.buf.length)).length ≤ w.cap := by
      simp only [List.length_append, List.length_take]; omega
    simp [hs, RM.usub_apply, h, WriterExt.splitAtChecked, hk, WriterExt.extendFromSlice, flushDeferErr_eq]
    obtain ⟨f1, f2, f3⟩ := Writer.flushDeferErr_len { w with buf := w.buf ++ bs.take (w.cap - w.buf.length) } h1
    generalize ({ w with buf := w.buf ++ bs.take (w.cap - w.buf.length) } : Writer).flushDeferErr = r at *
    obtain ⟨o, w2⟩ := r
    cases o with
    | none => rfl
    | some u =>
      simp only at f1 f2 f3 ⊢
      have hb := f3 trivial
      have hlt : bs.length - (w.cap - w.buf.length) < w2.cap := by rw [f2]; omega
      have hle : bs.length - (w.cap - w.buf.length) ≤ w2.cap := by omega
      simp [hlt, hb, WriterExt.extendFromSlice, hle]
  · simp [hs, flushDeferErr_eq]
    obtain ⟨f1, f2, f3⟩ := Writer.flushDeferErr_len w h
    generalize w.flushDeferErr = r at *
    obtain ⟨o, w2⟩ := r
    cases o with
    | none => rfl
    | some u =>
      simp only at f1 f2 f3 ⊢
      have hge : ¬ bs.length < w2.cap := by rw [f2]; exact hs
      simp only [hge, ↓reduceIte]
      cases he : w2.ioError
      · simp [WriterExt.optOfBool, WriterExt.sinkWriteAll, he]
        rcases w2.sink.writeAll bs with ⟨res, s⟩
        cases res <;> simp
      · simp [WriterExt.optOfBool, he]

theorem take_length_add (a b : WBytes) (n : Nat) : (a ++ b).take (a.length + n) = a ++ b.take n := by
  induction a with
  | nil => simp
  | cons x a ih => simpa [Nat.add_right_comm a.length 1 n] using ih

theorem writeAllDeferErr_eq (w : Writer) (bs : WBytes) (h : w.buf.length ≤ w.cap) :
    Gen.Writer.writeAllDeferErr bs w = w.writeAllDeferErr bs := by
  unfold Gen.Writer.writeAllDeferErr Writer.writeAllDeferErr
  by_cases hf : w.buf.length + bs.length ≤ w.cap
  · simp [hf, WriterExt.copyToSpare, WriterExt.setLen, take_length_add]
  · have hc : bs.length < w.cap → w.cap ≤ w.buf.length + bs.length := by omega
    simp [hf, writeCold_eq' w bs h hc]
    rcases w.writeCold bs with ⟨_ | u, w'⟩ <;> rfl

theorem bufWritePtr_eq (w : Writer) (len : Nat) :
    Gen.Writer.bufWritePtr len w =
      (some (if w.buf.length + len ≤ w.cap then some w.buf.length else none), w) := by
  unfold Gen.Writer.bufWritePtr
  by_cases hf : w.buf.length + len ≤ w.cap
  · have : w.buf.length ≤ w.cap := by omega
    simp [hf, WriterExt.ptrAdd, this]
  · simp [hf]

theorem advanceUnchecked_eq (w : Writer) (len : Nat) (spare : WBytes)
    (h : w.buf.length + len ≤ w.cap) (hs : len ≤ spare.length) :
    Gen.Writer.advanceUnchecked len spare w = (some (), { w with buf := w.buf ++ spare.take len }) := by
  unfold Gen.Writer.advanceUnchecked
  simp [h, WriterExt.setLen, hs, take_length_add]

theorem checkIoError_eq (w : Writer) :
    Gen.Writer.checkIoError w =
      (some (if w.ioError then Except.error IoErr.other else Except.ok ()), w.checkIoError.2) := by
  simp [Gen.Writer.checkIoError, Writer.checkIoError, WriterExt.takeIoError, WriterExt.optOfBool]
  cases w.ioError <;> simp

theorem write_eq (w : Writer) (bs : WBytes) (h : w.buf.length ≤ w.cap) :
    Gen.Writer.write bs w = match w.writeAllDeferErr bs with
      | (none, w') => (none, w')
      | (some (), w') => (some (Except.ok bs.length), w') := by
  simp only [Gen.Writer.write, RM.bind_apply, writeAllDeferErr_eq w bs h]
  rcases w.writeAllDeferErr bs with ⟨_ | u, w'⟩ <;> rfl

theorem writeAll_eq (w : Writer) (bs : WBytes) (h : w.buf.length ≤ w.cap) :
    Gen.Writer.writeAll bs w = match w.writeAllDeferErr bs with
      | (none, w') => (none, w')
      | (some (), w') => (some (Except.ok ()), w') := by
  simp only [Gen.Writer.writeAll, RM.bind_apply, writeAllDeferErr_eq w bs h]
  rcases w.writeAllDeferErr bs with ⟨_ | u, w'⟩ <;> rfl

theorem flush_eq (w : Writer) :
    Gen.Writer.flush w = match w.flush with
      | (none, w') => (none, w')
      | (some e, w') => (some (if e then Except.error IoErr.other else Except.ok ()), w') := by
  simp only [Gen.Writer.flush, Writer.flush, RM.bind_apply, flushDeferErr_eq]
  rcases w.flushDeferErr with ⟨_ | u, w'⟩
  · rfl
  · simp only [checkIoError_eq, Writer.checkIoError]
    rcases w' with ⟨s, b, c, e, p⟩
    cases e <;> rfl

theorem drop_eq (w : Writer) : Gen.Writer.drop w = w.drop := by
  unfold Gen.Writer.drop Writer.drop
  cases hp : w.panicked
  · simp [hp, flushDeferErr_eq]
    rcases w.flushDeferErr with ⟨_ | u, w'⟩ <;> rfl
  · simp [hp]

theorem genPtrWrite_eq (w : Writer) (len : Nat) (bs : WBytes) :
    TieWriter.genPtrWrite len bs w = (some (w.ptrWrite len bs).1, (w.ptrWrite len bs).2) := by
  unfold TieWriter.genPtrWrite Writer.ptrWrite
  simp only [RM.bind_apply, bufWritePtr_eq]
  by_cases hf : w.buf.length + len ≤ w.cap
  · have h1 : w.buf.length + (bs.take len).length ≤ w.cap := by
      simp only [List.length_take]; omega
    simp only [hf, ↓reduceIte, RM.bind_apply]
    rw [advanceUnchecked_eq w _ _ h1 (Nat.le_refl _)]
    simp only [List.take_length, RM.pure_apply]
  · simp [hf]

theorem asciiDigitsCold_eq (w : Writer) (sg : Bool) (bits : Nat) (x : Int) (h : w.buf.length ≤ w.cap) :
    Gen.WriteText.asciiDigitsCold sg bits x w = w.writeAllDeferErr (Writer.intDigits x) := by
  simp only [Gen.WriteText.asciiDigitsCold, RM.bind_apply, write_eq w _ h]
  rcases w.writeAllDeferErr (Writer.intDigits x) with ⟨_ | u, w'⟩ <;> rfl

theorem asciiDigits_eq (w : Writer) (sg : Bool) (bits : Nat) (x : Int) (h : w.buf.length ≤ w.cap)
    (hv : (Writer.intDigits x).length ≤ Writer.maxLen sg bits) :
    Gen.WriteText.asciiDigits sg bits x w = w.asciiDigits sg bits x := by
  unfold Gen.WriteText.asciiDigits Writer.asciiDigits
  simp only [RM.bind_apply, bufWritePtr_eq]
  by_cases hf : w.buf.length + Writer.maxLen sg bits ≤ w.cap
  · have h1 : w.buf.length + (Writer.intDigits x).length ≤ w.cap := by omega
    simp only [hf, ↓reduceIte, Option.isNone_some, Bool.false_eq_true, WriterExt.writeToPtr, and_self,
      RM.bind_apply]
    rw [advanceUnchecked_eq w _ _ h1 (Nat.le_refl _)]
    simp only [List.take_length, RM.pure_apply]
  · simp [hf, asciiDigitsCold_eq w sg bits x h]
    rcases w.writeAllDeferErr (Writer.intDigits x) with ⟨_ | u, w'⟩ <;> rfl

end TieWriterAux
end Flussab
