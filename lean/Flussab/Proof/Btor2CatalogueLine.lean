/-
Prefix determinism inside a line (C08, replaced numeral token): the line parser of
`Model/Btor2.lean` and whole documents, run side by side on `pre ++ tok ++ post` and
`pre ++ tok' ++ post`.

`nextLine_pw`: from the two extensions of a short state, `next_line` leaves both runs inside `pre`
with the same line, or behind the replaced token in shifted states with lines that are both present
or both absent — unless run 1 fails or run 2 fails on the replaced token.  `driveLines_pw` iterates
this; `overflow_located` is the document-level statement.
-/
import Flussab.Proof.Btor2CatalogueCross

namespace Flussab
namespace Btor2
namespace Cat
open PM
open Gen.Btor2 (NodeToken NodeValueToken SortToken)

variable {X : Ctx} {α : Type}

/-! ### stuck on a digit -/

theorem newline_none {E : PErr → LR → Prop} {lr : LR} {x : UInt8} {tl : VBytes} (hr : lr.v.rest = x :: tl)
    (hx : x ≠ 10) : Wp E newline lr (fun r lr1 => r = none ∧ Adv lr 0 lr1) := by
  unfold newline
  refine Wp.bind' (Wp.reqAtA (Adv.refl lr) (k := 0) (by rw [hr]; simp)) ?_
  intro y lr1 ⟨hy, a1, _, _, _⟩
  have : y = some x := by rw [hy, hr]; rfl
  subst this
  have hne : ((some x : Option UInt8) == some 10) = false := by simpa using hx
  simp only [hne, Bool.false_eq_true, ↓reduceIte]
  exact Wp.pure ⟨rfl, a1⟩

theorem eof_none {E : PErr → LR → Prop} {lr : LR} {x : UInt8} {tl : VBytes} (hr : lr.v.rest = x :: tl) :
    Wp E eof lr (fun r lr1 => r = none ∧ Adv lr 0 lr1) := by
  unfold eof
  refine Wp.bind' (Wp.reqAtA (Adv.refl lr) (k := 0) (by rw [hr]; simp)) ?_
  intro y lr1 ⟨hy, a1, _, _, _⟩
  have : y = some x := by rw [hy, hr]; rfl
  subst this
  simp only [Option.isNone_some, Bool.false_eq_true, ↓reduceIte]
  exact Wp.pure ⟨rfl, a1⟩

theorem adv_still {lr lr1 : LR} (a : Adv lr 0 lr1) : Still lr lr1 :=
  ⟨by rw [a.pos]; rfl, a.line, a.lineStart⟩

theorem adv_rest0 {lr lr1 : LR} (a : Adv lr 0 lr1) : lr1.v.rest = lr.v.rest := by
  rw [a.rest]; rfl

theorem doomed_bind {β : Type} {m : PM α} {f : α → PM β} {t : LR} {E : PErr → LR → Prop}
    (h : Wp E m t (fun _ _ => False)) : ∀ b u', (m >>= f).run t ≠ (.ok b, u') := by
  intro b u' hrun
  have hw : Wp E (m >>= f) t (fun _ _ => False) := Wp.bind (h.mono (fun _ _ hh => hh.elim))
  exact hw.of_run.1 b u' hrun

/-- In front of a digit `trailer` fails at the cursor. -/
theorem trailer_dig {t : LR} (h : Dig t) : Wp (AtStart t) trailer t (fun _ _ => False) := by
  obtain ⟨d, tl, hr, hd⟩ := h
  unfold trailer
  refine Wp.bind' (space_none hr (dig_ne hd (c := 32) (Or.inl (by decide)))) ?_
  rintro r u ⟨rfl, a1⟩
  dsimp only
  refine Wp.bind' (newline_none (by rw [adv_rest0 a1]; exact hr) (dig_ne hd (c := 10) (Or.inl (by decide)))) ?_
  rintro r u2 ⟨rfl, a2⟩
  dsimp only
  exact unexpected_at ((adv_still a1).trans (adv_still a2))

/-! ### the line parser -/

theorem justiceLoop_pw (hX : X.OK) : ∀ (f1 f2 remaining : Nat) (acc : List Nat),
    PWP X (justiceLoop f1 remaining acc) (justiceLoop f2 remaining acc)
  | 0, _, _, _ => by
    unfold justiceLoop
    exact PW.left (fun _ _ _ h => by cases h)
  | f1 + 1, 0, _, _ => by
    intro s _
    rw [justiceLoop.eq_1]
    exact RWp.panicRight
  | f1 + 1, f2 + 1, remaining, acc => by
    unfold justiceLoop
    split
    · exact PW.pure _
    · exact PW.bindP (requiredSpace_pw hX) (fun _ => PW.bindP (requiredId_pw hX) (fun c =>
        justiceLoop_pw hX f1 f2 (remaining - 1) (c :: acc)))

local macro "pw_space" : tactic =>
  `(tactic| refine PW.bindP (requiredSpace_pw (by assumption)) (fun _ => ?_))
local macro "pw_id" : tactic =>
  `(tactic| refine PW.bindP (requiredId_pw (by assumption)) (fun _ => ?_))
local macro "pw_nonneg" : tactic =>
  `(tactic| refine PW.bindP (requiredNonneg_pw (by assumption)) (fun _ => ?_))

abbrev AnyR {β : Type} : β → β → Prop := fun _ _ => True
abbrev Any {β : Type} : β → Prop := fun _ => True

theorem valueVariant_pw (hX : X.OK) (tok : NodeValueToken) :
    PW X (valueVariant tok) (valueVariant tok) AnyR Any Any := by
  unfold valueVariant
  cases tok with
  | const =>
    pw_space
    exact PW.map (requiredConstant_pw hX binaryString isBinDigit
      (inR_scanWhile isBinDigit (by decide) (by decide)) (atB_scanWhile isBinDigit) (by decide) (by decide))
      (fun _ _ _ => trivial) (fun _ _ => trivial) (fun _ _ => trivial)
  | constd =>
    pw_space
    exact PW.map (requiredConstant_pw hX decimalString isDigit inR_decimalString atB_decimalString
      (by decide) (by decide)) (fun _ _ _ => trivial) (fun _ _ => trivial) (fun _ _ => trivial)
  | consth =>
    pw_space
    exact PW.map (requiredConstant_pw hX hexString isHexDigit
      (inR_scanWhile isHexDigit (by decide) (by decide)) (atB_scanWhile isHexDigit) (by decide) (by decide))
      (fun _ _ _ => trivial) (fun _ _ => trivial) (fun _ _ => trivial)
  | ones => exact PW.pure _
  | one => exact PW.pure _
  | zero => exact PW.pure _
  | input => exact PW.pure _
  | state => exact PW.pure _
  | extOp e =>
    pw_space; pw_id; pw_space; pw_nonneg
    exact PW.pure _
  | slice =>
    pw_space; pw_id; pw_space; pw_nonneg; pw_space; pw_nonneg
    exact PW.pure _
  | unaryOp t =>
    pw_space; pw_id
    exact PW.pure _
  | binaryOp b =>
    pw_space; pw_id; pw_space; pw_id
    exact PW.pure _
  | ternaryOp t =>
    pw_space; pw_id; pw_space; pw_id; pw_space; pw_id
    exact PW.pure _

theorem nodeVariant_pw (hX : X.OK) (tok : NodeToken) :
    PW X (nodeVariant tok) (nodeVariant tok) AnyR Any Any := by
  unfold nodeVariant
  cases tok with
  | sort =>
    pw_space
    refine PW.bindP (keywordToken_pw hX Gen.Btor2.sortToken).orGiveUp (fun st => ?_)
    cases st with
    | bitvec =>
      pw_space; pw_id
      exact PW.pure _
    | array =>
      pw_space; pw_id; pw_space; pw_id
      exact PW.pure _
  | assignment kind =>
    pw_space; pw_id; pw_space; pw_id; pw_space; pw_id
    exact PW.pure _
  | output kind =>
    pw_space; pw_id
    exact PW.pure _
  | justice =>
    pw_space; pw_id
    intro s hs
    refine RWp.getBind ?_
    exact (PW.bindP (justiceLoop_pw hX _ _ _ _) (fun nodes => PW.pure _)) s hs
  | value vt =>
    pw_space; pw_id
    exact PW.map (valueVariant_pw hX vt) (fun _ _ _ => trivial) (fun _ _ => trivial) (fun _ _ => trivial)

/-- `trailer`: shifted runs agree on whether a comment follows. -/
def RhoT (a b : Option VBytes × Bool) : Prop := a.2 = b.2

theorem trailer_pw (hX : X.OK) : PW X trailer trailer RhoT No1 No1 := by
  unfold trailer
  refine PW.bindP (space_pw hX) (fun r => ?_)
  split
  · refine PW.bindP (commentStart_pw hX) (fun r => ?_)
    split
    · exact PW.pure _
    · refine PW.bind (symbolName_pw hX) (fun r => ?_) (fun a1 a2 h => ?_) (fun _ h => h.elim)
        (fun _ h => h.elim)
      · split
        · refine PW.bindP (space_pw hX) (fun r => ?_)
          split
          · refine PW.bindP (commentStart_pw hX) (fun r => ?_)
            split
            · exact PW.pure _
            · exact PW.unexpected
          · refine PW.bindP (newline_pw hX) (fun r => ?_)
            split
            · exact PW.pure _
            · exact PW.unexpected
        · exact PW.unexpected
      · obtain ⟨h1, h2⟩ := h
        cases a1 with
        | none => cases h1
        | some sym1 =>
          cases a2 with
          | none => cases h2
          | some sym2 =>
            dsimp only
            refine ShWp.bind space_sh (fun b1 b2 hb => ?_)
            subst hb
            split
            · refine ShWp.bind commentStart_sh (fun c1 c2 hc => ?_)
              subst hc
              split
              · exact ShWp.pure rfl
              · exact ShWp.unexpected
            · refine ShWp.bind newline_sh (fun c1 c2 hc => ?_)
              subst hc
              split
              · exact ShWp.pure rfl
              · exact ShWp.unexpected
  · refine PW.bindP (newline_pw hX) (fun r => ?_)
    split
    · exact PW.pure _
    · exact PW.unexpected

/-- `try_node`: shifted runs agree on whether there is a node and whether a comment follows. -/
def RhoN (a b : Option (Node × Bool)) : Prop := a.map (·.2) = b.map (·.2)

theorem tryNode_pw (hX : X.OK) : PW X tryNode tryNode RhoN No1 (· = none) := by
  unfold tryNode
  refine PW.bind (positiveInt_pw hX) (fun r => ?_) (fun _ _ h => h.elim) (fun a2 ha u hd => ?_)
    (fun _ h => h.elim)
  · split
    · exact PW.pure _
    · pw_space
      refine PW.bindP (keywordToken_pw hX Gen.Btor2.nodeToken).orGiveUp (fun tok => ?_)
      refine PW.bind (nodeVariant_pw hX tok) (fun variant => ?_) (fun v1 v2 _ => ?_)
        (fun v2 _ u hd => ?_) (fun v1 _ u hd => ?_)
      · refine PW.bind (trailer_pw hX) (fun x => ?_) (fun x1 x2 h => ?_) (fun _ h => h.elim)
          (fun _ h => h.elim)
        · exact PW.pure _
        · obtain ⟨a1, b1⟩ := x1
          obtain ⟨a2, b2⟩ := x2
          have hb : b1 = b2 := h
          subst hb
          exact ShWp.pure rfl
      · refine ShWp.bind trailer_sh (fun x1 x2 h => ?_)
        subst h
        obtain ⟨a, b⟩ := x1
        exact ShWp.pure rfl
      · exact Wp.monoE (Wp.bind ((trailer_dig hd.1).mono (fun _ _ h => h.elim))) (atStart_loc hd.2)
      · exact doomed_bind (trailer_dig hd)
  · subst ha
    exact Wp.pure ⟨rfl, hd⟩

/-- `next_line`: shifted runs agree on whether a line was read. -/
def RhoL (a b : Option Line) : Prop := a.isSome = b.isSome

theorem nextLine_pw (hX : X.OK) : PW X nextLine nextLine RhoL No1 No1 := by
  unfold nextLine
  refine PW.bindP (skipWhitespace_pw hX) (fun _ => ?_)
  refine PW.bind (tryNode_pw hX) (fun r => ?_) (fun r1 r2 h => ?_) (fun a2 ha u hd => ?_)
    (fun _ h => h.elim)
  · split
    · split
      · exact PW.bind (commentBody_pw hX) (fun c => PW.pure _) (fun c1 c2 _ => ShWp.pure rfl)
          (fun _ h => h.elim) (fun _ h => h.elim)
      · exact PW.pure _
    · refine PW.bindP (commentStart_pw hX) (fun r => ?_)
      split
      · exact PW.bind (commentBody_pw hX) (fun c => PW.pure _) (fun c1 c2 _ => ShWp.pure rfl)
          (fun _ h => h.elim) (fun _ h => h.elim)
      · refine PW.bindP (eof_pw hX) (fun r => ?_)
        split
        · exact PW.bindP checkIoError_pw (fun _ => PW.pure _)
        · exact PW.unexpected
  · cases r1 with
    | none =>
      cases r2 with
      | some p2 => cases h
      | none =>
        dsimp only
        refine ShWp.mono (ρ := Eq) ?_ (fun a b hab => by subst hab; rfl)
        refine ShC.bind commentStart_sh (fun r => ?_)
        split
        · exact ShC.bind commentBody_sh (fun _ => ShC.pure _)
        · refine ShC.bind eof_sh (fun r => ?_)
          split
          · exact ShC.bind checkIoError_sh (fun _ => ShC.pure _)
          · exact ShWp.unexpected
    | some p1 =>
      cases r2 with
      | none => cases h
      | some p2 =>
        obtain ⟨n1, b1⟩ := p1
        obtain ⟨n2, b2⟩ := p2
        have hb : b1 = b2 := by
          have : some b1 = some b2 := h
          exact Option.some.inj this
        subst hb
        dsimp only
        split
        · exact ShWp.bind commentBody_sh (fun _ _ _ => ShWp.pure rfl)
        · exact ShWp.pure rfl
  · subst ha
    obtain ⟨⟨d, tl, hr, hdd⟩, hloc⟩ := hd
    dsimp only
    refine Wp.monoE (E1 := AtStart u) ?_ (atStart_loc hloc)
    refine Wp.bind' (commentStart_none hr (dig_ne hdd (c := 59) (Or.inr (by decide)))) ?_
    rintro r u1 ⟨rfl, a1⟩
    dsimp only
    refine Wp.bind' (eof_none (by rw [adv_rest0 a1]; exact hr)) ?_
    rintro r u2 ⟨rfl, a2⟩
    dsimp only
    exact unexpected_at ((adv_still a1).trans (adv_still a2))

/-! ### whole documents -/

theorem driveLines_pw (hX : X.OK) : ∀ (f1 f2 : Nat) (acc1 acc2 : List Line) (s : LR), St X s →
    (driveLines f1 acc1 (E X.q1 s)).2.1 = none →
    ∀ e, (driveLines f2 acc2 (E X.q2 s)).2.1 = some e → Good (Loc X) e
  | 0, _, _, _, _, _, h1, _, _ => by
    simp [driveLines] at h1
  | f1 + 1, 0, _, _, _, _, _, e, h2 => by
    simp only [driveLines, Option.some.injEq] at h2
    subst h2
    exact Good.panic _
  | f1 + 1, f2 + 1, acc1, acc2, s, hs, h1, e, h2 => by
    have hn := nextLine_pw hX s hs
    unfold driveLines at h1 h2
    rcases hr1 : nextLine.run (E X.q1 s) with ⟨e1 | a1, u1⟩
    · rw [hr1] at h1
      simp at h1
    · obtain ⟨hok, herr⟩ := hn a1 u1 hr1
      rcases hr2 : nextLine.run (E X.q2 s) with ⟨e2 | a2, u2⟩
      · rw [hr2] at h2
        simp only [Option.some.injEq] at h2
        subst h2
        exact herr _ _ hr2
      · rw [hr1] at h1
        rw [hr2] at h2
        rcases hok a2 u2 hr2 with ⟨rfl, s', hs', rfl, rfl⟩ | ⟨hρ, hsh⟩ | ⟨h, _⟩ | ⟨h, _⟩
        · cases a1 with
          | none => simp at h2
          | some l =>
            simp only at h1 h2
            exact driveLines_pw hX f1 f2 _ _ s' hs' h1 e h2
        · cases a1 with
          | none =>
            cases a2 with
            | none => simp at h2
            | some l2 => cases hρ
          | some l1 =>
            cases a2 with
            | none => cases hρ
            | some l2 =>
              simp only at h1 h2
              exact driveLines_sh f1 f2 _ _ u1 u2 hsh h1 e h2
        · exact h.elim
        · exact h.elim

theorem parseAll_snd (lr : LR) : (parseAll lr).2 = (driveLines (lr.v.rest.length + 2) [] lr).2.1 := by
  unfold parseAll
  generalize driveLines (lr.v.rest.length + 2) [] lr = r
  obtain ⟨items, fin, lr'⟩ := r
  rfl

/-- **Replaced numeral token** (document level): if `pre ++ tok ++ post` is accepted, `tok` and
`tok'` are digit strings, `tok'` does not fit in `u64`, the token is delimited, and
`pre ++ tok' ++ post` is rejected with a syntax error, then the error is on the line of the token and
its column lies on the token (first byte `≤ column ≤` last byte). -/
theorem overflow_located (pre tok tok' post : VBytes) (l c : Nat)
    (hacc : (parseAll (LR.init (pre ++ tok ++ post) false)).2 = none)
    (hrej : (parseAll (LR.init (pre ++ tok' ++ post) false)).2 = some (.syn l c))
    (hne : tok ≠ []) (hd : tok.all isDigit = true) (hd' : tok'.all isDigit = true)
    (hbig : 2 ^ 64 ≤ Text.decVal tok')
    (hpre : pre = [] ∨ pre.getLast? = some 32 ∨ pre.getLast? = some 10)
    (hpost : post.head? = some 32 ∨ post.head? = some 10) :
    l = 1 + pre.count 10 ∧
    (pre.reverse.takeWhile (· != 10)).length + 1 ≤ c ∧
    c < (pre.reverse.takeWhile (· != 10)).length + 1 + tok'.length := by
  let X : Ctx := ⟨tok, tok', post, 1 + pre.count 10, lll pre + 1⟩
  have hX : X.OK := ⟨hne, hd, hd', hbig, hpost⟩
  have hs : St X (LR.init pre false) := by
    refine ⟨rfl, ?_, fun _ => rfl, ?_, hpre⟩
    · intro h0
      refine ⟨Nat.le_refl _, ?_⟩
      show lll pre + 1 + 0 = 0 + pre.length + 1
      have h0' : pre.count 10 = 0 := h0
      rw [lll_no_lf h0']; omega
    · show 0 ≤ _
      exact Nat.zero_le _
  have e1 : LR.init (pre ++ tok ++ post) false = E X.q1 (LR.init pre false) := by
    simp [LR.init, View.init, E, Ctx.q1, X]
  have e2 : LR.init (pre ++ tok' ++ post) false = E X.q2 (LR.init pre false) := by
    simp [LR.init, View.init, E, Ctx.q2, X]
  rw [parseAll_snd, e1] at hacc
  rw [parseAll_snd, e2] at hrej
  have hg := driveLines_pw hX _ _ _ _ _ hs hacc _ hrej
  rcases hg with ⟨site, hsite⟩ | hloc
  · cases hsite
  · exact hloc l c rfl

end Cat
end Btor2
end Flussab
